(* Generic driver: each input line is "<entry> <hexfield>*"; output is "<hexfield>*".
   Fields are UTF-8; the model sees lists of code points (N). *)

let rec pos_of_int (n : int) : Model.positive =
  if n = 1 then Model.XH else if n land 1 = 0 then Model.XO (pos_of_int (n lsr 1)) else Model.XI (pos_of_int (n lsr 1))
let n_of_int (n : int) : Model.n = if n = 0 then Model.N0 else Model.Npos (pos_of_int n)
let rec int_of_pos = function Model.XH -> 1 | Model.XO p -> 2 * int_of_pos p | Model.XI p -> 2 * int_of_pos p + 1
let int_of_n = function Model.N0 -> 0 | Model.Npos p -> int_of_pos p

let unhex (s : string) : string =
  if s = "-" then "" else
  String.init (String.length s / 2) (fun i -> Char.chr (int_of_string ("0x" ^ String.sub s (2*i) 2)))

(* UTF-8 decode to code points; invalid bytes become U+FFFD *)
let decode (s : string) : Model.n list =
  let n = String.length s in
  let out = ref [] in
  let i = ref 0 in
  while !i < n do
    let c = Char.code s.[!i] in
    let cont k = if !i + k < n then Char.code s.[!i + k] land 0x3f else 0 in
    let (cp, len) =
      if c < 0x80 then (c, 1)
      else if c land 0xe0 = 0xc0 then (((c land 0x1f) lsl 6) lor cont 1, 2)
      else if c land 0xf0 = 0xe0 then (((c land 0x0f) lsl 12) lor (cont 1 lsl 6) lor cont 2, 3)
      else if c land 0xf8 = 0xf0 then (((c land 0x07) lsl 18) lor (cont 1 lsl 12) lor (cont 2 lsl 6) lor cont 3, 4)
      else (0xfffd, 1) in
    out := n_of_int cp :: !out;
    i := !i + len
  done;
  List.rev !out

let encode (l : Model.n list) : string =
  let b = Buffer.create 16 in
  List.iter (fun x ->
    let c = int_of_n x in
    if c < 0x80 then Buffer.add_char b (Char.chr c)
    else if c < 0x800 then begin
      Buffer.add_char b (Char.chr (0xc0 lor (c lsr 6)));
      Buffer.add_char b (Char.chr (0x80 lor (c land 0x3f))) end
    else if c < 0x10000 then begin
      Buffer.add_char b (Char.chr (0xe0 lor (c lsr 12)));
      Buffer.add_char b (Char.chr (0x80 lor ((c lsr 6) land 0x3f)));
      Buffer.add_char b (Char.chr (0x80 lor (c land 0x3f))) end
    else begin
      Buffer.add_char b (Char.chr (0xf0 lor (c lsr 18)));
      Buffer.add_char b (Char.chr (0x80 lor ((c lsr 12) land 0x3f)));
      Buffer.add_char b (Char.chr (0x80 lor ((c lsr 6) land 0x3f)));
      Buffer.add_char b (Char.chr (0x80 lor (c land 0x3f))) end) l;
  Buffer.contents b

let hex (s : string) : string =
  if s = "" then "-" else
  String.concat "" (List.map (fun c -> Printf.sprintf "%02x" (Char.code c)) (List.of_seq (String.to_seq s)))

let () =
  try
    while true do
      let line = input_line stdin in
      if line <> "" then begin
        match String.split_on_char ' ' line with
        | [] -> ()
        | name :: fields ->
          let args = List.map (fun f -> decode (unhex f)) fields in
          let res = Model.dispatch (decode name) args in
          print_endline (String.concat " " (List.map (fun r -> hex (encode r)) res))
      end
    done
  with End_of_file -> ()
