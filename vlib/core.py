"""Shared machinery of the /verif checks: builds, audit, model/impl runners, evidence."""
import fcntl, glob, hashlib, json, os, re, subprocess, sys, time

ROOT = os.path.dirname(os.path.dirname(os.path.abspath(__file__)))
COQ = os.path.join(ROOT, "coq")
OCAML = os.path.join(ROOT, "ocaml")
HARNESS = os.path.join(ROOT, "harness")
CACHE = os.path.join(ROOT, ".cache")
SCRATCH = os.environ.get("VERIF_SCRATCH", "/var/tmp/brush-verif-scratch")
REPO = "/repo"
NPROC = os.cpu_count() or 4

FORBIDDEN = [r"\bAdmitted\b", r"\badmit\b", r"\bAxiom\b", r"\bAxioms\b", r"\bParameter\b", r"\bParameters\b",
             r"\bConjecture\b", r"Unset\s+Guard", r"bypass_check", r"Admit\s+Obligations",
             r"Unset\s+Positivity", r"Unset\s+Universe\s+Checking", r"type-in-type", r"impredicative-set",
             r"\bhammer\b"]
# stdlib axioms that may appear under Print Assumptions (named in the trusted base when seen)
AXIOM_ALLOW = {
    "functional_extensionality_dep", "proof_irrelevance", "classic", "JMeq_eq",
    "propositional_extensionality", "Eqdep.Eq_rect_eq.eq_rect_eq", "eq_rect_eq",
    "ClassicalDedekindReals.sig_forall_dec", "ClassicalDedekindReals.sig_not_dec",
}


class CheckBroken(Exception):
    pass


def log(*a):
    print(*a, file=sys.stderr, flush=True)


def sh(cmd, cwd=None, timeout=3600, env=None, input=None):
    e = dict(os.environ)
    e.update({"CARGO_NET_OFFLINE": "true"})
    if env:
        e.update(env)
    p = subprocess.run(cmd, cwd=cwd, shell=isinstance(cmd, str), stdout=subprocess.PIPE,
                       stderr=subprocess.STDOUT, timeout=timeout, env=e, input=input)
    return p.returncode, p.stdout.decode("utf-8", "replace")


class Lock:
    def __init__(self, name="build"):
        os.makedirs(CACHE, exist_ok=True)
        self.path = os.path.join(CACHE, name + ".lock")

    def __enter__(self):
        self.f = open(self.path, "w")
        fcntl.flock(self.f, fcntl.LOCK_EX)
        return self

    def __exit__(self, *a):
        fcntl.flock(self.f, fcntl.LOCK_UN)
        self.f.close()


# ---------------------------------------------------------------- Coq

def coq_sources():
    out = []
    for dp, dn, fn in os.walk(os.path.join(COQ, "theories")):
        for f in fn:
            if f.endswith(".v"):
                out.append(os.path.relpath(os.path.join(dp, f), COQ))
    return sorted(out)


def audit_forbidden():
    """grep the whole development for constructs that would void the proofs"""
    bad = []
    for rel in coq_sources():
        txt = open(os.path.join(COQ, rel), encoding="utf-8").read()
        # strip comments (nested) before matching
        txt = strip_comments(txt)
        for pat in FORBIDDEN:
            for m in re.finditer(pat, txt):
                bad.append("%s: %s" % (rel, m.group(0)))
        # Variable/Hypothesis outside a section declare axioms
        depth = 0
        for line in txt.split("\n"):
            if re.match(r"\s*Section\s+\w+", line):
                depth += 1
            elif re.match(r"\s*End\s+\w+", line) and depth > 0:
                depth -= 1
            elif depth == 0 and re.match(r"\s*(Variable|Variables|Hypothesis|Hypotheses|Context)\b", line):
                bad.append("%s: %s outside a section" % (rel, line.strip()))
    return bad


def strip_comments(txt):
    out = []
    depth = 0
    i = 0
    n = len(txt)
    instr = False
    while i < n:
        if depth == 0 and txt[i] == '"':
            instr = not instr
            out.append(txt[i]); i += 1; continue
        if not instr and txt.startswith("(*", i):
            depth += 1; i += 2; continue
        if not instr and depth > 0 and txt.startswith("*)", i):
            depth -= 1; i += 2; continue
        if depth == 0:
            out.append(txt[i])
        elif txt[i] == "\n":
            out.append("\n")
        i += 1
    return "".join(out)


def coq_makefile():
    srcs = coq_sources()
    stamp = os.path.join(COQ, ".srclist")
    cur = "\n".join(srcs)
    old = open(stamp).read() if os.path.exists(stamp) else None
    if old != cur or not os.path.exists(os.path.join(COQ, "Makefile")):
        rc, out = sh(["coq_makefile", "-f", "_CoqProject", "-o", "Makefile"] + srcs, cwd=COQ)
        if rc != 0:
            raise CheckBroken("coq_makefile failed: " + out)
        open(stamp, "w").write(cur)


def coq_make(targets=None, timeout=3000):
    """full .vo build of the given targets (all when None); returns (ok, output)"""
    with Lock("coq"):
        coq_makefile()
        cmd = ["make", "-j%d" % NPROC]
        if targets:
            cmd += targets
        rc, out = sh(cmd, cwd=COQ, timeout=timeout)
        return rc == 0, out


def coq_props(pid, timeout=900):
    """Re-check theories/Properties/<pid>.v with coqc (its dependencies are built by make first)
    and return (ok, output, theorems, axioms)."""
    rel = "theories/Properties/%s.v" % pid
    src = open(os.path.join(COQ, rel), encoding="utf-8").read()
    theorems = re.findall(r"^\s*Theorem\s+(\w+)", strip_comments(src), flags=re.M)
    deps_ok, out = coq_make(["theories/Properties/%s.vo" % pid], timeout=timeout)
    if not deps_ok:
        return False, out, theorems, []
    os.makedirs(CACHE, exist_ok=True)
    tmpd = os.path.join(CACHE, "props-%s-%d" % (pid, os.getpid()))
    os.makedirs(tmpd, exist_ok=True)
    tmpvo = os.path.join(tmpd, "%s.vo" % pid)
    rc, out2 = sh(["coqc", "-Q", "theories", "BV", "-w", "-notation-overridden,-deprecated-hint-without-locality",
                   "-o", tmpvo, rel], cwd=COQ, timeout=timeout)
    import shutil
    shutil.rmtree(tmpd, ignore_errors=True)
    axioms = parse_assumptions(out2)
    return rc == 0, out + out2, theorems, axioms


def parse_assumptions(out):
    """collect axiom names printed by Print Assumptions"""
    ax = []
    in_ax = False
    for line in out.split("\n"):
        if line.startswith("Axioms:"):
            in_ax = True
            continue
        if in_ax:
            m = re.match(r"^([A-Za-z_][\w.']*)\s*:", line)
            if m:
                ax.append(m.group(1))
            elif line and not line.startswith(" "):
                in_ax = False
    return sorted(set(ax))


# ---------------------------------------------------------------- OCaml runner

def build_runner(timeout=900):
    with Lock("ocaml"):
        ok, out = coq_make(["theories/Extract.vo"])
        if not ok:
            raise CheckBroken("model does not compile (Extract.vo):\n" + out[-3000:])
        rc, out = sh(["dune", "build", "./driver.exe"], cwd=OCAML, timeout=timeout)
        if rc != 0:
            raise CheckBroken("OCaml runner build failed:\n" + out[-3000:])
    return os.path.join(OCAML, "_build/default/driver.exe")


# ---------------------------------------------------------------- harness

def build_harness(release=False, timeout=3000):
    with Lock("cargo"):
        lock_src = os.path.join(REPO, "Cargo.lock")
        lock_dst = os.path.join(HARNESS, "Cargo.lock")
        if not os.path.exists(lock_dst):
            open(lock_dst, "wb").write(open(lock_src, "rb").read())
        cmd = ["cargo", "build", "--offline", "--features", "hooks"] + (["--release"] if release else [])
        rc, out = sh(cmd, cwd=HARNESS, timeout=timeout)
        if rc != 0:
            # the pinned lock may lag behind an edited /repo: retry from the repo's lock file
            open(lock_dst, "wb").write(open(lock_src, "rb").read())
            rc, out = sh(cmd, cwd=HARNESS, timeout=timeout)
        if rc != 0:
            raise CheckBroken("harness build failed (does /repo still compile?):\n" + out[-4000:])
    d = os.path.join(HARNESS, "target", "release" if release else "debug")
    return os.path.join(d, "brushverif"), os.path.join(d, "vbrush")


# ---------------------------------------------------------------- case I/O

def hx(s):
    if isinstance(s, str):
        s = s.encode("utf-8", "surrogateescape")
    return s.hex() if s else "-"


def unhx(h):
    return b"" if h == "-" else bytes.fromhex(h)


def enc_case(fields):
    return " ".join(hx(f) for f in fields)


def dec_line(line):
    line = line.strip()
    if not line:
        return []
    return [unhx(f).decode("utf-8", "replace") for f in line.split(" ")]


def run_sharded(cmd, lines, shards=None, timeout=1200, env=None):
    """feed `lines` (one case each) to `cmd` in parallel shards; returns output lines aligned with
    input; a shard that dies or times out yields 'DIED'/'TIMEOUT' for its unanswered cases."""
    if not lines:
        return []
    shards = shards or min(NPROC, max(1, len(lines) // 8))
    chunks = [lines[i::shards] for i in range(shards)]
    os.makedirs(SCRATCH, exist_ok=True)
    e = dict(os.environ)
    e["VERIF_SCRATCH"] = SCRATCH
    if env:
        e.update(env)
    procs = []
    for ch in chunks:
        p = subprocess.Popen(cmd, stdin=subprocess.PIPE, stdout=subprocess.PIPE, stderr=subprocess.DEVNULL, env=e)
        procs.append(p)
    import threading
    outs = [None] * shards

    def feed(i):
        try:
            o, _ = procs[i].communicate(("\n".join(chunks[i]) + "\n").encode(), timeout=timeout)
            outs[i] = (o.decode("utf-8", "replace").split("\n"), "DIED")
        except subprocess.TimeoutExpired:
            procs[i].kill()
            o, _ = procs[i].communicate()
            outs[i] = (o.decode("utf-8", "replace").split("\n"), "TIMEOUT")
    ths = [threading.Thread(target=feed, args=(i,)) for i in range(shards)]
    [t.start() for t in ths]
    [t.join() for t in ths]
    res = [None] * len(lines)
    for i in range(shards):
        got, why = outs[i]
        if got and got[-1] == "":
            got = got[:-1]
        for j, _ in enumerate(chunks[i]):
            res[i + j * shards] = got[j] if j < len(got) else why
    return res


def run_model(runner, entry, cases, timeout=1200):
    lines = [entry + ((" " + enc_case(c)) if c else "") for c in cases]
    return run_sharded([runner], lines, timeout=timeout)


def run_impl(harness_bin, sub, cases, timeout=1200, pre_encoded=False, shards=None, env=None):
    lines = cases if pre_encoded else [enc_case(c) for c in cases]
    return run_sharded([harness_bin, sub], lines, timeout=timeout, shards=shards, env=env)


# ---------------------------------------------------------------- in-Coq cross-check

def coq_eval(entry, cases, timeout=900):
    """evaluate dispatch on the cases inside Coq (vm_compute) and return encoded output lines,
    to bound the trust put in extraction"""
    def lst(s):
        return "[" + ";".join("%d%%N" % ord(ch) for ch in s) + "]"
    os.makedirs(CACHE, exist_ok=True)
    outs = []
    chunks = [cases[i::NPROC] for i in range(min(NPROC, len(cases)))]
    procs = []
    for k, ch in enumerate(chunks):
        path = os.path.join(CACHE, "cases_%d_%d.v" % (os.getpid(), k))
        with open(path, "w") as f:
            f.write("From BV Require Import Base.Prelude Dispatch.\nSet Printing Width 2000000.\nSet Printing Depth 10000000.\n")
            for c in ch:
                args = "[" + ";".join(lst(x) for x in c) + "]"
                f.write("Eval vm_compute in (dispatch %s %s).\n" % (lst(entry), args))
        procs.append((path, subprocess.Popen(["coqc", "-noglob", "-Q", os.path.join(COQ, "theories"), "BV", path],
                                             stdout=subprocess.PIPE, stderr=subprocess.STDOUT, cwd=CACHE)))
    per = []
    for path, p in procs:
        o, _ = p.communicate(timeout=timeout)
        per.append(parse_coq_lists(o.decode()))
        for ext in (".v", ".vo", ".vok", ".vos", ".glob"):
            try:
                os.remove(path[:-2] + ext)
            except OSError:
                pass
        try:
            os.remove(os.path.join(CACHE, "." + os.path.basename(path)[:-2] + ".aux"))
        except OSError:
            pass
    res = [None] * len(cases)
    for k, lst_ in enumerate(per):
        for j, v in enumerate(lst_):
            idx = k + j * len(chunks)
            if idx < len(res):
                res[idx] = v
    return res


def parse_coq_lists(out):
    """parse '= [[1%N; 2%N]; []] : list str' blocks into encoded lines"""
    res = []
    for blk in re.findall(r"=\s*(\[.*?\])\s*:\s*list", out, flags=re.S):
        s = re.sub(r"\s+", "", blk).replace("%N", "")
        # s like [[70;49];[];[1]]
        fields = []
        inner = s[1:-1]
        for m in re.finditer(r"\[([0-9;]*)\]", inner):
            nums = [int(x) for x in m.group(1).split(";") if x]
            fields.append("".join(chr(n) for n in nums))
        res.append(" ".join(hx(f) for f in fields))
    return res


# ---------------------------------------------------------------- known findings / evidence

def load_known(pid):
    p = os.path.join(ROOT, "known_findings.json")
    if not os.path.exists(p):
        return []
    return [f for f in json.load(open(p))["findings"] if f["property"] == pid]


def write_replay(pid, payload):
    d = os.path.join(ROOT, "evidence", "replay")
    os.makedirs(d, exist_ok=True)
    h = hashlib.sha1(json.dumps(payload, sort_keys=True, default=str).encode()).hexdigest()[:12]
    path = os.path.join(d, "%s-%s.json" % (pid, h))
    json.dump(payload, open(path, "w"), indent=1, default=str)
    return path


def write_evidence(pid, ev):
    os.makedirs(os.path.join(ROOT, "evidence"), exist_ok=True)
    json.dump(ev, open(os.path.join(ROOT, "evidence", pid + ".json"), "w"), indent=1, default=str)


def repo_rev():
    rc, out = sh("git -C /repo rev-parse HEAD; git -C /repo status --short | head -20")
    return out.strip()
