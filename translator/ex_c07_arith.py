"""gen/C07ArithTable.v from brush-parser/src/arithmetic.rs (the `precedence!{}` block of rule
`expression`, the character classes of the lexical rules, the radix bounds and digit maps of
`parse_shell_literal_number`) and MAX_VARIABLE_DEREF_DEPTH of brush-core/src/arithmetic.rs.

Every item is re-parsed from the current source; an unrecognised shape raises CheckBroken
(fail closed).  Rules are classified exactly as peg-macros 0.8.6 translate.rs does: from the
first and last element of a rule being a marker `@` / `(@)`."""
import os, re
from vlib import core
from translator import regen

BINOPS = {"Comma": "Comma", "LogicalOr": "LOr", "LogicalAnd": "LAnd", "BitwiseOr": "BOr", "BitwiseXor": "BXor",
          "BitwiseAnd": "BAnd", "Equals": "Eq", "NotEquals": "Ne", "LessThan": "Lt", "GreaterThan": "Gt",
          "LessThanOrEqualTo": "Le", "GreaterThanOrEqualTo": "Ge", "ShiftLeft": "Shl", "ShiftRight": "Shr",
          "Add": "Add", "Subtract": "Sub", "Multiply": "Mul", "Modulo": "Mod", "Divide": "Div", "Power": "Pow"}
UNOPS = {"LogicalNot": "LNot", "BitwiseNot": "BNot", "UnaryPlus": "UPlus", "UnaryMinus": "UMinus"}
INCOPS = {"PrefixIncrement": "PreInc", "PrefixDecrement": "PreDec", "PostfixIncrement": "PostInc",
          "PostfixDecrement": "PostDec"}


def broken(msg):
    raise core.CheckBroken("translator ex_c07_arith: " + msg)


def strip_line_comments(txt):
    out = []
    for line in txt.split("\n"):
        # no string literal of this grammar contains "//"
        i = line.find("//")
        out.append(line if i < 0 else line[:i])
    return "\n".join(out)


def balanced(txt, start, open_ch="{", close_ch="}"):
    """index just after the brace matching txt[start] (which must be open_ch); skips string and char literals"""
    assert txt[start] == open_ch
    depth = 0
    i = start
    n = len(txt)
    while i < n:
        c = txt[i]
        if c == '"':
            j = i + 1
            while txt[j] != '"':
                j += 2 if txt[j] == "\\" else 1
            i = j + 1
            continue
        if c == "'" and i + 2 < n and (txt[i + 2] == "'" or (txt[i + 1] == "\\" and txt[i + 3] == "'")):
            i += 3 if txt[i + 2] == "'" else 4
            continue
        if c == open_ch:
            depth += 1
        elif c == close_ch:
            depth -= 1
            if depth == 0:
                return i + 1
        i += 1
    broken("unbalanced braces")


def rust_char(tok):
    m = re.fullmatch(r"'(\\.|[^\\'])'", tok.strip())
    if not m:
        broken("unrecognised char literal %r" % tok)
    s = m.group(1)
    esc = {"\\t": "\t", "\\n": "\n", "\\r": "\r", "\\\\": "\\", "\\'": "'", "\\0": "\0"}
    if s.startswith("\\"):
        if s not in esc:
            broken("unrecognised escape %r" % s)
        s = esc[s]
    return ord(s)


def parse_class(body):
    """'a'..='z' | 'A' | '_'  ->  [(lo, hi)]"""
    out = []
    for alt in body.split("|"):
        alt = alt.strip()
        m = re.fullmatch(r"('(?:\\.|[^\\'])')\s*\.\.=\s*('(?:\\.|[^\\'])')", alt)
        if m:
            out.append((rust_char(m.group(1)), rust_char(m.group(2))))
        else:
            c = rust_char(alt)
            out.append((c, c))
    return out


def coq_class(cls):
    return "[" + "; ".join("(%d, %d)" % r for r in cls) + "]%N"


def coq_str(s):
    return "[" + "; ".join(str(ord(c)) for c in s) + "]%N"


ELEM_RE = re.compile(r"""\s*(?:
      (?P<marker>(?:(?P<mname>\w+)\s*:\s*)?(?P<m>\(@\)|@))
    | (?P<tok>"(?:[^"\\]|\\.)*")
    | (?P<neg>!\s*\[(?P<negbody>[^\]]*)\])
    | (?P<call>(?:(?P<cname>\w+)\s*:\s*)?(?P<fn>[A-Za-z_]\w*)\s*\(\s*\))
    | (?P<ws>_(?![\w(]))
    )""", re.X)


def parse_rule(line):
    """'<elements> { action }' -> (elements, action text)"""
    line = line.strip()
    b = line.rfind("{")
    # the action is the last top-level {...}
    depth = 0
    start = None
    i = 0
    while i < len(line):
        c = line[i]
        if c == '"':
            j = i + 1
            while line[j] != '"':
                j += 2 if line[j] == "\\" else 1
            i = j + 1
            continue
        if c == "'" and i + 2 < len(line) and line[i + 2] == "'":
            i += 3
            continue
        if c == "{":
            if depth == 0:
                start = i
            depth += 1
        elif c == "}":
            depth -= 1
        i += 1
    if start is None or depth != 0 or not line.endswith("}"):
        broken("rule without a trailing action block: %r" % line)
    elems_txt, action = line[:start], line[start + 1:-1].strip()
    elems = []
    pos = 0
    while pos < len(elems_txt):
        if elems_txt[pos:].strip() == "":
            break
        m = ELEM_RE.match(elems_txt, pos)
        if not m or m.end() == pos:
            broken("unrecognised rule element at %r in %r" % (elems_txt[pos:], line))
        if m.group("marker"):
            elems.append(("marker", m.group("mname"), m.group("m") == "(@)"))
        elif m.group("tok"):
            s = m.group("tok")[1:-1]
            if "\\" in s:
                broken("escape in operator literal %r" % s)
            elems.append(("tok", s))
        elif m.group("neg"):
            elems.append(("not", parse_class(m.group("negbody"))))
        elif m.group("call"):
            fn = m.group("fn")
            if fn not in ("expression", "lvalue", "literal_number"):
                broken("unknown sub-rule %s()" % fn)
            elems.append(("call", m.group("cname"), fn))
        elif m.group("ws"):
            elems.append(("ws",))
        pos = m.end()
    if not elems:
        broken("incomplete rule %r" % line)
    return elems, action


ARG = r"\s*(?:Box::new\(\s*(\w+)\s*\)|(\w+))\s*"


def parse_action(action, line):
    """-> (coq ctor, [arg names], [arg kinds expected])"""
    a = re.sub(r"\s+", " ", action.strip())
    def names(ms):
        return [x[0] or x[1] for x in ms]
    def boxed(ms):
        return [bool(x[0]) for x in ms]
    m = re.fullmatch(r"ast::ArithmeticExpr::BinaryOp\( ?ast::BinaryOperator::(\w+) ?,(.*)\)", a)
    if m and m.group(1) in BINOPS:
        args = re.findall(ARG, m.group(2))
        args = [x for x in args if x[0] or x[1]]
        if len(args) == 2 and boxed(args) == [True, True]:
            return "CBin %s" % BINOPS[m.group(1)], names(args), ["e", "e"]
    m = re.fullmatch(r"ast::ArithmeticExpr::BinaryAssignment\( ?ast::BinaryOperator::(\w+) ?,(.*)\)", a)
    if m and m.group(1) in BINOPS:
        args = [x for x in re.findall(ARG, m.group(2)) if x[0] or x[1]]
        if len(args) == 2 and boxed(args) == [False, True]:
            return "CBinAssign %s" % BINOPS[m.group(1)], names(args), ["t", "e"]
    m = re.fullmatch(r"ast::ArithmeticExpr::Assignment\((.*)\)", a)
    if m:
        args = [x for x in re.findall(ARG, m.group(1)) if x[0] or x[1]]
        if len(args) == 2 and boxed(args) == [False, True]:
            return "CAssign", names(args), ["t", "e"]
    m = re.fullmatch(r"ast::ArithmeticExpr::Conditional\((.*)\)", a)
    if m:
        args = [x for x in re.findall(ARG, m.group(1)) if x[0] or x[1]]
        if len(args) == 3 and boxed(args) == [True, True, True]:
            return "CCond", names(args), ["e", "e", "e"]
    m = re.fullmatch(r"ast::ArithmeticExpr::UnaryOp\( ?ast::UnaryOperator::(\w+) ?,(.*)\)", a)
    if m and m.group(1) in UNOPS:
        args = [x for x in re.findall(ARG, m.group(2)) if x[0] or x[1]]
        if len(args) == 1 and boxed(args) == [True]:
            return "CUn %s" % UNOPS[m.group(1)], names(args), ["e"]
    m = re.fullmatch(r"ast::ArithmeticExpr::UnaryAssignment\( ?ast::UnaryAssignmentOperator::(\w+) ?,(.*)\)", a)
    if m and m.group(1) in INCOPS:
        args = [x for x in re.findall(ARG, m.group(2)) if x[0] or x[1]]
        if len(args) == 1 and boxed(args) == [False]:
            return "CIncr %s" % INCOPS[m.group(1)], names(args), ["t"]
    m = re.fullmatch(r"ast::ArithmeticExpr::Literal\( ?(\w+) ?\)", a)
    if m:
        return "CLit", [m.group(1)], ["z"]
    m = re.fullmatch(r"ast::ArithmeticExpr::Reference\( ?(\w+) ?\)", a)
    if m:
        return "CRef", [m.group(1)], ["t"]
    m = re.fullmatch(r"(\w+)", a)
    if m:
        return "CId", [m.group(1)], ["e"]
    broken("unrecognised action %r in %r" % (action, line))


def translate_rule(line):
    elems, action = parse_rule(line)
    first, last = elems[0], elems[-1]
    fm, lm = first[0] == "marker", last[0] == "marker"
    # classification of translate.rs
    if fm and lm and len(elems) >= 3:
        kind = "KInfix %s %s" % (str(first[2]).lower(), str(last[2]).lower())
        if first[2] == last[2]:
            broken("rust-peg rejects this rule (associativity markers): %r" % line)
        mid = elems[1:-1]
        caps = [(first[1], "e")]
        tail = [(last[1], "e")]
    elif fm and len(elems) >= 2:
        kind = "KPostfix"
        mid = elems[1:]
        caps = [(first[1], "e")]
        tail = []
    elif lm and len(elems) >= 2:
        kind = "KPrefix %s" % str(last[2]).lower()
        mid = elems[:-1]
        caps = []
        tail = [(last[1], "e")]
    else:
        kind = "KAtom"
        mid = elems
        caps = []
        tail = []
    coq_elems = []
    for e in mid:
        if e[0] == "marker":
            broken("marker in the middle of a rule: %r" % line)
        if e[0] == "ws":
            coq_elems.append("EWs")
        elif e[0] == "tok":
            if e[1] == "":
                broken("empty operator literal")
            coq_elems.append("ETok %s" % coq_str(e[1]))
        elif e[0] == "not":
            coq_elems.append("ENot %s" % coq_class(e[1]))
        elif e[0] == "call":
            ty = {"expression": ("EExpr", "e"), "lvalue": ("ELval", "t"), "literal_number": ("ENum", "z")}[e[2]]
            if e[1] is None:
                broken("unlabelled sub-rule call in %r (the model captures every call)" % line)
            coq_elems.append(ty[0])
            caps.append((e[1], ty[1]))
    caps += tail
    ctor, argnames, kinds = parse_action(action, line)
    names = [c[0] for c in caps]
    if len(set(names)) != len(names) or None in names:
        broken("duplicate or missing capture labels in %r" % line)
    idx = []
    for nme, k in zip(argnames, kinds):
        if nme not in names:
            broken("action of %r uses unknown name %s" % (line, nme))
        j = names.index(nme)
        if caps[j][1] != k:
            broken("action of %r applies the constructor to a capture of the wrong kind" % line)
        idx.append(j)
    return "mkRule (%s) [%s] (%s) [%s]%%nat" % (kind, "; ".join(coq_elems), ctor, "; ".join(str(j) for j in idx))


def norm(s):
    return re.sub(r"\s+", " ", s).strip()


def grammar_block(src):
    m = re.search(r"grammar\s+arithmetic\(\)\s+for\s+str\s*\{", src)
    if not m:
        broken("grammar arithmetic() not found")
    end = balanced(src, m.end() - 1)
    return src[m.end():end - 1]


def rule_body(gsrc, name):
    """text of `rule name() -> T = <body>` up to the next rule of the grammar (or its end)"""
    m = re.search(r"(?:pub\(crate\)\s+)?rule\s+%s\s*\(\s*\)\s*(?:->\s*[^=]+?)?=" % re.escape(name), gsrc)
    if not m:
        broken("rule %s not found" % name)
    rest = gsrc[m.end():]
    m2 = re.search(r"\n\s*(?:pub\(crate\)\s+)?rule\s", rest)
    return norm(rest[:m2.start()] if m2 else rest)


def extract():
    path = os.path.join(core.REPO, "brush-parser", "src", "arithmetic.rs")
    raw = open(path, encoding="utf-8").read()
    src = strip_line_comments(raw)
    # ---- precedence block
    m = re.search(r"pub\(crate\)\s+rule\s+expression\(\)\s*->\s*ast::ArithmeticExpr\s*=\s*precedence!\s*\{", src)
    if not m:
        broken("rule expression() = precedence!{…} not found")
    end = balanced(src, m.end() - 1)
    block = src[m.end():end - 1]
    levels = [[]]
    for line in block.split("\n"):
        line = line.strip()
        if not line:
            continue
        if line == "--":
            levels.append([])
            continue
        levels[-1].append(translate_rule(line))
    if any(not lv for lv in levels):
        broken("empty precedence level")
    # ---- lexical rules: shape checks with the classes captured
    cls = r"\[([^\]]*)\]"
    gsrc = src
    src = grammar_block(src)
    fe = rule_body(src, "full_expression")
    if fe == norm("![_] { ast::ArithmeticExpr::Literal(0) } / _ e:expression() _ { e }"):
        blank_zero = False
    elif fe == norm("_ ![_] { ast::ArithmeticExpr::Literal(0) } / _ e:expression() _ { e }"):
        blank_zero = True
    else:
        broken("full_expression changed shape: %r" % fe)
    lv = rule_body(src, "lvalue")
    lv_tail = (' { ast::ArithmeticTarget::ArrayElement(name.to_owned(), Box::new(index)) } / '
               'name:variable_name() { ast::ArithmeticTarget::Variable(name.to_owned()) }')
    if lv == norm('name:variable_name() "[" index:expression() "]"' + lv_tail):
        subscript_ws = False
    elif lv == norm('name:variable_name() "[" _ index:expression() _ "]"' + lv_tail):
        subscript_ws = True
    else:
        broken("lvalue changed shape: %r" % lv)
    vn = rule_body(src, "variable_name")
    mv = re.fullmatch(r"\$\(%s\(%s\*\)\)" % (cls, cls), vn)
    if not mv:
        broken("variable_name changed shape: %r" % vn)
    name_start, name_cont = parse_class(mv.group(1)), parse_class(mv.group(2))
    ws = rule_body(src, "_")
    mw = re.fullmatch(r"quiet!\{%s\*\} \{\}" % cls, ws)
    if not mw:
        broken("rule _ changed shape: %r" % ws)
    ws_class = parse_class(mw.group(1))
    ln = rule_body(src, "literal_number")
    call = r'(i64::from_str_radix\(s, (\d+)\)\.or\(Err\("i64"\)\)|parse_shell_literal_number\(s, (\d+)\))'
    ml = re.fullmatch(
        r'radix:decimal_literal\(\) "(.)" s:\$\(%s\+\) \{\? parse_shell_literal_number\(s, radix\.cast_unsigned\(\)\) \} / '
        r'"(.)" %s s:\$\(%s\*\) \{\? %s \} / '
        r's:\$\("(.)" %s\*\) \{\? %s \} / '
        r'decimal_literal\(\)' % (cls, cls, cls, call, cls, call), ln)
    if not ml:
        broken("literal_number changed shape: %r" % ln)
    g = ml.groups()
    radix_sep, radix_digits = g[0], parse_class(g[1])
    hex_lead, hex_marker, hex_digits = g[2], parse_class(g[3]), parse_class(g[4])
    hex_wrap, hex_radix = g[5].startswith("parse_shell"), int(g[6] or g[7])
    oct_lead, oct_digits = g[8], parse_class(g[9])
    oct_wrap, oct_radix = g[10].startswith("parse_shell"), int(g[11] or g[12])
    dl = rule_body(src, "decimal_literal")
    md = re.fullmatch(r"s:\$\(%s %s\*\) \{\? (s\.parse::<u64>\(\)\.map\(\|v\| v\.cast_signed\(\)\)\.or\(Err\(\"i64\"\)\)|parse_shell_literal_number\(s, 10\)) \}" % (cls, cls), dl)
    if not md:
        broken("decimal_literal changed shape: %r" % dl)
    dec_first, dec_rest = parse_class(md.group(1)), parse_class(md.group(2))
    dec_wrap = md.group(3).startswith("parse_shell")
    if not (2 <= hex_radix <= 36 and 2 <= oct_radix <= 36):
        broken("from_str_radix radix out of range")
    # ---- parse_shell_literal_number
    src = gsrc
    mf = re.search(r"fn parse_shell_literal_number\(s: &str, radix: u64\) -> Result<i64, &'static str> \{", src)
    if not mf:
        broken("parse_shell_literal_number not found")
    fend = balanced(src, mf.end() - 1)
    body = norm(src[mf.end():fend - 1])
    arm = r"'(.)'\.\.='(.)' => \(ch as u64\) - \('(.)' as u64\)(?: \+ (\d+))?,"
    single = r"'(.)' => (\d+),"
    shape = (r"if !\((\d+)\.\.=(\d+)\)\.contains\(&radix\) \{ return Err\(\"invalid base\"\); \} "
             r"let mut result: i64 = 0; for ch in s\.chars\(\) \{ let digit_val = if radix <= (\d+) \{ match ch \{ (.*?) _ => return Err\(\"invalid digit\"\), \} \} "
             r"else \{ match ch \{ (.*?) _ => return Err\(\"invalid digit\"\), \} \}; "
             r"if digit_val >= radix \{ return Err\(\"value too great for base\"\); \} "
             r"result = result \.wrapping_mul\(radix\.cast_signed\(\)\) \.wrapping_add\(digit_val\.cast_signed\(\)\); \} Ok\(result\)")
    mb = re.fullmatch(shape, body)
    if not mb:
        broken("parse_shell_literal_number changed shape: %r" % body)
    radix_min, radix_max, ci_max = int(mb.group(1)), int(mb.group(2)), int(mb.group(3))

    def arms(txt):
        out = []
        pos = 0
        txt = txt.strip()
        while pos < len(txt):
            m1 = re.match(arm, txt[pos:])
            m2 = re.match(single, txt[pos:])
            if m1:
                lo, hi, base, off = m1.group(1), m1.group(2), m1.group(3), int(m1.group(4) or 0)
                if base != lo:
                    broken("digit arm subtracts a different base char: %r" % m1.group(0))
                out.append((ord(lo), ord(hi), off))
                pos += m1.end()
            elif m2:
                out.append((ord(m2.group(1)), ord(m2.group(1)), int(m2.group(2))))
                pos += m2.end()
            else:
                broken("unrecognised digit arm at %r" % txt[pos:])
            while pos < len(txt) and txt[pos] == " ":
                pos += 1
        return out
    dmap_ci, dmap_cs = arms(mb.group(4)), arms(mb.group(5))
    # ---- brush-core constant
    core_src = open(os.path.join(core.REPO, "brush-core", "src", "arithmetic.rs"), encoding="utf-8").read()
    mc = re.search(r"const MAX_VARIABLE_DEREF_DEPTH: u32 = (\d+);", core_src)
    if not mc:
        broken("MAX_VARIABLE_DEREF_DEPTH not found")
    mu = re.search(r"let new_depth = depth \+ 1;\s*if new_depth > MAX_VARIABLE_DEREF_DEPTH \{\s*return Err\(EvalError::RecursionLimitExceeded\);", core_src)
    if not mu:
        broken("the use of MAX_VARIABLE_DEREF_DEPTH in deref_lvalue changed shape")

    def dm(m):
        return "[" + "; ".join("(%d%%N, %d%%N, %d)" % a for a in m) + "]"
    out = ["(** GENERATED by translator/ex_c07_arith.py from %s - do not edit. *)" % "brush-parser/src/arithmetic.rs",
           "From BV Require Import Base.Prelude Arith.Ast Arith.Lit Arith.PegPrec.", "",
           "Definition arith_lex : lexcfg := {|",
           "  ws_class := %s;" % coq_class(ws_class),
           "  name_start := %s;" % coq_class(name_start),
           "  name_cont := %s;" % coq_class(name_cont),
           "  radix_sep := %d%%N;" % ord(radix_sep),
           "  radix_digits := %s;" % coq_class(radix_digits),
           "  hex_lead := %d%%N;" % ord(hex_lead),
           "  hex_marker := %s;" % coq_class(hex_marker),
           "  hex_digits := %s;" % coq_class(hex_digits),
           "  hex_radix := %d;" % hex_radix,
           "  oct_lead := %d%%N;" % ord(oct_lead),
           "  oct_digits := %s;" % coq_class(oct_digits),
           "  oct_radix := %d;" % oct_radix,
           "  dec_first := %s;" % coq_class(dec_first),
           "  dec_rest := %s;" % coq_class(dec_rest),
           "  radix_min := %d;" % radix_min,
           "  radix_max := %d;" % radix_max,
           "  radix_ci_max := %d;" % ci_max,
           "  dmap_ci := %s;" % dm(dmap_ci),
           "  dmap_cs := %s;" % dm(dmap_cs),
           "  max_deref_depth := %d;" % int(mc.group(1)),
           "  hex_wrap := %s;" % str(hex_wrap).lower(),
           "  oct_wrap := %s;" % str(oct_wrap).lower(),
           "  dec_wrap := %s;" % str(dec_wrap).lower(),
           "  blank_zero := %s;" % str(blank_zero).lower(),
           "  subscript_ws := %s" % str(subscript_ws).lower(),
           "|}.", "",
           "Definition arith_table : table := ["]
    lv_txt = []
    for lvl in levels:
        lv_txt.append("  [ " + ";\n    ".join(lvl) + " ]")
    out.append(";\n".join(lv_txt))
    out.append("].")
    return regen.write_if_changed("C07ArithTable.v", "\n".join(out) + "\n")


EXTRACTORS = {"c07_arith": extract}
USES = {"C07": ["c07_arith"]}
