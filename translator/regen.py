"""Regenerates coq/theories/gen/*.v from /repo's current sources. Each extractor re-parses the
exact Rust item, checks its shape and fails closed (CheckBroken) on an unrecognised shape."""
import os, re, sys
from vlib import core

GEN = os.path.join(core.COQ, "theories", "gen")

# property id -> list of extractor names
USES = {}
EXTRACTORS = {}


def write_if_changed(name, text):
    os.makedirs(GEN, exist_ok=True)
    p = os.path.join(GEN, name)
    old = open(p).read() if os.path.exists(p) else None
    if old != text:
        open(p, "w").write(text)
        return True
    return False


def regenerate_for(pid):
    notes = []
    for ex in USES.get(pid, []):
        changed = EXTRACTORS[ex]()
        notes.append("%s%s" % (ex, " (changed)" if changed else ""))
    return ", ".join(notes) if notes else "no regenerated table for this property"


def regenerate_all():
    for ex in sorted(EXTRACTORS):
        EXTRACTORS[ex]()
