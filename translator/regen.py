"""Regenerates coq/theories/gen/*.v from /repo's current sources. Each extractor re-parses the
exact Rust item, checks its shape and fails closed (CheckBroken) on an unrecognised shape."""
import os, re, sys
from vlib import core

GEN = os.path.join(core.COQ, "theories", "gen")

# property id -> list of extractor names
USES = {}
EXTRACTORS = {}


def _load():
    import glob, importlib
    for f in sorted(glob.glob(os.path.join(os.path.dirname(os.path.abspath(__file__)), "ex_*.py"))):
        m = importlib.import_module("translator." + os.path.basename(f)[:-3])
        for name, fn in getattr(m, "EXTRACTORS", {}).items():
            EXTRACTORS[name] = fn
        for pid, names in getattr(m, "USES", {}).items():
            USES.setdefault(pid, [])
            for n in names:
                if n not in USES[pid]:
                    USES[pid].append(n)


CURRENT = [None]
FILES = {}      # extractor name -> set of gen file names it wrote in this run


def write_if_changed(name, text):
    FILES.setdefault(CURRENT[0], set()).add(name)
    os.makedirs(GEN, exist_ok=True)
    p = os.path.join(GEN, name)
    old = open(p).read() if os.path.exists(p) else None
    if old != text:
        open(p, "w").write(text)
        return True
    return False


def regenerate_for(pid):
    _load()
    notes = []
    for ex in USES.get(pid, []):
        CURRENT[0] = ex
        changed = EXTRACTORS[ex]()
        notes.append("%s%s" % (ex, " (changed)" if changed else ""))
    # the shared runner links every model, so the other tables must exist too; a failure of an
    # extractor that this property does not use is not this property's alarm (its own check reports it)
    for ex in sorted(EXTRACTORS):
        if ex not in USES.get(pid, []):
            CURRENT[0] = ex
            try:
                EXTRACTORS[ex]()
            except Exception as e:  # noqa
                core.log("note: extractor %s (not used by %s) failed: %s" % (ex, pid, str(e)[:200]))
    return ", ".join(notes) if notes else "no regenerated table for this property"


GOOD = os.path.join(core.CACHE, "gen-good")


def snapshot_good():
    """remember the regenerated tables with which the whole development last built"""
    import shutil
    os.makedirs(GOOD, exist_ok=True)
    for f in os.listdir(GEN):
        if f.endswith(".v"):
            shutil.copyfile(os.path.join(GEN, f), os.path.join(GOOD, f))


def restore_foreign(pid):
    """A table regenerated for ANOTHER property no longer compiles (the source changed in that
    property's area): that is that property's alarm, not this one's. Put the last good copy of
    every table this property does not use back so that the shared runner builds again."""
    import shutil
    own = set()
    for ex in USES.get(pid, []):
        own |= FILES.get(ex, set())
    restored = []
    if not os.path.isdir(GOOD):
        return restored
    for f in os.listdir(GOOD):
        if f not in own and os.path.exists(os.path.join(GEN, f)):
            if open(os.path.join(GOOD, f)).read() != open(os.path.join(GEN, f)).read():
                shutil.copyfile(os.path.join(GOOD, f), os.path.join(GEN, f))
                restored.append(f)
    return restored


def regenerate_all():
    _load()
    for ex in sorted(EXTRACTORS):
        CURRENT[0] = ex
        EXTRACTORS[ex]()
