"""Regenerates coq/theories/gen/*.v from /repo's current sources. Each extractor re-parses the
exact Rust item, checks its shape and fails closed (CheckBroken) on an unrecognised shape."""
import os, re, sys
from vlib import core

GEN = os.path.join(core.COQ, "theories", "gen")

# property id -> list of extractor names
USES = {}
EXTRACTORS = {}


def _load():
    import glob, importlib
    for f in sorted(glob.glob(os.path.join(os.path.dirname(os.path.abspath(__file__)), "ex_*.py"))):
        m = importlib.import_module("translator." + os.path.basename(f)[:-3])
        for name, fn in getattr(m, "EXTRACTORS", {}).items():
            EXTRACTORS[name] = fn
        for pid, names in getattr(m, "USES", {}).items():
            USES.setdefault(pid, [])
            for n in names:
                if n not in USES[pid]:
                    USES[pid].append(n)


def write_if_changed(name, text):
    os.makedirs(GEN, exist_ok=True)
    p = os.path.join(GEN, name)
    old = open(p).read() if os.path.exists(p) else None
    if old != text:
        open(p, "w").write(text)
        return True
    return False


def regenerate_for(pid):
    _load()
    notes = []
    for ex in USES.get(pid, []):
        changed = EXTRACTORS[ex]()
        notes.append("%s%s" % (ex, " (changed)" if changed else ""))
    # the shared runner links every model, so the other tables must exist too; a failure of an
    # extractor that this property does not use is not this property's alarm (its own check reports it)
    for ex in sorted(EXTRACTORS):
        if ex not in USES.get(pid, []):
            try:
                EXTRACTORS[ex]()
            except Exception as e:  # noqa
                core.log("note: extractor %s (not used by %s) failed: %s" % (ex, pid, str(e)[:200]))
    return ", ".join(notes) if notes else "no regenerated table for this property"


def regenerate_all():
    _load()
    for ex in sorted(EXTRACTORS):
        EXTRACTORS[ex]()
