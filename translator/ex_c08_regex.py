"""C08RegexTables.v: the table-like parts of brush's pattern -> regex translation.

  brush-core/src/regex.rs    regex_char_is_special      (chars escaped in *literal* pattern pieces)
                             compile_regex              the flag prefix put before every pattern regex
  brush-parser/src/pattern.rs regex_char_needs_escaping (chars the PEG translator escapes)
                             rule char_class()          (the POSIX class names accepted in brackets)
                             rule extended_glob_prefix  (the five extglob prefix chars and their kinds)
                             rule invert_char           (the bracket inversion chars)

Each extractor re-parses the exact Rust item and fails closed on an unrecognised shape."""
import os, re
from vlib import core
from translator import regen


def _read(rel):
    return open(os.path.join(core.REPO, rel), encoding="utf-8").read()


def _char_lit(tok):
    tok = tok.strip()
    m = re.fullmatch(r"'(\\.|[^\\'])'", tok)
    if not m:
        raise core.CheckBroken("ex_c08_regex: unrecognised char literal %r" % tok)
    body = m.group(1)
    if body.startswith("\\"):
        esc = {"\\\\": "\\", "\\'": "'", "\\n": "\n", "\\t": "\t", "\\r": "\r", "\\0": "\0"}
        if body not in esc:
            raise core.CheckBroken("ex_c08_regex: unrecognised escape %r" % tok)
        return esc[body]
    return body


def _matches_fn(src, name, where):
    """pub(crate)? const fn NAME(c: char) -> bool { matches!( c, 'a' | 'b' | ... ) }"""
    m = re.search(r"(?:pub(?:\(crate\))?\s+)?const\s+fn\s+%s\s*\(\s*c\s*:\s*char\s*\)\s*->\s*bool\s*\{\s*matches!\s*\(\s*c\s*,(.*?)\n\s*\)\s*\}" % name,
                  src, flags=re.S)
    if not m:
        raise core.CheckBroken("ex_c08_regex: %s in %s no longer has the shape `matches!(c, 'x' | ...)`" % (name, where))
    body = m.group(1)
    # split on | outside quotes
    toks, cur, inq, i = [], "", False, 0
    while i < len(body):
        ch = body[i]
        if inq:
            cur += ch
            if ch == "\\":
                cur += body[i + 1]; i += 1
            elif ch == "'":
                inq = False
        elif ch == "'":
            inq = True; cur += ch
        elif ch == "|":
            toks.append(cur); cur = ""
        else:
            cur += ch
        i += 1
    toks.append(cur)
    chars = [_char_lit(t) for t in toks if t.strip()]
    if not chars:
        raise core.CheckBroken("ex_c08_regex: %s: empty char list" % name)
    return chars


def _peg_rule(src, name):
    """text of `rule NAME(...) ... =` up to the next blank-line-separated `rule`/closing brace"""
    m = re.search(r"\n\s*(?:pub(?:\(crate\))?\s+)?rule\s+%s\s*\([^)]*\)\s*(?:->\s*[^=]+)?=\s*(.*?)(?=\n\s*\n|\n\s*(?:pub(?:\(crate\))?\s+)?rule\s)" % name, src, flags=re.S)
    if not m:
        raise core.CheckBroken("ex_c08_regex: PEG rule %s not found in pattern.rs" % name)
    return m.group(1)


def nlist(chars):
    return "[" + "; ".join("%d%%N" % ord(c) for c in chars) + "]"


def strlit(s):
    return nlist(list(s))


def extract():
    rx = _read("brush-core/src/regex.rs")
    pt = _read("brush-parser/src/pattern.rs")
    special = _matches_fn(rx, "regex_char_is_special", "regex.rs")
    needs = _matches_fn(pt, "regex_char_needs_escaping", "pattern.rs")
    # flag prefix: exactly one std::format!("(?FLAGS){regex_str}") guarded by `if multiline`
    fm = re.findall(r'if\s+multiline\s*\{.*?std::format!\(\s*"(\(\?[a-zA-Z]*\))\{regex_str\}"\s*\)', rx, flags=re.S)
    if len(fm) != 1:
        raise core.CheckBroken("ex_c08_regex: compile_regex no longer prefixes the regex with one literal flag group under `if multiline`")
    prefix = fm[0]
    flags = prefix[2:-1]
    for f in flags:
        if f not in "msixRU":
            raise core.CheckBroken("ex_c08_regex: unknown regex flag %r in %r" % (f, prefix))
    # Pattern::default(): multiline: true
    pc = _read("brush-core/src/patterns.rs")
    dm = re.search(r"impl\s+Default\s+for\s+Pattern\s*\{.*?multiline\s*:\s*(true|false)", pc, flags=re.S)
    if not dm:
        raise core.CheckBroken("ex_c08_regex: Pattern::default no longer sets `multiline` literally")
    pat_multiline = dm.group(1) == "true"
    # anchors pushed by to_regex_str
    if not (re.search(r"if\s+strict_prefix_match\s*\{\s*regex_str\.push\('\^'\);", pc) and
            re.search(r"if\s+strict_suffix_match\s*\{\s*regex_str\.push\('\$'\);", pc)):
        raise core.CheckBroken("ex_c08_regex: to_regex_str no longer pushes '^' / '$' under strict_prefix_match / strict_suffix_match")
    em = re.search(r"pub\s+fn\s+exactly_matches.*?self\.to_regex\(\s*(true|false)\s*,\s*(true|false)\s*\)", pc, flags=re.S)
    if not em:
        raise core.CheckBroken("ex_c08_regex: exactly_matches no longer calls self.to_regex(<bool>, <bool>)")
    anchor_start, anchor_end = em.group(1) == "true", em.group(2) == "true"
    # class names
    cc = _peg_rule(pt, "char_class")
    names = re.findall(r'"([a-z]+)"', cc)
    if not names or re.sub(r'"[a-z]+"|\s|/', "", cc) != "":
        raise core.CheckBroken("ex_c08_regex: rule char_class is no longer an ordered choice of string literals: %r" % cc)
    # extglob prefixes
    ep = _peg_rule(pt, "extended_glob_prefix")
    pre = re.findall(r'"(.)"\s*\{\s*ExtendedGlobKind::(\w+)\s*\}', ep)
    if len(pre) != 5 or re.sub(r'"."\s*\{\s*ExtendedGlobKind::\w+\s*\}|\s|/', "", ep) != "":
        raise core.CheckBroken("ex_c08_regex: rule extended_glob_prefix changed shape: %r" % ep)
    kinds = {"Plus": "EPlus", "At": "EAt", "Exclamation": "EBang", "Question": "EQuest", "Star": "EStar"}
    for _, k in pre:
        if k not in kinds:
            raise core.CheckBroken("ex_c08_regex: unknown extglob kind %s" % k)
    iv = _peg_rule(pt, "invert_char")
    im = re.fullmatch(r"\s*\[((?:\s*'.'\s*\|?)+)\]\s*\{\s*true\s*\}\s*", iv)
    if not im:
        raise core.CheckBroken("ex_c08_regex: rule invert_char changed shape: %r" % iv)
    inv = re.findall(r"'(.)'", im.group(1))
    # Pattern::expand: where the matches are sorted
    xm = re.search(r"pub\(crate\)\s+fn\s+expand<PF>.*?\n    \}\n", pc, flags=re.S)
    if not xm or "Ok(PatternExpansionResult::Expanded(results))" not in xm.group(0):
        raise core.CheckBroken("ex_c08_regex: Pattern::expand not found or no longer ends in Ok(PatternExpansionResult::Expanded(results))")
    xbody = xm.group(0)
    if "matching_paths_in_dir" not in xbody or "paths_so_far" not in xbody:
        raise core.CheckBroken("ex_c08_regex: Pattern::expand no longer collects matching_paths_in_dir into paths_so_far")
    sorts_per_dir = re.search(r"matching_paths_in_dir\s*\.\s*sort(_unstable)?\(\)\s*;", xbody) is not None
    tail = xbody[xbody.index("let results"):] if "let results" in xbody else (xbody[xbody.index("let mut results"):] if "let mut results" in xbody else None)
    if tail is None:
        raise core.CheckBroken("ex_c08_regex: Pattern::expand no longer builds `results`")
    sorts_results = re.search(r"\bresults\s*\.\s*sort(_unstable)?\(\)\s*;", tail) is not None
    # PEG shapes that the proposed fixes introduce (recognised positively; anything else is left to the correspondence)
    norm = re.sub(r"\s+", " ", pt)
    leading_rb = ('first:(leading_right_bracket()?) members:bracket_member()* "]"' in norm and
                  'rule leading_right_bracket() -> Option<String> = "]" "-" to:single_char_bracket_member()' in norm and
                  'Some(std::format!(r"\\]-{to_str}"))' in norm and '"]" { Some(String::from(r"\\]")) }' in norm)
    esc_plain = ("['\\\\'] [c] { if c.is_ascii_alphanumeric() { (c.to_string(), c) } else { (std::format!(\"\\\\{c}\"), c) } }" in norm)
    out = []
    out.append("(** GENERATED by translator/ex_c08_regex.py from brush-core/src/regex.rs, brush-core/src/patterns.rs and")
    out.append("    brush-parser/src/pattern.rs - do not edit. *)")
    out.append("From BV Require Import Base.Prelude.")
    out.append("")
    out.append("Inductive ekind := EPlus | EAt | EBang | EQuest | EStar.")
    out.append("")
    out.append("(* regex.rs regex_char_is_special *)")
    out.append("Definition regex_special_chars : list char := %s." % nlist(special))
    out.append("(* pattern.rs regex_char_needs_escaping *)")
    out.append("Definition needs_escaping_chars : list char := %s." % nlist(needs))
    out.append("(* regex.rs compile_regex: the flag group %s *)" % prefix)
    out.append("Definition flag_prefix : str := %s." % strlit(prefix))
    out.append("Definition flag_multi : bool := %s." % ("true" if "m" in flags else "false"))
    out.append("Definition flag_dotall : bool := %s." % ("true" if "s" in flags else "false"))
    out.append("Definition flag_other : bool := %s." % ("true" if any(f not in "ms" for f in flags) else "false"))
    out.append("(* patterns.rs Pattern::default().multiline; exactly_matches -> to_regex(start, end) *)")
    out.append("Definition pattern_uses_flags : bool := %s." % ("true" if pat_multiline else "false"))
    out.append("Definition anchor_start : bool := %s." % ("true" if anchor_start else "false"))
    out.append("Definition anchor_end : bool := %s." % ("true" if anchor_end else "false"))
    out.append("(* patterns.rs Pattern::expand: matching_paths_in_dir.sort() per directory; results.sort() on the final list *)")
    out.append("Definition expand_sorts_per_dir : bool := %s." % ("true" if sorts_per_dir else "false"))
    out.append("Definition expand_sorts_results : bool := %s." % ("true" if sorts_results else "false"))
    out.append("(* pattern.rs: a leading ']' is a bracket member (rule leading_right_bracket); an escaped letter/digit in a bracket is emitted plain *)")
    out.append("Definition peg_leading_rbracket : bool := %s." % ("true" if leading_rb else "false"))
    out.append("Definition peg_escaped_alnum_plain : bool := %s." % ("true" if esc_plain else "false"))
    out.append("(* pattern.rs rule char_class, in order *)")
    out.append("Definition class_names : list str := [%s]." % "; ".join(strlit(n) for n in names))
    out.append("(* pattern.rs rule extended_glob_prefix, in order *)")
    out.append("Definition extglob_prefixes : list (char * ekind) := [%s]." %
               "; ".join("(%d%%N, %s)" % (ord(c), kinds[k]) for c, k in pre))
    out.append("(* pattern.rs rule invert_char *)")
    out.append("Definition invert_chars : list char := %s." % nlist(inv))
    return regen.write_if_changed("C08RegexTables.v", "\n".join(out) + "\n")


EXTRACTORS = {"c08_regex": extract}
USES = {"C08": ["c08_regex"]}
