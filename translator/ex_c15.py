"""C15 tables regenerated from /repo:

gen/C15CacheKeys.v  - every memoisation site in the brush crates: `#[cached::macros::cached(...)]`
                   functions (parameter list, `key` type, identifiers of the `convert` expression,
                   size) and the hand-written REGEX_CACHE of brush-core/src/regex.rs; the
                   definitions of the option structs that occur in keys (derive list, fields,
                   hand-written Eq/Hash impls); explicit process-global state of brush-parser.
gen/C15Incomplete.v - TokenizerError variants, the `is_incomplete` variant list, the match arms of
                   `needs_more_input_locked`, the literals of `ends_with_line_continuation`,
                   the line counting expression of `execute_line`.

Every extractor checks the shape of the item it reads and raises CheckBroken on anything it
does not recognise (fail closed)."""
import glob, os, re
from vlib import core
from translator import regen

CRATES = ["brush-parser", "brush-core", "brush-builtins", "brush-interactive", "brush-shell"]


def _read(rel):
    p = os.path.join(core.REPO, rel)
    if not os.path.exists(p):
        raise core.CheckBroken("translator: %s not found" % rel)
    return open(p, encoding="utf-8").read()


def _strip_comments(src):
    """remove // and /* */ comments, keep strings (including raw strings) intact"""
    out = []
    i, n = 0, len(src)
    while i < n:
        c = src[i]
        if src.startswith("//", i):
            j = src.find("\n", i)
            i = n if j < 0 else j
            continue
        if src.startswith("/*", i):
            j = src.find("*/", i + 2)
            i = n if j < 0 else j + 2
            continue
        m = re.match(r'r(#*)"', src[i:])
        if m and (i == 0 or not (src[i - 1].isalnum() or src[i - 1] == "_")):
            end = '"' + m.group(1)
            j = src.find(end, i + len(m.group(0)))
            if j < 0:
                raise core.CheckBroken("translator: unterminated raw string")
            out.append(src[i:j + len(end)])
            i = j + len(end)
            continue
        if c == '"':
            j = i + 1
            while j < n and src[j] != '"':
                j += 2 if src[j] == "\\" else 1
            out.append(src[i:j + 1])
            i = j + 1
            continue
        if c == "'":
            # char literal or lifetime
            m = re.match(r"'(\\.[^']*|[^'\\])'", src[i:])
            if m:
                out.append(m.group(0))
                i += len(m.group(0))
                continue
        out.append(c)
        i += 1
    return "".join(out)


def _balanced(src, i, open_ch, close_ch):
    """src[i] == open_ch; returns index just past the matching close (strings skipped)"""
    assert src[i] == open_ch
    depth = 0
    n = len(src)
    while i < n:
        m = re.match(r'r(#*)"', src[i:])
        if m:
            end = '"' + m.group(1)
            j = src.find(end, i + len(m.group(0)))
            i = j + len(end)
            continue
        c = src[i]
        if c == '"':
            j = i + 1
            while j < n and src[j] != '"':
                j += 2 if src[j] == "\\" else 1
            i = j + 1
            continue
        if c == "'":
            m = re.match(r"'(\\.[^']*|[^'\\])'", src[i:])
            if m:
                i += len(m.group(0))
                continue
        if c == open_ch:
            depth += 1
        elif c == close_ch:
            depth -= 1
            if depth == 0:
                return i + 1
        i += 1
    raise core.CheckBroken("translator: unbalanced %s" % open_ch)


def _split_top(s, sep=","):
    parts, depth, cur = [], 0, []
    i = 0
    while i < len(s):
        m = re.match(r'r(#*)"', s[i:])
        if m:
            end = '"' + m.group(1)
            j = s.find(end, i + len(m.group(0)))
            cur.append(s[i:j + len(end)])
            i = j + len(end)
            continue
        c = s[i]
        if c == '"':
            j = i + 1
            while j < len(s) and s[j] != '"':
                j += 2 if s[j] == "\\" else 1
            cur.append(s[i:j + 1])
            i = j + 1
            continue
        if c in "([{<":
            depth += 1
        elif c in ")]}>":
            depth -= 1
        if c == sep and depth == 0:
            parts.append("".join(cur).strip())
            cur = []
        else:
            cur.append(c)
        i += 1
    last = "".join(cur).strip()
    if last:
        parts.append(last)
    return parts


def _str_lit(s):
    s = s.strip()
    m = re.match(r'^r(#*)"(.*)"\1$', s, flags=re.S)
    if m:
        return m.group(2)
    m = re.match(r'^"((?:[^"\\]|\\.)*)"$', s, flags=re.S)
    if m:
        return m.group(1)
    raise core.CheckBroken("translator: expected a string literal, got %r" % s[:80])


IDENT = r"[A-Za-z_][A-Za-z0-9_]*"
KEY_COMPONENT = re.compile(r"^[&*]?\s*(%s)\s*(?:\.\s*(?:to_owned|clone|to_string|into)\s*\(\s*\))?$" % IDENT)
# a field of a parameter copied into the key: `p.field`, `p.field.clone()`; recorded as "p.field"
KEY_FIELD = re.compile(r"^[&*]?\s*(%s)\s*\.\s*(%s)\s*(?:\.\s*(?:to_owned|clone|to_string|into)\s*\(\s*\))?$" % (IDENT, IDENT))

# Shapes the extractors do not recognise.  They are NOT raised as machinery failures: they are written
# into the regenerated tables (`*_unrecognised`), where the obligation "nothing unrecognised" breaks, so
# that the check goes on to search for a concrete failing input with the (fallback) model.
UNRECOGNISED = {"cache": [], "incomplete": []}


def _key_idents(convert, where):
    body = convert.strip()
    m = re.match(r"^\{(.*)\}$", body, flags=re.S)
    if m:
        body = m.group(1).strip()
    if body.startswith("(") and _balanced(body, 0, "(", ")") == len(body):
        comps = _split_top(body[1:-1])
    else:
        comps = [body]
    ids = []
    for c in comps:
        c = re.sub(r"\s+", " ", c.strip())
        m = KEY_COMPONENT.match(c)
        f = KEY_FIELD.match(c)
        if m and not (f and f.group(2) not in ("to_owned", "clone", "to_string", "into")):
            ids.append(m.group(1))
        elif f:
            ids.append("%s.%s" % (f.group(1), f.group(2)))
        else:
            # e.g. `cache_key(input)`, `input.trim().to_owned()`, `input.to_lowercase()`: a function of the parameter that
            # need not be injective; such a component does not cover the parameter (keys_cover_inputs breaks too)
            UNRECOGNISED["cache"].append("%s: key component `%s` is not an identity copy (to_owned/to_string/clone/into) of a parameter "
                                         "or of one of its fields: a computed key need not be injective" % (where, c))
            ids.append("?" + c)
    return ids


def _type_components(ty):
    ty = ty.strip()
    if ty.startswith("(") and ty.endswith(")"):
        return [t.strip() for t in _split_top(ty[1:-1])]
    return [ty]


KNOWN_ATTR_ARGS = {"name", "max_size", "size", "key", "convert"}


def cached_sites():
    sites = []
    for crate in CRATES:
        for path in sorted(glob.glob(os.path.join(core.REPO, crate, "src", "**", "*.rs"), recursive=True)):
            rel = os.path.relpath(path, core.REPO)
            src = _strip_comments(open(path, encoding="utf-8").read())
            for m in re.finditer(r"#\s*\[\s*((?:::)?(?:cached\s*::\s*)?(?:macros|proc_macro)\s*::\s*)?(cached|once|io_cached|concurrent_cached)\s*(\(|\])", src):
                if m.group(1) is None and not re.search(r"use\s+cached::(macros|proc_macro)::", src):
                    # `#[cached]` that is not the cached crate's attribute cannot be told apart: fail closed
                    raise core.CheckBroken("translator: %s: attribute #[%s] of unknown origin" % (rel, m.group(2)))
                if m.group(2) != "cached":
                    raise core.CheckBroken("translator: %s: memoisation attribute #[%s] is not modelled" % (rel, m.group(2)))
                where = "%s:%d" % (rel, src.count("\n", 0, m.start()) + 1)
                args = {}
                i = m.end() - 1
                if src[i] == "(":
                    j = _balanced(src, i, "(", ")")
                    for part in _split_top(src[i + 1:j - 1]):
                        mm = re.match(r"^(%s)\s*=\s*(.*)$" % IDENT, part, flags=re.S)
                        if not mm:
                            raise core.CheckBroken("translator: %s: attribute argument %r not recognised" % (where, part))
                        args[mm.group(1)] = mm.group(2).strip()
                    k = src.find("]", j)
                else:
                    k = i
                unknown = set(args) - KNOWN_ATTR_ARGS
                if unknown:
                    raise core.CheckBroken("translator: %s: cached attribute arguments %s are not modelled" % (where, sorted(unknown)))
                rest = src[k + 1:]
                fm = re.match(r"\s*(?:#\s*\[[^\]]*\]\s*)*(?:pub(?:\([^)]*\))?\s+)?(async\s+)?fn\s+(%s)\s*(<[^>]*>)?\s*\(" % IDENT, rest)
                if not fm:
                    raise core.CheckBroken("translator: %s: no plain fn item after the cached attribute" % where)
                if fm.group(1) or fm.group(3):
                    raise core.CheckBroken("translator: %s: async/generic memoised function is not modelled" % where)
                pi = fm.end() - 1
                pj = _balanced(rest, pi, "(", ")")
                params, ptypes = [], []
                for p in _split_top(rest[pi + 1:pj - 1]):
                    pm = re.match(r"^(%s)\s*:\s*(.+)$" % IDENT, p, flags=re.S)
                    if not pm or pm.group(1) in ("self", "mut"):
                        raise core.CheckBroken("translator: %s: parameter %r is not `name: type`" % (where, p))
                    params.append(pm.group(1))
                    ptypes.append(re.sub(r"\s+", " ", pm.group(2).strip()))
                size = args.get("max_size", args.get("size"))
                if size is None or not re.match(r"^\d+$", size):
                    raise core.CheckBroken("translator: %s: unbounded or non-literal cache size %r is not modelled" % (where, size))
                if ("key" in args) != ("convert" in args):
                    raise core.CheckBroken("translator: %s: `key` and `convert` must come together" % where)
                if "key" in args:
                    key_ty = re.sub(r"\s+", " ", _str_lit(args["key"]))
                    idents = _key_idents(_str_lit(args["convert"]), where)
                else:
                    key_ty = "(" + ", ".join(ptypes) + ")"
                    idents = list(params)
                comps = _type_components(key_ty)
                if len(comps) != len(idents):
                    raise core.CheckBroken("translator: %s: key type %r has %d components but convert builds %d" % (where, key_ty, len(comps), len(idents)))
                sites.append({"where": rel, "fn": fm.group(2), "params": params, "ptypes": ptypes, "key_ty": key_ty,
                              "key_comps": comps, "idents": idents, "size": int(size)})
    return sites


def regex_cache_site():
    rel = "brush-core/src/regex.rs"
    src = _strip_comments(_read(rel))
    m = re.search(r"type\s+RegexCache\s*=\s*cached::LruCache<\s*(\([^>]*\))\s*,\s*[^>]+>\s*;", src)
    if not m:
        raise core.CheckBroken("translator: %s: `type RegexCache = cached::LruCache<(..), _>` not found" % rel)
    key_ty = re.sub(r"\s+", " ", m.group(1))
    sm = re.search(r"static\s+REGEX_CACHE\s*:[^=]*=\s*RefCell::new\(\s*cached::LruCache::builder\(\)\s*\.max_size\((\d+)\)\s*\.build\(\)\s*\.ok\(\)\s*\)", src)
    if not sm:
        raise core.CheckBroken("translator: %s: REGEX_CACHE initialiser not recognised" % rel)
    fm = re.search(r"fn\s+compile_regex\s*\(", src)
    if not fm:
        raise core.CheckBroken("translator: %s: compile_regex not found" % rel)
    pi = fm.end() - 1
    pj = _balanced(src, pi, "(", ")")
    params, ptypes = [], []
    for p in _split_top(src[pi + 1:pj - 1]):
        pm = re.match(r"^(%s)\s*:\s*(.+)$" % IDENT, p, flags=re.S)
        if not pm:
            raise core.CheckBroken("translator: %s: compile_regex parameter %r" % (rel, p))
        params.append(pm.group(1)); ptypes.append(pm.group(2).strip())
    bi = src.find("{", pj)
    bj = _balanced(src, bi, "{", "}")
    body = src[bi:bj]
    km = re.search(r"let\s+key\s*=\s*(\([^;]*\))\s*;", body)
    if not km:
        raise core.CheckBroken("translator: %s: `let key = (...)` not found in compile_regex" % rel)
    idents = _key_idents(km.group(1), rel + ":compile_regex")
    if not re.search(r"\.cache_get\(\s*&key\s*\)", body) or not re.search(r"\.cache_set\(\s*key\s*,", body):
        raise core.CheckBroken("translator: %s: compile_regex does not look up/insert under `key`" % rel)
    # the parameters moved into the key may only be read back through key.N afterwards
    after = body[km.end():]
    for p in params:
        if re.search(r"(?<![\w.])%s\b(?!\s*:)" % re.escape(p), after) and p in idents and p == "regex_str":
            # `regex_str` is shadowed by `let mut regex_str = ...(key.0...)`: accepted only in that form
            if not re.search(r"let\s+mut\s+regex_str\s*=\s*add_missing_escape_chars_to_regex\(\s*key\.0\.as_str\(\)\s*\)", after):
                raise core.CheckBroken("translator: %s: compile_regex reads `%s` outside the key" % (rel, p))
    comps = _type_components(key_ty)
    if len(comps) != len(idents):
        raise core.CheckBroken("translator: %s: REGEX_CACHE key arity" % rel)
    # no other hand-written cache anywhere else
    for crate in CRATES:
        for path in sorted(glob.glob(os.path.join(core.REPO, crate, "src", "**", "*.rs"), recursive=True)):
            r2 = os.path.relpath(path, core.REPO)
            if r2 == rel:
                continue
            s2 = _strip_comments(open(path, encoding="utf-8").read())
            if re.search(r"\b(cache_get|cache_set|cache_get_or_set_with|LruCache|SizedCache|UnboundCache|TtlCache|TimedCache|TimedSizedCache)\b", s2):
                raise core.CheckBroken("translator: %s uses a cache store directly; this site is not modelled" % r2)
    return {"where": rel, "fn": "compile_regex", "params": params, "ptypes": ptypes, "key_ty": key_ty,
            "key_comps": comps, "idents": idents, "size": int(sm.group(1))}


PRIMITIVE = {"String", "bool", "u8", "u16", "u32", "u64", "usize", "i8", "i16", "i32", "i64", "isize", "char"}


def _find_type(name):
    """locate `pub struct|enum <name>` in brush-parser/src or brush-core/src"""
    short = name.split("::")[-1]
    hits = []
    for crate in ("brush-parser", "brush-core"):
        for path in sorted(glob.glob(os.path.join(core.REPO, crate, "src", "**", "*.rs"), recursive=True)):
            src = _strip_comments(open(path, encoding="utf-8").read())
            for m in re.finditer(r"((?:#\s*\[[^\]]*\]\s*)*)pub\s+(struct|enum)\s+%s\b\s*\{" % re.escape(short), src):
                hits.append((os.path.relpath(path, core.REPO), src, m))
    if len(hits) != 1:
        raise core.CheckBroken("translator: key component type %s: %d definitions found" % (name, len(hits)))
    return hits[0]


def key_types(sites):
    todo = []
    for s in sites:
        for c in s["key_comps"]:
            if c not in PRIMITIVE and c not in todo:
                todo.append(c)
        for i in s["idents"]:
            if "." in i and not i.startswith("?"):
                pname = i.split(".")[0]
                if pname in s["params"]:
                    ty = s["ptypes"][s["params"].index(pname)].lstrip("&").replace("mut ", "").strip()
                    if ty not in PRIMITIVE and ty not in todo:
                        todo.append(ty)
    out, seen = [], set()
    while todo:
        t = todo.pop(0)
        short = t.split("::")[-1]
        if short in seen:
            continue
        seen.add(short)
        rel, src, m = _find_type(t)
        derives = []
        for d in re.finditer(r"derive\s*\(([^)]*)\)", m.group(1)):
            derives += [x.strip().split("::")[-1] for x in d.group(1).split(",") if x.strip()]
        # conditional derives (cfg_attr) do not count: the key needs them unconditionally
        uncond = []
        for a in re.finditer(r"#\s*\[\s*derive\s*\(([^)]*)\)\s*\]", m.group(1)):
            uncond += [x.strip().split("::")[-1] for x in a.group(1).split(",") if x.strip()]
        bi = m.end() - 1
        bj = _balanced(src, bi, "{", "}")
        body = src[bi + 1:bj - 1]
        fields = []
        if m.group(2) == "struct":
            for f in _split_top(body):
                f = re.sub(r"^(?:#\s*\[[^\]]*\]\s*)*", "", f.strip())
                fm = re.match(r"^(?:pub(?:\([^)]*\))?\s+)?(%s)\s*:\s*(.+)$" % IDENT, f, flags=re.S)
                if not fm:
                    raise core.CheckBroken("translator: %s: field %r of %s not recognised" % (rel, f, short))
                fty = fm.group(2).strip()
                fields.append((fm.group(1), fty))
                if fty not in PRIMITIVE:
                    todo.append(fty)
        else:
            for f in _split_top(body):
                f = re.sub(r"^(?:#\s*\[[^\]]*\]\s*)*", "", f.strip())
                fm = re.match(r"^(%s)$" % IDENT, f)
                if not fm:
                    raise core.CheckBroken("translator: %s: variant %r of key enum %s carries data or is not recognised" % (rel, f, short))
                fields.append((fm.group(1), "unit"))
        manual = []
        for crate in CRATES:
            for path in sorted(glob.glob(os.path.join(core.REPO, crate, "src", "**", "*.rs"), recursive=True)):
                s2 = _strip_comments(open(path, encoding="utf-8").read())
                for im in re.finditer(r"impl\s+(?:[\w:]+::)?(PartialEq|Eq|Hash|Borrow)\b[^{;]*\bfor\s+(?:[\w:]+::)?%s\b" % re.escape(short), s2):
                    manual.append(im.group(1))
        out.append({"name": short, "where": rel, "derives": uncond, "fields": fields, "manual": sorted(set(manual))})
    return out


def parser_globals():
    """explicit process-global state in the crates that implement parsing (the cached stores are
    generated by the attribute and listed as sites)"""
    found = []
    pats = r"\b(static\s+(?:mut\s+)?[A-Z_][A-Z0-9_]*\s*:|thread_local!|lazy_static!|OnceLock\s*<|OnceCell\s*<|LazyLock\s*<|LazyCell\s*<)"
    for path in sorted(glob.glob(os.path.join(core.REPO, "brush-parser", "src", "**", "*.rs"), recursive=True)) + \
            [os.path.join(core.REPO, "brush-core/src/shell/parsing.rs"), os.path.join(core.REPO, "brush-interactive/src/completeness.rs")]:
        rel = os.path.relpath(path, core.REPO)
        src = _strip_comments(open(path, encoding="utf-8").read())
        # test modules do not ship
        src = re.split(r"#\s*\[\s*cfg\s*\(\s*test\s*\)\s*\]", src)[0]
        for m in re.finditer(pats, src):
            found.append("%s: %s" % (rel, re.sub(r"\s+", " ", m.group(1))))
    return found


def _cs(s):
    return '"' + s.replace('"', '""') + '"'


def _cl(xs):
    return "[" + "; ".join(xs) + "]"


def gen_cache_keys():
    UNRECOGNISED["cache"] = []
    sites = cached_sites() + [regex_cache_site()]
    if len(sites) < 2:
        raise core.CheckBroken("translator: only %d memoisation sites found" % len(sites))
    kts = key_types(sites)
    globs = parser_globals()
    out = ["(** GENERATED by translator/ex_cache.py from %s - do not edit. *)" % "the brush sources",
           "From Coq Require Import String List.", "Import ListNotations.", "Local Open Scope string_scope.", "",
           "Record cache_site := { cs_where : string; cs_fn : string; cs_params : list string; cs_ptypes : list string;",
           "  cs_key_type : string; cs_key_comps : list string; cs_key_idents : list string; cs_size : nat }.", "",
           "Definition cache_sites : list cache_site := ["]
    rows = []
    for s in sites:
        rows.append("  {| cs_where := %s; cs_fn := %s; cs_params := %s; cs_ptypes := %s;\n     cs_key_type := %s; cs_key_comps := %s; cs_key_idents := %s; cs_size := %d |}" % (
            _cs(s["where"]), _cs(s["fn"]), _cl([_cs(p) for p in s["params"]]), _cl([_cs(p) for p in s["ptypes"]]),
            _cs(s["key_ty"]), _cl([_cs(c) for c in s["key_comps"]]), _cl([_cs(i) for i in s["idents"]]), s["size"]))
    out.append(";\n".join(rows))
    out.append("].")
    out.append("")
    out.append("Record key_type := { kt_name : string; kt_where : string; kt_derives : list string;")
    out.append("  kt_fields : list (string * string); kt_manual_impls : list string }.")
    out.append("")
    out.append("Definition key_types : list key_type := [")
    rows = []
    for k in kts:
        rows.append("  {| kt_name := %s; kt_where := %s; kt_derives := %s;\n     kt_fields := %s; kt_manual_impls := %s |}" % (
            _cs(k["name"]), _cs(k["where"]), _cl([_cs(d) for d in k["derives"]]),
            _cl(["(%s, %s)" % (_cs(a), _cs(b)) for a, b in k["fields"]]), _cl([_cs(x) for x in k["manual"]])))
    out.append(";\n".join(rows))
    out.append("].")
    out.append("")
    out.append("(** explicit process-global state in brush-parser/src, shell/parsing.rs, completeness.rs *)")
    out.append("Definition parser_globals : list string := %s." % _cl([_cs(g) for g in globs]))
    out.append("")
    out.append("(** shapes at the memoisation sites that the extractor does not recognise (must be empty) *)")
    out.append("Definition cache_unrecognised : list string := %s." % _cl([_cs(u) for u in UNRECOGNISED["cache"]]))
    return regen.write_if_changed("C15CacheKeys.v", "\n".join(out) + "\n")


# ------------------------------------------------------------------ TokTables

def _enum_variants(src, name, rel):
    m = re.search(r"pub\s+enum\s+%s\s*\{" % name, src)
    if not m:
        raise core.CheckBroken("translator: %s: enum %s not found" % (rel, name))
    bi = m.end() - 1
    bj = _balanced(src, bi, "{", "}")
    vs = []
    for part in _split_top(src[bi + 1:bj - 1]):
        part = part.strip()
        # drop attributes (they may contain brackets/parens/strings)
        while part.startswith("#"):
            k = part.find("[")
            part = part[_balanced(part, k, "[", "]"):].strip()
        vm = re.match(r"^(%s)\s*(\(.*\)|\{.*\})?$" % IDENT, part, flags=re.S)
        if not vm:
            raise core.CheckBroken("translator: %s: variant %r of %s not recognised" % (rel, part[:60], name))
        vs.append(vm.group(1))
    return vs


def gen_tok_tables():
    rel = "brush-parser/src/tokenizer.rs"
    src = _strip_comments(_read(rel))
    variants = _enum_variants(src, "TokenizerError", rel)
    UNRECOGNISED["incomplete"] = []
    alt_re = r"^\s*Self::(%s)\s*(\(\s*\.\.\s*\))?\s*$" % IDENT
    inc = None
    m = re.search(r"pub\s+const\s+fn\s+is_incomplete\s*\(\s*&self\s*\)\s*->\s*bool\s*\{\s*matches!\s*\(\s*self\s*,(.*?)\)\s*\}", src, flags=re.S)
    if m:
        alts = [re.match(alt_re, alt) for alt in m.group(1).split("|")]
        if all(alts):
            inc = [am.group(1) for am in alts]
    else:
        # the other readable shape: `match self { A | B(..) => true, C | D => false }` (no guards, no wildcard)
        m2 = re.search(r"pub\s+const\s+fn\s+is_incomplete\s*\(\s*&self\s*\)\s*->\s*bool\s*\{\s*match\s+self\s*\{(.*?)\}\s*\}", src, flags=re.S)
        if m2:
            got, ok, seen_all = [], True, []
            for arm in [x for x in re.split(r",\s*(?=Self::|_\s*=>)|,\s*$", m2.group(1).strip()) if x.strip()]:
                am = re.match(r"^(.*?)=>\s*(true|false)\s*,?\s*$", arm.strip(), flags=re.S)
                if not am:
                    ok = False
                    break
                alts = [re.match(alt_re, alt) for alt in am.group(1).split("|")]
                if not all(alts):
                    ok = False
                    break
                seen_all += [x.group(1) for x in alts]
                if am.group(2) == "true":
                    got += [x.group(1) for x in alts]
            if ok and sorted(seen_all) == sorted(variants):
                inc = got
    if inc is None or any(v not in variants for v in inc):
        UNRECOGNISED["incomplete"].append("%s: TokenizerError::is_incomplete has an unrecognised shape" % rel)
        inc = [v for v in variants if v.startswith("Unterminated")]
    perel = "brush-parser/src/error.rs"
    pvariants = _enum_variants(_strip_comments(_read(perel)), "ParseError", perel)

    crel = "brush-interactive/src/completeness.rs"
    csrc = _strip_comments(_read(crel))
    csrc = re.split(r"#\s*\[\s*cfg\s*\(\s*test\s*\)\s*\]", csrc)[0]
    fm = re.search(r"fn\s+needs_more_input_locked\s*\([^)]*\)\s*->\s*bool\s*\{\s*match\s+shell\.parse_string\(\s*input\s*\)\s*\{", csrc)
    if not fm:
        raise core.CheckBroken("translator: %s: needs_more_input_locked is not `match shell.parse_string(input) {`" % crel)
    bi = fm.end() - 1
    bj = _balanced(csrc, bi, "{", "}")
    tail = csrc[bj:]
    if not re.match(r"^\s*\}", tail):
        raise core.CheckBroken("translator: %s: needs_more_input_locked has code after the match" % crel)
    arms_src = csrc[bi + 1:bj - 1]
    arms = []
    pos = 0
    arm_re = re.compile(r"\s*(?P<pat>.+?)\s*(?:\bif\s+(?P<guard>[^=]+?))?\s*=>\s*", flags=re.S)
    while pos < len(arms_src) and arms_src[pos:].strip():
        am = arm_re.match(arms_src, pos)
        if not am:
            raise core.CheckBroken("translator: %s: match arm not recognised near %r" % (crel, arms_src[pos:pos + 60]))
        p = am.end()
        if arms_src[p] == "{":
            q = _balanced(arms_src, p, "{", "}")
            body = arms_src[p + 1:q - 1].strip()
            p = q
        else:
            q = arms_src.find(",", p)
            # a call body contains commas inside parentheses
            depth = 0
            q = p
            while q < len(arms_src):
                if arms_src[q] in "([{":
                    depth += 1
                elif arms_src[q] in ")]}":
                    depth -= 1
                elif arms_src[q] == "," and depth == 0:
                    break
                q += 1
            body = arms_src[p:q].strip()
            p = q
        while p < len(arms_src) and arms_src[p] in ", \n\t":
            p += 1
        arms.append((re.sub(r"\s+", " ", am.group("pat")), re.sub(r"\s+", " ", (am.group("guard") or "").strip()), re.sub(r"\s+", " ", body)))
        pos = p
    PATS = {
        ("Err(brush_parser::ParseError::Tokenizing { inner, position: _ })", "inner.is_incomplete()"): "PTokIncomplete",
        ("Err(brush_parser::ParseError::ParsingAtEndOfInput)", ""): "PAtEnd",
        ("Err(brush_parser::ParseError::ParsingNear(_))", ""): "PNear",
        ("Err(_)", ""): "PAnyErr",
        ("Ok(_)", ""): "POk",
        ("_", ""): "PAny",
    }
    RES = {"true": "RTrue", "false": "RFalse", "ends_with_line_continuation(shell, input)": "RCont"}
    coq_arms = []
    for pat, guard, body in arms:
        if (pat, guard) not in PATS or body not in RES:
            raise core.CheckBroken("translator: %s: arm `%s%s => %s` of needs_more_input_locked is not a recognised shape" % (
                crel, pat, (" if " + guard) if guard else "", body))
        coq_arms.append("(%s, %s)" % (PATS[(pat, guard)], RES[body]))
    # ends_with_line_continuation
    em = re.search(r"fn\s+ends_with_line_continuation\s*\([^)]*\)\s*->\s*bool\s*\{", csrc)
    if not em:
        raise core.CheckBroken("translator: %s: ends_with_line_continuation not found" % crel)
    ei = em.end() - 1
    ebody = re.sub(r"\s+", " ", csrc[ei:_balanced(csrc, ei, "{", "}")])
    shape = (r"^\{ let Some\(truncated\) = input\.strip_suffix\('(\\?.)'\) else \{ return false; \}; "
             r"if !truncated\.ends_with\('(\\?.)'\)(?P<extra>[^{]*?) \{ return false; \} "
             r"matches!\( shell\.parse_string\(truncated\), Err\(brush_parser::ParseError::Tokenizing \{ "
             r"inner: brush_parser::TokenizerError::(%s), position: _, \}\) \) \}$" % IDENT)
    sm = re.match(shape, ebody)
    if sm and sm.group("extra").strip():
        # an additional early exit that the model does not have: recorded, the model keeps the plain test
        UNRECOGNISED["incomplete"].append("%s: ends_with_line_continuation returns early also when `%s`" % (crel, sm.group("extra").strip()))
    if not sm:
        UNRECOGNISED["incomplete"].append("%s: ends_with_line_continuation has an unrecognised shape: %s" % (crel, ebody[:300]))

        class _Default:
            def group(self, k):
                return {1: "\\n", 2: "\\\\", 4: "UnterminatedEscapeSequence"}[k]
        sm = _Default()

    def chr_code(lit):
        esc = {"\\n": 10, "\\\\": 92, "\\t": 9, "\\r": 13, "\\'": 39}
        return esc[lit] if lit in esc else ord(lit)
    suffix, last, cvar = chr_code(sm.group(1)), chr_code(sm.group(2)), sm.group(4)
    if cvar not in variants:
        raise core.CheckBroken("translator: continuation check names unknown variant %s" % cvar)
    # minimal backend loop: shape check (accumulate line, stop when !needs_more_input)
    mrel = "brush-interactive/src/minimal/input_backend.rs"
    msrc = re.sub(r"\s+", " ", re.split(r"#\s*\[\s*cfg\s*\(\s*test\s*\)\s*\]", _strip_comments(_read(mrel)))[0])
    loop_shape = (r"let Some\(line\) = Self::read_input_line\(reader\)\? else \{ break; \}; result\.push_str\(line\.as_str\(\)\); "
                  r"if !crate::completeness::needs_more_input\(shell_ref, result\.as_str\(\)\) \{ break; \} \} "
                  r"if result\.is_empty\(\) \{ Ok\(ReadResult::Eof\) \} else \{ Ok\(ReadResult::Input\(result\)\) \}")
    if not re.search(loop_shape, msrc):
        raise core.CheckBroken("translator: %s: read_program_from loop has an unrecognised shape" % mrel)
    # line counting in execute_line
    irel = "brush-interactive/src/interactive_shell.rs"
    isrc = re.sub(r"\s+", " ", _strip_comments(_read(irel)))
    lm = re.search(r"let line_count = (\w+)\.lines\(\)\.count\(\)\.max\((\d+)\);", isrc)
    floor = "1"
    if not lm or "shell.increment_interactive_line_offset(line_count);" not in isrc:
        UNRECOGNISED["incomplete"].append("%s: execute_line line counting not recognised" % irel)
    else:
        floor = lm.group(2)
        if lm.group(1) != "read_result" or not re.search(r"shell\.run_string\(read_result\b", isrc):
            # the model counts the lines of exactly the text that is run
            UNRECOGNISED["incomplete"].append("%s: execute_line counts the lines of `%s`, not of the text handed to run_string" % (irel, lm.group(1)))
        if not (isrc.find("shell.run_string(read_result") < isrc.find("shell.increment_interactive_line_offset(line_count)")):
            UNRECOGNISED["incomplete"].append("%s: the line offset is not advanced after running the chunk" % irel)
    out = ["(** GENERATED by translator/ex_cache.py from the brush sources - do not edit. *)",
           "From Coq Require Import String List NArith.", "From BV Require Import Modes.Classes.", "Import ListNotations.", "Local Open Scope string_scope.", "",
           "(** variants of brush_parser::TokenizerError, in declaration order *)",
           "Definition tokenizer_error_variants : list string := %s." % _cl([_cs(v) for v in variants]), "",
           "(** variants listed by TokenizerError::is_incomplete *)",
           "Definition is_incomplete_variants : list string := %s." % _cl([_cs(v) for v in inc]), "",
           "(** variants of brush_parser::ParseError *)",
           "Definition parse_error_variants : list string := %s." % _cl([_cs(v) for v in pvariants]), "",
           "(** match arms of needs_more_input_locked on shell.parse_string(input), in order *)",
           "Definition nmi_arms : list (arm_pat * arm_res) := %s." % _cl(coq_arms), "",
           "(** ends_with_line_continuation: strip_suffix(c1), ends_with(c2), reparse gives Tokenizing{variant} *)",
           "Definition cont_suffix : N := %d%%N." % suffix,
           "Definition cont_last : N := %d%%N." % last,
           "Definition cont_variant : string := %s." % _cs(cvar), "",
           "(** execute_line: line_count = read_result.lines().count().max(k) *)",
           "Definition line_count_floor : nat := %s." % floor, "",
           "(** shapes in the completeness decision that the extractor does not recognise (must be empty) *)",
           "Definition incomplete_unrecognised : list string := %s." % _cl([_cs(u) for u in UNRECOGNISED["incomplete"]])]
    return regen.write_if_changed("C15Incomplete.v", "\n".join(out) + "\n")


EXTRACTORS = {"c15_cache": gen_cache_keys, "c15_incomplete": gen_tok_tables}
USES = {"C15": ["c15_cache", "c15_incomplete"]}
