"""C13EscapeTables.v: the table-like parts of brush-core/src/escape.rs (and one constant of expansion.rs),
re-parsed from the Rust source on every run.  Every item is shape-checked; an unrecognised shape
raises CheckBroken (fail closed)."""
import os, re
from vlib import core
from translator import regen

USES = {"C13": ["c13_escape"]}


def _read(rel):
    p = os.path.join(core.REPO, rel)
    try:
        return open(p, encoding="utf-8").read()
    except OSError as e:
        raise core.CheckBroken("translator: cannot read %s: %s" % (p, e))


def fn_body(src, header_re, what):
    """text between the braces of the first item whose header matches header_re"""
    m = re.search(header_re, src)
    if not m:
        raise core.CheckBroken("translator: %s not found (pattern %r)" % (what, header_re))
    i = src.index("{", m.end() - 1) if src[m.end() - 1] != "{" else m.end() - 1
    depth = 0
    j = i
    in_chr = False
    while j < len(src):
        ch = src[j]
        # skip char and string literals (they may contain braces)
        if ch == "'" :
            mm = re.match(r"'(\\x[0-9a-fA-F]{2}|\\u\{[0-9a-fA-F]+\}|\\.|[^\\'])'", src[j:])
            if mm:
                j += mm.end()
                continue
        if ch == '"':
            mm = re.match(r'"(\\.|[^"\\])*"', src[j:])
            if mm:
                j += mm.end()
                continue
        if src.startswith("//", j):
            j = src.index("\n", j)
            continue
        if ch == "{":
            depth += 1
        elif ch == "}":
            depth -= 1
            if depth == 0:
                return src[i + 1:j]
        j += 1
    raise core.CheckBroken("translator: unbalanced braces in %s" % what)


CHAR_LIT = r"'(\\x[0-9a-fA-F]{2}|\\u\{[0-9a-fA-F]+\}|\\.|[^\\'])'"
SIMPLE_ESC = {"n": 10, "r": 13, "t": 9, "\\": 92, "'": 39, '"': 34, "0": 0}


def char_val(body):
    """code point of the inside of a Rust char literal"""
    if body.startswith("\\x"):
        return int(body[2:], 16)
    if body.startswith("\\u{"):
        return int(body[3:-1], 16)
    if body.startswith("\\"):
        if body[1] not in SIMPLE_ESC:
            raise core.CheckBroken("translator: unknown char escape %r" % body)
        return SIMPLE_ESC[body[1]]
    if len(body) != 1:
        raise core.CheckBroken("translator: bad char literal %r" % body)
    return ord(body)


def str_val(body):
    """code points of the inside of a (non-raw) Rust string literal"""
    out = []
    i = 0
    while i < len(body):
        if body[i] == "\\":
            if body[i + 1] == "x":
                out.append(int(body[i + 2:i + 4], 16)); i += 4
            else:
                if body[i + 1] not in SIMPLE_ESC:
                    raise core.CheckBroken("translator: unknown string escape in %r" % body)
                out.append(SIMPLE_ESC[body[i + 1]]); i += 2
        else:
            out.append(ord(body[i])); i += 1
    return out


def matches_chars(body, what):
    """`matches!(c, 'a' | 'b' ...)` as the whole (comment-stripped) body -> code points"""
    txt = re.sub(r"//[^\n]*", "", body).strip()
    m = re.fullmatch(r"matches!\(\s*c\s*,\s*((?:%s\s*\|?\s*)+),?\s*\)" % CHAR_LIT, txt, flags=re.S)
    if not m:
        raise core.CheckBroken("translator: %s is no longer a matches!(c, 'x' | ...) over char literals:\n%s" % (what, txt[:300]))
    return [char_val(x) for x in re.findall(CHAR_LIT, m.group(1))]


def nlist(xs):
    return "[" + "; ".join("%d%%N" % x for x in xs) + "]"


def plist(xs):
    return "[" + "; ".join("(%d%%N, %s)" % (a, nlist(b) if isinstance(b, list) else "%d%%N" % b) for a, b in xs) + "]"


def escape_tables_strict():
    src = _read("brush-core/src/escape.rs")
    exp = _read("brush-core/src/expansion.rs")

    # needs_escaping: the unconditional set
    ne = matches_chars(fn_body(src, r"const fn needs_escaping\(c: char\) -> bool \{", "needs_escaping"), "needs_escaping")

    # needs_ansi_c_quoting
    nb = re.sub(r"\s+", "", re.sub(r"//[^\n]*", "", fn_body(src, r"const fn needs_ansi_c_quoting\(c: char\) -> bool \{", "needs_ansi_c_quoting")))
    if nb != "c.is_ascii_control()":
        raise core.CheckBroken("translator: needs_ansi_c_quoting is no longer `c.is_ascii_control()`: %r" % nb)

    # position-dependent escaping (present once the leading-~/# repair is in): a function
    #   const fn needs_escaping_at(prev: Option<char>, c: char) -> bool
    # with exactly the two arms below.
    positional = 0
    if re.search(r"fn needs_escaping_at\(", src):
        pb = re.sub(r"\s+", "", re.sub(r"//[^\n]*", "", fn_body(src, r"const fn needs_escaping_at\(prev: Option<char>, c: char\) -> bool \{", "needs_escaping_at")))
        want = "matchc{'~'=>matches!(prev,None|Some(':'|'=')),'#'=>prev.is_none(),_=>false,}"
        if pb != want:
            raise core.CheckBroken("translator: needs_escaping_at has an unrecognised shape: %r" % pb)
        positional = 1

    # double_quote: the escaped set
    dq_body = fn_body(src, r"fn double_quote\(s: &str\) -> String \{", "double_quote")
    m = re.search(r"if (matches!\(c,[^)]*\))\s*\{\s*result\.push\('\\\\'\);\s*\}\s*result\.push\(c\);", dq_body, flags=re.S)
    if not m or dq_body.count("result.push('\"')") != 2:
        raise core.CheckBroken("translator: double_quote has an unrecognised shape")
    dq = matches_chars(m.group(1), "double_quote escaped set")

    # ansi_c_quote: named escapes, octal fallback, pass-through
    aq = fn_body(src, r"fn ansi_c_quote\(s: &str\) -> String \{", "ansi_c_quote")
    mm = re.search(r"match c \{(.*?)\n\s*\}\s*\}\s*result\.push\('\\''\);", aq, flags=re.S)
    if not mm or 'result.push_str("$\'");' not in aq:
        raise core.CheckBroken("translator: ansi_c_quote has an unrecognised shape")
    arms = mm.group(1)
    named = []
    rest = arms
    for a in re.finditer(r"%s\s*=>\s*result\.push_str\(\"((?:\\.|[^\"\\])*)\"\)," % CHAR_LIT, arms):
        named.append((char_val(a.group(1)), str_val(a.group(2))))
        rest = rest.replace(a.group(0), "")
    rest = re.sub(r"\s+", "", rest)
    want = 'cifneeds_ansi_c_quoting(c)=>{result.push_str(std::format!("\\\\{:03o}",casu8).as_str());}_=>result.push(c),'
    if rest != want:
        raise core.CheckBroken("translator: ansi_c_quote has arms besides named escapes / octal fallback / pass-through: %r" % rest)
    for c, e in named:
        if len(e) != 2 or e[0] != 92:
            raise core.CheckBroken("translator: ansi_c_quote named escape for %d is not backslash+letter" % c)

    # expand_backslash_escapes: simple one-byte arms
    eb = fn_body(src, r"pub fn expand_backslash_escapes\(", "expand_backslash_escapes")
    dec_both, dec_ansic = [], []
    for a in re.finditer(r"\n\s*((?:%s\s*\|?\s*)+)(if matches!\(mode, EscapeExpansionMode::AnsiCQuotes\) )?=> result\.push\(b%s\)," % (CHAR_LIT, CHAR_LIT), eb):
        letters = [char_val(x) for x in re.findall(CHAR_LIT, a.group(1))]
        val = char_val(a.group(a.lastindex))
        for l in letters:
            (dec_ansic if a.group(a.lastindex - 1) else dec_both).append((l, val))
    if len(dec_both) < 5:
        raise core.CheckBroken("translator: expand_backslash_escapes simple arms not recognised")
    # how many further octal digits the `\0` arm takes in ANSI-C mode (bash: 2, echo: 3)
    m0 = re.search(r"'0' => \{(.*?)\n            \}", eb, flags=re.S)
    if not m0:
        raise core.CheckBroken("translator: expand_backslash_escapes '0' arm not found")
    z = m0.group(1)
    mlim = re.search(r"taken_so_far < (\w+) && matches!\(\*c, '0'\.\.='7'\)", z)
    if not mlim:
        raise core.CheckBroken("translator: octal digit limit of the '0' arm not recognised")
    lim = mlim.group(1)
    if lim == "3":
        zero_echo, zero_ansic = 3, 3
    else:
        md = re.search(r"let %s = match mode \{\s*EscapeExpansionMode::EchoBuiltin => (\d),\s*EscapeExpansionMode::AnsiCQuotes => (\d),\s*\};" % lim, z)
        if not md:
            raise core.CheckBroken("translator: octal digit limit %r of the '0' arm not recognised" % lim)
        zero_echo, zero_ansic = int(md.group(1)), int(md.group(2))

    # expansion.rs DOUBLE_QUOTED_ESCAPE_CHARS
    md = re.search(r"const DOUBLE_QUOTED_ESCAPE_CHARS: &\[char\] = &\[((?:%s,?\s*)+)\];" % CHAR_LIT, exp)
    if not md:
        raise core.CheckBroken("translator: expansion.rs DOUBLE_QUOTED_ESCAPE_CHARS not found")
    dqe = [char_val(x) for x in re.findall(CHAR_LIT, md.group(1))]

    out = """(** GENERATED by translator/ex_escape.py from brush-core/src/escape.rs and expansion.rs - do not edit. *)
From BV Require Import Base.Prelude.

(** escape.rs [needs_escaping]: the [matches!] set. *)
Definition needs_escaping_chars : list N := %s.
(** escape.rs [needs_ansi_c_quoting] is [c.is_ascii_control()]. *)
Definition needs_ansi_c_quoting (c : N) : bool := ((c <? 32) || (c =? 127))%%N.
(** escape.rs has [needs_escaping_at] (leading ~/#, ~ after : or =): 1, else 0. *)
Definition positional_escaping : bool := %s.
(** escape.rs [double_quote]: characters that get a backslash. *)
Definition dq_escaped_chars : list N := %s.
(** escape.rs [ansi_c_quote]: named escapes (char, text). *)
Definition ansi_c_named : list (N * list N) := %s.
(** escape.rs [expand_backslash_escapes]: one-letter escapes valid in both modes / only in ANSI-C mode. *)
Definition decode_simple : list (N * N) := %s.
Definition decode_ansic_only : list (N * N) := %s.
(** how many further octal digits a backslash-0 escape takes (echo mode, ANSI-C mode). *)
Definition zero_octal_digits_echo : nat := %d.
Definition zero_octal_digits_ansic : nat := %d.
(** expansion.rs [DOUBLE_QUOTED_ESCAPE_CHARS]: what a backslash escapes inside double quotes. *)
Definition dq_reader_escapes : list N := %s.
""" % (nlist(ne), "true" if positional else "false", nlist(dq), plist(named), plist(dec_both), plist(dec_ansic),
       zero_echo, zero_ansic, nlist(dqe))
    return regen.write_if_changed("C13EscapeTables.v", out)


def escape_tables():
    """An unrecognised shape is a broken tie, not a machinery failure: the regenerated file then does not compile, so
    every theorem over the tables counts as broken and the check goes on to the failing-input search on the code."""
    try:
        return escape_tables_strict()
    except core.CheckBroken as e:
        reason = str(e).replace("*)", "* )").replace("(*", "( *").replace('"', "'")
        stub = ("(** GENERATED: the translator does not recognise the Rust source any more. *)\n"
                "(* %s *)\n"
                "Definition translator_shape_error : True := the_rust_source_no_longer_has_the_shape_the_model_was_built_for.\n" % reason)
        regen.write_if_changed("C13EscapeTables.v", stub)
        core.log("translator: " + str(e))
        return True


EXTRACTORS = {"c13_escape": escape_tables}
