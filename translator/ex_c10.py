"""C10 tables regenerated from the Rust source: default descriptor per redirect kind, OpenOptions
per redirect kind (incl. the noclobber arm), here-document operator/strip/quoting tables."""
import os, re
from vlib import core
from translator import regen


def _read(rel):
    p = os.path.join(core.REPO, rel)
    try:
        return open(p, encoding="utf-8").read()
    except OSError as e:
        raise core.CheckBroken("cannot read %s: %s" % (p, e))


def _block_after(src, start_pat, what):
    """text of the brace block that follows the first match of start_pat"""
    m = re.search(start_pat, src)
    if not m:
        raise core.CheckBroken("c10 translator: %s not found" % what)
    i = src.index("{", m.end() - 1) if src[m.end() - 1] != "{" else m.end() - 1
    depth = 0
    for j in range(i, len(src)):
        if src[j] == "{":
            depth += 1
        elif src[j] == "}":
            depth -= 1
            if depth == 0:
                return src[i + 1:j]
    raise core.CheckBroken("c10 translator: unbalanced block for %s" % what)


KINDS = ["Read", "Write", "Append", "ReadAndWrite", "Clobber", "DuplicateInput", "DuplicateOutput"]
FLAGS = ["read", "write", "append", "truncate", "create", "create_new"]


def _flags(block, what):
    """set of OpenOptions flags switched on by `options.<flag>(true);` statements, nothing else allowed"""
    txt = re.sub(r"//[^\n]*", "", block)
    stmts = [s.strip() for s in txt.split(";") if s.strip()]
    on = set()
    for s in stmts:
        m = re.fullmatch(r"options\s*\.\s*(\w+)\(true\)", s)
        if not m or m.group(1) not in FLAGS:
            raise core.CheckBroken("c10 translator: unexpected statement %r in %s" % (s, what))
        on.add(m.group(1))
    return on


def _coq_flags(on):
    return "(%s)" % ", ".join("true" if f in on else "false" for f in FLAGS)


def extract_defaults():
    interp = _read("brush-core/src/interp.rs")
    # 1. get_default_fd_for_redirect_kind
    body = _block_after(interp, r"const fn get_default_fd_for_redirect_kind\([^)]*\)\s*->\s*ShellFd\s*\{", "get_default_fd_for_redirect_kind")
    mbody = _block_after(body, r"match kind\s*\{", "match in get_default_fd_for_redirect_kind")
    arms = re.findall(r"ast::IoFileRedirectKind::(\w+)\s*=>\s*(\d+)\s*,", mbody)
    if [a for a, _ in arms] != KINDS or re.sub(r"ast::IoFileRedirectKind::\w+\s*=>\s*\d+\s*,", "", mbody).strip():
        raise core.CheckBroken("c10 translator: unexpected arms in get_default_fd_for_redirect_kind: %r" % (arms,))
    dflt = {a: int(n) for a, n in arms}
    # 2. OpenOptions per kind (Filename target)
    fn = _block_after(interp, r"ast::IoFileRedirectTarget::Filename\(f\)\s*=>\s*\{", "Filename arm of setup_redirect")
    mk = _block_after(fn, r"match kind\s*\{", "match kind in the Filename arm")
    flags = {}
    pos = 0
    for k in KINDS:
        m = re.compile(r"ast::IoFileRedirectKind::%s\s*=>\s*\{" % k).search(mk, pos)
        if not m:
            raise core.CheckBroken("c10 translator: arm %s missing in the Filename match" % k)
        blk = _block_after(mk[m.start():], r"=>\s*\{", "arm " + k)
        pos = m.end()
        if k == "Write":
            cond = re.search(r"if\s+shell\s*\.\s*options\(\)\s*\.\s*disallow_overwriting_regular_files_via_output_redirection\s*\{", blk)
            if not cond:
                raise core.CheckBroken("c10 translator: noclobber test not found in the Write arm")
            then_blk = _block_after(blk[cond.start():], r"\{", "noclobber branch")
            rest = blk[cond.start():]
            else_m = re.search(r"\}\s*else\s*\{", rest[rest.index(then_blk) + len(then_blk):])
            if not else_m:
                raise core.CheckBroken("c10 translator: else branch of the noclobber test not found")
            tail = rest[rest.index(then_blk) + len(then_blk):]
            else_blk = _block_after(tail[else_m.start() + 1:], r"else\s*\{", "plain Write branch")
            flags["Write"] = _flags(else_blk, "Write (plain)")
            inner = re.search(r"if\s+!\s*expanded_file_path\.is_file\(\)\s*\{", then_blk)
            if not inner:
                raise core.CheckBroken("c10 translator: is_file test not found in the noclobber branch")
            nf_blk = _block_after(then_blk[inner.start():], r"\{", "not-a-file branch")
            after = then_blk[inner.start():]
            after = after[after.index(nf_blk) + len(nf_blk):]
            em = re.search(r"\}\s*else\s*\{", after)
            if not em:
                raise core.CheckBroken("c10 translator: else of the is_file test not found")
            f_blk = _block_after(after[em.start() + 1:], r"else\s*\{", "is-a-file branch")
            common = after[after.index(f_blk) + len(f_blk) + 1:]
            flags["Write_nc_notfile"] = _flags(nf_blk, "Write nc not-file") | _flags(common, "Write nc common")
            flags["Write_nc_file"] = _flags(f_blk, "Write nc file") | _flags(common, "Write nc common")
        else:
            flags[k] = _flags(blk, k)
    # 3. &> / &>> options
    both = _block_after(interp, r"fn setup_redirect_output_and_error_to\(", "setup_redirect_output_and_error_to")
    mb = re.search(r"file_options\s*\.create\(true\)\s*\.write\(true\)\s*\.truncate\(!append\)\s*\.append\(append\)\s*;", both)
    both_checks_noclobber = "disallow_overwriting_regular_files_via_output_redirection" in both
    if not mb:
        raise core.CheckBroken("c10 translator: OpenOptions chain of setup_redirect_output_and_error_to not recognised")
    # 4. here-document / here-string default descriptor, dup defaults
    hd = re.search(r"ast::IoRedirect::HereDocument\(fd_num, io_here\)\s*=>\s*\{[^}]*?let fd_num = fd_num\.unwrap_or\((\d+)\);", interp, re.S)
    hs = re.search(r"ast::IoRedirect::HereString\(fd_num, word\)\s*=>\s*\{[^}]*?let fd_num = fd_num\.unwrap_or\((\d+)\);", interp, re.S)
    dups = re.findall(r"ast::IoFileRedirectKind::DuplicateInput => (\d+),\s*ast::IoFileRedirectKind::DuplicateOutput => (\d+),\s*_ => \{\s*return error::unimp\(\"unexpected redirect kind\"\);", interp)
    if not hd or not hs or len(dups) != 2 or len(set(dups)) != 1:
        raise core.CheckBroken("c10 translator: here-document/here-string/dup default descriptors not recognised")
    of = _read("brush-core/src/openfiles.rs")
    std = [re.search(r"pub const %s_FD: ShellFd = (\d+);" % n, of) for n in ("STDIN", "STDOUT", "STDERR")]
    if not all(std):
        raise core.CheckBroken("c10 translator: STDIN/STDOUT/STDERR_FD constants not found")
    # tokenizer / parser tables
    tok = _read("brush-parser/src/tokenizer.rs")
    ops = re.findall(r"state\.is_specific_operator\(\"(<<-?)\"\)\s*\{\s*self\.cross_state\.here_state\s*=\s*HereState::NextTokenIsHereTag \{ remove_tabs: (true|false) \};", tok)
    if sorted(ops) != [("<<", "false"), ("<<-", "true")]:
        raise core.CheckBroken("c10 translator: here-document operator table not recognised: %r" % (ops,))
    strip = re.search(r"current_here_tags\[0\]\.remove_tabs\s*&&\s*\(!state\.started_token\(\)\s*\|\|\s*state\.current_token\(\)\.ends_with\('\\n'\)\)\s*&&\s*c == '(\\?.)'", tok)
    if not strip:
        raise core.CheckBroken("c10 translator: tab-skipping condition of the here-document loop not recognised")
    qc = re.search(r"const fn is_quoting_char\(c: char\) -> bool \{\s*matches!\(c, ([^)]*)\)", tok)
    if not qc:
        raise core.CheckBroken("c10 translator: is_quoting_char not recognised")
    peg = _read("brush-parser/src/parser/peg.rs")
    rq = re.findall(r"let requires_expansion = !here_tag\.to_str\(\)\.contains\(\[([^\]]*)\]\);", peg)
    rt = re.findall(r"specific_operator\(\"(<<-?)\"\) here_tag:here_tag\(\) doc:\[_\] closing_tag:here_tag\(\) \{\s*let requires_expansion[^\n]*\n\s*ast::IoHereDocument \{\s*remove_tabs: (true|false),", peg)
    if len(rq) != 2 or rq[0] != rq[1] or sorted(rt) != [("<<", "false"), ("<<-", "true")]:
        raise core.CheckBroken("c10 translator: io_here rule not recognised")

    exp = _read("brush-core/src/expansion.rs")
    trig = re.search(r"let expansion_chars: &\[char\] = if self\.heredoc_mode \{\s*(?://[^\n]*\n\s*)*&\[([^\]]*)\]\s*\} else \{", exp)
    if not trig:
        raise core.CheckBroken("c10 translator: heredoc_mode trigger set of WordExpander::basic_expand not recognised")

    def chars(lst):
        out = []
        for lit in re.findall(r"'(\\?.)'", lst):
            ch = {"\\\\": "\\", "\\'": "'", "\\\"": "\"", "\\t": "\t", "\\n": "\n"}.get(lit, lit)
            if len(ch) != 1:
                raise core.CheckBroken("c10 translator: char literal %r" % lit)
            out.append(ord(ch))
        return out
    sc = chars("'" + strip.group(1) + "'")
    lines = ["(** GENERATED by translator/ex_c10.py from brush-core/src/interp.rs, openfiles.rs, brush-parser/src/tokenizer.rs,",
             "    parser/peg.rs - do not edit. *)", "From Coq Require Import List NArith.", "Import ListNotations.", ""]
    for k in KINDS:
        lines.append("Definition c10_default_fd_%s : nat := %d." % (k, dflt[k]))
    lines.append("Definition c10_default_dup_in : nat := %s." % dups[0][0])
    lines.append("Definition c10_default_dup_out : nat := %s." % dups[0][1])
    lines.append("Definition c10_default_heredoc : nat := %s." % hd.group(1))
    lines.append("Definition c10_default_herestring : nat := %s." % hs.group(1))
    lines.append("Definition c10_std_fds : nat * nat * nat := (%s, %s, %s)." % tuple(m.group(1) for m in std))
    lines.append("(** OpenOptions per kind: (read, write, append, truncate, create, create_new) *)")
    for k in ["Read", "Write", "Write_nc_notfile", "Write_nc_file", "Append", "ReadAndWrite", "Clobber"]:
        lines.append("Definition c10_open_%s : bool * bool * bool * bool * bool * bool := %s." % (k, _coq_flags(flags[k])))
    lines.append("(** &> / &>> : create, write, truncate = not append, append = append; does it consult noclobber? *)")
    lines.append("Definition c10_both_checks_noclobber : bool := %s." % ("true" if both_checks_noclobber else "false"))
    lines.append("Definition c10_here_ops : list (list N * bool) := [%s]." % "; ".join(
        "([%s]%%N, %s)" % ("; ".join(str(ord(c)) for c in op), rm) for op, rm in ops))
    lines.append("Definition c10_here_ops_parser : list (list N * bool) := [%s]." % "; ".join(
        "([%s]%%N, %s)" % ("; ".join(str(ord(c)) for c in op), rm) for op, rm in rt))
    lines.append("Definition c10_strip_char : N := %d%%N." % sc[0])
    lines.append("Definition c10_quoting_chars : list N := [%s]%%N." % "; ".join(str(c) for c in chars(qc.group(1))))
    lines.append("(** characters whose presence makes WordExpander::basic_expand process a here-document body at all *)")
    lines.append("Definition c10_heredoc_triggers : list N := [%s]%%N." % "; ".join(str(c) for c in chars(trig.group(1))))
    lines.append("Definition c10_requires_expansion_chars : list N := [%s]%%N." % "; ".join(str(c) for c in chars(rq[0])))
    return regen.write_if_changed("C10Defaults.v", "\n".join(lines) + "\n")


def extract_defaults_closed():
    """Fail closed WITHOUT stopping the run: when a Rust item no longer has the recognised shape the generated file
    loses its tables, so Redir/GenTie.v (c10_tables_match_source) stops compiling = a broken proof obligation, and the
    check goes on to the correspondence and the failing-input search, which print the concrete input if there is one.
    (A missing source file is still a CheckBroken.)"""
    try:
        return extract_defaults()
    except core.CheckBroken as e:
        msg = str(e)
        if "cannot read" in msg:
            raise
        core.log("c10 translator: " + msg)
        text = ("(** GENERATED by translator/ex_c10.py - do not edit.\n    The Rust source no longer has the shape this extractor recognises:\n    %s\n"
                "    No table is emitted; c10_tables_match_source cannot be re-checked. *)\n"
                "Definition c10_unrecognised_source_shape : unit := tt.\n") % msg.replace("*)", "* )").replace("(*", "( *").replace('"', "'")
        return regen.write_if_changed("C10Defaults.v", text)


EXTRACTORS = {"c10_defaults": extract_defaults_closed}
USES = {"C10": ["c10_defaults"]}
