(** Extraction of the executable models. Only [ExtrOcamlBasic]; numbers stay inductive. *)
From Coq Require Import Extraction ExtrOcamlBasic.
From BV Require Import Dispatch.
Extraction "../ocaml/model.ml" Dispatch.dispatch.
