(** Two's-complement 64-bit machine integers as [Z] with the wrap written out, and the
    primitive operations of Rust's [i64] used by brush-core/src/arithmetic.rs.
    Operations that panic in Rust on some operands return [option]. *)
From BV Require Import Base.Prelude.

Definition M63 : Z := 9223372036854775808.      (* 2^63 *)
Definition M64 : Z := 18446744073709551616.     (* 2^64 *)
Definition M32 : Z := 4294967296.               (* 2^32 *)

Lemma M63_pow : M63 = 2 ^ 63. Proof. reflexivity. Qed.
Lemma M64_pow : M64 = 2 ^ 64. Proof. reflexivity. Qed.
Lemma M32_pow : M32 = 2 ^ 32. Proof. reflexivity. Qed.

Definition wrap64 (z : Z) : Z := (z + M63) mod M64 - M63.
Definition inr (z : Z) : Prop := - M63 <= z < M63.

Lemma inr_in_i64 z : inr z <-> in_i64 z = true.
Proof.
  unfold inr, in_i64, i64_min, i64_max. rewrite <- M63_pow. unfold M63.
  rewrite andb_true_iff, !Z.leb_le. lia.
Qed.

Lemma wrap64_range z : inr (wrap64 z).
Proof.
  unfold inr, wrap64. pose proof (Z.mod_pos_bound (z + M63) M64 eq_refl) as H.
  unfold M63, M64 in *. lia.
Qed.

Lemma wrap64_id z : inr z -> wrap64 z = z.
Proof.
  unfold inr, wrap64. intros H. rewrite Z.mod_small; unfold M63, M64 in *; lia.
Qed.

(** [wrap64 z] is the representative of [z] modulo 2^64 *)
Lemma wrap64_mod z : wrap64 z mod M64 = z mod M64.
Proof.
  unfold wrap64.
  replace ((z + M63) mod M64 - M63) with ((z + M63) mod M64 + (-1) * M63) by ring.
  rewrite <- Zplus_mod_idemp_l. rewrite Z.mod_mod by (unfold M64; lia).
  rewrite Zplus_mod_idemp_l. f_equal. ring.
Qed.

Lemma wrap64_eqm a b : a mod M64 = b mod M64 -> wrap64 a = wrap64 b.
Proof.
  intros H. unfold wrap64. f_equal.
  rewrite <- (Zplus_mod_idemp_l a), <- (Zplus_mod_idemp_l b), H. reflexivity.
Qed.

Lemma wrap64_unique z r : inr r -> r mod M64 = z mod M64 -> wrap64 z = r.
Proof.
  intros Hr Hm. rewrite <- (wrap64_id r Hr). apply wrap64_eqm. symmetry; exact Hm.
Qed.

Lemma wrap64_idem z : wrap64 (wrap64 z) = wrap64 z.
Proof. apply wrap64_id, wrap64_range. Qed.

Lemma wrap64_add_l a b : wrap64 (wrap64 a + b) = wrap64 (a + b).
Proof. apply wrap64_eqm. rewrite <- Zplus_mod_idemp_l, wrap64_mod, Zplus_mod_idemp_l. reflexivity. Qed.
Lemma wrap64_add_r a b : wrap64 (a + wrap64 b) = wrap64 (a + b).
Proof. rewrite Z.add_comm, wrap64_add_l, Z.add_comm. reflexivity. Qed.
Lemma wrap64_mul_l a b : wrap64 (wrap64 a * b) = wrap64 (a * b).
Proof. apply wrap64_eqm. rewrite <- Zmult_mod_idemp_l, wrap64_mod, Zmult_mod_idemp_l. reflexivity. Qed.
Lemma wrap64_mul_r a b : wrap64 (a * wrap64 b) = wrap64 (a * b).
Proof. rewrite Z.mul_comm, wrap64_mul_l, Z.mul_comm. reflexivity. Qed.

(** ** The operations, named after the Rust methods *)
Definition wadd (a b : Z) : Z := wrap64 (a + b).          (* wrapping_add *)
Definition wsub (a b : Z) : Z := wrap64 (a - b).          (* wrapping_sub *)
Definition wmul (a b : Z) : Z := wrap64 (a * b).          (* wrapping_mul *)
Definition wneg (a : Z) : Z := wrap64 (- a).              (* wrapping_neg *)
Definition bnot (a : Z) : Z := - a - 1.                   (* ! on i64 *)
(** [wrapping_div]/[wrapping_rem] panic on a zero divisor: [None] *)
Definition wdiv (a b : Z) : option Z := if b =? 0 then None else Some (wrap64 (Z.quot a b)).
Definition wrem (a b : Z) : option Z := if b =? 0 then None else Some (wrap64 (Z.rem a b)).
(** [right as u32], then [wrapping_shl]/[wrapping_shr] mask the amount with 63 *)
Definition as_u32 (z : Z) : Z := z mod M32.
Definition as_u64 (z : Z) : Z := z mod M64.
Definition wshl (a : Z) (amt_u32 : Z) : Z := wrap64 (a * 2 ^ (amt_u32 mod 64)).
Definition wshr (a : Z) (amt_u32 : Z) : Z := a / 2 ^ (amt_u32 mod 64).

(** The loop of [wrapping_pow_u64]; the exponent is a [u64], so 64 iterations suffice.
    [None]: the loop did not finish within the fuel (never happens with fuel 64, see
    [wpow_loop_fuel]). *)
Fixpoint wpow_loop (fuel : nat) (base exponent result : Z) : option Z :=
  if exponent >? 0 then
    match fuel with
    | O => None
    | S f =>
      let result' := if exponent mod 2 =? 1 then wmul result base else result in
      wpow_loop f (wmul base base) (exponent / 2) result'
    end
  else Some result.
Definition wpow (base exponent : Z) : option Z := wpow_loop 64 base exponent 1.

(** ** Algebra *)
Theorem wadd_mod a b : wadd a b mod M64 = (a + b) mod M64.
Proof. apply wrap64_mod. Qed.
Theorem wsub_mod a b : wsub a b mod M64 = (a - b) mod M64.
Proof. apply wrap64_mod. Qed.
Theorem wmul_mod a b : wmul a b mod M64 = (a * b) mod M64.
Proof. apply wrap64_mod. Qed.
Theorem wneg_mod a : wneg a mod M64 = (- a) mod M64.
Proof. apply wrap64_mod. Qed.

Lemma wadd_range a b : inr (wadd a b). Proof. apply wrap64_range. Qed.
Lemma wsub_range a b : inr (wsub a b). Proof. apply wrap64_range. Qed.
Lemma wmul_range a b : inr (wmul a b). Proof. apply wrap64_range. Qed.
Lemma wneg_range a : inr (wneg a). Proof. apply wrap64_range. Qed.
Lemma bnot_range a : inr a -> inr (bnot a).
Proof. unfold inr, bnot, M63. lia. Qed.
Lemma bnot_lnot a : bnot a = Z.lnot a.
Proof. unfold bnot, Z.lnot. lia. Qed.

Lemma wadd_exact a b : inr (a + b) -> wadd a b = a + b.
Proof. apply wrap64_id. Qed.
Lemma wsub_exact a b : inr (a - b) -> wsub a b = a - b.
Proof. apply wrap64_id. Qed.
Lemma wmul_exact a b : inr (a * b) -> wmul a b = a * b.
Proof. apply wrap64_id. Qed.

(** *** pow *)
Lemma wpow_loop_correct fuel : forall base e result,
  0 <= e < 2 ^ Z.of_nat fuel -> inr result ->
  wpow_loop fuel base e result = Some (wrap64 (result * base ^ e)).
Proof.
  induction fuel as [|f IH]; intros base e result He Hr.
  - cbn in He. assert (e = 0) by lia. subst e. cbn. rewrite Z.mul_1_r, wrap64_id by exact Hr. reflexivity.
  - cbn [wpow_loop]. destruct (Z.gtb_spec e 0) as [Hpos|Hz].
    + assert (Hdiv : 0 <= e / 2 < 2 ^ Z.of_nat f).
      { rewrite Nat2Z.inj_succ, Z.pow_succ_r in He by lia. split; [apply Z.div_pos; lia|].
        apply Z.div_lt_upper_bound; lia. }
      assert (Hdm := Z.div_mod e 2 ltac:(lia)).
      assert (Hmb := Z.mod_pos_bound e 2 ltac:(lia)).
      rewrite IH; [|exact Hdiv|destruct (e mod 2 =? 1); [apply wmul_range|exact Hr]].
      f_equal. apply wrap64_eqm.
      assert (Hpow : base ^ e = (base * base) ^ (e / 2) * base ^ (e mod 2)).
      { rewrite Hdm at 1. rewrite Z.pow_add_r by lia. rewrite Z.pow_mul_r by lia.
        replace (base ^ 2) with (base * base) by (rewrite Z.pow_2_r; reflexivity). reflexivity. }
      rewrite Hpow.
      assert (Hbb : (wmul base base) ^ (e / 2) mod M64 = ((base * base) ^ (e / 2)) mod M64).
      { clear - Hdiv. destruct Hdiv as [Hnn _]. revert Hnn. generalize (e / 2). intros k Hk.
        pattern k. apply natlike_ind; [reflexivity| |exact Hk].
        intros x Hx IHx. rewrite !Z.pow_succ_r by exact Hx.
        rewrite Zmult_mod, IHx, (wmul_mod base base), <- Zmult_mod. reflexivity. }
      destruct (Z.eqb_spec (e mod 2) 1) as [H1|H1].
      * rewrite H1, Z.pow_1_r.
        rewrite Zmult_mod, Hbb, (wmul_mod result base), <- Zmult_mod. f_equal. ring.
      * assert (H0 : e mod 2 = 0) by lia. rewrite H0, Z.pow_0_r, Z.mul_1_r.
        rewrite Zmult_mod, Hbb, <- Zmult_mod. reflexivity.
    + assert (e = 0) by lia. subst e. rewrite Z.pow_0_r, Z.mul_1_r, wrap64_id by exact Hr. reflexivity.
Qed.

(** [wrapping_pow_u64 b e = wrap64 (b^e)] for every [u64] exponent; the loop always finishes. *)
Theorem wpow_correct base e : 0 <= e < M64 -> wpow base e = Some (wrap64 (base ^ e)).
Proof.
  intros He. unfold wpow. rewrite wpow_loop_correct.
  - rewrite Z.mul_1_l. reflexivity.
  - rewrite M64_pow in He. exact He.
  - unfold inr, M63. lia.
Qed.

(** *** shifts: the amount is the right operand modulo 64 *)
Lemma as_u32_mod64 r : as_u32 r mod 64 = r mod 64.
Proof.
  unfold as_u32. symmetry. apply Znumtheory.Zmod_div_mod; [lia|unfold M32; lia|].
  exists 67108864. reflexivity.
Qed.
Theorem wshl_spec a r : wshl a (as_u32 r) = wrap64 (a * 2 ^ (r mod 64)).
Proof. unfold wshl. rewrite as_u32_mod64. reflexivity. Qed.
Theorem wshr_spec a r : wshr a (as_u32 r) = a / 2 ^ (r mod 64).
Proof. unfold wshr. rewrite as_u32_mod64. reflexivity. Qed.
Lemma wshr_range a k : inr a -> inr (wshr a k).
Proof.
  unfold wshr, inr. intros H.
  assert (Hp : 0 < 2 ^ (k mod 64)) by (apply Z.pow_pos_nonneg; [lia|apply Z.mod_pos_bound; lia]).
  split.
  - apply Z.div_le_lower_bound; [exact Hp|]. unfold M63 in *. nia.
  - apply Z.div_lt_upper_bound; [exact Hp|]. unfold M63 in *. nia.
Qed.
Lemma wshr_shiftr a k : wshr a k = Z.shiftr a (k mod 64).
Proof. unfold wshr. rewrite Z.shiftr_div_pow2; [reflexivity|apply Z.mod_pos_bound; lia]. Qed.

(** *** C division: truncation toward zero, remainder has the sign of the dividend *)
Theorem wdiv_none a b : wdiv a b = None <-> b = 0.
Proof. unfold wdiv. destruct (Z.eqb_spec b 0); split; congruence. Qed.
Theorem wrem_none a b : wrem a b = None <-> b = 0.
Proof. unfold wrem. destruct (Z.eqb_spec b 0); split; congruence. Qed.

Lemma quot_range a b : inr a -> b <> 0 -> - M63 <= Z.quot a b <= M63.
Proof.
  intros Ha Hb. unfold inr in Ha.
  assert (Habs : Z.abs (Z.quot a b) <= Z.abs a).
  { rewrite <- Z.quot_abs by exact Hb.
    apply Z.quot_le_upper_bound; [lia|]. assert (1 <= Z.abs b) by lia. nia. }
  lia.
Qed.

Theorem div_rem_c a b q r : inr a -> inr b -> wdiv a b = Some q -> wrem a b = Some r ->
  b <> 0 /\ inr q /\ inr r /\
  (~ (a = - M63 /\ b = -1) -> a = q * b + r) /\
  Z.abs r < Z.abs b /\ (r = 0 \/ Z.sgn r = Z.sgn a) /\
  (a = - M63 -> b = -1 -> q = - M63 /\ r = 0).
Proof.
  intros Ha Hb Hq Hr. unfold wdiv, wrem in *.
  destruct (Z.eqb_spec b 0) as [|Hb0]; [discriminate|].
  injection Hq as <-. injection Hr as <-.
  pose proof (Z.quot_rem' a b) as Hqr.
  pose proof (Z.rem_bound_abs a b Hb0) as Hrb.
  assert (Hrr : inr (Z.rem a b)) by (unfold inr in *; lia).
  rewrite (wrap64_id (Z.rem a b)) by exact Hrr.
  split; [exact Hb0|]. split; [apply wrap64_range|]. split; [exact Hrr|].
  split; [|split; [exact Hrb|split]].
  - intros Hnm. rewrite wrap64_id; [lia|].
    pose proof (quot_range a b Ha Hb0) as Hq.
    destruct (Z.eq_dec (Z.quot a b) M63) as [He|Hne]; [|unfold inr; lia].
    exfalso. apply Hnm.
    assert (Z.abs (Z.rem a b) < Z.abs b) by exact Hrb.
    unfold inr, M63 in *. nia.
  - destruct (Z.eq_dec (Z.rem a b) 0) as [|Hnz]; [left; assumption|right].
    apply Z.rem_sign_nz; assumption.
  - intros -> ->. split; reflexivity.
Qed.

(** *** bitwise operations stay in range *)
Lemma inr_shiftr z : inr z <-> (Z.shiftr z 63 = 0 \/ Z.shiftr z 63 = -1).
Proof.
  rewrite Z.shiftr_div_pow2 by lia. rewrite <- M63_pow. unfold inr.
  pose proof (Z.div_mod z M63 ltac:(unfold M63; lia)) as Hdm.
  pose proof (Z.mod_pos_bound z M63 eq_refl) as Hb.
  unfold M63 in *. split; [intros H | intros [H|H]]; lia.
Qed.
Lemma land_range a b : inr a -> inr b -> inr (Z.land a b).
Proof.
  rewrite !inr_shiftr, Z.shiftr_land. intros [-> | ->] [-> | ->]; cbn; auto.
Qed.
Lemma lor_range a b : inr a -> inr b -> inr (Z.lor a b).
Proof.
  rewrite !inr_shiftr, Z.shiftr_lor. intros [-> | ->] [-> | ->]; cbn; auto.
Qed.
Lemma lxor_range a b : inr a -> inr b -> inr (Z.lxor a b).
Proof.
  rewrite !inr_shiftr, Z.shiftr_lxor. intros [-> | ->] [-> | ->]; cbn; auto.
Qed.

Global Arguments wrap64 : simpl never.
Global Arguments wadd : simpl never.
Global Arguments wsub : simpl never.
Global Arguments wmul : simpl never.
Global Arguments wneg : simpl never.
Global Arguments wdiv : simpl never.
Global Arguments wrem : simpl never.
Global Arguments wshl : simpl never.
Global Arguments wshr : simpl never.
Global Arguments wpow : simpl never.
Global Arguments wpow_loop : simpl never.
Global Arguments as_u32 : simpl never.
Global Arguments as_u64 : simpl never.
Global Arguments bnot : simpl never.
