(** The character-level instance of the round-trip theorem: the table facts of
    [TokProofs.table_facts] for the real lexical primitives ([char_lexer arith_lex]) on inputs in
    which tokens are separated by single blanks.  With them [TokProofs.gparse_render] gives
    [parse_render]: brush's parser (model) maps every one-blank rendering of a tree from bash's
    table — minimal or redundant parentheses — back to the tree. *)
From Coq Require Import String ZifyBool ZifyN.
From BV Require Import Base.Prelude Base.Codec Base.Decimal Arith.Wrap64 Arith.Ast Arith.Lit Arith.PegPrec
  gen.C07ArithTable Arith.TokProofs.

Notation CL := (char_lexer arith_lex).
Notation SPC := 32%N.

Definition cont (r : T) : str := match r with [] => [] | _ => SPC :: show_toks r end.
Lemma show_toks_cons t r : show_toks (t :: r) = show_tok t ++ cont r.
Proof. destruct r; cbn [show_toks cont]; [rewrite app_nil_r|]; reflexivity. Qed.

Definition okid (x : str) : Prop := variable_name arith_lex x = Some (x, []).
Definition oknum (z : Z) : Prop := 0 <= z < M63.
Definition opok (o : str) : Prop :=
  match o with c :: _ => in_class (ws_class arith_lex) c = false | [] => False end.
Definition bad_start (c : char) : bool :=
  (N.eqb c 61 || N.eqb c 60 || N.eqb c 62 || N.eqb c 38 || N.eqb c 124 || N.eqb c 42)%bool.
Definition rec_good (rec : nat -> str -> pres aexpr str) : Prop :=
  forall lvl c s, bad_start c = true -> rec lvl (c :: s) = PFail.

(** ** character classes of the regenerated lexical table *)
Ltac nrm := unfold str, char in *.

Ltac class_solve :=
  unfold in_class, is_digit in *;
  cbn [existsb fst snd ws_class name_start name_cont dec_first dec_rest oct_digits hex_marker
       radix_digits hex_digits arith_lex] in *;
  lia.

Lemma name_start_not_ws c : in_class (name_start arith_lex) c = true -> in_class (ws_class arith_lex) c = false.
Proof. intros H. class_solve. Qed.
Lemma name_start_cont c : in_class (name_start arith_lex) c = true -> in_class (name_cont arith_lex) c = true.
Proof. intros H. class_solve. Qed.
Lemma digit_classes c : is_digit c = true ->
  in_class (ws_class arith_lex) c = false /\ in_class (name_start arith_lex) c = false /\
  in_class (dec_rest arith_lex) c = true.
Proof.
  intros H. repeat split; class_solve.
Qed.
Lemma spc_classes : in_class (name_cont arith_lex) SPC = false /\ in_class (dec_rest arith_lex) SPC = false /\
  in_class (oct_digits arith_lex) SPC = false /\ in_class (hex_marker arith_lex) SPC = false /\
  in_class (ws_class arith_lex) SPC = true /\ in_class (name_start arith_lex) SPC = false.
Proof. repeat split; reflexivity. Qed.

(** ** blanks *)
Lemma skip_ws_nonws (c : N) (s : list N) : in_class (ws_class arith_lex) c = false -> skip_ws arith_lex (c :: s) = c :: s.
Proof. intros H. cbn [skip_ws]. rewrite H. reflexivity. Qed.

(** ** identifiers *)
Lemma take_while_app cls s : forall r, take_while cls s = (s, []) ->
  match r with d :: _ => in_class cls d = false | [] => True end -> take_while cls (s ++ r) = (s, r).
Proof.
  induction s as [|c s IH]; intros r Hs Hr.
  - cbn. destruct r as [|d r]; [reflexivity|]. cbn. rewrite Hr. reflexivity.
  - cbn [app take_while] in *. destruct (in_class cls c); [|discriminate].
    destruct (take_while cls s) as [a b] eqn:E. injection Hs as Ha Hb. subst a b.
    rewrite (IH r eq_refl Hr). reflexivity.
Qed.

Lemma okid_inv x : okid x -> exists c x', x = c :: x' /\ in_class (name_start arith_lex) c = true /\
  take_while (name_cont arith_lex) x' = (x', []).
Proof.
  unfold okid, variable_name. destruct x as [|c x']; [discriminate|].
  destruct (in_class (name_start arith_lex) c) eqn:Ec; [|discriminate].
  destruct (take_while (name_cont arith_lex) x') as [n rest] eqn:Et.
  intros H. injection H as Hn Hr. subst n rest. exists c, x'. auto.
Qed.

Lemma cont_head r : match cont r with d :: _ => d = SPC | [] => True end.
Proof. destruct r; cbn; auto. Qed.

Lemma variable_name_cont x r : okid x -> variable_name arith_lex (x ++ cont r) = Some (x, cont r).
Proof.
  intros Hx. destruct (okid_inv x Hx) as (c & x' & -> & Hc & Ht).
  cbn [app variable_name]. rewrite Hc. rewrite (take_while_app _ x' (cont r) Ht); [reflexivity|].
  pose proof (cont_head r) as Hh. destruct (cont r) as [|d ?]; [exact I|]. subst d. reflexivity.
Qed.

Lemma lvalue_ident expr x r : okid x -> lvalue arith_lex expr (x ++ cont r) = PMatch (x, None) (cont r).
Proof.
  intros Hx. unfold lvalue. rewrite variable_name_cont by exact Hx.
  pose proof (cont_head r) as Hh. destruct (cont r) as [|d ?]; [reflexivity|]. subst d. reflexivity.
Qed.

Lemma okid_first_not_ws x s : okid x -> exists c s', x ++ s = c :: s' /\ in_class (ws_class arith_lex) c = false.
Proof.
  intros Hx. destruct (okid_inv x Hx) as (c & x' & -> & Hc & _).
  exists c, (x' ++ s). split; [reflexivity|]. apply name_start_not_ws. exact Hc.
Qed.

(** ** numbers *)
Lemma show_N_fuel_lead f : forall n acc, (0 < n)%N -> (Z.of_N n < 10 ^ Z.of_nat f) ->
  exists d rest, show_N_fuel f n acc = d :: rest /\ (49 <= d <= 57)%N.
Proof.
  induction f as [|f IH]; intros n acc Hn Hb.
  - cbn in Hb. lia.
  - cbn [show_N_fuel]. destruct (N.ltb_spec n 10) as [Hlt|Hge].
    + exists (48 + n mod 10)%N, acc. split; [reflexivity|]. rewrite N.mod_small by assumption. lia.
    + apply IH.
      * apply N.div_str_pos. lia.
      * rewrite N2Z.inj_div. apply Z.div_lt_upper_bound; [lia|].
        rewrite Nat2Z.inj_succ, Z.pow_succ_r in Hb by lia. exact Hb.
Qed.

Lemma show_Z_pos z : 0 < z -> exists d ds, show_Z z = d :: ds /\ (49 <= d <= 57)%N /\ all_digits ds /\
  val 0 (d :: ds) = z.
Proof.
  intros Hz. unfold show_Z. destruct (Z.ltb_spec z 0); [lia|].
  destruct (show_N_spec (Z.to_N z)) as (Ha & Hv & _).
  unfold show_N in *.
  destruct (show_N_fuel_lead (S (N.size_nat (Z.to_N z))) (Z.to_N z) [] ltac:(lia) (size_bound _)) as (d & ds & E & Hd).
  rewrite E in *. exists d, ds. split; [reflexivity|]. split; [exact Hd|]. split; [inversion Ha; assumption|].
  rewrite Hv. lia.
Qed.

Lemma take_while_digits ds r : all_digits ds ->
  match r with d :: _ => d = SPC | [] => True end ->
  take_while (dec_rest arith_lex) (ds ++ r) = (ds, r).
Proof.
  intros Ha Hr. apply take_while_app.
  - induction Ha as [|c s Hc _ IH]; [reflexivity|]. cbn [take_while].
    destruct (digit_classes c Hc) as (_ & _ & ->). rewrite IH. reflexivity.
  - destruct r as [|d ?]; [exact I|]. subst d. reflexivity.
Qed.

(** positional value of a digit string, as the two literal parsers compute it *)
Lemma to_digit_dec c : is_digit c = true -> to_digit 10 c = Some (dval c).
Proof.
  unfold is_digit, to_digit, dval. intros H. rewrite H.
  apply andb_prop in H as [H1 H2]. apply N.leb_le in H1, H2.
  destruct (Z.ltb_spec (Z.of_N c - 48) 10); [reflexivity|lia].
Qed.
Lemma radix_val_dec s : all_digits s -> forall acc, radix_val 10 acc s = Some (val acc s).
Proof.
  induction 1 as [|c s Hc _ IH]; intros acc; cbn [radix_val val]; [reflexivity|].
  rewrite to_digit_dec by exact Hc. apply IH.
Qed.
Lemma dmap_dec c : is_digit c = true -> dmap_val (dmap_ci arith_lex) c = Some (dval c) /\ 0 <= dval c < 10.
Proof.
  unfold is_digit, dval. intros H. apply andb_prop in H as [H1 H2]. apply N.leb_le in H1, H2.
  cbn [dmap_ci arith_lex dmap_val]. destruct (N.leb_spec 48 c); [|lia]. destruct (N.leb_spec c 57); [|lia].
  cbn. split; [f_equal; lia|lia].
Qed.
Lemma val_congr s : forall a b, a mod M64 = b mod M64 -> (val a s) mod M64 = (val b s) mod M64.
Proof.
  induction s as [|c s IH]; intros a b Hab; cbn [val]; [exact Hab|].
  apply IH. rewrite Zplus_mod, Zmult_mod, Hab, <- Zmult_mod, <- Zplus_mod. reflexivity.
Qed.
Lemma shell_digits_dec s : all_digits s -> forall acc, inr acc ->
  shell_digits arith_lex 10 acc s = Some (wrap64 (val acc s)).
Proof.
  induction 1 as [|c s Hc _ IH]; intros acc Hacc; cbn [shell_digits val].
  - rewrite wrap64_id by exact Hacc. reflexivity.
  - replace (10 <=? radix_ci_max arith_lex) with true by reflexivity.
    destruct (dmap_dec c Hc) as [-> Hd].
    destruct (Z.geb_spec (dval c) 10); [lia|].
    rewrite IH by apply wadd_range. f_equal.
    apply wrap64_eqm. apply val_congr. unfold wadd, wmul. rewrite wrap64_mod.
    rewrite Zplus_mod, wrap64_mod, <- Zplus_mod. reflexivity.
Qed.

Lemma decimal_value (d : char) (ds : str) z : (49 <= d <= 57)%N -> all_digits ds -> val 0 (d :: ds) = z -> oknum z ->
  (if dec_wrap arith_lex then parse_shell_literal_number arith_lex (d :: ds) 10 else u64_parse_cast (d :: ds)) = Some z.
Proof.
  intros Hd Ha Hv Hz.
  assert (Hall : all_digits (d :: ds)).
  { constructor; [|exact Ha]. unfold is_digit. apply andb_true_intro. split; apply N.leb_le; lia. }
  destruct (dec_wrap arith_lex).
  - unfold parse_shell_literal_number. replace ((radix_min arith_lex <=? 10) && (10 <=? radix_max arith_lex))%bool with true by reflexivity.
    rewrite shell_digits_dec; [|exact Hall|unfold inr, M63; lia]. rewrite Hv.
    rewrite wrap64_id; [reflexivity|]. unfold oknum, inr, M63 in *. lia.
  - unfold u64_parse_cast. rewrite radix_val_dec by exact Hall. rewrite Hv.
    unfold oknum, M63 in Hz. destruct (Z.ltb_spec z M64); [|unfold M64 in *; lia].
    rewrite wrap64_id; [reflexivity|unfold inr, M63; lia].
Qed.

Lemma literal_number_show z r : oknum z -> literal_number arith_lex (show_Z z ++ cont r) = Some (z, cont r).
Proof.
  intros Hz. pose proof (cont_head r) as Hh.
  destruct (Z.eq_dec z 0) as [->|Hnz].
  - (* "0": the octal alternative *)
    change (show_Z 0) with [48%N]. cbn [app]. unfold literal_number.
    match goal with |- context [lit_radix arith_lex ?s] =>
      assert (E1 : lit_radix arith_lex s = None) by reflexivity end.
    rewrite E1.
    match goal with |- context [lit_hex arith_lex ?s] => assert (E2 : lit_hex arith_lex s = None) end.
    { unfold lit_hex. destruct (cont r) as [|d c0]; [reflexivity|]. subst d. reflexivity. }
    rewrite E2. unfold lit_oct. replace (N.eqb 48 (oct_lead arith_lex)) with true by reflexivity.
    assert (E3 : take_while (oct_digits arith_lex) (cont r) = ([], cont r)).
    { destruct (cont r) as [|d c0]; [reflexivity|]. subst d. reflexivity. }
    rewrite E3. destruct (oct_wrap arith_lex); reflexivity.
  - destruct (show_Z_pos z ltac:(unfold oknum in Hz; lia)) as (d & ds & -> & Hd & Ha & Hv).
    cbn [app]. unfold literal_number.
    match goal with |- context [decimal_literal arith_lex ?s] =>
      assert (Edec : decimal_literal arith_lex s = Some (z, cont r)) end.
    { unfold decimal_literal. replace (in_class (dec_first arith_lex) d) with true by (symmetry; class_solve).
      rewrite take_while_digits; [|exact Ha|exact Hh]. rewrite (decimal_value d ds z Hd Ha Hv Hz). reflexivity. }
    match goal with |- context [lit_radix arith_lex ?s] => assert (E1 : lit_radix arith_lex s = None) end.
    { unfold lit_radix. rewrite Edec. destruct (cont r) as [|c0 c1]; [reflexivity|]. subst c0. reflexivity. }
    rewrite E1.
    assert (Hd48 : N.eqb d 48 = false) by (apply N.eqb_neq; lia).
    match goal with |- context [lit_hex arith_lex ?s] => assert (E2 : lit_hex arith_lex s = None) end.
    { unfold lit_hex. destruct (ds ++ cont r); [reflexivity|]. cbn [hex_lead arith_lex]. rewrite Hd48. reflexivity. }
    rewrite E2.
    match goal with |- context [lit_oct arith_lex ?s] => assert (E3 : lit_oct arith_lex s = None) end.
    { unfold lit_oct. cbn [oct_lead arith_lex]. rewrite Hd48. reflexivity. }
    rewrite E3. exact Edec.
Qed.

Lemma oknum_first z s : oknum z -> exists c s', show_Z z ++ s = c :: s' /\ is_digit c = true.
Proof.
  intros Hz. destruct (Z.eq_dec z 0) as [->|Hnz].
  - exists 48%N, s. split; reflexivity.
  - destruct (show_Z_pos z ltac:(unfold oknum in Hz; lia)) as (d & ds & -> & Hd & _).
    exists d, (ds ++ s). split; [reflexivity|]. unfold is_digit. apply andb_true_intro. split; apply N.leb_le; lia.
Qed.

(** ** [_] in front of a valid token stops at it *)
Lemma first_ok_head s : first_ok okid oknum opok s ->
  exists c s', show_toks s = c :: s' /\ in_class (ws_class arith_lex) c = false.
Proof.
  destruct s as [|t r]; [intros []|]. rewrite show_toks_cons. destruct t as [z|x|o]; cbn [first_ok show_tok].
  - intros Hz. destruct (oknum_first z (cont r) Hz) as (c & s' & -> & Hc). exists c, s'. split; [reflexivity|].
    apply (digit_classes c Hc).
  - intros Hx. apply okid_first_not_ws. exact Hx.
  - unfold opok. destruct o as [|c o']; [intros []|]. intros Hc. exists c, (o' ++ cont r). auto.
Qed.
Lemma skip_ws_cont s : first_ok okid oknum opok s -> skip_ws arith_lex (cont s) = show_toks s.
Proof.
  intros H. destruct (first_ok_head s H) as (c & s' & E & Hc).
  destruct s as [|t r]; [destruct H|]. unfold cont. cbn [skip_ws].
  replace (in_class (ws_class arith_lex) SPC) with true by reflexivity.
  rewrite E. apply skip_ws_nonws. exact Hc.
Qed.
Lemma skip_ws_enc s : first_ok okid oknum opok s -> skip_ws arith_lex (show_toks s) = show_toks s.
Proof.
  intros H. destruct (first_ok_head s H) as (c & s' & E & Hc). rewrite E. apply skip_ws_nonws. exact Hc.
Qed.

(** ** generic facts about the level walks over characters *)
Notation cfirst_pre := (first_pre str CL).
Notation cfirst_pre_level := (first_pre_level str CL).
Notation cfirst_post := (first_post str CL).
Notation cfirst_post_level := (first_post_level str CL).
Notation crun_pre := (run_pre str CL).
Notation crun_post := (run_post str CL).
Notation crun_elems := (run_elems str CL).

(** matching an operator literal against a known prefix [p] of the input:
    [None] = mismatch inside [p]; [Some None] = [p] ran out; [Some (Some r)] = matched, [r] left of [p] *)
Fixpoint dp (t p : list N) : option (option (list N)) :=
  match t, p with
  | [], _ => Some (Some p)
  | _ :: _, [] => Some None
  | x :: t', y :: p' => if N.eqb x y then dp t' p' else None
  end.
Lemma dp_none (t : list N) : forall (p X : list N), dp t p = None -> drop_prefix t (p ++ X) = None.
Proof.
  induction t as [|x t IH]; intros p X; [discriminate|]. destruct p as [|y p]; [discriminate|].
  cbn. destruct (N.eqb x y); [apply IH|reflexivity].
Qed.
Lemma dp_some (t : list N) : forall (p r X : list N), dp t p = Some (Some r) -> drop_prefix t (p ++ X) = Some (r ++ X).
Proof.
  induction t as [|x t IH]; intros p r X.
  - cbn. intros H; injection H as <-. reflexivity.
  - destruct p as [|y p]; [discriminate|]. cbn. destruct (N.eqb x y); [apply IH|discriminate].
Qed.

(** a post rule (infix/ternary) fails on [blank p X] when its operator literal mismatches [p], or
    (binary operators) matches a proper prefix of the operator in [p] leaving a character that
    starts no operand *)
Definition crule_rejects (atend : bool) (r : rule) (p : list N) : bool :=
  is_pre r ||
  (markers_ok r &&
   match rk r, rels r with
   | KInfix _ _, EWs :: ETok t :: els =>
     match dp t p with
     | None => true
     | Some (Some (c :: _)) => bad_start c && match els with [EWs] => true | _ => false end
     | Some None => atend            (* the input ends inside the operator literal *)
     | _ => false
     end
   | _, _ => false
   end).
Definition clevel_rejects (atend : bool) (rs : list rule) (p : list N) : bool :=
  forallb (fun r => crule_rejects atend r p) rs.

Lemma dp_end (t : list N) : forall p, dp t p = Some None -> drop_prefix t p = None.
Proof.
  induction t as [|x t IH]; intros p; [discriminate|]. destruct p as [|y p]; [reflexivity|].
  cbn. destruct (N.eqb x y); [apply IH|discriminate].
Qed.

Lemma bad_start_not_ws c : bad_start c = true -> in_class (ws_class arith_lex) c = false.
Proof. unfold bad_start. intros H. class_solve. Qed.

Definition nonws_head (p : list N) : Prop :=
  match p with c :: _ => in_class (ws_class arith_lex) c = false | [] => False end.

Lemma skip_ws_blank (p X : list N) : nonws_head p -> skip_ws arith_lex (SPC :: p ++ X) = p ++ X.
Proof.
  intros Hp. nrm. cbn [skip_ws]. replace (in_class (ws_class arith_lex) SPC) with true by reflexivity.
  destruct p as [|c p']; [destruct Hp|]. apply skip_ws_nonws. exact Hp.
Qed.

Lemma crule_rejects_ok atend rec prec r left (p X : list N) : rec_good rec -> is_pre r = false ->
  crule_rejects atend r p = true -> nonws_head p -> (atend = true -> X = []) ->
  crun_post rec prec r left (SPC :: p ++ X) = PFail.
Proof.
  intros Hg Hp H Hp1 Hend. unfold crule_rejects in H. rewrite Hp in H. cbn [orb] in H. nrm.
  apply andb_true_iff in H as [Hm H]. unfold run_post. unfold markers_ok in Hm.
  destruct (rk r) as [la ra| | |]; try discriminate.
  destruct (rels r) as [|[| | | | |] [|[|t| | | |] els]]; try discriminate.
  assert (E1 : dp t p = None -> crun_elems rec (EWs :: ETok t :: els) [VE left] (SPC :: p ++ X) = PFail).
  { intros Ed. cbn [run_elems lx_ws lx_tok char_lexer]. nrm. rewrite skip_ws_blank by exact Hp1.
    rewrite (dp_none _ _ _ Ed). reflexivity. }
  assert (E2 : forall r0, dp t p = Some (Some r0) ->
               crun_elems rec (EWs :: ETok t :: els) [VE left] (SPC :: p ++ X) = crun_elems rec els [VE left] (r0 ++ X)).
  { intros r0 Ed. cbn [run_elems lx_ws lx_tok char_lexer]. nrm. rewrite skip_ws_blank by exact Hp1.
    rewrite (dp_some _ _ _ _ Ed). reflexivity. }
  assert (E3 : dp t p = Some None -> atend = true ->
               crun_elems rec (EWs :: ETok t :: els) [VE left] (SPC :: p ++ X) = PFail).
  { intros Ed Ha. rewrite (Hend Ha), app_nil_r. cbn [run_elems lx_ws lx_tok char_lexer]. nrm.
    rewrite <- (app_nil_r p) at 1. rewrite skip_ws_blank by exact Hp1. rewrite app_nil_r.
    rewrite (dp_end _ _ Ed). reflexivity. }
  nrm. destruct (dp t p) as [[[|c r0]|]|] eqn:Ed; try discriminate.
  - apply andb_true_iff in H as [Hb He]. destruct els as [|[| | | | |] [|? ?]]; try discriminate.
    destruct la, ra; try discriminate; rewrite (E2 _ eq_refl);
      cbn [app run_elems lx_ws char_lexer]; nrm;
      rewrite skip_ws_nonws by (apply bad_start_not_ws; exact Hb);
      rewrite Hg by exact Hb; reflexivity.
  - destruct la, ra; try discriminate; rewrite (E3 eq_refl H); reflexivity.
  - destruct la, ra; try discriminate; rewrite (E1 eq_refl); reflexivity.
Qed.

Lemma clevel_rejects_ok atend rec prec rs left (p X : list N) : rec_good rec -> clevel_rejects atend rs p = true ->
  nonws_head p -> (atend = true -> X = []) ->
  cfirst_post_level rec prec rs left (SPC :: p ++ X) = PFail.
Proof.
  intros Hg H Hp Hend. induction rs as [|r rs IH]; cbn [first_post_level clevel_rejects forallb] in *; [reflexivity|].
  apply andb_true_iff in H as [Hr Hrs].
  destruct (is_pre r) eqn:Ep; [apply IH; exact Hrs|].
  rewrite (crule_rejects_ok atend) by assumption. apply IH. exact Hrs.
Qed.

Lemma cpost_skip atend rec m k rs lv left (p X : list N) : rec_good rec -> clevel_rejects atend rs p = true ->
  nonws_head p -> (atend = true -> X = []) ->
  cfirst_post rec m k (rs :: lv) left (SPC :: p ++ X) = cfirst_post rec m (S k) lv left (SPC :: p ++ X).
Proof.
  intros Hg H Hp Hend. cbn [first_post]. rewrite (clevel_rejects_ok atend) by assumption.
  destruct (m <=? k)%nat; reflexivity.
Qed.
Lemma cpost_below rec m k rs lv left s : (k < m)%nat ->
  cfirst_post rec m k (rs :: lv) left s = cfirst_post rec m (S k) lv left s.
Proof. intros H. cbn [first_post]. destruct (Nat.leb_spec m k); [lia|reflexivity]. Qed.
Lemma cpost_hit rec m k rs lv left s : (m <= k)%nat ->
  cfirst_post rec m k (rs :: lv) left s =
  match cfirst_post_level rec k rs left s with
  | PFail => cfirst_post rec m (S k) lv left s
  | x => x
  end.
Proof. intros H. cbn [first_post]. destruct (Nat.leb_spec m k); [reflexivity|lia]. Qed.

(** the empty rest: every post rule wants an operator *)
Definition cnil_rejects (rs : list rule) : bool :=
  forallb (fun r => is_pre r || (markers_ok r && match rk r, rels r with
                                              | KInfix _ _, EWs :: ETok (_ :: _) :: _ => true
                                              | _, _ => false
                                              end)) rs.
Lemma cnil_rejects_ok rec prec rs left : cnil_rejects rs = true -> cfirst_post_level rec prec rs left [] = PFail.
Proof.
  induction rs as [|r rs IH]; cbn [first_post_level cnil_rejects forallb]; [reflexivity|].
  intros H. apply andb_true_iff in H as [Hr Hrs].
  destruct (is_pre r) eqn:Ep; [apply IH; exact Hrs|]. cbn [orb] in Hr.
  apply andb_true_iff in Hr as [Hm Hr]. unfold run_post. unfold markers_ok in Hm.
  destruct (rk r) as [la ra| | |]; try discriminate.
  destruct (rels r) as [|[| | | | |] [|[|[|c t]| | | |] els]]; try discriminate.
  destruct la, ra; try discriminate; cbn; apply IH; exact Hrs.
Qed.
Lemma cpost_skip_nil rec m k rs lv left : cnil_rejects rs = true ->
  cfirst_post rec m k (rs :: lv) left [] = cfirst_post rec m (S k) lv left [].
Proof.
  intros H. cbn [first_post]. rewrite cnil_rejects_ok by exact H. destruct (m <=? k)%nat; reflexivity.
Qed.
Lemma cpost_nil rec m left : cfirst_post rec m 0 arith_table left [] = PFail.
Proof. unfold arith_table. repeat (rewrite cpost_skip_nil by reflexivity). reflexivity. Qed.

(** ** the post-phase facts *)
Lemma app_blank (p Y : list N) : p ++ SPC :: Y = (p ++ [SPC]) ++ Y.
Proof. rewrite <- app_assoc. reflexivity. Qed.

Ltac cwalk Hg :=
  repeat first
    [ rewrite (cpost_skip false) by (first [exact Hg | reflexivity | discriminate])
    | rewrite (cpost_skip true) by (first [exact Hg | reflexivity | (intros _; reflexivity)])
    | rewrite cpost_below by (cbn in *; lia) ].

Ltac eval_tok :=
  repeat match goal with
         | |- context [show_tok ?t] =>
           let v := eval vm_compute in (show_tok t) in change (show_tok t) with v
         end.

Ltac absorb_blank :=
  match goal with
  | |- context [32%N :: ?P ++ 32%N :: ?Y] =>
    let P' := eval cbn [app] in (P ++ [32%N]) in
    change (32%N :: P ++ 32%N :: Y) with (32%N :: P' ++ Y)
  end.

Lemma cpost_stop rec m left r : rec_good rec -> follow_ok m r ->
  cfirst_post rec m 0 arith_table left (cont r) = PFail.
Proof.
  intros Hg [->|(f & r' & -> & Hf)]; [apply cpost_nil|].
  unfold cont at 1. rewrite show_toks_cons. unfold arith_table. nrm.
  destruct r' as [|t2 r2]; cbn [cont].
  - (* the follow token ends the input *)
    destruct f as [| | |o]; [| | |destruct o]; cbn [flevel blevel] in Hf; eval_tok; cwalk Hg; reflexivity.
  - destruct f as [| | |o]; [| | |destruct o]; cbn [flevel blevel] in Hf; eval_tok;
      absorb_blank; cwalk Hg; reflexivity.
Qed.

Lemma clevel_cons_skip atend rec k r rs left (p X : list N) : rec_good rec -> crule_rejects atend r p = true ->
  nonws_head p -> (atend = true -> X = []) ->
  cfirst_post_level rec k (r :: rs) left (SPC :: p ++ X) = cfirst_post_level rec k rs left (SPC :: p ++ X).
Proof.
  intros Hg H Hp Hend. cbn [first_post_level]. destruct (is_pre r) eqn:Ep; [reflexivity|].
  rewrite (crule_rejects_ok atend) by assumption. reflexivity.
Qed.

Lemma cbin_hit rec k r rs left (t p X : list N) la ra :
  rk r = KInfix la ra -> xorb la ra = true -> rels r = [EWs; ETok t; EWs] ->
  dp t p = Some (Some [SPC]) -> nonws_head p -> skip_ws arith_lex X = X ->
  cfirst_post_level rec k (r :: rs) left (SPC :: p ++ X) =
  match rec (if la then S k else k) X with
  | PMatch e s2 => match finish (list N) r [VE e; VE left] s2 with
                   | PFail => cfirst_post_level rec k rs left (SPC :: p ++ X)
                   | x => x
                   end
  | PFail => cfirst_post_level rec k rs left (SPC :: p ++ X)
  | PFuel => PFuel
  | PBad => PBad
  end.
Proof.
  intros Hk Hx Hr Hd Hp HX. nrm. cbn [first_post_level]. unfold is_pre, run_post. rewrite Hk, Hr.
  cbn [run_elems lx_ws lx_tok char_lexer]. nrm. rewrite skip_ws_blank by exact Hp.
  rewrite (dp_some _ _ _ _ Hd). cbn [app skip_ws].
  replace (in_class (ws_class arith_lex) SPC) with true by reflexivity. rewrite HX.
  destruct la, ra; try discriminate; destruct (rec _ X); reflexivity.
Qed.

Lemma cpost_bin rec m left o s b s' : rec_good rec -> (m <= blevel o)%nat -> first_ok okid oknum opok s ->
  rec (rlevel o) (show_toks s) = PMatch b s' ->
  cfirst_post rec m 0 arith_table left (cont (TOp (bintok o) :: s)) = PMatch (EBin o left b) s'.
Proof.
  intros Hg Hm Hs Hrec. pose proof (skip_ws_enc s Hs) as HX.
  destruct s as [|t2 r2]; [destruct Hs|].
  unfold cont at 1. rewrite show_toks_cons. cbn [cont]. unfold arith_table. nrm.
  destruct o; cbn [blevel rlevel right_assoc] in *; eval_tok; absorb_blank; cwalk Hg;
    (rewrite cpost_hit by exact Hm);
    match goal with |- context [cfirst_post ?r ?mm ?k ?lv ?l ?ss] => generalize (cfirst_post r mm k lv l ss) end;
    intros K;
    repeat (rewrite (clevel_cons_skip false) by (first [exact Hg | reflexivity | discriminate]));
    (erewrite cbin_hit; [|reflexivity|reflexivity|reflexivity|reflexivity|reflexivity|exact HX]);
    cbn [negb]; nrm; rewrite Hrec; reflexivity.
Qed.

Lemma skip_ws_spc (X : list N) : skip_ws arith_lex (SPC :: X) = skip_ws arith_lex X.
Proof. reflexivity. Qed.

Lemma cpost_cond rec m left s t s1 f s2 : rec_good rec -> (m <= 2)%nat ->
  first_ok okid oknum opok s -> first_ok okid oknum opok s1 ->
  rec 0%nat (show_toks s) = PMatch t (cont (COL :: s1)) -> rec 2%nat (show_toks s1) = PMatch f s2 ->
  cfirst_post rec m 0 arith_table left (cont (QM :: s)) = PMatch (ECond left t f) s2.
Proof.
  intros Hg Hm Hs Hs1 Ht Hf. pose proof (skip_ws_enc s Hs) as HX. pose proof (skip_ws_cont s1 Hs1) as HX1.
  destruct s as [|t2 r2]; [destruct Hs|].
  unfold cont at 1. rewrite show_toks_cons. cbn [cont]. unfold arith_table. nrm.
  eval_tok. absorb_blank. cwalk Hg. rewrite cpost_hit by exact Hm.
  match goal with |- context [cfirst_post ?r ?mm ?k ?lv ?l ?ss] => generalize (cfirst_post r mm k lv l ss) end.
  intros K.
  cbn [first_post_level is_pre rk run_post rels run_elems lx_ws lx_tok char_lexer]. nrm.
  rewrite skip_ws_blank by reflexivity. cbn [drop_prefix app N.eqb Pos.eqb].
  rewrite skip_ws_spc, HX. nrm. rewrite Ht.
  unfold cont at 1. rewrite show_toks_cons. eval_tok. cbn [app]. rewrite skip_ws_spc.
  rewrite skip_ws_nonws by reflexivity. cbn [drop_prefix N.eqb Pos.eqb]. rewrite HX1. nrm. rewrite Hf.
  reflexivity.
Qed.

(** ** the prefix/atom phase: walking the table by the class of the first character *)
Definition disjointb (a b : cclass) : bool :=
  forallb (fun ra => forallb (fun rb => (snd ra <? fst rb)%N || (snd rb <? fst ra)%N) b) a.
Lemma disjointb_ok a b c : disjointb a b = true -> in_class a c = true -> in_class b c = false.
Proof.
  unfold disjointb, in_class. intros Hd Ha.
  apply existsb_exists in Ha as (ra & Hin & Hra).
  rewrite forallb_forall in Hd. specialize (Hd ra Hin). rewrite forallb_forall in Hd.
  destruct (existsb _ b) eqn:E; [|reflexivity].
  apply existsb_exists in E as (rb & Hinb & Hrb). specialize (Hd rb Hinb). lia.
Qed.

Definition digit_class : cclass := [(48, 57)]%N.
Lemma literal_number_nondigit (c : N) (s : list N) : in_class digit_class c = false ->
  literal_number arith_lex (c :: s) = None.
Proof.
  intros Hc. unfold literal_number, lit_radix, lit_hex, lit_oct, decimal_literal. unfold digit_class in Hc.
  assert (H1 : in_class (dec_first arith_lex) c = false) by class_solve.
  assert (H2 : N.eqb c (hex_lead arith_lex) = false) by (cbn [hex_lead arith_lex]; unfold in_class, digit_class in Hc; cbn [existsb fst snd] in Hc; lia).
  assert (H3 : N.eqb c (oct_lead arith_lex) = false) by (cbn [oct_lead arith_lex]; unfold in_class, digit_class in Hc; cbn [existsb fst snd] in Hc; lia).
  nrm. rewrite H1, H3. destruct s as [|c1 s2]; [reflexivity|]. rewrite H2. reflexivity.
Qed.
Lemma lvalue_nonname expr (c : N) (s : list N) : in_class (name_start arith_lex) c = false ->
  lvalue arith_lex expr (c :: s) = PFail.
Proof. intros Hc. unfold lvalue, variable_name. nrm. rewrite Hc. reflexivity. Qed.

(** a prefix rule or atom cannot accept an input whose first character lies in [cls] *)
Definition prule_rejects (r : rule) (cls : cclass) : bool :=
  negb (is_pre r) ||
  match rels r with
  | ETok (t0 :: _) :: _ => negb (in_class cls t0) && match cls with [(lo, hi)] => N.eqb lo hi | _ => false end
                           || disjointb cls [(t0, t0)]
  | ELval :: _ => disjointb cls (name_start arith_lex)
  | ENum :: _ => disjointb cls digit_class
  | _ => false
  end.
Definition plevel_rejects (rs : list rule) (cls : cclass) : bool := forallb (fun r => prule_rejects r cls) rs.

Lemma prule_rejects_ok rec prec r cls (c : N) (s : list N) : is_pre r = true -> prule_rejects r cls = true ->
  in_class cls c = true -> crun_pre rec prec r (c :: s) = PFail.
Proof.
  intros Hp H Hc. unfold prule_rejects in H. rewrite Hp in H. cbn [negb orb] in H.
  assert (Hel : crun_elems rec (rels r) [] (c :: s) = PFail).
  { destruct (rels r) as [|[|[|t0 t]| | | |] els]; try discriminate; cbn [run_elems lx_tok lx_lvalue lx_number char_lexer]; nrm.
    - assert (Hne : N.eqb t0 c = false).
      { apply orb_true_iff in H as [H|H].
        - apply andb_true_iff in H as [H1 H2]. destruct cls as [|[lo hi] [|? ?]]; try discriminate.
          unfold in_class in *. cbn [existsb fst snd] in *. lia.
        - pose proof (disjointb_ok _ _ c H Hc) as Hd. unfold in_class in Hd. cbn [existsb fst snd] in Hd. lia. }
      cbn [drop_prefix]. rewrite Hne. reflexivity.
    - rewrite lvalue_nonname; [reflexivity|]. eapply disjointb_ok; eassumption.
    - rewrite literal_number_nondigit; [reflexivity|]. eapply disjointb_ok; eassumption. }
  unfold run_pre. unfold is_pre in Hp. destruct (rk r); try discriminate; nrm; rewrite Hel; reflexivity.
Qed.

Lemma plevel_rejects_ok rec prec rs cls (c : N) (s : list N) : plevel_rejects rs cls = true -> in_class cls c = true ->
  cfirst_pre_level rec prec rs (c :: s) = PFail.
Proof.
  intros H Hc. induction rs as [|r rs IH]; cbn [first_pre_level plevel_rejects forallb] in *; [reflexivity|].
  apply andb_true_iff in H as [Hr Hrs]. destruct (is_pre r) eqn:Ep; [|apply IH; exact Hrs].
  rewrite (prule_rejects_ok rec prec r cls) by assumption. apply IH. exact Hrs.
Qed.
Lemma cpre_skip rec k rs lv cls (c : N) (s : list N) : plevel_rejects rs cls = true -> in_class cls c = true ->
  cfirst_pre rec k (rs :: lv) (c :: s) = cfirst_pre rec (S k) lv (c :: s).
Proof. intros H Hc. cbn [first_pre]. rewrite (plevel_rejects_ok rec k rs cls) by assumption. reflexivity. Qed.
Lemma cpre_rule_skip rec k r rs cls (c : N) (s : list N) : prule_rejects r cls = true -> in_class cls c = true ->
  cfirst_pre_level rec k (r :: rs) (c :: s) = cfirst_pre_level rec k rs (c :: s).
Proof.
  intros H Hc. cbn [first_pre_level]. destruct (is_pre r) eqn:Ep; [|reflexivity].
  rewrite (prule_rejects_ok rec k r cls) by assumption. reflexivity.
Qed.

(** nothing starts an operand with [= < > & | *] *)
Lemma rec_good_parse f : (1 <= f)%nat -> rec_good (parse (list N) CL arith_table f).
Proof.
  intros Hf lvl c s Hc. destruct f as [|f]; [lia|]. cbn [parse].
  assert (E : cfirst_pre (parse (list N) CL arith_table f) 0 arith_table (c :: s) = PFail).
  { unfold arith_table.
    unfold bad_start in Hc. rewrite !orb_true_iff, !N.eqb_eq in Hc.
    destruct Hc as [[[[[->| ->]| ->]| ->]| ->]| ->];
      match goal with |- context [(?c :: s)] =>
        repeat (rewrite (cpre_skip _ _ _ _ [(c, c)]) by reflexivity) end; reflexivity. }
  nrm. rewrite E. reflexivity.
Qed.

(** ** identifier-led inputs: [x ++ blank p X] (or [x] at the very end) against the rules that start
    with [lvalue _ "op"] (the assignment prefix rules and the postfix increment atoms) *)
Definition arule_rejects (atend : bool) (r : rule) (p : list N) : bool :=
  match rels r with
  | ELval :: EWs :: ETok t :: els =>
    match dp t p with
    | None => true
    | Some (Some (c :: _)) =>
      bad_start c && match els, rk r with [EWs], KPrefix _ => true | _, _ => false end
    | Some None => atend
    | _ => false
    end
  | _ => false
  end.

Definition headspc (Z : list N) : Prop := match Z with [] => True | d :: _ => d = SPC end.
Lemma variable_name_head (x Z : list N) : okid x -> headspc Z -> variable_name arith_lex (x ++ Z) = Some (x, Z).
Proof.
  intros Hx Hz. destruct (okid_inv x Hx) as (c & x' & -> & Hc & Ht).
  cbn [app variable_name]. rewrite Hc.
  assert (Hs : match Z with d :: _ => in_class (name_cont arith_lex) d = false | [] => True end).
  { destruct Z as [|d Z']; [exact I|]. cbn in Hz. subst d. reflexivity. }
  pose proof (take_while_app _ x' Z Ht Hs) as Ha. nrm. rewrite Ha. reflexivity.
Qed.
Lemma lvalue_ident' expr (x Z : list N) : okid x -> headspc Z ->
  lvalue arith_lex expr (x ++ Z) = PMatch (x, None) Z.
Proof.
  intros Hx Hz. unfold lvalue. rewrite variable_name_head by assumption.
  destruct Z as [|d Z']; [reflexivity|]. cbn in Hz. subst d. reflexivity.
Qed.

Lemma cont_blank (p X : list N) t r : show_tok t = p -> cont r = X -> SPC :: p ++ X = cont (t :: r).
Proof. intros <- <-. unfold cont at 2. rewrite show_toks_cons. reflexivity. Qed.

Lemma arule_rejects_ok atend rec prec r (x p X : list N) : rec_good rec -> okid x -> is_pre r = true ->
  arule_rejects atend r p = true -> nonws_head p -> (atend = true -> X = []) ->
  crun_pre rec prec r (x ++ SPC :: p ++ X) = PFail.
Proof.
  intros Hg Hx Ep H Hp Hend. assert (Hc : headspc (SPC :: p ++ X)) by reflexivity. unfold arule_rejects in H.
  destruct (rels r) as [|[| | | |  |] [|[| | | | |] [|[|t| | | |] els]]] eqn:Er; try discriminate.
  assert (E0 : forall caps, crun_elems rec (ELval :: EWs :: ETok t :: els) caps (x ++ SPC :: p ++ X) =
               match drop_prefix t (p ++ X) with
               | Some s' => crun_elems rec els (VT x None :: caps) s'
               | None => PFail
               end).
  { intros caps. cbn [run_elems lx_lvalue lx_ws lx_tok char_lexer]. nrm.
    rewrite (lvalue_ident' _ x (SPC :: p ++ X) Hx Hc). rewrite skip_ws_blank by exact Hp. reflexivity. }
  unfold run_pre. rewrite Er. nrm.
  destruct (dp t p) as [[[|c r0]|]|] eqn:Ed; try discriminate.
  - apply andb_true_iff in H as [Hb He].
    destruct els as [|[| | | | |] [|? ?]]; try discriminate. destruct (rk r) eqn:Ek; try discriminate.
    rewrite E0, (dp_some _ _ _ _ Ed). cbn [app run_elems lx_ws char_lexer]. nrm.
    rewrite skip_ws_nonws by (apply bad_start_not_ws; exact Hb). rewrite Hg by exact Hb. reflexivity.
  - assert (E1 : drop_prefix t (p ++ X) = None) by (rewrite (Hend H), app_nil_r; apply dp_end; exact Ed).
    unfold is_pre in Ep. destruct (rk r); try discriminate; rewrite E0, E1; reflexivity.
  - unfold is_pre in Ep. destruct (rk r); try discriminate; rewrite E0, (dp_none _ _ _ Ed); reflexivity.
Qed.

Lemma arule_end rec prec r (x : list N) : okid x -> is_pre r = true ->
  match rels r with ELval :: EWs :: ETok (_ :: _) :: _ => true | _ => false end = true ->
  crun_pre rec prec r x = PFail.
Proof.
  intros Hx Ep H.
  destruct (rels r) as [|[| | | |  |] [|[| | | | |] [|[|[|t0 t]| | | |] els]]] eqn:Er; try discriminate.
  assert (E0 : forall caps, crun_elems rec (ELval :: EWs :: ETok (t0 :: t) :: els) caps x = PFail).
  { intros caps. cbn [run_elems lx_lvalue lx_ws lx_tok char_lexer]. nrm.
    pose proof (lvalue_ident (rec 0%nat) x [] Hx) as Hl. cbn [cont] in Hl. rewrite app_nil_r in Hl. nrm. rewrite Hl.
    reflexivity. }
  unfold run_pre. rewrite Er. unfold is_pre in Ep. nrm. destruct (rk r); try discriminate; rewrite E0; reflexivity.
Qed.

Lemma apre_rule_skip atend rec k r rs (x p X : list N) : rec_good rec -> okid x ->
  arule_rejects atend r p = true -> nonws_head p -> (atend = true -> X = []) ->
  cfirst_pre_level rec k (r :: rs) (x ++ SPC :: p ++ X) = cfirst_pre_level rec k rs (x ++ SPC :: p ++ X).
Proof.
  intros Hg Hx H Hp Hend. cbn [first_pre_level]. destruct (is_pre r) eqn:Ep; [|reflexivity].
  rewrite (arule_rejects_ok atend rec k r x p X Hg Hx Ep H Hp Hend). reflexivity.
Qed.
Lemma apre_rule_end rec k r rs (x : list N) : okid x ->
  match rels r with ELval :: EWs :: ETok (_ :: _) :: _ => true | _ => false end = true ->
  cfirst_pre_level rec k (r :: rs) x = cfirst_pre_level rec k rs x.
Proof.
  intros Hx H. cbn [first_pre_level]. destruct (is_pre r) eqn:Ep; [|reflexivity].
  rewrite (arule_end rec k r x Hx Ep H). reflexivity.
Qed.

(** ** the prefix/atom facts *)
Ltac pwalk cls :=
  repeat (rewrite (cpre_skip _ _ _ _ cls) by (first [reflexivity | assumption])).

Lemma cpre_num rec z r : oknum z ->
  cfirst_pre rec 0 arith_table (show_toks (TNum z :: r)) = PMatch (ELit z) (cont r).
Proof.
  intros Hz. rewrite show_toks_cons. cbn [show_tok].
  destruct (oknum_first z (cont r) Hz) as (c & s' & E & Hc).
  pose proof (literal_number_show z r Hz) as Hl. nrm. rewrite E in *.
  assert (Hcls : in_class digit_class c = true) by (unfold digit_class; class_solve).
  unfold arith_table. pwalk digit_class.
  cbn [first_pre].
  cbn [first_pre_level is_pre rk run_pre rels run_elems lx_number char_lexer]. nrm. rewrite Hl.
  reflexivity.
Qed.
