(** A generic interpreter of rust-peg's [precedence!{}] algorithm exactly as
    peg-macros-0.8.6/src/translate.rs ([Expr::Precedence]) generates it:

    - every rule of every level is classified from the placement of the markers [@] / [(@)]:
      first and last element markers = infix; only the first = postfix; only the last = prefix;
      none = atom.  [(@)] stands for "same level" ([prec]), [@] for "next level" ([prec+1]).
    - all prefix rules and atoms of all levels are collected, in source order, into one list
      [pre_rules]; [__infix_parse min_prec] first tries them in that order *regardless of
      [min_prec]*; a prefix rule parses its operand by a recursive call with its own level
      (or level+1);
    - then it loops: the levels are visited from the first (lowest precedence) upwards; a level
      is considered iff [level >= min_prec]; inside a level its infix/postfix rules are tried in
      source order; the first rule that matches (operator text *and* right operand) updates the
      accumulated result and restarts the loop; if no rule matches the loop ends.

    The table (levels, kinds, tokens, look-ahead guards, constructors) is data: gen/C07ArithTable.v,
    regenerated from the Rust source on every run.  The non-precedence rules of the grammar
    ([lvalue], [variable_name], [_], [literal_number], [full_expression]) are modelled by hand
    here and in Lit.v over the regenerated character classes; their shape is checked by the
    translator. *)
From BV Require Import Base.Prelude Arith.Wrap64 Arith.Ast Arith.Lit.

Inductive elem :=
  | EWs                         (* _ *)
  | ETok (t : str)              (* "literal" *)
  | ENot (cls : cclass)         (* ![class]  negative one-character look-ahead *)
  | EExpr                       (* v:expression() *)
  | ELval                       (* v:lvalue() *)
  | ENum.                       (* v:literal_number() *)

(** marker flags as in translate.rs: [true] = [(@)], [false] = [@] *)
Inductive rkind :=
  | KInfix (la ra : bool)
  | KPrefix (ra : bool)
  | KPostfix
  | KAtom.

Inductive ctor :=
  | CBin (o : binop) | CBinAssign (o : binop) | CAssign | CCond | CUn (o : unop)
  | CIncr (o : incop) | CLit | CRef | CId.

(** [rargs]: which captured values (numbered in order of appearance, the left operand of an
    infix/postfix rule first, the right operand of an infix/prefix rule last) are passed to the
    constructor, in constructor-argument order *)
Record rule := mkRule { rk : rkind; rels : list elem; rctor : ctor; rargs : list nat }.
Definition table := list (list rule).

Inductive cap := VE (e : aexpr) | VT (x : str) (i : option aexpr) | VZ (z : Z).

Definition build (c : ctor) (args : list cap) : option aexpr :=
  match c, args with
  | CBin o, [VE a; VE b] => Some (EBin o a b)
  | CBinAssign o, [VT x i; VE e] => Some (EBinAssign o x i e)
  | CAssign, [VT x i; VE e] => Some (EAssign x i e)
  | CCond, [VE c; VE t; VE e] => Some (ECond c t e)
  | CUn o, [VE e] => Some (EUn o e)
  | CIncr o, [VT x i] => Some (EIncr o x i)
  | CLit, [VZ z] => Some (ELit z)
  | CRef, [VT x i] => Some (ERef x i)
  | CId, [VE e] => Some e
  | _, _ => None
  end.

Fixpoint select (caps : list cap) (idx : list nat) : option (list cap) :=
  match idx with
  | [] => Some []
  | k :: idx' => match nth_error caps k, select caps idx' with
                 | Some c, Some r => Some (c :: r)
                 | _, _ => None
                 end
  end.

(** parse results: [PFuel] = the fuel ran out (never with the fuel used by [parse_full]);
    [PBad] = the table is ill-typed (a constructor applied to the wrong captures; excluded for
    the regenerated table by [table_well_typed]) *)
Inductive pres (A R : Type) := PMatch (a : A) (rest : R) | PFail | PFuel | PBad.
Arguments PMatch {A R}. Arguments PFail {A R}. Arguments PFuel {A R}. Arguments PBad {A R}.

Fixpoint drop_prefix (p s : str) : option str :=
  match p, s with
  | [], _ => Some s
  | x :: p', y :: s' => if N.eqb x y then drop_prefix p' s' else None
  | _ :: _, [] => None
  end.

(** The lexical primitives the precedence algorithm is run over.  [I] is the remaining input:
    characters for the real grammar ([char_lexer]); tokens for the token-level statement of the
    round-trip theorem (Arith/TokProofs.v).  The algorithm itself ([parse]) is one definition. *)
Record lexer (I : Type) := {
  lx_size : I -> nat;
  lx_empty : I -> bool;                                  (* ![_] *)
  lx_ws : I -> I;                                        (* _ *)
  lx_tok : str -> I -> option I;                         (* "literal" *)
  lx_not : cclass -> I -> bool;                          (* ![class]: true = the look-ahead succeeds *)
  lx_lvalue : (I -> pres aexpr I) -> I -> pres (str * option aexpr) I;   (* lvalue(), given expression() *)
  lx_number : I -> option (Z * I)                        (* literal_number() *)
}.
Arguments lx_size {I}. Arguments lx_empty {I}. Arguments lx_ws {I}. Arguments lx_tok {I}.
Arguments lx_not {I}. Arguments lx_lvalue {I}. Arguments lx_number {I}.

Section Interp.
  Variable I : Type.
  Variable lx : lexer I.
  Variable tbl : table.

  (** the elements of one rule, left to right; captures are accumulated in reverse *)
  Fixpoint run_elems (rec : nat -> I -> pres aexpr I) (els : list elem) (caps : list cap) (s : I)
    : pres (list cap) I :=
    match els with
    | [] => PMatch caps s
    | el :: els' =>
      match el with
      | EWs => run_elems rec els' caps (lx_ws lx s)
      | ETok t => match lx_tok lx t s with
                  | Some s' => run_elems rec els' caps s'
                  | None => PFail
                  end
      | ENot cls => if lx_not lx cls s then run_elems rec els' caps s else PFail
      | EExpr => match rec O s with
                 | PMatch e s' => run_elems rec els' (VE e :: caps) s'
                 | PFail => PFail | PFuel => PFuel | PBad => PBad
                 end
      | ELval => match lx_lvalue lx (rec O) s with
                 | PMatch (x, i) s' => run_elems rec els' (VT x i :: caps) s'
                 | PFail => PFail | PFuel => PFuel | PBad => PBad
                 end
      | ENum => match lx_number lx s with
                | Some (z, s') => run_elems rec els' (VZ z :: caps) s'
                | None => PFail
                end
      end
    end.

  Definition finish (r : rule) (caps_rev : list cap) (rest : I) : pres aexpr I :=
    match select (rev caps_rev) (rargs r) with
    | Some args => match build (rctor r) args with
                   | Some e => PMatch e rest
                   | None => PBad
                   end
    | None => PBad
    end.

  (** one prefix rule or atom at [s]; [prec] is the level the rule was written in *)
  Definition run_pre (rec : nat -> I -> pres aexpr I) (prec : nat) (r : rule) (s : I) : pres aexpr I :=
    match rk r with
    | KPrefix ra =>
      match run_elems rec (rels r) [] s with
      | PMatch caps s1 =>
        match rec (if ra then prec else S prec) s1 with
        | PMatch e s2 => finish r (VE e :: caps) s2
        | PFail => PFail | PFuel => PFuel | PBad => PBad
        end
      | PFail => PFail | PFuel => PFuel | PBad => PBad
      end
    | KAtom =>
      match run_elems rec (rels r) [] s with
      | PMatch caps s1 => finish r caps s1
      | PFail => PFail | PFuel => PFuel | PBad => PBad
      end
    | _ => PFail
    end.

  (** one infix or postfix rule applied to the accumulated left operand *)
  Definition run_post (rec : nat -> I -> pres aexpr I) (prec : nat) (r : rule) (left : aexpr) (s : I)
    : pres aexpr I :=
    match rk r with
    | KInfix la ra =>
      match la, ra with
      | true, false | false, true =>
        match run_elems rec (rels r) [VE left] s with
        | PMatch caps s1 =>
          match rec (if la then S prec else prec) s1 with
          | PMatch e s2 => finish r (VE e :: caps) s2
          | PFail => PFail | PFuel => PFuel | PBad => PBad
          end
        | PFail => PFail | PFuel => PFuel | PBad => PBad
        end
      | _, _ => PBad         (* rust-peg rejects the grammar *)
      end
    | KPostfix =>
      match run_elems rec (rels r) [VE left] s with
      | PMatch caps s1 => finish r caps s1
      | PFail => PFail | PFuel => PFuel | PBad => PBad
      end
    | _ => PFail
    end.

  Definition is_pre (r : rule) : bool := match rk r with KPrefix _ | KAtom => true | _ => false end.

  (** ordered choice over the prefix rules/atoms of all levels *)
  Fixpoint first_pre_level (rec : nat -> I -> pres aexpr I) (prec : nat) (rs : list rule) (s : I)
    : pres aexpr I :=
    match rs with
    | [] => PFail
    | r :: rs' =>
      if is_pre r then
        match run_pre rec prec r s with
        | PFail => first_pre_level rec prec rs' s
        | x => x
        end
      else first_pre_level rec prec rs' s
    end.
  Fixpoint first_pre (rec : nat -> I -> pres aexpr I) (prec : nat) (lv : table) (s : I) : pres aexpr I :=
    match lv with
    | [] => PFail
    | rs :: lv' =>
      match first_pre_level rec prec rs s with
      | PFail => first_pre rec (S prec) lv' s
      | x => x
      end
    end.

  (** [level_code]: the first infix/postfix rule of a level [>= minp] that matches *)
  Fixpoint first_post_level (rec : nat -> I -> pres aexpr I) (prec : nat) (rs : list rule)
           (left : aexpr) (s : I) : pres aexpr I :=
    match rs with
    | [] => PFail
    | r :: rs' =>
      if is_pre r then first_post_level rec prec rs' left s
      else match run_post rec prec r left s with
           | PFail => first_post_level rec prec rs' left s
           | x => x
           end
    end.
  Fixpoint first_post (rec : nat -> I -> pres aexpr I) (minp prec : nat) (lv : table)
           (left : aexpr) (s : I) : pres aexpr I :=
    match lv with
    | [] => PFail
    | rs :: lv' =>
      if (minp <=? prec)%nat then
        match first_post_level rec prec rs left s with
        | PFail => first_post rec minp (S prec) lv' left s
        | x => x
        end
      else first_post rec minp (S prec) lv' left s
    end.

  (** the [loop] of [__infix_parse] *)
  Fixpoint infix_loop (rec : nat -> I -> pres aexpr I) (n : nat) (minp : nat) (left : aexpr) (s : I)
    : pres aexpr I :=
    match n with
    | O => PFuel
    | S n' =>
      match first_post rec minp O tbl left s with
      | PMatch e s' => infix_loop rec n' minp e s'
      | PFail => PMatch left s
      | PFuel => PFuel
      | PBad => PBad
      end
    end.

  (** [__infix_parse]; every recursive call happens after at least one consumed character, so
      [fuel > size s] never runs out *)
  Fixpoint parse (fuel : nat) (minp : nat) (s : I) {struct fuel} : pres aexpr I :=
    match fuel with
    | O => PFuel
    | S f =>
      match first_pre (parse f) O tbl s with
      | PMatch e rest => infix_loop (parse f) (S (lx_size lx rest)) minp e rest
      | x => x
      end
    end.

  (** rule [full_expression] = ![_] {0} / _ expression _, plus the end-of-input check of the
      generated entry point *)
  Definition parse_full (blank0 : bool) (s : I) : pres aexpr I :=
    if lx_empty lx (if blank0 then lx_ws lx s else s) then PMatch (ELit 0) s
    else
      let s1 := lx_ws lx s in
      match parse (S (lx_size lx s1)) O s1 with
      | PMatch e rest => let r := lx_ws lx rest in if lx_empty lx r then PMatch e r else PFail
      | x => x
      end.

  Definition parse_opt (blank0 : bool) (s : I) : option aexpr :=
    match parse_full blank0 s with PMatch e _ => Some e | _ => None end.
End Interp.

(** ** the character-level primitives of the real grammar *)
Section CharLexer.
  Variable cfg : lexcfg.

  Fixpoint skip_ws (s : str) : str :=
    match s with
    | c :: s' => if in_class (ws_class cfg) c then skip_ws s' else s
    | [] => []
  end.

  (** rule [variable_name] *)
  Definition variable_name (s : str) : option (str * str) :=
    match s with
    | c :: s' => if in_class (name_start cfg) c
                 then let '(n, rest) := take_while (name_cont cfg) s' in Some (c :: n, rest)
                 else None
    | [] => None
    end.

  (** rule [lvalue] = name "[" expression "]" / name, given the parser of [expression] *)
  Definition lvalue (expr : str -> pres aexpr str) (s : str) : pres (str * option aexpr) str :=
    match variable_name s with
    | None => PFail
    | Some (x, rest) =>
      match rest with
      | c :: r1 =>
        if N.eqb c 91 then                                   (* "[" *)
          match expr (if subscript_ws cfg then skip_ws r1 else r1) with
          | PMatch ie r2' =>
            match (if subscript_ws cfg then skip_ws r2' else r2') with
            | c2 :: r2 => if N.eqb c2 93 then PMatch (x, Some ie) r2       (* "]" *)
                          else PMatch (x, None) rest
            | [] => PMatch (x, None) rest
            end
          | PFail => PMatch (x, None) rest
          | PFuel => PFuel
          | PBad => PBad
          end
        else PMatch (x, None) rest
      | [] => PMatch (x, None) rest
      end
    end.

  (** [![class]]: succeeds at the end of the input and before a character outside the class *)
  Definition char_not (cls : cclass) (s : str) : bool :=
    match s with c :: _ => negb (in_class cls c) | [] => true end.

  Definition char_lexer : lexer str := {|
    lx_size := @length char;
    lx_empty := fun s => match s with [] => true | _ => false end;
    lx_ws := skip_ws;
    lx_tok := drop_prefix;
    lx_not := char_not;
    lx_lvalue := lvalue;
    lx_number := literal_number cfg
  |}.
End CharLexer.
