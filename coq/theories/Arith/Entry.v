(** C07 correspondence entries. *)
From Coq Require Import String.
From BV Require Import Base.Prelude Base.Codec Arith.Wrap64 Arith.Ast Arith.Lit Arith.PegPrec Arith.Parse
  Arith.Eval Arith.TokProofs gen.C07ArithTable.

(** [c07_parse]: args = [input]; result = [show_ast] or a failure marker *)
Definition entry_c07_parse (a : list str) : list str :=
  match a with
  | [s] => match arith_parse_full s with
           | PMatch e _ => [lit "ok"; show_ast e]
           | PFail => [lit "err"]
           | PFuel => [lit "fuel"]
           | PBad => [lit "badtable"]
           end
  | _ => [lit "?args"]
  end.

Fixpoint dec_env (a : list str) : env :=
  match a with
  | x :: v :: r => (x, v) :: dec_env r
  | _ => []
  end.

Definition err_name (e : err) : str :=
  lit match e with
      | EDivZero => "div0" | ENegExp => "negexp" | EParse => "parse" | EUnset => "unset"
      | ERecLimit => "reclimit" | EArray => "array"
      end.

Definition show_obs (names : list str) (en : env) : list str :=
  map (fun x => match lookup x en with Some v => 61%N :: v | None => [33%N] end) names.

Definition opt_height (o : option aexpr) : nat := match o with Some e => height e | None => O end.
Definition env_height (en : env) : nat :=
  fold_right (fun p acc => Nat.max (opt_height (arith_parse (snd p))) acc) O en.

(** fuel: the call tree is at most (max_deref_depth + 2) levels of variable contents deep and each
    level at most (height + 1) deep *)
Definition eval_fuel (e : aexpr) (en : env) : nat :=
  (Nat.max (height e) (env_height en) + 2) * (Z.to_nat (max_deref_depth arith_lex) + 6).

Definition eval_top (nounset : bool) (e : aexpr) (en : env) : res :=
  eval arith_parse nounset (max_deref_depth arith_lex) (eval_fuel e en) e 0 en.

(** [c07_eval]: args = nounset :: expr :: observed names (blank separated) :: (name, value)*;
    result = status :: value/class :: observed values *)
Definition entry_c07_eval (a : list str) : list str :=
  match a with
  | nu :: s :: obs :: r =>
    let names := filter (fun x => match x with [] => false | _ => true end) (split_on 32%N obs []) in
    let en := dec_env r in
    match arith_parse s with
    | None => lit "err" :: lit "parse" :: show_obs names en
    | Some e =>
      match eval_top (dec_bool nu) e en with
      | ROk v en' => lit "ok" :: show_Z v :: show_obs names en'
      | RErr er en' => lit "err" :: err_name er :: show_obs names en'
      | RFuel => [lit "fuel"]
      | RPanic => [lit "panic"]
      end
    end
  | _ => [lit "?args"]
  end.

(** [c07_roundtrip]: args = [input]; the input is parsed (character level), the tree is rendered
    from bash's table with minimal parentheses and one blank between tokens ([render_at],
    [show_toks]: the spec side of the round-trip theorem) and parsed again (character level).
    result = ok :: (1 if the same tree comes back) :: the rendering *)
Fixpoint wfb (e : aexpr) : bool :=
  let none (i : option aexpr) := match i with None => true | Some _ => false end in
  match e with
  | ELit z => (0 <=? z) && (z <? M63)
  | ERef _ i => none i
  | EUn _ a => wfb a
  | EBin _ a b => wfb a && wfb b
  | ECond c t f => wfb c && wfb t && wfb f
  | EAssign _ i a => none i && wfb a
  | EIncr _ _ i => none i
  | EBinAssign o _ i a => none i && has_assign o && wfb a
  end.

Definition entry_c07_roundtrip (a : list str) : list str :=
  match a with
  | [s] => match arith_parse s with
           | Some e => if wfb e then [lit "ok"; enc_bool (roundtrip_check e); show_toks (render_at 0 e)]
                       else [lit "skip"]
           | None => [lit "err"]
           end
  | _ => [lit "?args"]
  end.
