(** What brush's parser makes of the decimal rendering of an integer (the strings the
    assignment operators store): nothing, a literal, or a negated literal.  This discharges the
    hypothesis of [EvalProofs.deref_depth_bound] for the real parser: evaluation terminates. *)
From Coq Require Import String ZifyBool ZifyN.
From BV Require Import Base.Prelude Base.Codec Base.Decimal Arith.Wrap64 Arith.Ast Arith.Lit Arith.PegPrec
  gen.C07ArithTable Arith.Parse Arith.Eval Arith.EvalProofs Arith.TokProofs Arith.CharLex Arith.CharProofs.

Definition lead19 (d : N) : Prop := (49 <= d <= 57)%N.

Lemma digits_all (d : N) (ds : list N) : lead19 d -> all_digits ds -> all_digits (d :: ds).
Proof.
  intros Hd Ha. constructor; [|exact Ha]. unfold lead19 in Hd. unfold is_digit. lia.
Qed.

(** [literal_number] on a digit string that ends the input *)
Lemma literal_digits_end (d : N) (ds : list N) : lead19 d -> all_digits ds ->
  exists o, literal_number arith_lex (d :: ds) = match o with Some w => Some (w, []) | None => None end.
Proof.
  intros Hd Ha. unfold lead19 in Hd.
  pose proof (take_while_digits ds [] Ha I) as Ht. rewrite app_nil_r in Ht.
  exists (if dec_wrap arith_lex then parse_shell_literal_number arith_lex (d :: ds) 10 else u64_parse_cast (d :: ds)).
  unfold literal_number.
  assert (Edec : decimal_literal arith_lex (d :: ds) =
                 match (if dec_wrap arith_lex then parse_shell_literal_number arith_lex (d :: ds) 10 else u64_parse_cast (d :: ds)) with
                 | Some v => Some (v, []) | None => None end).
  { unfold decimal_literal. replace (in_class (dec_first arith_lex) d) with true by (symmetry; class_solve).
    nrm. rewrite Ht. reflexivity. }
  assert (E1 : lit_radix arith_lex (d :: ds) = None).
  { unfold lit_radix. nrm. rewrite Edec. destruct (if dec_wrap arith_lex then _ else _); reflexivity. }
  assert (Hd48 : N.eqb d 48 = false) by lia.
  assert (E2 : lit_hex arith_lex (d :: ds) = None).
  { unfold lit_hex. destruct ds; [reflexivity|]. cbn [hex_lead arith_lex]. nrm. rewrite Hd48. reflexivity. }
  assert (E3 : lit_oct arith_lex (d :: ds) = None).
  { unfold lit_oct. cbn [oct_lead arith_lex]. nrm. rewrite Hd48. reflexivity. }
  nrm. rewrite E1, E2, E3. exact Edec.
Qed.

Lemma parse_S f m (s : list N) : parse (list N) CL arith_table (S f) m s =
  match cfirst_pre (parse (list N) CL arith_table f) 0 arith_table s with
  | PMatch e rest => infix_loop (list N) CL arith_table (parse (list N) CL arith_table f) (S (length rest)) m e rest
  | x => x
  end.
Proof. reflexivity. Qed.

Lemma num_atom rec k rs (s : list N) :
  cfirst_pre_level rec k (mkRule KAtom [ENum] CLit [0%nat] :: rs) s =
  match literal_number arith_lex s with
  | Some (z, s') => PMatch (ELit z) s'
  | None => cfirst_pre_level rec k rs s
  end.
Proof.
  cbn [first_pre_level is_pre rk run_pre rels run_elems lx_number char_lexer]. nrm.
  destruct (literal_number arith_lex s) as [[z s']|]; reflexivity.
Qed.

(** a digit string at any level: a literal, or nothing *)
Lemma parse_digits_end f m (d : N) (ds : list N) : lead19 d -> all_digits ds ->
  (exists w, parse (list N) CL arith_table (S f) m (d :: ds) = PMatch (ELit w) []) \/
  parse (list N) CL arith_table (S f) m (d :: ds) = PFail.
Proof.
  intros Hd Ha. destruct (literal_digits_end d ds Hd Ha) as (o & Hl).
  assert (Hcls : in_class digit_class d = true) by (unfold digit_class, lead19 in *; class_solve).
  assert (K : forall rec, cfirst_pre rec 0 arith_table (d :: ds) =
                          match o with Some w => PMatch (ELit w) [] | None => PFail end).
  { intros rec. unfold arith_table. pwalk digit_class.
    rewrite cpre_unfold, num_atom. nrm. rewrite Hl. destruct o as [w|]; [reflexivity|].
    rewrite (cpre_rule_skip _ _ _ _ digit_class) by (first [reflexivity | exact Hcls]).
    rewrite (cpre_rule_skip _ _ _ _ digit_class) by (first [reflexivity | exact Hcls]). reflexivity. }
  cbn [parse]. nrm. rewrite K. destruct o as [w|].
  - left. exists w. cbn [lx_size char_lexer length infix_loop]. rewrite cpost_nil. reflexivity.
  - right. reflexivity.
Qed.

Lemma arith_parse_digits (d : N) (ds : list N) : lead19 d -> all_digits ds ->
  (exists w, arith_parse (d :: ds) = Some (ELit w)) \/ arith_parse (d :: ds) = None.
Proof.
  intros Hd Ha. unfold arith_parse, parse_opt, parse_full.
  assert (Hws : skip_ws arith_lex (d :: ds) = d :: ds).
  { apply skip_ws_nonws. unfold lead19 in Hd. class_solve. }
  cbn [lx_empty lx_ws lx_size char_lexer]. nrm. rewrite Hws.
  assert (He : (match (if blank_zero arith_lex then d :: ds else d :: ds) with [] => true | _ :: _ => false end) = false)
    by (destruct (blank_zero arith_lex); reflexivity).
  destruct (blank_zero arith_lex); cbn [length];
    (destruct (parse_digits_end (S (length ds)) 0 d ds Hd Ha) as [(w & ->)| ->]; [left; exists w; reflexivity|right; reflexivity]).
Qed.

(** a minus sign directly followed by a digit string *)
Lemma arith_parse_neg_digits (d : N) (ds : list N) : lead19 d -> all_digits ds ->
  (exists w, arith_parse (45%N :: d :: ds) = Some (EUn UMinus (ELit w))) \/ arith_parse (45%N :: d :: ds) = None.
Proof.
  intros Hd Ha. unfold arith_parse, parse_opt, parse_full.
  assert (Hws : skip_ws arith_lex (d :: ds) = d :: ds).
  { apply skip_ws_nonws. unfold lead19 in Hd. class_solve. }
  assert (Hn45 : N.eqb 45 d = false) by (unfold lead19 in Hd; lia).
  assert (Hnot : char_not [(45, 45)%N] (d :: ds) = true).
  { unfold char_not, in_class. cbn [existsb fst snd]. unfold lead19 in Hd. lia. }
  assert (Ka : forall rec w, rec 15%nat (d :: ds) = PMatch (ELit w) [] ->
               cfirst_pre rec 0 arith_table (45%N :: d :: ds) = PMatch (EUn UMinus (ELit w)) []).
  { intros rec w Hr. unfold arith_table. pwalk [(45, 45)%N]. rewrite cpre_unfold.
    rewrite (cpre_rule_skip _ _ _ _ [(45, 45)%N]) by reflexivity.
    cbn [first_pre_level is_pre rk run_pre rels run_elems lx_tok lx_not lx_ws char_lexer drop_prefix].
    rewrite (N.eqb_refl 45). nrm. rewrite Hnot, Hws, Hr. reflexivity. }
  assert (Kb : forall rec, rec 15%nat (d :: ds) = PFail ->
               cfirst_pre rec 0 arith_table (45%N :: d :: ds) = PFail).
  { intros rec Hr. unfold arith_table. pwalk [(45, 45)%N]. rewrite cpre_unfold.
    rewrite (cpre_rule_skip _ _ _ _ [(45, 45)%N]) by reflexivity.
    cbn [first_pre_level is_pre rk run_pre rels run_elems lx_tok lx_not lx_ws char_lexer drop_prefix].
    rewrite (N.eqb_refl 45). nrm. rewrite Hnot, Hws, Hr. cbn [first_pre_level].
    pwalk [(45, 45)%N]. rewrite cpre_unfold.
    rewrite (cpre_rule_skip _ _ _ _ [(45, 45)%N]) by reflexivity.
    cbn [first_pre_level is_pre rk run_pre rels run_elems lx_tok lx_ws lx_lvalue char_lexer drop_prefix].
    rewrite (N.eqb_refl 45). nrm. rewrite Hn45. cbn [first_pre_level].
    pwalk [(45, 45)%N]. reflexivity. }
  assert (Hp : (exists w, parse (list N) CL arith_table (S (S (S (length ds)))) 0 (45%N :: d :: ds) = PMatch (EUn UMinus (ELit w)) [])
               \/ parse (list N) CL arith_table (S (S (S (length ds)))) 0 (45%N :: d :: ds) = PFail).
  { rewrite parse_S.
    destruct (parse_digits_end (S (length ds)) 15 d ds Hd Ha) as [(w & Hr)|Hr].
    - left. exists w. nrm. rewrite (Ka _ w Hr). cbn [length infix_loop]. rewrite cpost_nil. reflexivity.
    - right. nrm. rewrite (Kb _ Hr). reflexivity. }
  cbn [lx_empty lx_ws lx_size char_lexer]. nrm.
  assert (Hws2 : skip_ws arith_lex (45%N :: d :: ds) = 45%N :: d :: ds) by (apply skip_ws_nonws; reflexivity).
  rewrite Hws2. cbn [length].
  destruct (blank_zero arith_lex);
    (destruct Hp as [(w & ->)| ->]; [left; exists w; reflexivity|right; reflexivity]).
Qed.

(** every rendered integer parses to something of weight at most 1 (or not at all) *)
Theorem number_weight z : val_ok arith_parse 1 (show_Z z).
Proof.
  unfold val_ok, show_Z. destruct (Z.ltb_spec z 0) as [Hneg|Hpos]; cbv beta iota.
  - (* "-" digits *)
    destruct (show_N_spec (Z.to_N (- z))) as (Ha & Hv & Hne). unfold show_N in *.
    destruct (show_N_fuel_lead (S (N.size_nat (Z.to_N (- z)))) (Z.to_N (- z)) [] ltac:(lia) (size_bound _)) as (d & ds & E & Hd).
    rewrite E in *. inversion Ha as [|? ? _ Hds]; subst.
    nrm. destruct (arith_parse_neg_digits d ds Hd Hds) as [(w & ->)| ->]; [cbn; lia|exact I].
  - destruct (Z.eq_dec z 0) as [->|Hnz].
    + replace (arith_parse (show_N (Z.to_N 0))) with (Some (ELit 0)); [cbn; lia|].
      symmetry. apply (parse_render (ELit 0) [TNum 0] 19%nat); [constructor|unfold oknum, M63; cbn; lia].
    + destruct (show_N_spec (Z.to_N z)) as (Ha & Hv & Hne). unfold show_N in *.
      destruct (show_N_fuel_lead (S (N.size_nat (Z.to_N z))) (Z.to_N z) [] ltac:(lia) (size_bound _)) as (d & ds & E & Hd).
      rewrite E in *. inversion Ha as [|? ? _ Hds]; subst.
      nrm. destruct (arith_parse_digits d ds Hd Hds) as [(w & ->)| ->]; [cbn; lia|exact I].
Qed.

(** evaluation with brush's parser terminates: no [RFuel] above the stated fuel, for every
    expression, every environment whose values parse to weight [<= H] (or not at all) *)
Theorem eval_terminates nounset (H : nat) fuel e en : (1 <= H)%nat -> env_ok arith_parse H en ->
  ((Z.to_nat (max_deref_depth arith_lex)) * S H + weight e < fuel)%nat ->
  eval arith_parse nounset (max_deref_depth arith_lex) fuel e 0 en <> RFuel.
Proof.
  intros HH Hen Hf. apply (deref_depth_bound arith_parse nounset (max_deref_depth arith_lex) ltac:(vm_compute; congruence) H);
    try assumption.
  - unfold val_ok. replace (arith_parse []) with (Some (ELit 0)) by reflexivity. cbn. lia.
  - intros z. pose proof (number_weight z) as Hw. unfold val_ok in *. destruct (arith_parse (show_Z z)); [lia|exact I].
Qed.

(** non-vacuity: a self-referential variable satisfies the hypothesis; brush's evaluator then stops
    with the recursion-limit error after 1024 levels (computed with the real parser model) *)
Example eval_terminates_nonvacuous :
  env_ok arith_parse 1 [([120%N], [120%N])] /\
  eval arith_parse false (max_deref_depth arith_lex) 2100 (ERef [120%N] None) 0 [([120%N], [120%N])]
    = RErr ERecLimit [([120%N], [120%N])].
Proof.
  split.
  - intros y s. cbn [lookup]. destruct (str_eqb y [120%N]); [|discriminate].
    intros Hs; injection Hs as <-. unfold val_ok. vm_compute. lia.
  - vm_compute. reflexivity.
Qed.
