(** Model of brush-core/src/arithmetic.rs: [eval_expr_impl], [deref_lvalue], [get_var_value],
    [apply_unary_op], [apply_binary_op], [apply_unary_assignment_op], [assign],
    [wrapping_pow_u64], over an environment of strings.

    - The shell environment is a finite map from names to scalar strings ([None] = unset).
    - Variable contents are parsed again ([brush_parser::arithmetic::parse]) and evaluated
      recursively; the parser is a parameter of this file ([parse]); Entry.v instantiates it
      with the PEG model of Arith/Parse.v.
    - Rust operations that can panic ([wrapping_div] by zero, [unreachable!], the [u32]
      addition [depth + 1]) yield [RPanic] when reached with such operands; [eval_no_panic]
      (EvalProofs.v) shows this never happens.
    - Errors carry the environment: side effects performed before the error persist in the
      shell, as they do in the Rust code (which mutates the shell in place).
    - Array elements: the index expression is evaluated (for its effects and errors) and then
      the model stops with [EArray]: element storage is outside this model. *)
From BV Require Import Base.Prelude Arith.Wrap64 Arith.Ast.

Inductive err :=
  | EDivZero          (* EvalError::DivideByZero *)
  | ENegExp           (* EvalError::NegativeExponent *)
  | EParse            (* EvalError::ParseError (contents of a variable) *)
  | EUnset            (* EvalError::ExpandingUnsetVariable (set -u) *)
  | ERecLimit         (* EvalError::RecursionLimitExceeded *)
  | EArray.           (* not modelled: array element access *)

Definition env := list (str * str).

Fixpoint lookup (x : str) (en : env) : option str :=
  match en with
  | [] => None
  | (y, v) :: en' => if str_eqb x y then Some v else lookup x en'
  end.
Fixpoint update (x v : str) (en : env) : env :=
  match en with
  | [] => [(x, v)]
  | (y, w) :: en' => if str_eqb x y then (y, v) :: en' else (y, w) :: update x v en'
  end.

Inductive res :=
  | ROk (v : Z) (en : env)
  | RErr (e : err) (en : env)
  | RFuel
  | RPanic.

(** result of a pure operator application *)
Inductive ares := AOk (v : Z) | AErr (e : err) | APanic | AFuel.

Definition b2z (b : bool) : Z := if b then 1 else 0.
Definition U32_MAX : Z := 4294967295.

Definition apply_unary (o : unop) (v : Z) : Z :=
  match o with
  | UPlus => v
  | UMinus => wneg v
  | BNot => bnot v
  | LNot => b2z (v =? 0)
  end.

(** second [match] of [apply_binary_op] *)
Definition arith (o : binop) (l r : Z) : ares :=
  match o with
  | Pow => if r >=? 0 then match wpow l (as_u64 r) with Some v => AOk v | None => AFuel end
           else AErr ENegExp
  | Mul => AOk (wmul l r)
  | Div => if r =? 0 then AErr EDivZero
           else match wdiv l r with Some v => AOk v | None => APanic end
  | Mod => if r =? 0 then AErr EDivZero
           else match wrem l r with Some v => AOk v | None => APanic end
  | Comma => AOk r
  | Add => AOk (wadd l r)
  | Sub => AOk (wsub l r)
  | Shl => AOk (wshl l (as_u32 r))
  | Shr => AOk (wshr l (as_u32 r))
  | Lt => AOk (b2z (l <? r))
  | Le => AOk (b2z (l <=? r))
  | Gt => AOk (b2z (l >? r))
  | Ge => AOk (b2z (l >=? r))
  | Eq => AOk (b2z (l =? r))
  | Ne => AOk (b2z (negb (l =? r)))
  | BAnd => AOk (Z.land l r)
  | BXor => AOk (Z.lxor l r)
  | BOr => AOk (Z.lor l r)
  | LAnd | LOr => APanic                 (* unreachable!() *)
  end.

Definition is_literal (e : aexpr) : bool := match e with ELit _ => true | _ => false end.

Section Eval.
  Variable parse : str -> option aexpr.       (* brush_parser::arithmetic::parse *)
  Variable nounset : bool.                    (* shell.options().treat_unset_variables_as_error *)
  Variable max_depth : Z.                     (* MAX_VARIABLE_DEREF_DEPTH *)

  Definition evalfn := aexpr -> Z -> env -> res.

  Definition bind (r : res) (k : Z -> env -> res) : res :=
    match r with ROk v en => k v en | x => x end.

  (** [assign] *)
  Definition assign (ev : evalfn) (x : str) (i : option aexpr) (value : Z) (depth : Z) (en : env) : res :=
    match i with
    | None => ROk value (update x (show_Z value) en)
    | Some ie => bind (ev ie depth en) (fun _ en1 => RErr EArray en1)
    end.

  (** [deref_lvalue] with [get_var_value] *)
  Definition deref (ev : evalfn) (x : str) (i : option aexpr) (depth : Z) (en : env) : res :=
    match i with
    | Some ie => bind (ev ie depth en) (fun _ en1 => RErr EArray en1)
    | None =>
      let value_str :=
        match lookup x en with
        | Some s => Some s
        | None => if nounset then None else Some []
        end in
      match value_str with
      | None => RErr EUnset en
      | Some s =>
        match parse s with
        | None => RErr EParse en
        | Some parsed =>
          if is_literal parsed then ev parsed depth en
          else if depth + 1 >? U32_MAX then RPanic            (* u32 overflow of depth + 1 *)
          else let new_depth := depth + 1 in
               if new_depth >? max_depth then RErr ERecLimit en
               else ev parsed new_depth en
        end
      end
    end.

  (** [apply_binary_op] *)
  Definition apply_binary (ev : evalfn) (o : binop) (l r : aexpr) (depth : Z) (en : env) : res :=
    match o with
    | LAnd =>
      bind (ev l depth en) (fun lv en1 =>
        if lv =? 0 then ROk (b2z false) en1
        else bind (ev r depth en1) (fun rv en2 => ROk (b2z (negb (rv =? 0))) en2))
    | LOr =>
      bind (ev l depth en) (fun lv en1 =>
        if negb (lv =? 0) then ROk (b2z true) en1
        else bind (ev r depth en1) (fun rv en2 => ROk (b2z (negb (rv =? 0))) en2))
    | _ =>
      bind (ev l depth en) (fun lv en1 =>
        bind (ev r depth en1) (fun rv en2 =>
          match arith o lv rv with
          | AOk v => ROk v en2
          | AErr e => RErr e en2
          | APanic => RPanic
          | AFuel => RFuel
          end))
    end.

  (** [apply_unary_assignment_op] *)
  Definition apply_incr (ev : evalfn) (o : incop) (x : str) (i : option aexpr) (depth : Z) (en : env) : res :=
    bind (deref ev x i depth en) (fun value en1 =>
      match o with
      | PreInc => let nv := wadd value 1 in bind (assign ev x i nv depth en1) (fun _ en2 => ROk nv en2)
      | PreDec => let nv := wsub value 1 in bind (assign ev x i nv depth en1) (fun _ en2 => ROk nv en2)
      | PostInc => let nv := wadd value 1 in bind (assign ev x i nv depth en1) (fun _ en2 => ROk value en2)
      | PostDec => let nv := wsub value 1 in bind (assign ev x i nv depth en1) (fun _ en2 => ROk value en2)
      end).

  (** [eval_expr_impl]; [fuel] bounds the depth of the call tree *)
  Fixpoint eval (fuel : nat) (e : aexpr) (depth : Z) (en : env) {struct fuel} : res :=
    match fuel with
    | O => RFuel
    | S f =>
      let ev := eval f in
      match e with
      | ELit l => ROk l en
      | ERef x i => deref ev x i depth en
      | EUn o a => bind (ev a depth en) (fun v en1 => ROk (apply_unary o v) en1)
      | EBin o a b => apply_binary ev o a b depth en
      | ECond c t e2 =>
        bind (ev c depth en) (fun cv en1 =>
          if negb (cv =? 0) then ev t depth en1 else ev e2 depth en1)
      | EAssign x i rhs =>
        bind (ev rhs depth en) (fun v en1 => assign ev x i v depth en1)
      | EIncr o x i => apply_incr ev o x i depth en
      | EBinAssign o x i rhs =>
        bind (apply_binary ev o (ERef x i) rhs depth en) (fun v en1 => assign ev x i v depth en1)
      end
    end.
End Eval.
