(** Theorems about the evaluator model (Arith/Eval.v). They hold for every parser of variable
    contents ([parse] is a section variable), every environment, every fuel. *)
From BV Require Import Base.Prelude Arith.Wrap64 Arith.Ast Arith.Eval.

(** ** environment *)
Lemma lookup_update_same x v en : lookup x (update x v en) = Some v.
Proof.
  induction en as [|[y w] en IH]; cbn.
  - rewrite str_eqb_refl. reflexivity.
  - destruct (str_eqb x y) eqn:E; cbn; rewrite E; [reflexivity|exact IH].
Qed.
Lemma lookup_update_other x y v en : x <> y -> lookup y (update x v en) = lookup y en.
Proof.
  intros Hne. induction en as [|[z w] en IH]; cbn.
  - destruct (str_eqb y x) eqn:E; [apply str_eqb_eq in E; congruence|reflexivity].
  - destruct (str_eqb x z) eqn:E; cbn.
    + apply str_eqb_eq in E. subst z.
      destruct (str_eqb y x) eqn:E2; [apply str_eqb_eq in E2; congruence|reflexivity].
    + destruct (str_eqb y z); [reflexivity|exact IH].
Qed.

(** ** the pure operator table *)
Lemma arith_no_panic o l r : o <> LAnd -> o <> LOr -> arith o l r <> APanic.
Proof.
  intros H1 H2. destruct o; cbn; try congruence.
  - destruct (r =? 0) eqn:E; [congruence|]. unfold wrem. rewrite E. congruence.
  - destruct (r =? 0) eqn:E; [congruence|]. unfold wdiv. rewrite E. congruence.
  - destruct (r >=? 0); [destruct (wpow l (as_u64 r))|]; congruence.
Qed.

Lemma as_u64_range r : 0 <= as_u64 r < M64.
Proof. unfold as_u64. apply Z.mod_pos_bound. reflexivity. Qed.

Lemma arith_no_fuel o l r : arith o l r <> AFuel.
Proof.
  destruct o; cbn; try congruence.
  - destruct (r =? 0); [congruence|]. destruct (wrem l r); congruence.
  - destruct (r =? 0); [congruence|]. destruct (wdiv l r); congruence.
  - destruct (r >=? 0); [|congruence]. rewrite wpow_correct by apply as_u64_range. congruence.
Qed.

(** division by zero and negative exponents are errors, exactly then *)
Theorem div0_iff o l r : arith o l r = AErr EDivZero <-> (o = Div \/ o = Mod) /\ r = 0.
Proof.
  split.
  - destruct o; cbn; try congruence.
    + destruct (Z.eqb_spec r 0); [auto|]. destruct (wrem l r); congruence.
    + destruct (Z.eqb_spec r 0); [auto|]. destruct (wdiv l r); congruence.
    + destruct (r >=? 0); [destruct (wpow l (as_u64 r))|]; congruence.
  - intros [[-> | ->] ->]; reflexivity.
Qed.
Theorem negexp_iff o l r : arith o l r = AErr ENegExp <-> o = Pow /\ r < 0.
Proof.
  split.
  - destruct o; cbn; try congruence.
    + destruct (r =? 0); [congruence|]. destruct (wrem l r); congruence.
    + destruct (r =? 0); [congruence|]. destruct (wdiv l r); congruence.
    + destruct (Z.geb_spec r 0); [destruct (wpow l (as_u64 r)); congruence|]. auto.
  - intros [-> H]. cbn. destruct (Z.geb_spec r 0); [lia|reflexivity].
Qed.

(** what every operator computes, in terms of mathematical integers *)
Theorem arith_spec o l r v : inr l -> inr r -> arith o l r = AOk v ->
  match o with
  | Add => v = wrap64 (l + r)
  | Sub => v = wrap64 (l - r)
  | Mul => v = wrap64 (l * r)
  | Div => r <> 0 /\ v = wrap64 (Z.quot l r)
  | Mod => r <> 0 /\ v = Z.rem l r
  | Pow => 0 <= r /\ v = wrap64 (l ^ r)
  | Shl => v = wrap64 (l * 2 ^ (r mod 64))
  | Shr => v = l / 2 ^ (r mod 64)
  | Lt => v = b2z (l <? r) | Le => v = b2z (l <=? r) | Gt => v = b2z (l >? r) | Ge => v = b2z (l >=? r)
  | Eq => v = b2z (l =? r) | Ne => v = b2z (negb (l =? r))
  | BAnd => v = Z.land l r | BOr => v = Z.lor l r | BXor => v = Z.lxor l r
  | Comma => v = r
  | LAnd | LOr => False
  end.
Proof.
  intros Hl Hr. destruct o; cbn; try (intros H; injection H as <-; reflexivity); try congruence.
  - intros H; injection H as <-. apply wshl_spec.
  - intros H; injection H as <-. apply wshr_spec.
  - destruct (Z.eqb_spec r 0); [congruence|]. unfold wrem. destruct (Z.eqb_spec r 0); [congruence|].
    intros H; injection H as <-. split; [assumption|]. apply wrap64_id.
    pose proof (Z.rem_bound_abs l r ltac:(assumption)). unfold inr in *. lia.
  - destruct (Z.eqb_spec r 0); [congruence|]. unfold wdiv. destruct (Z.eqb_spec r 0); [congruence|].
    intros H; injection H as <-. auto.
  - destruct (Z.geb_spec r 0); [|congruence].
    assert (Hu : as_u64 r = r) by (unfold as_u64; apply Z.mod_small; unfold inr, M63, M64 in *; lia).
    rewrite Hu, wpow_correct by (unfold inr, M63, M64 in *; lia).
    intros Hq; injection Hq as <-. split; [lia|reflexivity].
Qed.

Lemma b2z_range b : inr (b2z b).
Proof. destruct b; unfold inr, M63; cbn; lia. Qed.

Theorem arith_in_range o l r v : inr l -> inr r -> arith o l r = AOk v -> inr v.
Proof.
  intros Hl Hr. destruct o; cbn [arith].
  - intros H; injection H as <-. assumption.
  - congruence.
  - congruence.
  - intros H; injection H as <-. apply lor_range; assumption.
  - intros H; injection H as <-. apply lxor_range; assumption.
  - intros H; injection H as <-. apply land_range; assumption.
  - intros H; injection H as <-. apply b2z_range.
  - intros H; injection H as <-. apply b2z_range.
  - intros H; injection H as <-. apply b2z_range.
  - intros H; injection H as <-. apply b2z_range.
  - intros H; injection H as <-. apply b2z_range.
  - intros H; injection H as <-. apply b2z_range.
  - intros H; injection H as <-. apply wrap64_range.
  - intros H; injection H as <-. apply wshr_range. assumption.
  - intros H; injection H as <-. apply wrap64_range.
  - intros H; injection H as <-. apply wrap64_range.
  - intros H; injection H as <-. apply wrap64_range.
  - destruct (r =? 0) eqn:E; [congruence|]. unfold wrem. rewrite E.
    intros H; injection H as <-. apply wrap64_range.
  - destruct (r =? 0) eqn:E; [congruence|]. unfold wdiv. rewrite E.
    intros H; injection H as <-. apply wrap64_range.
  - destruct (r >=? 0); [|congruence]. rewrite wpow_correct by apply as_u64_range.
    intros H; injection H as <-. apply wrap64_range.
Qed.

Lemma apply_unary_in_range o v : inr v -> inr (apply_unary o v).
Proof.
  intros H. destruct o; cbn [apply_unary]; [apply b2z_range|apply bnot_range; assumption|assumption|apply wneg_range].
Qed.

Section Proofs.
  Variable parse : str -> option aexpr.
  Variable nounset : bool.
  Variable max_depth : Z.
  Hypothesis max_depth_u32 : 0 <= max_depth < U32_MAX.

  Notation eval := (eval parse nounset max_depth).
  Notation deref := (deref parse nounset max_depth).

  Lemma bind_no_panic r k : r <> RPanic -> (forall v en, k v en <> RPanic) -> bind r k <> RPanic.
  Proof. destruct r; cbn; auto. Qed.

  (** the property an evaluation function must have for the helpers to be panic-free *)
  Definition ev_safe (ev : evalfn) : Prop :=
    forall e depth en, 0 <= depth <= max_depth -> ev e depth en <> RPanic.

  Lemma assign_no_panic ev x i v depth en : ev_safe ev -> 0 <= depth <= max_depth ->
    assign ev x i v depth en <> RPanic.
  Proof.
    intros Hev Hd. destruct i; cbn; [|congruence].
    apply bind_no_panic; [apply Hev; assumption|]. congruence.
  Qed.

  Lemma deref_no_panic ev x i depth en : ev_safe ev -> 0 <= depth <= max_depth ->
    deref ev x i depth en <> RPanic.
  Proof.
    intros Hev Hd. destruct i; cbn.
    - apply bind_no_panic; [apply Hev; assumption|]. congruence.
    - destruct (match lookup x en with Some s => Some s | None => if nounset then None else Some [] end);
        [|congruence].
      destruct (parse s) as [p|]; [|congruence].
      destruct (is_literal p); [apply Hev; assumption|].
      destruct (Z.gtb_spec (depth + 1) U32_MAX) as [Hbig|Hsmall]; [unfold U32_MAX in *; lia|].
      destruct (Z.gtb_spec (depth + 1) max_depth); [congruence|].
      apply Hev. lia.
  Qed.

  Lemma apply_binary_no_panic ev o l r depth en : ev_safe ev -> 0 <= depth <= max_depth ->
    apply_binary ev o l r depth en <> RPanic.
  Proof.
    intros Hev Hd.
    assert (Hgen : forall o', o' <> LAnd -> o' <> LOr ->
      bind (ev l depth en) (fun lv en1 => bind (ev r depth en1) (fun rv en2 =>
        match arith o' lv rv with AOk v => ROk v en2 | AErr e => RErr e en2 | APanic => RPanic | AFuel => RFuel end))
      <> RPanic).
    { intros o' H1 H2. apply bind_no_panic; [apply Hev; assumption|]. intros lv en1.
      apply bind_no_panic; [apply Hev; assumption|]. intros rv en2.
      pose proof (arith_no_panic o' lv rv H1 H2). destruct (arith o' lv rv); congruence. }
    destruct o; try (apply Hgen; congruence); cbn.
    - apply bind_no_panic; [apply Hev; assumption|]. intros lv en1.
      destruct (negb (lv =? 0)); [congruence|].
      apply bind_no_panic; [apply Hev; assumption|]. congruence.
    - apply bind_no_panic; [apply Hev; assumption|]. intros lv en1.
      destruct (lv =? 0); [congruence|].
      apply bind_no_panic; [apply Hev; assumption|]. congruence.
  Qed.

  (** No evaluation reaches an operation that would panic in Rust: not the zero divisor of
      [wrapping_div]/[wrapping_rem], not [unreachable!()], not the overflow of [depth + 1]. *)
  Theorem eval_no_panic : forall fuel e depth en, 0 <= depth <= max_depth ->
    eval fuel e depth en <> RPanic.
  Proof.
    induction fuel as [|f IH]; intros e depth en Hd; [cbn; congruence|].
    assert (Hev : ev_safe (eval f)) by (intros e' d' en' Hd'; apply IH; assumption).
    destruct e; cbn [Eval.eval].
    - congruence.
    - apply deref_no_panic; assumption.
    - apply bind_no_panic; [apply IH; assumption|]. congruence.
    - apply apply_binary_no_panic; assumption.
    - apply bind_no_panic; [apply IH; assumption|]. intros cv en1.
      destruct (negb (cv =? 0)); apply IH; assumption.
    - apply bind_no_panic; [apply IH; assumption|]. intros v en1. apply assign_no_panic; assumption.
    - unfold apply_incr. apply bind_no_panic; [apply deref_no_panic; assumption|]. intros v en1.
      destruct o; (apply bind_no_panic; [apply assign_no_panic; assumption|congruence]).
    - apply bind_no_panic; [apply apply_binary_no_panic; assumption|]. intros v en1.
      apply assign_no_panic; assumption.
  Qed.

  (** ** short circuit: the skipped operand is never evaluated — whatever it is (an assignment,
      a division by zero, an ill-formed variable, a diverging recursion), the result and the
      environment are those of the left operand alone *)
  Theorem and_short_circuit f a b depth en en1 :
    eval f a depth en = ROk 0 en1 -> eval (S f) (EBin LAnd a b) depth en = ROk 0 en1.
  Proof. intros H. cbn. rewrite H. reflexivity. Qed.

  Theorem or_short_circuit f a b depth en en1 v :
    eval f a depth en = ROk v en1 -> v <> 0 -> eval (S f) (EBin LOr a b) depth en = ROk 1 en1.
  Proof. intros H Hv. cbn. rewrite H. cbn. destruct (Z.eqb_spec v 0); [contradiction|reflexivity]. Qed.

  Theorem and_evaluates_right f a b depth en en1 v :
    eval f a depth en = ROk v en1 -> v <> 0 ->
    eval (S f) (EBin LAnd a b) depth en =
      match eval f b depth en1 with ROk rv en2 => ROk (b2z (negb (rv =? 0))) en2 | x => x end.
  Proof.
    intros H Hv. cbn. rewrite H. cbn. destruct (Z.eqb_spec v 0); [contradiction|].
    unfold bind. destruct (eval f b depth en1); reflexivity.
  Qed.

  Theorem cond_one_branch f c t e depth en en1 v :
    eval f c depth en = ROk v en1 ->
    eval (S f) (ECond c t e) depth en = if v =? 0 then eval f e depth en1 else eval f t depth en1.
  Proof. intros H. cbn. rewrite H. cbn. destruct (v =? 0); reflexivity. Qed.

  (** ** assignment operators store the stated value *)
  Theorem assign_stores f x rhs depth en v en' :
    eval (S f) (EAssign x None rhs) depth en = ROk v en' ->
    exists en1, eval f rhs depth en = ROk v en1 /\ en' = update x (show_Z v) en1 /\
                lookup x en' = Some (show_Z v).
  Proof.
    cbn. destruct (eval f rhs depth en) as [v1 en1| | |] eqn:E1; cbn; try congruence.
    intros H; injection H as <- <-. exists en1. rewrite lookup_update_same. auto.
  Qed.

  (** [x op= rhs]: the variable is read first, then [rhs] is evaluated, then the operator applied *)
  Theorem binassign_stores f o x rhs depth en v en' :
    o <> LAnd -> o <> LOr ->
    eval (S f) (EBinAssign o x None rhs) depth en = ROk v en' ->
    exists lv en1 rv en2,
      eval f (ERef x None) depth en = ROk lv en1 /\ eval f rhs depth en1 = ROk rv en2 /\
      arith o lv rv = AOk v /\ en' = update x (show_Z v) en2 /\ lookup x en' = Some (show_Z v).
  Proof.
    intros H1 H2. cbn [Eval.eval].
    assert (Hab : apply_binary (eval f) o (ERef x None) rhs depth en =
      bind (eval f (ERef x None) depth en) (fun lv en1 => bind (eval f rhs depth en1) (fun rv en2 =>
        match arith o lv rv with AOk v => ROk v en2 | AErr e => RErr e en2 | APanic => RPanic | AFuel => RFuel end)))
      by (destruct o; try reflexivity; congruence).
    rewrite Hab. clear Hab.
    destruct (eval f (ERef x None) depth en) as [lv en1| | |] eqn:E1; cbn; try congruence.
    destruct (eval f rhs depth en1) as [rv en2| | |] eqn:E2; cbn; try congruence.
    destruct (arith o lv rv) as [w| | |] eqn:Ea; cbn; try congruence.
    intros H; injection H as <- <-.
    exists lv, en1, rv, en2. rewrite lookup_update_same. repeat split; try reflexivity; assumption.
  Qed.

  (** [++x --x x++ x--]: the variable ends with old±1 (wrapping); the value is the new one for
      the prefix forms and the old one for the postfix forms *)
  Theorem incr_stores f o x depth en v en' :
    eval (S f) (EIncr o x None) depth en = ROk v en' ->
    exists old en1,
      deref (eval f) x None depth en = ROk old en1 /\
      let nv := match o with PreInc | PostInc => wadd old 1 | PreDec | PostDec => wsub old 1 end in
      en' = update x (show_Z nv) en1 /\ lookup x en' = Some (show_Z nv) /\
      v = match o with PreInc | PreDec => nv | PostInc | PostDec => old end.
  Proof.
    cbn [Eval.eval]. unfold apply_incr.
    destruct (deref (eval f) x None depth en) as [old en1| | |] eqn:E1; cbn; try congruence.
    destruct o; cbn; intros H; injection H as <- <-; exists old, en1; rewrite lookup_update_same;
      repeat split; reflexivity.
  Qed.

  (** ** values stay in the i64 range *)
  Fixpoint lits_inr (e : aexpr) : Prop :=
    let o (i : option aexpr) := match i with Some ie => lits_inr ie | None => True end in
    match e with
    | ELit z => inr z
    | ERef _ i => o i
    | EUn _ a => lits_inr a
    | EBin _ a b => lits_inr a /\ lits_inr b
    | ECond c t e2 => lits_inr c /\ lits_inr t /\ lits_inr e2
    | EAssign _ i a => o i /\ lits_inr a
    | EIncr _ _ i => o i
    | EBinAssign _ _ i a => o i /\ lits_inr a
    end.

  Hypothesis parse_inr : forall s e, parse s = Some e -> lits_inr e.

  Definition ev_inr (ev : evalfn) : Prop :=
    forall e depth en v en', lits_inr e -> ev e depth en = ROk v en' -> inr v.

  Lemma bind_ok r k v en' : bind r k = ROk v en' -> exists v1 en1, r = ROk v1 en1 /\ k v1 en1 = ROk v en'.
  Proof. destruct r; cbn; try congruence. eauto. Qed.

  Lemma deref_inr ev x i depth en v en' : ev_inr ev -> deref ev x i depth en = ROk v en' -> inr v.
  Proof.
    intros Hev. destruct i; cbn.
    - intros H. apply bind_ok in H as (v1 & en1 & _ & H). congruence.
    - destruct (match lookup x en with Some s => Some s | None => if nounset then None else Some [] end);
        [|congruence].
      destruct (parse s) as [p|] eqn:Ep; [|congruence].
      pose proof (parse_inr _ _ Ep) as Hp.
      destruct (is_literal p); [intros H; eapply Hev; eassumption|].
      destruct (depth + 1 >? U32_MAX); [congruence|].
      destruct (depth + 1 >? max_depth); [congruence|].
      intros H; eapply Hev; eassumption.
  Qed.

  Lemma apply_binary_inr ev o l r depth en v en' : ev_inr ev -> lits_inr l -> lits_inr r ->
    apply_binary ev o l r depth en = ROk v en' -> inr v.
  Proof.
    intros Hev Hl Hr.
    assert (Hgen : forall o',
      bind (ev l depth en) (fun lv en1 => bind (ev r depth en1) (fun rv en2 =>
        match arith o' lv rv with AOk v => ROk v en2 | AErr e => RErr e en2 | APanic => RPanic | AFuel => RFuel end))
      = ROk v en' -> inr v).
    { intros o' H. apply bind_ok in H as (lv & en1 & H1 & H). apply bind_ok in H as (rv & en2 & H2 & H).
      destruct (arith o' lv rv) eqn:Ea; try congruence. injection H as <- <-.
      eapply arith_in_range; [eapply Hev; [exact Hl|exact H1]|eapply Hev; [exact Hr|exact H2]|exact Ea]. }
    destruct o; try apply Hgen; cbn.
    - intros H. apply bind_ok in H as (lv & en1 & H1 & H).
      destruct (negb (lv =? 0)); [injection H as <- _; first [apply b2z_range | unfold inr, M63; lia]|].
      apply bind_ok in H as (rv & en2 & H2 & H). injection H as <- _. apply b2z_range.
    - intros H. apply bind_ok in H as (lv & en1 & H1 & H).
      destruct (lv =? 0); [injection H as <- _; first [apply b2z_range | unfold inr, M63; lia]|].
      apply bind_ok in H as (rv & en2 & H2 & H). injection H as <- _. apply b2z_range.
  Qed.

  (** Every value the evaluator returns is an i64, provided the literals of the expression and
      of every parsed variable content are (which the parser guarantees: ParseProofs). *)
  Theorem eval_in_range : forall fuel e depth en v en', lits_inr e ->
    eval fuel e depth en = ROk v en' -> inr v.
  Proof.
    induction fuel as [|f IH]; intros e depth en v en' He; [cbn; congruence|].
    assert (Hev : ev_inr (eval f)) by (intros e0 d0 en0 v0 en0' H0 H1; eapply IH; eassumption).
    destruct e; cbn [Eval.eval]; cbn [lits_inr] in He.
    - intros H; injection H as <- _. assumption.
    - apply deref_inr; assumption.
    - intros H. apply bind_ok in H as (v1 & en1 & H1 & H). injection H as <- _.
      apply apply_unary_in_range. eapply IH; eassumption.
    - destruct He. apply apply_binary_inr; assumption.
    - destruct He as (Hc & Ht & He2). intros H. apply bind_ok in H as (cv & en1 & H1 & H).
      destruct (negb (cv =? 0)); [eapply IH; [exact Ht|exact H]|eapply IH; [exact He2|exact H]].
    - destruct He as (Hi & Ha). intros H. apply bind_ok in H as (v1 & en1 & H1 & H).
      destruct i; cbn in H.
      + apply bind_ok in H as (? & ? & _ & H). congruence.
      + injection H as <- _. eapply IH; [exact Ha|exact H1].
    - unfold apply_incr. intros H. apply bind_ok in H as (old & en1 & H1 & H).
      assert (Hold : inr old) by (eapply deref_inr; eassumption).
      destruct i.
      + destruct o; cbn in H; apply bind_ok in H as (? & ? & H & _); apply bind_ok in H as (? & ? & _ & H); congruence.
      + destruct o; cbn in H; injection H as <- _; try assumption; try apply wadd_range; apply wsub_range.
    - destruct He as (Hi & Ha). intros H. apply bind_ok in H as (v1 & en1 & H1 & H).
      assert (Hv1 : inr v1).
      { eapply apply_binary_inr; [exact Hev| | |exact H1]; cbn; assumption. }
      destruct i; cbn in H.
      + apply bind_ok in H as (? & ? & _ & H). congruence.
      + injection H as <- _. assumption.
  Qed.
End Proofs.

(** ** the fuel that suffices: evaluation terminates
    The call tree of [eval_expr_impl] is at most [max_depth + 1] levels of variable contents deep
    (the depth counter of [deref_lvalue]) and inside one level at most as deep as the expression
    is high.  [H] bounds the weight of every expression a variable can hold. *)
Fixpoint weight (e : aexpr) : nat :=
  let wo (i : option aexpr) := match i with Some ie => weight ie | None => O end in
  match e with
  | ELit _ => O
  | ERef _ i => S (wo i)
  | EUn _ a => S (weight a)
  | EBin _ a b => S (Nat.max (weight a) (weight b))
  | ECond c t f => S (Nat.max (weight c) (Nat.max (weight t) (weight f)))
  | EAssign _ i a => S (Nat.max (wo i) (weight a))
  | EIncr _ _ i => S (wo i)
  | EBinAssign _ _ i a => S (S (Nat.max (wo i) (weight a)))
  end.

Section Fuel.
  Variable parse : str -> option aexpr.
  Variable nounset : bool.
  Variable max_depth : Z.
  Hypothesis max_depth_nonneg : 0 <= max_depth.
  Variable H : nat.

  Notation eval := (eval parse nounset max_depth).
  Notation deref := (deref parse nounset max_depth).

  Definition val_ok (s : str) : Prop :=
    match parse s with Some p => (weight p <= H)%nat | None => True end.
  Definition env_ok (en : env) : Prop := forall x s, lookup x en = Some s -> val_ok s.
  Hypothesis empty_ok : val_ok [].
  Hypothesis number_ok : forall z, val_ok (show_Z z).

  Lemma env_ok_update x z en : env_ok en -> env_ok (update x (show_Z z) en).
  Proof.
    intros Hen y s. destruct (str_eqb x y) eqn:E.
    - apply str_eqb_eq in E. subst y. rewrite lookup_update_same. intros Hs; injection Hs as <-. apply number_ok.
    - rewrite lookup_update_other; [apply Hen|]. intros ->. rewrite str_eqb_refl in E. discriminate.
  Qed.

  Definition lvl (d : Z) : nat := Z.to_nat (max_depth - d).
  Definition M (d : Z) (w : nat) : nat := (lvl d * S H + w)%nat.
  Lemma lvl_step d : 0 <= d -> d + 1 <= max_depth -> lvl d = S (lvl (d + 1)).
  Proof. unfold lvl. intros. lia. Qed.

  Definition good (r : res) : Prop :=
    match r with ROk _ en | RErr _ en => env_ok en | RFuel => False | RPanic => True end.
  Definition ev_good (f : nat) (ev : evalfn) : Prop :=
    forall e d en, 0 <= d <= max_depth -> (M d (weight e) < f)%nat -> env_ok en -> good (ev e d en).

  Lemma bind_good r k : good r -> (forall v en, env_ok en -> good (k v en)) -> good (bind r k).
  Proof. destruct r; cbn; auto. Qed.

  Lemma assign_good f ev x i v d en : ev_good f ev -> 0 <= d <= max_depth ->
    (M d (match i with Some ie => weight ie | None => O end) < f)%nat -> env_ok en ->
    good (assign ev x i v d en).
  Proof.
    intros Hev Hd Hm Hen. destruct i; cbn.
    - apply bind_good; [apply Hev; assumption|]. intros; assumption.
    - apply env_ok_update. assumption.
  Qed.

  Lemma deref_good f ev x i d en : ev_good f ev -> 0 <= d <= max_depth ->
    (M d (S (match i with Some ie => weight ie | None => O end)) <= f)%nat -> env_ok en ->
    good (deref ev x i d en).
  Proof.
    intros Hev Hd Hm Hen. destruct i; cbn.
    - apply bind_good; [apply Hev; [assumption|unfold M in *; lia|assumption]|]. intros; assumption.
    - assert (Hv : match (match lookup x en with Some s => Some s | None => if nounset then None else Some [] end) with
                   | Some s => val_ok s | None => True end).
      { destruct (lookup x en) eqn:E; [eapply Hen; eassumption|]. destruct nounset; [exact I|exact empty_ok]. }
      destruct (match lookup x en with Some s => Some s | None => if nounset then None else Some [] end) as [s|];
        [|exact Hen].
      unfold val_ok in Hv. destruct (parse s) as [p|]; [|exact Hen].
      destruct (is_literal p) eqn:El.
      + destruct p; try discriminate. apply Hev; [assumption| |assumption]. cbn [weight]. unfold M in *. lia.
      + destruct (Z.gtb_spec (d + 1) U32_MAX) as [Hbig|Hsmall]; [exact I|].
        destruct (Z.gtb_spec (d + 1) max_depth) as [Hgt|Hle]; [exact Hen|].
        apply Hev; [lia| |assumption].
        unfold M in *. rewrite (lvl_step d) in Hm by lia. lia.
  Qed.

  Lemma apply_binary_good f ev o l r d en : ev_good f ev -> 0 <= d <= max_depth ->
    (M d (Nat.max (weight l) (weight r)) < f)%nat -> env_ok en ->
    good (apply_binary ev o l r d en).
  Proof.
    intros Hev Hd Hm Hen.
    assert (Hl : forall en0, env_ok en0 -> good (ev l d en0)) by (intros; apply Hev; [assumption|unfold M in *; lia|assumption]).
    assert (Hr : forall en0, env_ok en0 -> good (ev r d en0)) by (intros; apply Hev; [assumption|unfold M in *; lia|assumption]).
    assert (Hgen : forall o', good (bind (ev l d en) (fun lv en1 => bind (ev r d en1) (fun rv en2 =>
        match arith o' lv rv with AOk v => ROk v en2 | AErr e => RErr e en2 | APanic => RPanic | AFuel => RFuel end)))).
    { intros o'. apply bind_good; [apply Hl; assumption|]. intros lv en1 Hen1.
      apply bind_good; [apply Hr; assumption|]. intros rv en2 Hen2.
      pose proof (arith_no_fuel o' lv rv). destruct (arith o' lv rv); cbn; try assumption; try exact I. congruence. }
    destruct o; try apply Hgen; cbn.
    - apply bind_good; [apply Hl; assumption|]. intros lv en1 Hen1.
      destruct (negb (lv =? 0)); [exact Hen1|]. apply bind_good; [apply Hr; assumption|]. intros; assumption.
    - apply bind_good; [apply Hl; assumption|]. intros lv en1 Hen1.
      destruct (lv =? 0); [exact Hen1|]. apply bind_good; [apply Hr; assumption|]. intros; assumption.
  Qed.

  Lemma eval_good : forall f, ev_good f (eval f).
  Proof.
    induction f as [|f IH]; intros e d en Hd Hm Hen; [lia|].
    assert (Hev : ev_good f (eval f)) by exact IH.
    assert (Hsub : forall e' en0, (weight e' < weight e)%nat -> env_ok en0 -> good (eval f e' d en0)).
    { intros e' en0 Hw Hen0. apply IH; [assumption|unfold M in *; lia|assumption]. }
    destruct e; cbn [Eval.eval]; cbn [weight] in *.
    - exact Hen.
    - apply (deref_good f); [assumption|assumption|unfold M in *; lia|assumption].
    - apply bind_good; [apply Hsub; [lia|assumption]|]. intros; assumption.
    - apply (apply_binary_good f); [assumption|assumption|unfold M in *; lia|assumption].
    - apply bind_good; [apply Hsub; [lia|assumption]|]. intros cv en1 Hen1.
      destruct (negb (cv =? 0)); apply Hsub; try assumption; lia.
    - apply bind_good; [apply Hsub; [lia|assumption]|]. intros v en1 Hen1.
      apply (assign_good f); [assumption|assumption|unfold M in *; destruct i; lia|assumption].
    - unfold apply_incr. apply bind_good.
      + apply (deref_good f); [assumption|assumption|unfold M in *; lia|assumption].
      + intros v en1 Hen1.
        destruct o; (apply bind_good; [apply (assign_good f); [assumption|assumption|unfold M in *; destruct i; lia|assumption]|intros; assumption]).
    - apply bind_good.
      + apply (apply_binary_good f); [assumption|assumption| |assumption].
        cbn [weight]. unfold M in *. destruct i; lia.
      + intros v en1 Hen1. apply (assign_good f); [assumption|assumption|unfold M in *; destruct i; lia|assumption].
  Qed.

  (** With fuel above [(max_depth + 1) * (H + 1) + weight e] the evaluation of [e] from depth 0 ends:
      the recursion through variable contents is cut by the depth counter after [max_depth] levels. *)
  Theorem deref_depth_bound fuel e en : env_ok en ->
    ((Z.to_nat max_depth) * S H + weight e < fuel)%nat ->
    eval fuel e 0 en <> RFuel.
  Proof.
    intros Hen Hf Heq.
    pose proof (eval_good fuel e 0 en ltac:(lia)) as Hg.
    unfold M, lvl in Hg. rewrite Z.sub_0_r in Hg. specialize (Hg Hf Hen). rewrite Heq in Hg. exact Hg.
  Qed.
End Fuel.

(** the hypotheses of [deref_depth_bound] are satisfiable, and the bound is tight in its shape:
    a self-referential variable runs [max_depth] levels deep and then reports the error *)
Example fuel_hyps_nonvacuous :
  let parse := fun s : str => match s with [] => Some (ELit 0) | _ => Some (ERef [120%N] None) end in
  val_ok parse 1 [] /\ (forall z, val_ok parse 1 (show_Z z)) /\
  env_ok parse 1 [([120%N], [120%N])] /\
  eval parse false 1024 (1024 * 2 + 1 + 1) (ERef [120%N] None) 0 [([120%N], [120%N])]
    = RErr ERecLimit [([120%N], [120%N])].
Proof.
  cbn zeta. split; [cbn; lia|]. split.
  - intros z. unfold val_ok. destruct (show_Z z); cbn; lia.
  - split.
    + intros x s. cbn. destruct (str_eqb x [120%N]); [|congruence]. intros Hs; injection Hs as <-. cbn. lia.
    + vm_compute. reflexivity.
Qed.
