(** The character-level table facts (prefix/atom phase) and the character-level round-trip
    theorem [parse_render]. *)
From Coq Require Import String ZifyBool ZifyN.
From BV Require Import Base.Prelude Base.Codec Base.Decimal Arith.Wrap64 Arith.Ast Arith.Lit Arith.PegPrec
  gen.C07ArithTable Arith.TokProofs Arith.CharLex.

(** operator-led operands: one literal, an optional look-ahead, [_], then the operand *)
Lemma cpre_un rec o s a s' : rec_good rec -> first_ok okid oknum opok s ->
  rec (unlevel o) (show_toks s) = PMatch a s' ->
  cfirst_pre rec 0 arith_table (show_toks (TOp (untok o) :: s)) = PMatch (EUn o a) s'.
Proof.
  intros Hg Hs Hrec. pose proof (skip_ws_enc s Hs) as HX.
  destruct s as [|t2 r2]; [destruct Hs|].
  rewrite show_toks_cons. cbn [cont]. unfold arith_table. nrm.
  destruct o; cbn [unlevel] in *; eval_tok; cbn [app].
  - pwalk [(33, 33)%N]. cbn [first_pre first_pre_level is_pre rk run_pre rels run_elems lx_tok lx_ws char_lexer drop_prefix N.eqb Pos.eqb].
    rewrite skip_ws_spc. nrm. rewrite HX, Hrec. reflexivity.
  - pwalk [(126, 126)%N]. cbn [first_pre].
    rewrite (cpre_rule_skip _ _ _ _ [(126, 126)%N]) by reflexivity.
    cbn [first_pre_level is_pre rk run_pre rels run_elems lx_tok lx_ws char_lexer drop_prefix N.eqb Pos.eqb].
    rewrite skip_ws_spc. nrm. rewrite HX, Hrec. reflexivity.
  - pwalk [(43, 43)%N]. cbn [first_pre first_pre_level is_pre rk run_pre rels run_elems lx_tok lx_not lx_ws char_lexer drop_prefix N.eqb Pos.eqb].
    unfold char_not. cbn [in_class existsb fst snd N.leb N.compare Pos.compare Pos.compare_cont negb orb andb].
    rewrite skip_ws_spc. nrm. rewrite HX, Hrec. reflexivity.
  - pwalk [(45, 45)%N]. cbn [first_pre].
    rewrite (cpre_rule_skip _ _ _ _ [(45, 45)%N]) by reflexivity.
    cbn [first_pre_level is_pre rk run_pre rels run_elems lx_tok lx_not lx_ws char_lexer drop_prefix N.eqb Pos.eqb].
    unfold char_not. cbn [in_class existsb fst snd N.leb N.compare Pos.compare Pos.compare_cont negb orb andb].
    rewrite skip_ws_spc. nrm. rewrite HX, Hrec. reflexivity.
Qed.

Lemma cpre_paren rec s e s' : rec_good rec -> first_ok okid oknum opok s ->
  rec 0%nat (show_toks s) = PMatch e (cont (RP :: s')) ->
  cfirst_pre rec 0 arith_table (show_toks (LP :: s)) = PMatch e (cont s').
Proof.
  intros Hg Hs Hrec. pose proof (skip_ws_enc s Hs) as HX.
  destruct s as [|t2 r2]; [destruct Hs|].
  rewrite show_toks_cons. cbn [cont]. unfold arith_table. nrm. eval_tok. cbn [app].
  pwalk [(40, 40)%N]. cbn [first_pre].
  do 2 (rewrite (cpre_rule_skip _ _ _ _ [(40, 40)%N]) by reflexivity).
  cbn [first_pre_level is_pre rk run_pre rels run_elems lx_tok lx_ws char_lexer drop_prefix N.eqb Pos.eqb].
  rewrite skip_ws_spc. nrm. rewrite HX, Hrec.
  unfold cont at 1. rewrite show_toks_cons. eval_tok. cbn [app]. rewrite skip_ws_spc.
  rewrite skip_ws_nonws by reflexivity. cbn [drop_prefix N.eqb Pos.eqb]. reflexivity.
Qed.

Ltac pcbn :=
  cbn [first_pre first_pre_level is_pre rk run_pre rels run_elems lx_tok lx_not lx_ws lx_lvalue lx_number
       char_lexer drop_prefix N.eqb Pos.eqb char_not in_class existsb fst snd N.leb N.compare Pos.compare
       Pos.compare_cont negb orb andb].

Lemma cpre_preincr rec (inc : bool) x r : okid x ->
  cfirst_pre rec 0 arith_table (show_toks (TOp (if inc then lit "++" else lit "--") :: TId x :: r))
  = PMatch (EIncr (if inc then PreInc else PreDec) x None) (cont r).
Proof.
  intros Hx.
  assert (Hs : first_ok okid oknum opok (TId x :: r)) by exact Hx.
  pose proof (skip_ws_cont _ Hs) as HX. rewrite show_toks_cons in HX. cbn [show_tok] in HX.
  pose proof (lvalue_ident (rec 0%nat) x r Hx) as Hl.
  rewrite show_toks_cons. unfold arith_table. nrm.
  destruct inc; eval_tok; cbn [app].
  - pwalk [(43, 43)%N]. pcbn. nrm. rewrite HX, Hl. reflexivity.
  - pwalk [(45, 45)%N]. pcbn. nrm. rewrite HX, Hl. reflexivity.
Qed.

(** identifier-led inputs *)
Lemma cpre_unfold rec k rs lv (s : list N) :
  cfirst_pre rec k (rs :: lv) s =
  match cfirst_pre_level rec k rs s with PFail => cfirst_pre rec (S k) lv s | x => x end.
Proof. reflexivity. Qed.
Lemma cpre_level_nil rec k (s : list N) : cfirst_pre_level rec k [] s = PFail.
Proof. reflexivity. Qed.

Lemma cpre_skip_id rec k rs lv (x Z : list N) : okid x -> plevel_rejects rs (name_start arith_lex) = true ->
  cfirst_pre rec k (rs :: lv) (x ++ Z) = cfirst_pre rec (S k) lv (x ++ Z).
Proof.
  intros Hx H. destruct (okid_inv x Hx) as (c & x' & -> & Hc & _). cbn [app].
  apply (cpre_skip _ _ _ _ (name_start arith_lex)); assumption.
Qed.
Lemma cpre_rule_skip_id rec k r rs (x Z : list N) : okid x -> prule_rejects r (name_start arith_lex) = true ->
  cfirst_pre_level rec k (r :: rs) (x ++ Z) = cfirst_pre_level rec k rs (x ++ Z).
Proof.
  intros Hx H. destruct (okid_inv x Hx) as (c & x' & -> & Hc & _). cbn [app].
  apply (cpre_rule_skip _ _ _ _ (name_start arith_lex)); assumption.
Qed.

Lemma apre_rule_end' rec k r rs (x : list N) : okid x ->
  match rels r with ELval :: EWs :: ETok (_ :: _) :: _ => true | _ => false end = true ->
  cfirst_pre_level rec k (r :: rs) (x ++ []) = cfirst_pre_level rec k rs (x ++ []).
Proof. rewrite app_nil_r. apply apre_rule_end. Qed.

Ltac idwalk Hx := repeat (rewrite cpre_skip_id by (first [exact Hx | reflexivity])).
Ltac arules AT Hg Hx :=
  repeat (rewrite (apre_rule_skip AT) by
            (first [exact Hg | exact Hx | reflexivity | discriminate | (intros _; reflexivity)])).

Lemma ref_atom rec k rs (x Z : list N) : okid x -> headspc Z ->
  cfirst_pre_level rec k (mkRule KAtom [ELval] CRef [0%nat] :: rs) (x ++ Z) = PMatch (ERef x None) Z.
Proof.
  intros Hx Hz. cbn [first_pre_level is_pre rk run_pre rels run_elems lx_lvalue char_lexer]. nrm.
  rewrite (lvalue_ident' _ x Z Hx Hz). reflexivity.
Qed.

Lemma cpre_ref rec x r : rec_good rec -> okid x -> (r = [] \/ exists f r', r = tok_of_f f :: r') ->
  cfirst_pre rec 0 arith_table (show_toks (TId x :: r)) = PMatch (ERef x None) (cont r).
Proof.
  intros Hg Hx Hr. rewrite show_toks_cons. cbn [show_tok]. unfold arith_table. nrm.
  destruct Hr as [->|(f & r' & ->)].
  - (* the identifier ends the input *)
    cbn [cont]. idwalk Hx. rewrite cpre_unfold.
    repeat (rewrite apre_rule_end' by (first [exact Hx | reflexivity])). cbn [first_pre_level].
    idwalk Hx. rewrite cpre_unfold.
    repeat (rewrite apre_rule_end' by (first [exact Hx | reflexivity])). cbn [first_pre_level].
    rewrite cpre_unfold.
    rewrite (cpre_rule_skip_id _ _ _ _ x) by (first [exact Hx | reflexivity]).
    rewrite ref_atom; [reflexivity|exact Hx|exact I].
  - unfold cont at 1 2. rewrite show_toks_cons.
    destruct r' as [|t2 r2]; cbn [cont].
    + destruct f as [| | |o]; [| | |destruct o]; eval_tok;
        idwalk Hx; rewrite cpre_unfold; arules true Hg Hx.
      all: cbn [first_pre_level]; idwalk Hx; rewrite cpre_unfold; arules true Hg Hx.
      all: cbn [first_pre_level];
        rewrite cpre_unfold; rewrite (cpre_rule_skip_id _ _ _ _ x) by (first [exact Hx | reflexivity]);
        (rewrite ref_atom; [reflexivity|exact Hx|reflexivity]).
    + destruct f as [| | |o]; [| | |destruct o]; eval_tok; absorb_blank;
        idwalk Hx; rewrite cpre_unfold; arules false Hg Hx.
      all: cbn [first_pre_level]; idwalk Hx; rewrite cpre_unfold; arules false Hg Hx.
      all: cbn [first_pre_level];
        rewrite cpre_unfold; rewrite (cpre_rule_skip_id _ _ _ _ x) by (first [exact Hx | reflexivity]);
        (rewrite ref_atom; [reflexivity|exact Hx|reflexivity]).
Qed.

Lemma arule_hit rec k r rs (x t p X : list N) ra :
  rk r = KPrefix ra -> rels r = [ELval; EWs; ETok t; EWs] -> dp t p = Some (Some [SPC]) ->
  nonws_head p -> skip_ws arith_lex X = X -> okid x ->
  cfirst_pre_level rec k (r :: rs) (x ++ SPC :: p ++ X) =
  match rec (if ra then k else S k) X with
  | PMatch e s2 => match finish (list N) r [VE e; VT x None] s2 with
                   | PFail => cfirst_pre_level rec k rs (x ++ SPC :: p ++ X)
                   | y => y
                   end
  | PFail => cfirst_pre_level rec k rs (x ++ SPC :: p ++ X)
  | PFuel => PFuel
  | PBad => PBad
  end.
Proof.
  intros Hk Hr Hd Hp HX Hx. nrm. cbn [first_pre_level]. unfold is_pre, run_pre. rewrite Hk, Hr.
  cbn [run_elems lx_lvalue lx_ws lx_tok char_lexer]. nrm.
  rewrite (lvalue_ident' _ x (SPC :: p ++ X) Hx eq_refl). rewrite skip_ws_blank by exact Hp.
  rewrite (dp_some _ _ _ _ Hd). cbn [app]. rewrite skip_ws_spc, HX.
  destruct (rec _ X); reflexivity.
Qed.

Lemma cpre_assign rec x s rhs s' : rec_good rec -> okid x -> first_ok okid oknum opok s ->
  rec 1%nat (show_toks s) = PMatch rhs s' ->
  cfirst_pre rec 0 arith_table (show_toks (TId x :: TOp (lit "=") :: s)) = PMatch (EAssign x None rhs) s'.
Proof.
  intros Hg Hx Hs Hrec. pose proof (skip_ws_enc s Hs) as HX.
  destruct s as [|t2 r2]; [destruct Hs|].
  rewrite show_toks_cons. cbn [show_tok]. unfold cont at 1. rewrite show_toks_cons. cbn [cont].
  unfold arith_table. nrm. eval_tok. absorb_blank.
  idwalk Hx. rewrite cpre_unfold. arules false Hg Hx.
  erewrite arule_hit; [|reflexivity|reflexivity|reflexivity|reflexivity|exact HX|exact Hx].
  nrm. rewrite Hrec. reflexivity.
Qed.

Lemma cpre_binassign rec o x s rhs s' : rec_good rec -> has_assign o = true -> okid x ->
  first_ok okid oknum opok s -> rec 1%nat (show_toks s) = PMatch rhs s' ->
  cfirst_pre rec 0 arith_table (show_toks (TId x :: TOp (assigntok o) :: s)) = PMatch (EBinAssign o x None rhs) s'.
Proof.
  intros Hg Ho Hx Hs Hrec. pose proof (skip_ws_enc s Hs) as HX.
  destruct s as [|t2 r2]; [destruct Hs|].
  rewrite show_toks_cons. cbn [show_tok]. unfold cont at 1. rewrite show_toks_cons. cbn [cont].
  unfold arith_table. nrm.
  destruct o; try discriminate; eval_tok; absorb_blank;
    idwalk Hx; rewrite cpre_unfold; arules false Hg Hx;
    (erewrite arule_hit; [|reflexivity|reflexivity|reflexivity|reflexivity|exact HX|exact Hx]);
    nrm; rewrite Hrec; reflexivity.
Qed.

Lemma cpre_postincr rec (inc : bool) x r : rec_good rec -> okid x ->
  cfirst_pre rec 0 arith_table (show_toks (TId x :: TOp (if inc then lit "++" else lit "--") :: r))
  = PMatch (EIncr (if inc then PostInc else PostDec) x None) (cont r).
Proof.
  intros Hg Hx. rewrite show_toks_cons. cbn [show_tok]. unfold cont at 1. rewrite show_toks_cons.
  unfold arith_table. nrm.
  destruct inc; eval_tok.
  - idwalk Hx. rewrite cpre_unfold. arules false Hg Hx. cbn [first_pre_level].
    idwalk Hx. rewrite cpre_unfold.
    cbn [first_pre_level is_pre rk run_pre rels run_elems lx_lvalue lx_ws lx_tok char_lexer]. nrm.
    rewrite lvalue_ident' by (first [exact Hx | reflexivity]). rewrite skip_ws_blank by reflexivity.
    cbn [app drop_prefix N.eqb Pos.eqb]. reflexivity.
  - idwalk Hx. rewrite cpre_unfold. arules false Hg Hx. cbn [first_pre_level].
    idwalk Hx. rewrite cpre_unfold. arules false Hg Hx.
    cbn [first_pre_level is_pre rk run_pre rels run_elems lx_lvalue lx_ws lx_tok char_lexer]. nrm.
    rewrite lvalue_ident' by (first [exact Hx | reflexivity]). rewrite skip_ws_blank by reflexivity.
    cbn [app drop_prefix N.eqb Pos.eqb]. reflexivity.
Qed.

(** ** the table facts at character level, and the theorem *)
Lemma cont_size r : (length r <= length (cont r))%nat.
Proof.
  induction r as [|t r IH]; [cbn; lia|].
  unfold cont. rewrite show_toks_cons. cbn [length]. rewrite app_length. lia.
Qed.

Lemma char_facts : table_facts (list N) CL show_toks cont okid oknum opok rec_good.
Proof.
  constructor.
  - intros r. apply cont_size.
  - intros rec z r Hz. apply cpre_num. exact Hz.
  - intros o Ho. cbn in Ho. repeat (destruct Ho as [<-|Ho]; [reflexivity|]). destruct Ho.
  - intros f Hf. apply rec_good_parse. exact Hf.
  - intros. apply cpre_ref; assumption.
  - intros rec x r Hx. apply (cpre_preincr rec true). exact Hx.
  - intros rec x r Hx. apply (cpre_preincr rec false). exact Hx.
  - intros rec x r Hg Hx. apply (cpre_postincr rec true); assumption.
  - intros rec x r Hg Hx. apply (cpre_postincr rec false); assumption.
  - intros. apply cpre_un; assumption.
  - intros. apply cpre_assign; assumption.
  - intros. apply cpre_binassign; assumption.
  - intros. apply cpre_paren; assumption.
  - intros. apply cpost_bin; assumption.
  - intros. eapply cpost_cond; eassumption.
  - intros. apply cpost_stop; assumption.
Qed.

Lemma show_toks_length ts : first_ok okid oknum opok ts -> (length ts <= length (show_toks ts))%nat.
Proof.
  intros H. destruct (first_ok_head ts H) as (c & s' & E & Hc).
  destruct ts as [|t r]; [destruct H|]. rewrite show_toks_cons in *. rewrite app_length.
  pose proof (cont_size r). cbn [length].
  destruct (show_tok t) as [|c0 s0]; [|cbn [length]; lia].
  exfalso. cbn [app] in E. unfold cont in E. destruct r; [discriminate|]. injection E as <- _. discriminate.
Qed.

(** parse ∘ render = id at character level: brush's parser (model: the regenerated table, the
    algorithm of rust-peg, the lexical rules) maps every one-blank rendering of a tree from bash's
    operator table — minimal or any redundant parentheses — back to the tree. *)
Theorem parse_render : forall e ts tq, R 0 e ts tq -> lex_ok okid oknum e ->
  parse_opt (list N) CL arith_table (blank_zero arith_lex) (show_toks ts) = Some e.
Proof.
  intros e ts tq HR Hok.
  pose proof (R_first_ok (list N) CL show_toks cont okid oknum opok rec_good char_facts _ _ _ _ HR Hok []) as Hf.
  rewrite app_nil_r in Hf.
  pose proof (skip_ws_enc ts Hf) as Hws. pose proof (show_toks_length ts Hf) as Hlen.
  destruct (first_ok_head ts Hf) as (c & s' & E & Hc).
  pose proof (gparse_render (list N) CL show_toks cont okid oknum opok rec_good char_facts _ _ _ _ HR Hok
                0%nat [] (S (length (show_toks ts))) (le_n _) (or_introl eq_refl)) as Hp.
  rewrite app_nil_r in Hp. specialize (Hp ltac:(lia)).
  assert (Hfull : forall b0, parse_full (list N) CL arith_table b0 (show_toks ts) = PMatch e []).
  { intros b0. unfold parse_full. cbn [lx_empty lx_ws lx_size char_lexer]. nrm.
    rewrite Hws. assert (He : (match show_toks ts with [] => true | _ :: _ => false end) = false) by (rewrite E; reflexivity).
    destruct b0; nrm; rewrite He; rewrite Hp; reflexivity. }
  unfold parse_opt. rewrite Hfull. reflexivity.
Qed.

Lemma wf_chars_lex_ok e : wf_chars e -> lex_ok okid oknum e.
Proof.
  induction e using aexpr_ind'; cbn [wf_chars lex_ok]; try tauto.
  - unfold oknum, M63. lia.
Qed.

(** the statement kept visible in TokProofs, now proved *)
Theorem parse_render_char : parse_render_stmt.
Proof.
  intros e ts tq HR Hwf. apply (parse_render e ts tq HR). apply wf_chars_lex_ok. exact Hwf.
Qed.
