(** The arithmetic AST of brush-parser/src/ast.rs ([ArithmeticExpr], [ArithmeticTarget],
    [BinaryOperator], [UnaryOperator], [UnaryAssignmentOperator]) and its canonical printed
    form (the s-expression the harness prints for the real AST). *)
From Coq Require Import String.
From BV Require Import Base.Prelude Base.Codec.

Inductive binop :=
  | Comma | LOr | LAnd | BOr | BXor | BAnd | Eq | Ne | Lt | Gt | Le | Ge
  | Shl | Shr | Add | Sub | Mul | Mod | Div | Pow.
Inductive unop := LNot | BNot | UPlus | UMinus.
Inductive incop := PreInc | PreDec | PostInc | PostDec.

(** A target is a variable name with an optional index expression
    ([ArithmeticTarget::Variable] / [ArrayElement]). *)
Inductive aexpr :=
  | ELit (z : Z)
  | ERef (x : str) (i : option aexpr)
  | EUn (o : unop) (e : aexpr)
  | EBin (o : binop) (a b : aexpr)
  | ECond (c t e : aexpr)
  | EAssign (x : str) (i : option aexpr) (e : aexpr)
  | EIncr (o : incop) (x : str) (i : option aexpr)
  | EBinAssign (o : binop) (x : str) (i : option aexpr) (e : aexpr).

Definition target : Type := str * option aexpr.

Definition binop_eqb (a b : binop) : bool :=
  match a, b with
  | Comma, Comma | LOr, LOr | LAnd, LAnd | BOr, BOr | BXor, BXor | BAnd, BAnd | Eq, Eq | Ne, Ne
  | Lt, Lt | Gt, Gt | Le, Le | Ge, Ge | Shl, Shl | Shr, Shr | Add, Add | Sub, Sub | Mul, Mul
  | Mod, Mod | Div, Div | Pow, Pow => true
  | _, _ => false
  end.
Lemma binop_eqb_eq a b : binop_eqb a b = true <-> a = b.
Proof. destruct a, b; cbn; split; congruence. Qed.

(** Strong induction principle (the generated one ignores the [option aexpr] arguments). *)
Section Ind.
  Variable P : aexpr -> Prop.
  Definition Popt (i : option aexpr) : Prop := match i with Some e => P e | None => True end.
  Hypothesis HLit : forall z, P (ELit z).
  Hypothesis HRef : forall x i, Popt i -> P (ERef x i).
  Hypothesis HUn : forall o e, P e -> P (EUn o e).
  Hypothesis HBin : forall o a b, P a -> P b -> P (EBin o a b).
  Hypothesis HCond : forall c t e, P c -> P t -> P e -> P (ECond c t e).
  Hypothesis HAssign : forall x i e, Popt i -> P e -> P (EAssign x i e).
  Hypothesis HIncr : forall o x i, Popt i -> P (EIncr o x i).
  Hypothesis HBinAssign : forall o x i e, Popt i -> P e -> P (EBinAssign o x i e).
  Fixpoint aexpr_ind' (e : aexpr) : P e :=
    let opt (i : option aexpr) : Popt i :=
      match i with Some e => aexpr_ind' e | None => I end in
    match e with
    | ELit z => HLit z
    | ERef x i => HRef x i (opt i)
    | EUn o e => HUn o e (aexpr_ind' e)
    | EBin o a b => HBin o a b (aexpr_ind' a) (aexpr_ind' b)
    | ECond c t e => HCond c t e (aexpr_ind' c) (aexpr_ind' t) (aexpr_ind' e)
    | EAssign x i e => HAssign x i e (opt i) (aexpr_ind' e)
    | EIncr o x i => HIncr o x i (opt i)
    | EBinAssign o x i e => HBinAssign o x i e (opt i) (aexpr_ind' e)
    end.
End Ind.

Fixpoint height (e : aexpr) : nat :=
  let hopt (i : option aexpr) := match i with Some e => height e | None => O end in
  match e with
  | ELit _ => 1
  | ERef _ i => S (hopt i)
  | EUn _ e => S (height e)
  | EBin _ a b => S (Nat.max (height a) (height b))
  | ECond c t e => S (Nat.max (height c) (Nat.max (height t) (height e)))
  | EAssign _ i e => S (Nat.max (hopt i) (height e))
  | EIncr _ _ i => S (hopt i)
  | EBinAssign _ _ i e => S (Nat.max (hopt i) (height e))
  end.

(** ** Canonical printing *)
Definition binop_name (o : binop) : str :=
  lit match o with
      | Comma => "Comma" | LOr => "LogicalOr" | LAnd => "LogicalAnd" | BOr => "BitwiseOr"
      | BXor => "BitwiseXor" | BAnd => "BitwiseAnd" | Eq => "Equals" | Ne => "NotEquals"
      | Lt => "LessThan" | Gt => "GreaterThan" | Le => "LessThanOrEqualTo"
      | Ge => "GreaterThanOrEqualTo" | Shl => "ShiftLeft" | Shr => "ShiftRight" | Add => "Add"
      | Sub => "Subtract" | Mul => "Multiply" | Mod => "Modulo" | Div => "Divide" | Pow => "Power"
      end.
Definition unop_name (o : unop) : str :=
  lit match o with LNot => "LogicalNot" | BNot => "BitwiseNot" | UPlus => "UnaryPlus" | UMinus => "UnaryMinus" end.
Definition incop_name (o : incop) : str :=
  lit match o with PreInc => "PrefixIncrement" | PreDec => "PrefixDecrement"
              | PostInc => "PostfixIncrement" | PostDec => "PostfixDecrement" end.

Definition SP : str := [32%N].
Definition par (l : list str) : str := (40%N :: concat l) ++ [41%N].

Fixpoint show_ast (e : aexpr) : str :=
  let tgt (x : str) (i : option aexpr) : str :=
    match i with
    | None => par [lit "var "; x]
    | Some ie => par [lit "elem "; x; SP; show_ast ie]
    end in
  match e with
  | ELit z => par [lit "lit "; show_Z z]
  | ERef x i => par [lit "ref "; tgt x i]
  | EUn o e => par [lit "un "; unop_name o; SP; show_ast e]
  | EBin o a b => par [lit "bin "; binop_name o; SP; show_ast a; SP; show_ast b]
  | ECond c t e => par [lit "cond "; show_ast c; SP; show_ast t; SP; show_ast e]
  | EAssign x i e => par [lit "assign "; tgt x i; SP; show_ast e]
  | EIncr o x i => par [lit "incr "; incop_name o; SP; tgt x i]
  | EBinAssign o x i e => par [lit "binassign "; binop_name o; SP; tgt x i; SP; show_ast e]
  end.
