(** Facts about the parser model that are re-checked against the regenerated table:
    - [table_matches_c]: the levels of the [precedence!] block, their order, the kind and
      associativity of every rule and its operator text are those of bash's expr.c / C;
    - [table_well_typed]: no rule applies a constructor to captures of the wrong kind ([PBad]
      cannot arise from [finish]);
    - [parse_lits_in_range]: every literal in a parsed tree is an i64 (so [eval_in_range] applies
      to everything the parser produces). *)
From Coq Require Import String.
From BV Require Import Base.Prelude Base.Codec Arith.Wrap64 Arith.Ast Arith.Lit Arith.PegPrec
  Arith.Parse Arith.Eval Arith.EvalProofs gen.C07ArithTable.

(** ** the operator table of bash's expr.c, lowest precedence first
    (expcomma, expassign, expcond, explor, expland, expbor, expbxor, expband, exp5, exp4, expshift,
     exp3, expmuldiv, exppower, exp1 (unary), exp0 (pre/post increment, operands)).
    brush splits the unary level in two and the increment level in two; since prefix rules and
    atoms are tried regardless of the minimum precedence this refinement parses the same language
    on well-formed input (rendered trees: correspondence + round-trip theorem). *)
Inductive rshape :=
  | SInfixL (tok : string) (c : ctor)      (* left associative binary operator *)
  | SInfixR (tok : string) (c : ctor)      (* right associative *)
  | STernary                               (* x ? expression : (same level)   right associative *)
  | SAssign (tok : string) (c : ctor)      (* lvalue tok (same level): right associative *)
  | SUnary (tok : string) (c : ctor)       (* tok (same level) *)
  | SPreIncr (tok : string) (c : ctor)     (* tok lvalue *)
  | SPostIncr (tok : string) (c : ctor)    (* lvalue tok *)
  | SNumber | SVariable | SParens
  | SOther.

Definition c_levels : list (list rshape) := [
  [SInfixL "," (CBin Comma)];
  [SAssign "*=" (CBinAssign Mul); SAssign "/=" (CBinAssign Div); SAssign "%=" (CBinAssign Mod);
   SAssign "+=" (CBinAssign Add); SAssign "-=" (CBinAssign Sub); SAssign "<<=" (CBinAssign Shl);
   SAssign ">>=" (CBinAssign Shr); SAssign "&=" (CBinAssign BAnd); SAssign "|=" (CBinAssign BOr);
   SAssign "^=" (CBinAssign BXor); SAssign "=" CAssign];
  [STernary];
  [SInfixL "||" (CBin LOr)];
  [SInfixL "&&" (CBin LAnd)];
  [SInfixL "|" (CBin BOr)];
  [SInfixL "^" (CBin BXor)];
  [SInfixL "&" (CBin BAnd)];
  [SInfixL "==" (CBin Eq); SInfixL "!=" (CBin Ne)];
  [SInfixL "<" (CBin Lt); SInfixL ">" (CBin Gt); SInfixL "<=" (CBin Le); SInfixL ">=" (CBin Ge)];
  [SInfixL "<<" (CBin Shl); SInfixL ">>" (CBin Shr)];
  [SInfixL "+" (CBin Add); SInfixL "-" (CBin Sub)];
  [SInfixL "*" (CBin Mul); SInfixL "%" (CBin Mod); SInfixL "/" (CBin Div)];
  [SInfixR "**" (CBin Pow)];
  [SUnary "!" (CUn LNot); SUnary "~" (CUn BNot)];
  [SUnary "+" (CUn UPlus); SUnary "-" (CUn UMinus)];
  [SPreIncr "++" (CIncr PreInc); SPreIncr "--" (CIncr PreDec)];
  [SPostIncr "++" (CIncr PostInc); SPostIncr "--" (CIncr PostDec)];
  [SNumber; SVariable; SParens]
].

Definition str_to_string (s : str) : string := string_of_list_ascii (map Ascii.ascii_of_N s).

(** the shape of a rule of the table; a look-ahead guard after a unary sign (the [!['+']] that
    keeps [+] from swallowing the first half of [++]) does not change the shape *)
Definition shape_of (r : rule) : rshape :=
  match rk r, rels r, rargs r with
  | KInfix true false, [EWs; ETok t; EWs], [0; 1]%nat => SInfixL (str_to_string t) (rctor r)
  | KInfix false true, [EWs; ETok t; EWs], [0; 1]%nat => SInfixR (str_to_string t) (rctor r)
  | KInfix false true, [EWs; ETok [63%N]; EWs; EExpr; EWs; ETok [58%N]; EWs], [0; 1; 2]%nat =>
      match rctor r with CCond => STernary | _ => SOther end
  | KPrefix true, [ELval; EWs; ETok t; EWs], [0; 1]%nat => SAssign (str_to_string t) (rctor r)
  | KPrefix true, [ETok t; EWs], [0]%nat => SUnary (str_to_string t) (rctor r)
  | KPrefix true, [ETok t; ENot [(c1, c2)]; EWs], [0]%nat =>
      match t with
      | [c] => if (N.eqb c c1 && N.eqb c c2)%bool then SUnary (str_to_string t) (rctor r) else SOther
      | _ => SOther
      end
  | KAtom, [ETok t; EWs; ELval], [0]%nat => SPreIncr (str_to_string t) (rctor r)
  | KAtom, [ELval; EWs; ETok t], [0]%nat => SPostIncr (str_to_string t) (rctor r)
  | KAtom, [ENum], [0]%nat => match rctor r with CLit => SNumber | _ => SOther end
  | KAtom, [ELval], [0]%nat => match rctor r with CRef => SVariable | _ => SOther end
  | KAtom, [ETok [40%N]; EWs; EExpr; EWs; ETok [41%N]], [0]%nat =>
      match rctor r with CId => SParens | _ => SOther end
  | _, _, _ => SOther
  end.

Definition levels_of (t : table) : list (list rshape) := map (map shape_of) t.

Definition ctor_eqb (a b : ctor) : bool :=
  match a, b with
  | CBin x, CBin y | CBinAssign x, CBinAssign y => binop_eqb x y
  | CAssign, CAssign | CCond, CCond | CLit, CLit | CRef, CRef | CId, CId => true
  | CUn x, CUn y => match x, y with LNot, LNot | BNot, BNot | UPlus, UPlus | UMinus, UMinus => true | _, _ => false end
  | CIncr x, CIncr y => match x, y with PreInc, PreInc | PreDec, PreDec | PostInc, PostInc | PostDec, PostDec => true | _, _ => false end
  | _, _ => false
  end.
Definition rshape_eqb (a b : rshape) : bool :=
  match a, b with
  | SInfixL s c, SInfixL s' c' | SInfixR s c, SInfixR s' c' | SAssign s c, SAssign s' c'
  | SUnary s c, SUnary s' c' | SPreIncr s c, SPreIncr s' c' | SPostIncr s c, SPostIncr s' c' =>
      String.eqb s s' && ctor_eqb c c'
  | STernary, STernary | SNumber, SNumber | SVariable, SVariable | SParens, SParens => true
  | _, _ => false
  end.
(** a level matches when it has the same rules up to their order (within a level PEG order only
    matters between an operator and a longer one it is a prefix of, which the right-operand
    failure resolves: see the correspondence on rendered inputs); [SOther] never matches *)
Definition level_eqb (a b : list rshape) : bool :=
  Nat.eqb (length a) (length b)
  && forallb (fun x => existsb (rshape_eqb x) b) a
  && forallb (fun x => existsb (rshape_eqb x) a) b.
Fixpoint levels_eqb (a b : list (list rshape)) : bool :=
  match a, b with
  | [], [] => true
  | x :: a', y :: b' => level_eqb x y && levels_eqb a' b'
  | _, _ => false
  end.

(** The regenerated precedence table is the C / bash operator table. *)
Theorem table_matches_c : levels_eqb (levels_of arith_table) c_levels = true.
Proof. vm_compute. reflexivity. Qed.

(** ** constructors are applied to captures of the right kind *)
Inductive ckind := KE | KT | KZ.
Definition elem_kind (e : elem) : list ckind :=
  match e with EExpr => [KE] | ELval => [KT] | ENum => [KZ] | _ => [] end.
Definition rule_caps (r : rule) : list ckind :=
  let mid := flat_map elem_kind (rels r) in
  match rk r with
  | KInfix _ _ => KE :: mid ++ [KE]
  | KPrefix _ => mid ++ [KE]
  | KPostfix => KE :: mid
  | KAtom => mid
  end.
Definition ctor_sig (c : ctor) : list ckind :=
  match c with
  | CBin _ => [KE; KE] | CBinAssign _ => [KT; KE] | CAssign => [KT; KE] | CCond => [KE; KE; KE]
  | CUn _ => [KE] | CIncr _ => [KT] | CLit => [KZ] | CRef => [KT] | CId => [KE]
  end.
Definition ckind_eqb (a b : ckind) : bool :=
  match a, b with KE, KE | KT, KT | KZ, KZ => true | _, _ => false end.
Fixpoint kinds_eqb (a b : list ckind) : bool :=
  match a, b with
  | [], [] => true
  | x :: a', y :: b' => ckind_eqb x y && kinds_eqb a' b'
  | _, _ => false
  end.
Definition rule_typed (r : rule) : bool :=
  let caps := rule_caps r in
  match (fix sel (idx : list nat) : option (list ckind) :=
           match idx with
           | [] => Some []
           | k :: idx' => match nth_error caps k, sel idx' with
                          | Some c, Some l => Some (c :: l)
                          | _, _ => None
                          end
           end) (rargs r) with
  | Some ks => kinds_eqb ks (ctor_sig (rctor r))
  | None => false
  end.
Theorem table_well_typed : forallb (forallb rule_typed) arith_table = true.
Proof. vm_compute. reflexivity. Qed.

(** every infix rule has proper associativity markers (rust-peg would reject the grammar otherwise) *)
Definition rule_markers_ok (r : rule) : bool :=
  match rk r with KInfix la ra => xorb la ra | _ => true end.
Theorem table_markers_ok : forallb (forallb rule_markers_ok) arith_table = true.
Proof. vm_compute. reflexivity. Qed.

(** ** literals are in range *)
Lemma to_digit_nonneg radix c d : to_digit radix c = Some d -> 0 <= d.
Proof.
  unfold to_digit.
  destruct ((48 <=? c)%N && (c <=? 57)%N) eqn:E1.
  - apply andb_true_iff in E1 as [H1 H2]. apply N.leb_le in H1.
    destruct (_ <? radix); [|congruence]. intros H; injection H as <-. lia.
  - destruct ((97 <=? c)%N && (c <=? 122)%N) eqn:E2.
    + apply andb_true_iff in E2 as [H1 H2]. apply N.leb_le in H1.
      destruct (_ <? radix); [|congruence]. intros H; injection H as <-. lia.
    + destruct ((65 <=? c)%N && (c <=? 90)%N) eqn:E3; [|congruence].
      apply andb_true_iff in E3 as [H1 H2]. apply N.leb_le in H1.
      destruct (_ <? radix); [|congruence]. intros H; injection H as <-. lia.
Qed.
Lemma radix_val_nonneg radix s : 0 <= radix -> forall acc v, 0 <= acc -> radix_val radix acc s = Some v -> 0 <= v.
Proof.
  intros Hr. induction s as [|c s IH]; intros acc v Hacc; cbn [radix_val].
  - intros H; injection H as <-. assumption.
  - destruct (to_digit radix c) as [d|] eqn:Ed; [|congruence].
    apply to_digit_nonneg in Ed. apply IH. nia.
Qed.
Lemma i64_from_str_radix_range radix s v : 0 <= radix -> i64_from_str_radix radix s = Some v -> inr v.
Proof.
  intros Hr. unfold i64_from_str_radix. destruct s as [|c s]; [congruence|].
  destruct (radix_val radix 0 (c :: s)) as [w|] eqn:E; [|congruence].
  apply radix_val_nonneg in E; [|assumption|lia].
  destruct (Z.ltb_spec w M63) as [Hlt|Hge]; [|congruence]. intros Hq; injection Hq as <-. unfold inr, M63 in *. lia.
Qed.
Lemma u64_parse_cast_range s v : u64_parse_cast s = Some v -> inr v.
Proof.
  unfold u64_parse_cast. destruct s; [congruence|]. destruct (radix_val 10 0 _); [|congruence].
  destruct (_ <? M64); [|congruence]. intros H; injection H as <-. apply wrap64_range.
Qed.

Section LitRange.
  Variable cfg : lexcfg.
  Hypothesis hex_radix_nonneg : 0 <= hex_radix cfg.
  Hypothesis oct_radix_nonneg : 0 <= oct_radix cfg.

  Lemma shell_digits_range radix s : forall acc v, inr acc -> shell_digits cfg radix acc s = Some v -> inr v.
  Proof.
    induction s as [|c s IH]; intros acc v Hacc; cbn [shell_digits].
    - intros H; injection H as <-. assumption.
    - destruct (dmap_val _ c) as [d|]; [|congruence].
      destruct (d >=? radix); [congruence|]. apply IH. apply wadd_range.
  Qed.
  Lemma pslm_range s radix v : parse_shell_literal_number cfg s radix = Some v -> inr v.
  Proof.
    unfold parse_shell_literal_number. destruct (_ && _)%bool; [|congruence].
    apply shell_digits_range. unfold inr, M63; lia.
  Qed.
  Lemma decimal_literal_range s v r : decimal_literal cfg s = Some (v, r) -> inr v.
  Proof.
    unfold decimal_literal. destruct s as [|c s]; [congruence|].
    destruct (in_class (dec_first cfg) c); [|congruence].
    destruct (take_while (dec_rest cfg) s) as [ds rest].
    destruct (dec_wrap cfg).
    - destruct (parse_shell_literal_number cfg (c :: ds) 10) as [w|] eqn:E; [|congruence].
      intros H; injection H as <- _. eapply pslm_range; eassumption.
    - destruct (u64_parse_cast (c :: ds)) as [w|] eqn:E; [|congruence].
      intros H; injection H as <- _. eapply u64_parse_cast_range; eassumption.
  Qed.
  Theorem literal_number_range s v r : literal_number cfg s = Some (v, r) -> inr v.
  Proof.
    unfold literal_number.
    destruct (lit_radix cfg s) as [[v1 r1]|] eqn:E1.
    { intros H; injection H as <- _. unfold lit_radix in E1.
      destruct (decimal_literal cfg s) as [[radix [|c s1]]|]; try congruence.
      destruct (N.eqb c (radix_sep cfg)); [|congruence].
      destruct (take_while (radix_digits cfg) s1) as [[|d ds] rest]; [congruence|].
      destruct (parse_shell_literal_number cfg (d :: ds) (as_u64 radix)) as [w|] eqn:E; [|congruence].
      injection E1 as <- _. eapply pslm_range; eassumption. }
    destruct (lit_hex cfg s) as [[v2 r2]|] eqn:E2.
    { intros H; injection H as <- _. unfold lit_hex in E2.
      destruct s as [|c0 [|c1 s2]]; try congruence.
      destruct (_ && _)%bool; [|congruence].
      destruct (take_while (hex_digits cfg) s2) as [ds rest].
      destruct (hex_wrap cfg).
      - destruct (parse_shell_literal_number cfg ds (hex_radix cfg)) as [w|] eqn:E; [|congruence].
        injection E2 as <- _. eapply pslm_range; eassumption.
      - destruct (i64_from_str_radix (hex_radix cfg) ds) as [w|] eqn:E; [|congruence].
        injection E2 as <- _. eapply i64_from_str_radix_range; [exact hex_radix_nonneg|exact E]. }
    destruct (lit_oct cfg s) as [[v3 r3]|] eqn:E3.
    { intros H; injection H as <- _. unfold lit_oct in E3.
      destruct s as [|c0 s1]; try congruence.
      destruct (N.eqb c0 (oct_lead cfg)); [|congruence].
      destruct (take_while (oct_digits cfg) s1) as [ds rest].
      destruct (oct_wrap cfg).
      - destruct (parse_shell_literal_number cfg (c0 :: ds) (oct_radix cfg)) as [w|] eqn:E; [|congruence].
        injection E3 as <- _. eapply pslm_range; eassumption.
      - destruct (i64_from_str_radix (oct_radix cfg) (c0 :: ds)) as [w|] eqn:E; [|congruence].
        injection E3 as <- _. eapply i64_from_str_radix_range; [exact oct_radix_nonneg|exact E]. }
    apply decimal_literal_range.
  Qed.
End LitRange.

(** ** every literal of a parsed tree is in range (generic in the table) *)
Section ParseRange.
  Variable I : Type.
  Variable lx : lexer I.
  Variable tbl : table.
  Hypothesis lit_ok : forall s v r, lx_number lx s = Some (v, r) -> inr v.
  Hypothesis lvalue_ok : forall (expr : I -> pres aexpr I) s x i r,
    (forall s e r, expr s = PMatch e r -> lits_inr e) ->
    lx_lvalue lx expr s = PMatch (x, i) r -> match i with Some ie => lits_inr ie | None => True end.

  Definition cap_ok (c : cap) : Prop :=
    match c with
    | VE e => lits_inr e
    | VT _ i => match i with Some ie => lits_inr ie | None => True end
    | VZ z => inr z
    end.
  Definition rec_ok (rec : nat -> I -> pres aexpr I) : Prop :=
    forall minp s e r, rec minp s = PMatch e r -> lits_inr e.

  Lemma build_ok c args e : Forall cap_ok args -> build c args = Some e -> lits_inr e.
  Proof.
    intros Hall. destruct c; cbn;
      repeat (match goal with
              | |- match ?l with _ => _ end = _ -> _ => destruct l as [|[?|?|?] ?]
              end; try congruence);
      intros H; injection H as <-; cbn;
      repeat match goal with H : Forall _ (_ :: _) |- _ => inversion H; clear H; subst end;
      cbn [cap_ok] in *; auto.
  Qed.
  Lemma select_ok caps idx l : Forall cap_ok caps -> select caps idx = Some l -> Forall cap_ok l.
  Proof.
    intros Hall. revert l. induction idx as [|k idx IH]; intros l; cbn.
    - intros H; injection H as <-. constructor.
    - destruct (nth_error caps k) as [c|] eqn:En; [|congruence].
      destruct (select caps idx) as [l'|]; [|congruence].
      intros H; injection H as <-. constructor; [|apply IH; reflexivity].
      eapply Forall_forall; [exact Hall|]. eapply nth_error_In; eassumption.
  Qed.
  Lemma finish_ok r caps rest e rest' : Forall cap_ok caps -> finish I r caps rest = PMatch e rest' -> lits_inr e.
  Proof.
    intros Hall. unfold finish.
    destruct (select (rev caps) (rargs r)) as [args|] eqn:Es; [|congruence].
    destruct (build (rctor r) args) as [e'|] eqn:Eb; [|congruence].
    intros H; injection H as <- _.
    eapply build_ok; [|eassumption]. eapply select_ok; [|eassumption].
    apply Forall_rev. assumption.
  Qed.

  Lemma run_elems_ok rec els : rec_ok rec -> forall caps s caps' r, Forall cap_ok caps ->
    run_elems I lx rec els caps s = PMatch caps' r -> Forall cap_ok caps'.
  Proof.
    intros Hrec. induction els as [|el els IH]; intros caps s caps' r Hall; cbn [run_elems].
    - intros H; injection H as <- _. assumption.
    - destruct el.
      + apply IH. assumption.
      + destruct (lx_tok lx t s); [apply IH; assumption|congruence].
      + destruct (lx_not lx cls s); [apply IH; assumption|congruence].
      + destruct (rec O s) as [e s'| | |] eqn:Er; try congruence.
        apply IH. constructor; [|assumption]. cbn. eapply Hrec; eassumption.
      + destruct (lx_lvalue lx (rec O) s) as [[x i] s'| | |] eqn:El; try congruence.
        apply IH. constructor; [|assumption]. cbn.
        eapply lvalue_ok; [|eassumption]. intros s0 e0 r0. apply Hrec.
      + destruct (lx_number lx s) as [[z s']|] eqn:En; [|congruence].
        apply IH. constructor; [|assumption]. cbn. eapply lit_ok; eassumption.
  Qed.

  Lemma run_pre_ok rec prec r s e rest : rec_ok rec -> run_pre I lx rec prec r s = PMatch e rest -> lits_inr e.
  Proof.
    intros Hrec. unfold run_pre. destruct (rk r); try congruence.
    - destruct (run_elems I lx rec (rels r) [] s) as [caps s1| | |] eqn:Ee; try congruence.
      destruct (rec _ s1) as [e1 s2| | |] eqn:Er; try congruence.
      apply finish_ok. constructor; [cbn; eapply Hrec; eassumption|].
      eapply run_elems_ok; [exact Hrec| |eassumption]. constructor.
    - destruct (run_elems I lx rec (rels r) [] s) as [caps s1| | |] eqn:Ee; try congruence.
      apply finish_ok. eapply run_elems_ok; [exact Hrec| |eassumption]. constructor.
  Qed.
  Lemma run_post_ok rec prec r left s e rest : rec_ok rec -> lits_inr left ->
    run_post I lx rec prec r left s = PMatch e rest -> lits_inr e.
  Proof.
    intros Hrec Hl. unfold run_post. destruct (rk r) as [la ra| | |]; try congruence.
    - destruct la, ra; try congruence;
      (destruct (run_elems I lx rec (rels r) [VE left] s) as [caps s1| | |] eqn:Ee; try congruence;
       destruct (rec _ s1) as [e1 s2| | |] eqn:Er; try congruence;
       apply finish_ok; constructor; [cbn; eapply Hrec; eassumption|];
       eapply run_elems_ok; [exact Hrec| |eassumption]; constructor; [exact Hl|constructor]).
    - destruct (run_elems I lx rec (rels r) [VE left] s) as [caps s1| | |] eqn:Ee; try congruence.
      apply finish_ok. eapply run_elems_ok; [exact Hrec| |eassumption]. constructor; [exact Hl|constructor].
  Qed.

  Lemma first_pre_level_ok rec prec rs s e rest : rec_ok rec ->
    first_pre_level I lx rec prec rs s = PMatch e rest -> lits_inr e.
  Proof.
    intros Hrec. induction rs as [|r rs IH]; cbn [first_pre_level]; [congruence|].
    destruct (is_pre r); [|exact IH].
    destruct (run_pre I lx rec prec r s) as [e1 r1| | |] eqn:E; try congruence; [|exact IH].
    intros H; injection H as <- _. eapply run_pre_ok; eassumption.
  Qed.
  Lemma first_pre_ok rec lv : rec_ok rec -> forall prec s e rest,
    first_pre I lx rec prec lv s = PMatch e rest -> lits_inr e.
  Proof.
    intros Hrec. induction lv as [|rs lv IH]; intros prec s e rest; cbn [first_pre]; [congruence|].
    destruct (first_pre_level I lx rec prec rs s) as [e1 r1| | |] eqn:E; try congruence; [|apply IH].
    intros H; injection H as <- _. eapply first_pre_level_ok; eassumption.
  Qed.
  Lemma first_post_level_ok rec prec rs left s e rest : rec_ok rec -> lits_inr left ->
    first_post_level I lx rec prec rs left s = PMatch e rest -> lits_inr e.
  Proof.
    intros Hrec Hl. induction rs as [|r rs IH]; cbn [first_post_level]; [congruence|].
    destruct (is_pre r); [exact IH|].
    destruct (run_post I lx rec prec r left s) as [e1 r1| | |] eqn:E; try congruence; [|exact IH].
    intros H; injection H as <- _. eapply run_post_ok; eassumption.
  Qed.
  Lemma first_post_ok rec minp lv : rec_ok rec -> forall prec left s e rest, lits_inr left ->
    first_post I lx rec minp prec lv left s = PMatch e rest -> lits_inr e.
  Proof.
    intros Hrec. induction lv as [|rs lv IH]; intros prec left s e rest Hl; cbn [first_post]; [congruence|].
    destruct (minp <=? prec)%nat; [|apply IH; assumption].
    destruct (first_post_level I lx rec prec rs left s) as [e1 r1| | |] eqn:E; try congruence; [|apply IH; assumption].
    intros H; injection H as <- _. eapply first_post_level_ok; eassumption.
  Qed.
  Lemma infix_loop_ok rec n : rec_ok rec -> forall minp left s e rest, lits_inr left ->
    infix_loop I lx tbl rec n minp left s = PMatch e rest -> lits_inr e.
  Proof.
    intros Hrec. induction n as [|n IH]; intros minp left s e rest Hl; cbn [infix_loop]; [congruence|].
    destruct (first_post I lx rec minp 0 tbl left s) as [e1 s1| | |] eqn:E; try congruence.
    intros H. eapply IH; [|exact H]. eapply first_post_ok; [exact Hrec|exact Hl|exact E].
  Qed.

  Theorem parse_ok : forall fuel, rec_ok (parse I lx tbl fuel).
  Proof.
    induction fuel as [|f IH]; intros minp s e r; cbn [parse]; [congruence|].
    destruct (first_pre I lx (parse I lx tbl f) 0 tbl s) as [e1 rest| | |] eqn:E; try congruence.
    apply infix_loop_ok; [exact IH|]. eapply first_pre_ok; eassumption.
  Qed.

  Theorem parse_opt_ok b0 s e : parse_opt I lx tbl b0 s = Some e -> lits_inr e.
  Proof.
    unfold parse_opt, parse_full. destruct (lx_empty lx (if b0 then lx_ws lx s else s)).
    - intros H; injection H as <-. cbn. unfold inr, M63. lia.
    - destruct (parse I lx tbl _ 0 _) as [e1 rest| | |] eqn:E; try congruence.
      destruct (lx_empty lx (lx_ws lx rest)); [|congruence].
      intros H; injection H as <-. eapply parse_ok; eassumption.
  Qed.
End ParseRange.

(** the character-level [lvalue] only returns index expressions produced by [expression] *)
Section CharLvalue.
  Variable cfg : lexcfg.
  Lemma lvalue_ok expr s x i r : (forall s e r, expr s = PMatch e r -> lits_inr e) ->
    lvalue cfg expr s = PMatch (x, i) r -> match i with Some ie => lits_inr ie | None => True end.
  Proof.
    intros Hexpr. unfold lvalue. destruct (variable_name cfg s) as [[x0 rest]|]; [|congruence].
    destruct rest as [|c r1]; [intros H; injection H as <- <- _; exact I|].
    destruct (N.eqb c 91); [|intros H; injection H as <- <- _; exact I].
    destruct (expr _) as [ie r2| | |] eqn:Ee; try congruence.
    - destruct (if subscript_ws cfg then skip_ws cfg r2 else r2) as [|c2 r2']; [intros H; injection H as <- <- _; exact I|].
      destruct (N.eqb c2 93); intros H; injection H as <- <- _; [|exact I].
      eapply Hexpr; eassumption.
    - intros H; injection H as <- <- _. exact I.
  Qed.
End CharLvalue.

(** the parser of brush (regenerated table and lexical classes) only produces i64 literals *)
Theorem parse_lits_in_range s e : arith_parse s = Some e -> lits_inr e.
Proof.
  apply parse_opt_ok.
  - intros s0 v r. apply literal_number_range; vm_compute; congruence.
  - intros expr s0 x i r. apply lvalue_ok.
Qed.

(** … so every value [$(( ))] can print is an i64, for every expression, environment and fuel *)
Theorem eval_in_range_parsed nounset fuel s e depth en v en' :
  arith_parse s = Some e ->
  eval arith_parse nounset (max_deref_depth arith_lex) fuel e depth en = ROk v en' -> inr v.
Proof.
  intros Hp. eapply eval_in_range; [exact parse_lits_in_range|]. eapply parse_lits_in_range; eassumption.
Qed.
