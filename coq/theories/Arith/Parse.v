(** The arithmetic parser of brush: the generic [precedence!] interpreter instantiated with the
    regenerated table. *)
From BV Require Import Base.Prelude Arith.Ast Arith.Lit Arith.PegPrec gen.C07ArithTable.

Definition arith_parse_full (s : str) : pres aexpr := parse_full arith_lex arith_table s.
(** [brush_parser::arithmetic::parse] ([Err] = [None]) *)
Definition arith_parse (s : str) : option aexpr := parse_opt arith_lex arith_table s.
