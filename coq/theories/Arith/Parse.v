(** The arithmetic parser of brush: the generic [precedence!] interpreter instantiated with the
    regenerated table and the character-level primitives. *)
From BV Require Import Base.Prelude Arith.Ast Arith.Lit Arith.PegPrec gen.C07ArithTable.

Definition arith_parse_full (s : str) : pres aexpr str := parse_full str (char_lexer arith_lex) arith_table (blank_zero arith_lex) s.
(** [brush_parser::arithmetic::parse] ([Err] = [None]) *)
Definition arith_parse (s : str) : option aexpr := parse_opt str (char_lexer arith_lex) arith_table (blank_zero arith_lex) s.
