(** The parse ∘ render round trip, at token level.

    [parse] (Arith/PegPrec.v) is one definition over abstract lexical primitives.  Here it is run
    with the *regenerated* table [arith_table] over a token stream ([tok_lexer]: blanks are
    nothing, an operator literal matches exactly one operator token, [lvalue] is one identifier
    token, [literal_number] one number token, the one-character look-ahead guards always
    succeed — which is what the character-level primitives do on an input where tokens are
    separated by single blanks).

    Spec side: bash's operator table ([blevel], [right_assoc], expr.c) and the rendering
    relation [R]: [R q e ts tq] says that [ts] is a rendering of [e] at a position that requires
    precedence [q], with minimal parentheses from that table *or any amount of redundant ones*.

    Theorem [tparse_render]: [parse (render e) = e] for every [e] (no array subscripts), every
    amount of redundant parentheses, and every continuation that cannot extend the expression. *)
From Coq Require Import String.
From BV Require Import Base.Prelude Base.Codec Arith.Ast Arith.Lit Arith.PegPrec gen.C07ArithTable.

Inductive tok := TNum (z : Z) | TId (x : str) | TOp (s : str).

Definition tok_lexer : lexer (list tok) := {|
  lx_size := @length tok;
  lx_empty := fun s => match s with [] => true | _ => false end;
  lx_ws := fun s => s;
  lx_tok := fun t s => match s with
                       | TOp t' :: s' => if str_eqb t t' then Some s' else None
                       | _ => None
                       end;
  lx_not := fun _ _ => true;
  lx_lvalue := fun _ s => match s with TId x :: s' => PMatch (x, None) s' | _ => PFail end;
  lx_number := fun s => match s with TNum z :: s' => Some (z, s') | _ => None end
|}.

Notation T := (list tok).
Definition tparse := parse T tok_lexer arith_table.
Notation tfirst_pre := (first_pre T tok_lexer).
Notation tfirst_post := (first_post T tok_lexer).
Notation tfirst_post_level := (first_post_level T tok_lexer).
Notation tloop := (infix_loop T tok_lexer arith_table).

(** ** bash's table (expr.c), numbered like the levels of c_levels *)
Definition blevel (o : binop) : nat :=
  match o with
  | Comma => 0 | LOr => 3 | LAnd => 4 | BOr => 5 | BXor => 6 | BAnd => 7 | Eq | Ne => 8
  | Lt | Gt | Le | Ge => 9 | Shl | Shr => 10 | Add | Sub => 11 | Mul | Mod | Div => 12 | Pow => 13
  end.
Definition right_assoc (o : binop) : bool := match o with Pow => true | _ => false end.
Definition bintok (o : binop) : str :=
  lit match o with
      | Comma => "," | LOr => "||" | LAnd => "&&" | BOr => "|" | BXor => "^" | BAnd => "&"
      | Eq => "==" | Ne => "!=" | Lt => "<" | Gt => ">" | Le => "<=" | Ge => ">=" | Shl => "<<"
      | Shr => ">>" | Add => "+" | Sub => "-" | Mul => "*" | Mod => "%" | Div => "/" | Pow => "**"
      end.
Definition untok (o : unop) : str :=
  lit match o with LNot => "!" | BNot => "~" | UPlus => "+" | UMinus => "-" end.
(** level of the operand of a unary operator (both are "the unary level" of expr.c: above [**]) *)
Definition unlevel (o : unop) : nat := match o with LNot | BNot => 14 | UPlus | UMinus => 15 end.
Definition has_assign (o : binop) : bool :=
  match o with Mul | Div | Mod | Add | Sub | Shl | Shr | BAnd | BOr | BXor => true | _ => false end.
Definition assigntok (o : binop) : str := bintok o ++ lit "=".
Definition LP := TOp (lit "(").
Definition RP := TOp (lit ")").
Definition QM := TOp (lit "?").
Definition COL := TOp (lit ":").

(** ** rendering: [R q e ts tq]; [tq] = level from which a following operator would still be
    absorbed by the last operand of [e] (19 = nothing is absorbed) *)
Inductive R : nat -> aexpr -> T -> nat -> Prop :=
  | RParen q e ts tq0 : R 0 e ts tq0 -> R q e (LP :: ts ++ [RP]) 19
  | RLit q z : R q (ELit z) [TNum z] 19
  | RRef q x : R q (ERef x None) [TId x] 19
  | RPreInc q x : R q (EIncr PreInc x None) [TOp (lit "++"); TId x] 19
  | RPreDec q x : R q (EIncr PreDec x None) [TOp (lit "--"); TId x] 19
  | RPostInc q x : R q (EIncr PostInc x None) [TId x; TOp (lit "++")] 19
  | RPostDec q x : R q (EIncr PostDec x None) [TId x; TOp (lit "--")] 19
  | RUn q o a ts tq0 : (q <= 15)%nat -> R 15 a ts tq0 -> R q (EUn o a) (TOp (untok o) :: ts) (unlevel o)
  | RBinL q o a b tsa tsb tqa tqb : right_assoc o = false -> (q <= blevel o)%nat ->
      R (blevel o) a tsa tqa -> R (S (blevel o)) b tsb tqb ->
      R q (EBin o a b) (tsa ++ TOp (bintok o) :: tsb) (S (blevel o))
  | RBinR q o a b tsa tsb tqa tqb : right_assoc o = true -> (q <= blevel o)%nat ->
      R (S (blevel o)) a tsa tqa -> R (blevel o) b tsb tqb ->
      R q (EBin o a b) (tsa ++ TOp (bintok o) :: tsb) (blevel o)
  | RCond q c t f tsc tst tsf tqc tqt tqf : (q <= 2)%nat ->
      R 3 c tsc tqc -> R 0 t tst tqt -> R 2 f tsf tqf ->
      R q (ECond c t f) (tsc ++ QM :: tst ++ COL :: tsf) 2
  | RAssign q x rhs ts tq0 : (q <= 1)%nat -> R 1 rhs ts tq0 ->
      R q (EAssign x None rhs) (TId x :: TOp (lit "=") :: ts) 1
  | RBinAssign q o x rhs ts tq0 : has_assign o = true -> (q <= 1)%nat -> R 1 rhs ts tq0 ->
      R q (EBinAssign o x None rhs) (TId x :: TOp (assigntok o) :: ts) 1.

Lemma R_nonempty q e ts tq : R q e ts tq -> (1 <= length ts)%nat.
Proof.
  induction 1; cbn [length]; rewrite ?app_length; cbn [length]; lia.
Qed.

Lemma R_tail q e ts tq : R q e ts tq -> (q < tq)%nat \/ tq = 1%nat \/ tq = 2%nat \/ tq = 13%nat \/ (14 <= tq)%nat.
Proof.
  induction 1; try (right; right; right; right; lia).
  - right; right; right; right. destruct o; cbn; lia.
  - left. lia.
  - destruct o; try discriminate. cbn. auto.
  - auto.
  - auto.
  - auto.
Qed.
Lemma R_tail_ge q e ts tq : R q e ts tq -> (q <= tq)%nat \/ (14 <= tq)%nat.
Proof.
  induction 1; try (right; lia).
  - right. destruct o; cbn; lia.
  - left. lia.
  - left. lia.
  - left. lia.
  - left. lia.
  - left. lia.
Qed.

(** ** tokens that may follow a complete expression *)
Inductive ftok := FRP | FCOL | FQM | FBin (o : binop).
Definition tok_of_f (f : ftok) : tok :=
  match f with FRP => RP | FCOL => COL | FQM => QM | FBin o => TOp (bintok o) end.
Definition flevel (f : ftok) : option nat :=
  match f with FRP | FCOL => None | FQM => Some 2%nat | FBin o => Some (blevel o) end.
(** [rest] cannot extend an expression parsed with minimum level [m] *)
Definition follow_ok (m : nat) (rest : T) : Prop :=
  rest = [] \/ exists f rest', rest = tok_of_f f :: rest' /\
                               match flevel f with Some p => (p < m)%nat | None => True end.

Lemma flevel_le f p : flevel f = Some p -> (p <= 13)%nat.
Proof. destruct f as [| | |o]; cbn; try congruence; intros H; injection H as <-; [lia|destruct o; cbn; lia]. Qed.

Lemma follow_ok_mono m m' rest : follow_ok m rest -> (m <= m' \/ 14 <= m')%nat -> follow_ok m' rest.
Proof.
  intros [->|(f & r & -> & Hf)] Hm; [left; reflexivity|].
  right. exists f, r. split; [reflexivity|].
  destruct (flevel f) as [p|] eqn:E; [|exact I]. apply flevel_le in E. lia.
Qed.

(** ** generic facts about the level walk of [first_post] over tokens *)
Definition rule_head_tok (r : rule) : option str :=
  match rels r with EWs :: ETok t :: _ => Some t | ETok t :: _ => Some t | _ => None end.
Definition markers_ok (r : rule) : bool := match rk r with KInfix la ra => xorb la ra | _ => true end.
Definition rule_rejects (r : rule) (ot : option tok) : bool :=
  is_pre r || (markers_ok r && match rule_head_tok r, ot with
                               | Some a, Some (TOp b) => negb (str_eqb a b)
                               | Some _, _ => true
                               | None, _ => false
                               end).
Definition level_rejects (rs : list rule) (ot : option tok) : bool := forallb (fun r => rule_rejects r ot) rs.

Lemma lx_tok_reject a s : match hd_error s with Some (TOp b) => negb (str_eqb a b) | _ => true end = true ->
  lx_tok tok_lexer a s = None.
Proof.
  destruct s as [|[z|x|b] s]; cbn; try reflexivity.
  destruct (str_eqb a b); [discriminate|reflexivity].
Qed.

Lemma run_elems_reject rec r caps s : (match rule_head_tok r, hd_error s with
                               | Some a, Some (TOp b) => negb (str_eqb a b)
                               | Some _, _ => true
                               | None, _ => false
                               end) = true ->
  run_elems T tok_lexer rec (rels r) caps s = PFail.
Proof.
  unfold rule_head_tok. destruct (rels r) as [|[| t | | | |] [|[| t2 | | | |] els]]; try discriminate; intros H;
    cbn [run_elems lx_ws tok_lexer]; try (rewrite lx_tok_reject; [reflexivity|]);
    try (destruct (hd_error s) as [[]|]; assumption).
Qed.

Lemma rule_rejects_ok rec prec r left s : is_pre r = false -> rule_rejects r (hd_error s) = true ->
  run_post T tok_lexer rec prec r left s = PFail.
Proof.
  unfold rule_rejects. intros Hp. rewrite Hp. cbn [orb]. intros H. apply andb_true_iff in H as [Hm Hh].
  unfold run_post. unfold is_pre in Hp. unfold markers_ok in Hm.
  destruct (rk r) as [la ra| | |]; try discriminate.
  - destruct la, ra; try discriminate; rewrite run_elems_reject by exact Hh; reflexivity.
  - rewrite run_elems_reject by exact Hh. reflexivity.
Qed.

Lemma level_rejects_ok rec prec rs left s : level_rejects rs (hd_error s) = true ->
  tfirst_post_level rec prec rs left s = PFail.
Proof.
  induction rs as [|r rs IH]; cbn [first_post_level level_rejects forallb]; [reflexivity|].
  intros H. apply andb_true_iff in H as [Hr Hrs].
  destruct (is_pre r) eqn:Ep; [apply IH; exact Hrs|].
  rewrite rule_rejects_ok by assumption. apply IH. exact Hrs.
Qed.

Lemma first_post_skip rec m k rs lv left s : level_rejects rs (hd_error s) = true ->
  tfirst_post rec m k (rs :: lv) left s = tfirst_post rec m (S k) lv left s.
Proof.
  intros H. cbn [first_post]. rewrite level_rejects_ok by exact H. destruct (m <=? k)%nat; reflexivity.
Qed.
Lemma first_post_below rec m k rs lv left s : (k < m)%nat ->
  tfirst_post rec m k (rs :: lv) left s = tfirst_post rec m (S k) lv left s.
Proof.
  intros H. cbn [first_post]. destruct (Nat.leb_spec m k); [lia|reflexivity].
Qed.
Lemma first_post_hit rec m k rs lv left s : (m <= k)%nat ->
  tfirst_post rec m k (rs :: lv) left s =
  match tfirst_post_level rec k rs left s with
  | PFail => tfirst_post rec m (S k) lv left s
  | x => x
  end.
Proof.
  intros H. cbn [first_post]. destruct (Nat.leb_spec m k); [reflexivity|lia].
Qed.

Ltac walk_levels :=
  repeat first [ rewrite first_post_skip by reflexivity
               | rewrite first_post_below by (cbn in *; lia) ].

(** ** the regenerated table on tokens: the loop stops at a follow token *)
Lemma post_stop rec m left rest : follow_ok m rest -> tfirst_post rec m 0 arith_table left rest = PFail.
Proof.
  intros [->|(f & r & -> & Hf)]; unfold arith_table.
  - walk_levels. reflexivity.
  - destruct f as [| | |o]; [| | |destruct o]; cbn [tok_of_f flevel blevel] in *; walk_levels; reflexivity.
Qed.

Lemma loop_stop rec n m e rest : follow_ok m rest -> (1 <= n)%nat -> tloop rec n m e rest = PMatch e rest.
Proof.
  intros Hf Hn. destruct n as [|n]; [lia|]. cbn [infix_loop]. rewrite post_stop by exact Hf. reflexivity.
Qed.

(** ** the regenerated table on tokens: one binary operator step of the loop *)
Definition rlevel (o : binop) : nat := if right_assoc o then blevel o else S (blevel o).

Lemma post_bin rec m left o s b s' : (m <= blevel o)%nat -> rec (rlevel o) s = PMatch b s' ->
  tfirst_post rec m 0 arith_table left (TOp (bintok o) :: s) = PMatch (EBin o left b) s'.
Proof.
  intros Hm Hrec. unfold arith_table.
  destruct o; cbn [blevel bintok rlevel right_assoc] in *; walk_levels;
    (rewrite first_post_hit by exact Hm);
    match goal with |- context [tfirst_post ?r ?mm ?k ?lv ?l ?ss] => generalize (tfirst_post r mm k lv l ss) end;
    intros K; cbn; rewrite Hrec; reflexivity.
Qed.

Lemma post_cond rec m left s t s1 f s2 : (m <= 2)%nat -> rec 0%nat s = PMatch t (COL :: s1) ->
  rec 2%nat s1 = PMatch f s2 ->
  tfirst_post rec m 0 arith_table left (QM :: s) = PMatch (ECond left t f) s2.
Proof.
  intros Hm Ht Hf. unfold arith_table. walk_levels.
  rewrite first_post_hit by exact Hm.
  match goal with |- context [tfirst_post ?r ?mm ?k ?lv ?l ?ss] => generalize (tfirst_post r mm k lv l ss) end.
  intros K. cbn. rewrite Ht. cbn. rewrite Hf. reflexivity.
Qed.

(** ** the regenerated table on tokens: the prefix/atom phase *)
Lemma pre_num rec z rest : tfirst_pre rec 0 arith_table (TNum z :: rest) = PMatch (ELit z) rest.
Proof. reflexivity. Qed.

Lemma pre_ref rec x rest : follow_ok 0 rest \/ (exists f r, rest = tok_of_f f :: r) ->
  tfirst_pre rec 0 arith_table (TId x :: rest) = PMatch (ERef x None) rest.
Proof.
  intros [[->|(f & r & -> & _)]|(f & r & ->)]; try reflexivity;
    (destruct f as [| | |o]; [| | |destruct o]; reflexivity).
Qed.

Lemma pre_preinc rec x rest : tfirst_pre rec 0 arith_table (TOp (lit "++") :: TId x :: rest) = PMatch (EIncr PreInc x None) rest.
Proof. reflexivity. Qed.
Lemma pre_predec rec x rest : tfirst_pre rec 0 arith_table (TOp (lit "--") :: TId x :: rest) = PMatch (EIncr PreDec x None) rest.
Proof. reflexivity. Qed.
Lemma pre_postinc rec x rest : tfirst_pre rec 0 arith_table (TId x :: TOp (lit "++") :: rest) = PMatch (EIncr PostInc x None) rest.
Proof. reflexivity. Qed.
Lemma pre_postdec rec x rest : tfirst_pre rec 0 arith_table (TId x :: TOp (lit "--") :: rest) = PMatch (EIncr PostDec x None) rest.
Proof. reflexivity. Qed.

Lemma pre_un rec o s a s' : rec (unlevel o) s = PMatch a s' ->
  tfirst_pre rec 0 arith_table (TOp (untok o) :: s) = PMatch (EUn o a) s'.
Proof. intros H. destruct o; cbn in *; rewrite H; reflexivity. Qed.

Lemma pre_assign rec x s rhs s' : rec 1%nat s = PMatch rhs s' ->
  tfirst_pre rec 0 arith_table (TId x :: TOp (lit "=") :: s) = PMatch (EAssign x None rhs) s'.
Proof. intros H. cbn. rewrite H. reflexivity. Qed.

Lemma pre_binassign rec o x s rhs s' : has_assign o = true -> rec 1%nat s = PMatch rhs s' ->
  tfirst_pre rec 0 arith_table (TId x :: TOp (assigntok o) :: s) = PMatch (EBinAssign o x None rhs) s'.
Proof. intros Ho H. destruct o; try discriminate; cbn; rewrite H; reflexivity. Qed.

Lemma pre_paren rec s e s' : rec 0%nat s = PMatch e (RP :: s') ->
  tfirst_pre rec 0 arith_table (LP :: s) = PMatch e s'.
Proof. intros H. cbn. rewrite H. reflexivity. Qed.

(** ** the round trip, generic in the lexical level
    [I] is the input type of a lexer [lx]; [enc ts] is the input that starts with the tokens [ts];
    [cont ts] is what is left in front of the tokens [ts] after an operand has been parsed (for
    characters: a blank, then [enc ts]).  The facts [TF] say how the pre-phase and the post-phase
    of [parse] over the regenerated table react to the first token(s); they are proved by
    computation for tokens (below) and for characters (Arith/CharProofs.v). *)
Fixpoint lex_ok (okid : str -> Prop) (oknum : Z -> Prop) (e : aexpr) : Prop :=
  match e with
  | ELit z => oknum z
  | ERef x _ => okid x
  | EUn _ a => lex_ok okid oknum a
  | EBin _ a b => lex_ok okid oknum a /\ lex_ok okid oknum b
  | ECond c t f => lex_ok okid oknum c /\ lex_ok okid oknum t /\ lex_ok okid oknum f
  | EAssign x _ a => okid x /\ lex_ok okid oknum a
  | EIncr _ x _ => okid x
  | EBinAssign _ x _ a => okid x /\ lex_ok okid oknum a
  end.

Lemma follow_bin o m r : (blevel o < m)%nat -> follow_ok m (TOp (bintok o) :: r).
Proof. intros H. right. exists (FBin o), r. split; [reflexivity|exact H]. Qed.

Section Generic.
  Variable Inp : Type.
  Variable lx : lexer Inp.
  Variable enc cont : T -> Inp.
  Variable okid : str -> Prop.
  Variable oknum : Z -> Prop.
  Variable opok : str -> Prop.                       (* operator texts that do not start with a blank *)
  Variable rec_good : (nat -> Inp -> pres aexpr Inp) -> Prop.   (* what the facts need from the recursive parser *)

  (** the first token of [s] is lexically valid (so that [_] before it stops at it) *)
  Definition first_ok (s : T) : Prop :=
    match s with
    | TNum z :: _ => oknum z
    | TId x :: _ => okid x
    | TOp o :: _ => opok o
    | [] => False
    end.

  Notation P := (first_pre Inp lx).
  Notation Q := (first_post Inp lx).
  Notation gparse := (parse Inp lx arith_table).
  Notation gloop := (infix_loop Inp lx arith_table).
  Notation rec_t := (nat -> Inp -> pres aexpr Inp).

  Record table_facts : Prop := {
    tf_size : forall r, (length r <= lx_size lx (cont r))%nat;
    tf_num : forall (rec : rec_t) z r, oknum z -> P rec 0 arith_table (enc (TNum z :: r)) = PMatch (ELit z) (cont r);
    tf_opok : forall o, In o [lit "("; lit "++"; lit "--"; lit "!"; lit "~"; lit "+"; lit "-"] -> opok o;
    tf_rec_good : forall f, (1 <= f)%nat -> rec_good (parse Inp lx arith_table f);
    tf_ref : forall (rec : rec_t) x r, rec_good rec -> okid x -> (r = [] \/ exists f r', r = tok_of_f f :: r') ->
      P rec 0 arith_table (enc (TId x :: r)) = PMatch (ERef x None) (cont r);
    tf_preinc : forall (rec : rec_t) x r, okid x ->
      P rec 0 arith_table (enc (TOp (lit "++") :: TId x :: r)) = PMatch (EIncr PreInc x None) (cont r);
    tf_predec : forall (rec : rec_t) x r, okid x ->
      P rec 0 arith_table (enc (TOp (lit "--") :: TId x :: r)) = PMatch (EIncr PreDec x None) (cont r);
    tf_postinc : forall (rec : rec_t) x r, rec_good rec -> okid x ->
      P rec 0 arith_table (enc (TId x :: TOp (lit "++") :: r)) = PMatch (EIncr PostInc x None) (cont r);
    tf_postdec : forall (rec : rec_t) x r, rec_good rec -> okid x ->
      P rec 0 arith_table (enc (TId x :: TOp (lit "--") :: r)) = PMatch (EIncr PostDec x None) (cont r);
    tf_un : forall (rec : rec_t) o s a s', rec_good rec -> first_ok s -> rec (unlevel o) (enc s) = PMatch a s' ->
      P rec 0 arith_table (enc (TOp (untok o) :: s)) = PMatch (EUn o a) s';
    tf_assign : forall (rec : rec_t) x s rhs s', rec_good rec -> okid x -> first_ok s -> rec 1%nat (enc s) = PMatch rhs s' ->
      P rec 0 arith_table (enc (TId x :: TOp (lit "=") :: s)) = PMatch (EAssign x None rhs) s';
    tf_binassign : forall (rec : rec_t) o x s rhs s', rec_good rec -> has_assign o = true -> okid x -> first_ok s ->
      rec 1%nat (enc s) = PMatch rhs s' ->
      P rec 0 arith_table (enc (TId x :: TOp (assigntok o) :: s)) = PMatch (EBinAssign o x None rhs) s';
    tf_paren : forall (rec : rec_t) s e s', rec_good rec -> first_ok s -> rec 0%nat (enc s) = PMatch e (cont (RP :: s')) ->
      P rec 0 arith_table (enc (LP :: s)) = PMatch e (cont s');
    tf_bin : forall (rec : rec_t) m left o s b s', rec_good rec -> (m <= blevel o)%nat -> first_ok s ->
      rec (rlevel o) (enc s) = PMatch b s' ->
      Q rec m 0 arith_table left (cont (TOp (bintok o) :: s)) = PMatch (EBin o left b) s';
    tf_cond : forall (rec : rec_t) m left s t s1 f s2, rec_good rec -> (m <= 2)%nat -> first_ok s -> first_ok s1 ->
      rec 0%nat (enc s) = PMatch t (cont (COL :: s1)) -> rec 2%nat (enc s1) = PMatch f s2 ->
      Q rec m 0 arith_table left (cont (QM :: s)) = PMatch (ECond left t f) s2;
    tf_stop : forall (rec : rec_t) m left r, rec_good rec -> follow_ok m r -> Q rec m 0 arith_table left (cont r) = PFail
  }.

  Hypothesis TF : table_facts.

  Lemma gparse_S f m s : gparse (S f) m s =
    match P (gparse f) 0 arith_table s with
    | PMatch e rest => gloop (gparse f) (S (lx_size lx rest)) m e rest
    | x => x
    end.
  Proof. reflexivity. Qed.

  Lemma gloop_stop rec n m e rest : rec_good rec -> follow_ok m rest -> (1 <= n)%nat -> gloop rec n m e (cont rest) = PMatch e (cont rest).
  Proof.
    intros Hg Hf Hn. destruct n as [|n]; [lia|]. cbn [infix_loop]. rewrite (tf_stop TF) by assumption. reflexivity.
  Qed.

  Lemma R_first_ok q e ts tq : R q e ts tq -> lex_ok okid oknum e -> forall rest, first_ok (ts ++ rest).
  Proof.
    induction 1; intros Hok rest; cbn [lex_ok] in Hok; cbn [app first_ok]; try assumption;
      try (apply (tf_opok TF); cbn; tauto).
    - destruct o; apply (tf_opok TF); cbn; tauto.
    - rewrite <- app_assoc. apply IHR1. tauto.
    - rewrite <- app_assoc. apply IHR1. tauto.
    - rewrite <- app_assoc. apply IHR1. tauto.
    - tauto.
    - tauto.
  Qed.

  Definition Lstmt (q : nat) (e : aexpr) (ts : T) (tq : nat) : Prop :=
    forall m rest f, (m <= q)%nat -> follow_ok tq rest -> (length (ts ++ rest) <= f)%nat ->
    exists n, (S (length rest) <= n)%nat /\
              gparse (S f) m (enc (ts ++ rest)) = gloop (gparse f) n m e (cont rest).

  (** (R) from (L): when the continuation cannot extend the expression at level [m], the call returns *)
  Lemma L_to_R q e ts tq : R q e ts tq -> Lstmt q e ts tq ->
    forall m rest fuel, (m <= q)%nat -> follow_ok m rest -> (length (ts ++ rest) < fuel)%nat ->
    gparse fuel m (enc (ts ++ rest)) = PMatch e (cont rest).
  Proof.
    intros HR HL m rest fuel Hm Hf Hlen. destruct fuel as [|f]; [lia|].
    pose proof (R_nonempty _ _ _ _ HR) as Hne. rewrite app_length in Hlen.
    destruct (HL m rest f Hm) as (n & Hn & ->); [|rewrite app_length; lia|].
    - apply follow_ok_mono with (m := m); [exact Hf|]. destruct (R_tail_ge _ _ _ _ HR); lia.
    - apply gloop_stop; [apply (tf_rec_good TF); lia|exact Hf|lia].
  Qed.

  Lemma app_nonempty (a b : T) : (1 <= length a)%nat -> a ++ b <> [].
  Proof. destruct a; cbn; [lia|discriminate]. Qed.

  Theorem render_L : forall q e ts tq, R q e ts tq -> lex_ok okid oknum e -> Lstmt q e ts tq.
  Proof.
    induction 1 as [q e ts tq0 HR IH | q z | q x | q x | q x | q x | q x
                   | q o a ts tq0 Hq HR IH
                   | q o a b tsa tsb tqa tqb Hassoc Hq HRa IHa HRb IHb
                   | q o a b tsa tsb tqa tqb Hassoc Hq HRa IHa HRb IHb
                   | q c t fe tsc tst tsf tqc tqt tqf Hq HRc IHc HRt IHt HRf IHf
                   | q x rhs ts tq0 Hq HR IH
                   | q o x rhs ts tq0 Ho Hq HR IH];
      intros Hok m rest fu Hm Hfol Hlen; cbn [lex_ok] in Hok;
      assert (Hg : forall k, (k <= length rest)%nat -> (1 + k <= fu)%nat -> rec_good (gparse fu))
        by (intros k _ Hk; apply (tf_rec_good TF); lia).
    - (* parentheses *)
      exists (S (lx_size lx (cont rest))). split; [pose proof (tf_size TF rest); lia|].
      cbn [app] in *. rewrite <- app_assoc in *. cbn [app] in *. rewrite gparse_S.
      pose proof (R_nonempty _ _ _ _ HR) as Hne.
      rewrite (tf_paren TF (gparse fu) _ e rest); [reflexivity|apply (tf_rec_good TF); cbn [length] in Hlen; lia
        |apply (R_first_ok _ _ _ _ HR Hok)|].
      apply (L_to_R _ _ _ _ HR (IH Hok)); [lia| |cbn [length] in Hlen; lia].
      right. exists FRP, rest. split; [reflexivity|exact I].
    - exists (S (lx_size lx (cont rest))). split; [pose proof (tf_size TF rest); lia|].
      cbn [app]. rewrite gparse_S. rewrite (tf_num TF) by exact Hok. reflexivity.
    - exists (S (lx_size lx (cont rest))). split; [pose proof (tf_size TF rest); lia|].
      cbn [app]. rewrite gparse_S. rewrite (tf_ref TF); [reflexivity|apply (tf_rec_good TF); cbn [app length] in Hlen; lia|exact Hok|].
      destruct Hfol as [->|(f0 & r & -> & _)]; [left; reflexivity|right; exists f0, r; reflexivity].
    - exists (S (lx_size lx (cont rest))). split; [pose proof (tf_size TF rest); lia|].
      cbn [app]. rewrite gparse_S. rewrite (tf_preinc TF) by exact Hok. reflexivity.
    - exists (S (lx_size lx (cont rest))). split; [pose proof (tf_size TF rest); lia|].
      cbn [app]. rewrite gparse_S. rewrite (tf_predec TF) by exact Hok. reflexivity.
    - exists (S (lx_size lx (cont rest))). split; [pose proof (tf_size TF rest); lia|].
      cbn [app]. rewrite gparse_S.
      rewrite (tf_postinc TF); [reflexivity|apply (tf_rec_good TF); cbn [app length] in Hlen; lia|exact Hok].
    - exists (S (lx_size lx (cont rest))). split; [pose proof (tf_size TF rest); lia|].
      cbn [app]. rewrite gparse_S.
      rewrite (tf_postdec TF); [reflexivity|apply (tf_rec_good TF); cbn [app length] in Hlen; lia|exact Hok].
    - (* unary *)
      exists (S (lx_size lx (cont rest))). split; [pose proof (tf_size TF rest); lia|].
      cbn [app]. rewrite gparse_S.
      pose proof (R_nonempty _ _ _ _ HR) as Hne.
      rewrite (tf_un TF (gparse fu) o _ a (cont rest)); [reflexivity|apply (tf_rec_good TF); cbn [app length] in Hlen; lia
        |apply (R_first_ok _ _ _ _ HR Hok)|].
      apply (L_to_R _ _ _ _ HR (IH Hok)); [destruct o; cbn; lia|exact Hfol|cbn [app length] in Hlen; lia].
    - (* left associative binary operator *)
      destruct Hok as [Hoka Hokb].
      rewrite <- app_assoc in *. cbn [app] in *.
      destruct (IHa Hoka m (TOp (bintok o) :: tsb ++ rest) fu) as (n & Hn & ->); [lia| |exact Hlen|].
      { apply follow_bin. pose proof (R_tail _ _ _ _ HRa) as H1. pose proof (R_tail_ge _ _ _ _ HRa) as H2.
        destruct o; cbn [blevel right_assoc] in *; try discriminate; lia. }
      cbn [length] in Hn. destruct n as [|n]; [lia|]. exists n. split; [rewrite app_length in Hn; lia|].
      cbn [infix_loop].
      pose proof (R_nonempty _ _ _ _ HRa) as Hna. pose proof (R_nonempty _ _ _ _ HRb) as Hnb.
      rewrite (tf_bin TF (gparse fu) m a o (tsb ++ rest) b (cont rest));
        [reflexivity|apply (tf_rec_good TF); rewrite app_length in Hlen; lia|lia|apply (R_first_ok _ _ _ _ HRb Hokb)|].
      unfold rlevel. rewrite Hassoc.
      rewrite app_length in Hlen. cbn [length] in Hlen.
      apply (L_to_R _ _ _ _ HRb (IHb Hokb)); [lia|exact Hfol|lia].
    - (* right associative binary operator *)
      destruct Hok as [Hoka Hokb].
      rewrite <- app_assoc in *. cbn [app] in *.
      destruct (IHa Hoka m (TOp (bintok o) :: tsb ++ rest) fu) as (n & Hn & ->); [lia| |exact Hlen|].
      { apply follow_bin. pose proof (R_tail_ge _ _ _ _ HRa) as H2.
        destruct o; cbn [blevel right_assoc] in *; try discriminate; lia. }
      cbn [length] in Hn. destruct n as [|n]; [lia|]. exists n. split; [rewrite app_length in Hn; lia|].
      cbn [infix_loop].
      pose proof (R_nonempty _ _ _ _ HRa) as Hna. pose proof (R_nonempty _ _ _ _ HRb) as Hnb.
      rewrite (tf_bin TF (gparse fu) m a o (tsb ++ rest) b (cont rest));
        [reflexivity|apply (tf_rec_good TF); rewrite app_length in Hlen; lia|lia|apply (R_first_ok _ _ _ _ HRb Hokb)|].
      unfold rlevel. rewrite Hassoc.
      rewrite app_length in Hlen. cbn [length] in Hlen.
      apply (L_to_R _ _ _ _ HRb (IHb Hokb)); [lia|exact Hfol|lia].
    - (* conditional *)
      destruct Hok as (Hokc & Hokt & Hokf).
      rewrite <- app_assoc in *. cbn [app] in *. rewrite <- app_assoc in *. cbn [app] in *.
      destruct (IHc Hokc m (QM :: tst ++ COL :: tsf ++ rest) fu) as (n & Hn & ->); [lia| |exact Hlen|].
      { right. exists FQM, (tst ++ COL :: tsf ++ rest). split; [reflexivity|]. cbn.
        destruct (R_tail_ge _ _ _ _ HRc); lia. }
      cbn [length] in Hn. destruct n as [|n]; [lia|]. exists n.
      split; [rewrite !app_length in Hn; cbn [length] in Hn; rewrite app_length in Hn; lia|].
      cbn [infix_loop].
      pose proof (R_nonempty _ _ _ _ HRc) as Hnc. pose proof (R_nonempty _ _ _ _ HRt) as Hnt.
      pose proof (R_nonempty _ _ _ _ HRf) as Hnf.
      rewrite !app_length in Hlen. cbn [length] in Hlen. rewrite !app_length in Hlen. cbn [length] in Hlen.
      rewrite app_length in Hlen.
      rewrite (tf_cond TF (gparse fu) m c (tst ++ COL :: tsf ++ rest) t (tsf ++ rest) fe (cont rest));
        [reflexivity|apply (tf_rec_good TF); lia|lia|apply (R_first_ok _ _ _ _ HRt Hokt)|apply (R_first_ok _ _ _ _ HRf Hokf)| |].
      + apply (L_to_R _ _ _ _ HRt (IHt Hokt)); [lia| |rewrite app_length; cbn [length]; rewrite app_length; lia].
        right. exists FCOL, (tsf ++ rest). split; [reflexivity|exact I].
      + apply (L_to_R _ _ _ _ HRf (IHf Hokf)); [lia|exact Hfol|rewrite app_length; lia].
    - (* assignment *)
      destruct Hok as [Hokx Hokr].
      exists (S (lx_size lx (cont rest))). split; [pose proof (tf_size TF rest); lia|].
      cbn [app]. rewrite gparse_S.
      pose proof (R_nonempty _ _ _ _ HR) as Hne.
      rewrite (tf_assign TF (gparse fu) x _ rhs (cont rest));
        [reflexivity|apply (tf_rec_good TF); cbn [app length] in Hlen; lia|exact Hokx|apply (R_first_ok _ _ _ _ HR Hokr)|].
      apply (L_to_R _ _ _ _ HR (IH Hokr)); [lia|exact Hfol|cbn [app length] in Hlen; lia].
    - destruct Hok as [Hokx Hokr].
      exists (S (lx_size lx (cont rest))). split; [pose proof (tf_size TF rest); lia|].
      cbn [app]. rewrite gparse_S.
      pose proof (R_nonempty _ _ _ _ HR) as Hne.
      rewrite (tf_binassign TF (gparse fu) o x _ rhs (cont rest));
        [reflexivity|apply (tf_rec_good TF); cbn [app length] in Hlen; lia|exact Ho|exact Hokx|apply (R_first_ok _ _ _ _ HR Hokr)|].
      apply (L_to_R _ _ _ _ HR (IH Hokr)); [lia|exact Hfol|cbn [app length] in Hlen; lia].
  Qed.

  (** parse ∘ render = id, with any redundant parentheses, before any continuation that cannot
      extend the expression at the level of the call *)
  Theorem gparse_render : forall q e ts tq, R q e ts tq -> lex_ok okid oknum e ->
    forall m rest fuel, (m <= q)%nat -> follow_ok m rest -> (length (ts ++ rest) < fuel)%nat ->
    gparse fuel m (enc (ts ++ rest)) = PMatch e (cont rest).
  Proof. intros q e ts tq HR Hok. apply (L_to_R _ _ _ _ HR). apply render_L; assumption. Qed.
End Generic.

(** ** the token instance *)
Lemma lex_ok_true e : lex_ok (fun _ => True) (fun _ => True) e.
Proof.
  induction e using aexpr_ind'; cbn; auto.
Qed.

Lemma tok_facts : table_facts T tok_lexer (fun s => s) (fun s => s) (fun _ => True) (fun _ => True)
                                (fun _ => True) (fun _ => True).
Proof.
  constructor.
  - intros r. cbn. lia.
  - intros. apply pre_num.
  - intros; exact I.
  - intros; exact I.
  - intros rec x r _ _ [->|H]; apply pre_ref; [left; left; reflexivity|right; exact H].
  - intros. apply pre_preinc.
  - intros. apply pre_predec.
  - intros. apply pre_postinc.
  - intros. apply pre_postdec.
  - intros rec o s a s' _ _ H. apply pre_un. exact H.
  - intros rec x s rhs s' _ _ _ H. apply pre_assign. exact H.
  - intros rec o x s rhs s' _ Ho _ _ H. apply pre_binassign; assumption.
  - intros rec s e s' _ _ H. apply pre_paren. exact H.
  - intros rec m left o s b s' _ Hm _ H. apply post_bin; assumption.
  - intros rec m left s t s1 f s2 _ Hm _ _ Ht Hf. eapply post_cond; eassumption.
  - intros. apply post_stop. assumption.
Qed.

Theorem tparse_render : forall q e ts tq, R q e ts tq ->
  forall m rest fuel, (m <= q)%nat -> follow_ok m rest -> (length (ts ++ rest) < fuel)%nat ->
  tparse fuel m (ts ++ rest) = PMatch e rest.
Proof.
  intros q e ts tq HR. apply (gparse_render T tok_lexer (fun s => s) (fun s => s) _ _ _ _ tok_facts _ _ _ _ HR).
  apply lex_ok_true.
Qed.

(** the whole input: [full_expression] over tokens *)
Theorem tparse_full_render : forall e ts tq, R 0 e ts tq ->
  parse_full T tok_lexer arith_table false ts = PMatch e [].
Proof.
  intros e ts tq HR. unfold parse_full. cbn [lx_empty lx_ws lx_size tok_lexer].
  pose proof (R_nonempty _ _ _ _ HR) as Hn. destruct ts as [|t0 ts0] eqn:Ets; [cbn in Hn; lia|].
  rewrite <- Ets in *. fold tparse.
  pose proof (tparse_render _ _ _ _ HR 0%nat [] (S (length ts)) (le_n _) (or_introl eq_refl)) as H.
  rewrite app_nil_r in H. rewrite H by lia. reflexivity.
Qed.

(** the side condition of (L) is necessary: [1 + 2] followed by [* 3] is not parsed to [1 + 2] *)
Example follow_needed :
  tparse 10 0 [TNum 1; TOp (lit "+"); TNum 2; TOp (lit "*"); TNum 3]
  = PMatch (EBin Add (ELit 1) (EBin Mul (ELit 2) (ELit 3))) [].
Proof. reflexivity. Qed.

(** *** a total rendering function with minimal parentheses, and its correctness *)
Definition elevel (e : aexpr) : nat :=
  match e with
  | EBin o _ _ => blevel o
  | ECond _ _ _ => 2
  | EAssign _ _ _ | EBinAssign _ _ _ _ => 1
  | EUn _ _ => 15
  | _ => 19
  end.

Fixpoint render_at (q : nat) (e : aexpr) : T :=
  let body :=
    match e with
    | ELit z => [TNum z]
    | ERef x _ => [TId x]
    | EIncr PreInc x _ => [TOp (lit "++"); TId x]
    | EIncr PreDec x _ => [TOp (lit "--"); TId x]
    | EIncr PostInc x _ => [TId x; TOp (lit "++")]
    | EIncr PostDec x _ => [TId x; TOp (lit "--")]
    | EUn o a => TOp (untok o) :: render_at 15 a
    | EBin o a b =>
      if right_assoc o then render_at (S (blevel o)) a ++ TOp (bintok o) :: render_at (blevel o) b
      else render_at (blevel o) a ++ TOp (bintok o) :: render_at (S (blevel o)) b
    | ECond c t f => render_at 3 c ++ QM :: render_at 0 t ++ COL :: render_at 2 f
    | EAssign x _ rhs => TId x :: TOp (lit "=") :: render_at 1 rhs
    | EBinAssign o x _ rhs => TId x :: TOp (assigntok o) :: render_at 1 rhs
    end in
  if (q <=? elevel e)%nat then body else LP :: body ++ [RP].

(** well-formed trees: no array subscripts; compound assignment only for the ten operators that
    have one *)
Fixpoint wf (e : aexpr) : Prop :=
  match e with
  | ELit _ => True
  | ERef _ i => i = None
  | EUn _ a => wf a
  | EBin _ a b => wf a /\ wf b
  | ECond c t f => wf c /\ wf t /\ wf f
  | EAssign _ i a => i = None /\ wf a
  | EIncr _ _ i => i = None
  | EBinAssign o _ i a => i = None /\ has_assign o = true /\ wf a
  end.

Lemma render_at_R : forall e, wf e -> forall q, exists tq, R q e (render_at q e) tq.
Proof.
  induction e as [z|x i Hi|o a IHa|o a b IHa IHb|c t f IHc IHt IHf|x i rhs Hi IH|o x i Hi|o x i rhs Hi IH] using aexpr_ind';
    intros Hwf q; cbn [wf] in Hwf.
  - cbn. destruct (q <=? 19)%nat; eexists; [apply RLit|eapply (RParen q _ [TNum z]); apply RLit].
  - subst i. cbn. destruct (q <=? 19)%nat; eexists; [apply RRef|eapply (RParen q _ [TId x]); apply RRef].
  - destruct (IHa Hwf 15%nat) as (tqa & Ha).
    cbn [render_at elevel]. destruct (Nat.leb_spec q 15); eexists.
    + eapply RUn; [assumption|exact Ha].
    + eapply (RParen q _ (_ :: _)). eapply RUn; [lia|exact Ha].
  - destruct Hwf as [Hwa Hwb]. cbn [render_at elevel].
    destruct (right_assoc o) eqn:Eo.
    + destruct (IHa Hwa (S (blevel o))) as (tqa & Ha). destruct (IHb Hwb (blevel o)) as (tqb & Hb).
      destruct (Nat.leb_spec q (blevel o)); eexists.
      * eapply RBinR; eassumption.
      * eapply RParen. eapply (RBinR 0); try eassumption. lia.
    + destruct (IHa Hwa (blevel o)) as (tqa & Ha). destruct (IHb Hwb (S (blevel o))) as (tqb & Hb).
      destruct (Nat.leb_spec q (blevel o)); eexists.
      * eapply RBinL; eassumption.
      * eapply RParen. eapply (RBinL 0); try eassumption. lia.
  - destruct Hwf as (Hwc & Hwt & Hwf). cbn [render_at elevel].
    destruct (IHc Hwc 3%nat) as (tqc & Hc). destruct (IHt Hwt 0%nat) as (tqt & Ht).
    destruct (IHf Hwf 2%nat) as (tqf & Hf).
    destruct (Nat.leb_spec q 2); eexists.
    + eapply RCond; eassumption.
    + eapply RParen. eapply (RCond 0); try eassumption. lia.
  - destruct Hwf as (-> & Hwr). cbn [render_at elevel]. destruct (IH Hwr 1%nat) as (tqr & Hr).
    destruct (Nat.leb_spec q 1); eexists.
    + eapply RAssign; eassumption.
    + eapply (RParen q _ (_ :: _ :: _)). eapply (RAssign 0); try eassumption. lia.
  - subst i. destruct o; cbn; destruct (q <=? 19)%nat; eexists;
      first [apply RPreInc | apply RPreDec | apply RPostInc | apply RPostDec
            | eapply (RParen q _ [_; _]); first [apply RPreInc | apply RPreDec | apply RPostInc | apply RPostDec]].
  - destruct Hwf as (-> & Ho & Hwr). cbn [render_at elevel]. destruct (IH Hwr 1%nat) as (tqr & Hr).
    destruct (Nat.leb_spec q 1); eexists.
    + eapply RBinAssign; eassumption.
    + eapply (RParen q _ (_ :: _ :: _)). eapply (RBinAssign 0); try eassumption. lia.
Qed.

(** parse (render e) = e for every well-formed tree, minimal parentheses from bash's table *)
Theorem tparse_render_min : forall e, wf e ->
  parse_full T tok_lexer arith_table false (render_at 0 e) = PMatch e [].
Proof.
  intros e Hwf. destruct (render_at_R e Hwf 0%nat) as (tq & HR). eapply tparse_full_render. exact HR.
Qed.

(** ** the character-level statement
    Kept visible; proved above at token level ([tparse_render], [tparse_render_min]).  What is
    missing is the lexing lemma: on a one-blank rendering the character-level primitives
    ([skip_ws], [drop_prefix], [lvalue], [literal_number], the look-ahead guards) act like
    [tok_lexer] — in particular an operator literal that is a proper prefix of the next token
    (`<` of `<=`, `&` of `&&`, `+` of `++`, `=` of `==` …) matches but its right operand then
    fails because the remaining character starts no operand.  That step is exercised on every run
    by the correspondence (thousands of rendered trees through the real parser) and by
    [entry_c07_roundtrip] (the statement evaluated by the extracted model on the same trees). *)
Definition show_tok (t : tok) : str :=
  match t with TNum z => show_Z z | TId x => x | TOp s => s end.
Fixpoint show_toks (ts : T) : str :=
  match ts with
  | [] => []
  | [t] => show_tok t
  | t :: ts' => show_tok t ++ 32%N :: show_toks ts'
  end.

Definition ident_ok (x : str) : Prop := variable_name arith_lex x = Some (x, []).
Fixpoint wf_chars (e : aexpr) : Prop :=
  match e with
  | ELit z => 0 <= z < 9223372036854775808
  | ERef x i => i = None /\ ident_ok x
  | EUn _ a => wf_chars a
  | EBin _ a b => wf_chars a /\ wf_chars b
  | ECond c t f => wf_chars c /\ wf_chars t /\ wf_chars f
  | EAssign x i a => i = None /\ ident_ok x /\ wf_chars a
  | EIncr _ x i => i = None /\ ident_ok x
  | EBinAssign o x i a => i = None /\ ident_ok x /\ has_assign o = true /\ wf_chars a
  end.

Definition parse_render_stmt : Prop :=
  forall e ts tq, R 0 e ts tq -> wf_chars e ->
  parse_opt str (char_lexer arith_lex) arith_table (blank_zero arith_lex) (show_toks ts) = Some e.

(** executable instance of the statement for the minimal rendering (used by Entry.v) *)
Definition roundtrip_check (e : aexpr) : bool :=
  match parse_opt str (char_lexer arith_lex) arith_table (blank_zero arith_lex) (show_toks (render_at 0 e)) with
  | Some e' => str_eqb (show_ast e') (show_ast e)
  | None => false
  end.

(** one tree with every operator of the grammar: the character-level statement holds on it *)
Definition ex_all_ops : aexpr :=
  let v (c : N) := ERef [c] None in
  let n := ELit in
  EBin Comma
    (EAssign [97%N] None
      (ECond (EBin LOr (EBin LAnd (v 98%N) (EBin BOr (EBin BXor (EBin BAnd (EBin Eq (n 1) (EBin Ne (n 2) (n 3))) (v 99%N)) (n 4)) (n 5))) (EUn LNot (v 100%N)))
             (EBin Lt (EBin Gt (EBin Le (EBin Ge (EBin Shl (n 6) (EBin Shr (n 7) (n 1))) (n 8)) (n 9)) (n 10)) (EBin Add (EBin Sub (n 11) (EBin Mul (EBin Mod (EBin Div (n 12) (n 5)) (n 7)) (EBin Pow (EUn UMinus (n 2)) (EBin Pow (n 3) (n 2))))) (EUn BNot (EUn UPlus (EIncr PostInc [120%N] None)))))
             (EBin Sub (EIncr PreDec [121%N] None) (EUn UMinus (EIncr PostDec [122%N] None)))))
    (EBin Comma
      (EBinAssign Mul [120%N] None (EBinAssign Div [120%N] None (EBinAssign Mod [120%N] None (EBinAssign Add [120%N] None (EBinAssign Sub [120%N] None
        (EBinAssign Shl [120%N] None (EBinAssign Shr [120%N] None (EBinAssign BAnd [120%N] None (EBinAssign BOr [120%N] None (EBinAssign BXor [120%N] None
          (EBin Mul (EBin Add (n 1) (n 2)) (EIncr PreInc [119%N] None))))))))))))
      (EBin Sub (EBin Sub (n 3) (n 2)) (EBin Sub (n 1) (EUn UMinus (n 1))))).

Example parse_render_instance :
  wf ex_all_ops /\ roundtrip_check ex_all_ops = true /\
  parse_full T tok_lexer arith_table false (render_at 0 ex_all_ops) = PMatch ex_all_ops [].
Proof. split; [cbn; tauto|]. split; vm_compute; reflexivity. Qed.
