(** The four literal forms of brush-parser/src/arithmetic.rs [literal_number], in PEG order:
    [base#digits] (wrapping, [parse_shell_literal_number]), [0x…] ([i64::from_str_radix 16]),
    [0…] ([i64::from_str_radix 8]), decimal ([str::parse::<u64>] then [cast_signed]).
    The character classes, radix bounds and digit maps come from the regenerated table
    ([lexcfg], filled by gen/C07ArithTable.v). A failing semantic action ([{? … }] returning [Err])
    makes the PEG alternative fail, so the next alternative is tried. *)
From BV Require Import Base.Prelude Arith.Wrap64.

Definition cclass := list (N * N).            (* inclusive code-point ranges *)
Definition in_class (cls : cclass) (c : char) : bool :=
  existsb (fun r => (fst r <=? c)%N && (c <=? snd r)%N) cls.

(** digit map entry: characters [lo..hi] have values [off + (c - lo)] *)
Definition dmap := list (N * N * Z).
Fixpoint dmap_val (m : dmap) (c : char) : option Z :=
  match m with
  | [] => None
  | (lo, hi, off) :: m' =>
    if (lo <=? c)%N && (c <=? hi)%N then Some (off + (Z.of_N c - Z.of_N lo)) else dmap_val m' c
  end.

Record lexcfg := {
  ws_class : cclass;
  name_start : cclass;
  name_cont : cclass;
  radix_sep : char;              (* '#' *)
  radix_digits : cclass;         (* characters admitted after '#' *)
  hex_lead : char;               (* '0' *)
  hex_marker : cclass;           (* x X *)
  hex_digits : cclass;
  hex_radix : Z;
  oct_lead : char;               (* '0' *)
  oct_digits : cclass;           (* as written in the grammar: '0'..='8' *)
  oct_radix : Z;
  dec_first : cclass;
  dec_rest : cclass;
  radix_min : Z;
  radix_max : Z;
  radix_ci_max : Z;              (* bases up to this one are case-insensitive *)
  dmap_ci : dmap;
  dmap_cs : dmap;
  max_deref_depth : Z;
  (* which function each alternative calls: [true] = parse_shell_literal_number (wrapping),
     [false] = i64::from_str_radix / str::parse::<u64> (range-checked) *)
  hex_wrap : bool;
  oct_wrap : bool;
  dec_wrap : bool;
  blank_zero : bool;             (* full_expression = _ ![_] {0} / …  (false: ![_] {0} / …) *)
  subscript_ws : bool            (* lvalue = name "[" _ expression _ "]" (false: no blanks) *)
}.

Fixpoint take_while (cls : cclass) (s : str) : str * str :=
  match s with
  | c :: s' => if in_class cls c then let '(a, b) := take_while cls s' in (c :: a, b) else ([], s)
  | [] => ([], [])
  end.

(** Rust's [char::to_digit(radix)] for radix <= 36 *)
Definition to_digit (radix : Z) (c : char) : option Z :=
  let v := if (48 <=? c)%N && (c <=? 57)%N then Some (Z.of_N c - 48)
           else if (97 <=? c)%N && (c <=? 122)%N then Some (Z.of_N c - 97 + 10)
           else if (65 <=? c)%N && (c <=? 90)%N then Some (Z.of_N c - 65 + 10)
           else None in
  match v with Some d => if d <? radix then Some d else None | None => None end.

(** exact positional value; [None] on an invalid digit *)
Fixpoint radix_val (radix : Z) (acc : Z) (s : str) : option Z :=
  match s with
  | [] => Some acc
  | c :: s' => match to_digit radix c with
               | Some d => radix_val radix (acc * radix + d) s'
               | None => None
               end
  end.

(** [i64::from_str_radix] on a sign-less digit string: empty and overflow are errors.
    (The accumulated value only grows, so "overflow at some step" = "final value > MAX".) *)
Definition i64_from_str_radix (radix : Z) (s : str) : option Z :=
  match s with
  | [] => None
  | _ => match radix_val radix 0 s with
         | Some v => if v <? M63 then Some v else None
         | None => None
         end
  end.

(** [str::parse::<u64>] on a digit string, then [cast_signed] *)
Definition u64_parse_cast (s : str) : option Z :=
  match s with
  | [] => None
  | _ => match radix_val 10 0 s with
         | Some v => if v <? M64 then Some (wrap64 v) else None
         | None => None
         end
  end.

Section Lit.
  Variable cfg : lexcfg.

  (** [parse_shell_literal_number]; [radix] is the [u64] *)
  Fixpoint shell_digits (radix : Z) (acc : Z) (s : str) : option Z :=
    match s with
    | [] => Some acc
    | c :: s' =>
      match dmap_val (if radix <=? radix_ci_max cfg then dmap_ci cfg else dmap_cs cfg) c with
      | Some d => if d >=? radix then None
                  else shell_digits radix (wadd (wmul acc radix) d) s'
      | None => None
      end
    end.
  Definition parse_shell_literal_number (s : str) (radix : Z) : option Z :=
    if (radix_min cfg <=? radix) && (radix <=? radix_max cfg) then shell_digits radix 0 s else None.

  (** rule [decimal_literal] *)
  Definition decimal_literal (s : str) : option (Z * str) :=
    match s with
    | c :: s' =>
      if in_class (dec_first cfg) c then
        let '(ds, rest) := take_while (dec_rest cfg) s' in
        match (if dec_wrap cfg then parse_shell_literal_number (c :: ds) 10 else u64_parse_cast (c :: ds)) with
        | Some v => Some (v, rest)
        | None => None
        end
      else None
    | [] => None
    end.

  Definition lit_radix (s : str) : option (Z * str) :=
    match decimal_literal s with
    | Some (radix, c :: s1) =>
      if N.eqb c (radix_sep cfg) then
        match take_while (radix_digits cfg) s1 with
        | ([], _) => None
        | (ds, rest) =>
          match parse_shell_literal_number ds (as_u64 radix) with
          | Some v => Some (v, rest)
          | None => None
          end
        end
      else None
    | _ => None
    end.

  Definition lit_hex (s : str) : option (Z * str) :=
    match s with
    | c0 :: c1 :: s2 =>
      if N.eqb c0 (hex_lead cfg) && in_class (hex_marker cfg) c1 then
        let '(ds, rest) := take_while (hex_digits cfg) s2 in
        match (if hex_wrap cfg then parse_shell_literal_number ds (hex_radix cfg)
               else i64_from_str_radix (hex_radix cfg) ds) with
        | Some v => Some (v, rest)
        | None => None
        end
      else None
    | _ => None
    end.

  Definition lit_oct (s : str) : option (Z * str) :=
    match s with
    | c0 :: s1 =>
      if N.eqb c0 (oct_lead cfg) then
        let '(ds, rest) := take_while (oct_digits cfg) s1 in
        match (if oct_wrap cfg then parse_shell_literal_number (c0 :: ds) (oct_radix cfg)
               else i64_from_str_radix (oct_radix cfg) (c0 :: ds)) with
        | Some v => Some (v, rest)
        | None => None
        end
      else None
    | [] => None
    end.

  (** rule [literal_number]: ordered choice *)
  Definition literal_number (s : str) : option (Z * str) :=
    match lit_radix s with
    | Some r => Some r
    | None =>
      match lit_hex s with
      | Some r => Some r
      | None =>
        match lit_oct s with
        | Some r => Some r
        | None => decimal_literal s
        end
      end
    end.
End Lit.
