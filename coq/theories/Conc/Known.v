(** C11 — the class of the known finding, and progress for every pipeline outside it.

    [known_class C sgs]: some stage that is not the last one is executed inline and emits more
    than the pipe capacity. How much a stage emits is computed by [counts], the composition of
    the stages' stream functions (the same computation as `flow`/`known_inline` in props/c11.py).
    Outside the class no reachable unfinished state is stuck: an inline stage whose whole output
    fits into its pipe never blocks on writing, and everything to its left is already running. *)
From BV Require Import Base.Prelude Conc.Pipe Conc.Sched Conc.SchedProofs Conc.Deadlock.

Section Known.
Variable A : Type.
Variable C : nat.
Hypothesis HC : (1 <= C)%nat.

Notation state := (state A).
Notation stage := (stage A).
Notation Inv := (Inv A C).

(** what a stage may still forward when [avail] more input units can arrive *)
Definition pot (sg : stage) (avail : nat) : nat :=
  if semit sg then match stake sg with
                   | Some t => Nat.min t (avail - sdrop sg)
                   | None => (avail - sdrop sg)%nat
                   end
  else 0%nat.

Definition out_count (sg : stage) (inb : nat) : nat := (length (spend sg) + pot sg inb)%nat.

Fixpoint counts (inb : nat) (sgs : list stage) : list nat :=
  match sgs with
  | [] => []
  | sg :: r => let c := out_count sg inb in c :: counts c r
  end.

Definition known_class (sgs : list stage) : bool :=
  let cs := counts 0 sgs in
  existsb (fun i => match nth_error sgs i with
                    | Some sg => is_inline sg && (C <? nth i cs 0)%nat
                    | None => false
                    end) (seq 0 (pred (length sgs))).

Definition inb_of (cs : list nat) (i : nat) : nat :=
  match i with O => 0%nat | S j => nth j cs 0%nat end.

Lemma counts_nth sgs : forall b i sg, nth_error sgs i = Some sg ->
  nth i (counts b sgs) 0%nat =
  out_count sg (match i with O => b | S j => nth j (counts b sgs) 0%nat end).
Proof.
  induction sgs as [|x r IH]; intros b [|i] sg H; cbn in H; try discriminate.
  - inversion H; subst. reflexivity.
  - cbn [counts nth]. rewrite (IH (out_count x b) i sg H). destruct i; reflexivity.
Qed.

(** ---- the flow invariant: written + pending + still forwardable <= the stage's count ---- *)
Definition rd_sofar (s : state) (i : nat) : nat :=
  match i with
  | O => 0%nat
  | S j => match nth_error (pipes s) j with Some p => length (hr p) | None => 0%nat end
  end.
Definition written (s : state) (i : nat) : nat :=
  match nth_error (pipes s) i with Some p => length (hw p) | None => 0%nat end.

Definition J (cs : list nat) (s : state) : Prop :=
  forall i sg, nth_error (stages s) i = Some sg ->
    (written s i + length (spend sg) + pot sg (inb_of cs i - rd_sofar s i) <= nth i cs 0)%nat.

Lemma nth_error_repeat' {X} (x : X) n j : nth_error (repeat x n) j = if (j <? n)%nat then Some x else None.
Proof.
  revert j; induction n as [|n IH]; intros [|j]; cbn; try reflexivity. rewrite IH.
  reflexivity.
Qed.

Lemma J_init sgs : J (counts 0 sgs) (init sgs).
Proof.
  intros i sg H. unfold init in H. cbn [stages] in H. rewrite nth_error_map in H.
  destruct (nth_error sgs i) as [sg0|] eqn:H0; [|discriminate]. inversion H; subst sg; clear H.
  rewrite (counts_nth sgs 0 i sg0 H0).
  assert (Hw : written (init sgs) i = 0%nat).
  { unfold written, init. cbn [pipes]. rewrite nth_error_repeat'. destruct (i <? _)%nat; reflexivity. }
  assert (Hr : rd_sofar (init sgs) i = 0%nat).
  { unfold rd_sofar, init. destruct i as [|j]; [reflexivity|]. cbn [pipes]. rewrite nth_error_repeat'.
    destruct (j <? _)%nat; reflexivity. }
  rewrite Hw, Hr, Nat.sub_0_r. unfold out_count, inb_of, pot. cbn [set_st spend semit stake sdrop].
  destruct i; lia.
Qed.

(** the pipes after a stage has ended: same histories everywhere *)
Lemma exit_pipes_hist (s : state) i sg c k :
  match nth_error (pipes (exit_stage s i sg c)) k, nth_error (pipes s) k with
  | Some p', Some p => hw p' = hw p /\ hr p' = hr p
  | None, None => True
  | _, _ => False
  end.
Proof.
  unfold exit_stage. cbn [pipes].
  set (ps1 := match i with O => pipes s | S j => match nth_error (pipes s) j with
              | Some p => upd j (close_r p) (pipes s) | None => pipes s end end).
  assert (H1 : forall k0, match nth_error ps1 k0, nth_error (pipes s) k0 with
                | Some p', Some p => hw p' = hw p /\ hr p' = hr p
                | None, None => True | _, _ => False end).
  { intros k0. subst ps1. destruct i as [|j].
    - destruct (nth_error (pipes s) k0); auto.
    - destruct (nth_error (pipes s) j) as [pj|] eqn:Hj.
      + rewrite nth_error_upd. destruct (Nat.eqb_spec j k0) as [<-|Hne].
        * rewrite Hj. auto.
        * destruct (nth_error (pipes s) k0); auto.
      + destruct (nth_error (pipes s) k0); auto. }
  destruct (nth_error ps1 i) as [pi|] eqn:Hi.
  - rewrite nth_error_upd. destruct (Nat.eqb_spec i k) as [<-|Hne].
    + rewrite Hi. specialize (H1 i). rewrite Hi in H1.
      destruct (nth_error (pipes s) i); [exact H1|contradiction].
    + apply H1.
  - apply H1.
Qed.

Lemma exit_written s i sg c k : written (exit_stage s i sg c) k = written s k.
Proof.
  unfold written. pose proof (exit_pipes_hist s i sg c k) as H.
  destruct (nth_error (pipes (exit_stage s i sg c)) k), (nth_error (pipes s) k); try contradiction;
    [destruct H as [-> _]; reflexivity | reflexivity].
Qed.

Lemma exit_rd_sofar s i sg c k : rd_sofar (exit_stage s i sg c) k = rd_sofar s k.
Proof.
  unfold rd_sofar. destruct k as [|j]; [reflexivity|].
  pose proof (exit_pipes_hist s i sg c j) as H.
  destruct (nth_error (pipes (exit_stage s i sg c)) j), (nth_error (pipes s) j); try contradiction;
    [destruct H as [_ ->]; reflexivity | reflexivity].
Qed.

Lemma J_step cs s s' : Inv s -> J cs s -> shape A C s s' -> J cs s'.
Proof.
  intros HI HJ Hsh.
  destruct Hsh as [sg Hb Hn | sg c Hpcn Hb Hn Hd | i sg m Hn Hr Hl Hm1 Hm2
                  | i sg p p' rest k Hn Hr Hp Hw | j sg p p' got q d t pend Hn Hr Hsp Hp Hrd Hpend Hrel
                  | i sg c Hn Hr Hexit].
  - (* spawn *)
    intros i sg0 H. cbn [stages] in H. rewrite nth_error_upd in H.
    unfold written, rd_sofar. cbn [pipes].
    destruct (Nat.eqb_spec (pc s) i) as [<-|Hne].
    + rewrite Hn in H. inversion H; subst sg0. apply (HJ _ _ Hn).
    + apply (HJ _ _ H).
  - (* wait *)
    intros i sg0 H. apply (HJ _ _ H).
  - (* to the pipeline's stdout *)
    intros i0 sg0 H. unfold put_stage in H. cbn [stages] in H. rewrite nth_error_upd in H.
    unfold written, rd_sofar, put_stage. cbn [pipes].
    destruct (Nat.eqb_spec i i0) as [<-|Hne].
    + rewrite Hn in H. inversion H; subst sg0. specialize (HJ _ _ Hn).
      unfold written, rd_sofar in HJ. unfold pot in *. cbn [set_io spend semit stake sdrop].
      rewrite skipn_length. lia.
    + apply (HJ _ _ H).
  - (* write into pipe i *)
    destruct (inv_pipes _ _ _ HI i p Hp) as [Hok _].
    destruct (pwrite_ok A C k p (spend sg) p' rest Hok Hw) as [_ [_ [_ [m [Hm1 [_ [Hrest [Hm2 [_ [Hhw Hhr]]]]]]]]]].
    intros i0 sg0 H. unfold put_stage in H. cbn [stages] in H. rewrite nth_error_upd in H.
    assert (Hrs : rd_sofar (put_stage s i (set_io sg (sdrop sg) (stake sg) rest) (upd i p' (pipes s)) (out s)) i0
                  = rd_sofar s i0).
    { unfold rd_sofar, put_stage. cbn [pipes]. destruct i0 as [|j0]; [reflexivity|].
      rewrite nth_error_upd. destruct (Nat.eqb_spec i j0) as [<-|]; [|reflexivity]. rewrite Hp, Hhr. reflexivity. }
    rewrite Hrs.
    destruct (Nat.eqb_spec i i0) as [<-|Hne].
    + rewrite Hn in H. inversion H; subst sg0. specialize (HJ _ _ Hn).
      unfold written in *. unfold put_stage. cbn [pipes]. rewrite (nth_error_upd_eq _ _ _ _ Hp). rewrite Hp in HJ.
      unfold pot in *. cbn [set_io spend semit stake sdrop]. rewrite Hhw, app_length, firstn_length, Hrest, skipn_length.
      lia.
    + specialize (HJ _ _ H). unfold written in *. unfold put_stage. cbn [pipes].
      rewrite nth_error_upd_neq by exact Hne. exact HJ.
  - (* stage S j reads from pipe j *)
    destruct (inv_pipes _ _ _ HI j p Hp) as [Hok _].
    destruct (pread_ok A C q p p' got Hok Hrd) as [_ [_ [_ [Hg1 [Hgq [Hbuf [Hhr Hhw]]]]]]].
    destruct Hok as [Hhist _].
    (* the writer of pipe j obeys its count *)
    assert (Hjlt : (j < length (stages s))%nat).
    { assert (S j < length (stages s))%nat by (apply nth_error_Some; congruence). lia. }
    destruct (nth_error (stages s) j) as [sgw|] eqn:Hnw; [|apply nth_error_None in Hnw; lia].
    pose proof (HJ _ _ Hnw) as Hwj. unfold written in Hwj. rewrite Hp in Hwj.
    intros i0 sg0 H. unfold put_stage in H. cbn [stages] in H. rewrite nth_error_upd in H.
    assert (Hwr : written (put_stage s (S j) (set_io sg d t pend) (upd j p' (pipes s)) (out s)) i0 = written s i0).
    { unfold written, put_stage. cbn [pipes]. rewrite nth_error_upd.
      destruct (Nat.eqb_spec j i0) as [<-|]; [|reflexivity]. rewrite Hp, Hhw. reflexivity. }
    rewrite Hwr.
    destruct (Nat.eqb_spec (S j) i0) as [<-|Hne].
    + rewrite Hn in H. inversion H; subst sg0. specialize (HJ _ _ Hn).
      unfold rd_sofar in *. unfold put_stage. cbn [pipes]. rewrite (nth_error_upd_eq _ _ _ _ Hp). rewrite Hp in HJ.
      rewrite Hhr, app_length. cbn [inb_of] in *.
      assert (Hav : (length (hr p) + length got <= nth j cs 0)%nat).
      { assert (length (hw p) = length (hr p) + length (buf p))%nat by (rewrite Hhist, app_length; reflexivity).
        rewrite Hbuf, app_length in H0. lia. }
      rewrite Hsp in HJ. cbn [length] in HJ.
      unfold pot in *. cbn [set_io spend semit stake sdrop].
      destruct Hrel as [[Hd0 [Hq [-> [-> ->]]]] | [Hd0 [-> [-> [-> Hq]]]]].
      * cbn [length]. destruct (semit sg); [|lia]. destruct (stake sg); lia.
      * rewrite Hd0 in HJ. destruct (semit sg); [|cbn [length]; lia].
        destruct (stake sg) as [t0|]; [specialize (Hq t0 eq_refl)|]; lia.
    + specialize (HJ _ _ H). unfold rd_sofar in *. unfold put_stage. cbn [pipes].
      destruct i0 as [|j0]; [exact HJ|]. rewrite nth_error_upd_neq by congruence. exact HJ.
  - (* exit *)
    intros i0 sg0 H. rewrite exit_written, exit_rd_sofar. unfold exit_stage in H. cbn [stages] in H.
    rewrite nth_error_upd in H. destruct (Nat.eqb_spec i i0) as [<-|Hne].
    + rewrite Hn in H. inversion H; subst sg0. specialize (HJ _ _ Hn).
      unfold pot in *. cbn [spend semit stake sdrop length] in *. lia.
    + apply (HJ _ _ H).
Qed.

(** the stage the spawn loop is inside of is the one started last *)
Definition InlInv (s : state) : Prop :=
  forall i sg, nth_error (stages s) i = Some sg -> skind sg = Inline -> sst sg = Running -> S i = pc s.

Lemma inl_init sgs : InlInv (init sgs).
Proof.
  intros i sg H _ Hr. unfold init in H. cbn [stages] in H. rewrite nth_error_map in H.
  destruct (nth_error sgs i); [|discriminate]. inversion H; subst. discriminate.
Qed.

Lemma inl_step s s' : InlInv s -> shape A C s s' -> InlInv s'.
Proof.
  intros HI Hsh.
  destruct Hsh as [sg Hb Hn | sg c Hpcn Hb Hn Hd | i sg m Hn Hr Hl Hm1 Hm2
                  | i sg p p' rest k Hn Hr Hp Hw | j sg p p' got q d t pend Hn Hr Hsp Hp Hrd Hpend Hrel
                  | i sg c Hn Hr Hexit]; intros i0 sg0 H Hk Hrun;
    unfold put_stage, exit_stage in *; cbn [stages pc] in *.
  - rewrite nth_error_upd in H. destruct (Nat.eqb_spec (pc s) i0) as [<-|Hne]; [reflexivity|].
    exfalso. unfold inline_busy in Hb.
    assert (Hex : existsb (fun sg => is_inline sg && is_running sg) (stages s) = true).
    { apply existsb_exists. exists sg0. split; [eapply nth_error_In; eauto|].
      unfold is_inline, is_running. rewrite Hk, Hrun. reflexivity. }
    congruence.
  - apply (HI _ _ H Hk Hrun).
  - rewrite nth_error_upd in H. destruct (Nat.eqb_spec i i0) as [<-|Hne]; [|apply (HI _ _ H Hk Hrun)].
    rewrite Hn in H. inversion H; subst sg0. apply (HI _ _ Hn); [exact Hk|exact Hr].
  - rewrite nth_error_upd in H. destruct (Nat.eqb_spec i i0) as [<-|Hne]; [|apply (HI _ _ H Hk Hrun)].
    rewrite Hn in H. inversion H; subst sg0. apply (HI _ _ Hn); [exact Hk|exact Hr].
  - rewrite nth_error_upd in H. destruct (Nat.eqb_spec (S j) i0) as [<-|Hne]; [|apply (HI _ _ H Hk Hrun)].
    rewrite Hn in H. inversion H; subst sg0. apply (HI _ _ Hn); [exact Hk|exact Hr].
  - rewrite nth_error_upd in H. destruct (Nat.eqb_spec i i0) as [<-|Hne]; [|apply (HI _ _ H Hk Hrun)].
    rewrite Hn in H. inversion H; subst sg0. discriminate.
Qed.

Lemma reach_J_inl sgs s : reach C (init sgs) s -> J (counts 0 sgs) s /\ InlInv s.
Proof.
  induction 1 as [|s l s' Hr [IHJ IHI] Hn]; [split; [apply J_init|apply inl_init]|].
  pose proof (next_shape A C s l s' Hn) as Hsh. split.
  - eapply J_step; eauto. eapply reach_inv; eauto.
  - eapply inl_step; eauto.
Qed.

(** *** progress outside the known class: if every stage that is executed inline and is not the
    last one emits at most the pipe capacity, no reachable unfinished state is stuck. *)
Theorem progress_outside_known sgs s :
  known_class sgs = false -> reach C (init sgs) s -> ~ final s -> exists s', step C s s'.
Proof.
  intros Hk Hr Hnf.
  pose proof (reach_inv A C sgs s Hr) as HI.
  destruct (reach_J_inl sgs s Hr) as [HJ HIn].
  pose proof (kinds_reach A C sgs s Hr) as Hkinds.
  pose proof (inv_pc _ _ _ HI) as Hpc.
  assert (Hlen : length (stages s) = length sgs).
  { unfold kinds in Hkinds. rewrite <- (map_length (@skind A) (stages s)), Hkinds, map_length. reflexivity. }
  destruct (Nat.eq_dec (pc s) (length (stages s))) as [Hpcn|Hpcn];
    [apply (progress_all_started A C HC); assumption|].
  destruct (inline_busy s) eqn:Hbusy.
  - (* the spawn loop is inside an inline stage: that stage can move, or someone to its left can *)
    unfold inline_busy in Hbusy. apply existsb_nth in Hbusy. destruct Hbusy as [i [sg [Hn Hf]]].
    apply andb_true_iff in Hf. destruct Hf as [Hin Hrun].
    unfold is_inline in Hin. destruct (skind sg) eqn:Hkd; [discriminate|].
    unfold is_running in Hrun. destruct (sst sg) eqn:Hst; try discriminate.
    pose proof (HIn i sg Hn Hkd Hst) as Hipc.
    assert (Hen : exists i' s', next C s (LStage i' 1) = Some s').
    { destruct (step_or_blocked A C HC s i sg HI Hn Hst) as [[s' H]|[Hw|Hb]]; [eauto| |].
      - (* blocked on a full output pipe: impossible, the whole output fits *)
        exfalso. destruct Hw as [sg' [p [Hn' [Hsp [Hp [Hfull _]]]]]].
        rewrite Hn in Hn'. inversion Hn'; subst sg'.
        pose proof (HJ i sg Hn) as Hj. unfold written in Hj. rewrite Hp in Hj.
        destruct (inv_pipes _ _ _ HI i p Hp) as [[Hhist _] _].
        assert (Hhw : (length (buf p) <= length (hw p))%nat) by (rewrite Hhist, app_length; lia).
        assert (Hsp1 : (1 <= length (spend sg))%nat) by (destruct (spend sg); [contradiction|cbn; lia]).
        (* the count of stage i is at most C *)
        assert (Hcnt : (nth i (counts 0 sgs) 0 <= C)%nat).
        { unfold known_class in Hk.
          destruct (nth_error sgs i) as [sg0|] eqn:H0; [|apply nth_error_None in H0; lia].
          assert (Hin0 : In i (seq 0 (pred (length sgs)))) by (apply in_seq; lia).
          destruct (C <? nth i (counts 0 sgs) 0)%nat eqn:Hlt; [|apply Nat.ltb_ge in Hlt; exact Hlt].
          exfalso. assert (Hk0 : skind sg0 = Inline).
          { assert (Hm : nth_error (map (@skind A) sgs) i = Some (skind sg0)) by (rewrite nth_error_map, H0; reflexivity).
            rewrite <- Hkinds in Hm. unfold kinds in Hm. rewrite nth_error_map, Hn in Hm. cbn in Hm. congruence. }
          assert (Htrue : existsb (fun i0 => match nth_error sgs i0 with
                     | Some sg1 => is_inline sg1 && (C <? nth i0 (counts 0 sgs) 0)%nat | None => false end)
                     (seq 0 (pred (length sgs))) = true).
          { apply existsb_exists. exists i. split; [exact Hin0|]. rewrite H0. unfold is_inline. rewrite Hk0, Hlt. reflexivity. }
          congruence. }
        lia.
      - apply (chain_left A C HC s HI i sg); auto; [lia|].
        intros [sg4 [p4 [Hn4 [Hs4 _]]]]. destruct Hb as [sg3 [j [p3 [_ [Hn3 [Hs3 _]]]]]]. congruence. }
    destruct Hen as [i' [s' H]]. exists s', (LStage i' 1). exact H.
  - destruct (nth_error (stages s) (pc s)) as [sg|] eqn:Hn.
    + eexists. exists LSpawn. cbn [Sched.next]. rewrite Hbusy, Hn. reflexivity.
    + apply nth_error_None in Hn. lia.
Qed.

End Known.

(** the witness of the refutation is inside the class; the non-vacuity example is outside *)
Lemma known_examples :
  known_class nat 1 dl_cfg = true /\ known_class nat 2 ex_cfg = false /\
  known_class nat 4 [ mkStage Spawned NotStarted 0 (Some 0%nat) true [0;1;2;3;4;5;6;7]%nat;
                      mkStage Inline NotStarted 0 (Some 3%nat) true [];
                      mkStage Spawned NotStarted 0 None true [] ] = false.
Proof. repeat split; reflexivity. Qed.

(** ---- the "stuck" verdict of the entry's schedulers is a genuine deadlock ---- *)
Section StuckSound.
Variable A : Type.
Variable C : nat.

Lemma pwrite_block_any k k' (p : pipe A) d :
  k <> 0%nat -> pwrite C k p d = WBlock -> pwrite C k' p d = WBlock.
Proof.
  intros Hk H. apply pwrite_block in H. destruct H as [Hrd [?|[->|Hfull]]]; [contradiction| |];
    unfold pwrite; destruct (rd p =? 0)%nat eqn:E; try (apply Nat.eqb_eq in E; contradiction).
  - cbn. rewrite Nat.min_0_r, Nat.min_0_r. reflexivity.
  - unfold space. replace (C - length (buf p))%nat with 0%nat by lia. cbn. rewrite Nat.min_0_r. reflexivity.
Qed.

Lemma pread_block_any k k' (p : pipe A) :
  k <> 0%nat -> pread k p = RBlock -> pread k' p = RBlock.
Proof.
  intros Hk H. apply pread_block in H. destruct H as [?|[Hb Hw]]; [contradiction|].
  unfold pread. rewrite Hb. apply Nat.eqb_neq in Hw. rewrite Hw. reflexivity.
Qed.

Lemma blocked_any_quantum (s : state A) i q k :
  q <> 0%nat -> next C s (LStage i q) = None -> next C s (LStage i k) = None.
Proof.
  intros Hq. cbn [Sched.next]. destruct (k =? 0)%nat eqn:Hk0; [reflexivity|].
  apply Nat.eqb_neq in Hq. rewrite Hq. apply Nat.eqb_neq in Hq. apply Nat.eqb_neq in Hk0.
  destruct (nth_error (stages s) i) as [sg|]; [|reflexivity].
  destruct (sst sg); try reflexivity. unfold stage_step.
  destruct (spend sg) as [|a pend].
  - destruct (if (0 <? sdrop sg)%nat then Some (sdrop sg) else stake sg) as [[|lim]|]; try discriminate.
    + destruct i as [|j]; [discriminate|].
      destruct (nth_error (pipes s) j) as [p|]; [|reflexivity].
      destruct (pread (Nat.min q (S lim)) p) eqn:E; try discriminate. intros _.
      rewrite (pread_block_any (Nat.min q (S lim)) (Nat.min k (S lim)) p); [reflexivity|lia|exact E].
    + destruct i as [|j]; [discriminate|].
      destruct (nth_error (pipes s) j) as [p|]; [|reflexivity].
      destruct (pread q p) eqn:E; try discriminate. intros _.
      rewrite (pread_block_any q k p); [reflexivity|exact Hq|exact E].
  - destruct (S i =? length (stages s))%nat; [discriminate|].
    destruct (nth_error (pipes s) i) as [p|]; [|reflexivity].
    destruct (pwrite C q p (a :: pend)) eqn:E; try discriminate. intros _.
    rewrite (pwrite_block_any q k p (a :: pend)); [reflexivity|exact Hq|exact E].
Qed.

Lemma first_enabled_none (s : state A) ls :
  first_enabled C s ls = None -> forall l, In l ls -> next C s l = None.
Proof.
  induction ls as [|l0 ls IH]; intros H l Hin; [destruct Hin|]. cbn in H.
  destruct (next C s l0) eqn:E; [discriminate|]. destruct Hin as [<-|Hin]; [exact E|apply IH; assumption].
Qed.

Theorem run_sched_stuck q down fuel : q <> 0%nat -> forall (s s' : state A),
  run_sched C q down fuel s = OStuck s' -> stuck C s'.
Proof.
  intros Hq. induction fuel as [|f IH]; intros s s' H; cbn [run_sched] in H.
  - destruct (finalb s); discriminate.
  - destruct (finalb s); [discriminate|].
    destruct (first_enabled C s (prio q down s)) as [s1|] eqn:E; [eapply IH; eauto|].
    inversion H; subst s'; clear H.
    pose proof (first_enabled_none s _ E) as Hnone.
    intros [|i k|].
    + apply Hnone. left. reflexivity.
    + destruct (Nat.lt_ge_cases i (length (stages s))) as [Hlt|Hge].
      * apply (blocked_any_quantum s i q k Hq). apply Hnone. unfold prio. right. apply in_or_app. left.
        assert (Hin : In (LStage i q) (map (fun i0 => LStage i0 q) (seq 0 (length (stages s))))).
        { apply in_map_iff. exists i. split; [reflexivity|]. apply in_seq. lia. }
        destruct down; [apply in_rev in Hin|]; exact Hin.
      * cbn [Sched.next]. destruct (k =? 0)%nat; [reflexivity|].
        apply nth_error_None in Hge. rewrite Hge. reflexivity.
    + apply Hnone. unfold prio. right. apply in_or_app. right. left. reflexivity.
Qed.
End StuckSound.
