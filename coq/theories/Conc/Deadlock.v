(** C11 — liveness of the pipeline algorithm: progress and termination on every schedule when
    only the last stage may be run inline; EPIPE instead of blocking after an early exit; and
    the refutation for an inline stage in the middle (brush today). *)
From BV Require Import Base.Prelude Conc.Pipe Conc.Sched Conc.SchedProofs.

Section Live.
Variable A : Type.
Variable C : nat.
Hypothesis HC : (1 <= C)%nat.

Notation state := (state A).
Notation stage := (stage A).
Notation next := (next C).
Notation Inv := (Inv A C).

Definition wblocked (s : state) (i : nat) : Prop :=
  exists sg p, nth_error (stages s) i = Some sg /\ spend sg <> [] /\
               nth_error (pipes s) i = Some p /\ (C <= length (buf p))%nat /\ rd p <> 0%nat.
Definition rblocked (s : state) (i : nat) : Prop :=
  exists sg j p, i = S j /\ nth_error (stages s) i = Some sg /\ spend sg = [] /\
                 nth_error (pipes s) j = Some p /\ buf p = [] /\ wr p <> 0%nat.

Lemma pipe_exists (s : state) j : Inv s -> (S j < length (stages s))%nat ->
  exists p, nth_error (pipes s) j = Some p.
Proof.
  clear HC. intros HI Hlt. destruct (nth_error (pipes s) j) as [p|] eqn:E; [eauto|].
  apply nth_error_None in E. rewrite (inv_len _ _ _ HI) in E. lia.
Qed.

(** a running stage either can take a step or is blocked on a full / an empty pipe *)
Lemma step_or_blocked s i sg : Inv s -> nth_error (stages s) i = Some sg -> sst sg = Running ->
  (exists s', next s (LStage i 1) = Some s') \/ wblocked s i \/ rblocked s i.
Proof.
  intros HI Hn Hr.
  assert (Hlt : (i < length (stages s))%nat) by (apply nth_error_Some; congruence).
  cbn [Sched.next Nat.eqb]. rewrite Hn, Hr. unfold stage_step.
  destruct (spend sg) as [|a pend] eqn:Hp.
  - set (req := if (0 <? sdrop sg)%nat then Some (sdrop sg) else stake sg).
    assert (Hrd : forall j q, i = S j -> q <> 0%nat ->
      (exists s', match nth_error (pipes s) j with
         | Some p => match pread q p with
            | ROk p' got => Some (put_stage s i
                (if (0 <? sdrop sg)%nat then set_io sg (sdrop sg - length got)%nat (stake sg) []
                 else set_io sg 0%nat (match stake sg with Some t => Some (t - length got)%nat | None => None end)
                                 (if semit sg then got else [])) (upd j p' (pipes s)) (out s))
            | REof => Some (exit_stage s i sg 0%nat)
            | RBlock => None end
         | None => None end = Some s') \/ rblocked s i).
    { intros j q -> Hq. destruct (pipe_exists s j HI Hlt) as [p Hpj]. rewrite Hpj.
      destruct (pread q p) as [p' got| |] eqn:Hrd; [left; eauto | left; eauto |].
      right. apply pread_block in Hrd. destruct Hrd as [?|[Hb Hw]]; [contradiction|].
      exists sg, j, p. repeat split; auto. }
    destruct req as [[|lim]|] eqn:Hreq.
    + left. eauto.
    + destruct i as [|j]; [left; eauto|].
      destruct (Hrd j (Nat.min 1 (S lim)) eq_refl) as [H|H]; [cbn; lia| left; exact H | right; right; exact H].
    + destruct i as [|j]; [left; eauto|].
      destruct (Hrd j 1%nat eq_refl) as [H|H]; [lia| left; exact H | right; right; exact H].
  - destruct (S i =? length (stages s))%nat eqn:Hl; [left; eauto|].
    apply Nat.eqb_neq in Hl.
    destruct (pipe_exists s i HI) as [p Hpi]; [lia|]. rewrite Hpi.
    destruct (pwrite C 1 p (a :: pend)) as [p' rest| |] eqn:Hw; [left; eauto | left; eauto |].
    right. left. apply pwrite_block in Hw. destruct Hw as [Hrd [?|[?|Hfull]]]; try discriminate.
    exists sg, p. rewrite Hp. repeat split; auto. discriminate.
Qed.

Lemma running_of (s : state) i : Inv s -> (i < pc s)%nat -> done_at A s i = false ->
  exists sg, nth_error (stages s) i = Some sg /\ sst sg = Running.
Proof.
  intros HI Hlt Hd. pose proof (inv_pc _ _ _ HI) as Hpc.
  destruct (nth_error (stages s) i) as [sg|] eqn:Hn.
  - exists sg. split; [reflexivity|]. unfold done_at in Hd. rewrite Hn in Hd.
    destruct (sst sg) eqn:Hst; [|reflexivity|unfold is_done in Hd; rewrite Hst in Hd; discriminate].
    apply (inv_started _ _ _ HI _ _ Hn) in Hst. lia.
  - apply nth_error_None in Hn. lia.
Qed.

(** blocked on a full pipe: look right, where the reader must be runnable or blocked further right *)
Lemma chain_right s : Inv s -> pc s = length (stages s) ->
  forall d i sg, (i + d = length (stages s) - 1)%nat -> nth_error (stages s) i = Some sg ->
    sst sg = Running -> ~ rblocked s i -> exists i' s', next s (LStage i' 1) = Some s'.
Proof.
  intros HI Hpc. induction d as [|d IH]; intros i sg Hd Hn Hr Hnr;
    (destruct (step_or_blocked s i sg HI Hn Hr) as [[s' H]|[Hw|Hb]]; [eauto | | contradiction]);
    destruct Hw as [sg' [p [Hn' [Hsp [Hpi [Hfull Hrd]]]]]];
    assert (Hil : (i < length (pipes s))%nat) by (apply nth_error_Some; congruence);
    rewrite (inv_len _ _ _ HI) in Hil; [lia|].
  destruct (inv_pipes _ _ _ HI i p Hpi) as [_ [_ Hrd']].
  destruct (done_at A s (S i)) eqn:Hdn; [congruence|].
  destruct (running_of s (S i) HI) as [sg2 [Hn2 Hr2]]; [lia|exact Hdn|].
  apply (IH (S i) sg2); [lia|exact Hn2|exact Hr2|].
  intros [sg3 [j [p3 [Hj [_ [_ [Hp3 [Hb3 _]]]]]]]]. inversion Hj; subst j.
  rewrite Hpi in Hp3. inversion Hp3; subst p3. rewrite Hb3 in Hfull. cbn in Hfull. lia.
Qed.

(** blocked on an empty pipe: look left *)
Lemma chain_left s : Inv s ->
  forall i sg, (i < pc s)%nat -> nth_error (stages s) i = Some sg -> sst sg = Running -> ~ wblocked s i ->
    exists i' s', next s (LStage i' 1) = Some s'.
Proof.
  intros HI. induction i as [|i IH]; intros sg Hipc Hn Hr Hnw;
    (destruct (step_or_blocked s _ sg HI Hn Hr) as [[s' H]|[Hw|Hb]]; [eauto | contradiction | ]);
    destruct Hb as [sg' [j [p [Hj [Hn' [Hsp [Hpj [Hemp Hwr]]]]]]]]; [discriminate|].
  inversion Hj; subst j.
  assert (Hlt : (S i < length (stages s))%nat) by (apply nth_error_Some; congruence).
  destruct (inv_pipes _ _ _ HI i p Hpj) as [_ [Hwr' _]].
  destruct (done_at A s i) eqn:Hdn; [congruence|].
  destruct (running_of s i HI) as [sg2 [Hn2 Hr2]]; [lia|exact Hdn|].
  apply (IH sg2); [lia|exact Hn2|exact Hr2|].
  intros [sg3 [p3 [_ [_ [Hp3 [Hfull _]]]]]].
  rewrite Hpj in Hp3. inversion Hp3; subst p3. rewrite Hemp in Hfull. cbn in Hfull. lia.
Qed.

(** brush starts every stage before waiting on any iff no stage but the last is run inline *)
Definition inline_only_last (ks : list kind) : Prop :=
  forall i, nth_error ks i = Some Inline -> S i = length ks.

Lemma existsb_nth {X} (f : X -> bool) (l : list X) :
  existsb f l = true -> exists i x, nth_error l i = Some x /\ f x = true.
Proof.
  intros H. apply existsb_exists in H. destruct H as [x [Hin Hf]].
  apply In_nth_error in Hin. destruct Hin as [i Hi]. eauto.
Qed.

(** once the spawn loop is through, something can always move until the waiter is done *)
Lemma progress_all_started s : Inv s -> pc s = length (stages s) -> ~ final s ->
  exists s', step C s s'.
Proof.
  intros HI Hpcn Hnf. unfold final in Hnf.
  pose proof (inv_pc _ _ _ HI) as Hpc. pose proof (inv_wt _ _ _ HI) as Hwt.
  destruct (existsb (fun sg : stage => is_running sg) (stages s)) eqn:Hrun.
  - apply existsb_nth in Hrun. destruct Hrun as [i [sg [Hn Hr]]].
    unfold is_running in Hr. destruct (sst sg) eqn:Hst; try discriminate.
    assert (Hlt : (i < length (stages s))%nat) by (apply nth_error_Some; congruence).
    assert (Hen : exists i' s', next s (LStage i' 1) = Some s').
    { destruct (step_or_blocked s i sg HI Hn Hst) as [[s' H]|[Hw|Hb]]; [eauto| |].
      - apply (chain_right s HI Hpcn (length (stages s) - 1 - i) i sg); auto; [lia|].
        intros [sg3 [j [p3 [_ [Hn3 [Hs3 _]]]]]]. destruct Hw as [sg4 [p4 [Hn4 [Hs4 _]]]]. congruence.
      - apply (chain_left s HI i sg); auto; [lia|].
        intros [sg4 [p4 [Hn4 [Hs4 _]]]]. destruct Hb as [sg3 [j [p3 [_ [Hn3 [Hs3 _]]]]]]. congruence. }
    destruct Hen as [i' [s' H]]. exists s', (LStage i' 1). exact H.
  - (* nothing runs: the waiter collects the next status *)
    assert (Hall : forall i sg, nth_error (stages s) i = Some sg -> exists c, sst sg = Done c).
    { intros i sg Hn.
      assert (Hlt : (i < length (stages s))%nat) by (apply nth_error_Some; congruence).
      destruct (sst sg) eqn:Hst; [| |eauto].
      - apply (inv_started _ _ _ HI _ _ Hn) in Hst. lia.
      - exfalso. assert (Hin : In sg (stages s)) by (eapply nth_error_In; eauto).
        assert (Hex : existsb (fun sg : stage => is_running sg) (stages s) = true).
        { apply existsb_exists. exists sg. split; [exact Hin|]. unfold is_running. rewrite Hst. reflexivity. }
        congruence. }
    assert (Hbusy : inline_busy s = false).
    { unfold inline_busy. destruct (existsb (fun sg : stage => is_inline sg && is_running sg) (stages s)) eqn:E; [|reflexivity].
      apply existsb_nth in E. destruct E as [i [sg [Hn Hf]]]. apply andb_true_iff in Hf.
      destruct Hf as [_ Hf]. destruct (Hall i sg Hn) as [c Hc]. unfold is_running in Hf.
      rewrite Hc in Hf. discriminate. }
    destruct (nth_error (stages s) (wt s)) as [sg|] eqn:Hn.
    + destruct (Hall _ _ Hn) as [c Hc]. eexists. exists LWait. cbn [Sched.next].
      rewrite Hpcn, Nat.eqb_refl, Hbusy, Hn, Hc. cbn. reflexivity.
    + apply nth_error_None in Hn. lia.
Qed.

Lemma progress_inv s : Inv s -> inline_only_last (kinds A s) -> ~ final s ->
  exists s', step C s s'.
Proof.
  intros HI Hk Hnf.
  pose proof (inv_pc _ _ _ HI) as Hpc.
  assert (Hkl : length (kinds A s) = length (stages s)) by (unfold kinds; apply map_length).
  destruct (Nat.eq_dec (pc s) (length (stages s))) as [Hpcn|Hpcn].
  - apply progress_all_started; assumption.
  - (* the spawn loop is not finished and is not inside an inline stage *)
    assert (Hbusy : inline_busy s = false).
    { unfold inline_busy. destruct (existsb (fun sg : stage => is_inline sg && is_running sg) (stages s)) eqn:E; [|reflexivity].
      apply existsb_nth in E. destruct E as [i [sg [Hn Hf]]]. apply andb_true_iff in Hf.
      destruct Hf as [Hin Hf]. exfalso.
      assert (Hki : nth_error (kinds A s) i = Some Inline).
      { unfold kinds. rewrite nth_error_map, Hn. cbn. unfold is_inline in Hin.
        destruct (skind sg); [discriminate|reflexivity]. }
      apply Hk in Hki. unfold is_running in Hf. destruct (sst sg) eqn:Hst; try discriminate.
      assert (Hns : ~ (pc s <= i)%nat).
      { intros Hle. apply (inv_started _ _ _ HI _ _ Hn) in Hle. congruence. }
      lia. }
    destruct (nth_error (stages s) (pc s)) as [sg|] eqn:Hn.
    + eexists. exists LSpawn. cbn [Sched.next]. rewrite Hbusy, Hn. reflexivity.
    + apply nth_error_None in Hn. lia.
Qed.

(** *** progress: with every non-final stage spawned (the last one may run inline), no
    reachable state short of completion is stuck — for every payload and every capacity >= 1 *)
Theorem progress_all_spawned sgs s :
  inline_only_last (map (@skind A) sgs) -> reach C (init sgs) s -> ~ final s ->
  exists s', step C s s'.
Proof.
  intros Hk Hr Hnf. apply progress_inv; auto.
  - eapply reach_inv; eauto.
  - rewrite (kinds_reach A C sgs s Hr). exact Hk.
Qed.

(** brush now (repaired [execute_in_pipeline] / [execute_via_function]): every stage of a pipeline
    that owns its shell is started before any is awaited — every kind is [Spawned]; with lastpipe
    the last stage alone runs in the parent shell ([Inline]). Both satisfy [inline_only_last]. *)
Definition all_spawned (sgs : list stage) : Prop := Forall (fun sg => skind sg = Spawned) sgs.

Lemma all_spawned_only_last sgs : all_spawned sgs -> inline_only_last (map (@skind A) sgs).
Proof.
  intros Hall i Hi. exfalso. rewrite nth_error_map in Hi.
  destruct (nth_error sgs i) as [sg|] eqn:E; [|discriminate]. cbn in Hi. inversion Hi as [Hk].
  unfold all_spawned in Hall. rewrite Forall_forall in Hall.
  assert (Hs : skind sg = Spawned) by (apply Hall; eapply nth_error_In; eauto). congruence.
Qed.

Theorem progress_repaired sgs s :
  all_spawned sgs -> reach C (init sgs) s -> ~ final s -> exists s', step C s s'.
Proof. intros Hall. apply progress_all_spawned. apply all_spawned_only_last. exact Hall. Qed.

(** ---- termination measure ---- *)
Definition sweight (sg : stage) (r : nat) : nat :=
  ((if is_done sg then 0 else 1) + (2 * r + 2) * length (spend sg))%nat.
Definition pweight (p : pipe A) (r : nat) : nat := ((2 * r + 3) * length (buf p))%nat.
Definition mu (s : state) : nat :=
  ((length (stages s) - pc s) + (length (stages s) - wt s) +
   wsum sweight (stages s) + wsum pweight (pipes s))%nat.

Lemma wsum_upd_same {X} (f : X -> nat -> nat) (l : list X) i x y :
  nth_error l i = Some x -> (forall r, f y r = f x r) -> wsum f (upd i y l) = wsum f l.
Proof. clear HC. intros H E. pose proof (wsum_upd f l i x y H) as W. rewrite E in W. lia. Qed.

Lemma wsum_exit_pipes s i sg c :
  wsum pweight (pipes (exit_stage s i sg c)) = wsum pweight (pipes s).
Proof.
  clear HC. unfold exit_stage. cbn [pipes].
  set (ps1 := match i with O => pipes s | S j => match nth_error (pipes s) j with
              | Some p => upd j (close_r p) (pipes s) | None => pipes s end end).
  assert (H1 : wsum pweight ps1 = wsum pweight (pipes s)).
  { subst ps1. destruct i as [|j]; [reflexivity|].
    destruct (nth_error (pipes s) j) as [p|] eqn:E; [|reflexivity].
    eapply wsum_upd_same; eauto. }
  destruct (nth_error ps1 i) as [p|] eqn:E; [|exact H1].
  rewrite <- H1. eapply wsum_upd_same; eauto.
Qed.

Lemma mu_decreases s s' : Inv s -> shape A C s s' -> (mu s' < mu s)%nat.
Proof.
  clear HC. intros HI Hsh. pose proof (inv_len _ _ _ HI) as Hlen.
  destruct Hsh as [sg Hb Hn | sg c Hpcn Hb Hn Hd | i sg m Hn Hr Hl Hm1 Hm2
                  | i sg p p' rest k Hn Hr Hp Hw | j sg p p' got q d t pend Hn Hr Hsp Hp Hrd Hpend Hrel
                  | i sg c Hn Hr Hexit]; unfold mu.
  - assert (Hlt : (pc s < length (stages s))%nat) by (apply nth_error_Some; congruence).
    cbn [stages pipes pc wt]. rewrite upd_length.
    assert (Hns : sst sg = NotStarted) by (apply (inv_started _ _ _ HI _ _ Hn); lia).
    rewrite (wsum_upd_same sweight (stages s) (pc s) sg); [lia|exact Hn|].
    intros r. unfold sweight, is_done. cbn. rewrite Hns. reflexivity.
  - assert (Hlt : (wt s < length (stages s))%nat) by (apply nth_error_Some; congruence).
    cbn [stages pipes pc wt]. lia.
  - unfold put_stage. cbn [stages pipes pc wt]. rewrite upd_length.
    pose proof (wsum_upd sweight (stages s) i sg
                  (set_io sg (sdrop sg) (stake sg) (skipn m (spend sg))) Hn) as W.
    unfold sweight at 2 4 in W. unfold is_done in W. cbn [sst set_io spend] in W. rewrite Hr in W.
    rewrite skipn_length in W. rewrite <- Hl in W. rewrite Nat.sub_diag in W. nia.
  - unfold put_stage. cbn [stages pipes pc wt]. rewrite !upd_length.
    destruct (inv_pipes _ _ _ HI i p Hp) as [Hok _].
    destruct (pwrite_ok A C k p (spend sg) p' rest Hok Hw) as [_ [_ [_ [m [Hm1 [_ [Hrest [Hm2 [Hbuf _]]]]]]]]].
    assert (Hil : (i < length (pipes s))%nat) by (apply nth_error_Some; congruence).
    pose proof (wsum_upd sweight (stages s) i sg (set_io sg (sdrop sg) (stake sg) rest) Hn) as W.
    pose proof (wsum_upd pweight (pipes s) i p p' Hp) as V.
    unfold sweight at 2 4 in W. unfold is_done in W. cbn [sst set_io spend] in W. rewrite Hr in W.
    unfold pweight at 2 4 in V. rewrite Hbuf, app_length, firstn_length in V.
    rewrite Hrest, skipn_length in W. rewrite Hlen in *.
    replace (Nat.min m (length (spend sg))) with m in V by lia.
    remember (length (stages s) - S i)%nat as rs.
    replace (Init.Nat.pred (length (stages s)) - S i)%nat with (rs - 1)%nat in V by lia.
    subst rest. destruct rs as [|r']; [lia|].
    replace (S r' - 1)%nat with r' in V by lia.
    remember (length (spend sg) - m)%nat as L'.
    replace (length (spend sg)) with (L' + m)%nat in W by lia.
    generalize dependent (wsum sweight (stages s)). generalize dependent (wsum pweight (pipes s)).
    generalize dependent (wsum pweight (upd i p' (pipes s))).
    generalize dependent (wsum sweight (upd i (set_io sg (sdrop sg) (stake sg) (skipn m (spend sg))) (stages s))).
    intros. nia.
  - unfold put_stage. cbn [stages pipes pc wt]. rewrite !upd_length.
    destruct (inv_pipes _ _ _ HI j p Hp) as [Hok _].
    destruct (pread_ok A C q p p' got Hok Hrd) as [_ [_ [_ [Hg1 [_ [Hbuf _]]]]]].
    assert (Hil : (j < length (pipes s))%nat) by (apply nth_error_Some; congruence).
    pose proof (wsum_upd sweight (stages s) (S j) sg (set_io sg d t pend) Hn) as W.
    pose proof (wsum_upd pweight (pipes s) j p p' Hp) as V.
    unfold sweight at 2 4 in W. unfold is_done in W. cbn [sst set_io spend] in W. rewrite Hr, Hsp in W.
    unfold pweight at 2 4 in V. rewrite Hbuf, app_length in V. rewrite Hlen in *.
    replace (Init.Nat.pred (length (stages s)) - S j)%nat with (length (stages s) - S (S j))%nat in V by lia.
    assert (Hpl : (length pend <= length got)%nat) by (destruct Hpend as [->| ->]; cbn; lia).
    cbn [length] in W. nia.
  - rewrite wsum_exit_pipes. unfold exit_stage. cbn [stages pipes pc wt]. rewrite upd_length.
    pose proof (wsum_upd sweight (stages s) i sg
                  (mkStage (skind sg) (Done c) (sdrop sg) (stake sg) (semit sg) []) Hn) as W.
    unfold sweight at 2 4 in W. unfold is_done in W. cbn [sst spend length] in W. rewrite Hr in W. nia.
Qed.

(** *** termination: along any schedule the measure drops at every step, so no schedule from a
    reachable state is longer than the measure of that state *)
Theorem terminates sgs s : reach C (init sgs) s ->
  forall ls s', run_labels C s ls = Some s' -> (length ls + mu s' <= mu s)%nat.
Proof.
  clear HC. intros Hr ls. apply reach_inv in Hr. revert s Hr.
  induction ls as [|l ls IH]; intros s HI s' Hrun; cbn in Hrun.
  - inversion Hrun; subst. cbn. lia.
  - destruct (next s l) as [s1|] eqn:Hn; [|discriminate].
    pose proof (next_shape A C s l s1 Hn) as Hsh.
    pose proof (mu_decreases s s1 HI Hsh) as Hd.
    specialize (IH s1 (inv_step A C s s1 HI Hsh) s' Hrun). cbn [length]. lia.
Qed.

(** *** early exit of a reader: once the reader of a pipe is gone, the writer's next write —
    with any quantum, however full or empty the pipe — ends the writer with status 141;
    it can not block. *)
Theorem early_exit_reader sgs s i sg k :
  reach C (init sgs) s -> k <> 0%nat ->
  nth_error (stages s) i = Some sg -> sst sg = Running -> spend sg <> [] ->
  done_at A s (S i) = true ->
  next s (LStage i k) = Some (exit_stage s i sg EPIPE_STATUS).
Proof.
  clear HC. intros Hr Hk Hn Hst Hsp Hdn. apply reach_inv in Hr.
  assert (Hlt : (S i < length (stages s))%nat).
  { unfold done_at in Hdn. destruct (nth_error (stages s) (S i)) eqn:E; [|discriminate].
    apply nth_error_Some. congruence. }
  destruct (pipe_exists s i Hr Hlt) as [p Hp].
  destruct (inv_pipes _ _ _ Hr i p Hp) as [_ [_ Hrd]]. rewrite Hdn in Hrd.
  cbn [Sched.next]. apply Nat.eqb_neq in Hk. rewrite Hk, Hn, Hst. unfold stage_step.
  destruct (spend sg) as [|a pend] eqn:E; [contradiction|].
  replace (S i =? length (stages s))%nat with false by (symmetry; apply Nat.eqb_neq; lia).
  rewrite Hp, pwrite_no_reader by exact Hrd. reflexivity.
Qed.

End Live.

(** *** refutation for brush's present algorithm: three stages, the middle one run inline,
    capacity 1, a payload of three units — a reachable state that is not final and in which
    no step at all is enabled (the spawn loop waits for the inline stage, which waits for a
    reader that the loop has not started yet). *)
Definition dl_cfg : list (stage nat) :=
  [ mkStage Spawned NotStarted 0 (Some 0%nat) true [0; 1; 2]%nat;
    mkStage Inline NotStarted 0 None true [];
    mkStage Spawned NotStarted 0 None true [] ].
Definition dl_path : list label :=
  [LSpawn; LSpawn; LStage 0 1; LStage 1 1; LStage 1 1; LStage 0 1; LStage 1 1; LStage 0 1; LStage 0 1]%nat.

Lemma run_labels_reach {A} C (s : state A) ls : forall s0 s',
  reach C s0 s -> run_labels C s ls = Some s' -> reach C s0 s'.
Proof.
  revert s. induction ls as [|l ls IH]; intros s s0 s' Hr H; cbn in H.
  - inversion H; subst. exact Hr.
  - destruct (next C s l) as [s1|] eqn:Hn; [|discriminate].
    eapply IH; [|exact H]. eapply reachS; eauto.
Qed.

Theorem inline_stage_deadlock_refuted :
  exists (C : nat) (sgs : list (stage nat)) (s : state nat),
    (1 <= C)%nat /\ (3 <= length (flat_map (@spend nat) sgs))%nat /\
    reach C (init sgs) s /\ ~ final s /\ stuck C s.
Proof.
  exists 1%nat, dl_cfg.
  destruct (run_labels 1 (init dl_cfg) dl_path) as [s|] eqn:Hrun; [|vm_compute in Hrun; discriminate].
  exists s. split; [lia|]. split; [cbn; lia|]. split.
  - eapply run_labels_reach; [apply reach0|exact Hrun].
  - vm_compute in Hrun. inversion Hrun; subst s; clear Hrun. split.
    + unfold final. cbn. lia.
    + intros [|i k|]; [reflexivity| |reflexivity].
      destruct k as [|k]; [reflexivity|].
      destruct i as [|[|[|i]]]; cbn; try reflexivity.
      destruct i; reflexivity.
Qed.

(** the deterministic schedulers of the correspondence entry only follow [next] *)
Lemma first_enabled_next {A} C (s : state A) ls s' :
  first_enabled C s ls = Some s' -> exists l, next C s l = Some s'.
Proof.
  induction ls as [|l ls IH]; cbn; [discriminate|].
  destruct (next C s l) as [s1|] eqn:E; [intros H; inversion H; subst; eauto | exact IH].
Qed.

Lemma run_sched_reach {A} C q down fuel : forall (s s0 : state A) o,
  reach C s0 s -> run_sched C q down fuel s = o ->
  match o with OFinal s' => reach C s0 s' /\ final s' | OStuck s' => reach C s0 s' | OFuel s' => reach C s0 s' end.
Proof.
  induction fuel as [|f IH]; intros s s0 o Hr <-; cbn [run_sched].
  - destruct (finalb s) eqn:Hf; [split; [exact Hr|apply Nat.eqb_eq; exact Hf] | exact Hr].
  - destruct (finalb s) eqn:Hf; [split; [exact Hr|apply Nat.eqb_eq; exact Hf]|].
    destruct (first_enabled C s (prio q down s)) as [s1|] eqn:E; [|exact Hr].
    apply first_enabled_next in E. destruct E as [l Hl].
    apply (IH s1 s0 _ (reachS _ C s0 s l s1 Hr Hl) eq_refl).
Qed.

(** non-vacuity: a three-stage pipeline `source 5 | cat | head 2` with capacity 2 satisfies the
    hypothesis of the progress theorem, and completes with the first two units and the
    statuses 0, 141 (EPIPE), 0 under the producer-first scheduler. *)
Definition ex_cfg : list (stage nat) :=
  [ mkStage Spawned NotStarted 0 (Some 0%nat) true [0; 1; 2; 3; 4]%nat;
    mkStage Spawned NotStarted 0 None true [];
    mkStage Inline NotStarted 0 (Some 2%nat) true [] ].

Lemma ex_nonvacuous :
  inline_only_last (map (@skind nat) ex_cfg) /\
  exists s, reach 2 (init ex_cfg) s /\ final s /\ out s = [0; 1]%nat /\ sts s = [0; 141; 0]%nat.
Proof.
  split.
  - intros [|[|[|i]]]; cbn; try discriminate; try reflexivity. destruct i; discriminate.
  - destruct (run_sched 2 3 false 100 (init ex_cfg)) as [s|s|s] eqn:E; vm_compute in E; try discriminate.
    pose proof (run_sched_reach 2 3 false 100 (init ex_cfg) (init ex_cfg) _ (reach0 _ 2 _) E) as [Hr Hf].
    exists s. split; [exact Hr|]. split; [exact Hf|]. inversion E; subst s. split; reflexivity.
Qed.
