(** C11 — a kernel pipe as a bounded FIFO with counted ends.
    [buf] is what is in flight, [wr]/[rd] count the open write/read ends, [hw]/[hr] are ghost
    histories (everything ever written / read) used only to state integrity.
    The capacity [C] is a parameter of the operations; nothing is assumed about it here. *)
From BV Require Import Base.Prelude.

Section Pipe.
Variable A : Type.

Record pipe := mkPipe { buf : list A; wr : nat; rd : nat; hw : list A; hr : list A }.

Definition new_pipe : pipe := mkPipe [] 1 1 [] [].

Definition space (C : nat) (p : pipe) : nat := (C - length (buf p))%nat.

(** write(2) of [d] where the scheduler lets at most [k] units through in this step:
    no reader left -> EPIPE (never blocks); no room -> the writer blocks; otherwise a
    non-empty prefix goes in (partial writes are allowed: all splittings are schedules). *)
Inductive wres := WOk (p : pipe) (rest : list A) | WEpipe | WBlock.

Definition pwrite (C k : nat) (p : pipe) (d : list A) : wres :=
  if (rd p =? 0)%nat then WEpipe else
  let m := Nat.min k (Nat.min (space C p) (length d)) in
  if (m =? 0)%nat then WBlock
  else WOk (mkPipe (buf p ++ firstn m d) (wr p) (rd p) (hw p ++ firstn m d) (hr p)) (skipn m d).

(** read(2) of at most [k] units: data if any; else EOF when no writer is left; else block. *)
Inductive rres := ROk (p : pipe) (got : list A) | REof | RBlock.

Definition pread (k : nat) (p : pipe) : rres :=
  match buf p with
  | [] => if (wr p =? 0)%nat then REof else RBlock
  | _ => let m := Nat.min k (length (buf p)) in
         if (m =? 0)%nat then RBlock
         else ROk (mkPipe (skipn m (buf p)) (wr p) (rd p) (hw p) (hr p ++ firstn m (buf p)))
                  (firstn m (buf p))
  end.

Definition close_w (p : pipe) : pipe := mkPipe (buf p) (pred (wr p)) (rd p) (hw p) (hr p).
Definition close_r (p : pipe) : pipe := mkPipe (buf p) (wr p) (pred (rd p)) (hw p) (hr p).

(** Integrity: what was read, followed by what is in flight, is exactly what was written
    (so reads are a prefix of writes, in order, each unit once), and the buffer is bounded. *)
Definition pipe_ok (C : nat) (p : pipe) : Prop :=
  hw p = hr p ++ buf p /\ (length (buf p) <= C)%nat.

Lemma new_pipe_ok C : pipe_ok C new_pipe.
Proof. split; cbn; [reflexivity | lia]. Qed.

Lemma pwrite_ok C k p d p' rest :
  pipe_ok C p -> pwrite C k p d = WOk p' rest ->
  pipe_ok C p' /\ wr p' = wr p /\ rd p' = rd p /\
  exists m, (1 <= m)%nat /\ (m <= k)%nat /\ rest = skipn m d /\ (m <= length d)%nat /\
            buf p' = buf p ++ firstn m d /\ hw p' = hw p ++ firstn m d /\ hr p' = hr p.
Proof.
  intros [Hh Hb] Hw. unfold pwrite in Hw.
  destruct (rd p =? 0)%nat; [discriminate|].
  set (m := Nat.min k (Nat.min (space C p) (length d))) in *.
  destruct (m =? 0)%nat eqn:Hm; [discriminate|].
  apply Nat.eqb_neq in Hm. inversion Hw; subst p' rest; clear Hw. unfold pipe_ok. cbn [buf wr rd hw hr].
  assert (Hmk : (m <= k)%nat) by (subst m; lia).
  assert (Hms : (m <= space C p)%nat) by (subst m; lia).
  assert (Hmd : (m <= length d)%nat) by (subst m; lia).
  unfold space in Hms.
  split; [split|].
  - rewrite Hh, <- app_assoc. reflexivity.
  - rewrite app_length, firstn_length. lia.
  - repeat split; try reflexivity. exists m. repeat split; try reflexivity; lia.
Qed.

Lemma pread_ok C k p p' got :
  pipe_ok C p -> pread k p = ROk p' got ->
  pipe_ok C p' /\ wr p' = wr p /\ rd p' = rd p /\
  (1 <= length got)%nat /\ (length got <= k)%nat /\
  buf p = got ++ buf p' /\ hr p' = hr p ++ got /\ hw p' = hw p.
Proof.
  intros [Hh Hb] Hr. unfold pread in Hr.
  destruct (buf p) as [|a b] eqn:Hbuf; [destruct (wr p =? 0)%nat; discriminate|].
  set (m := Nat.min k (length (a :: b))) in *.
  destruct (m =? 0)%nat eqn:Hm; [discriminate|].
  apply Nat.eqb_neq in Hm. inversion Hr; subst p' got; clear Hr. unfold pipe_ok. cbn [buf wr rd hw hr].
  assert (Hmk : (m <= k)%nat) by (subst m; lia).
  assert (Hml : (m <= length (a :: b))%nat) by (subst m; lia).
  split; [split|].
  - rewrite Hh, <- app_assoc, firstn_skipn. reflexivity.
  - rewrite skipn_length. lia.
  - repeat split; try reflexivity.
    + rewrite firstn_length. lia.
    + rewrite firstn_length. lia.
    + rewrite firstn_skipn. reflexivity.
Qed.

Lemma close_w_ok C p : pipe_ok C p -> pipe_ok C (close_w p).
Proof. intros H; exact H. Qed.
Lemma close_r_ok C p : pipe_ok C p -> pipe_ok C (close_r p).
Proof. intros H; exact H. Qed.

(** A writer whose pipe has no reader left fails at once; it never blocks. *)
Lemma pwrite_no_reader C k p d : rd p = 0%nat -> pwrite C k p d = WEpipe.
Proof. intros H. unfold pwrite. rewrite H. reflexivity. Qed.

(** A write blocks only on a full pipe (for a non-empty datum and a positive quantum). *)
Lemma pwrite_block C k p d : pwrite C k p d = WBlock ->
  rd p <> 0%nat /\ (k = 0 \/ d = [] \/ (C <= length (buf p)))%nat.
Proof.
  unfold pwrite. destruct (rd p =? 0)%nat eqn:Hr; [discriminate|].
  apply Nat.eqb_neq in Hr.
  destruct (Nat.min k (Nat.min (space C p) (length d)) =? 0)%nat eqn:Hm; [|discriminate].
  apply Nat.eqb_eq in Hm. intros _. split; [assumption|].
  unfold space in Hm. destruct d; [right; left; reflexivity|]. cbn [length] in Hm. lia.
Qed.

(** A read blocks only on an empty pipe that still has a writer. *)
Lemma pread_block k p : pread k p = RBlock -> (k = 0%nat \/ (buf p = [] /\ wr p <> 0%nat)).
Proof.
  unfold pread. destruct (buf p) as [|a b].
  - destruct (wr p =? 0)%nat eqn:Hw; [discriminate|]. apply Nat.eqb_neq in Hw. auto.
  - destruct (Nat.min k (length (a :: b)) =? 0)%nat eqn:Hm; [|discriminate].
    apply Nat.eqb_eq in Hm. cbn [length] in Hm. intros _. left. lia.
Qed.

Lemma pread_eof k p : pread k p = REof -> buf p = [] /\ wr p = 0%nat.
Proof.
  unfold pread. destruct (buf p) as [|a b].
  - destruct (wr p =? 0)%nat eqn:Hw; [|discriminate]. apply Nat.eqb_eq in Hw. auto.
  - destruct (Nat.min k (length (a :: b)) =? 0)%nat; discriminate.
Qed.

End Pipe.

Arguments mkPipe {A}. Arguments buf {A}. Arguments wr {A}. Arguments rd {A}.
Arguments hw {A}. Arguments hr {A}. Arguments new_pipe {A}. Arguments space {A}.
Arguments pwrite {A}. Arguments pread {A}. Arguments close_w {A}. Arguments close_r {A}.
Arguments pipe_ok {A}. Arguments WOk {A}. Arguments WEpipe {A}. Arguments WBlock {A}.
Arguments ROk {A}. Arguments REof {A}. Arguments RBlock {A}.
