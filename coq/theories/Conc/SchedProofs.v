(** C11 — theorems about the pipeline transition system of Conc/Sched.v (all schedules). *)
From BV Require Import Base.Prelude Conc.Pipe Conc.Sched.

(** ---- list update ---- *)
Lemma upd_length {X} (l : list X) : forall i x, length (upd i x l) = length l.
Proof. induction l as [|y l IH]; intros [|i] x; cbn; auto. Qed.

Lemma nth_error_upd {X} (l : list X) : forall i j x,
  nth_error (upd i x l) j =
  if (i =? j)%nat then match nth_error l j with Some _ => Some x | None => None end
  else nth_error l j.
Proof.
  induction l as [|y l IH]; intros [|i] [|j] x; cbn; try reflexivity.
  - destruct (i =? j)%nat; reflexivity.
  - apply IH.
Qed.

Lemma nth_error_upd_eq {X} (l : list X) i x y :
  nth_error l i = Some y -> nth_error (upd i x l) i = Some x.
Proof. intros H. rewrite nth_error_upd, Nat.eqb_refl, H. reflexivity. Qed.

Lemma nth_error_upd_neq {X} (l : list X) i j x :
  i <> j -> nth_error (upd i x l) j = nth_error l j.
Proof. intros H. rewrite nth_error_upd. apply Nat.eqb_neq in H. rewrite H. reflexivity. Qed.

Lemma map_upd_same {X Y} (f : X -> Y) (l : list X) : forall i x y,
  nth_error l i = Some y -> f x = f y -> map f (upd i x l) = map f l.
Proof.
  induction l as [|z l IH]; intros [|i] x y H E; cbn in *; try discriminate.
  - inversion H; subst. rewrite E. reflexivity.
  - f_equal. eapply IH; eauto.
Qed.

(** weighted sum: the weight of an element depends on how many elements follow it *)
Fixpoint wsum {X} (f : X -> nat -> nat) (l : list X) : nat :=
  match l with [] => 0%nat | x :: r => (f x (length r) + wsum f r)%nat end.

Lemma wsum_upd {X} (f : X -> nat -> nat) (l : list X) : forall i x y,
  nth_error l i = Some x ->
  (wsum f (upd i y l) + f x (length l - S i) = wsum f l + f y (length l - S i))%nat.
Proof.
  induction l as [|z l IH]; intros [|i] x y H; cbn in *; try discriminate.
  - inversion H; subst. rewrite Nat.sub_0_r. lia.
  - specialize (IH i x y H). rewrite upd_length. lia.
Qed.

Section Proofs.
Variable A : Type.
Variable C : nat.

Notation state := (state A).
Notation stage := (stage A).
Notation next := (next C).

(** what a read of [got] with quantum [q] does to the reading stage *)
Definition read_rel (sg : stage) (q : nat) (got : list A) (d : nat) (t : option nat) (pend : list A) : Prop :=
  ((0 < sdrop sg)%nat /\ (q <= sdrop sg)%nat /\ d = (sdrop sg - length got)%nat /\ t = stake sg /\ pend = [])
  \/
  (sdrop sg = 0%nat /\ d = 0%nat /\
   t = match stake sg with Some t0 => Some (t0 - length got)%nat | None => None end /\
   pend = (if semit sg then got else []) /\ (forall t0, stake sg = Some t0 -> (q <= t0)%nat)).

(** why a stage ends: normally (nothing pending; no input at all, or its request is used up, or end of
    input on an empty pipe without writer), or by EPIPE on a pipe without reader *)
Definition exit_rel (s : state) (i : nat) (sg : stage) (c : nat) : Prop :=
  (c = 0%nat /\ spend sg = [] /\
   (i = 0%nat \/ (sdrop sg = 0%nat /\ stake sg = Some 0%nat) \/
    exists j p, i = S j /\ nth_error (pipes s) j = Some p /\ buf p = [] /\ wr p = 0%nat))
  \/
  (c = EPIPE_STATUS /\ spend sg <> [] /\ exists p, nth_error (pipes s) i = Some p /\ rd p = 0%nat).

(** ---- the shape of a step ---- *)
Inductive shape (s : state) : state -> Prop :=
| sh_spawn sg :
    inline_busy s = false -> nth_error (stages s) (pc s) = Some sg ->
    shape s (mkState (upd (pc s) (set_st sg Running) (stages s)) (pipes s) (out s)
                     (S (pc s)) (wt s) (sts s))
| sh_wait sg c :
    pc s = length (stages s) -> inline_busy s = false ->
    nth_error (stages s) (wt s) = Some sg -> sst sg = Done c ->
    shape s (mkState (stages s) (pipes s) (out s) (pc s) (S (wt s)) (sts s ++ [c]))
| sh_out i sg m :
    nth_error (stages s) i = Some sg -> sst sg = Running -> S i = length (stages s) ->
    (1 <= m)%nat -> (m <= length (spend sg))%nat ->
    shape s (put_stage s i (set_io sg (sdrop sg) (stake sg) (skipn m (spend sg)))
                       (pipes s) (out s ++ firstn m (spend sg)))
| sh_write i sg p p' rest k :
    nth_error (stages s) i = Some sg -> sst sg = Running ->
    nth_error (pipes s) i = Some p -> pwrite C k p (spend sg) = WOk p' rest ->
    shape s (put_stage s i (set_io sg (sdrop sg) (stake sg) rest) (upd i p' (pipes s)) (out s))
| sh_read j sg p p' got q d t pend :
    nth_error (stages s) (S j) = Some sg -> sst sg = Running -> spend sg = [] ->
    nth_error (pipes s) j = Some p -> pread q p = ROk p' got ->
    (pend = got \/ pend = []) -> read_rel sg q got d t pend ->
    shape s (put_stage s (S j) (set_io sg d t pend) (upd j p' (pipes s)) (out s))
| sh_exit i sg c :
    nth_error (stages s) i = Some sg -> sst sg = Running -> exit_rel s i sg c ->
    shape s (exit_stage s i sg c).

Lemma next_shape s l s' : next s l = Some s' -> shape s s'.
Proof.
  destruct l as [|i k|]; cbn [Sched.next].
  - destruct (inline_busy s) eqn:Hb; [discriminate|].
    destruct (nth_error (stages s) (pc s)) as [sg|] eqn:Hn; [|discriminate].
    intros H; inversion H; subst. apply sh_spawn; assumption.
  - destruct (k =? 0)%nat eqn:Hk; [discriminate|]. apply Nat.eqb_neq in Hk.
    destruct (nth_error (stages s) i) as [sg|] eqn:Hn; [|discriminate].
    destruct (sst sg) eqn:Hst; try discriminate.
    unfold stage_step.
    destruct (spend sg) as [|a pend] eqn:Hp.
    + (* read side *)
      set (req := if (0 <? sdrop sg)%nat then Some (sdrop sg) else stake sg).
      assert (Hex : forall why : Prop, (why -> exit_rel s i sg 0%nat) -> why ->
                      Some (exit_stage s i sg 0%nat) = Some s' -> shape s s').
      { intros why Hw Hy H; inversion H; subst. apply sh_exit; auto. }
      assert (Hex0 : i = 0%nat -> Some (exit_stage s i sg 0%nat) = Some s' -> shape s s').
      { apply (Hex (i = 0%nat)). intros ->. left. auto. }
      assert (HexE : forall q p, nth_error (pipes s) (pred i) = Some p -> i <> 0%nat -> pread q p = REof ->
                     Some (exit_stage s i sg 0%nat) = Some s' -> shape s s').
      { intros q p Hpj Hi0 Hr. apply (Hex True); [|exact I]. intros _. left. split; [reflexivity|]. split; [exact Hp|].
        right. right. destruct i as [|j]; [contradiction|]. apply pread_eof in Hr. destruct Hr as [Hb Hw].
        exists j, p. auto. }
      destruct req as [[|lim]|] eqn:Hreq; subst req.
      * apply (Hex True); [|exact I]. intros _. left. split; [reflexivity|]. split; [exact Hp|]. right. left.
        destruct (0 <? sdrop sg)%nat eqn:Hd.
        -- apply Nat.ltb_lt in Hd. inversion Hreq. lia.
        -- apply Nat.ltb_ge in Hd. split; [lia|exact Hreq].
      * destruct i as [|j]; [apply Hex0; reflexivity|].
        destruct (nth_error (pipes s) j) as [p|] eqn:Hpj; [|discriminate].
        destruct (pread (Nat.min k (S lim)) p) as [p' got| |] eqn:Hr;
          [|apply (HexE (Nat.min k (S lim)) p); [exact Hpj|discriminate|exact Hr]|discriminate].
        intros H; inversion H; subst; clear H.
        destruct (0 <? sdrop sg)%nat eqn:Hd.
        -- apply Nat.ltb_lt in Hd. inversion Hreq as [Hs]. eapply sh_read; eauto.
           left. repeat split; auto. rewrite Hs. apply Nat.le_min_r.
        -- apply Nat.ltb_ge in Hd. eapply sh_read; eauto; [destruct (semit sg); auto|].
           right. repeat split; auto; try lia.
           intros t0 Ht0. rewrite Ht0 in Hreq. inversion Hreq; subst. apply Nat.le_min_r.
      * destruct i as [|j]; [apply Hex0; reflexivity|].
        destruct (nth_error (pipes s) j) as [p|] eqn:Hpj; [|discriminate].
        destruct (pread k p) as [p' got| |] eqn:Hr;
          [|apply (HexE k p); [exact Hpj|discriminate|exact Hr]|discriminate].
        intros H; inversion H; subst; clear H.
        destruct (0 <? sdrop sg)%nat eqn:Hd; [discriminate|].
        apply Nat.ltb_ge in Hd. eapply sh_read; eauto; [destruct (semit sg); auto|].
        right. repeat split; auto; try lia.
        intros t0 Ht0. rewrite Ht0 in Hreq. discriminate.
    + destruct (S i =? length (stages s))%nat eqn:Hl.
      * apply Nat.eqb_eq in Hl. intros H; inversion H; subst; clear H.
        rewrite <- Hp. apply sh_out; auto; try (rewrite Hp; cbn [length]; lia); cbn [length]; lia.
      * destruct (nth_error (pipes s) i) as [p|] eqn:Hpi; [|discriminate].
        destruct (pwrite C k p (a :: pend)) as [p' rest| |] eqn:Hw; [| |discriminate].
        -- intros H; inversion H; subst; clear H. eapply sh_write; eauto. rewrite Hp. exact Hw.
        -- intros H; inversion H; subst. apply sh_exit; auto. right. split; [reflexivity|].
           split; [rewrite Hp; discriminate|]. exists p. split; [exact Hpi|].
           unfold pwrite in Hw. destruct (rd p =? 0)%nat eqn:E; [apply Nat.eqb_eq; exact E|].
           destruct (Nat.min k (Nat.min (space C p) (length (a :: pend))) =? 0)%nat; discriminate.
  - destruct ((pc s =? length (stages s))%nat && negb (inline_busy s)) eqn:Hc; [|discriminate].
    apply andb_true_iff in Hc. destruct Hc as [Hpc Hb]. apply Nat.eqb_eq in Hpc.
    apply negb_true_iff in Hb.
    destruct (nth_error (stages s) (wt s)) as [sg|] eqn:Hn; [|discriminate].
    destruct (sst sg) eqn:Hst; try discriminate.
    intros H; inversion H; subst. eapply sh_wait; eauto.
Qed.

(** ---- invariants ---- *)
Definition done_at (s : state) (i : nat) : bool :=
  match nth_error (stages s) i with Some sg => is_done sg | None => false end.

Record Inv (s : state) : Prop := {
  inv_len : length (pipes s) = pred (length (stages s));
  inv_pc : (pc s <= length (stages s))%nat;
  inv_wt : (wt s <= length (stages s))%nat;
  inv_started : forall i sg, nth_error (stages s) i = Some sg ->
                             (sst sg = NotStarted <-> (pc s <= i)%nat);
  inv_pipes : forall j p, nth_error (pipes s) j = Some p ->
      pipe_ok C p /\ wr p = (if done_at s j then 0 else 1)%nat /\
      rd p = (if done_at s (S j) then 0 else 1)%nat
}.

Lemma nth_error_repeat {X} (x : X) n j y : nth_error (repeat x n) j = Some y -> y = x.
Proof.
  revert j; induction n as [|n IH]; intros [|j]; cbn; try discriminate.
  - intros H; inversion H; reflexivity.
  - apply IH.
Qed.

Lemma init_inv sgs : Inv (init sgs).
Proof.
  constructor; unfold init; cbn [stages pipes pc wt].
  - rewrite repeat_length, map_length. reflexivity.
  - lia.
  - lia.
  - intros i sg H. rewrite nth_error_map in H.
    destruct (nth_error sgs i); [|discriminate]. inversion H; subst. cbn. split; [lia|reflexivity].
  - intros j p H. apply nth_error_repeat in H. subst p.
    unfold done_at. cbn [stages]. rewrite !nth_error_map.
    split; [apply new_pipe_ok|].
    destruct (nth_error sgs j); destruct (nth_error sgs (S j)); cbn; split; reflexivity.
Qed.

(** [done_at] after replacing stage [i] by a stage with the same doneness *)
Lemma done_at_upd_same (s : state) ss i sg sg' ps o pc' wt' st' k :
  nth_error (stages s) i = Some sg -> is_done sg' = is_done sg -> ss = upd i sg' (stages s) ->
  done_at (mkState ss ps o pc' wt' st') k = done_at s k.
Proof.
  intros Hn Hd ->. unfold done_at. cbn [stages]. rewrite nth_error_upd.
  destruct (Nat.eqb_spec i k) as [->|]; [|reflexivity]. rewrite Hn. exact Hd.
Qed.

Lemma inv_step s s' : Inv s -> shape s s' -> Inv s'.
Proof.
  intros [Hlen Hpc Hwt Hst Hpi] Hsh.
  destruct Hsh as [sg Hb Hn | sg c Hpcn Hb Hn Hd | i sg m Hn Hr Hl Hm1 Hm2
                  | i sg p p' rest k Hn Hr Hp Hw | j sg p p' got q d t pend Hn Hr Hsp Hp Hrd Hpend Hrel
                  | i sg c Hn Hr Hexit].
  - (* spawn *)
    assert (Hlt : (pc s < length (stages s))%nat) by (apply nth_error_Some; congruence).
    constructor; cbn [stages pipes pc wt].
    + rewrite upd_length. exact Hlen.
    + rewrite upd_length. lia.
    + rewrite upd_length. exact Hwt.
    + intros i sg0 H. rewrite nth_error_upd in H.
      destruct (Nat.eqb_spec (pc s) i) as [<-|Hne].
      * rewrite Hn in H. inversion H; subst. cbn. split; [discriminate|lia].
      * rewrite (Hst i sg0 H). lia.
    + intros j p H. destruct (Hpi j p H) as [Hok [Hw Hrd]]. split; [exact Hok|].
      assert (Hns : sst sg = NotStarted) by (apply (Hst _ _ Hn); lia).
      rewrite !(done_at_upd_same s _ (pc s) sg (set_st sg Running)); try reflexivity; try assumption.
      * auto.
      * unfold is_done. cbn. rewrite Hns. reflexivity.
      * unfold is_done. cbn. rewrite Hns. reflexivity.
  - (* wait *)
    assert (Hlt : (wt s < length (stages s))%nat) by (apply nth_error_Some; congruence).
    constructor; cbn [stages pipes pc wt]; auto.
  - (* write to the pipeline's stdout *)
    constructor; unfold put_stage; cbn [stages pipes pc wt]; try rewrite upd_length; auto.
    + intros i0 sg0 H. rewrite nth_error_upd in H.
      destruct (Nat.eqb_spec i i0) as [<-|Hne].
      * rewrite Hn in H. inversion H; subst. cbn. apply (Hst _ _ Hn).
      * apply (Hst _ _ H).
    + intros j p H. destruct (Hpi j p H) as [Hok [Hw Hrd]]. split; [exact Hok|].
      rewrite !(done_at_upd_same s _ i sg (set_io sg (sdrop sg) (stake sg) (skipn m (spend sg))));
        try reflexivity; try assumption. auto.
  - (* write to a pipe *)
    constructor; unfold put_stage; cbn [stages pipes pc wt]; try rewrite !upd_length; auto.
    + intros i0 sg0 H. rewrite nth_error_upd in H.
      destruct (Nat.eqb_spec i i0) as [<-|Hne].
      * rewrite Hn in H. inversion H; subst. cbn. apply (Hst _ _ Hn).
      * apply (Hst _ _ H).
    + intros j p0 H.
      rewrite !(done_at_upd_same s _ i sg (set_io sg (sdrop sg) (stake sg) rest));
        try reflexivity; try assumption.
      rewrite nth_error_upd in H. destruct (Nat.eqb_spec i j) as [<-|Hne].
      * rewrite Hp in H. inversion H; subst p0.
        destruct (Hpi i p Hp) as [Hok [Hw' Hrd]].
        destruct (pwrite_ok A C k p (spend sg) p' rest Hok Hw) as [Hok' [E1 [E2 _]]].
        rewrite E1, E2. auto.
      * apply (Hpi _ _ H).
  - (* read *)
    constructor; unfold put_stage; cbn [stages pipes pc wt]; try rewrite !upd_length; auto.
    + intros i0 sg0 H. rewrite nth_error_upd in H.
      destruct (Nat.eqb_spec (S j) i0) as [<-|Hne].
      * rewrite Hn in H. inversion H; subst. cbn. apply (Hst _ _ Hn).
      * apply (Hst _ _ H).
    + intros j0 p0 H.
      rewrite !(done_at_upd_same s _ (S j) sg (set_io sg d t pend)); try reflexivity; try assumption.
      rewrite nth_error_upd in H. destruct (Nat.eqb_spec j j0) as [<-|Hne].
      * rewrite Hp in H. inversion H; subst p0.
        destruct (Hpi j p Hp) as [Hok [Hw' Hrd']].
        destruct (pread_ok A C q p p' got Hok Hrd) as [Hok' [E1 [E2 _]]].
        rewrite E1, E2. auto.
      * apply (Hpi _ _ H).
  - (* exit *)
    assert (Hlt : (i < length (stages s))%nat) by (apply nth_error_Some; congruence).
    set (sgd := mkStage (skind sg) (Done c) (sdrop sg) (stake sg) (semit sg) (@nil A)).
    assert (Hdone : forall k, done_at (exit_stage s i sg c) k = if (i =? k)%nat then true else done_at s k).
    { intros k. unfold done_at, exit_stage. cbn [stages]. rewrite nth_error_upd.
      destruct (Nat.eqb_spec i k) as [<-|]; [rewrite Hn; reflexivity|reflexivity]. }
    assert (Hnd : done_at s i = false).
    { unfold done_at. rewrite Hn. unfold is_done. rewrite Hr. reflexivity. }
    (* the pipes of the result, pointwise *)
    assert (Hps : forall k pk, nth_error (pipes (exit_stage s i sg c)) k = Some pk ->
              exists p0, nth_error (pipes s) k = Some p0 /\
                pk = (if (i =? k)%nat then close_w p0 else if (i =? S k)%nat then close_r p0 else p0)).
    { intros k pk. unfold exit_stage. cbn [pipes].
      set (ps1 := match i with O => pipes s | S j => match nth_error (pipes s) j with
                  | Some p => upd j (close_r p) (pipes s) | None => pipes s end end).
      assert (H1 : forall k0, nth_error ps1 k0 =
                match nth_error (pipes s) k0 with
                | Some p0 => Some (if (i =? S k0)%nat then close_r p0 else p0) | None => None end).
      { intros k0. subst ps1. destruct i as [|j].
        - destruct (nth_error (pipes s) k0); reflexivity.
        - destruct (nth_error (pipes s) j) as [pj|] eqn:Hj.
          + rewrite nth_error_upd. cbn [Nat.eqb]. destruct (Nat.eqb_spec j k0) as [<-|Hne].
            * rewrite Hj. reflexivity.
            * destruct (nth_error (pipes s) k0); reflexivity.
          + cbn [Nat.eqb]. destruct (Nat.eqb_spec j k0) as [<-|Hne].
            * rewrite Hj. reflexivity.
            * destruct (nth_error (pipes s) k0); reflexivity. }
      destruct (nth_error ps1 i) as [pi|] eqn:Hi.
      - rewrite nth_error_upd. destruct (Nat.eqb_spec i k) as [<-|Hne].
        + rewrite Hi. intros H; inversion H; subst pk. rewrite H1 in Hi.
          destruct (nth_error (pipes s) i) as [p0|]; [|discriminate].
          exists p0. split; [reflexivity|]. inversion Hi; subst.
          replace (i =? S i)%nat with false by (symmetry; apply Nat.eqb_neq; lia). reflexivity.
        + rewrite H1. destruct (nth_error (pipes s) k) as [p0|]; [|discriminate].
          intros H; inversion H; subst. exists p0. split; reflexivity.
      - rewrite H1. destruct (nth_error (pipes s) k) as [p0|] eqn:Hk; [|discriminate].
        intros H; inversion H; subst. exists p0. split; [reflexivity|].
        destruct (Nat.eqb_spec i k) as [<-|Hne]; [|reflexivity].
        rewrite H1, Hk in Hi. discriminate. }
    assert (Hlen' : length (pipes (exit_stage s i sg c)) = length (pipes s)).
    { unfold exit_stage. cbn [pipes].
      set (ps1 := match i with O => pipes s | S j => match nth_error (pipes s) j with
                  | Some p => upd j (close_r p) (pipes s) | None => pipes s end end).
      assert (L1 : length ps1 = length (pipes s)).
      { subst ps1. destruct i as [|j]; [reflexivity|].
        destruct (nth_error (pipes s) j); [apply upd_length|reflexivity]. }
      destruct (nth_error ps1 i); [rewrite upd_length|]; exact L1. }
    constructor.
    + rewrite Hlen'. unfold exit_stage. cbn [stages]. rewrite upd_length. exact Hlen.
    + unfold exit_stage. cbn [stages pc]. rewrite upd_length. exact Hpc.
    + unfold exit_stage. cbn [stages wt]. rewrite upd_length. exact Hwt.
    + unfold exit_stage. cbn [stages pc]. intros i0 sg0 H. rewrite nth_error_upd in H.
      destruct (Nat.eqb_spec i i0) as [<-|Hne].
      * rewrite Hn in H. inversion H; subst. cbn. split; [discriminate|].
        intros Hle. apply (Hst _ _ Hn) in Hle. congruence.
      * apply (Hst _ _ H).
    + intros k pk H. destruct (Hps k pk H) as [p0 [Hk ->]].
      destruct (Hpi k p0 Hk) as [Hok [Hw Hrd]]. rewrite !Hdone.
      destruct (Nat.eqb_spec i k) as [<-|Hne].
      * replace (i =? S i)%nat with false by (symmetry; apply Nat.eqb_neq; lia).
        split; [apply close_w_ok; exact Hok|]. cbn [close_w wr rd]. rewrite Hw, Hnd. auto.
      * destruct (Nat.eqb_spec i (S k)) as [->|Hne2].
        -- split; [apply close_r_ok; exact Hok|]. cbn [close_r wr rd]. rewrite Hrd, Hnd. auto.
        -- auto.
Qed.

Lemma reach_inv sgs s : reach C (init sgs) s -> Inv s.
Proof.
  induction 1 as [|s l s' _ IH Hn]; [apply init_inv|].
  eapply inv_step; [exact IH|]. eapply next_shape; exact Hn.
Qed.

(** *** fifo_integrity: on every schedule, for every pipe, what has been read followed by what
    is in flight is exactly what has been written (order kept, nothing lost, nothing twice),
    and the buffer never exceeds the capacity. *)
Theorem fifo_integrity sgs s : reach C (init sgs) s ->
  Forall (fun p : pipe A => hw p = hr p ++ buf p /\ (length (buf p) <= C)%nat) (pipes s).
Proof.
  intros Hr. apply reach_inv in Hr. apply Forall_forall. intros p Hin.
  apply In_nth_error in Hin. destruct Hin as [j Hj]. exact (proj1 (inv_pipes s Hr j p Hj)).
Qed.

(** the kinds of the stages never change *)
Definition kinds (s : state) : list kind := map (@skind A) (stages s).

Lemma kinds_step s s' : shape s s' -> kinds s' = kinds s.
Proof.
  intros Hsh. unfold kinds.
  destruct Hsh; unfold put_stage, exit_stage; cbn [stages]; try reflexivity;
    eapply map_upd_same; eauto.
Qed.

Lemma kinds_reach sgs s : reach C (init sgs) s -> kinds s = map (@skind A) sgs.
Proof.
  induction 1 as [|s l s' _ IH Hn].
  - unfold kinds, init. cbn [stages]. rewrite map_map. reflexivity.
  - rewrite <- IH. apply kinds_step. eapply next_shape; exact Hn.
Qed.

End Proofs.
