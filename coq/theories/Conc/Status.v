(** C11 — `$?`, PIPESTATUS, pipefail and `!` of a pipeline, and the trimming of a command
    substitution's output.

    Model: interp.rs [wait_for_pipeline_processes_and_update_status] (a left-to-right loop
    with two accumulators) followed by the `!` inversion of [Pipeline::execute];
    expansion.rs (NUL bytes dropped, then [trim_end_matches('\n')]).
    Spec: bash's manual, written as list functions / a declarative characterisation. *)
From BV Require Import Base.Prelude.

(** ---- model: the loop of the Rust code ---- *)
Record wacc := mkW { w_result : nat; w_lastfail : option nat; w_statuses : list nat }.

Definition wait_one (a : wacc) (code : nat) : wacc :=
  mkW code (if (code =? 0)%nat then w_lastfail a else Some code) (w_statuses a ++ [code]).

Definition wait_loop (codes : list nat) : wacc := fold_left wait_one codes (mkW 0%nat None []).

Definition pipeline_status (pipefail bang : bool) (codes : list nat) : nat * list nat :=
  let a := wait_loop codes in
  let r := if pipefail then match w_lastfail a with Some c => c | None => w_result a end
           else w_result a in
  let r := if bang then (if (r =? 0)%nat then 1%nat else 0%nat) else r in
  (r, w_statuses a).

(** ---- spec: bash ---- *)
Definition rightmost_failure (codes : list nat) : option nat :=
  find (fun c => negb (c =? 0)%nat) (rev codes).

Definition spec_status (pipefail bang : bool) (codes : list nat) : nat * list nat :=
  let r := if pipefail then match rightmost_failure codes with Some c => c | None => 0%nat end
           else last codes 0%nat in
  (if bang then (if (r =? 0)%nat then 1%nat else 0%nat) else r, codes).

Lemma last_nonempty_default (l : list nat) : forall x d d', last (x :: l) d = last (x :: l) d'.
Proof. induction l as [|y l IH]; intros x d d'; [reflexivity|]. cbn [last] in *. apply (IH y). Qed.

Lemma find_app' (f : nat -> bool) (l1 l2 : list nat) :
  find f (l1 ++ l2) = match find f l1 with Some x => Some x | None => find f l2 end.
Proof. induction l1 as [|x l1 IH]; [reflexivity|]. cbn. destruct (f x); [reflexivity | exact IH]. Qed.

Lemma wait_loop_gen codes : forall a,
  fold_left wait_one codes a =
  mkW (last codes (w_result a))
      (match rightmost_failure codes with Some c => Some c | None => w_lastfail a end)
      (w_statuses a ++ codes).
Proof.
  unfold rightmost_failure.
  induction codes as [|c r IH]; intros a.
  - cbn. rewrite app_nil_r. destruct a; reflexivity.
  - cbn [fold_left]. rewrite IH. unfold wait_one. cbn [w_result w_lastfail w_statuses].
    f_equal.
    + destruct r as [|y r']; [reflexivity|]. cbn [last]. apply last_nonempty_default.
    + cbn [rev]. rewrite find_app'.
      destruct (find (fun c0 => negb (c0 =? 0)%nat) (rev r)) as [x|]; [reflexivity|].
      cbn [find]. destruct (c =? 0)%nat; reflexivity.
    + rewrite <- app_assoc. reflexivity.
Qed.

(** the loop computes bash's rule, for every list of stage statuses *)
Theorem pipeline_status_spec pipefail bang codes : codes <> [] ->
  pipeline_status pipefail bang codes = spec_status pipefail bang codes.
Proof.
  intros Hne. unfold pipeline_status, spec_status, wait_loop. rewrite wait_loop_gen.
  cbn [w_result w_lastfail w_statuses app].
  destruct pipefail.
  - destruct (rightmost_failure codes) as [c|] eqn:Hf; [reflexivity|].
    (* no failure: the last status is 0 *)
    assert (Hall : forall x, In x codes -> (x =? 0)%nat = true).
    { intros x Hin. unfold rightmost_failure in Hf.
      pose proof (find_none _ _ Hf x) as H. rewrite <- in_rev in H. specialize (H Hin).
      destruct (x =? 0)%nat; [reflexivity | discriminate]. }
    assert (Hl : last codes 0%nat = 0%nat).
    { destruct (exists_last Hne) as [l' [x ->]]. rewrite last_last.
      apply Nat.eqb_eq, Hall, in_or_app. right. left. reflexivity. }
    rewrite Hl. reflexivity.
  - reflexivity.
Qed.

(** ---- command substitution ---- *)
Definition is_nl (c : char) : bool := N.eqb c NL.

Fixpoint drop_while (f : char -> bool) (s : str) : str :=
  match s with
  | c :: s' => if f c then drop_while f s' else s
  | [] => []
  end.

(** Rust: [s.truncate(s.trim_end_matches('\n').len())] *)
Definition strip_nl (s : str) : str := rev (drop_while is_nl (rev s)).
(** Rust: [retain(|c| c != '\0')] first *)
Definition cmdsub_value (s : str) : str := strip_nl (filter (fun c => negb (N.eqb c 0)) s).

Lemma drop_while_spec f s : exists pre,
  s = pre ++ drop_while f s /\ Forall (fun c => f c = true) pre /\
  match drop_while f s with c :: _ => f c = false | [] => True end.
Proof.
  induction s as [|c s IH].
  - exists []. cbn. auto.
  - cbn [drop_while]. destruct (f c) eqn:Hf.
    + destruct IH as [pre [H1 [H2 H3]]]. exists (c :: pre). repeat split.
      * cbn. f_equal. exact H1.
      * constructor; assumption.
      * exact H3.
    + exists []. cbn. rewrite Hf. repeat split; auto.
Qed.

Lemma rev_repeat {X} (x : X) n : rev (repeat x n) = repeat x n.
Proof.
  induction n as [|n IH]; [reflexivity|]. cbn [repeat rev]. rewrite IH. clear.
  induction n; cbn; [reflexivity|]. f_equal. assumption.
Qed.

(** [strip_nl] removes exactly the maximal suffix of newlines: the input is the result
    followed by newlines only, and the result does not end in a newline. *)
Theorem cmdsub_strip s : exists k,
  s = strip_nl s ++ repeat NL k /\ (strip_nl s = [] \/ exists s' c, strip_nl s = s' ++ [c] /\ c <> NL).
Proof.
  unfold strip_nl.
  destruct (drop_while_spec is_nl (rev s)) as [pre [H1 [H2 H3]]].
  exists (length pre). split.
  - assert (Hrep : pre = repeat NL (length pre)).
    { clear H1. induction pre as [|c l IHl]; [reflexivity|].
      inversion H2 as [|? ? Hc Hl]; subst. cbn. unfold is_nl in Hc. apply N.eqb_eq in Hc.
      subst c. f_equal. apply IHl. assumption. }
    rewrite <- (rev_involutive s) at 1. rewrite H1 at 1. rewrite rev_app_distr. f_equal.
    rewrite Hrep at 1. apply rev_repeat.
  - destruct (drop_while is_nl (rev s)) as [|c r]; [left; reflexivity|].
    right. exists (rev r), c. split; [reflexivity|].
    unfold is_nl in H3. apply N.eqb_neq in H3. exact H3.
Qed.

(** idempotent, and the identity on strings not ending in a newline *)
Lemma strip_nl_no_trailing s c : c <> NL -> strip_nl (s ++ [c]) = s ++ [c].
Proof.
  intros Hc. unfold strip_nl. rewrite rev_app_distr. cbn [rev app drop_while].
  unfold is_nl. destruct (N.eqb_spec c NL); [contradiction|].
  cbn [rev]. rewrite rev_involutive. reflexivity.
Qed.

Lemma strip_nl_app_nl s : strip_nl (s ++ [NL]) = strip_nl s.
Proof.
  unfold strip_nl. rewrite rev_app_distr. cbn [rev app drop_while]. unfold is_nl at 1.
  rewrite N.eqb_refl. reflexivity.
Qed.
