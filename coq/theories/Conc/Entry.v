(** C11 correspondence entries. *)
From Coq Require Import String.
From BV Require Import Base.Prelude Base.Codec Conc.Pipe Conc.Sched Conc.Status Conc.Known Conc.Kahn.

(** ---- c11_sched: <C> then per stage: <S|I> <drop> <take|n> <emit 0/1> <srccount>
    Source data of stage i are the ids i*2^24 + [0..count). Output, for the producer-first, the
    consumer-first and the unit-by-unit consumer-first scheduler: <final|stuck|fuel> <out as id ranges> <statuses>. *)
Definition dec_take (s : str) : option nat :=
  match s with 110%N :: _ => None | _ => Some (dec_nat s) end.

(** [count] consecutive ids from [start] (linear; [N.of_nat] per element would be quadratic) *)
Fixpoint nseq (count : nat) (start : N) : list N :=
  match count with O => [] | S c => start :: nseq c (start + 1)%N end.

Fixpoint dec_stages (fuel : nat) (i : N) (a : list str) : list (stage N) :=
  match fuel with O => [] | S fuel =>
  match a with
  | k :: d :: t :: e :: c :: r =>
      let knd := match k with 73%N :: _ => Inline | _ => Spawned end in
      let data := nseq (dec_nat c) (i * 16777216)%N in
      mkStage knd NotStarted (dec_nat d) (dec_take t) (dec_bool e) data :: dec_stages fuel (i + 1)%N r
  | _ => []
  end end.

Fixpoint ranges (cur : option (N * N)) (l : list N) : list (N * N) :=
  match l with
  | [] => match cur with Some r => [r] | None => [] end
  | x :: l' =>
      match cur with
      | Some (a, b) => if N.eqb x (b + 1)%N then ranges (Some (a, x)) l'
                       else (a, b) :: ranges (Some (x, x)) l'
      | None => ranges (Some (x, x)) l'
      end
  end.

Fixpoint join (sep : str) (l : list str) : str :=
  match l with
  | [] => []
  | [x] => x
  | x :: r => x ++ sep ++ join sep r
  end.

Definition show_ranges (l : list N) : str :=
  join (lit ",") (map (fun r => show_N (fst r) ++ lit "-" ++ show_N (snd r)) (ranges None l)).
Definition show_nats (l : list nat) : str := join (lit ",") (map enc_nat l).

Definition show_sst (st : sstate) : str :=
  match st with NotStarted => lit "N" | Running => lit "R" | Done c => lit "D" ++ enc_nat c end.

Definition show_outcome (o : outcome N) : list str :=
  match o with
  | OFinal s => [lit "final"; show_ranges (out s); show_nats (sts s)]
  | OStuck s => [lit "stuck"; show_ranges (out s); join (lit ",") (map (fun sg => show_sst (sst sg)) (stages s))]
  | OFuel s => [lit "fuel"; show_ranges (out s); show_nats (sts s)]
  end.

Definition total_units (sgs : list (stage N)) : nat :=
  fold_right (fun sg a => (length (spend sg) + a)%nat) 0%nat sgs.

Definition entry_c11_sched (a : list str) : list str :=
  match a with
  | c :: r =>
      let C := dec_nat c in
      let sgs := dec_stages (length r) 0%N r in
      let n := length sgs in
      (* small + big: the extracted [Nat.add] recurses on its first argument *)
      let fuel := ((6 * n + 10) + (2 * n + 3) * total_units sgs)%nat in
      show_outcome (run_sched C (S C) false fuel (init sgs)) ++
      show_outcome (run_sched C (S C) true fuel (init sgs)) ++
      (* the slowest producer (one unit per step, consumers first); only affordable on small payloads *)
      show_outcome (run_sched C (if (total_units sgs <=? 4096)%nat then 1%nat else S C) true fuel (init sgs))
  | [] => []
  end.

(** ---- c11_known: same arguments as c11_sched -> 1 iff the pipeline is in the class of the
    known finding (a non-final inline stage emitting more than the capacity), then the counts, then
    the specified output [spec_out] (composition of the stream functions) as id ranges *)
Definition entry_c11_known (a : list str) : list str :=
  match a with
  | c :: r =>
      let sgs := dec_stages (length r) 0%N r in
      [enc_bool (known_class N (dec_nat c) sgs); show_nats (counts N 0%nat sgs); show_ranges (spec_out N sgs)]
  | [] => []
  end.

(** ---- c11_status: <pipefail 0/1> <bang 0/1> code* -> <$?> <PIPESTATUS joined> *)
Definition entry_c11_status (a : list str) : list str :=
  match a with
  | pf :: bg :: codes =>
      let '(r, l) := pipeline_status (dec_bool pf) (dec_bool bg) (map dec_nat codes) in
      [enc_nat r; show_nats l]
  | _ => []
  end.

(** ---- c11_strip: <raw output> -> <value of the substitution> *)
Definition entry_c11_strip (a : list str) : list str :=
  match a with
  | s :: _ => [cmdsub_value s]
  | [] => [[]]
  end.
