(** C17 correspondence entry: job-table op sequences.
    args: <cur|fix> then ops: A | F <task> | P | W | J <id>
    out : per op one field: the table as "<id><+|-|_><R|D>" joined by ","; for P and W prefixed
          by "rm=<ids>|" resp. "ret=<ids>|" (the jobs removed / returned). *)
From Coq Require Import String.
From BV Require Import Base.Prelude Base.Codec Conc.Jobs Conc.Entry.

Fixpoint dec_jops (fuel : nat) (a : list str) : list op :=
  match fuel with O => [] | S fuel =>
  match a with
  | [65%N] :: r => OAdd :: dec_jops fuel r
  | [70%N] :: t :: r => OFin (dec_nat t) :: dec_jops fuel r
  | [80%N] :: r => OPoll :: dec_jops fuel r
  | [87%N] :: r => OWaitAll :: dec_jops fuel r
  | [74%N] :: i :: r => OWaitJob (dec_nat i) :: dec_jops fuel r
  | _ => []
  end end.

Definition show_job (j : job) : str :=
  enc_nat (jid j) ++ (match jann j with ACur => lit "+" | APrev => lit "-" | ANone => lit "_" end)
                  ++ (match jst j with JRunning => lit "R" | JDone => lit "D" end).
Definition show_table (m : mgr) : str := join (lit ",") (map show_job m).
Definition show_ids (l : list job) : str := join (lit ",") (map (fun j => enc_nat (jid j)) l).

Fixpoint jtrace (fixed : bool) (w : world) (os : list op) : list str :=
  match os with
  | [] => []
  | o :: r =>
      let '(w', res) := op_step fixed w o in
      let t := show_table (table w') in
      (match o with
       | OPoll => lit "rm=" ++ show_ids res ++ lit "|" ++ t
       | OWaitAll => lit "ret=" ++ show_ids res ++ lit "|" ++ t
       | _ => t
       end) :: jtrace fixed w' r
  end.

Definition entry_c17_jobs (a : list str) : list str :=
  match a with
  | v :: r => jtrace (str_eqb v (lit "fix")) world0 (dec_jops (length r) r)
  | [] => []
  end.
