(** C17 correspondence entry: job-table op sequences.
    args: <cur|fix> then ops: A | E | F <task> | P | W | J <id> | M <n> <spec>*n
    out : per op one field: the table as "<id><+|-|_><R|D>" joined by ","; for P and W prefixed
          by "rm=<ids>|" resp. "ret=<ids>|" (the jobs removed / returned); for J and M (`wait %spec...`)
          prefixed by "s=<status>|". *)
From Coq Require Import String.
From BV Require Import Base.Prelude Base.Codec Conc.Jobs Conc.Entry.

(** ops of the trace: a table op, or `wait %spec ...` (specs: a job number, "+", "-") *)
Inductive jop := JO (o : op) | JWait (specs : list str).

Fixpoint take_specs (n : nat) (a : list str) : list str * list str :=
  match n, a with
  | O, _ => ([], a)
  | S n', x :: r => let '(l, rest) := take_specs n' r in (x :: l, rest)
  | S _, [] => ([], [])
  end.

Fixpoint dec_jops (fuel : nat) (a : list str) : list jop :=
  match fuel with O => [] | S fuel =>
  match a with
  | [65%N] :: r => JO OAdd :: dec_jops fuel r
  | [69%N] :: r => JO OAdd :: dec_jops fuel r          (* E: a job that ends with an error is a job *)
  | [70%N] :: t :: r => JO (OFin (dec_nat t)) :: dec_jops fuel r
  | [80%N] :: r => JO OPoll :: dec_jops fuel r
  | [87%N] :: r => JO OWaitAll :: dec_jops fuel r
  | [74%N] :: i :: r => JWait [i] :: dec_jops fuel r
  | [77%N] :: n :: r => let '(sp, rest) := take_specs (dec_nat n) r in JWait sp :: dec_jops fuel rest
  | _ => []
  end end.

(** [resolve_job_spec]: "%+" the current job, "%-" the previous one, "%n" the job numbered n *)
Definition resolve (m : mgr) (sp : str) : option nat :=
  match sp with
  | [43%N] => option_map jid (find is_cur m)
  | [45%N] => option_map jid (find is_prev m)
  | _ => let id := dec_nat sp in
         if existsb (fun j => (jid j =? id)%nat) m then Some id else None
  end.

(** the `wait` builtin with specs: every spec is resolved and waited for in turn; an unresolved spec
    makes the status 1 but does not stop the others from being waited for *)
Fixpoint wait_specs (fixed : bool) (w : world) (st : nat) (specs : list str) : world * nat :=
  match specs with
  | [] => (w, st)
  | sp :: r => match resolve (table w) sp with
               | Some id => wait_specs fixed (fst (op_step fixed w (OWaitJob id))) st r
               | None => wait_specs fixed w 1%nat r
               end
  end.

Definition show_job (j : job) : str :=
  enc_nat (jid j) ++ (match jann j with ACur => lit "+" | APrev => lit "-" | ANone => lit "_" end)
                  ++ (match jst j with JRunning => lit "R" | JDone => lit "D" end).
Definition show_table (m : mgr) : str := join (lit ",") (map show_job m).
Definition show_ids (l : list job) : str := join (lit ",") (map (fun j => enc_nat (jid j)) l).

Fixpoint jtrace (fixed : bool) (w : world) (os : list jop) : list str :=
  match os with
  | [] => []
  | JO o :: r =>
      let '(w', res) := op_step fixed w o in
      let t := show_table (table w') in
      (match o with
       | OPoll => lit "rm=" ++ show_ids res ++ lit "|" ++ t
       | OWaitAll => lit "ret=" ++ show_ids res ++ lit "|" ++ t
       | _ => t
       end) :: jtrace fixed w' r
  | JWait specs :: r =>
      let '(w', st) := wait_specs fixed w 0%nat specs in
      (lit "s=" ++ enc_nat st ++ lit "|" ++ show_table (table w')) :: jtrace fixed w' r
  end.

Definition entry_c17_jobs (a : list str) : list str :=
  match a with
  | v :: r => jtrace (str_eqb v (lit "fix")) world0 (dec_jops (length r) r)
  | [] => []
  end.
