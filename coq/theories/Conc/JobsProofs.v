(** C17 — theorems about the job table model (Conc/Jobs.v). *)
From BV Require Import Base.Prelude Conc.Jobs.

Definition ids (m : mgr) : list nat := map jid m.

(** ---- job numbers ---- *)

(** brush today: add, add, task 1 finishes, poll, add => two live jobs numbered 2 *)
Definition dup_ops : list op := [OAdd; OAdd; OFin 1%nat; OPoll; OAdd].

Theorem ids_distinct_refuted :
  exists ops, let m := table (run_ops false world0 ops) in
    ~ NoDup (ids m) /\ Forall (fun j => jst j = JRunning /\ jtasks j <> []) m.
Proof.
  exists dup_ops. vm_compute. split.
  - intros H. inversion H as [|x l Hn _]; subst. apply Hn. left. reflexivity.
  - repeat constructor; discriminate.
Qed.

(** strictly increasing ids *)
Fixpoint inc (l : list nat) : Prop :=
  match l with [] => True | x :: r => Forall (fun y => (x < y)%nat) r /\ inc r end.

Lemma inc_NoDup l : inc l -> NoDup l.
Proof.
  induction l as [|x r IH]; intros H; [constructor|]. destruct H as [Hf Hi].
  constructor; [|apply IH; exact Hi].
  intros Hin. rewrite Forall_forall in Hf. specialize (Hf x Hin). lia.
Qed.

Lemma inc_app_last l x : inc l -> Forall (fun y => (y < x)%nat) l -> inc (l ++ [x]).
Proof.
  induction l as [|a r IH]; intros Hi Hf; cbn; [split; [constructor|exact I]|].
  destruct Hi as [Ha Hr]. inversion Hf as [|? ? Hax Hrx]; subst. split.
  - apply Forall_app. split; [exact Ha|]. constructor; [exact Hax|constructor].
  - apply IH; assumption.
Qed.

Lemma ids_demote_first m : ids (demote_first m) = ids m.
Proof.
  induction m as [|j r IH]; [reflexivity|]. cbn. destruct (is_cur j); cbn; [reflexivity|].
  f_equal. exact IH.
Qed.

Lemma ids_clear_prev m : ids (clear_prev m) = ids m.
Proof.
  unfold ids, clear_prev. rewrite map_map. apply map_ext. intros j. destruct (is_prev j); reflexivity.
Qed.

Lemma max_id_ge m : Forall (fun y => (y < S (max_id m))%nat) (ids m).
Proof.
  induction m as [|j r IH]; [constructor|].
  unfold ids, max_id in *. cbn [map fold_right]. constructor.
  - lia.
  - eapply Forall_impl; [|exact IH]. cbn beta. intros a Ha. lia.
Qed.

Lemma poll_ids_incl fin m x : In x (ids (fst (poll fin m))) -> In x (ids m).
Proof.
  induction m as [|j r IH]; cbn; [auto|].
  destruct (poll_done fin j) as [j' d] eqn:Hpd. destruct (poll fin r) as [m' res] eqn:Hp.
  cbn [fst] in IH.
  assert (Hid : jid j' = jid j).
  { unfold poll_done in Hpd. destruct (drop_finished fin (jtasks j)); inversion Hpd; reflexivity. }
  destruct d; [cbn; auto|]. destruct (jst j'); cbn; [|auto].
  intros [H|H]; [left; congruence|auto].
Qed.

Lemma poll_inc fin m : inc (ids m) -> inc (ids (fst (poll fin m))).
Proof.
  induction m as [|j r IH]; cbn; [auto|]. intros [Hf Hi].
  pose proof (poll_ids_incl fin r) as Hincl.
  destruct (poll_done fin j) as [j' d] eqn:Hpd. destruct (poll fin r) as [m' res] eqn:Hp.
  cbn [fst] in *.
  assert (Hid : jid j' = jid j).
  { unfold poll_done in Hpd. destruct (drop_finished fin (jtasks j)); inversion Hpd; reflexivity. }
  destruct d; [cbn; auto|]. destruct (jst j'); cbn; [|auto]. split; [|auto].
  apply Forall_forall. intros y Hy. rewrite Hid. rewrite Forall_forall in Hf. apply Hf, Hincl, Hy.
Qed.

Lemma ids_wait_first id m : ids (fst (wait_first id m)) = ids m.
Proof.
  induction m as [|j r IH]; [reflexivity|]. cbn. destruct (jid j =? id)%nat; [reflexivity|].
  destruct (wait_first id r) as [r' ts]. cbn in *. f_equal. exact IH.
Qed.

Lemma wait_all_done_empty m : fst (wait_all_done m) = [].
Proof.
  unfold wait_all_done, sweep. cbn [fst]. induction m as [|j r IH]; [reflexivity|]. cbn. exact IH.
Qed.

(** repaired assignment: whatever the history, live jobs carry distinct numbers *)
Theorem ids_distinct_fixed : forall ops, NoDup (ids (table (run_ops true world0 ops))).
Proof.
  intros ops. apply inc_NoDup.
  assert (H : forall w, inc (ids (table w)) -> inc (ids (table (run_ops true w ops)))).
  { induction ops as [|o r IH]; intros w Hw; [exact Hw|]. cbn [run_ops]. apply IH.
    destruct o; cbn [op_step fst table].
    - unfold add_fixed. unfold ids. rewrite map_app. fold (ids (demote_first (clear_prev (table w)))).
      rewrite ids_demote_first, ids_clear_prev. cbn [map jid]. apply inc_app_last; [exact Hw|apply max_id_ge].
    - exact Hw.
    - pose proof (poll_inc (fun t => memb t (finished w)) (table w) Hw) as Hp.
      destruct (poll (fun t => memb t (finished w)) (table w)) as [m' res]. exact Hp.
    - pose proof (wait_all_done_empty (table w)) as He.
      destruct (wait_all_done (table w)) as [m' res]. cbn in He. subst m'. exact I.
    - pose proof (ids_wait_first id (table w)) as Hi.
      destruct (wait_first id (table w)) as [m' ts]. cbn in *. rewrite Hi. exact Hw. }
  apply H. exact I.
Qed.

Lemma firstn_seq' : forall n k a, firstn k (seq a n) = seq a (Nat.min k n).
Proof.
  induction n as [|n IH]; intros [|k] a; cbn; try reflexivity. f_equal. apply IH.
Qed.

(** brush today: numbers stay distinct as long as jobs only leave from the end of the table *)
Definition canonical (m : mgr) : Prop := ids m = seq 1 (length m).

Theorem ids_distinct_if_suffix_removal :
  canonical [] /\
  (forall m ts, canonical m -> canonical (add_as_current m ts)) /\
  (forall m k, canonical m -> canonical (firstn k m)) /\
  (forall m, canonical m -> NoDup (ids m)).
Proof.
  unfold canonical. repeat split.
  - intros m ts H. unfold add_as_current, ids. rewrite map_app. fold (ids (demote_first m)).
    rewrite ids_demote_first, H, app_length. cbn [map jid length].
    rewrite Nat.add_1_r, seq_S.
    assert (Hl : length (demote_first m) = length m).
    { clear. induction m as [|j r IH]; [reflexivity|]. cbn. destruct (is_cur j); cbn; auto. }
    rewrite Hl. reflexivity.
  - intros m k H. unfold ids in *. rewrite <- firstn_map, H, firstn_length.
    rewrite firstn_seq'. reflexivity.
  - intros m H. rewrite H. apply seq_NoDup.
Qed.

(** ---- current / previous annotations ---- *)
Definition count (f : job -> bool) (m : mgr) : nat := length (filter f m).

Lemma count_demote_cur m : (count is_cur m <= 1 -> count is_cur (demote_first m) = 0)%nat.
Proof.
  unfold count. induction m as [|j r IH]; [reflexivity|]. cbn. destruct (is_cur j) eqn:Hc.
  - intros H. cbn [length] in H.
    replace (filter is_cur (set_ann j APrev :: r)) with (filter is_cur r) by reflexivity. lia.
  - cbn. rewrite Hc. exact IH.
Qed.

Lemma count_demote_prev m : (count is_prev (demote_first m) <= S (count is_prev m))%nat.
Proof.
  unfold count. induction m as [|j r IH]; [cbn; lia|]. cbn. destruct (is_cur j) eqn:Hc.
  - replace (filter is_prev (set_ann j APrev :: r)) with (set_ann j APrev :: filter is_prev r) by reflexivity.
    cbn [length]. destruct (is_prev j); cbn [length]; lia.
  - cbn. destruct (is_prev j); cbn [length]; lia.
Qed.

Lemma count_clear_prev m : count is_prev (clear_prev m) = 0%nat /\
                           count is_cur (clear_prev m) = count is_cur m.
Proof.
  unfold count, clear_prev. induction m as [|j r [IH1 IH2]]; [split; reflexivity|]. cbn.
  destruct (is_prev j) eqn:Hp.
  - assert (Hc : is_cur j = false) by (unfold is_prev in Hp; unfold is_cur; destruct (jann j); try discriminate; reflexivity).
    rewrite Hc.
    replace (is_prev (set_ann j ANone)) with false by reflexivity.
    replace (is_cur (set_ann j ANone)) with false by reflexivity. split; assumption.
  - rewrite Hp. split; [exact IH1|]. destruct (is_cur j); cbn [length]; lia.
Qed.

Lemma count_app f m1 m2 : count f (m1 ++ m2) = (count f m1 + count f m2)%nat.
Proof. unfold count. rewrite filter_app, app_length. reflexivity. Qed.

Lemma poll_done_ann fin j : jann (fst (poll_done fin j)) = jann j.
Proof. unfold poll_done. destruct (drop_finished fin (jtasks j)); reflexivity. Qed.

Lemma count_poll (f : job -> bool) fin m :
  (forall j j', jann j' = jann j -> f j' = f j) ->
  (count f (fst (poll fin m)) <= count f m)%nat.
Proof.
  intros Hf. unfold count. induction m as [|j r IH]; cbn; [lia|].
  pose proof (poll_done_ann fin j) as Ha.
  destruct (poll_done fin j) as [j' d]. destruct (poll fin r) as [m' res]. cbn [fst] in *.
  rewrite <- (Hf j j' Ha).
  destruct d; [destruct (f j'); cbn; lia|].
  destruct (jst j'); cbn; destruct (f j'); cbn; lia.
Qed.

Lemma count_wait_first (f : job -> bool) id m :
  (forall j j', jann j' = jann j -> f j' = f j) ->
  count f (fst (wait_first id m)) = count f m.
Proof.
  intros Hf. unfold count. induction m as [|j r IH]; [reflexivity|]. cbn.
  destruct (jid j =? id)%nat.
  - cbn. rewrite (Hf j (mkJob (jid j) [] (jann j) JDone) eq_refl). destruct (f j); reflexivity.
  - destruct (wait_first id r) as [r' ts]. cbn in *. destruct (f j); cbn [length]; rewrite IH; reflexivity.
Qed.

Lemma is_cur_ann j j' : jann j' = jann j -> is_cur j' = is_cur j.
Proof. unfold is_cur. intros ->. reflexivity. Qed.
Lemma is_prev_ann j j' : jann j' = jann j -> is_prev j' = is_prev j.
Proof. unfold is_prev. intros ->. reflexivity. Qed.

(** at most one job is marked current — today's code and the repaired one, every history *)
Theorem current_unique : forall fixed ops, (count is_cur (table (run_ops fixed world0 ops)) <= 1)%nat.
Proof.
  intros fixed ops.
  assert (H : forall w, (count is_cur (table w) <= 1)%nat ->
                        (count is_cur (table (run_ops fixed w ops)) <= 1)%nat).
  { induction ops as [|o r IH]; intros w Hw; [exact Hw|]. cbn [run_ops]. apply IH.
    destruct o; cbn [op_step fst table].
    - destruct fixed.
      + unfold add_fixed. rewrite count_app. destruct (count_clear_prev (table w)) as [_ Hc].
        rewrite count_demote_cur by lia. cbn. lia.
      + unfold add_as_current. rewrite count_app, count_demote_cur by exact Hw. cbn. lia.
    - exact Hw.
    - pose proof (count_poll is_cur (fun t => memb t (finished w)) (table w) is_cur_ann) as Hp.
      destruct (poll (fun t => memb t (finished w)) (table w)) as [m' res]. cbn in *. lia.
    - pose proof (wait_all_done_empty (table w)) as He.
      destruct (wait_all_done (table w)) as [m' res]. cbn in He. subst m'. cbn. lia.
    - pose proof (count_wait_first is_cur id (table w) is_cur_ann) as Hi.
      destruct (wait_first id (table w)) as [m' ts]. cbn in *. lia. }
  apply H. cbn. lia.
Qed.

(** brush today: three launches leave two jobs marked previous *)
Theorem previous_unique_refuted :
  exists ops, (count is_prev (table (run_ops false world0 ops)) = 2)%nat.
Proof. exists [OAdd; OAdd; OAdd]. reflexivity. Qed.

Theorem previous_unique_fixed : forall ops, (count is_prev (table (run_ops true world0 ops)) <= 1)%nat.
Proof.
  intros ops.
  assert (H : forall w, (count is_prev (table w) <= 1)%nat ->
                        (count is_prev (table (run_ops true w ops)) <= 1)%nat).
  { induction ops as [|o r IH]; intros w Hw; [exact Hw|]. cbn [run_ops]. apply IH.
    destruct o; cbn [op_step fst table].
    - unfold add_fixed. rewrite count_app. destruct (count_clear_prev (table w)) as [Hp _].
      pose proof (count_demote_prev (clear_prev (table w))). cbn. lia.
    - exact Hw.
    - pose proof (count_poll is_prev (fun t => memb t (finished w)) (table w) is_prev_ann) as Hp.
      destruct (poll (fun t => memb t (finished w)) (table w)) as [m' res]. cbn in *. lia.
    - pose proof (wait_all_done_empty (table w)) as He.
      destruct (wait_all_done (table w)) as [m' res]. cbn in He. subst m'. cbn. lia.
    - pose proof (count_wait_first is_prev id (table w) is_prev_ann) as Hi.
      destruct (wait_first id (table w)) as [m' ts]. cbn in *. lia. }
  apply H. cbn. lia.
Qed.

(** ---- wait_all ---- *)
Lemma upd_job_length i f m : length (upd_job i f m) = length m.
Proof. revert i; induction m as [|j r IH]; intros [|i]; cbn; auto. Qed.

Lemma nth_error_upd_job m : forall i f k,
  nth_error (upd_job i f m) k =
  if (i =? k)%nat then option_map f (nth_error m k) else nth_error m k.
Proof.
  induction m as [|j r IH]; intros [|i] f [|k]; cbn; try reflexivity.
  - destruct (i =? k)%nat; reflexivity.
  - apply IH.
Qed.

Lemma ids_upd_job i f m : (forall j, jid (f j) = jid j) -> ids (upd_job i f m) = ids m.
Proof.
  intros Hf. revert i; induction m as [|j r IH]; intros [|i]; cbn; try reflexivity.
  - rewrite Hf. reflexivity.
  - f_equal. apply IH.
Qed.

Record WInv (m : mgr) (w : wst) : Prop := {
  wi_ids : ids (wm w) = ids m;
  wi_idx : (widx w <= length m)%nat;
  wi_jobs : forall i j0 j, nth_error m i = Some j0 -> nth_error (wm w) i = Some j ->
      ((i < widx w)%nat -> jtasks j = [] /\ jst j = JDone /\ forall t, In t (jtasks j0) -> In t (wfin w)) /\
      (i = widx w -> exists popped, jtasks j0 = jtasks j ++ popped /\ forall t, In t popped -> In t (wfin w)) /\
      ((widx w < i)%nat -> j = j0)
}.

Lemma memb_In t l : memb t l = true -> In t l.
Proof.
  unfold memb. intros H. apply existsb_exists in H. destruct H as [x [Hin Hx]].
  apply Nat.eqb_eq in Hx. subst. exact Hin.
Qed.

Lemma winv_step m w e w' : WInv m w -> wev_step w e = Some w' -> WInv m w'.
Proof.
  intros [Hids Hidx Hj] He. destruct e as [t|]; cbn in He.
  - inversion He; subst w'; clear He. constructor; cbn [wm widx wfin]; auto.
    intros i j0 j H0 H1. destruct (Hj i j0 j H0 H1) as [A [B Cc]]. repeat split.
    + apply A; assumption.
    + apply A; assumption.
    + intros t0 Ht. right. apply A; assumption.
    + intros E. destruct (B E) as [pp [P1 P2]]. exists pp. split; [exact P1|]. intros t0 Ht. right. auto.
    + exact Cc.
  - unfold wait_step in He.
    destruct (nth_error (wm w) (widx w)) as [jc|] eqn:Hc; [|discriminate].
    assert (Hlen : length (wm w) = length m).
    { unfold ids in Hids. rewrite <- (map_length jid (wm w)), Hids, map_length. reflexivity. }
    assert (Hlt : (widx w < length m)%nat).
    { rewrite <- Hlen. apply nth_error_Some. congruence. }
    destruct (nth_error m (widx w)) as [j0c|] eqn:H0c; [|apply nth_error_None in H0c; lia].
    destruct (Hj _ _ _ H0c Hc) as [_ [Bc _]]. destruct (Bc eq_refl) as [popped [P1 P2]].
    destruct (rev (jtasks jc)) as [|t rest] eqn:Hrev.
    + (* the job has no task left: mark Done, move on *)
      assert (Hnil : jtasks jc = []).
      { rewrite <- (rev_involutive (jtasks jc)), Hrev. reflexivity. }
      inversion He; subst w'; clear He. constructor; cbn [wm widx wfin].
      * rewrite ids_upd_job; [exact Hids|reflexivity].
      * lia.
      * intros i j0 j H0 H1. rewrite nth_error_upd_job in H1.
        destruct (Nat.eqb_spec (widx w) i) as [<-|Hne].
        -- rewrite Hc in H1. cbn in H1. inversion H1; subst j; clear H1. rewrite H0c in H0.
           inversion H0; subst j0c. repeat split; cbn; try lia.
           intros t Ht. apply P2. rewrite P1, Hnil in Ht. exact Ht.
        -- destruct (Hj i j0 j H0 H1) as [A [B Cc]]. repeat split.
           ++ apply A; lia.
           ++ apply A; lia.
           ++ apply A; lia.
           ++ intros E. assert (widx w < i)%nat by lia. rewrite (Cc H). exists []. rewrite app_nil_r.
              split; [reflexivity|]. intros ? [].
           ++ intros Hgt. apply Cc. lia.
    + destruct (memb t (wfin w)) eqn:Hm; [|discriminate].
      inversion He; subst w'; clear He. apply memb_In in Hm.
      assert (Hts : jtasks jc = rev rest ++ [t]).
      { rewrite <- (rev_involutive (jtasks jc)), Hrev. reflexivity. }
      constructor; cbn [wm widx wfin].
      * rewrite ids_upd_job; [exact Hids|reflexivity].
      * exact Hidx.
      * intros i j0 j H0 H1. rewrite nth_error_upd_job in H1.
        destruct (Nat.eqb_spec (widx w) i) as [<-|Hne].
        -- rewrite Hc in H1. cbn in H1. inversion H1; subst j; clear H1. rewrite H0c in H0.
           inversion H0; subst j0c. repeat split; cbn [jtasks jst]; try lia.
           intros _. exists (t :: popped). split.
           ++ rewrite P1, Hts, <- app_assoc. reflexivity.
           ++ intros t0 [<-|Ht]; [exact Hm|apply P2; exact Ht].
        -- destruct (Hj i j0 j H0 H1) as [A [B Cc]]. repeat split; try (apply A; assumption).
           ++ intros E. congruence.
           ++ exact Cc.
Qed.

Lemma winv_init m fin0 : WInv m (mkW m 0 fin0).
Proof.
  constructor; cbn; [reflexivity|lia|].
  intros i j0 j H0 H1. rewrite H0 in H1. inversion H1; subst. repeat split; try lia.
  intros _. exists []. rewrite app_nil_r. split; [reflexivity|]. intros ? [].
Qed.

Lemma winv_run m : forall es w w', WInv m w -> wrun w es = Some w' -> WInv m w'.
Proof.
  induction es as [|e r IH]; intros w w' HI H; cbn in H.
  - inversion H; subst. exact HI.
  - destruct (wev_step w e) as [w1|] eqn:E; [|discriminate].
    eapply IH; [|exact H]. eapply winv_step; eauto.
Qed.

(** *** wait_all: however task completions and the waiter's steps interleave, when wait_all
    returns every task of every job that was in the table has finished; it returns exactly the
    jobs of the table — same numbers, same order, hence none twice and none lost —, each
    without tasks and marked Done; and the table is left empty. *)
Theorem wait_all_post : forall m fin0 es w m' ret,
  wrun (mkW m 0 fin0) es = Some w -> wait_returned w = Some (m', ret) ->
  (forall j t, In j m -> In t (jtasks j) -> In t (wfin w)) /\
  ids ret = ids m /\ m' = [] /\
  Forall (fun j => jtasks j = [] /\ jst j = JDone) ret.
Proof.
  intros m fin0 es w m' ret Hrun Hret.
  pose proof (winv_run m es _ _ (winv_init m fin0) Hrun) as [Hids Hidx Hj].
  unfold wait_returned in Hret. destruct (widx w =? length (wm w))%nat eqn:He; [|discriminate].
  apply Nat.eqb_eq in He. inversion Hret; subst m' ret; clear Hret.
  assert (Hlen : length (wm w) = length m).
  { unfold ids in Hids. rewrite <- (map_length jid (wm w)), Hids, map_length. reflexivity. }
  assert (Hall : forall j, In j (wm w) -> jtasks j = [] /\ jst j = JDone).
  { intros j Hin. apply In_nth_error in Hin. destruct Hin as [i Hi].
    assert (Hlt : (i < length m)%nat) by (rewrite <- Hlen; apply nth_error_Some; congruence).
    destruct (nth_error m i) as [j0|] eqn:H0; [|apply nth_error_None in H0; lia].
    destruct (Hj i j0 j H0 Hi) as [A _]. destruct A as [A1 [A2 _]]; [lia|]. auto. }
  assert (Hf1 : filter no_tasks (wm w) = wm w).
  { clear -Hall. induction (wm w) as [|j r IH]; [reflexivity|]. cbn.
    destruct (Hall j (or_introl eq_refl)) as [Ht _]. unfold no_tasks at 1. rewrite Ht. f_equal.
    apply IH. intros j' Hin. apply Hall. right. exact Hin. }
  assert (Hf2 : filter (fun j => negb (no_tasks j)) (wm w) = []).
  { clear -Hall. induction (wm w) as [|j r IH]; [reflexivity|]. cbn.
    destruct (Hall j (or_introl eq_refl)) as [Ht _]. unfold no_tasks at 1. rewrite Ht. cbn.
    apply IH. intros j' Hin. apply Hall. right. exact Hin. }
  repeat split.
  - intros j0 t Hin Ht. apply In_nth_error in Hin. destruct Hin as [i Hi].
    assert (Hlt : (i < length (wm w))%nat) by (rewrite Hlen; apply nth_error_Some; congruence).
    destruct (nth_error (wm w) i) as [j|] eqn:H1; [|apply nth_error_None in H1; lia].
    destruct (Hj i j0 j Hi H1) as [A _]. destruct A as [_ [_ A3]]; [lia|]. apply A3. exact Ht.
  - cbn [sweep snd]. rewrite Hf1. exact Hids.
  - cbn [sweep fst]. exact Hf2.
  - cbn [sweep snd]. rewrite Hf1. apply Forall_forall. exact Hall.
Qed.

(** the waiter cannot pass a job while one of its tasks is unfinished (it is blocked) *)
Theorem wait_blocks_on_unfinished : forall w j t rest,
  nth_error (wm w) (widx w) = Some j -> rev (jtasks j) = t :: rest -> memb t (wfin w) = false ->
  wait_step w = None.
Proof. intros w j t rest Hn Hr Hm. unfold wait_step. rewrite Hn, Hr, Hm. reflexivity. Qed.

(** non-vacuity: two jobs, tasks finishing in the opposite order, the waiter gets through *)
Example wait_all_example :
  let m := add_as_current (add_as_current [] [1%nat]) [2%nat] in
  exists w, wrun (mkW m 0 []) [EFin 2; EFin 1; EStep; EStep; EStep; EStep]%nat = Some w /\
            wait_returned w = Some ([], map (fun j => mkJob (jid j) [] (jann j) JDone) m).
Proof. eexists. split; reflexivity. Qed.

(** the functional summary used by the correspondence is what the process returns *)
Lemma wait_all_done_spec m : wait_all_done m = ([], map (fun j => mkJob (jid j) [] (jann j) JDone) m).
Proof.
  unfold wait_all_done, sweep. f_equal.
  - induction m as [|j r IH]; [reflexivity|]. cbn. exact IH.
  - induction m as [|j r IH]; [reflexivity|]. cbn. f_equal. exact IH.
Qed.
