(** C11 — what the pipeline delivers does not depend on the schedule.

    [prod sg0 K]: what a stage with initial program [sg0] has produced once it has consumed [K];
    [streams]: the composition of these stream functions along the pipeline; [spec_out]: the last
    stream. Safety ([output_prefix]): on every schedule, at every moment, what has reached the
    pipeline's stdout is a prefix of [spec_out] — no loss, duplication, reordering or corruption.
    Completeness ([output_complete]): in every reachable final state the output is exactly
    [spec_out], also when stages were ended early by EPIPE. *)
From BV Require Import Base.Prelude Conc.Pipe Conc.Sched Conc.SchedProofs.

Definition prefix {X} (a b : list X) : Prop := exists c, b = a ++ c.

Lemma prefix_refl {X} (a : list X) : prefix a a.
Proof. exists []. rewrite app_nil_r. reflexivity. Qed.
Lemma prefix_trans {X} (a b c : list X) : prefix a b -> prefix b c -> prefix a c.
Proof. intros [x ->] [y ->]. exists (x ++ y). rewrite app_assoc. reflexivity. Qed.
Lemma prefix_app {X} (a b : list X) : prefix a (a ++ b).
Proof. exists b. reflexivity. Qed.
Lemma prefix_nil {X} (a : list X) : prefix [] a.
Proof. exists a. reflexivity. Qed.

Section Kahn.
Variable A : Type.
Variable C : nat.

Notation state := (state A).
Notation stage := (stage A).
Notation Inv := (Inv A C).

Definition take_opt (t : option nat) (l : list A) : list A :=
  match t with Some n => firstn n l | None => l end.

Definition prod (sg0 : stage) (K : list A) : list A :=
  spend sg0 ++ (if semit sg0 then take_opt (stake sg0) (skipn (sdrop sg0) K) else []).

Fixpoint streams (X : list A) (sgs : list stage) : list (list A) :=
  match sgs with
  | [] => []
  | sg :: r => let Y := prod sg X in Y :: streams Y r
  end.

Definition spec_out (sgs : list stage) : list A := last (streams [] sgs) [].

(** the input stream of stage i *)
Definition xin (sgs : list stage) (i : nat) : list A :=
  match i with O => [] | S j => nth j (streams [] sgs) [] end.

Lemma streams_nth sgs : forall X i sg0, nth_error sgs i = Some sg0 ->
  nth i (streams X sgs) [] = prod sg0 (match i with O => X | S j => nth j (streams X sgs) [] end).
Proof.
  induction sgs as [|x r IH]; intros X [|i] sg0 H; cbn in H; try discriminate.
  - inversion H; subst. reflexivity.
  - cbn [streams nth]. rewrite (IH (prod x X) i sg0 H). destruct i; reflexivity.
Qed.

Lemma streams_length sgs : forall X, length (streams X sgs) = length sgs.
Proof. induction sgs as [|x r IH]; intros X; cbn; auto. Qed.

(** [prod] is monotone in the consumed input *)
Lemma prod_mono sg0 K K' : prefix K K' -> prefix (prod sg0 K) (prod sg0 K').
Proof.
  intros [c ->]. unfold prod. destruct (semit sg0); [|apply prefix_refl].
  rewrite skipn_app. set (S0 := skipn (sdrop sg0) K). set (c' := skipn (sdrop sg0 - length K) c).
  destruct (stake sg0) as [t|]; cbn [take_opt].
  - rewrite firstn_app. exists (firstn (t - length S0) c'). rewrite app_assoc. reflexivity.
  - exists c'. rewrite app_assoc. reflexivity.
Qed.

(** ---- what the state says about stage i ---- *)
Definition emitted (s : state) (i : nat) : list A :=
  match nth_error (pipes s) i with Some p => hw p | None => out s end.
Definition consumed (s : state) (i : nat) : list A :=
  match i with
  | O => []
  | S j => match nth_error (pipes s) j with Some p => hr p | None => [] end
  end.

Definition ctr_ok (sg0 sg : stage) (K : list A) : Prop :=
  sdrop sg = (sdrop sg0 - length K)%nat /\
  stake sg = match stake sg0 with
             | Some t0 => Some (t0 - (length K - sdrop sg0))%nat
             | None => None
             end /\
  (forall t0, stake sg0 = Some t0 -> (length K <= sdrop sg0 + t0)%nat).

(** the request of the stage is used up: more input would change nothing *)
Definition saturated (sg0 : stage) (K : list A) : Prop :=
  forall K', prefix K K' -> prod sg0 K' = prod sg0 K.

Definition stage_ok (sg0 sg : stage) (E K : list A) : Prop :=
  semit sg = semit sg0 /\
  match sst sg with
  | Done c => prefix E (prod sg0 K) /\ (c = 0%nat -> E = prod sg0 K)
  | _ => E ++ spend sg = prod sg0 K /\ ctr_ok sg0 sg K
  end.

Definition KInv (sgs : list stage) (s : state) : Prop :=
  forall i sg0 sg, nth_error sgs i = Some sg0 -> nth_error (stages s) i = Some sg ->
    stage_ok sg0 sg (emitted s i) (consumed s i).

Lemma nth_error_repeat'' {X} (x : X) n j : nth_error (repeat x n) j = if (j <? n)%nat then Some x else None.
Proof. revert j; induction n as [|n IH]; intros [|j]; cbn; try reflexivity. rewrite IH. reflexivity. Qed.

Lemma prod_nil sg0 : prod sg0 [] = spend sg0.
Proof.
  unfold prod. destruct (semit sg0); [|apply app_nil_r]. rewrite skipn_nil.
  destruct (stake sg0); cbn; [rewrite firstn_nil|]; apply app_nil_r.
Qed.

Lemma KInv_init sgs : KInv sgs (init sgs).
Proof.
  intros i sg0 sg H0 H. unfold init in H. cbn [stages] in H. rewrite nth_error_map, H0 in H.
  inversion H; subst sg; clear H.
  assert (He : emitted (init sgs) i = []).
  { unfold emitted, init. cbn [pipes out]. rewrite nth_error_repeat''. destruct (i <? _)%nat; reflexivity. }
  assert (Hc : consumed (init sgs) i = []).
  { unfold consumed, init. destruct i as [|j]; [reflexivity|]. cbn [pipes]. rewrite nth_error_repeat''.
    destruct (j <? _)%nat; reflexivity. }
  rewrite He, Hc. split; [reflexivity|]. cbn [sst set_st]. split.
  - cbn. symmetry. apply prod_nil.
  - unfold ctr_ok. cbn [set_st sdrop stake length]. repeat split; try lia.
    + destruct (stake sg0); [f_equal; lia|reflexivity].
Qed.

(** histories are untouched by the end of a stage *)
Lemma exit_pipes_hist' (s : state) i sg c k :
  match nth_error (pipes (exit_stage s i sg c)) k, nth_error (pipes s) k with
  | Some p', Some p => hw p' = hw p /\ hr p' = hr p
  | None, None => True
  | _, _ => False
  end.
Proof.
  unfold exit_stage. cbn [pipes].
  set (ps1 := match i with O => pipes s | S j => match nth_error (pipes s) j with
              | Some p => upd j (close_r p) (pipes s) | None => pipes s end end).
  assert (H1 : forall k0, match nth_error ps1 k0, nth_error (pipes s) k0 with
                | Some p', Some p => hw p' = hw p /\ hr p' = hr p
                | None, None => True | _, _ => False end).
  { intros k0. subst ps1. destruct i as [|j].
    - destruct (nth_error (pipes s) k0); auto.
    - destruct (nth_error (pipes s) j) as [pj|] eqn:Hj.
      + rewrite nth_error_upd. destruct (Nat.eqb_spec j k0) as [<-|Hne].
        * rewrite Hj. auto.
        * destruct (nth_error (pipes s) k0); auto.
      + destruct (nth_error (pipes s) k0); auto. }
  destruct (nth_error ps1 i) as [pi|] eqn:Hi.
  - rewrite nth_error_upd. destruct (Nat.eqb_spec i k) as [<-|Hne].
    + rewrite Hi. specialize (H1 i). rewrite Hi in H1.
      destruct (nth_error (pipes s) i); [exact H1|contradiction].
    + apply H1.
  - apply H1.
Qed.

Lemma exit_emitted s i sg c k : emitted (exit_stage s i sg c) k = emitted s k.
Proof.
  unfold emitted. pose proof (exit_pipes_hist' s i sg c k) as H.
  destruct (nth_error (pipes (exit_stage s i sg c)) k), (nth_error (pipes s) k); try contradiction;
    [destruct H as [-> _]; reflexivity | reflexivity].
Qed.

Lemma exit_consumed s i sg c k : consumed (exit_stage s i sg c) k = consumed s k.
Proof.
  unfold consumed. destruct k as [|j]; [reflexivity|].
  pose proof (exit_pipes_hist' s i sg c j) as H.
  destruct (nth_error (pipes (exit_stage s i sg c)) j), (nth_error (pipes s) j); try contradiction;
    [destruct H as [_ ->]; reflexivity | reflexivity].
Qed.

(** one more chunk consumed in the forwarding phase is one more chunk produced *)
Lemma prod_take sg0 K got :
  semit sg0 = true -> (sdrop sg0 <= length K)%nat ->
  (forall t0, stake sg0 = Some t0 -> (length K + length got <= sdrop sg0 + t0)%nat) ->
  prod sg0 (K ++ got) = prod sg0 K ++ got.
Proof.
  intros He Hd Ht. unfold prod. rewrite He, skipn_app.
  replace (sdrop sg0 - length K)%nat with 0%nat by lia. cbn [skipn].
  rewrite <- app_assoc. f_equal.
  destruct (stake sg0) as [t0|]; cbn [take_opt]; [|reflexivity].
  specialize (Ht t0 eq_refl).
  assert (Hl : length (skipn (sdrop sg0) K) = (length K - sdrop sg0)%nat) by apply skipn_length.
  rewrite firstn_app. rewrite (firstn_all2 (n := t0) (skipn (sdrop sg0) K)) by lia.
  f_equal. apply firstn_all2. lia.
Qed.

Lemma prod_drop sg0 K got :
  (length K + length got <= sdrop sg0)%nat -> prod sg0 (K ++ got) = prod sg0 K.
Proof.
  intros Hd. unfold prod. destruct (semit sg0); [|reflexivity]. f_equal.
  rewrite !skipn_all2; [reflexivity|lia|rewrite app_length; lia].
Qed.

Lemma prod_swallow sg0 K K' : semit sg0 = false -> prod sg0 K' = prod sg0 K.
Proof. intros He. unfold prod. rewrite He. reflexivity. Qed.

Lemma KInv_step sgs s s' : Inv s -> length sgs = length (stages s) -> KInv sgs s -> shape A C s s' -> KInv sgs s'.
Proof.
  intros HI Hlen HK Hsh.
  pose proof (inv_len _ _ _ HI) as Hpl.
  destruct Hsh as [sg Hb Hn | sg c Hpcn Hb Hn Hd | i sg m Hn Hr Hl Hm1 Hm2
                  | i sg p p' rest k Hn Hr Hp Hw | j sg p p' got q d t pend Hn Hr Hsp Hp Hrd Hpend Hrel
                  | i sg c Hn Hr Hexit].
  - (* spawn *)
    intros i sg0 sg1 H0 H. cbn [stages] in H. rewrite nth_error_upd in H.
    change (emitted (mkState (upd (pc s) (set_st sg Running) (stages s)) (pipes s) (out s) (S (pc s)) (wt s) (sts s)) i)
      with (emitted s i).
    change (consumed (mkState (upd (pc s) (set_st sg Running) (stages s)) (pipes s) (out s) (S (pc s)) (wt s) (sts s)) i)
      with (consumed s i).
    destruct (Nat.eqb_spec (pc s) i) as [<-|Hne].
    + rewrite Hn in H. inversion H; subst sg1. specialize (HK _ _ _ H0 Hn).
      assert (Hns : sst sg = NotStarted) by (apply (inv_started _ _ _ HI _ _ Hn); lia).
      unfold stage_ok in *. rewrite Hns in HK. cbn [sst set_st semit spend]. exact HK.
    + apply (HK _ _ _ H0 H).
  - (* wait *)
    intros i sg0 sg1 H0 H. apply (HK _ _ _ H0 H).
  - (* the last stage writes to the pipeline's stdout *)
    assert (Hnone : nth_error (pipes s) i = None) by (apply nth_error_None; lia).
    intros i0 sg0 sg1 H0 H. unfold put_stage in H. cbn [stages] in H. rewrite nth_error_upd in H.
    assert (Hc : consumed (put_stage s i (set_io sg (sdrop sg) (stake sg) (skipn m (spend sg))) (pipes s)
                                     (out s ++ firstn m (spend sg))) i0 = consumed s i0) by reflexivity.
    rewrite Hc.
    destruct (Nat.eqb_spec i i0) as [<-|Hne].
    + rewrite Hn in H. inversion H; subst sg1. specialize (HK _ _ _ H0 Hn).
      unfold emitted, put_stage in *. cbn [pipes out]. rewrite Hnone in *.
      unfold stage_ok in *. rewrite Hr in HK. cbn [sst set_io semit spend]. rewrite Hr.
      destruct HK as [He [Heq Hctr]]. split; [exact He|]. split.
      * rewrite <- app_assoc, firstn_skipn. exact Heq.
      * exact Hctr.
    + specialize (HK _ _ _ H0 H).
      assert (Hi0 : (i0 < length (stages s))%nat) by (apply nth_error_Some; congruence).
      assert (Hex : exists p0, nth_error (pipes s) i0 = Some p0).
      { destruct (nth_error (pipes s) i0) eqn:E; [eauto|]. apply nth_error_None in E. lia. }
      destruct Hex as [p0 Hp0]. unfold emitted, put_stage in *. cbn [pipes out]. rewrite Hp0 in *. exact HK.
  - (* stage i writes into pipe i *)
    destruct (inv_pipes _ _ _ HI i p Hp) as [Hok _].
    destruct (pwrite_ok A C k p (spend sg) p' rest Hok Hw) as [_ [_ [_ [m [Hm1 [_ [Hrest [Hm2 [_ [Hhw Hhr]]]]]]]]]].
    intros i0 sg0 sg1 H0 H. unfold put_stage in H. cbn [stages] in H. rewrite nth_error_upd in H.
    assert (Hc : consumed (put_stage s i (set_io sg (sdrop sg) (stake sg) rest) (upd i p' (pipes s)) (out s)) i0
                 = consumed s i0).
    { unfold consumed, put_stage. cbn [pipes]. destruct i0 as [|j0]; [reflexivity|].
      rewrite nth_error_upd. destruct (Nat.eqb_spec i j0) as [<-|]; [|reflexivity]. rewrite Hp, Hhr. reflexivity. }
    rewrite Hc.
    destruct (Nat.eqb_spec i i0) as [<-|Hne].
    + rewrite Hn in H. inversion H; subst sg1. specialize (HK _ _ _ H0 Hn).
      unfold emitted, put_stage in *. cbn [pipes out]. rewrite (nth_error_upd_eq _ _ _ _ Hp). rewrite Hp in HK.
      unfold stage_ok in *. rewrite Hr in HK. cbn [sst set_io semit spend]. rewrite Hr.
      destruct HK as [He [Heq Hctr]]. split; [exact He|]. split; [|exact Hctr].
      rewrite Hhw, Hrest, <- app_assoc, firstn_skipn. exact Heq.
    + specialize (HK _ _ _ H0 H). unfold emitted, put_stage in *. cbn [pipes out].
      rewrite nth_error_upd_neq by exact Hne. exact HK.
  - (* stage S j reads from pipe j *)
    destruct (inv_pipes _ _ _ HI j p Hp) as [Hok _].
    destruct (pread_ok A C q p p' got Hok Hrd) as [_ [_ [_ [Hg1 [Hgq [Hbuf [Hhr Hhw]]]]]]].
    intros i0 sg0 sg1 H0 H. unfold put_stage in H. cbn [stages] in H. rewrite nth_error_upd in H.
    assert (He' : emitted (put_stage s (S j) (set_io sg d t pend) (upd j p' (pipes s)) (out s)) i0 = emitted s i0).
    { unfold emitted, put_stage. cbn [pipes out]. rewrite nth_error_upd.
      destruct (Nat.eqb_spec j i0) as [<-|]; [|reflexivity]. rewrite Hp, Hhw. reflexivity. }
    rewrite He'.
    destruct (Nat.eqb_spec (S j) i0) as [<-|Hne].
    + rewrite Hn in H. inversion H; subst sg1. specialize (HK _ _ _ H0 Hn).
      assert (Hc : consumed (put_stage s (S j) (set_io sg d t pend) (upd j p' (pipes s)) (out s)) (S j) = hr p ++ got).
      { unfold consumed, put_stage. cbn [pipes]. rewrite (nth_error_upd_eq _ _ _ _ Hp). exact Hhr. }
      rewrite Hc. assert (Hc0 : consumed s (S j) = hr p) by (unfold consumed; rewrite Hp; reflexivity).
      rewrite Hc0 in HK. unfold stage_ok in *. rewrite Hr in HK. cbn [sst set_io semit spend]. rewrite Hr.
      destruct HK as [He [Heq [Hc1 [Hc2 Hc3]]]]. rewrite Hsp, app_nil_r in Heq.
      split; [exact He|].
      destruct Hrel as [[Hd0 [Hq [-> [-> ->]]]] | [Hd0 [-> [-> [-> Hq]]]]].
      * (* dropping *)
        assert (Hlen' : (length (hr p) + length got <= sdrop sg0)%nat) by lia.
        split; [rewrite app_nil_r, (prod_drop sg0 _ _ Hlen'); exact Heq|].
        unfold ctr_ok. cbn [set_io sdrop stake]. rewrite app_length. repeat split.
        -- lia.
        -- rewrite Hc2. destruct (stake sg0); [f_equal; lia|reflexivity].
        -- intros t0 Ht0. specialize (Hc3 t0 Ht0). lia.
      * (* forwarding or swallowing *)
        assert (Hd1 : (sdrop sg0 <= length (hr p))%nat) by lia.
        assert (Hlim : forall t0, stake sg0 = Some t0 -> (length (hr p) + length got <= sdrop sg0 + t0)%nat).
        { intros t0 Ht0. specialize (Hc3 t0 Ht0). rewrite Ht0 in Hc2.
          specialize (Hq (t0 - (length (hr p) - sdrop sg0))%nat Hc2). lia. }
        split.
        -- rewrite He. destruct (semit sg0) eqn:Hem.
           ++ rewrite (prod_take sg0 _ _ Hem Hd1 Hlim), <- Heq. reflexivity.
           ++ rewrite app_nil_r, (prod_swallow sg0 (hr p) (hr p ++ got) Hem). exact Heq.
        -- unfold ctr_ok. cbn [set_io sdrop stake]. rewrite app_length. repeat split.
           ++ lia.
           ++ rewrite Hc2. destruct (stake sg0); [f_equal; lia|reflexivity].
           ++ exact Hlim.
    + specialize (HK _ _ _ H0 H).
      assert (Hc : consumed (put_stage s (S j) (set_io sg d t pend) (upd j p' (pipes s)) (out s)) i0 = consumed s i0).
      { unfold consumed, put_stage. cbn [pipes]. destruct i0 as [|j0]; [reflexivity|].
        rewrite nth_error_upd_neq by congruence. reflexivity. }
      rewrite Hc. exact HK.
  - (* a stage ends *)
    intros i0 sg0 sg1 H0 H. rewrite exit_emitted, exit_consumed. unfold exit_stage in H. cbn [stages] in H.
    rewrite nth_error_upd in H. destruct (Nat.eqb_spec i i0) as [<-|Hne].
    + rewrite Hn in H. inversion H; subst sg1. specialize (HK _ _ _ H0 Hn).
      unfold stage_ok in *. rewrite Hr in HK. cbn [sst semit].
      destruct HK as [He [Heq Hctr]]. split; [exact He|]. split.
      * rewrite <- Heq. apply prefix_app.
      * intros ->. destruct Hexit as [[_ [Hs _]]|[Hc _]]; [|discriminate].
        rewrite Hs, app_nil_r in Heq. exact Heq.
    + apply (HK _ _ _ H0 H).
Qed.

Lemma stages_length_reach (sgs : list stage) (s : state) : reach C (init sgs) s -> length sgs = length (stages s).
Proof.
  intros Hr. pose proof (kinds_reach A C sgs s Hr) as Hk. unfold kinds in Hk.
  rewrite <- (map_length (@skind A) (stages s)), Hk, map_length. reflexivity.
Qed.

Lemma reach_KInv (sgs : list stage) (s : state) : reach C (init sgs) s -> KInv sgs s.
Proof.
  induction 1 as [|s l s' Hr IH Hn]; [apply KInv_init|].
  eapply KInv_step; eauto.
  - eapply reach_inv; eauto.
  - apply stages_length_reach; exact Hr.
  - eapply next_shape; eauto.
Qed.

(** every stage has emitted a prefix of its stream *)
Lemma emitted_prefix sgs s : Inv s -> KInv sgs s -> length sgs = length (stages s) ->
  forall i sg0, nth_error sgs i = Some sg0 -> prefix (emitted s i) (nth i (streams [] sgs) []).
Proof.
  intros HI HK Hlen. induction i as [|i IH]; intros sg0 H0.
  - destruct (nth_error (stages s) 0) as [sg|] eqn:Hn;
      [|apply nth_error_None in Hn; assert (0 < length sgs)%nat by (apply nth_error_Some; congruence); lia].
    destruct (HK _ _ _ H0 Hn) as [_ Hs]. rewrite (streams_nth sgs [] 0 sg0 H0).
    change (consumed s 0) with (@nil A) in Hs.
    destruct (sst sg); [destruct Hs as [<- _]; apply prefix_app | destruct Hs as [<- _]; apply prefix_app | exact (proj1 Hs)].
  - assert (Hlt : (S i < length sgs)%nat) by (apply nth_error_Some; congruence).
    destruct (nth_error (stages s) (S i)) as [sg|] eqn:Hn; [|apply nth_error_None in Hn; lia].
    destruct (nth_error sgs i) as [sgp|] eqn:Hp0; [|apply nth_error_None in Hp0; lia].
    specialize (IH sgp eq_refl).
    destruct (HK _ _ _ H0 Hn) as [_ Hs]. rewrite (streams_nth sgs [] (S i) sg0 H0).
    (* consumed (S i) is a prefix of emitted i *)
    assert (Hck : prefix (consumed s (S i)) (emitted s i)).
    { unfold consumed, emitted. destruct (nth_error (pipes s) i) as [p|] eqn:Hp; [|apply prefix_nil].
      destruct (inv_pipes _ _ _ HI i p Hp) as [[Hh _] _]. rewrite Hh. apply prefix_app. }
    assert (Hmono : prefix (prod sg0 (consumed s (S i))) (prod sg0 (nth i (streams [] sgs) []))).
    { apply prod_mono. eapply prefix_trans; eauto. }
    eapply prefix_trans; [|exact Hmono].
    destruct (sst sg); [destruct Hs as [<- _]; apply prefix_app | destruct Hs as [<- _]; apply prefix_app | exact (proj1 Hs)].
Qed.

Lemma last_nth {X} (l : list X) d : last l d = nth (pred (length l)) l d.
Proof.
  induction l as [|x r IH]; [reflexivity|]. destruct r as [|y r']; [reflexivity|].
  cbn [last length pred nth] in *. exact IH.
Qed.

(** *** safety: on every schedule, at every moment, the pipeline's output so far is a prefix of the
    composition of the stages' stream functions *)
Theorem output_prefix (sgs : list stage) (s : state) : sgs <> [] -> reach C (init sgs) s -> prefix (out s) (spec_out sgs).
Proof.
  intros Hne Hr.
  pose proof (reach_inv A C sgs s Hr) as HI. pose proof (reach_KInv sgs s Hr) as HK.
  pose proof (stages_length_reach sgs s Hr) as Hlen.
  assert (Hn : (0 < length sgs)%nat) by (destruct sgs; [contradiction|cbn; lia]).
  set (i := pred (length sgs)).
  destruct (nth_error sgs i) as [sg0|] eqn:H0; [|apply nth_error_None in H0; subst i; lia].
  pose proof (emitted_prefix sgs s HI HK Hlen i sg0 H0) as Hp.
  unfold spec_out. rewrite last_nth, streams_length. fold i.
  assert (He : emitted s i = out s).
  { unfold emitted. destruct (nth_error (pipes s) i) eqn:E; [|reflexivity].
    assert (i < length (pipes s))%nat by (apply nth_error_Some; congruence).
    rewrite (inv_len _ _ _ HI), <- Hlen in H. subst i. lia. }
  rewrite <- He. exact Hp.
Qed.


(** ---- completeness ---- *)
Definition code_at (s : state) (i : nat) : option nat :=
  match nth_error (stages s) i with
  | Some sg => match sst sg with Done c => Some c | _ => None end
  | None => None
  end.

(** why every ended stage ended, and that the waiter only passed ended stages *)
Definition CInv (sgs : list stage) (s : state) : Prop :=
  (forall i sg0 sg c, nth_error sgs i = Some sg0 -> nth_error (stages s) i = Some sg -> sst sg = Done c ->
     (c = 0%nat /\ (i = 0%nat \/ saturated sg0 (consumed s i) \/
                   exists j, i = S j /\ consumed s i = emitted s j /\ code_at s j = Some 0%nat))
     \/ (c = EPIPE_STATUS /\ done_at A s (S i) = true)) /\
  (forall i sg, (i < wt s)%nat -> nth_error (stages s) i = Some sg -> exists c, sst sg = Done c).

Lemma CInv_init sgs : CInv sgs (init sgs).
Proof.
  split.
  - intros i sg0 sg c _ H Hd. unfold init in H. cbn [stages] in H. rewrite nth_error_map in H.
    destruct (nth_error sgs i); [|discriminate]. inversion H; subst. discriminate.
  - intros i sg Hlt. cbn in Hlt. lia.
Qed.

(** frame: a step leaves ended stages, and everything they emitted and consumed, alone *)
Lemma done_frame s s' i sg c : Inv s -> shape A C s s' ->
  nth_error (stages s) i = Some sg -> sst sg = Done c ->
  nth_error (stages s') i = Some sg /\ emitted s' i = emitted s i /\ consumed s' i = consumed s i.
Proof.
  intros HI Hsh Hn Hd.
  pose proof (inv_len _ _ _ HI) as Hpl.
  assert (Hlt : (i < length (stages s))%nat) by (apply nth_error_Some; congruence).
  destruct Hsh as [sga Hb Hna | sga ca Hpcn Hb Hna Hda | ia sga m Hna Hra Hl Hm1 Hm2
                  | ia sga p p' rest k Hna Hra Hp Hw | j sga p p' got q d t pend Hna Hra Hsp Hp Hrd Hpend Hrel
                  | ia sga ca Hna Hra Hexit].
  - cbn [stages]. split; [|split; reflexivity]. rewrite nth_error_upd.
    destruct (Nat.eqb_spec (pc s) i) as [<-|]; [|exact Hn]. rewrite Hna in Hn. inversion Hn; subst sga.
    assert (Hns : sst sg = NotStarted) by (apply (inv_started _ _ _ HI _ _ Hna); lia). congruence.
  - split; [exact Hn|split; reflexivity].
  - assert (Hne : ia <> i) by (intros ->; rewrite Hna in Hn; inversion Hn; subst; congruence).
    unfold put_stage. cbn [stages]. split; [rewrite nth_error_upd_neq by exact Hne; exact Hn|].
    split; [|reflexivity]. unfold emitted. cbn [pipes out].
    destruct (nth_error (pipes s) i) eqn:E; [reflexivity|]. apply nth_error_None in E. lia.
  - assert (Hne : ia <> i) by (intros ->; rewrite Hna in Hn; inversion Hn; subst; congruence).
    destruct (inv_pipes _ _ _ HI ia p Hp) as [Hok _].
    destruct (pwrite_ok A C k p (spend sga) p' rest Hok Hw) as [_ [_ [_ [m [_ [_ [_ [_ [_ [_ Hhr]]]]]]]]]].
    unfold put_stage. cbn [stages]. split; [rewrite nth_error_upd_neq by exact Hne; exact Hn|]. split.
    + unfold emitted. cbn [pipes out]. rewrite nth_error_upd_neq by exact Hne. reflexivity.
    + unfold consumed. cbn [pipes]. destruct i as [|j0]; [reflexivity|]. rewrite nth_error_upd.
      destruct (Nat.eqb_spec ia j0) as [<-|]; [|reflexivity]. rewrite Hp, Hhr. reflexivity.
  - assert (Hne : S j <> i) by (intros <-; rewrite Hna in Hn; inversion Hn; subst; congruence).
    destruct (inv_pipes _ _ _ HI j p Hp) as [Hok _].
    destruct (pread_ok A C q p p' got Hok Hrd) as [_ [_ [_ [_ [_ [_ [_ Hhw]]]]]]].
    unfold put_stage. cbn [stages]. split; [rewrite nth_error_upd_neq by exact Hne; exact Hn|]. split.
    + unfold emitted. cbn [pipes out]. rewrite nth_error_upd.
      destruct (Nat.eqb_spec j i) as [<-|]; [|reflexivity]. rewrite Hp, Hhw. reflexivity.
    + unfold consumed. cbn [pipes]. destruct i as [|j0]; [reflexivity|].
      rewrite nth_error_upd_neq by congruence. reflexivity.
  - assert (Hne : ia <> i) by (intros ->; rewrite Hna in Hn; inversion Hn; subst; congruence).
    rewrite exit_emitted, exit_consumed. unfold exit_stage. cbn [stages].
    split; [rewrite nth_error_upd_neq by exact Hne; exact Hn|split; reflexivity].
Qed.

Lemma code_at_frame s s' j : Inv s -> shape A C s s' -> code_at s j = Some 0%nat -> code_at s' j = Some 0%nat.
Proof.
  intros HI Hsh Hc. unfold code_at in *. destruct (nth_error (stages s) j) as [sg|] eqn:Hn; [|discriminate].
  destruct (sst sg) eqn:Hs; try discriminate. inversion Hc; subst.
  destruct (done_frame s s' j sg 0%nat HI Hsh Hn Hs) as [Hn' _]. rewrite Hn', Hs. reflexivity.
Qed.

Lemma done_at_frame s s' j : Inv s -> shape A C s s' -> done_at A s j = true -> done_at A s' j = true.
Proof.
  intros HI Hsh Hc. unfold done_at in *. destruct (nth_error (stages s) j) as [sg|] eqn:Hn; [|discriminate].
  unfold is_done in Hc. destruct (sst sg) eqn:Hs; try discriminate.
  destruct (done_frame s s' j sg code HI Hsh Hn Hs) as [Hn' _]. rewrite Hn'. unfold is_done. rewrite Hs. reflexivity.
Qed.

Lemma saturated_of_ctr sg0 sg K :
  ctr_ok sg0 sg K -> sdrop sg = 0%nat -> stake sg = Some 0%nat -> saturated sg0 K.
Proof.
  intros [Hc1 [Hc2 Hc3]] Hd Ht K' [c ->]. unfold prod. destruct (semit sg0); [|reflexivity]. f_equal.
  destruct (stake sg0) as [t0|]; [|rewrite Ht in Hc2; discriminate].
  rewrite Ht in Hc2. inversion Hc2 as [Hz]. rewrite Hd in Hc1.
  cbn [take_opt]. rewrite skipn_app, firstn_app.
  assert (Hl : length (skipn (sdrop sg0) K) = (length K - sdrop sg0)%nat) by apply skipn_length.
  replace (t0 - length (skipn (sdrop sg0) K))%nat with 0%nat by lia. cbn [firstn]. apply app_nil_r.
Qed.

Lemma CInv_step sgs s s' : Inv s -> KInv sgs s -> CInv sgs s -> shape A C s s' -> CInv sgs s'.
Proof.
  intros HI HK [HC HW] Hsh. split.
  - intros i sg0 sg c H0 Hn' Hd'.
    (* was this stage already ended before the step? *)
    destruct (nth_error (stages s) i) as [sgo|] eqn:Hn.
    2:{ exfalso. apply nth_error_None in Hn. assert (Hl : length (stages s') = length (stages s)).
        { destruct Hsh; unfold put_stage, exit_stage; cbn [stages]; try rewrite upd_length; reflexivity. }
        assert (i < length (stages s'))%nat by (apply nth_error_Some; congruence). lia. }
    destruct (sst sgo) as [| |co] eqn:Hso.
    3:{ (* already ended: nothing it refers to has changed *)
        destruct (done_frame s s' i sgo co HI Hsh Hn Hso) as [Hn2 [He2 Hc2]].
        rewrite Hn2 in Hn'. inversion Hn'; subst sg. rewrite Hso in Hd'. inversion Hd'; subst co.
        destruct (HC i sg0 sgo c H0 Hn Hso) as [[-> Hwhy]|[-> Hdn]].
        - left. split; [reflexivity|]. rewrite Hc2.
          destruct Hwhy as [->|[Hsat|[j [-> [Heq Hcj]]]]]; [left; reflexivity|right; left; exact Hsat|].
          right. right. exists j. split; [reflexivity|].
          assert (Hej : emitted s' j = emitted s j).
          { unfold code_at in Hcj. destruct (nth_error (stages s) j) as [sgj|] eqn:Hnj; [|discriminate].
            destruct (sst sgj) eqn:Hsj; try discriminate.
            destruct (done_frame s s' j sgj code HI Hsh Hnj Hsj) as [_ [He _]]. exact He. }
          rewrite Hej. split; [exact Heq|]. apply (code_at_frame s s' j HI Hsh Hcj).
        - right. split; [reflexivity|]. apply (done_at_frame s s' (S i) HI Hsh Hdn). }
    + (* not started before: it cannot be ended now *)
      exfalso. destruct Hsh as [sga Hb Hna | sga ca Hpcn Hb Hna Hda | ia sga m Hna Hra Hl Hm1 Hm2
                  | ia sga p p' rest k Hna Hra Hp Hw | j sga p p' got q d t pend Hna Hra Hsp Hp Hrd Hpend Hrel
                  | ia sga ca Hna Hra Hexit];
        unfold put_stage, exit_stage in Hn'; cbn [stages] in Hn'; try rewrite nth_error_upd in Hn'.
      * destruct (Nat.eqb_spec (pc s) i) as [<-|]; [rewrite Hn in Hn'; inversion Hn'; subst; discriminate|congruence].
      * congruence.
      * destruct (Nat.eqb_spec ia i) as [<-|]; [congruence|congruence].
      * destruct (Nat.eqb_spec ia i) as [<-|]; [congruence|congruence].
      * destruct (Nat.eqb_spec (S j) i) as [<-|]; [congruence|congruence].
      * destruct (Nat.eqb_spec ia i) as [<-|]; [congruence|congruence].
    + (* running before, ended now: this is the step that ends it *)
      destruct Hsh as [sga Hb Hna | sga ca Hpcn Hb Hna Hda | ia sga m Hna Hra Hl Hm1 Hm2
                  | ia sga p p' rest k Hna Hra Hp Hw | j sga p p' got q d t pend Hna Hra Hsp Hp Hrd Hpend Hrel
                  | ia sga ca Hna Hra Hexit];
        try (exfalso; unfold put_stage in Hn'; cbn [stages] in Hn'; try rewrite nth_error_upd in Hn';
             match type of Hn' with
             | context [Nat.eqb ?a ?b] => destruct (Nat.eqb_spec a b) as [<-|]
             | _ => idtac end;
             [try (rewrite ?Hna, ?Hn in Hn'; inversion Hn'; subst; cbn in Hd'; congruence) ..]; congruence).
      unfold exit_stage in Hn'. cbn [stages] in Hn'. rewrite nth_error_upd in Hn'.
      destruct (Nat.eqb_spec ia i) as [->|Hne]; [|congruence].
      rewrite Hn in Hn'. inversion Hn'; subst sg; clear Hn'. cbn in Hd'. inversion Hd'; subst ca; clear Hd'.
      rewrite Hn in Hna. inversion Hna; subst sga; clear Hna.
      rewrite exit_consumed.
      destruct (HK _ _ _ H0 Hn) as [_ Hst]. rewrite Hso in Hst. destruct Hst as [Heq Hctr].
      destruct Hexit as [[-> [Hsp Hwhy]]|[-> [Hsp [p [Hp Hrd]]]]].
      * left. split; [reflexivity|]. destruct Hwhy as [->|[[Hd0 Ht0]|[j [p [-> [Hp [Hb Hw]]]]]]].
        -- left. reflexivity.
        -- right. left. eapply saturated_of_ctr; eauto.
        -- right. right. exists j. split; [reflexivity|]. rewrite exit_emitted.
           destruct (inv_pipes _ _ _ HI j p Hp) as [[Hh _] [Hwr _]].
           split.
           ++ unfold consumed, emitted. rewrite Hp, Hh, Hb, app_nil_r. reflexivity.
           ++ (* the writer has ended, and not by EPIPE: that would need this stage to have ended first *)
              rewrite Hw in Hwr. destruct (done_at A s j) eqn:Hdj; [|discriminate].
              unfold done_at in Hdj. destruct (nth_error (stages s) j) as [sgj|] eqn:Hnj; [|discriminate].
              unfold is_done in Hdj. destruct (sst sgj) as [| |cj] eqn:Hsj; try discriminate.
              assert (Hjl : (j < length sgs)%nat).
              { assert (S j < length sgs)%nat by (apply nth_error_Some; congruence). lia. }
              destruct (nth_error sgs j) as [sg0j|] eqn:H0j; [|apply nth_error_None in H0j; lia].
              destruct (HC j sg0j sgj cj H0j Hnj Hsj) as [[-> _]|[-> Hdn]].
              ** unfold code_at, exit_stage. cbn [stages]. rewrite nth_error_upd_neq by lia. rewrite Hnj, Hsj. reflexivity.
              ** exfalso. unfold done_at in Hdn. rewrite Hn in Hdn. unfold is_done in Hdn. rewrite Hso in Hdn. discriminate.
      * right. split; [reflexivity|].
        destruct (inv_pipes _ _ _ HI i p Hp) as [_ [_ Hrd']]. rewrite Hrd in Hrd'.
        destruct (done_at A s (S i)) eqn:Hdn; [|discriminate].
        unfold done_at in *. unfold exit_stage. cbn [stages]. rewrite nth_error_upd_neq by lia. exact Hdn.
  - (* the waiter only passes ended stages *)
    intros i sg Hlt Hn'.
    destruct Hsh as [sga Hb Hna | sga ca Hpcn Hb Hna Hda | ia sga m Hna Hra Hl Hm1 Hm2
                  | ia sga p p' rest k Hna Hra Hp Hw | j sga p p' got q d t pend Hna Hra Hsp Hp Hrd Hpend Hrel
                  | ia sga ca Hna Hra Hexit]; cbn [wt put_stage exit_stage] in Hlt.
    + cbn [stages] in Hn'. rewrite nth_error_upd in Hn'. destruct (Nat.eqb_spec (pc s) i) as [<-|].
      * exfalso. destruct (HW (pc s) sga Hlt Hna) as [c Hc].
        assert (Hns : sst sga = NotStarted) by (apply (inv_started _ _ _ HI _ _ Hna); lia). congruence.
      * apply (HW i sg Hlt Hn').
    + cbn [stages] in Hn'. destruct (Nat.eq_dec i (wt s)) as [->|Hne].
      * rewrite Hna in Hn'. inversion Hn'; subst. eauto.
      * apply (HW i sg); [lia|exact Hn'].
    + unfold put_stage in Hn'. cbn [stages] in Hn'. rewrite nth_error_upd in Hn'.
      destruct (Nat.eqb_spec ia i) as [<-|]; [|apply (HW i sg Hlt Hn')].
      exfalso. destruct (HW ia sga Hlt Hna) as [c Hc]. congruence.
    + unfold put_stage in Hn'. cbn [stages] in Hn'. rewrite nth_error_upd in Hn'.
      destruct (Nat.eqb_spec ia i) as [<-|]; [|apply (HW i sg Hlt Hn')].
      exfalso. destruct (HW ia sga Hlt Hna) as [c Hc]. congruence.
    + unfold put_stage in Hn'. cbn [stages] in Hn'. rewrite nth_error_upd in Hn'.
      destruct (Nat.eqb_spec (S j) i) as [<-|]; [|apply (HW i sg Hlt Hn')].
      exfalso. destruct (HW (S j) sga Hlt Hna) as [c Hc]. congruence.
    + unfold exit_stage in Hn'. cbn [stages] in Hn'. rewrite nth_error_upd in Hn'.
      destruct (Nat.eqb_spec ia i) as [<-|]; [|apply (HW i sg Hlt Hn')].
      rewrite Hna in Hn'. inversion Hn'; subst. cbn. eauto.
Qed.

Lemma reach_CInv (sgs : list stage) (s : state) : reach C (init sgs) s -> CInv sgs s.
Proof.
  induction 1 as [|s l s' Hr IH Hn]; [apply CInv_init|].
  eapply CInv_step; eauto.
  - eapply reach_inv; eauto.
  - apply reach_KInv; exact Hr.
  - eapply next_shape; eauto.
Qed.

(** *** completeness: in every reachable final state — whatever the schedule, also when stages were
    ended early by EPIPE — the pipeline has delivered exactly the composition of the stages' stream
    functions *)
Theorem output_complete (sgs : list stage) (s : state) :
  sgs <> [] -> reach C (init sgs) s -> final s -> out s = spec_out sgs.
Proof.
  intros Hne Hr Hfin.
  pose proof (reach_inv A C sgs s Hr) as HI. pose proof (reach_KInv sgs s Hr) as HK.
  pose proof (reach_CInv sgs s Hr) as [HC HW]. pose proof (stages_length_reach sgs s Hr) as Hlen.
  unfold final in Hfin.
  (* every stage that ended normally has emitted its whole stream *)
  assert (Hall : forall i sg0 sg, nth_error sgs i = Some sg0 -> nth_error (stages s) i = Some sg ->
            sst sg = Done 0%nat -> emitted s i = nth i (streams [] sgs) []).
  { induction i as [i IH] using lt_wf_ind. intros sg0 sg H0 Hn Hd.
    destruct (HK _ _ _ H0 Hn) as [_ Hst]. rewrite Hd in Hst. destruct Hst as [_ Heq]. specialize (Heq eq_refl).
    rewrite (streams_nth sgs [] i sg0 H0).
    destruct (HC i sg0 sg 0%nat H0 Hn Hd) as [[_ Hwhy]|[Hc _]]; [|discriminate].
    destruct Hwhy as [->|[Hsat|[j [-> [Hcj Hcode]]]]].
    - rewrite Heq. reflexivity.
    - rewrite Heq. symmetry. apply Hsat.
      destruct i as [|j]; [apply prefix_refl|].
      assert (Hjl : (j < length sgs)%nat).
      { assert (S j < length sgs)%nat by (apply nth_error_Some; congruence). lia. }
      destruct (nth_error sgs j) as [sg0j|] eqn:H0j; [|apply nth_error_None in H0j; lia].
      eapply prefix_trans; [|apply (emitted_prefix sgs s HI HK Hlen j sg0j H0j)].
      unfold consumed, emitted. destruct (nth_error (pipes s) j) as [p|] eqn:Hp; [|apply prefix_nil].
      destruct (inv_pipes _ _ _ HI j p Hp) as [[Hh _] _]. rewrite Hh. apply prefix_app.
    - rewrite Heq, Hcj. f_equal.
      unfold code_at in Hcode. destruct (nth_error (stages s) j) as [sgj|] eqn:Hnj; [|discriminate].
      destruct (sst sgj) eqn:Hsj; try discriminate. inversion Hcode; subst.
      assert (Hjl : (j < length sgs)%nat).
      { assert (S j < length sgs)%nat by (apply nth_error_Some; congruence). lia. }
      destruct (nth_error sgs j) as [sg0j|] eqn:H0j; [|apply nth_error_None in H0j; lia].
      apply (IH j (Nat.lt_succ_diag_r j) sg0j sgj H0j Hnj Hsj). }
  assert (Hn0 : (0 < length sgs)%nat) by (destruct sgs; [contradiction|cbn; lia]).
  set (i := pred (length sgs)).
  destruct (nth_error sgs i) as [sg0|] eqn:H0; [|apply nth_error_None in H0; subst i; lia].
  destruct (nth_error (stages s) i) as [sg|] eqn:Hn; [|apply nth_error_None in Hn; subst i; lia].
  destruct (HW i sg) as [c Hc]; [subst i; lia|exact Hn|].
  assert (Hc0 : c = 0%nat).
  { destruct (HC i sg0 sg c H0 Hn Hc) as [[-> _]|[_ Hdn]]; [reflexivity|].
    exfalso. unfold done_at in Hdn. destruct (nth_error (stages s) (S i)) eqn:E; [|discriminate].
    assert (S i < length (stages s))%nat by (apply nth_error_Some; congruence). subst i. lia. }
  subst c.
  unfold spec_out. rewrite last_nth, streams_length. fold i.
  rewrite <- (Hall i sg0 sg H0 Hn Hc).
  unfold emitted. destruct (nth_error (pipes s) i) eqn:E; [|reflexivity].
  assert (i < length (pipes s))%nat by (apply nth_error_Some; congruence).
  rewrite (inv_len _ _ _ HI), <- Hlen in H. subst i. lia.
Qed.

End Kahn.
