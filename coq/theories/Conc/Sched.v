(** C11 — brush's pipeline algorithm as a small-step transition system.

    Mirrors brush-core/src/interp.rs:
    - [spawn_pipeline_processes]: all pipes are created up front (parent holds both ends of
      each); the loop walks the stages left to right. A *simple* command that resolves to an
      external program or a builtin is started and the loop goes on ([Spawned]); a compound
      command or a shell function is executed and awaited inside the loop ([Inline]): the
      next stage is not started before it has finished. Handing a pipe end to a stage moves it
      (the parent keeps no copy); a stage that ends drops its ends.
    - [wait_for_pipeline_processes_and_update_status]: only after the loop has returned, the
      stages are awaited front to back and their statuses collected.
    Stages are abstract stream programs (source / drop d / take t / forward or swallow); any
    enabled step may fire, with any positive transfer quantum: every interleaving and every
    splitting of reads and writes is a schedule of the system.

    Units of data are abstract ([A]); the capacity [C] is a section variable. *)
From BV Require Import Base.Prelude Conc.Pipe.

Fixpoint upd {X} (i : nat) (x : X) (l : list X) : list X :=
  match l, i with
  | [], _ => []
  | _ :: r, O => x :: r
  | y :: r, S i' => y :: upd i' x r
  end.

Inductive kind := Spawned | Inline.
Inductive sstate := NotStarted | Running | Done (code : nat).
Inductive label := LSpawn | LStage (i k : nat) | LWait.

Definition EPIPE_STATUS : nat := 141%nat.

Section Sched.
Variable A : Type.
Variable C : nat.

(** [sdrop]: units still to be consumed and discarded (the `read` builtin eating lines);
    [stake]: units still to be consumed and forwarded ([None]: until end of input);
    [semit]: forward (true) or swallow (false); [spend]: output not yet written.
    A source is [sdrop = 0, stake = Some 0, spend = data]. *)
Record stage := mkStage { skind : kind; sst : sstate; sdrop : nat; stake : option nat;
                          semit : bool; spend : list A }.

Record state := mkState { stages : list stage; pipes : list (pipe A); out : list A;
                          pc : nat; wt : nat; sts : list nat }.

Definition set_st (sg : stage) (st : sstate) : stage :=
  mkStage (skind sg) st (sdrop sg) (stake sg) (semit sg) (spend sg).
Definition set_io (sg : stage) (d : nat) (t : option nat) (pend : list A) : stage :=
  mkStage (skind sg) (sst sg) d t (semit sg) pend.

Definition is_running (sg : stage) : bool := match sst sg with Running => true | _ => false end.
Definition is_done (sg : stage) : bool := match sst sg with Done _ => true | _ => false end.
Definition is_inline (sg : stage) : bool := match skind sg with Inline => true | _ => false end.

(** the spawn loop is inside an awaited inline stage *)
Definition inline_busy (s : state) : bool :=
  existsb (fun sg => is_inline sg && is_running sg) (stages s).

Definition init (sgs : list stage) : state :=
  mkState (map (fun sg => set_st sg NotStarted) sgs)
          (repeat new_pipe (pred (length sgs))) [] 0%nat 0%nat [].

Definition final (s : state) : Prop := wt s = length (stages s).
Definition finalb (s : state) : bool := (wt s =? length (stages s))%nat.

(** a stage ends with status [code]: its read end of pipe i-1 and write end of pipe i close *)
Definition exit_stage (s : state) (i : nat) (sg : stage) (code : nat) : state :=
  let ps1 := match i with
             | O => pipes s
             | S j => match nth_error (pipes s) j with
                      | Some p => upd j (close_r p) (pipes s)
                      | None => pipes s
                      end
             end in
  let ps2 := match nth_error ps1 i with
             | Some p => upd i (close_w p) ps1
             | None => ps1
             end in
  mkState (upd i (mkStage (skind sg) (Done code) (sdrop sg) (stake sg) (semit sg) []) (stages s))
          ps2 (out s) (pc s) (wt s) (sts s).

Definition put_stage (s : state) (i : nat) (sg : stage) (ps : list (pipe A)) (o : list A) : state :=
  mkState (upd i sg (stages s)) ps o (pc s) (wt s) (sts s).

(** one step of a running stage [sg] at position [i] with quantum [k] *)
Definition stage_step (s : state) (i k : nat) (sg : stage) : option state :=
  match spend sg with
  | _ :: _ =>
      if (S i =? length (stages s))%nat then
        (* last stage: the pipeline's own stdout, never blocks *)
        let m := Nat.min k (length (spend sg)) in
        Some (put_stage s i (set_io sg (sdrop sg) (stake sg) (skipn m (spend sg)))
                        (pipes s) (out s ++ firstn m (spend sg)))
      else
        match nth_error (pipes s) i with
        | Some p =>
            match pwrite C k p (spend sg) with
            | WOk p' rest => Some (put_stage s i (set_io sg (sdrop sg) (stake sg) rest)
                                             (upd i p' (pipes s)) (out s))
            | WEpipe => Some (exit_stage s i sg EPIPE_STATUS)
            | WBlock => None
            end
        | None => None
        end
  | [] =>
      let req := if (0 <? sdrop sg)%nat then Some (sdrop sg) else stake sg in
      match req with
      | Some O => Some (exit_stage s i sg 0%nat)
      | _ =>
          let q := match req with Some lim => Nat.min k lim | None => k end in
          match i with
          | O => Some (exit_stage s i sg 0%nat)            (* stdin of the pipeline: empty *)
          | S j =>
              match nth_error (pipes s) j with
              | Some p =>
                  match pread q p with
                  | ROk p' got =>
                      let sg' := if (0 <? sdrop sg)%nat
                                 then set_io sg (sdrop sg - length got)%nat (stake sg) []
                                 else set_io sg 0%nat
                                        (match stake sg with Some t => Some (t - length got)%nat
                                                        | None => None end)
                                        (if semit sg then got else []) in
                      Some (put_stage s i sg' (upd j p' (pipes s)) (out s))
                  | REof => Some (exit_stage s i sg 0%nat)
                  | RBlock => None
                  end
              | None => None
              end
          end
      end
  end.

Definition next (s : state) (l : label) : option state :=
  match l with
  | LSpawn =>
      if inline_busy s then None else
      match nth_error (stages s) (pc s) with
      | Some sg => Some (mkState (upd (pc s) (set_st sg Running) (stages s)) (pipes s) (out s)
                                 (S (pc s)) (wt s) (sts s))
      | None => None
      end
  | LWait =>
      if (pc s =? length (stages s))%nat && negb (inline_busy s) then
        match nth_error (stages s) (wt s) with
        | Some sg => match sst sg with
                     | Done c => Some (mkState (stages s) (pipes s) (out s) (pc s) (S (wt s))
                                               (sts s ++ [c]))
                     | _ => None
                     end
        | None => None
        end
      else None
  | LStage i k =>
      if (k =? 0)%nat then None else
      match nth_error (stages s) i with
      | Some sg => match sst sg with Running => stage_step s i k sg | _ => None end
      | None => None
      end
  end.

Definition step (s s' : state) : Prop := exists l, next s l = Some s'.

Inductive reach (s0 : state) : state -> Prop :=
| reach0 : reach s0 s0
| reachS s l s' : reach s0 s -> next s l = Some s' -> reach s0 s'.

(** no label is enabled *)
Definition stuck (s : state) : Prop := forall l, next s l = None.

(** decidable version: blocking never depends on the quantum, so quantum 1 decides *)
Definition probe_labels (s : state) : list label :=
  LSpawn :: LWait :: map (fun i => LStage i 1%nat) (seq 0 (length (stages s))).
Definition stuckb (s : state) : bool :=
  forallb (fun l => match next s l with None => true | Some _ => false end) (probe_labels s).

(** run along a list of labels *)
Fixpoint run_labels (s : state) (ls : list label) : option state :=
  match ls with
  | [] => Some s
  | l :: r => match next s l with Some s' => run_labels s' r | None => None end
  end.

(** Deterministic schedulers used by the correspondence entry: fire the first enabled label of
    a fixed priority list with transfer quantum [q] ([S C]: as much as fits; [1]: unit by unit,
    the slowest producer); [down]: consumers first, else producers first. [None] in the first component: stuck; fuel exhausted is reported separately. *)
Definition prio (q : nat) (down : bool) (s : state) : list label :=
  let n := length (stages s) in
  let st := map (fun i => LStage i q) (seq 0 n) in
  LSpawn :: (if down then rev st else st) ++ [LWait].

Fixpoint first_enabled (s : state) (ls : list label) : option state :=
  match ls with
  | [] => None
  | l :: r => match next s l with Some s' => Some s' | None => first_enabled s r end
  end.

Inductive outcome := OFinal (s : state) | OStuck (s : state) | OFuel (s : state).

Fixpoint run_sched (q : nat) (down : bool) (fuel : nat) (s : state) : outcome :=
  if finalb s then OFinal s else
  match fuel with
  | O => OFuel s
  | S f => match first_enabled s (prio q down s) with
           | Some s' => run_sched q down f s'
           | None => OStuck s
           end
  end.

End Sched.

Arguments mkStage {A}. Arguments skind {A}. Arguments sst {A}. Arguments sdrop {A}.
Arguments stake {A}. Arguments semit {A}. Arguments spend {A}.
Arguments mkState {A}. Arguments stages {A}. Arguments pipes {A}. Arguments out {A}.
Arguments pc {A}. Arguments wt {A}. Arguments sts {A}.
Arguments init {A}. Arguments next {A}. Arguments step {A}. Arguments reach {A}.
Arguments final {A}. Arguments finalb {A}. Arguments stuck {A}. Arguments stuckb {A}.
Arguments run_labels {A}. Arguments run_sched {A}. Arguments inline_busy {A}.
Arguments OFinal {A}. Arguments OStuck {A}. Arguments OFuel {A}.
Arguments is_running {A}. Arguments is_done {A}. Arguments is_inline {A}.
Arguments exit_stage {A}. Arguments stage_step {A}. Arguments put_stage {A}.
Arguments set_st {A}. Arguments set_io {A}. Arguments probe_labels {A}. Arguments prio {A}.
Arguments first_enabled {A}.
