(** C17 — the job table (brush-core/src/jobs.rs [JobManager]) as a list of jobs.

    [add_as_current] (id = length + 1; first Current demoted to Previous), [poll] (finished
    tasks are dropped from the front of each job, finished jobs and jobs already marked Done are
    removed wherever they are), [Job::wait] (tasks awaited from the back), [wait_all] (every job
    in order, then the sweep of jobs without tasks). Whether a task has finished is the
    environment's business: a set [fin] of finished task ids that only grows.
    Stopped tasks (job control on a terminal) are not modelled.

    [add_fixed] is the repaired assignment (max id + 1, a single Previous). *)
From BV Require Import Base.Prelude.

Inductive annot := ANone | ACur | APrev.
Inductive jstate := JRunning | JDone.

Record job := mkJob { jid : nat; jtasks : list nat; jann : annot; jst : jstate }.
Definition mgr := list job.

Definition set_ann (j : job) (a : annot) : job := mkJob (jid j) (jtasks j) a (jst j).
Definition is_cur (j : job) : bool := match jann j with ACur => true | _ => false end.
Definition is_prev (j : job) : bool := match jann j with APrev => true | _ => false end.

(** the loop with [break] of add_as_current *)
Fixpoint demote_first (m : mgr) : mgr :=
  match m with
  | [] => []
  | j :: r => if is_cur j then set_ann j APrev :: r else j :: demote_first r
  end.

Definition add_as_current (m : mgr) (tasks : list nat) : mgr :=
  demote_first m ++ [mkJob (S (length m)) tasks ACur JRunning].

(** repaired: no other job keeps Previous; the id is one more than the largest live id *)
Definition clear_prev (m : mgr) : mgr :=
  map (fun j => if is_prev j then set_ann j ANone else j) m.
Definition max_id (m : mgr) : nat := fold_right (fun j a => Nat.max (jid j) a) 0%nat m.
Definition add_fixed (m : mgr) (tasks : list nat) : mgr :=
  demote_first (clear_prev m) ++ [mkJob (S (max_id m)) tasks ACur JRunning].

(** [Job::poll_done] *)
Fixpoint drop_finished (fin : nat -> bool) (ts : list nat) : list nat :=
  match ts with
  | t :: r => if fin t then drop_finished fin r else ts
  | [] => []
  end.

Definition poll_done (fin : nat -> bool) (j : job) : job * bool :=
  match drop_finished fin (jtasks j) with
  | [] => (mkJob (jid j) [] (jann j) JDone, true)
  | ts => (mkJob (jid j) ts (jann j) (jst j), false)
  end.

(** [JobManager::poll]: returns the new table and the removed jobs *)
Fixpoint poll (fin : nat -> bool) (m : mgr) : mgr * list job :=
  match m with
  | [] => ([], [])
  | j :: r =>
      let '(j', d) := poll_done fin j in
      let '(m', res) := poll fin r in
      if d then (m', j' :: res)
      else match jst j' with JDone => (m', j' :: res) | JRunning => (j' :: m', res) end
  end.

(** [sweep_completed_jobs] *)
Definition no_tasks (j : job) : bool := match jtasks j with [] => true | _ => false end.
Definition sweep (m : mgr) : mgr * list job :=
  (filter (fun j => negb (no_tasks j)) m, filter no_tasks m).

(** ---- wait_all as a process interleaved with the environment ----
    The waiter is at job [widx]; it can pop the last task of that job only once that task has
    finished; a job without tasks is marked Done and the waiter moves on. *)
Record wst := mkW { wm : mgr; widx : nat; wfin : list nat }.
Inductive wev := EFin (t : nat) | EStep.

Definition memb (t : nat) (l : list nat) : bool := existsb (Nat.eqb t) l.

Fixpoint upd_job (i : nat) (f : job -> job) (m : mgr) : mgr :=
  match m, i with
  | [], _ => []
  | j :: r, O => f j :: r
  | j :: r, S i' => j :: upd_job i' f r
  end.

Definition wait_step (w : wst) : option wst :=
  match nth_error (wm w) (widx w) with
  | None => None                                   (* all jobs waited: nothing left to do *)
  | Some j =>
      match rev (jtasks j) with
      | [] => Some (mkW (upd_job (widx w) (fun j => mkJob (jid j) [] (jann j) JDone) (wm w))
                        (S (widx w)) (wfin w))
      | t :: rest =>
          if memb t (wfin w)
          then Some (mkW (upd_job (widx w) (fun j => mkJob (jid j) (rev rest) (jann j) (jst j)) (wm w))
                         (widx w) (wfin w))
          else None                                (* blocked on an unfinished task *)
      end
  end.

Definition wev_step (w : wst) (e : wev) : option wst :=
  match e with
  | EFin t => Some (mkW (wm w) (widx w) (t :: wfin w))
  | EStep => wait_step w
  end.

Fixpoint wrun (w : wst) (es : list wev) : option wst :=
  match es with
  | [] => Some w
  | e :: r => match wev_step w e with Some w' => wrun w' r | None => None end
  end.

(** wait_all returns (with the swept jobs) exactly when the waiter has passed the last job *)
Definition wait_returned (w : wst) : option (mgr * list job) :=
  if (widx w =? length (wm w))%nat then Some (sweep (wm w)) else None.

(** ---- op sequences for the correspondence ---- *)
Inductive op := OAdd | OFin (t : nat) | OPoll | OWaitAll | OWaitJob (id : nat).

Record world := mkWorld { table : mgr; finished : list nat; fresh : nat }.

Definition all_tasks (m : mgr) : list nat := flat_map jtasks m.

(** functional summary of a completed wait_all once every task has finished *)
Definition wait_all_done (m : mgr) : mgr * list job :=
  sweep (map (fun j => mkJob (jid j) [] (jann j) JDone) m).

(** `wait %id`: [resolve_job_spec] takes the first job with that id; [Job::wait] awaits its tasks
    (the environment finishes them) and marks it Done; it stays in the table until swept/polled *)
Fixpoint wait_first (id : nat) (m : mgr) : mgr * list nat :=
  match m with
  | [] => ([], [])
  | j :: r => if (jid j =? id)%nat then (mkJob (jid j) [] (jann j) JDone :: r, jtasks j)
              else let '(r', ts) := wait_first id r in (j :: r', ts)
  end.

Definition op_step (fixed : bool) (w : world) (o : op) : world * list job :=
  match o with
  | OAdd => (mkWorld ((if fixed then add_fixed else add_as_current) (table w) [fresh w])
                     (finished w) (S (fresh w)), [])
  | OFin t => (mkWorld (table w) (t :: finished w) (fresh w), [])
  | OPoll => let '(m', res) := poll (fun t => memb t (finished w)) (table w) in
             (mkWorld m' (finished w) (fresh w), res)
  | OWaitAll => let '(m', res) := wait_all_done (table w) in
                (mkWorld m' (all_tasks (table w) ++ finished w) (fresh w), res)
  | OWaitJob id => let '(m', ts) := wait_first id (table w) in
                   (mkWorld m' (ts ++ finished w) (fresh w), [])
  end.

Fixpoint run_ops (fixed : bool) (w : world) (os : list op) : world :=
  match os with
  | [] => w
  | o :: r => run_ops fixed (fst (op_step fixed w o)) r
  end.

Definition world0 : world := mkWorld [] [] 1%nat.
