(** C01 correspondence entries.  Every entry returns three fields:
    the pinned-code twin's result, the repaired-code twin's result, the known-class flag. *)
From Coq Require Import String.
From BV Require Import Base.Prelude Base.Codec NoPanic.Mach NoPanic.Brace NoPanic.Substring
  NoPanic.Vars NoPanic.Tilde NoPanic.History NoPanic.Pow.

Definition enc_res {A} (show : A -> str) (r : res A) : str :=
  match r with
  | Val a => 86%N :: show a
  | Fail => lit "F"
  | Panic => lit "P"
  | OutOfFuel => lit "O"
  end.

(** arbitrary-size decimal with optional sign *)
Definition dec_int (s : str) : Z :=
  match s with
  | 45%N :: ds => match digits_val 0 ds with Some v => - v | None => 0 end
  | 43%N :: ds => match digits_val 0 ds with Some v => v | None => 0 end
  | _ => match digits_val 0 s with Some v => v | None => 0 end
  end.
Definition dec_opt (s : str) : option Z := match s with [] => None | _ => Some (dec_int s) end.

Fixpoint join_sp (l : list str) : str :=
  match l with [] => [] | [x] => x | x :: r => x ++ 32%N :: join_sp r end.
Definition show_Zs (l : list Z) : str := join_sp (map show_Z l).
Definition show_chars (l : list Z) : str := map Z.to_N l.
Definition show_fields (l : list (list str)) : str :=
  flat_map (fun f => 60%N :: concat f ++ [62%N]) l.

Definition triple {A} (show : A -> str) (o f : res A) (k : bool) : list str :=
  [enc_res show o; enc_res show f; enc_bool k].

Definition entry_number (a : list str) : list str :=
  match a with
  | [tok] => if number_tok tok then triple show_Z (number_orig tok) (number tok) (known_number tok)
             else [lit "?shape"]
  | _ => [lit "?args"]
  end.

Definition FUEL_CAP : Z := 200000.

Definition entry_numseq (a : list str) : list str :=
  match a with
  | [s; e; i] =>
    let '(s, e, i) := (dec_int s, dec_int e, dec_int i) in
    if seq_count s e i <=? FUEL_CAP then
      let fuel := Z.to_nat (seq_count s e i + 1) in
      triple show_Zs (numseq_orig fuel s e i) (numseq fuel s e i) (known_numseq s e i)
    else [lit "?toobig"]
  | _ => [lit "?args"]
  end.

Definition entry_charseq (a : list str) : list str :=
  match a with
  | [[s]; [e]; i] =>
    let '(s, e, i) := (Z.of_N s, Z.of_N e, dec_int i) in
    let fuel := 200%nat in
    triple show_chars (charseq_orig fuel s e i) (charseq fuel s e i) (known_charseq s e i)
  | _ => [lit "?args"]
  end.

(** substring: <0 scalar | 1 array | 2 positional> <off> <len or empty> field* ; every field is a single piece *)
Definition entry_substr (a : list str) : list str :=
  match a with
  | arr :: off :: len :: fs =>
    let pos := str_eqb arr (lit "2") in
    let x := {| fields := map (fun f => [f]) fs; from_array := negb (str_eqb arr (lit "0")) |} in
    let len := dec_opt len in
    triple show_fields (substring_orig x (dec_int off) len) (substring x pos (dec_int off) len)
           (known_substring len)
  | _ => [lit "?args"]
  end.

Definition entry_intappend (a : list str) : list str :=
  match a with
  | [b; s] => triple (fun x => x) (int_append_orig b s) (int_append b s) (known_int_append b s)
  | _ => [lit "?args"]
  end.

(** array keys: <last or empty> then per literal element "k<key>" (explicit) or "n" *)
Definition dec_lit (s : str) : option str :=
  match s with 107%N :: k => Some k | _ => None end.
Definition entry_arraykeys (a : list str) : list str :=
  match a with
  | last :: lits =>
    let last := dec_opt last in
    let lits := map dec_lit lits in
    triple show_Zs (array_keys_orig last lits) (array_keys last lits) (known_array_keys last lits)
  | _ => [lit "?args"]
  end.

Definition entry_indexedkey (a : list str) : list str :=
  match a with
  | [count; idx] => let r := indexed_key (dec_int count) idx in triple show_Z r r false
  | _ => [lit "?args"]
  end.

Definition entry_capitalize (a : list str) : list str :=
  match a with
  | [lowered; up] => triple (fun x => x) (capitalize_orig lowered up) (capitalize lowered up)
                            (known_capitalize lowered)
  | _ => [lit "?args"]
  end.

Definition entry_tilde (a : list str) : list str :=
  match a with
  | [ds] => triple show_Z (tilde_digits_orig ds) (tilde_digits ds) (known_tilde ds)
  | _ => [lit "?args"]
  end.

Definition show_optZ (o : option Z) : str := match o with Some z => show_Z z | None => lit "none" end.
Definition entry_dirstack (a : list str) : list str :=
  match a with
  | [count; n] => let r := dirstack_top (dec_int count) (dec_int n) in triple show_optZ r r false
  | _ => [lit "?args"]
  end.

Definition entry_history (a : list str) : list str :=
  match a with
  | [count; max] =>
    let '(c, m) := (dec_int count, dec_opt max) in
    if c <=? 5000 then triple show_Zs (display_orig c m) (display c m) (known_history c m)
    else [lit "?toobig"]
  | _ => [lit "?args"]
  end.

Definition entry_pow (a : list str) : list str :=
  match a with
  | [b; e] => let r := wrapping_pow 64 (dec_int b) (dec_int e) in triple show_Z r r false
  | _ => [lit "?args"]
  end.

(** deref: cells "l<int>" (literal) or "r<index>" (reference); start at cell 0 *)
Definition dec_cell (s : str) : cell :=
  match s with
  | 114%N :: j => Ref (Z.to_nat (dec_int j))
  | 108%N :: v => Lit (dec_int v)
  | _ => Lit 0
  end.
Definition entry_deref (a : list str) : list str :=
  let env := map dec_cell a in
  let r := deref 1100 env 0 0 in triple show_Z r r false.

(** aderef: expr, nscalars, the scalars, then per array: count and its elements.  An expression is a comma-separated
    prefix token list: l<int> | v<index> | e<array>,<subscript expression> *)
Fixpoint parse_aexp (fuel : nat) (toks : list str) : aexp * list str :=
  match fuel with
  | O => (ALit 0, [])
  | S f =>
    match toks with
    | (108%N :: v) :: r => (ALit (dec_int v), r)
    | (118%N :: i) :: r => (AVar (Z.to_nat (dec_int i)), r)
    | (101%N :: a) :: r => let '(ix, r') := parse_aexp f r in (AElem (Z.to_nat (dec_int a)) ix, r')
    | _ => (ALit 0, [])
    end
  end.
Definition dec_aexp (s : str) : aexp :=
  let toks := split_on 44%N s [] in fst (parse_aexp (S (length toks)) toks).

Fixpoint take_fields (n : nat) (l : list str) : list str * list str :=
  match n, l with
  | O, _ => ([], l)
  | S n', x :: l' => let '(a, b) := take_fields n' l' in (x :: a, b)
  | S _, [] => ([], [])
  end.
Fixpoint dec_arrays (fuel : nat) (l : list str) : list (list aexp) :=
  match fuel with
  | O => []
  | S f =>
    match l with
    | [] => []
    | n :: r => let '(cells, r') := take_fields (dec_nat n) r in map dec_aexp cells :: dec_arrays f r'
    end
  end.
Definition entry_aderef (a : list str) : list str :=
  match a with
  | e :: n :: r =>
    let '(sc, r') := take_fields (dec_nat n) r in
    let env := {| scalars := map dec_aexp sc; arrays := dec_arrays (length r') r' |} in
    let res := aeval 6000 env (dec_aexp e) 0 in triple show_Z res res false
  | _ => [lit "?args"]
  end.

(** firstchar: s, applicable flag, the case mapping of the first character (oracle) *)
From BV Require NoPanic.FirstChar.
Definition entry_firstchar (a : list str) : list str :=
  match a with
  | [s; app; mapped] =>
    let r := FirstChar.first_char_case s (dec_bool app) mapped in triple (fun x => x) r r false
  | _ => [lit "?args"]
  end.
