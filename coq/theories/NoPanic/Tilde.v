(** C01 core 4 — tilde prefixes with digits.
    brush-parser/src/word.rs rule tilde_expression(): a run of ASCII digits [n] followed by [n.parse().unwrap()]
    with [n : usize]; brush-core/src/expansion.rs expand_tilde_expression: directory stack lookup. *)
From BV Require Import Base.Prelude NoPanic.Mach.

(** pinned: the PEG action unwraps *)
Definition tilde_digits_orig (ds : str) : res Z :=
  match parse_u64 ds with Some n => Val n | None => Panic end.

(** repaired: a number that does not fit usize makes the alternative not match (the word falls
    through to the user-name alternative, as in bash) *)
Definition tilde_digits (ds : str) : res Z :=
  match parse_u64 ds with Some n => Val n | None => Fail end.

Definition known_tilde (ds : str) : bool :=
  match parse_u64 ds with Some _ => false | None => true end.

(** [~+N] / [~N]: index into the directory stack, counted from the top.
    Result: Some index into the stack vector, or None = "print the word back"/cwd. *)
Definition dirstack_top (count n : Z) : res (option Z) :=
  if n =? 0 then Val None
  else if n <=? count                                           (* dir_stack_count >= *n *)
       then bind (of_opt (u64_sub count n)) (fun i => Val (if i <? count then Some i else None))
       else Val None.
