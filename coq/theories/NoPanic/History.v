(** C01 core 5 — brush-builtins/src/history.rs [display_history]: the skip count. *)
From BV Require Import Base.Prelude NoPanic.Mach.

(** pinned: [let skip_count = item_count - max_entries.unwrap_or(item_count);] (usize) *)
Definition skip_count_orig (count : Z) (max : option Z) : res Z :=
  of_opt (u64_sub count (match max with Some m => m | None => count end)).

(** repaired: [saturating_sub] *)
Definition skip_count (count : Z) (max : option Z) : res Z :=
  Val (Z.max 0 (count - (match max with Some m => m | None => count end))).

(** numbers printed in front of the entries: [skip_count + i + 1] for i in 0..count-skip *)
Definition shown_numbers (count skip : Z) : res (list Z) :=
  let n := Z.to_nat (count - skip) in
  fold_right (fun i acc =>
      bind acc (fun l =>
      bind (of_opt (u64_add skip (Z.of_nat i))) (fun a =>
      bind (of_opt (u64_add a 1)) (fun b => Val (b :: l)))))
    (Val []) (seq 0 n).

Definition display_orig (count : Z) (max : option Z) : res (list Z) :=
  bind (skip_count_orig count max) (shown_numbers count).
Definition display (count : Z) (max : option Z) : res (list Z) :=
  bind (skip_count count max) (shown_numbers count).

Definition known_history (count : Z) (max : option Z) : bool :=
  match max with Some m => count <? m | None => false end.
