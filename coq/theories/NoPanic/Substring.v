(** C01 core 2 — `${parameter:offset:length}`.
    Checked twin of brush-core/src/expansion.rs: the [ParameterExpr::Substring] arm of
    [expand_parameter_expr] and [Expansion::polymorphic_subslice] / [polymorphic_len].
    An expansion is a list of fields, a field a list of pieces (piece kind is irrelevant here).
    [*_orig]: the code at the pinned commit.  Unsuffixed arm: the repaired arm (fix owned by the
    C06 builder: bash semantics for negative lengths, lengths counted in characters). *)
From BV Require Import Base.Prelude NoPanic.Mach.

Record expansion := { fields : list (list str); from_array : bool }.

Definition zlen {A} (l : list A) : Z := Z.of_nat (length l).
Definition ztake {A} (n : Z) (l : list A) : list A := firstn (Z.to_nat n) l.
Definition zdrop {A} (n : Z) (l : list A) : list A := skipn (Z.to_nat n) l.

Definition bytes_len (s : str) : Z := fold_left (fun acc c => acc + utf8_len c) s 0.

(** pinned [polymorphic_len]: element count for arrays, BYTE length of all pieces otherwise *)
Definition poly_len_orig (x : expansion) : Z :=
  if from_array x then zlen (fields x)
  else fold_left (fun acc f => acc + fold_left (fun a p => a + bytes_len p) f 0) (fields x) 0.

(** repaired [polymorphic_len]: characters *)
Definition poly_len (x : expansion) : Z :=
  if from_array x then zlen (fields x)
  else fold_left (fun acc f => acc + fold_left (fun a p => a + zlen p) f 0) (fields x) 0.

(** the inner loop over the pieces of one field; state = (dist_to_slice, left) *)
Fixpoint pieces_loop (ps : list str) (dist left : Z) : res (list str * (Z * Z)) :=
  match ps with
  | [] => Val ([], (dist, left))
  | p :: ps' =>
    if left =? 0 then Val ([], (dist, left))                 (* break *)
    else
      let cnt := zlen p in                                    (* chars().count() *)
      if cnt <=? dist then
        bind (of_opt (u64_sub dist cnt)) (fun dist' => pieces_loop ps' dist' left)
      else
        bind (of_opt (u64_sub cnt dist)) (fun avail =>
        let n := Z.min left avail in
        let newp := ztake n (zdrop dist p) in                 (* chars().skip(off).take(n) *)
        bind (of_opt (u64_sub left n)) (fun left' =>
        bind (pieces_loop ps' 0 left') (fun '(out, st) => Val (newp :: out, st))))
  end.

Fixpoint fields_loop (fs : list (list str)) (dist left : Z) : res (list (list str)) :=
  match fs with
  | [] => Val []
  | f :: fs' =>
    bind (pieces_loop f dist left) (fun '(pieces, (dist', left')) =>
    bind (fields_loop fs' dist' left') (fun out =>
    Val (match pieces with [] => out | _ => pieces :: out end)))
  end.

(** [polymorphic_subslice(&self, index: usize, end: usize)] — unchanged by the repair *)
Definition subslice (x : expansion) (index end_ : Z) : res (list (list str)) :=
  bind (of_opt (u64_sub end_ index)) (fun len =>                      (* let len = end - index; *)
  if from_array x then
    bind (of_opt (u64_sub (zlen (fields x)) index)) (fun avail =>    (* self.fields.len() - index *)
    let actual := Z.min len avail in
    bind (of_opt (u64_add index actual)) (fun hi =>
    if (index <=? hi) && (hi <=? zlen (fields x))                    (* slice bounds check *)
    then Val (ztake actual (zdrop index (fields x)))
    else Panic))
  else fields_loop (fields x) index len).

(** pinned arm; [off]/[len] are the evaluated arithmetic expressions (i64) *)
Definition substring_orig (x : expansion) (off : Z) (len : option Z) : res (list (list str)) :=
  let plen := wrap64 (poly_len_orig x) in                              (* as i64 *)
  bind (if off <? 0
        then bind (of_opt (i64_add off plen)) (fun o => Val (if o <? 0 then plen else o))
        else Val off) (fun off1 =>
  let off2 := Z.min off1 plen in
  bind (match len with
        | Some l =>
          bind (if l <? 0 then of_opt (i64_add l plen) else Val l) (fun l1 =>
          bind (of_opt (i64_sub plen off2)) (fun room =>
          of_opt (i64_add off2 (Z.min l1 room))))
        | None => Val plen
        end) (fun end_ =>
  subslice x (to_u64 off2) (to_u64 end_))).                             (* as usize *)

(** repaired arm (commit "fix: ${v:offset:length} with negative length, and character counts",
    branch fix/c06): nothing to slice for an empty expansion; an offset outside the item gives the
    empty slice without looking at the length; a negative length counts from the end of a string,
    is an error for arrays and when it ends before the offset.  [positional] = the parameter is $@/$*
    (the caller has already put $0 in front of the fields).  Unset parameters (the [undefined] flag)
    return before any arithmetic and are not part of this model. *)
Definition substring (x : expansion) (positional : bool) (off : Z) (len : option Z)
  : res (list (list str)) :=
  match fields x with
  | [] => Val []
  | _ =>
    let plen := wrap64 (poly_len x) in
    bind (if off <? 0 then of_opt (i64_add off plen) else Val off) (fun off1 =>
    let is_array := from_array x && negb positional in
    if (off1 <? 0) || (plen <? off1) || (is_array && (off1 =? plen))
    then subslice x (to_u64 plen) (to_u64 plen)
    else
      bind (match len with
            | Some l =>
              if l <? 0 then
                bind (of_opt (i64_add plen l)) (fun e =>
                if from_array x || (e <? off1) then Fail else Val e)
              else
                bind (of_opt (i64_sub plen off1)) (fun room =>
                of_opt (i64_add off1 (Z.min l room)))
            | None => Val plen
            end) (fun end_ =>
      subslice x (to_u64 off1) (to_u64 end_)))
  end.

(** known class of the pinned code: a negative length *)
Definition known_substring (len : option Z) : bool :=
  match len with Some l => l <? 0 | None => false end.
