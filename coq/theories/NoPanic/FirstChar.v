(** C01 core — `${v^pat}` / `${v,pat}` / `${v@u}`: [WordExpander::pattern_to_first_char]
    (brush-core/src/expansion.rs).  The first character is replaced by the FIRST character of
    its case mapping, the rest of the string is kept.  The Unicode case mapping of the first
    character is an input ([mapped] = [transform(first_char)] as a sequence, from Rust's tables);
    [applicable] = the pattern is absent/empty or matches the first character.
    The text is handled at byte level, as a Rust [String]: keeping "the rest" means slicing at a
    byte index, which panics unless the index is a character boundary of the ORIGINAL string. *)
From BV Require Import Base.Prelude NoPanic.Mach.

(** [&s[n..]] on a Rust string: the characters after byte offset [n]; panics when [n] is not a
    character boundary or lies beyond the end *)
Fixpoint byte_slice_from (s : str) (n : Z) : res str :=
  if n =? 0 then Val s
  else if n <? 0 then Panic
  else match s with
       | [] => Panic
       | c :: r => byte_slice_from r (n - utf8_len c)
       end.

(** the code: [result = upper_char.to_string(); result.extend(s.chars().skip(1))] — in byte terms
    the rest starts at [first_char.len_utf8()] *)
Definition first_char_case (s : str) (applicable : bool) (mapped : str) : res str :=
  match s with
  | [] => Val s
  | c :: _ =>
    if applicable then
      match mapped with
      | u :: _ => bind (byte_slice_from s (utf8_len c)) (fun rest => Val (u :: rest))
      | [] => Val s
      end
    else Val s
  end.

(** the tempting variant that slices at the length of the CONVERTED character *)
Definition first_char_case_wrong (s : str) (applicable : bool) (mapped : str) : res str :=
  match s with
  | [] => Val s
  | c :: _ =>
    if applicable then
      match mapped with
      | u :: _ => bind (byte_slice_from s (utf8_len u)) (fun rest => Val (u :: rest))
      | [] => Val s
      end
    else Val s
  end.

Lemma utf8_len_ge1 c : 1 <= utf8_len c.
Proof. unfold utf8_len. destruct (c <? 128)%N; [lia|]. destruct (c <? 2048)%N; [lia|]. destruct (c <? 65536)%N; lia. Qed.

Lemma byte_slice_first c r : byte_slice_from (c :: r) (utf8_len c) = Val r.
Proof.
  pose proof (utf8_len_ge1 c) as H. cbn [byte_slice_from].
  destruct (utf8_len c =? 0) eqn:E0; [apply Z.eqb_eq in E0; lia|].
  destruct (utf8_len c <? 0) eqn:E1; [apply Z.ltb_lt in E1; lia|].
  rewrite Z.sub_diag. destruct r; reflexivity.
Qed.

(** the functional meaning: first character replaced, rest kept *)
Theorem first_char_case_spec : forall s applicable mapped,
  first_char_case s applicable mapped =
  Val (match s, applicable, mapped with
       | c :: r, true, u :: _ => u :: r
       | _, _, _ => s
       end).
Proof.
  intros [|c r] applicable mapped; [reflexivity|]. unfold first_char_case.
  destruct applicable; [|reflexivity]. destruct mapped as [|u m]; [reflexivity|].
  rewrite byte_slice_first. reflexivity.
Qed.

Theorem no_panic_first_char_case : forall s applicable mapped, first_char_case s applicable mapped <> Panic.
Proof. intros. rewrite first_char_case_spec. discriminate. Qed.

(** slicing at the converted character's length panics: dotless i (2 bytes) upper-cases to I (1 byte) *)
Theorem first_char_case_wrong_refuted : exists s mapped, first_char_case_wrong s true mapped = Panic.
Proof. exists [305%N; 115%N], [73%N]. vm_compute. reflexivity. Qed.

(** ... and it is harmless exactly when both lengths agree *)
Theorem first_char_case_wrong_ok : forall c r u m,
  utf8_len u = utf8_len c -> first_char_case_wrong (c :: r) true (u :: m) = first_char_case (c :: r) true (u :: m).
Proof. intros c r u m H. unfold first_char_case_wrong, first_char_case. rewrite H. reflexivity. Qed.
