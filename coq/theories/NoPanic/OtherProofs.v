(** C01 — theorems about the variables.rs cores, tilde digits, history display, pow and deref. *)
From BV Require Import Base.Prelude Base.Decimal NoPanic.Mach NoPanic.Brace NoPanic.Substring NoPanic.Vars NoPanic.Tilde
  NoPanic.History NoPanic.Pow NoPanic.BraceProofs NoPanic.SubstringProofs.

(** ** integer += *)
Theorem no_panic_int_append : forall b s, int_append b s <> Panic.
Proof. intros; discriminate. Qed.

Theorem int_append_refuted : exists b s, int_append_orig b s = Panic.
Proof.
  exists (map N.of_nat [57;50;50;51;51;55;50;48;51;54;56;53;52;55;55;53;56;48;55]%nat), [49%N].
  vm_compute. reflexivity.
Qed.

Lemma parse_i64_or0_range s : in_i64 (parse_i64_or0 s) = true.
Proof.
  unfold parse_i64_or0. destruct (parse_i64 s) eqn:E; [eapply parse_i64_range; eauto|reflexivity].
Qed.

Lemma int_norm_parse s : parse_i64_or0 (int_norm s) = parse_i64_or0 s.
Proof.
  unfold int_norm. unfold parse_i64_or0 at 1. rewrite parse_show_Z by apply parse_i64_or0_range. reflexivity.
Qed.

(** outside the known class (sum leaves i64) the pinned code computes what the repaired code computes *)
Theorem int_append_orig_outside_known : forall b s,
  known_int_append b s = false -> int_append_orig b s = int_append b s.
Proof.
  intros b s Hk. unfold known_int_append in Hk. apply negb_false_iff in Hk.
  unfold int_append_orig, int_append. rewrite int_norm_parse. unfold i64_add. rewrite Hk.
  cbn [of_opt bind]. rewrite wrap64_id by exact Hk. reflexivity.
Qed.

(** ** array literal keys *)
Theorem no_panic_array_keys : forall last lits, array_keys last lits <> Panic.
Proof. intros; discriminate. Qed.

Theorem array_keys_refuted : exists last lits, array_keys_orig last lits = Panic.
Proof.
  exists None, [Some (map N.of_nat [49;56;52;52;54;55;52;52;48;55;51;55;48;57;53;53;49;54;49;53]%nat); None].
  vm_compute. reflexivity.
Qed.

Lemma parse_u64_or0_range s : 0 <= parse_u64_or0 s <= u64_max.
Proof.
  unfold parse_u64_or0, parse_u64.
  set (ds := match s with 43%N :: r => r | _ => s end).
  destruct ds as [|d ds']; [unfold u64_max; lia|].
  destruct (digits_val 0 (d :: ds')) eqn:E; [|unfold u64_max; lia].
  destruct (z <=? u64_max) eqn:E2; [|unfold u64_max; lia].
  apply Z.leb_le in E2. split; [|exact E2]. eapply digits_val_ge; [|exact E]. lia.
Qed.

Lemma keys_loop_orig_eq lits : forall nk, 0 <= nk <= u64_max ->
  existsb (fun k => k =? u64_max) (keys_loop lits nk) = false ->
  keys_loop_orig lits nk = Val (keys_loop lits nk).
Proof.
  induction lits as [|k r IH]; intros nk Hn Hx; cbn [keys_loop_orig keys_loop]; [reflexivity|].
  cbn [keys_loop existsb] in Hx. apply orb_false_iff in Hx. destruct Hx as [Hk Hr].
  set (key := match k with Some s => parse_u64_or0 s | None => nk end) in *.
  assert (Hkey : 0 <= key <= u64_max).
  { unfold key. destruct k; [apply parse_u64_or0_range|exact Hn]. }
  apply Z.eqb_neq in Hk.
  assert (Hadd : u64_add key 1 = Some (key + 1)).
  { unfold u64_add, in_u64. assert (E : ((0 <=? key + 1) && (key + 1 <=? u64_max)) = true).
    { apply andb_true_iff. rewrite !Z.leb_le. lia. } rewrite E. reflexivity. }
  rewrite Hadd. cbn [of_opt bind].
  assert (Hu : to_u64 (key + 1) = key + 1).
  { unfold to_u64, two64, u64_max in *. apply Z.mod_small. lia. }
  rewrite Hu in *. rewrite IH by (try lia; exact Hr). reflexivity.
Qed.

Theorem array_keys_orig_outside_known : forall last lits,
  (forall m, last = Some m -> 0 <= m <= u64_max) ->
  known_array_keys last lits = false -> array_keys_orig last lits = array_keys last lits.
Proof.
  intros last lits Hl Hk. unfold known_array_keys in Hk. apply orb_false_iff in Hk. destruct Hk as [H1 H2].
  unfold array_keys_orig, array_keys. destruct last as [m|].
  - specialize (Hl m eq_refl). apply Z.eqb_neq in H1.
    assert (Hadd : u64_add m 1 = Some (m + 1)).
    { unfold u64_add, in_u64. assert (E : ((0 <=? m + 1) && (m + 1 <=? u64_max)) = true).
      { apply andb_true_iff. rewrite !Z.leb_le. lia. } rewrite E. reflexivity. }
    rewrite Hadd. cbn [of_opt bind].
    assert (Hu : to_u64 (m + 1) = m + 1).
    { unfold to_u64, two64, u64_max in *. apply Z.mod_small. lia. }
    rewrite Hu in *. apply keys_loop_orig_eq; [lia|exact H2].
  - cbn [bind]. apply keys_loop_orig_eq; [unfold u64_max; lia|exact H2].
Qed.

(** ** get_key_for_indexed_array *)
Theorem no_panic_indexed_key : forall count idx, 0 <= count <= i64_max -> indexed_key count idx <> Panic.
Proof.
  intros count idx Hc. unfold indexed_key.
  pose proof (parse_i64_or0_range idx) as Hr. apply in_i64_bounds in Hr.
  destruct (parse_i64_or0 idx <? 0) eqn:E; [|discriminate]. apply Z.ltb_lt in E.
  rewrite wrap64_id by (apply in_i64_bounds; unfold i64_min, i64_max in *; lia).
  rewrite i64_add_ok by (unfold i64_min, i64_max in *; lia). cbn [of_opt bind].
  destruct (parse_i64_or0 idx + count <? 0); discriminate.
Qed.

(** ** Capitalize *)
Theorem no_panic_capitalize : forall lowered up, capitalize lowered up <> Panic.
Proof. intros [|c r] up; discriminate. Qed.

Theorem capitalize_refuted : exists lowered up, capitalize_orig lowered up = Panic.
Proof. exists [233%N; 97%N], [201%N]. reflexivity. Qed.

Theorem capitalize_orig_outside_known : forall lowered up,
  known_capitalize lowered = false -> capitalize_orig lowered up = capitalize lowered up.
Proof.
  intros [|c r] up Hk; [reflexivity|]. cbn in *. apply negb_false_iff in Hk. rewrite Hk. reflexivity.
Qed.

(** ** tilde digits, directory stack *)
Theorem no_panic_tilde_digits : forall ds, tilde_digits ds <> Panic.
Proof. intros ds. unfold tilde_digits. destruct (parse_u64 ds); discriminate. Qed.

Theorem tilde_digits_refuted : exists ds, tilde_digits_orig ds = Panic.
Proof. exists (repeat 57%N 23). vm_compute. reflexivity. Qed.

Theorem tilde_digits_orig_outside_known : forall ds,
  known_tilde ds = false -> tilde_digits_orig ds = tilde_digits ds.
Proof. intros ds Hk. unfold known_tilde, tilde_digits_orig, tilde_digits in *. destruct (parse_u64 ds); [reflexivity|discriminate]. Qed.

Theorem no_panic_dirstack : forall count n, dirstack_top count n <> Panic.
Proof.
  intros count n. unfold dirstack_top. destruct (n =? 0); [discriminate|].
  destruct (n <=? count) eqn:E; [|discriminate]. apply Z.leb_le in E.
  rewrite u64_sub_ok by lia. cbn [of_opt bind]. discriminate.
Qed.

(** ** history display *)
Lemma shown_numbers_no_panic count skip : 0 <= skip -> count <= u64_max - 1 -> shown_numbers count skip <> Panic.
Proof.
  intros Hs Hc. unfold shown_numbers.
  assert (G : forall l, Forall (fun i => skip + Z.of_nat i + 1 <= u64_max) l ->
          exists v, fold_right (fun i acc =>
            bind acc (fun l => bind (of_opt (u64_add skip (Z.of_nat i))) (fun a =>
            bind (of_opt (u64_add a 1)) (fun b => Val (b :: l))))) (Val []) l = Val v).
  { induction l as [|i l IH]; intros HF; [eexists; reflexivity|].
    inversion HF as [|? ? Hi HF']; subst. destruct (IH HF') as [v Hv]. cbn [fold_right]. rewrite Hv. cbn [bind].
    unfold u64_add, in_u64.
    assert (E1 : ((0 <=? skip + Z.of_nat i) && (skip + Z.of_nat i <=? u64_max)) = true).
    { apply andb_true_iff. rewrite !Z.leb_le. lia. } rewrite E1. cbn [of_opt bind].
    assert (E2 : ((0 <=? skip + Z.of_nat i + 1) && (skip + Z.of_nat i + 1 <=? u64_max)) = true).
    { apply andb_true_iff. rewrite !Z.leb_le. lia. } rewrite E2. cbn [of_opt bind]. eexists; reflexivity. }
  destruct (G (seq 0 (Z.to_nat (count - skip)))) as [v Hv].
  - apply Forall_forall. intros i Hi. apply in_seq in Hi. lia.
  - rewrite Hv. discriminate.
Qed.

Theorem no_panic_display : forall count max,
  0 <= count <= u64_max - 1 -> (forall m, max = Some m -> 0 <= m) -> display count max <> Panic.
Proof.
  intros count max Hc Hm. unfold display, skip_count. cbn [bind].
  apply shown_numbers_no_panic; lia.
Qed.

Theorem display_refuted : exists count max, display_orig count max = Panic.
Proof. exists 3, (Some 99999). reflexivity. Qed.

Theorem display_orig_outside_known : forall count max,
  known_history count max = false -> display_orig count max = display count max.
Proof.
  intros count max Hk. unfold display_orig, display, skip_count_orig, skip_count, known_history in *.
  destruct max as [m|].
  - apply Z.ltb_ge in Hk. rewrite u64_sub_ok by lia. cbn [of_opt]. rewrite Z.max_r by lia. reflexivity.
  - rewrite u64_sub_ok by lia. cbn [of_opt]. rewrite Z.max_r by lia. reflexivity.
Qed.

(** ** wrapping_pow_u64: at most 64 iterations for every u64 exponent *)
Lemma pow_loop_terminates fuel : forall r b e, in_i64 r = true -> e < 2 ^ Z.of_nat fuel ->
  exists v, pow_loop fuel r b e = Val v /\ in_i64 v = true.
Proof.
  induction fuel as [|f IH]; intros r b e Hr He.
  - cbn [pow_loop]. change (2 ^ Z.of_nat 0) with 1 in He.
    assert (E : (e <=? 0) = true) by (apply Z.leb_le; lia). rewrite E. eauto.
  - cbn [pow_loop]. destruct (e <=? 0) eqn:E; [eauto|]. apply Z.leb_gt in E.
    apply IH.
    + destruct (e mod 2 =? 1); [apply wrap64_in|exact Hr].
    + rewrite Nat2Z.inj_succ, Z.pow_succ_r in He by lia.
      apply Z.div_lt_upper_bound; lia.
Qed.

Theorem pow_terminates : forall b e, e < 2 ^ 64 ->
  exists v, wrapping_pow 64 b e = Val v /\ in_i64 v = true.
Proof. intros b e He. unfold wrapping_pow. apply pow_loop_terminates; [reflexivity|exact He]. Qed.

(** ** deref depth counter: no panic, and at most 1024 non-literal steps *)
Lemma deref_no_panic fuel : forall env i d, 0 <= d <= MAX_DEPTH -> deref fuel env i d <> Panic.
Proof.
  induction fuel as [|f IH]; intros env i d Hd; cbn [deref]; [discriminate|].
  destruct (nth_error env i) as [[v|j]|]; try discriminate.
  unfold MAX_DEPTH, two32 in *.
  assert (E : (d + 1 <? 2 ^ 32) = true) by (apply Z.ltb_lt; lia). rewrite E.
  destruct (1024 <? d + 1) eqn:E2; [discriminate|]. apply Z.ltb_ge in E2. apply IH. lia.
Qed.

Theorem no_panic_deref : forall fuel env i, deref fuel env i 0 <> Panic.
Proof. intros. apply deref_no_panic. unfold MAX_DEPTH. lia. Qed.

Lemma deref_fuel fuel : forall env i d, 0 <= d <= MAX_DEPTH ->
  (Z.to_nat (MAX_DEPTH - d) + 2 <= fuel)%nat -> deref fuel env i d <> OutOfFuel.
Proof.
  induction fuel as [|f IH]; intros env i d Hd Hf; [lia|]. cbn [deref].
  destruct (nth_error env i) as [[v|j]|]; try discriminate.
  unfold MAX_DEPTH, two32 in *.
  assert (E : (d + 1 <? 2 ^ 32) = true) by (apply Z.ltb_lt; lia). rewrite E.
  destruct (1024 <? d + 1) eqn:E2; [discriminate|]. apply Z.ltb_ge in E2. apply IH; lia.
Qed.

(** every dereference chain — cyclic ones included — ends within 1026 steps *)
Theorem deref_terminates : forall env i, deref 1026 env i 0 <> OutOfFuel.
Proof. intros. apply deref_fuel; unfold MAX_DEPTH; lia. Qed.

Theorem deref_cycle_fails : deref 1026 [Ref 0] 0 0 = Fail.
Proof. vm_compute. reflexivity. Qed.

Lemma nonvacuous :
  numseq 10 5 1 2 = Val [5; 3; 1] /\ seq_count 5 1 2 = 3 /\
  known_numseq 5 1 2 = false /\ known_charseq 122 97 5 = false /\
  substring {| fields := [[[97;98;99;100]%N]]; from_array := false |} false 1 (Some (-1)) = Val [[[98;99]%N]] /\
  substring {| fields := [[[97;98;99;100]%N]]; from_array := false |} false 2 (Some (-5)) = Fail /\
  deref 1026 [Ref 0] 0 0 = Fail.
Proof. vm_compute. repeat split; reflexivity. Qed.

(** ** dereference through array subscripts *)
Lemma aeval_no_panic fuel : forall env e d, 0 <= d <= MAX_DEPTH -> aeval fuel env e d <> Panic.
Proof.
  induction fuel as [|f IH]; intros env e d Hd; cbn [aeval]; [discriminate|].
  assert (K : forall c : option aexp,
    match c with
    | None => Val 0
    | Some (ALit v) => Val v
    | Some e' => if d + 1 <? two32 then (if MAX_DEPTH <? d + 1 then Fail else aeval f env e' (d + 1)) else Panic
    end <> Panic).
  { intros [c|]; [|discriminate].
    assert (E : (d + 1 <? two32) = true) by (apply Z.ltb_lt; unfold MAX_DEPTH, two32 in *; lia).
    destruct c as [v|i|a ix]; [discriminate| |]; rewrite E;
      (destruct (MAX_DEPTH <? d + 1) eqn:E2; [discriminate|]; apply Z.ltb_ge in E2; apply IH; lia). }
  destruct e as [v|i|a ix]; [discriminate|apply K|].
  apply bind_not_panic; [apply IH; exact Hd|].
  intros k. destruct (k <? 0); [discriminate|apply K].
Qed.

Theorem no_panic_aeval : forall fuel env e, aeval fuel env e 0 <> Panic.
Proof. intros. apply aeval_no_panic. unfold MAX_DEPTH. lia. Qed.

(** the cycle that runs through a subscript ( next=(1 2 0); i='next[i]'; $(( next[i] )) ) trips
    the recursion limit instead of recursing forever *)
Definition cycle_env : aenv :=
  {| scalars := [AElem 0 (AVar 0)]; arrays := [[ALit 1; ALit 2; ALit 0]] |}.
Lemma aeval_subscript_cycle_fails : aeval 4000 cycle_env (AElem 0 (AVar 0)) 0 = Fail.
Proof. vm_compute. reflexivity. Qed.

(** a chain through subscripts that ends in a literal is evaluated *)
Lemma aeval_subscript_chain :
  aeval 50 {| scalars := [AElem 0 (AVar 1); ALit 2]; arrays := [[ALit 7; ALit 8; AVar 1]] |} (AVar 0) 0 = Val 2.
Proof. vm_compute. reflexivity. Qed.
