(** C01 — theorems about the Substring arm and polymorphic_subslice. *)
From BV Require Import Base.Prelude NoPanic.Mach NoPanic.Substring NoPanic.BraceProofs.

Lemma of_opt_some {A} (a : A) : of_opt (Some a) = Val a. Proof. reflexivity. Qed.

Lemma bind_not_panic_dep {A B} (r : res A) (f : A -> res B) :
  r <> Panic -> (forall a, r = Val a -> f a <> Panic) -> bind r f <> Panic.
Proof. intros Hr Hf. destruct r; cbn; auto; discriminate. Qed.

Lemma u64_sub_ok a b : b <= a -> u64_sub a b = Some (a - b).
Proof. intros H. unfold u64_sub. assert (E : (0 <=? a - b) = true) by (apply Z.leb_le; lia). rewrite E. reflexivity. Qed.

Lemma zlen_nonneg {A} (l : list A) : 0 <= zlen l. Proof. unfold zlen. lia. Qed.

(** the loops of the string branch contain no reachable panic at all *)
Lemma pieces_loop_no_panic ps : forall dist left, pieces_loop ps dist left <> Panic.
Proof.
  induction ps as [|p ps IH]; intros dist left; cbn [pieces_loop]; [discriminate|].
  destruct (left =? 0); [discriminate|].
  destruct (zlen p <=? dist) eqn:E.
  - apply Z.leb_le in E. rewrite (u64_sub_ok _ _ E), of_opt_some. cbn [bind]. apply IH.
  - apply Z.leb_gt in E. rewrite (u64_sub_ok (zlen p) dist) by lia. rewrite of_opt_some. cbn [bind].
    rewrite (u64_sub_ok left (Z.min left (zlen p - dist))) by lia. rewrite of_opt_some. cbn [bind].
    apply bind_not_panic; [apply IH|]. intros [out st]. discriminate.
Qed.

Lemma fields_loop_no_panic fs : forall dist left, fields_loop fs dist left <> Panic.
Proof.
  induction fs as [|f fs IH]; intros dist left; cbn [fields_loop]; [discriminate|].
  apply bind_not_panic; [apply pieces_loop_no_panic|]. intros [pieces [d l]].
  apply bind_not_panic; [apply IH|]. intros; discriminate.
Qed.

(** [polymorphic_subslice(index, end)] does not panic when index <= end and, for arrays,
    index <= number of elements *)
Theorem no_panic_subslice : forall x index end_,
  0 <= index <= end_ ->
  zlen (fields x) <= u64_max ->
  (from_array x = true -> index <= zlen (fields x)) ->
  subslice x index end_ <> Panic.
Proof.
  intros x index end_ Hi Hm Ha. unfold subslice.
  rewrite (u64_sub_ok end_ index) by lia. rewrite of_opt_some. cbn [bind].
  destruct (from_array x) eqn:Ef.
  - specialize (Ha eq_refl). rewrite (u64_sub_ok _ _ Ha), of_opt_some. cbn [bind].
    set (actual := Z.min (end_ - index) (zlen (fields x) - index)).
    assert (Hact : 0 <= actual <= zlen (fields x) - index) by (unfold actual; lia).
    unfold u64_add, in_u64.
    assert (E1 : ((0 <=? index + actual) && (index + actual <=? u64_max)) = true).
    { apply andb_true_iff. rewrite !Z.leb_le. lia. }
    rewrite E1, of_opt_some. cbn [bind].
    assert (E2 : ((index <=? index + actual) && (index + actual <=? zlen (fields x))) = true).
    { apply andb_true_iff. rewrite !Z.leb_le. lia. }
    rewrite E2. discriminate.
  - apply fields_loop_no_panic.
Qed.

Theorem subslice_refuted : exists x index end_, subslice x index end_ = Panic.
Proof. exists {| fields := [[[97%N]]]; from_array := false |}, 2, 1. reflexivity. Qed.

Lemma fold_sum_nonneg {A} (f : A -> Z) (l : list A) : (forall a, 0 <= f a) ->
  forall acc, 0 <= acc -> 0 <= fold_left (fun a x => a + f x) l acc.
Proof. intros Hf. induction l as [|x l IH]; intros acc Ha; cbn; [lia|]. apply IH. specialize (Hf x). lia. Qed.

Lemma poly_len_nonneg x : 0 <= poly_len x.
Proof.
  unfold poly_len. destruct (from_array x); [apply zlen_nonneg|].
  apply fold_sum_nonneg; [|lia]. intros f. apply fold_sum_nonneg; [|lia]. intros; apply zlen_nonneg.
Qed.

Lemma utf8_len_pos c : 0 <= utf8_len c.
Proof. unfold utf8_len. destruct (c <? 128)%N; [lia|]. destruct (c <? 2048)%N; [lia|]. destruct (c <? 65536)%N; lia. Qed.

Lemma poly_len_orig_nonneg x : 0 <= poly_len_orig x.
Proof.
  unfold poly_len_orig. destruct (from_array x); [apply zlen_nonneg|].
  apply fold_sum_nonneg; [|lia]. intros f. apply fold_sum_nonneg; [|lia]. intros p.
  unfold bytes_len. apply fold_sum_nonneg; [|lia]. apply utf8_len_pos.
Qed.

Lemma i64_add_ok a b : i64_min <= a + b <= i64_max -> i64_add a b = Some (a + b).
Proof. intros H. unfold i64_add. apply in_i64_bounds in H. rewrite H. reflexivity. Qed.
Lemma i64_sub_ok a b : i64_min <= a - b <= i64_max -> i64_sub a b = Some (a - b).
Proof. intros H. unfold i64_sub. apply in_i64_bounds in H. rewrite H. reflexivity. Qed.

Lemma to_u64_small z : 0 <= z <= i64_max -> to_u64 z = z.
Proof. intros H. unfold to_u64, two64, i64_max in *. apply Z.mod_small. lia. Qed.

(** the repaired arm never panics: for every expansion whose length fits i64 (memory bound),
    every offset and every length in i64 *)
Theorem no_panic_substring : forall x positional off len,
  poly_len x <= i64_max -> zlen (fields x) <= i64_max ->
  in_i64 off = true -> (forall l, len = Some l -> in_i64 l = true) ->
  substring x positional off len <> Panic.
Proof.
  intros x positional off len Hp Hz Ho Hl. unfold substring.
  destruct (fields x) as [|f0 fr] eqn:Efs; [discriminate|]. rewrite <- ?Efs in *. clear Efs f0 fr.
  pose proof (poly_len_nonneg x) as Hp0.
  assert (Hw : wrap64 (poly_len x) = poly_len x).
  { apply wrap64_id. apply in_i64_bounds. unfold i64_min, i64_max in *. lia. }
  rewrite Hw. set (plen := poly_len x) in *.
  apply in_i64_bounds in Ho.
  assert (Hsub : forall a b, 0 <= a <= b -> b <= plen -> subslice x (to_u64 a) (to_u64 b) <> Panic).
  { intros a b Hab Hb. rewrite !to_u64_small by lia. apply no_panic_subslice; [lia| |].
    - unfold u64_max, i64_max in *. lia.
    - intros Ef. unfold plen, poly_len in Hb. rewrite Ef in Hb. lia. }
  assert (Hoff : exists off1, (if off <? 0 then of_opt (i64_add off plen) else Val off) = Val off1 /\
                              off1 <= Z.max off (off + plen) /\ (off1 = off \/ off1 = off + plen) /\ i64_min <= off1 <= i64_max).
  { destruct (off <? 0) eqn:E.
    - apply Z.ltb_lt in E. rewrite i64_add_ok by (unfold i64_min, i64_max in *; lia).
      exists (off + plen). repeat split; try lia; auto; unfold i64_min, i64_max in *; lia.
    - apply Z.ltb_ge in E. exists off. repeat split; try lia; auto. }
  destruct Hoff as [off1 [-> [_ [_ Hr1]]]]. cbn [bind].
  destruct ((off1 <? 0) || (plen <? off1) || (from_array x && negb positional && (off1 =? plen))) eqn:Eg.
  - apply Hsub; lia.
  - apply orb_false_iff in Eg. destruct Eg as [Eg _]. apply orb_false_iff in Eg. destruct Eg as [G1 G2].
    apply Z.ltb_ge in G1. apply Z.ltb_ge in G2.
    apply bind_not_panic_dep.
    + destruct len as [l|]; [|discriminate].
      specialize (Hl l eq_refl). apply in_i64_bounds in Hl.
      destruct (l <? 0) eqn:El.
      * apply Z.ltb_lt in El. rewrite i64_add_ok by (unfold i64_min, i64_max in *; lia).
        rewrite of_opt_some. cbn [bind]. destruct (from_array x || (plen + l <? off1)); discriminate.
      * apply Z.ltb_ge in El. rewrite i64_sub_ok by (unfold i64_min, i64_max in *; lia).
        rewrite of_opt_some. cbn [bind].
        rewrite i64_add_ok by (unfold i64_min, i64_max in *; lia). discriminate.
    + intros end_ He. apply Hsub.
      * destruct len as [l|].
        -- specialize (Hl l eq_refl). apply in_i64_bounds in Hl.
           destruct (l <? 0) eqn:El.
           ++ apply Z.ltb_lt in El. rewrite i64_add_ok in He by (unfold i64_min, i64_max in *; lia).
              rewrite of_opt_some in He. cbn [bind] in He.
              destruct (from_array x || (plen + l <? off1)) eqn:Ec; [discriminate|].
              apply orb_false_iff in Ec. destruct Ec as [_ Ec]. apply Z.ltb_ge in Ec.
              inversion He; subst. lia.
           ++ apply Z.ltb_ge in El. rewrite i64_sub_ok in He by (unfold i64_min, i64_max in *; lia).
              rewrite of_opt_some in He. cbn [bind] in He.
              rewrite i64_add_ok in He by (unfold i64_min, i64_max in *; lia).
              rewrite of_opt_some in He. inversion He; subst. lia.
        -- inversion He; subst. lia.
      * destruct len as [l|].
        -- specialize (Hl l eq_refl). apply in_i64_bounds in Hl.
           destruct (l <? 0) eqn:El.
           ++ apply Z.ltb_lt in El. rewrite i64_add_ok in He by (unfold i64_min, i64_max in *; lia).
              rewrite of_opt_some in He. cbn [bind] in He.
              destruct (from_array x || (plen + l <? off1)); [discriminate|]. inversion He; subst. lia.
           ++ apply Z.ltb_ge in El. rewrite i64_sub_ok in He by (unfold i64_min, i64_max in *; lia).
              rewrite of_opt_some in He. cbn [bind] in He.
              rewrite i64_add_ok in He by (unfold i64_min, i64_max in *; lia).
              rewrite of_opt_some in He. inversion He; subst. lia.
        -- inversion He; subst. lia.
Qed.

Theorem substring_refuted : exists x off len,
  in_i64 off = true /\ (forall l, len = Some l -> in_i64 l = true) /\ substring_orig x off len = Panic.
Proof.
  exists {| fields := [[[97;98;99;100]%N]]; from_array := false |}, 2, (Some (-5)).
  split; [reflexivity|]. split; [intros l H; inversion H; reflexivity|]. vm_compute. reflexivity.
Qed.

(** outside the known class (negative length) the pinned arm does not panic either *)
Theorem substring_orig_outside_known : forall x off len,
  poly_len_orig x <= i64_max -> zlen (fields x) <= i64_max ->
  in_i64 off = true -> (forall l, len = Some l -> in_i64 l = true) ->
  known_substring len = false ->
  substring_orig x off len <> Panic.
Proof.
  intros x off len Hp Hz Ho Hl Hk. unfold substring_orig.
  pose proof (poly_len_orig_nonneg x) as Hp0.
  assert (Hw : wrap64 (poly_len_orig x) = poly_len_orig x).
  { apply wrap64_id. apply in_i64_bounds. unfold i64_min, i64_max in *. lia. }
  rewrite Hw. set (plen := poly_len_orig x) in *.
  apply in_i64_bounds in Ho.
  assert (Hsub : forall a b, 0 <= a <= b -> b <= plen -> subslice x (to_u64 a) (to_u64 b) <> Panic).
  { intros a b Hab Hb. rewrite !to_u64_small by lia. apply no_panic_subslice; [lia| |].
    - unfold u64_max, i64_max in *. lia.
    - intros Ef. unfold plen, poly_len_orig in Hb. rewrite Ef in Hb. lia. }
  apply bind_not_panic_dep.
  - destruct (off <? 0) eqn:E; [|discriminate]. apply Z.ltb_lt in E.
    rewrite i64_add_ok by (unfold i64_min, i64_max in *; lia). rewrite of_opt_some. cbn [bind]. discriminate.
  - intros off1 H1.
    assert (Hoff1 : 0 <= off1).
    { destruct (off <? 0) eqn:E.
      - apply Z.ltb_lt in E. rewrite i64_add_ok in H1 by (unfold i64_min, i64_max in *; lia).
        rewrite of_opt_some in H1. cbn [bind] in H1. destruct (off + plen <? 0) eqn:E2; inversion H1; subst; [lia|].
        apply Z.ltb_ge in E2. lia.
      - apply Z.ltb_ge in E. inversion H1; subst. lia. }
    set (off2 := Z.min off1 plen). assert (Ho2 : 0 <= off2 <= plen) by (unfold off2; lia).
    apply bind_not_panic_dep.
    + destruct len as [l|]; [|discriminate].
      specialize (Hl l eq_refl). apply in_i64_bounds in Hl. cbn in Hk. rewrite Hk. cbn [bind].
      apply Z.ltb_ge in Hk.
      rewrite i64_sub_ok by (unfold i64_min, i64_max in *; lia). rewrite of_opt_some. cbn [bind].
      rewrite i64_add_ok by (unfold i64_min, i64_max in *; lia). discriminate.
    + intros end_ He. apply Hsub.
      * destruct len as [l|].
        -- specialize (Hl l eq_refl). apply in_i64_bounds in Hl. cbn in Hk. rewrite Hk in He. cbn [bind] in He.
           apply Z.ltb_ge in Hk.
           rewrite i64_sub_ok in He by (unfold i64_min, i64_max in *; lia). rewrite of_opt_some in He. cbn [bind] in He.
           rewrite i64_add_ok in He by (unfold i64_min, i64_max in *; lia). rewrite of_opt_some in He.
           inversion He; subst. lia.
        -- inversion He; subst. lia.
      * destruct len as [l|].
        -- specialize (Hl l eq_refl). apply in_i64_bounds in Hl. cbn in Hk. rewrite Hk in He. cbn [bind] in He.
           apply Z.ltb_ge in Hk.
           rewrite i64_sub_ok in He by (unfold i64_min, i64_max in *; lia). rewrite of_opt_some in He. cbn [bind] in He.
           rewrite i64_add_ok in He by (unfold i64_min, i64_max in *; lia). rewrite of_opt_some in He.
           inversion He; subst. lia.
        -- inversion He; subst. lia.
Qed.
