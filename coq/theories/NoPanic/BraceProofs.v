(** C01 — theorems about the brace-sequence cores. *)
From BV Require Import Base.Prelude Base.Decimal NoPanic.Mach NoPanic.Brace.

Local Ltac destr_bind H :=
  match type of H with
  | bind ?r _ = _ => destruct r eqn:?; cbn [bind] in H; try discriminate
  end.

(** ** number() *)
Theorem no_panic_number : forall tok, number tok <> Panic.
Proof. intros tok. unfold number. destruct (parse_i64 tok); discriminate. Qed.

Theorem number_refuted : exists tok, number_tok tok = true /\ number_orig tok = Panic.
Proof. exists (map N.of_nat [45;57;50;50;51;51;55;50;48;51;54;56;53;52;55;55;53;56;48;56]%nat). vm_compute. split; reflexivity. Qed.

Lemma digits_val_ge s : forall a v, 0 <= a -> digits_val a s = Some v -> 0 <= v.
Proof.
  induction s as [|c s IH]; intros a v Ha H; cbn in H.
  - inversion H; subst; lia.
  - destruct (is_digit c) eqn:Hd; [|discriminate].
    apply IH in H; [exact H|].
    unfold is_digit in Hd. apply andb_true_iff in Hd. destruct Hd as [H1 _]. apply N.leb_le in H1. lia.
Qed.

Lemma parse_i64_range s v : parse_i64 s = Some v -> in_i64 v = true.
Proof.
  unfold parse_i64. intros H.
  assert (G : forall neg ds, parse_go neg ds = Some v -> in_i64 v = true).
  { intros neg ds. unfold parse_go. destruct ds as [|d ds]; [discriminate|].
    destruct (digits_val 0 (d :: ds)); [|discriminate].
    destruct (in_i64 (if neg then - z else z)) eqn:E; [|discriminate]. intros X; inversion X; subst; exact E. }
  destruct s as [|c s]; [cbn in H; discriminate|].
  destruct c as [|p]; [eapply G; exact H|].
  repeat (destruct p as [p|p|]; try (eapply G; exact H)).
Qed.

Lemma parse_go_nonneg ds v : parse_go false ds = Some v -> 0 <= v.
Proof.
  unfold parse_go. destruct ds as [|d ds]; [discriminate|].
  destruct (digits_val 0 (d :: ds)) eqn:E; [|discriminate].
  destruct (in_i64 z); [|discriminate]. intros X; inversion X; subst.
  eapply digits_val_ge; [|exact E]. lia.
Qed.

Lemma all_digits_parse ds : ds <> [] -> all_digits ds = true -> parse_i64 ds = parse_go false ds.
Proof.
  destruct ds as [|c r]; [congruence|]. intros _ H. cbn in H. apply andb_true_iff in H. destruct H as [H _].
  apply parse_i64_digit. exact H.
Qed.

(** outside the known class the pinned action does not panic (on the token shape of the grammar) *)
Theorem number_orig_outside_known : forall tok,
  number_tok tok = true -> known_number tok = false -> number_orig tok <> Panic.
Proof.
  intros tok Hs Hk. unfold number_orig, number_tok, known_number in *.
  destruct (split_sign tok) as [sg ds] eqn:Es.
  destruct (parse_i64 ds) as [v|] eqn:Ep; [|discriminate].
  assert (Hds : ds <> []) by (destruct ds; [discriminate|discriminate]).
  assert (Hd : all_digits ds = true) by (destruct ds; [discriminate|exact Hs]).
  pose proof (parse_i64_range _ _ Ep) as Hr. apply in_i64_bounds in Hr.
  rewrite (all_digits_parse _ Hds Hd) in Ep. apply parse_go_nonneg in Ep.
  assert (Hsg : sg = 1 \/ sg = -1).
  { unfold split_sign in Es. destruct tok as [|c r]; [inversion Es; auto|].
    destruct (N.eq_dec c 45) as [->|]; [inversion Es; auto|].
    destruct (N.eq_dec c 43) as [->|]; [inversion Es; auto|].
    destruct c as [|p]; [inversion Es; auto|].
    repeat (destruct p as [p|p|]; try (inversion Es; auto; fail)). }
  unfold i64_mul, of_opt.
  destruct (in_i64 (v * sg)) eqn:E; [discriminate|].
  exfalso. assert (in_i64 (v * sg) = true); [|congruence].
  apply in_i64_bounds. unfold i64_min, i64_max in *. destruct Hsg; subst; lia.
Qed.

(** ** number sequences *)
Lemma bind_not_panic {A B} (r : res A) (f : A -> res B) :
  r <> Panic -> (forall a, f a <> Panic) -> bind r f <> Panic.
Proof. intros Hr Hf. destruct r; cbn; auto; discriminate. Qed.

Lemma asc_no_panic fuel : forall cur e k, asc fuel cur e k <> Panic.
Proof.
  induction fuel as [|f IH]; intros; cbn [asc]; [discriminate|].
  destruct (cur + k <=? e); [|discriminate].
  apply bind_not_panic; [apply IH|discriminate].
Qed.

Lemma desc_no_panic fuel : forall n e k, desc fuel n e k <> Panic.
Proof.
  induction fuel as [|f IH]; intros; cbn [desc]; [discriminate|].
  destruct (i64_min <=? n - k); [|discriminate].
  destruct (e <=? n - k); [|discriminate].
  apply bind_not_panic; [apply IH|discriminate].
Qed.

Theorem no_panic_numseq : forall fuel s e i, numseq fuel s e i <> Panic.
Proof.
  intros. unfold numseq. destruct (s <=? e); [apply asc_no_panic|apply desc_no_panic].
Qed.

Theorem numseq_refuted : exists fuel s e i,
  in_i64 s = true /\ in_i64 e = true /\ in_i64 i = true /\ numseq_orig fuel s e i = Panic.
Proof. exists 5%nat, 0, (- 9223372036854775807), 9223372036854775807. vm_compute. repeat split; reflexivity. Qed.

Lemma step_of_pos i : 1 <= step_of i.
Proof. unfold step_of. destruct (Z.abs i =? 0) eqn:E; [lia|]. apply Z.eqb_neq in E. lia. Qed.

(** termination with the exact number of elements: |end-start| / max 1 |inc| + 1 *)
Lemma asc_len fuel : forall cur e k, 1 <= k -> cur <= e ->
  (Z.to_nat ((e - cur) / k + 1) <= fuel)%nat ->
  exists l, asc fuel cur e k = Val l /\ Z.of_nat (length l) = (e - cur) / k + 1.
Proof.
  induction fuel as [|f IH]; intros cur e k Hk Hc Hf.
  - exfalso. assert (0 <= (e - cur) / k) by (apply Z.div_pos; lia). lia.
  - cbn [asc]. destruct (cur + k <=? e) eqn:E.
    + apply Z.leb_le in E.
      assert (Hd : (e - cur) / k = (e - (cur + k)) / k + 1).
      { replace (e - cur) with ((e - (cur + k)) + 1 * k) by lia. rewrite Z.div_add by lia. lia. }
      destruct (IH (cur + k) e k Hk E) as [l [Hl Hn]].
      { assert (0 <= (e - (cur + k)) / k) by (apply Z.div_pos; lia). lia. }
      rewrite Hl. cbn [bind]. exists (cur :: l). split; [reflexivity|]. cbn [length]. lia.
    + apply Z.leb_gt in E. exists [cur]. split; [reflexivity|].
      rewrite Z.div_small by lia. reflexivity.
Qed.

Lemma desc_len fuel : forall n e k, 1 <= k -> i64_min <= e -> e <= n ->
  (Z.to_nat ((n - e) / k + 1) <= fuel)%nat ->
  exists l, desc fuel n e k = Val l /\ Z.of_nat (length l) = (n - e) / k + 1.
Proof.
  induction fuel as [|f IH]; intros n e k Hk He Hc Hf.
  - exfalso. assert (0 <= (n - e) / k) by (apply Z.div_pos; lia). lia.
  - cbn [desc]. destruct (e <=? n - k) eqn:E.
    + apply Z.leb_le in E.
      assert (Hm : (i64_min <=? n - k) = true) by (apply Z.leb_le; lia). rewrite Hm.
      assert (Hd : (n - e) / k = (n - k - e) / k + 1).
      { replace (n - e) with ((n - k - e) + 1 * k) by lia. rewrite Z.div_add by lia. lia. }
      destruct (IH (n - k) e k Hk He E) as [l [Hl Hn]].
      { assert (0 <= (n - k - e) / k) by (apply Z.div_pos; lia). lia. }
      rewrite Hl. cbn [bind]. exists (n :: l). split; [reflexivity|]. cbn [length]. lia.
    + apply Z.leb_gt in E. exists [n].
      split; [destruct (i64_min <=? n - k); reflexivity|].
      rewrite Z.div_small by lia. reflexivity.
Qed.

Theorem numseq_terminates : forall s e i fuel,
  i64_min <= e ->
  (Z.to_nat (seq_count s e i) <= fuel)%nat ->
  exists l, numseq fuel s e i = Val l /\ Z.of_nat (length l) = seq_count s e i.
Proof.
  intros s e i fuel He Hf. unfold numseq, seq_count in *. pose proof (step_of_pos i) as Hk.
  destruct (s <=? e) eqn:E.
  - apply Z.leb_le in E. rewrite Z.abs_eq in * by lia. apply asc_len; auto.
  - apply Z.leb_gt in E. rewrite Z.abs_neq in * by lia.
    replace (- (e - s)) with (s - e) in * by lia. apply desc_len; auto; lia.
Qed.

(** the elements are the arithmetic progression *)
Lemma asc_elems fuel : forall cur e k l, asc fuel cur e k = Val l ->
  forall j, (j < length l)%nat -> nth j l 0 = cur + Z.of_nat j * k.
Proof.
  induction fuel as [|f IH]; intros cur e k l H j Hj; cbn [asc] in H; [discriminate|].
  destruct (cur + k <=? e).
  - destr_bind H. inversion H; subst. destruct j as [|j]; cbn [nth]; [lia|].
    cbn [length] in Hj. rewrite (IH _ _ _ _ Heqr) by lia. lia.
  - inversion H; subst. destruct j as [|j]; cbn in *; lia.
Qed.

Lemma desc_elems fuel : forall n e k l, desc fuel n e k = Val l ->
  forall j, (j < length l)%nat -> nth j l 0 = n - Z.of_nat j * k.
Proof.
  induction fuel as [|f IH]; intros n e k l H j Hj; cbn [desc] in H; [discriminate|].
  destruct (i64_min <=? n - k); [destruct (e <=? n - k)|].
  - destr_bind H. inversion H; subst. destruct j as [|j]; cbn [nth]; [lia|].
    cbn [length] in Hj. rewrite (IH _ _ _ _ Heqr) by lia. lia.
  - inversion H; subst. destruct j as [|j]; cbn in *; lia.
  - inversion H; subst. destruct j as [|j]; cbn in *; lia.
Qed.

Theorem numseq_elements : forall fuel s e i l, numseq fuel s e i = Val l ->
  forall j, (j < length l)%nat ->
  nth j l 0 = if s <=? e then s + Z.of_nat j * step_of i else s - Z.of_nat j * step_of i.
Proof.
  intros fuel s e i l H j Hj. unfold numseq in H. destruct (s <=? e).
  - eapply asc_elems; eauto.
  - eapply desc_elems; eauto.
Qed.

(** outside the known class the pinned code computes what the repaired code computes *)
Lemma desc_orig_eq fuel : forall n e k, 1 <= k -> i64_min <= e - k -> e <= n <= i64_max ->
  desc_orig fuel n e k = desc fuel n e k.
Proof.
  induction fuel as [|f IH]; intros n e k Hk He Hn; cbn [desc_orig desc]; [reflexivity|].
  unfold i64_sub.
  assert (Hin : in_i64 (n - k) = true) by (apply in_i64_bounds; unfold i64_min, i64_max in *; lia).
  rewrite Hin.
  assert (Hm : (i64_min <=? n - k) = true) by (apply Z.leb_le; lia). rewrite Hm.
  destruct (e <=? n - k) eqn:E; [|reflexivity].
  apply Z.leb_le in E. rewrite IH by lia. reflexivity.
Qed.

Theorem numseq_orig_outside_known : forall fuel s e i,
  in_i64 s = true -> in_i64 i = true -> known_numseq s e i = false ->
  numseq_orig fuel s e i = numseq fuel s e i.
Proof.
  intros fuel s e i Hs Hi Hk. unfold numseq_orig, numseq, known_numseq in *.
  destruct (s <=? e) eqn:E; [reflexivity|].
  apply Z.leb_gt in E. assert (Hlt : (e <? s) = true) by (apply Z.ltb_lt; lia). rewrite Hlt in Hk.
  cbn [andb] in Hk. apply orb_false_iff in Hk. destruct Hk as [H1 H2].
  apply Z.ltb_ge in H1. apply Z.eqb_neq in H2.
  apply in_i64_bounds in Hs. apply in_i64_bounds in Hi.
  pose proof (step_of_pos i) as Hp.
  assert (Hk63 : step_of i < two63).
  { unfold step_of in *. unfold two63, i64_min, i64_max in *. destruct (Z.abs i =? 0); lia. }
  assert (Hw : wrap64 (step_of i) = step_of i).
  { apply wrap64_id. apply in_i64_bounds. unfold two63, i64_min, i64_max in *. lia. }
  rewrite Hw. apply desc_orig_eq; lia.
Qed.

(** ** character sequences *)
Lemma cdesc_no_panic fuel : forall c e k, cdesc fuel c e k <> Panic.
Proof.
  induction fuel as [|f IH]; intros; cbn [cdesc]; [discriminate|].
  destruct (0 <=? c - k); [|discriminate].
  destruct (char_of_u32 (c - k)); [|discriminate].
  destruct (e <=? z); [|discriminate].
  apply bind_not_panic; [apply IH|discriminate].
Qed.

Theorem no_panic_charseq : forall fuel s e i, charseq fuel s e i <> Panic.
Proof.
  intros. unfold charseq. destruct (s <=? e); [apply asc_no_panic|apply cdesc_no_panic].
Qed.

Theorem charseq_refuted : exists fuel s e i,
  is_letter s = true /\ is_letter e = true /\ in_i64 i = true /\ charseq_orig fuel s e i = Panic.
Proof. exists 5%nat, 98, 97, 200. vm_compute. repeat split; reflexivity. Qed.

(** the pinned code never terminates on {b..a..4294967296}: whatever the fuel, it runs out *)
Theorem charseq_orig_hangs : forall fuel, charseq_orig fuel 98 97 4294967296 = OutOfFuel.
Proof.
  intros fuel. unfold charseq_orig. change (98 <=? 97) with false. cbv iota.
  change (to_u32 (step_of 4294967296)) with 0.
  induction fuel as [|f IH]; [reflexivity|].
  cbn [cdesc_orig]. change (u32_sub 98 0) with (Some 98). cbv iota.
  change (char_of_u32 98) with (Some 98). cbv iota. change (97 <=? 98) with true. cbv iota.
  rewrite IH. reflexivity.
Qed.

Lemma char_of_u32_le z c : char_of_u32 z = Some c -> c = z.
Proof. unfold char_of_u32. destruct (_ && _); intros H; inversion H; reflexivity. Qed.

Lemma cdesc_terminates fuel : forall c e k, 1 <= k -> 0 <= e -> e <= c ->
  (Z.to_nat (c - e) + 1 <= fuel)%nat -> exists l, cdesc fuel c e k = Val l.
Proof.
  induction fuel as [|f IH]; intros c e k Hk He Hc Hf; [lia|].
  cbn [cdesc]. destruct (0 <=? c - k); [|eexists; reflexivity].
  destruct (char_of_u32 (c - k)) as [nx|] eqn:En; [|eexists; reflexivity].
  apply char_of_u32_le in En. subst nx.
  destruct (e <=? c - k) eqn:E; [|eexists; reflexivity].
  apply Z.leb_le in E. destruct (IH (c - k) e k Hk He E) as [l Hl]; [lia|].
  rewrite Hl. eexists; reflexivity.
Qed.

Lemma sat_u32_pos k : 1 <= k -> 1 <= sat_u32 k.
Proof. unfold sat_u32, two32. intros. destruct (k <? 2 ^ 32); lia. Qed.

Theorem charseq_terminates : forall s e i fuel, 0 <= e ->
  (Z.to_nat (Z.abs (s - e)) + 1 <= fuel)%nat -> exists l, charseq fuel s e i = Val l.
Proof.
  intros s e i fuel He Hf. unfold charseq. pose proof (step_of_pos i) as Hk.
  destruct (s <=? e) eqn:E.
  - apply Z.leb_le in E.
    destruct (asc_len fuel s e (step_of i) Hk E) as [l [Hl _]]; [|eauto].
    assert ((e - s) / step_of i <= e - s) by (apply Z.div_le_upper_bound; nia).
    rewrite Z.abs_neq in Hf by lia. lia.
  - apply Z.leb_gt in E. rewrite Z.abs_eq in Hf by lia.
    apply cdesc_terminates; auto using sat_u32_pos; lia.
Qed.

Lemma cdesc_orig_eq fuel : forall c e k, 0 <= k <= e -> e <= c ->
  cdesc_orig fuel c e k = cdesc fuel c e k.
Proof.
  induction fuel as [|f IH]; intros c e k Hk Hc; cbn [cdesc_orig cdesc]; [reflexivity|].
  unfold u32_sub. assert (H0 : (0 <=? c - k) = true) by (apply Z.leb_le; lia). rewrite H0.
  destruct (char_of_u32 (c - k)) as [nx|] eqn:En; [|reflexivity].
  apply char_of_u32_le in En. subst nx.
  destruct (e <=? c - k) eqn:E; [|reflexivity].
  apply Z.leb_le in E. rewrite IH by lia. reflexivity.
Qed.

Theorem charseq_orig_outside_known : forall fuel s e i,
  known_charseq s e i = false -> charseq_orig fuel s e i = charseq fuel s e i.
Proof.
  intros fuel s e i Hk. unfold charseq_orig, charseq, known_charseq in *.
  destruct (s <=? e) eqn:E; [reflexivity|].
  apply Z.leb_gt in E. assert (Hlt : (e <? s) = true) by (apply Z.ltb_lt; lia). rewrite Hlt in Hk.
  cbn [andb] in Hk. apply orb_false_iff in Hk. destruct Hk as [H1 H2].
  apply Z.ltb_ge in H1. apply Z.leb_gt in H2. pose proof (step_of_pos i) as Hp.
  assert (Hu : to_u32 (step_of i) = step_of i) by (unfold to_u32; apply Z.mod_small; lia).
  assert (Hs : sat_u32 (step_of i) = step_of i).
  { unfold sat_u32. destruct (step_of i <? two32) eqn:X; [reflexivity|]. apply Z.ltb_ge in X. lia. }
  rewrite Hu, Hs. apply cdesc_orig_eq; lia.
Qed.
