(** C01 — loops whose bound is data in brush-core/src/arithmetic.rs:
    [wrapping_pow_u64] (square-and-multiply) and the dereference depth counter of [deref_lvalue]. *)
From BV Require Import Base.Prelude NoPanic.Mach.

Fixpoint pow_loop (fuel : nat) (result base exponent : Z) : res Z :=
  if exponent <=? 0 then Val result
  else match fuel with
       | O => OutOfFuel
       | S f =>
         let result' := if exponent mod 2 =? 1 then wrap64 (result * base) else result in
         pow_loop f result' (wrap64 (base * base)) (exponent / 2)
       end.

(** [const fn wrapping_pow_u64(base: i64, exponent: u64) -> i64] *)
Definition wrapping_pow (fuel : nat) (base exponent : Z) : res Z := pow_loop fuel 1 base exponent.

(** A dereference chain: variable i holds either a literal or the name of another variable.
    [deref_lvalue]: literals do not count; every non-literal step increments [depth] (u32, checked)
    and fails once [depth + 1 > 1024]. *)
Definition MAX_DEPTH : Z := 1024.
Inductive cell := Lit (v : Z) | Ref (next : nat).

Fixpoint deref (fuel : nat) (env : list cell) (i : nat) (depth : Z) : res Z :=
  match fuel with
  | O => OutOfFuel
  | S f =>
    match nth_error env i with
    | None => Val 0                                   (* unset: "" parses to literal 0 *)
    | Some (Lit v) => Val v
    | Some (Ref j) =>
      let nd := depth + 1 in
      if nd <? two32 then                             (* u32 + in a debug build *)
        if MAX_DEPTH <? nd then Fail else deref f env j nd
      else Panic
    end
  end.

(** ** Dereference with array subscripts ([deref_lvalue], both arms).
    A variable (or array element) holds the parsed form of its string value: a literal, the name
    of a scalar, or an array element whose subscript is again such an expression.  The subscript
    of [ArrayElement] is evaluated with the CURRENT depth ([eval_expr_impl(index_expr, shell,
    depth)]), so a cycle that runs through a subscript still trips [MAX_VARIABLE_DEREF_DEPTH]. *)
Inductive aexp := ALit (v : Z) | AVar (i : nat) | AElem (a : nat) (ix : aexp).

Record aenv := { scalars : list aexp; arrays : list (list aexp) }.

Definition lookup_elem (env : aenv) (a : nat) (k : Z) : option aexp :=
  match nth_error (arrays env) a with
  | Some arr => if k <? 0 then None else nth_error arr (Z.to_nat k)
  | None => None
  end.

Fixpoint aeval (fuel : nat) (env : aenv) (e : aexp) (depth : Z) : res Z :=
  match fuel with
  | O => OutOfFuel
  | S f =>
    (* the tail of deref_lvalue: the value string has been fetched and parsed to [c] *)
    let continue_with (c : option aexp) : res Z :=
      match c with
      | None => Val 0                                   (* unset / empty string: literal 0 *)
      | Some (ALit v) => Val v                           (* literals do not count *)
      | Some e' =>
        let nd := depth + 1 in
        if nd <? two32 then
          if MAX_DEPTH <? nd then Fail else aeval f env e' nd
        else Panic
      end in
    match e with
    | ALit v => Val v
    | AVar i => continue_with (nth_error (scalars env) i)
    | AElem a ix =>
      bind (aeval f env ix depth) (fun k =>
      if k <? 0 then Fail else continue_with (lookup_elem env a k))
    end
  end.
