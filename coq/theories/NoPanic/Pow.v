(** C01 — loops whose bound is data in brush-core/src/arithmetic.rs:
    [wrapping_pow_u64] (square-and-multiply) and the dereference depth counter of [deref_lvalue]. *)
From BV Require Import Base.Prelude NoPanic.Mach.

Fixpoint pow_loop (fuel : nat) (result base exponent : Z) : res Z :=
  if exponent <=? 0 then Val result
  else match fuel with
       | O => OutOfFuel
       | S f =>
         let result' := if exponent mod 2 =? 1 then wrap64 (result * base) else result in
         pow_loop f result' (wrap64 (base * base)) (exponent / 2)
       end.

(** [const fn wrapping_pow_u64(base: i64, exponent: u64) -> i64] *)
Definition wrapping_pow (fuel : nat) (base exponent : Z) : res Z := pow_loop fuel 1 base exponent.

(** A dereference chain: variable i holds either a literal or the name of another variable.
    [deref_lvalue]: literals do not count; every non-literal step increments [depth] (u32, checked)
    and fails once [depth + 1 > 1024]. *)
Definition MAX_DEPTH : Z := 1024.
Inductive cell := Lit (v : Z) | Ref (next : nat).

Fixpoint deref (fuel : nat) (env : list cell) (i : nat) (depth : Z) : res Z :=
  match fuel with
  | O => OutOfFuel
  | S f =>
    match nth_error env i with
    | None => Val 0                                   (* unset: "" parses to literal 0 *)
    | Some (Lit v) => Val v
    | Some (Ref j) =>
      let nd := depth + 1 in
      if nd <? two32 then                             (* u32 + in a debug build *)
        if MAX_DEPTH <? nd then Fail else deref f env j nd
      else Panic
    end
  end.
