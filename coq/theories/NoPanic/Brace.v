(** C01 core 1 — brace sequence expressions.
    Checked twins of
      brush-parser/src/word.rs        rule number()           (PEG action [n.parse().unwrap()])
      brush-core/src/braceexpansion.rs expand_brace_expr_member (NumberSequence / CharSequence)
    [*_orig] is the twin of the code at the pinned commit; the unsuffixed function is the twin of
    the repaired code (fix commits "fix: brace ..."). *)
From BV Require Import Base.Prelude NoPanic.Mach.

(** ** rule number() -> i64 = sign:number_sign()? n:$(['0'..='9']+) *)
Definition split_sign (s : str) : Z * str :=
  match s with
  | 45%N :: r => (-1, r)
  | 43%N :: r => (1, r)
  | _ => (1, s)
  end.

(** pinned: [let num: i64 = n.parse().unwrap(); num * sign] *)
Definition number_orig (tok : str) : res Z :=
  let '(sg, ds) := split_sign tok in
  match parse_i64 ds with
  | Some v => of_opt (i64_mul v sg)
  | None => Panic
  end.

(** repaired: the whole token (sign included) is parsed, a failure makes the rule not match
    ([{? n.parse().or(Err("i64")) }]) *)
Definition number (tok : str) : res Z :=
  match parse_i64 tok with
  | Some v => Val v
  | None => Fail
  end.

(** the token shape the grammar hands to the action *)
Fixpoint all_digits (s : str) : bool :=
  match s with [] => true | c :: r => is_digit c && all_digits r end.
Definition number_tok (tok : str) : bool :=
  let '(_, ds) := split_sign tok in
  match ds with [] => false | _ => all_digits ds end.

(** known class of the pinned code: the digits alone exceed i64::MAX *)
Definition known_number (tok : str) : bool :=
  let '(_, ds) := split_sign tok in
  match parse_i64 ds with Some _ => false | None => true end.

(** ** NumberSequence { start, end, increment } *)

(** [(start..=end).step_by(k)], Rust std (Step::forward_checked: stops instead of overflowing) *)
Fixpoint asc (fuel : nat) (cur e k : Z) : res (list Z) :=
  match fuel with
  | O => OutOfFuel
  | S f =>
    let next := cur + k in
    if next <=? e then bind (asc f next e k) (fun l => Val (cur :: l)) else Val [cur]
  end.

(** pinned: [successors(Some(start), |&n| { let next = n - increment; (next >= end).then_some(next) })] *)
Fixpoint desc_orig (fuel : nat) (n e inc : Z) : res (list Z) :=
  match fuel with
  | O => OutOfFuel
  | S f =>
    match i64_sub n inc with
    | None => Panic
    | Some next =>
      if e <=? next then bind (desc_orig f next e inc) (fun l => Val (n :: l)) else Val [n]
    end
  end.

(** repaired: [let next = n.checked_sub_unsigned(increment)?;] with [increment : u64] *)
Fixpoint desc (fuel : nat) (n e k : Z) : res (list Z) :=
  match fuel with
  | O => OutOfFuel
  | S f =>
    let next := n - k in
    if i64_min <=? next then
      if e <=? next then bind (desc f next e k) (fun l => Val (n :: l)) else Val [n]
    else Val [n]
  end.

Definition step_of (inc : Z) : Z := let k := Z.abs inc in if k =? 0 then 1 else k.

Definition numseq_orig (fuel : nat) (s e inc : Z) : res (list Z) :=
  let k := step_of inc in                      (* increment.unsigned_abs() as usize; 0 -> 1 *)
  if s <=? e then asc fuel s e k
  else desc_orig fuel s e (wrap64 k).          (* increment as i64 *)

Definition numseq (fuel : nat) (s e inc : Z) : res (list Z) :=
  let k := step_of inc in
  if s <=? e then asc fuel s e k else desc fuel s e k.

(** number of elements: |end-start| / max 1 |inc| + 1 *)
Definition seq_count (s e inc : Z) : Z := Z.abs (e - s) / step_of inc + 1.

(** known class of the pinned code: a descending sequence whose end lies within |inc| of
    i64::MIN (the step past the last element underflows), or |inc| = 2^63 *)
Definition known_numseq (s e inc : Z) : bool :=
  (e <? s) && ((e - step_of inc <? i64_min) || (step_of inc =? two63)).

(** ** CharSequence { start, end, increment } — characters as scalar values *)

(** pinned: [let increment = increment as u32;
            successors(Some(start), |&c| { let next = char::from_u32(c as u32 - increment)?;
                                           (next >= end).then_some(next) })] *)
Fixpoint cdesc_orig (fuel : nat) (c e inc32 : Z) : res (list Z) :=
  match fuel with
  | O => OutOfFuel
  | S f =>
    match u32_sub c inc32 with
    | None => Panic
    | Some x =>
      match char_of_u32 x with
      | None => Val [c]
      | Some next =>
        if e <=? next then bind (cdesc_orig f next e inc32) (fun l => Val (c :: l)) else Val [c]
      end
    end
  end.

(** repaired: [let increment = u32::try_from(increment).unwrap_or(u32::MAX);
              let next = char::from_u32((c as u32).checked_sub(increment)?)?;] *)
Fixpoint cdesc (fuel : nat) (c e k32 : Z) : res (list Z) :=
  match fuel with
  | O => OutOfFuel
  | S f =>
    let x := c - k32 in
    if 0 <=? x then
      match char_of_u32 x with
      | None => Val [c]
      | Some next =>
        if e <=? next then bind (cdesc f next e k32) (fun l => Val (c :: l)) else Val [c]
      end
    else Val [c]
  end.

Definition charseq_orig (fuel : nat) (s e inc : Z) : res (list Z) :=
  let k := step_of inc in
  if s <=? e then asc fuel s e k
  else cdesc_orig fuel s e (to_u32 k).

Definition sat_u32 (k : Z) : Z := if k <? two32 then k else two32 - 1.

Definition charseq (fuel : nat) (s e inc : Z) : res (list Z) :=
  let k := step_of inc in
  if s <=? e then asc fuel s e k
  else cdesc fuel s e (sat_u32 k).

(** rule character() = ['a'..='z' | 'A'..='Z'] *)
Definition is_letter (c : Z) : bool := ((65 <=? c) && (c <=? 90)) || ((97 <=? c) && (c <=? 122)).

(** known class of the pinned code: descending, and the step exceeds the end character's code
    (u32 underflow), or does not fit u32 (truncated: 0 loops forever, others step wrongly) *)
Definition known_charseq (s e inc : Z) : bool :=
  (e <? s) && ((e <? step_of inc) || (two32 <=? step_of inc)).
