(** C01 core 3 — brush-core/src/variables.rs:
    integer `+=` (three sites of [ShellVariable::assign]/[assign_at_index]),
    [ShellValue::update_indexed_array_from_literals] (key increment),
    [get_key_for_indexed_array], and the Capitalize arm of [apply_value_transforms]
    (a byte-range replace).  [*_orig]: pinned commit; unsuffixed: repaired code. *)
From BV Require Import Base.Prelude NoPanic.Mach.

(** ** integer append.  [suffix] has already been through [apply_value_transforms(treat_as_int)]
    = [parse::<i64>().unwrap_or(0).to_string()], which we repeat here. *)
Definition int_norm (s : str) : str := show_Z (parse_i64_or0 s).

(** pinned: [base.parse::<i64>().unwrap_or(0) + suffix.parse::<i64>().unwrap_or(0)] *)
Definition int_append_orig (base suffix : str) : res str :=
  bind (of_opt (i64_add (parse_i64_or0 base) (parse_i64_or0 (int_norm suffix))))
       (fun v => Val (show_Z v)).

(** repaired: [wrapping_add] (bash wraps) *)
Definition int_append (base suffix : str) : res str :=
  Val (show_Z (wrap64 (parse_i64_or0 base + parse_i64_or0 (int_norm suffix)))).

Definition known_int_append (base suffix : str) : bool :=
  negb (in_i64 (parse_i64_or0 base + parse_i64_or0 suffix)).

(** ** array literal keys.  [last] = largest existing index; each literal element carries an
    optional explicit key string.  Result: the keys assigned, in order. *)
Fixpoint keys_loop_orig (lits : list (option str)) (new_key : Z) : res (list Z) :=
  match lits with
  | [] => Val []
  | k :: r =>
    let key := match k with Some s => parse_u64_or0 s | None => new_key end in
    bind (of_opt (u64_add key 1)) (fun nk =>                 (* new_key += 1 *)
    bind (keys_loop_orig r nk) (fun l => Val (key :: l)))
  end.
Definition array_keys_orig (last : option Z) (lits : list (option str)) : res (list Z) :=
  bind (match last with Some m => of_opt (u64_add m 1) | None => Val 0 end)
       (keys_loop_orig lits).

(** repaired: [wrapping_add(1)] in both places (bash's indices wrap as well) *)
Fixpoint keys_loop (lits : list (option str)) (new_key : Z) : list Z :=
  match lits with
  | [] => []
  | k :: r =>
    let key := match k with Some s => parse_u64_or0 s | None => new_key end in
    key :: keys_loop r (to_u64 (key + 1))
  end.
Definition array_keys (last : option Z) (lits : list (option str)) : res (list Z) :=
  Val (keys_loop lits (match last with Some m => to_u64 (m + 1) | None => 0 end)).

(** known class: u64::MAX is the largest existing index, or some element is stored at u64::MAX
    (the increment after storing it overflows) *)
Definition known_array_keys (last : option Z) (lits : list (option str)) : bool :=
  (match last with Some m => m =? u64_max | None => false end)
  || existsb (fun k => k =? u64_max)
       (keys_loop lits (match last with Some m => to_u64 (m + 1) | None => 0 end)).

(** ** [get_key_for_indexed_array(values, index_str)] — not changed by any repair *)
Definition indexed_key (count : Z) (index : str) : res Z :=
  let v := parse_i64_or0 index in
  if v <? 0 then
    bind (of_opt (i64_add v (wrap64 count))) (fun v' =>     (* index_value += values.len() as i64 *)
    if v' <? 0 then Fail else Val (to_u64 v'))
  else Val (to_u64 v).

(** ** Capitalize.  Unicode case mapping is an input: [lowered] = [s.to_lowercase()],
    [upper_first] = [c.to_uppercase().to_string()] for the first char [c] of [lowered]. *)
(** pinned: [s.replace_range(0..1, &c.to_uppercase().to_string())] — byte range 0..1 *)
Definition capitalize_orig (lowered upper_first : str) : res str :=
  match lowered with
  | [] => Val []
  | c :: r => if utf8_len c =? 1 then Val (upper_first ++ r) else Panic   (* 1 is not a char boundary *)
  end.

(** repaired: [0..c.len_utf8()] *)
Definition capitalize (lowered upper_first : str) : res str :=
  match lowered with
  | [] => Val []
  | c :: r => Val (upper_first ++ r)
  end.

Definition known_capitalize (lowered : str) : bool :=
  match lowered with [] => false | c :: _ => negb (utf8_len c =? 1) end.
