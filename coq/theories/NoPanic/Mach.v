(** C01 — machine integers with the debug-build semantics of Rust: every operation that
    panics on overflow (overflow-checks = on) returns [None]; `as` casts wrap; results of the
    modelled cores are [res]: a value, a clean failure (error return / PEG rule does not match),
    [Panic], or [OutOfFuel] (the loop did not finish within the fuel given). *)
From BV Require Import Base.Prelude.

Inductive res (A : Type) : Type :=
| Val (a : A)
| Fail
| Panic
| OutOfFuel.
Arguments Val {A} a.
Arguments Fail {A}.
Arguments Panic {A}.
Arguments OutOfFuel {A}.

Definition bind {A B} (r : res A) (f : A -> res B) : res B :=
  match r with Val a => f a | Fail => Fail | Panic => Panic | OutOfFuel => OutOfFuel end.

Definition of_opt {A} (o : option A) : res A := match o with Some a => Val a | None => Panic end.

Definition two63 : Z := 2 ^ 63.
Definition two64 : Z := 2 ^ 64.
Definition two32 : Z := 2 ^ 32.
Definition u64_max : Z := 2 ^ 64 - 1.
Definition in_u64 (z : Z) : bool := (0 <=? z) && (z <=? u64_max).

(** i64 [+] / [-] in a debug build *)
Definition i64_add (a b : Z) : option Z := let r := a + b in if in_i64 r then Some r else None.
Definition i64_sub (a b : Z) : option Z := let r := a - b in if in_i64 r then Some r else None.
Definition i64_mul (a b : Z) : option Z := let r := a * b in if in_i64 r then Some r else None.
(** usize / u64 / u32 [+] / [-] in a debug build (usize = u64 on the target) *)
Definition u64_add (a b : Z) : option Z := let r := a + b in if in_u64 r then Some r else None.
Definition u64_sub (a b : Z) : option Z := let r := a - b in if 0 <=? r then Some r else None.
Definition u32_sub (a b : Z) : option Z := let r := a - b in if 0 <=? r then Some r else None.

(** two's-complement wrap ([wrapping_add], `as i64`) *)
Definition wrap64 (z : Z) : Z := (z + two63) mod two64 - two63.
(** `x as usize` / `as u64` for an i64 [x]; `x as u32` for a usize *)
Definition to_u64 (z : Z) : Z := z mod two64.
Definition to_u32 (z : Z) : Z := z mod two32.

(** [str::parse::<u64>] / [::<usize>]: optional '+', at least one ASCII digit, no overflow *)
Definition parse_u64 (s : str) : option Z :=
  let ds := match s with 43%N :: r => r | _ => s end in
  match ds with
  | [] => None
  | _ => match digits_val 0 ds with
         | Some v => if v <=? u64_max then Some v else None
         | None => None
         end
  end.

Definition parse_i64_or0 (s : str) : Z := match parse_i64 s with Some v => v | None => 0 end.
Definition parse_u64_or0 (s : str) : Z := match parse_u64 s with Some v => v | None => 0 end.

(** UTF-8 length of a scalar value ([char::len_utf8]) *)
Definition utf8_len (c : char) : Z :=
  if (c <? 128)%N then 1 else if (c <? 2048)%N then 2 else if (c <? 65536)%N then 3 else 4.

(** [char::from_u32] *)
Definition char_of_u32 (z : Z) : option Z :=
  if (0 <=? z) && ((z <? 55296) || ((57343 <? z) && (z <=? 1114111))) then Some z else None.

Lemma in_i64_bounds z : in_i64 z = true <-> i64_min <= z <= i64_max.
Proof. unfold in_i64. rewrite andb_true_iff, !Z.leb_le. tauto. Qed.

Lemma wrap64_in z : in_i64 (wrap64 z) = true.
Proof.
  apply in_i64_bounds. unfold wrap64, i64_min, i64_max, two63, two64.
  pose proof (Z.mod_pos_bound (z + 2 ^ 63) (2 ^ 64) ltac:(lia)). lia.
Qed.

Lemma wrap64_id z : in_i64 z = true -> wrap64 z = z.
Proof.
  intros H. apply in_i64_bounds in H. unfold wrap64, i64_min, i64_max, two63, two64 in *.
  rewrite Z.mod_small; lia.
Qed.
