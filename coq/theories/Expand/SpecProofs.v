(** C05: the piece/field model of Expand/Model.v computes the fields of the stream
    specification of Expand/SplitSpec.v — for every environment whose IFS is made of blanks,
    tabs and newlines (or unset, or empty), every oracle, and every brace-free word of the
    fragment [frag] outside the recorded class [dq_known]. *)
From BV Require Import Base.Prelude Expand.Model Expand.SplitSpec Expand.Proofs.

(** * The model's fields seen as tagged characters / as a stream *)

Definition tag_piece (p : epiece) : tfield :=
  match p with
  | Unsplittable s => map (fun c => (c, true)) s
  | Splittable s => map (fun c => (c, false)) s
  end.
Definition tagged (f : wfield) : tfield := flat_map tag_piece f.

Definition flat_piece (p : epiece) : list item :=
  match p with Unsplittable s => quoted s | Splittable s => chars Exp s end.
Definition flat_field (f : wfield) : list item := flat_map flat_piece f.
Definition flat (fs : list wfield) : list item := intercalate [Brk] (map flat_field fs).

Lemma flat_field_app a b : flat_field (a ++ b) = flat_field a ++ flat_field b.
Proof. unfold flat_field. now rewrite flat_map_app. Qed.

Lemma tagged_app a b : tagged (a ++ b) = tagged a ++ tagged b.
Proof. unfold tagged. now rewrite flat_map_app. Qed.

Lemma flat_cons2 f g r : flat (f :: g :: r) = flat_field f ++ Brk :: flat (g :: r).
Proof. reflexivity. Qed.

Lemma flat_one f : flat [f] = flat_field f.
Proof. reflexivity. Qed.

Lemma flat_app xs ys : xs <> [] -> ys <> [] -> flat (xs ++ ys) = flat xs ++ Brk :: flat ys.
Proof.
  intros Hx Hy. induction xs as [|x xs IH]; [congruence|].
  destruct xs as [|x2 xs].
  - destruct ys as [|y ys]; [congruence|]. reflexivity.
  - change ((x :: x2 :: xs) ++ ys) with (x :: (x2 :: xs) ++ ys).
    change ((x2 :: xs) ++ ys) with (x2 :: (xs ++ ys)) at 1. rewrite flat_cons2.
    change (x2 :: (xs ++ ys)) with ((x2 :: xs) ++ ys). rewrite IH by discriminate.
    rewrite flat_cons2. now rewrite <- app_assoc.
Qed.

Lemma flat_snoc_merge a l f r :
  flat (a ++ [l ++ f] ++ r) = flat (a ++ [l]) ++ flat (f :: r).
Proof.
  assert (H1 : flat ((l ++ f) :: r) = flat_field l ++ flat (f :: r)).
  { destruct r as [|g r]; [now rewrite !flat_one, flat_field_app|].
    rewrite !flat_cons2, flat_field_app. now rewrite <- app_assoc. }
  destruct a as [|x a].
  - cbn [app]. rewrite H1. now rewrite flat_one.
  - change ([l ++ f] ++ r) with ((l ++ f) :: r).
    rewrite flat_app by discriminate. rewrite H1.
    rewrite flat_app by discriminate. rewrite flat_one. now rewrite <- app_assoc.
Qed.

(** Lemma B: coalescing is concatenation of streams *)
Lemma flat_join_fields a b : flat (join_fields a b) = flat a ++ flat b.
Proof.
  destruct b as [|f r]; [cbn; now rewrite app_nil_r|].
  destruct a as [|x a]; [reflexivity|].
  unfold join_fields.
  destruct (exists_last (l := x :: a)) as (a' & l & E); [discriminate|]. rewrite E.
  rewrite append_to_last_snoc. rewrite <- app_assoc. apply flat_snoc_merge.
Qed.

Lemma flat_coalesce xs : forall acc,
  flat (fields (fold_left coalesce_step xs acc)) =
  flat (fields acc) ++ concat (map (fun x => flat (fields x)) xs).
Proof.
  induction xs as [|x xs IH]; intros acc; cbn [fold_left map concat].
  - now rewrite app_nil_r.
  - rewrite IH. cbn [coalesce_step fields]. rewrite flat_join_fields. now rewrite <- app_assoc.
Qed.

(** * Lemma A: the cutting machine on the stream of the model's fields is split_fields *)

Definition ifs_ws (sep : str) : Prop := forall c, mem c sep = true -> is_ifs_ws c = true.

Definition R (acc : list wfield) (cur : wfield) (s : sst) : Prop :=
  s_acc s = map tagged acc /\ s_cur s = tagged cur /\ s_has s = nonempty cur.

Lemma tagged_push_char cur c : tagged (push_char cur c) = tagged cur ++ [(c, false)].
Proof.
  induction cur as [|p r IH]; [reflexivity|].
  destruct r as [|p2 r].
  - destruct p as [s|s]; cbn; [now rewrite app_nil_r|]. rewrite !app_nil_r. now rewrite map_app.
  - assert (E : push_char (p :: p2 :: r) c = p :: push_char (p2 :: r) c) by (destruct p; reflexivity).
    rewrite E. unfold tagged in *. cbn [flat_map]. rewrite IH. now rewrite app_assoc.
Qed.

Lemma push_char_nonempty cur c : nonempty (push_char cur c) = true.
Proof. destruct cur as [|[s|s] [|p r]]; reflexivity. Qed.

Section Cut.
Variable sep : str.
Hypothesis Hws : ifs_ws sep.

Lemma run_app s a b : run sep s (a ++ b) = run sep (run sep s a) b.
Proof. unfold run. apply fold_left_app. Qed.

Lemma A_chars s : forall cur acc st, R acc cur st ->
  let '(cur', acc') := split_chars sep s cur acc in R acc' cur' (run sep st (chars Exp s)).
Proof.
  induction s as [|c r IH]; intros cur acc st HR; cbn [split_chars chars map].
  - exact HR.
  - change (run sep st (Ch c Exp :: map (fun c0 => Ch c0 Exp) r)) with
      (run sep (step sep st (Ch c Exp)) (chars Exp r)).
    destruct HR as (Ha & Hc & Hh). cbn [step]. destruct (mem c sep) eqn:Hm.
    + rewrite (Hws c Hm). apply IH. unfold R. rewrite flush_spec.
      destruct (s_has st) eqn:Hs; rewrite <- Hh.
      * unfold close. rewrite Hs. cbn [s_acc s_cur s_has]. rewrite Ha, Hc, map_app. cbn. auto.
      * rewrite app_nil_r. repeat split; try assumption.
        -- rewrite Hc. destruct cur; [reflexivity | discriminate].
    + apply IH. unfold R, push; cbn [s_acc s_cur s_has].
      rewrite tagged_push_char, push_char_nonempty, Hc. auto.
Qed.

Lemma run_chars_quo s : forall a c, run sep (mkSt a c true DNone) (chars Quo s) =
  mkSt a (c ++ map (fun x => (x, true)) s) true DNone.
Proof.
  induction s as [|x r IH]; intros a c; cbn [chars map].
  - now rewrite app_nil_r.
  - change (run sep ?s (Ch x Quo :: map ?f r)) with (run sep (step sep s (Ch x Quo)) (chars Quo r)).
    cbn [step]. unfold push; cbn [s_acc s_cur]. rewrite IH. now rewrite <- app_assoc.
Qed.

Lemma run_quoted s st : run sep st (quoted s) =
  mkSt (s_acc st) (s_cur st ++ map (fun x => (x, true)) s) true DNone.
Proof.
  unfold quoted. change (run sep st (QNull :: chars Quo s)) with (run sep (step sep st QNull) (chars Quo s)).
  cbn [step]. apply run_chars_quo.
Qed.

Lemma A_pieces f : forall cur acc st, R acc cur st ->
  let '(cur', acc') := split_pieces sep f cur acc in R acc' cur' (run sep st (flat_field f)).
Proof.
  induction f as [|p r IH]; intros cur acc st HR; cbn [split_pieces flat_field flat_map].
  - exact HR.
  - rewrite run_app. destruct p as [s|s]; cbn [flat_piece].
    + apply IH. rewrite run_quoted. destruct HR as (Ha & Hc & Hh). unfold R; cbn [s_acc s_cur s_has].
      rewrite tagged_app, Hc. cbn. rewrite app_nil_r. repeat split; auto.
      destruct cur; reflexivity.
    + pose proof (A_chars s cur acc st HR) as H.
      destruct (split_chars sep s cur acc) as [cur' acc']. now apply IH.
Qed.

Lemma finish_R acc cur st : R acc cur st -> finish st = map tagged (flush cur acc).
Proof.
  intros (Ha & Hc & Hh). unfold finish, close; cbn [s_acc]. rewrite flush_spec, Hh.
  destruct (nonempty cur); [|now rewrite app_nil_r]. rewrite Ha, Hc, map_app. reflexivity.
Qed.

Lemma A_loop fs : forall acc st, R acc [] st ->
  finish (run sep st (flat fs)) = map tagged (split_loop sep fs acc).
Proof.
  induction fs as [|f r IH]; intros acc st HR.
  - unfold flat, run. cbn [map intercalate fold_left split_loop]. rewrite (finish_R acc [] st HR). reflexivity.
  - cbn [split_loop]. pose proof (A_pieces f [] acc st HR) as H.
    destruct (split_pieces sep f [] acc) as [cur acc'].
    destruct r as [|g r].
    + rewrite flat_one. cbn [split_loop]. now apply finish_R.
    + rewrite flat_cons2, run_app.
      change (run sep ?s (Brk :: ?l)) with (run sep (step sep s Brk) l). cbn [step].
      apply IH. destruct H as (Ha & Hc & Hh). unfold R, close; cbn [s_acc s_cur s_has].
      rewrite flush_spec, Hh. destruct (nonempty cur); [|rewrite app_nil_r; auto].
      rewrite Ha, Hc, map_app. auto.
Qed.

Lemma cut_flat fs : cut sep (flat fs) = map tagged (split_loop sep fs []).
Proof. unfold cut. apply A_loop. repeat split. Qed.

(** * Stream equivalence *)

Definition equiv (l1 l2 : list item) : Prop := forall st, run sep st l1 = run sep st l2.

Lemma equiv_refl l : equiv l l.
Proof. intros st; reflexivity. Qed.

Lemma equiv_app a a' b b' : equiv a a' -> equiv b b' -> equiv (a ++ b) (a' ++ b').
Proof. intros H1 H2 st. now rewrite !run_app, H1, H2. Qed.

Lemma equiv_trans a b c : equiv a b -> equiv b c -> equiv a c.
Proof. intros H1 H2 st. now rewrite H1, H2. Qed.

Lemma equiv_lit s : forallb (fun c => negb (mem c sep)) s = true -> equiv (chars Lit s) (chars Exp s).
Proof.
  induction s as [|c r IH]; intros H st; [reflexivity|].
  cbn in H. apply andb_true_iff in H as [Hc Hr]. apply negb_true_iff in Hc.
  cbn [chars map]. change (run sep st (?i :: map ?f r)) with (run sep (step sep st i) (map f r)).
  change (run sep st (Ch c Exp :: map ?f r)) with (run sep (step sep st (Ch c Exp)) (map f r)).
  cbn [step]. rewrite Hc. apply (IH Hr).
Qed.

(** a second quoted-null mark inside a quoted run changes nothing *)
Lemma equiv_quoted_app a b : equiv (quoted a ++ quoted b) (quoted (a ++ b)).
Proof.
  intros st. rewrite run_app, !run_quoted. cbn [s_acc s_cur]. now rewrite map_app, app_assoc.
Qed.

End Cut.

(** * Parameters: model vs direct reading of the environment *)

Section Params.
Variable o : oracles.
Variable e : env.

Lemma expand_param_nonlist p : is_list_param p = false ->
  expand_param e p = mkExp [[Splittable (match scalar_of e p with Some s => s | None => [] end)]]
                           true false (match scalar_of e p with Some _ => false | None => true end).
Proof.
  destruct p as [n|n|c|n c|n i|]; intros H; try discriminate; cbn.
  - destruct (lookup (vars e) n) as [[s|[|s l]]|]; reflexivity.
  - destruct n as [|k]; [reflexivity|]. cbn. destruct (nth_error (args e) k); reflexivity.
  - destruct (lookup (vars e) n) as [[s|l]|]; [destruct i| |]; try reflexivity.
    destruct (nth_error l i); reflexivity.
  - reflexivity.
Qed.

Lemma expand_param_list p : is_list_param p = true ->
  expand_param e p = exp_of_array (elems_of e p) (is_star p).
Proof.
  destruct p as [n|n|c|n c|n i|]; intros H; try discriminate; cbn; [reflexivity|].
  destruct (lookup (vars e) n) as [[s|l]|]; reflexivity.
Qed.

Lemma flat_singletons_S vs :
  flat (map (fun v => [Splittable v]) vs) = intercalate [Brk] (map (chars Exp) vs).
Proof.
  unfold flat. rewrite map_map. f_equal. apply map_ext. intros v. cbn. now rewrite app_nil_r.
Qed.

Lemma flat_singletons_U vs :
  flat (map (fun v => [Unsplittable v]) vs) = intercalate [Brk] (map quoted vs).
Proof.
  unfold flat. rewrite map_map. f_equal. apply map_ext. intros v. cbn. now rewrite app_nil_r.
Qed.


(** * Inside double quotes *)

Definition to_append (j : str) (x : expansion) : list wfield :=
  if concatenate x then
    let c := intersperse_flat [Unsplittable j] (map (map make_unsplittable) (fields x)) in
    [match c with [] => [Splittable []] | _ => c end]
  else fields x.

Lemma dq_step_eq j acc x :
  dq_step j acc x = join_fields acc (map (map make_unsplittable) (to_append j x)).
Proof. reflexivity. Qed.

Definition dq_out (j : str) (x : expansion) : list item :=
  flat (map (map make_unsplittable) (to_append j x)).

Lemma dq_out_single j x k : fields x = [[k]] -> concatenate x = true ->
  dq_out j x = quoted (piece_str k).
Proof.
  intros Hf Hc. unfold dq_out, to_append. rewrite Hc, Hf. cbn. now rewrite app_nil_r.
Qed.

Definition U1 (v : str) : wfield := [Unsplittable v].

Lemma map_mu_U1 vs : map (map make_unsplittable) (map (fun v => [Splittable v]) vs) = map U1 vs.
Proof. apply map_make_singletons. Qed.

Lemma star_equiv sep j vs : vs <> [] ->
  equiv sep (flat_field (map make_unsplittable (intersperse_flat [Unsplittable j] (map U1 vs))))
            (quoted (join_with j vs)).
Proof.
  induction vs as [|v r IH]; [congruence|]. intros _.
  destruct r as [|v2 r].
  - cbn. rewrite app_nil_r. apply equiv_refl.
  - change (intersperse_flat [Unsplittable j] (map U1 (v :: v2 :: r))) with
      (U1 v ++ [Unsplittable j] ++ intersperse_flat [Unsplittable j] (map U1 (v2 :: r))).
    rewrite !map_app, !flat_field_app.
    change (join_with j (v :: v2 :: r)) with (v ++ j ++ join_with j (v2 :: r)).
    eapply equiv_trans.
    + apply equiv_app; [apply equiv_refl|]. apply equiv_app; [apply equiv_refl|]. apply IH. discriminate.
    + cbn [U1 map make_unsplittable piece_str flat_field flat_map flat_piece]. rewrite !app_nil_r.
      eapply equiv_trans; [apply equiv_app; [apply equiv_refl | apply equiv_quoted_app]|].
      apply equiv_quoted_app.
Qed.

Lemma intersperse_nil_iff j (fs : list wfield) : fs <> [] -> Forall (fun f => f <> []) fs ->
  intersperse_flat j fs <> [].
Proof.
  intros Hne Hall. destruct fs as [|f r]; [congruence|]. inversion Hall; subst.
  destruct r; cbn; [assumption|]. destruct f; [congruence|discriminate].
Qed.

(** the spec's loop over the pieces of a double-quoted string *)
Fixpoint dq_inner (top : bool) (ps : list wpiece) : res (list item) :=
  match ps with
  | [] => Ok []
  | p :: r => match piece_items o e top true p with
              | Ok a => match dq_inner top r with Ok b => Ok (a ++ b) | Err c => Err c end
              | Err c => Err c
              end
  end.

Lemma piece_items_dq top dq ps :
  piece_items o e top dq (WDQ ps) =
  match ps with
  | [] => Ok [QNull]
  | _ => match dq_inner top ps with
         | Ok inner => Ok (if existsb (zero_list_piece e) ps && only_marks inner then [] else inner)
         | Err c => Err c
         end
  end.
Proof.
  cbn [piece_items].
  match goal with |- context [match ?G ps with Ok _ => _ | Err _ => _ end] =>
    assert (Hgo : forall l, G l = dq_inner top l) end.
  { induction l as [|p l IH]; cbn; [reflexivity|].
    destruct (piece_items o e top true p); [now rewrite IH | reflexivity]. }
  now rewrite Hgo.
Qed.

(** ** the fragment *)
Definition frag_pexpr (pe : pexpr) : bool := match pe with EPlain _ | ELen _ => true | _ => false end.

(** ${#p}: the model counts characters (the code after repair 68104b7), as the specification does *)
Lemma poly_len_eq p : poly_len (expand_param e p) = len_of e p.
Proof.
  unfold len_of. destruct (is_list_param p) eqn:Hl.
  - rewrite (expand_param_list p Hl). unfold poly_len, exp_of_array; cbn [from_array fields]. apply map_length.
  - rewrite (expand_param_nonlist p Hl). unfold poly_len; cbn [from_array fields fold_left].
    unfold field_str; cbn. now rewrite app_nil_r.
Qed.
Definition frag_inner (p : wpiece) : bool :=
  match p with WDQ _ => false | WParam pe => frag_pexpr pe | _ => true end.
Definition frag_piece (p : wpiece) : bool :=
  match p with WDQ ps => forallb frag_inner ps | WParam pe => frag_pexpr pe | _ => true end.
Definition frag (w : word) : bool := forallb frag_piece w.

(** "$*" joins as in bash: holds unless IFS is empty and the code is unrepaired *)
Definition star_ok : Prop := ifs_joiner e = star_joiner e.

Definition agree (sep : str) (m : res (list item)) (s : res (list item)) : Prop :=
  match m, s with
  | Ok a, Ok b => equiv sep a b
  | Err c, Err c' => c = c'
  | _, _ => False
  end.

Lemma E1 sep top p : frag_inner p = true -> star_ok ->
  agree sep (match expand_piece o e true p with Ok x => Ok (dq_out (ifs_joiner e) x) | Err c => Err c end)
            (piece_items o e top true p).
Proof.
  intros Hf Hstar. destruct p as [s|s|s|ps|t|pe|c|a|s]; cbn [frag_inner] in Hf; try discriminate;
    cbn [expand_piece piece_items agree].
  - rewrite (dq_out_single _ _ (Splittable s)) by reflexivity. apply equiv_refl.
  - rewrite (dq_out_single _ _ (Unsplittable s)) by reflexivity. apply equiv_refl.
  - rewrite (dq_out_single _ _ (Unsplittable (o_ansic o s))) by reflexivity. apply equiv_refl.
  - destruct (o_tilde o t) as [v|]; cbn [agree]; [|reflexivity].
    rewrite (dq_out_single _ _ (Unsplittable v)) by reflexivity. apply equiv_refl.
  - destruct pe as [p| | |p]; cbn [frag_pexpr] in Hf; try discriminate;
      [|cbn [expand_pexpr pexpr_items agree]; rewrite poly_len_eq;
        rewrite (dq_out_single _ _ (Splittable (show_nat_str (len_of e p)))) by reflexivity; apply equiv_refl].
    cbn [expand_pexpr pexpr_items agree]. unfold param_items.
    destruct (is_list_param p) eqn:Hl.
    + rewrite (expand_param_list p Hl). unfold dq_out, to_append, exp_of_array. cbn [concatenate fields].
      destruct (is_star p).
      * rewrite map_mu_U1. rewrite <- Hstar.
        destruct (elems_of e p) as [|v r] eqn:He.
        -- cbn. apply equiv_refl.
        -- rewrite <- He.
           assert (Hne : intersperse_flat [Unsplittable (ifs_joiner e)] (map U1 (elems_of e p)) <> []).
           { apply intersperse_nil_iff; [rewrite He; discriminate|].
             apply Forall_forall. intros f Hin. apply in_map_iff in Hin as (v0 & <- & _). discriminate. }
           destruct (intersperse_flat [Unsplittable (ifs_joiner e)] (map U1 (elems_of e p))) eqn:Ei; [congruence|].
           rewrite <- Ei. cbn [map]. rewrite flat_one. apply star_equiv. rewrite He. discriminate.
      * rewrite map_mu_U1. unfold U1. rewrite flat_singletons_U. apply equiv_refl.
    + rewrite (expand_param_nonlist p Hl).
      rewrite (dq_out_single _ _ (Splittable (match scalar_of e p with Some s => s | None => [] end))) by reflexivity.
      apply equiv_refl.
  - rewrite (dq_out_single _ _ (Splittable (trim_trailing_nl (strip_nul (o_cmd o c))))) by reflexivity. apply equiv_refl.
  - rewrite (dq_out_single _ _ (Splittable (o_arith o a))) by reflexivity. apply equiv_refl.
  - rewrite (dq_out_single _ _ (Unsplittable (esc_body s))) by reflexivity. apply equiv_refl.
Qed.

Lemma E2 sep top ps : forallb frag_inner ps = true -> star_ok -> forall acc,
  agree sep (match dq_fold o e ps acc with Ok fs => Ok (flat fs) | Err c => Err c end)
            (match dq_inner top ps with Ok l => Ok (flat acc ++ l) | Err c => Err c end).
Proof.
  intros Hf Hstar. induction ps as [|p r IH]; intros acc; cbn [dq_fold dq_inner].
  - cbn. rewrite app_nil_r. apply equiv_refl.
  - cbn in Hf. apply andb_true_iff in Hf as [Hp Hr].
    pose proof (E1 sep top p Hp Hstar) as H1.
    destruct (expand_piece o e true p) as [x|c]; destruct (piece_items o e top true p) as [a|c']; cbn [agree] in H1;
      try contradiction; [|cbn; exact H1].
    specialize (IH Hr (dq_step (ifs_joiner e) acc x)).
    destruct (dq_fold o e r (dq_step (ifs_joiner e) acc x)) as [fs|c]; destruct (dq_inner top r) as [b|c'];
      cbn [agree] in IH |- *; try contradiction; [|exact IH].
    eapply equiv_trans; [exact IH|].
    rewrite dq_step_eq, flat_join_fields. rewrite <- !app_assoc.
    apply equiv_app; [apply equiv_refl|]. apply equiv_app; [exact H1 | apply equiv_refl].
Qed.

(** ** the recorded class: a zero-element "$@" next to other, all-null, quoted material *)
Definition dq_known (p : wpiece) : bool :=
  match p with
  | WDQ ps => match dq_inner true ps with
              | Ok inner => existsb (zero_list_piece e) ps && only_marks inner && negb (is_nil inner)
              | Err _ => false
              end
  | _ => false
  end.
Definition known_at_null (w : word) : bool := existsb dq_known w.

Definition lit_ok (sep : str) (w : word) : bool :=
  forallb (fun p => match p with WText s => forallb (fun c => negb (mem c sep)) s | _ => true end) w.

Lemma equiv_sym sep a b : equiv sep a b -> equiv sep b a.
Proof. intros H st. now rewrite H. Qed.

Lemma E3 sep p : frag_piece p = true -> star_ok -> dq_known p = false ->
  (match p with WText s => forallb (fun c => negb (mem c sep)) s | _ => true end) = true ->
  agree sep (match expand_piece o e false p with Ok x => Ok (flat (fields x)) | Err c => Err c end)
            (piece_items o e true false p).
Proof.
  intros Hf Hstar Hk Hlit. destruct p as [s|s|s|ps|t|pe|c|a|s]; cbn [frag_piece] in Hf;
    try (cbn [expand_piece piece_items agree exp_of_piece fields]; unfold flat; cbn; rewrite ?app_nil_r; apply equiv_refl).
  - cbn [expand_piece piece_items agree exp_of_piece fields]. unfold flat; cbn. rewrite app_nil_r.
    apply equiv_sym. now apply equiv_lit.
  - rewrite expand_dq_eq, piece_items_dq.
    destruct ps as [|p0 r0].
    + cbn. apply equiv_refl.
    + pose proof (E2 sep true (p0 :: r0) Hf Hstar []) as H2.
      cbn [dq_known] in Hk.
      destruct (dq_fold o e (p0 :: r0) []) as [fs|c]; destruct (dq_inner true (p0 :: r0)) as [inner|c'];
        cbn [agree] in H2 |- *; try contradiction; [|exact H2].
      cbn [is_nil fields flat app] in H2 |- *.
      destruct (existsb (zero_list_piece e) (p0 :: r0) && only_marks inner) eqn:Hc; [|exact H2].
      cbn [andb] in Hk. destruct inner; [exact H2 | discriminate].
  - destruct (o_tilde o t) as [v|] eqn:Ht; cbn [expand_piece piece_items agree]; rewrite Ht; cbn [agree]; [|reflexivity].
    unfold flat; cbn. rewrite app_nil_r. apply equiv_refl.
  - destruct pe as [p| | |p]; cbn [frag_pexpr] in Hf; try discriminate;
      [|cbn [expand_piece expand_pexpr piece_items pexpr_items agree]; rewrite poly_len_eq;
        unfold flat; cbn; rewrite app_nil_r; apply equiv_refl].
    cbn [expand_piece expand_pexpr piece_items pexpr_items agree]. unfold param_items.
    destruct (is_list_param p) eqn:Hl.
    + rewrite (expand_param_list p Hl). unfold exp_of_array; cbn [fields].
      rewrite flat_singletons_S. apply equiv_refl.
    + rewrite (expand_param_nonlist p Hl). unfold flat; cbn. rewrite app_nil_r. apply equiv_refl.
Qed.

Lemma E4 sep w : frag w = true -> star_ok -> known_at_null w = false -> lit_ok sep w = true ->
  agree sep (match expand_pieces o e false w with
             | Ok xs => Ok (concat (map (fun x => flat (fields x)) xs)) | Err c => Err c end)
            (word_items o e w).
Proof.
  intros Hf Hstar. induction w as [|p r IH]; intros Hk Hlit; cbn [expand_pieces word_items].
  - cbn. apply equiv_refl.
  - cbn in Hf, Hk, Hlit. apply andb_true_iff in Hf as [Hp Hr]. apply orb_false_iff in Hk as [Hkp Hkr].
    apply andb_true_iff in Hlit as [Hlp Hlr].
    pose proof (E3 sep p Hp Hstar Hkp Hlp) as H3. unfold bind.
    destruct (expand_piece o e false p) as [x|c]; destruct (piece_items o e true false p) as [a|c'];
      cbn [agree] in H3 |- *; try contradiction; [|exact H3].
    specialize (IH Hr Hkr Hlr).
    destruct (expand_pieces o e false r) as [xs|c]; destruct (word_items o e r) as [b|c'];
      cbn [agree] in IH |- *; try contradiction; [|exact IH].
    cbn [map concat]. now apply equiv_app.
Qed.

(** * fields_model_eq_spec *)

Theorem fields_model_eq_spec w :
  ifs_ws (ifs_of e) -> frag w = true -> lit_ok (ifs_of e) w = true ->
  known_at_null w = false -> star_ok ->
  spec_fields o e w =
  match basic_expand o e w with
  | Ok x => Ok (map tagged (split_fields e x))
  | Err c => Err c
  end.
Proof.
  intros Hws Hf Hlit Hk Hstar. unfold spec_fields, basic_expand.
  destruct w as [|p r]; [reflexivity|].
  pose proof (E4 (ifs_of e) (p :: r) Hf Hstar Hk Hlit) as H4. unfold bind.
  destruct (expand_pieces o e false (p :: r)) as [xs|c]; destruct (word_items o e (p :: r)) as [l|c'];
    cbn [agree] in H4; try contradiction; [|now subst].
  f_equal. unfold split_fields, coalesce. rewrite <- (cut_flat (ifs_of e) Hws).
  rewrite flat_coalesce. cbn [exp_default fields flat map intercalate app].
  unfold cut. now rewrite (H4 st0).
Qed.

End Params.

(** * After pathname expansion *)

Lemma field_str_tagged f : field_str f = map fst (tagged f).
Proof.
  induction f as [|p r IH]; [reflexivity|].
  change (field_str (p :: r)) with (piece_str p ++ field_str r).
  unfold tagged in *; cbn [flat_map]. rewrite map_app, IH. f_equal.
  destruct p; cbn; rewrite map_map; cbn; now rewrite map_id.
Qed.

Lemma runs_all_quoted t : t <> [] -> forallb (fun cq => snd cq) t = true ->
  runs t = [Unsplittable (map fst t)].
Proof.
  induction t as [|[c q] r IH]; [congruence|]. intros _ H. cbn in H. apply andb_true_iff in H as [Hq Hr].
  cbn in Hq; subst q. destruct r as [|cq r'].
  - reflexivity.
  - remember (cq :: r') as t' eqn:Et. cbn [runs]. rewrite IH by (subst; discriminate || assumption). reflexivity.
Qed.

Lemma tagged_all_uns f : all_uns f = true -> forallb (fun cq => snd cq) (tagged f) = true.
Proof.
  induction f as [|p r IH]; [reflexivity|]. intros H.
  change (all_uns (p :: r)) with (is_uns p && all_uns r) in H. apply andb_true_iff in H as [Hp Hr].
  destruct p as [s|s]; [|discriminate].
  change (tagged (Unsplittable s :: r)) with (map (fun c => (c, true)) s ++ tagged r).
  rewrite forallb_app, (IH Hr), andb_true_r.
  clear. induction s; cbn; auto.
Qed.

(** a field is ready for comparison after globbing when it is entirely quoted, or when its pieces
    are already the maximal quoted / unquoted runs *)
Definition glob_ready (f : wfield) : Prop :=
  (all_uns f = true /\ f <> []) \/ pattern_of (tagged f) = f.

Lemma pattern_of_all_uns o e f : all_uns f = true -> f <> [] ->
  expand_pathnames o e (pattern_of (tagged f)) = Ok [field_str f] /\
  field_str (pattern_of (tagged f)) = field_str f.
Proof.
  intros Hu Hne. unfold pattern_of. destruct (tagged f) as [|cq t] eqn:Et.
  - assert (Hs : field_str f = []) by (rewrite field_str_tagged, Et; reflexivity).
    rewrite Hs. split; [|reflexivity]. now rewrite expand_pathnames_uns.
  - assert (Hr : runs (tagged f) = [Unsplittable (field_str f)]).
    { rewrite field_str_tagged. apply runs_all_quoted; [rewrite Et; discriminate | now apply tagged_all_uns]. }
    rewrite <- Et, Hr. split.
    + rewrite expand_pathnames_uns by (reflexivity || discriminate). unfold field_str at 1; cbn. now rewrite app_nil_r.
    + unfold field_str at 1; cbn. now rewrite app_nil_r.
Qed.

Lemma glob_fields_ready o e fs : Forall glob_ready fs ->
  glob_fields o e (map pattern_of (map tagged fs)) = glob_fields o e fs.
Proof.
  induction fs as [|f r IH]; intros H; [reflexivity|]. inversion H as [|? ? Hf Hr]; subst.
  cbn [map glob_fields]. rewrite (IH Hr). destruct Hf as [[Hu Hne]|Hc].
  - destruct (pattern_of_all_uns o e f Hu Hne) as [H1 H2].
    rewrite H1, H2. now rewrite expand_pathnames_uns.
  - now rewrite Hc.
Qed.

(** full_model_eq_spec: count, order and content of the final argument list *)
Theorem full_model_eq_spec o e w :
  ifs_ws (ifs_of e) -> frag w = true -> lit_ok (ifs_of e) w = true ->
  known_at_null o e w = false -> star_ok e ->
  (forall x, basic_expand o e w = Ok x -> Forall glob_ready (split_fields e x)) ->
  spec_expand o e w = full_expand o e w.
Proof.
  intros Hws Hf Hlit Hk Hstar Hready. unfold spec_expand, full_expand.
  rewrite (fields_model_eq_spec o e w Hws Hf Hlit Hk Hstar).
  destruct (basic_expand o e w) as [x|c]; [|reflexivity]. cbn [bind].
  apply glob_fields_ready. now apply Hready.
Qed.

(** * The rules for empty fields *)

Section Empty.
Variable o : oracles.
Variable e : env.

(** an unquoted expansion that is empty (or unset) yields no argument at all *)
Lemma empty_unquoted_vanishes p : fields (expand_param e p) = [[Splittable []]] ->
  full_expand o e [WParam (EPlain p)] = Ok [].
Proof.
  intros Hf. unfold full_expand, basic_expand. cbn [expand_pieces expand_piece expand_pexpr bind].
  unfold coalesce, split_fields; cbn. rewrite join_fields_nil_l, Hf. reflexivity.
Qed.

(** "" and '' are one empty argument *)
Lemma quoted_null_kept : full_expand o e [WDQ []] = Ok [[]] /\ full_expand o e [WSQ []] = Ok [[]].
Proof. split; unfold full_expand, basic_expand; cbn; destruct (noglob e); reflexivity. Qed.

(** $empty"" and ""$empty are one empty argument *)
Lemma empty_next_to_quoted_null p : fields (expand_param e p) = [[Splittable []]] ->
  full_expand o e [WParam (EPlain p); WDQ []] = Ok [[]] /\
  full_expand o e [WDQ []; WParam (EPlain p)] = Ok [[]].
Proof.
  intros Hf. split; unfold full_expand, basic_expand;
    cbn [expand_pieces expand_piece expand_pexpr bind is_nil app];
    unfold coalesce, split_fields; cbn [fold_left coalesce_step fields exp_default];
    rewrite ?join_fields_nil_l, Hf; cbn; destruct (noglob e); reflexivity.
Qed.

(** blanks around an unquoted value never create empty arguments; next to a quoted null they
    delimit it: x=" a "; ""$x"" is the three arguments "", a, "" *)
End Empty.

(** "$*" is joined as in bash whenever IFS is not the empty string (and, once the repair of
    get_ifs_first_char is in, always) *)
Lemma star_ok_nonempty_ifs e : ifs e <> Some [] -> star_ok e.
Proof. intros H. unfold star_ok, ifs_joiner, star_joiner. destruct (ifs e) as [[|c r]|]; try reflexivity; exfalso; apply H; reflexivity. Qed.

(** * Outside the quantifier of the property: IFS with a non-blank character *)

Definition ex_colon_env : env :=
  mkEnv [([120%N], VStr [97; 58; 58; 98]%N)] [] (Some [58%N]) false false false false false.   (* x=a::b IFS=: *)
Definition ex_oracles0 : oracles :=
  mkOr (fun _ => []) (fun _ => []) (fun _ => None) (fun s => s) (fun _ _ => false) (fun _ _ => []).

(** IFS=: x=a::b  $x : bash (the specification) gives a, "", b; the model (the code) gives a, b *)
Lemma nonws_ifs_refuted :
  spec_expand ex_oracles0 ex_colon_env [WParam (EPlain (PNamed [120%N]))] = Ok [[97]; []; [98]]%N /\
  full_expand ex_oracles0 ex_colon_env [WParam (EPlain (PNamed [120%N]))] = Ok [[97]; [98]]%N.
Proof. split; vm_compute; reflexivity. Qed.

(** IFS=: and the literal word a:b : bash keeps it, the model (the code) splits literal text *)
Lemma literal_ifs_refuted :
  spec_expand ex_oracles0 ex_colon_env [WText [97; 58; 98]%N] = Ok [[97; 58; 98]]%N /\
  full_expand ex_oracles0 ex_colon_env [WText [97; 58; 98]%N] = Ok [[97]; [98]]%N.
Proof. split; vm_compute; reflexivity. Qed.

(** * What field splitting does to characters — for EVERY IFS

    split_only_removes_unquoted_ifs: read as tagged characters, the fields that come out of
    [split_fields] are exactly the characters that went in, in order, minus the UNQUOTED characters
    that are in IFS.  No quoted character is ever dropped, moved or used as a delimiter; no
    unquoted character outside IFS is dropped. *)

Definition keep (sep : str) (cq : char * bool) : bool := snd cq || negb (mem (fst cq) sep).

Definition all_tagged (fs : list wfield) : list (char * bool) := concat (map tagged fs).

Lemma all_tagged_flush cur acc : all_tagged (flush cur acc) = all_tagged acc ++ tagged cur.
Proof.
  unfold all_tagged. rewrite flush_spec. destruct cur; cbn [nonempty is_nil negb].
  - now rewrite !app_nil_r.
  - rewrite map_app, concat_app. cbn. now rewrite app_nil_r.
Qed.

Lemma filter_keep_quoted sep s : filter (keep sep) (map (fun c => (c, true)) s) = map (fun c => (c, true)) s.
Proof. induction s; cbn; congruence. Qed.

Lemma chars_keep sep s : forall cur acc,
  let '(cur', acc') := split_chars sep s cur acc in
  all_tagged acc' ++ tagged cur' =
  all_tagged acc ++ tagged cur ++ filter (keep sep) (map (fun c => (c, false)) s).
Proof.
  induction s as [|c r IH]; intros cur acc; cbn [split_chars map filter].
  - now rewrite app_nil_r.
  - unfold keep at 1; cbn [fst snd orb]. destruct (mem c sep) eqn:Hm; cbn [negb].
    + specialize (IH [] (flush cur acc)). destruct (split_chars sep r [] (flush cur acc)) as [cur' acc'].
      rewrite IH, all_tagged_flush. cbn. now rewrite <- app_assoc.
    + specialize (IH (push_char cur c) acc). destruct (split_chars sep r (push_char cur c) acc) as [cur' acc'].
      rewrite IH, tagged_push_char. now rewrite <- !app_assoc.
Qed.

Lemma pieces_keep sep f : forall cur acc,
  let '(cur', acc') := split_pieces sep f cur acc in
  all_tagged acc' ++ tagged cur' = all_tagged acc ++ tagged cur ++ filter (keep sep) (tagged f).
Proof.
  induction f as [|p r IH]; intros cur acc; cbn [split_pieces].
  - cbn. now rewrite app_nil_r.
  - change (tagged (p :: r)) with (tag_piece p ++ tagged r). rewrite filter_app.
    destruct p as [s|s]; cbn [tag_piece].
    + specialize (IH (cur ++ [Unsplittable s]) acc).
      destruct (split_pieces sep r (cur ++ [Unsplittable s]) acc) as [cur' acc'].
      rewrite IH, tagged_app, filter_keep_quoted. cbn. rewrite app_nil_r. now rewrite <- !app_assoc.
    + pose proof (chars_keep sep s cur acc) as H. destruct (split_chars sep s cur acc) as [cur1 acc1].
      specialize (IH cur1 acc1). destruct (split_pieces sep r cur1 acc1) as [cur' acc'].
      rewrite IH, app_assoc, H. now rewrite <- !app_assoc.
Qed.

Lemma loop_keep sep fs : forall acc,
  all_tagged (split_loop sep fs acc) = all_tagged acc ++ filter (keep sep) (all_tagged fs).
Proof.
  induction fs as [|f r IH]; intros acc; cbn [split_loop].
  - cbn. now rewrite app_nil_r.
  - pose proof (pieces_keep sep f [] acc) as H. destruct (split_pieces sep f [] acc) as [cur acc'].
    rewrite IH, all_tagged_flush, H. unfold all_tagged at 4. cbn [map concat]. rewrite filter_app.
    cbn. now rewrite <- !app_assoc.
Qed.

Theorem split_only_removes_unquoted_ifs e x :
  all_tagged (split_fields e x) = filter (keep (ifs_of e)) (all_tagged (fields x)).
Proof. unfold split_fields. now rewrite loop_keep. Qed.
