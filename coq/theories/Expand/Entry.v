(** C04/C05 correspondence entry: one expansion case in, the argument list (or string) out.

    args:  mode ifs opts  NARGS arg*  NVARS (name kind ...)*  NDIR name*
           NCMD (cmd out)*  NARITH (expr val)*  NTILDE (key val)*  NANSIC (raw decoded)*  word
    mode:  "A" full_expand (argument list) | "S" expand_to_str | "R" redirection target
    ifs:   "U" (unset) | "S" ++ value
    opts:  letters f (noglob) n (nullglob) F (failglob) e (extglob) d (dotglob)
    var:   name "s" value | name "a" N elem*
    tilde: key, "S" ++ value | "N"
    word:  N piece*
    piece: "T" s | "Q" s | "C" s | "D" N piece* | "~" s | "P" pexpr | "X" s | "A" s | "E" s
    pexpr: "p" param | "d" colon q param N piece* | "a" colon q param N piece* | "l" param
    param: "n" name | "1" num | "*" | "@" | "S" name | "R" name | "i" name num | "c"
    out:   "OK" N field* | "ERR" | "UNSUPPORTED" | "BADCASE" *)
From Coq Require Import String.
From BV Require Import Base.Prelude Base.Codec Expand.Model Expand.GlobRef Expand.SplitSpec.

Definition tag (s : str) : N := match s with c :: _ => c | [] => 0%N end.

Fixpoint take_fields (n : nat) (a : list str) : option (list str * list str) :=
  match n with
  | O => Some ([], a)
  | S k => match a with
           | x :: r => match take_fields k r with Some (l, r') => Some (x :: l, r') | None => None end
           | [] => None
           end
  end.

Definition dec_count_list (a : list str) : option (list str * list str) :=
  match a with n :: r => take_fields (dec_nat n) r | [] => None end.

Fixpoint pairs_of (l : list str) : list (str * str) :=
  match l with a :: b :: r => (a, b) :: pairs_of r | _ => [] end.

Definition dec_pairs (a : list str) : option (list (str * str) * list str) :=
  match a with
  | n :: r => match take_fields (2 * dec_nat n) r with
              | Some (l, r') => Some (pairs_of l, r')
              | None => None
              end
  | [] => None
  end.

Fixpoint assoc (l : list (str * str)) (k : str) : option str :=
  match l with [] => None | (a, b) :: r => if str_eqb a k then Some b else assoc r k end.

Fixpoint dec_vars (n : nat) (a : list str) : option (list (str * value) * list str) :=
  match n with
  | O => Some ([], a)
  | S k =>
      match a with
      | name :: kind :: r =>
          if N.eqb (tag kind) 115 (* s *) then
            match r with
            | v :: r' => match dec_vars k r' with
                         | Some (l, r'') => Some ((name, VStr v) :: l, r'')
                         | None => None end
            | [] => None
            end
          else
            match dec_count_list r with
            | Some (els, r') => match dec_vars k r' with
                                | Some (l, r'') => Some ((name, VArr els) :: l, r'')
                                | None => None end
            | None => None
            end
      | _ => None
      end
  end.

Definition dec_param (a : list str) : option (param * list str) :=
  match a with
  | t :: r =>
      let c := tag t in
      if N.eqb c 110 then match r with n :: r' => Some (PNamed n, r') | [] => None end
      else if N.eqb c 49 then match r with n :: r' => Some (PPos (dec_nat n), r') | [] => None end
      else if N.eqb c 42 then Some (PAllPos true, r)
      else if N.eqb c 64 then Some (PAllPos false, r)
      else if N.eqb c 83 then match r with n :: r' => Some (PAllIdx n true, r') | [] => None end
      else if N.eqb c 82 then match r with n :: r' => Some (PAllIdx n false, r') | [] => None end
      else if N.eqb c 105 then match r with n :: i :: r' => Some (PIdx n (dec_nat i), r') | _ => None end
      else if N.eqb c 99 then Some (PCount, r)
      else None
  | [] => None
  end.

Fixpoint dec_piece (fuel : nat) (a : list str) : option (wpiece * list str) :=
  match fuel with O => None | S fuel =>
  let dec_list := fix dl (n : nat) (a : list str) : option (list wpiece * list str) :=
    match n with
    | O => Some ([], a)
    | S k => match dec_piece fuel a with
             | Some (p, r) => match dl k r with Some (l, r') => Some (p :: l, r') | None => None end
             | None => None
             end
    end in
  match a with
  | t :: r =>
      let c := tag t in
      let one f := match r with s :: r' => Some (f s, r') | [] => None end in
      if N.eqb c 84 then one WText
      else if N.eqb c 81 then one WSQ
      else if N.eqb c 67 then one WAnsiC
      else if N.eqb c 126 then one WTilde
      else if N.eqb c 88 then one WCmd
      else if N.eqb c 65 then one WArith
      else if N.eqb c 69 then one WEsc
      else if N.eqb c 68 then
        match r with
        | n :: r' => match dec_list (dec_nat n) r' with
                     | Some (l, r'') => Some (WDQ l, r'')
                     | None => None end
        | [] => None
        end
      else if N.eqb c 80 then
        match r with
        | k :: r' =>
            let kc := tag k in
            if N.eqb kc 112 then
              match dec_param r' with Some (p, r'') => Some (WParam (EPlain p), r'') | None => None end
            else if N.eqb kc 108 then
              match dec_param r' with Some (p, r'') => Some (WParam (ELen p), r'') | None => None end
            else
              match r' with
              | colon :: q :: r2 =>
                  match dec_param r2 with
                  | Some (p, n :: r3) =>
                      match dec_list (dec_nat n) r3 with
                      | Some (l, r4) =>
                          if N.eqb kc 100 then Some (WParam (EDefault p (dec_bool colon) (dec_bool q) l), r4)
                          else if N.eqb kc 97 then Some (WParam (EAlt p (dec_bool colon) (dec_bool q) l), r4)
                          else None
                      | None => None
                      end
                  | _ => None
                  end
              | _ => None
              end
        | [] => None
        end
      else None
  | [] => None
  end end.

Fixpoint dec_pieces (fuel : nat) (n : nat) (a : list str) : option (list wpiece * list str) :=
  match n with
  | O => Some ([], a)
  | S k => match dec_piece fuel a with
           | Some (p, r) => match dec_pieces fuel k r with
                            | Some (l, r') => Some (p :: l, r')
                            | None => None end
           | None => None
           end
  end.

Definition dec_word (a : list str) : option (word * list str) :=
  match a with n :: r => dec_pieces (length a) (dec_nat n) r | [] => None end.

Definition has_flag (c : N) (s : str) : bool := mem c s.

Definition mk_oracles (cmds ariths tildes ansics : list (str * str)) (names : list str) : oracles :=
  mkOr (fun c => match assoc cmds c with Some s => s | None => [] end)
       (fun a => match assoc ariths a with Some s => s | None => [] end)
       (fun t => match assoc tildes t with
                 | Some (83%N :: v) => Some v
                 | _ => None end)
       (fun s => match assoc ansics s with Some v => v | None => s end)
       req
       (dirglob names).

Definition bad : list str := [lit "BADCASE"].

Definition show_res (r : res (list str)) : list str :=
  match r with
  | Ok l => lit "OK" :: enc_nat (length l) :: l
  | Err c => if N.eqb c E_UNSUPPORTED then [lit "UNSUPPORTED"] else [lit "ERR"]
  end.

Definition decode_case (a : list str) : option (N * env * oracles * word) :=
  match a with
  | mode :: ifs_s :: opts :: r0 =>
      match dec_count_list r0 with None => None | Some (args_, r1) =>
      match r1 with [] => None | nv :: r1' =>
      match dec_vars (dec_nat nv) r1' with None => None | Some (vars_, r2) =>
      match dec_count_list r2 with None => None | Some (names, r3) =>
      match dec_pairs r3 with None => None | Some (cmds, r4) =>
      match dec_pairs r4 with None => None | Some (ariths, r5) =>
      match dec_pairs r5 with None => None | Some (tildes, r6) =>
      match dec_pairs r6 with None => None | Some (ansics, r7) =>
      match dec_word r7 with None => None | Some (w, _) =>
        let e := mkEnv vars_ args_
                   (match ifs_s with 83%N :: v => Some v | _ => None end)
                   (has_flag 102 opts) (has_flag 110 opts) (has_flag 70 opts)
                   (has_flag 101 opts) (has_flag 100 opts) in
        Some (tag mode, e, mk_oracles cmds ariths tildes ansics names, w)
      end end end end end end end end end
  | _ => None
  end.

(** globbing with the executable reference matcher; UNSUPPORTED when a field needs a pattern
    construct outside GlobRef's fragment *)
Definition glob_out (o : oracles) (e : env) (m : N) (fs : list wfield) : list str :=
  if negb (noglob e) && negb (forallb (fun f => negb (existsb (piece_requires o e) f)
                                                 || supported_field (extglob e) f) fs)
  then [lit "UNSUPPORTED"]
  else
    let r := glob_fields o e fs in
    if N.eqb m 82 (* R *) then
      match r with
      | Ok [s] => show_res (Ok [s])
      | Ok _ => [lit "ERR"]
      | Err c => show_res (Err c)
      end
    else show_res r.

Definition entry_xp (a : list str) : list str :=
  match decode_case a with
  | None => bad
  | Some (m, e, o, w) =>
      if N.eqb m 83 (* S *) then
        show_res (bind (expand_to_str o e w) (fun s => Ok [s]))
      else
        match basic_expand o e w with
        | Err c => show_res (Err c)
        | Ok x => glob_out o e m (split_fields e x)
        end
  end.

(** the specification (Expand/SplitSpec.v) on the same case *)
Definition entry_xpspec (a : list str) : list str :=
  match decode_case a with
  | None => bad
  | Some (m, e, o, w) =>
      match spec_fields o e w with
      | Err c => show_res (Err c)
      | Ok fs => glob_out o e m (map pattern_of fs)
      end
  end.

(** the recorded class [known_at_null] of Expand/SpecProofs.v, decided by its Gallina definition *)
From BV Require Import Expand.Proofs Expand.SpecProofs.
Definition entry_xpknown (a : list str) : list str :=
  match decode_case a with
  | None => bad
  | Some (m, e, o, w) => [enc_bool (known_at_null o e w); enc_bool (frag w)]
  end.

(** brace expansion.  args: enabled text tree ; tree: "N" (none) | "Y" nodes
    nodes: N node* ; node: "T" s | "E" M member* ; member: "n" a b i | "c" a b i | "C" nodes
    entry_brace  -> [text handed to the word parser]      (model)
    entry_bspec  -> the words of the specification *)
From BV Require Import Expand.Brace.

Fixpoint dec_bnode (fuel : nat) (a : list str) : option (bnode * list str) :=
  match fuel with O => None | S fuel =>
  let dec_nodes := fix dn (n : nat) (a : list str) : option (list bnode * list str) :=
    match n with
    | O => Some ([], a)
    | S k => match dec_bnode fuel a with
             | Some (x, r) => match dn k r with Some (l, r') => Some (x :: l, r') | None => None end
             | None => None
             end
    end in
  let dec_member := fun (a : list str) =>
    match a with
    | t :: r =>
        let c := tag t in
        if N.eqb c 110 then
          match r with x :: y :: i :: r' => Some (BNum (dec_Z x) (dec_Z y) (dec_Z i), r') | _ => None end
        else if N.eqb c 99 then
          match r with x :: y :: i :: r' => Some (BChr (tag x) (tag y) (dec_Z i), r') | _ => None end
        else if N.eqb c 67 then
          match r with
          | n :: r' => match dec_nodes (dec_nat n) r' with Some (l, r'') => Some (BChild l, r'') | None => None end
          | [] => None
          end
        else None
    | [] => None
    end in
  let dec_members := fix dm (n : nat) (a : list str) : option (list bmember * list str) :=
    match n with
    | O => Some ([], a)
    | S k => match dec_member a with
             | Some (x, r) => match dm k r with Some (l, r') => Some (x :: l, r') | None => None end
             | None => None
             end
    end in
  match a with
  | t :: r =>
      let c := tag t in
      if N.eqb c 84 then match r with s :: r' => Some (BText s, r') | [] => None end
      else if N.eqb c 69 then
        match r with
        | n :: r' => match dec_members (dec_nat n) r' with Some (l, r'') => Some (BExpr l, r'') | None => None end
        | [] => None
        end
      else None
  | [] => None
  end end.

Fixpoint dec_bnodes (fuel : nat) (n : nat) (a : list str) : option (list bnode * list str) :=
  match n with
  | O => Some ([], a)
  | S k => match dec_bnode fuel a with
           | Some (x, r) => match dec_bnodes fuel k r with Some (l, r') => Some (x :: l, r') | None => None end
           | None => None
           end
  end.

Definition dec_tree (a : list str) : option (option (list bnode)) :=
  match a with
  | t :: r =>
      if N.eqb (tag t) 78 then Some None
      else match r with
           | n :: r' => match dec_bnodes (length a) (dec_nat n) r' with
                        | Some (l, _) => Some (Some l)
                        | None => None
                        end
           | [] => None
           end
  | [] => None
  end.

Definition entry_brace (a : list str) : list str :=
  match a with
  | en :: text :: r =>
      match dec_tree r with
      | Some tree => [brace_expand_text (dec_bool en) text tree]
      | None => bad
      end
  | _ => bad
  end.

Definition entry_bspec (a : list str) : list str :=
  match a with
  | en :: text :: r =>
      match dec_tree r with
      | Some (Some ns) => if dec_bool en then spec_words ns else [text]
      | Some None => [text]
      | None => bad
      end
  | _ => bad
  end.
