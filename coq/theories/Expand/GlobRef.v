(** Executable stand-ins for the two pattern oracles of Expand/Model.v, used by the
    correspondence entries only (the theorems are stated for arbitrary oracles):

      [req]      brush_parser::pattern::pattern_has_glob_metacharacters
      [dirglob]  Pattern::expand on a flat directory (no '/' in the pattern): regex
                 translation of patterns.rs [to_regex_str] + pattern.rs PEG, dot-file policy,
                 byte-wise sort

    Fragment: [*], [?], bracket expressions with single members, ranges, [!]/[^] and backslash
    escapes, backslash escapes outside brackets, Literal (quoted) pieces.  Everything else
    (character-class names, the regex crate's set operators inside brackets, backslash before
    a non-ASCII character inside brackets, extglob groups, '/') is reported
    as unsupported and such cases are dropped by the driver. *)
From BV Require Import Base.Prelude gen.ExpandGen Expand.Model.

Inductive tok := TChar (c : char) | TAny | TStar | TSet (neg : bool) (items : list (char * char)).

Definition BSL : char := 92%N.
Definition LBR : char := 91%N.
Definition RBR : char := 93%N.

(** regex::regex_char_is_special *)
Definition regex_special (c : char) : bool :=
  mem c [92; 94; 36; 46; 124; 63; 42; 43; 40; 41; 91; 93; 123; 125]%N.

Definition is_alnum (c : char) : bool :=
  ((48 <=? c) && (c <=? 57) || (65 <=? c) && (c <=? 90) || (97 <=? c) && (c <=? 122))%N.

(** flat pattern text of a field: Literal pieces get their regex-special characters
    backslash-escaped (Pattern::to_regex_str), Pattern pieces are taken verbatim *)
Definition escape_lit (s : str) : str :=
  flat_map (fun c => if regex_special c then [BSL; c] else [c]) s.
Definition field_pattern (f : wfield) : str :=
  flat_map (fun p => match p with Unsplittable s => escape_lit s | Splittable s => s end) f.

(** bracket members, after the optional inversion character.  Result: None = this is not a
    bracket expression; Some (None) = unsupported; Some (Some (items, rest)). *)
Inductive bres := BFail | BUnsup | BOk (items : list (char * char)) (rest : str).

(** one single_char_bracket_member: (char, rest) *)
Inductive sres := SNone | SUnsup | SOk (c : char) (rest : str).
Definition single (s : str) : sres :=
  match s with
  | [] => SNone
  | c :: r =>
      if N.eqb c BSL then
        match r with
        | d :: r' => if (127 <? d)%N then SUnsup else SOk d r'     (* an escaped letter/digit is that character (f7a052e) *)
        | [] => SOk c r
        end
      else if N.eqb c RBR then SNone
      else SOk c r
  end.

Fixpoint members (fuel : nat) (s : str) (acc : list (char * char)) (n : nat) : bres :=
  match fuel with O => BUnsup | S fuel =>
  match s with
  | [] => BFail
  | c :: r =>
      if N.eqb c RBR then (match n with O => BFail | _ => BOk (rev acc) r end)
      else if N.eqb c LBR && (match r with 58%N :: _ => true | _ => false end) then BUnsup
      else
        match single s with
        | SNone => BFail
        | SUnsup => BUnsup
        | SOk a r1 =>
            match r1 with
            | 45%N :: r2 =>
                match single r2 with
                | SOk b r3 => members fuel r3 (if (a <=? b)%N then (a, b) :: acc else acc) (S n)
                | SUnsup => BUnsup
                | SNone => members fuel r1 ((a, a) :: acc) (S n)
                end
            | _ => members fuel r1 ((a, a) :: acc) (S n)
            end
        end
  end end.

(** the regex crate gives [&&], [--], [~~] a meaning inside classes *)
Fixpoint has_setop (s : str) : bool :=
  match s with
  | a :: ((b :: _) as r) => (N.eqb a b && (N.eqb a 38 || N.eqb a 45 || N.eqb a 126)) || has_setop r
  | _ => false
  end.

Fixpoint take_n (n : nat) (s : str) : str :=
  match n, s with S k, c :: r => c :: take_n k r | _, _ => [] end.

Definition bracket (s : str) : option (option (bool * list (char * char) * str)) :=
  let '(neg, r) := match s with
                   | c :: r' => if N.eqb c 33 || N.eqb c 94 then (true, r') else (false, s)
                   | [] => (false, s)
                   end in
  (* a `]` directly after the opening bracket (or the inversion character) is an ordinary member,
     possibly the start of a range (leading_right_bracket, repair 787d8bd) *)
  let lead : option (list (char * char) * nat * str) :=
    match r with
    | c :: r' =>
        if N.eqb c RBR then
          match r' with
          | 45%N :: r2 =>
              match single r2 with
              | SOk b r3 => Some ((if (RBR <=? b)%N then [(RBR, b)] else []), 1%nat, r3)
              | SUnsup => None
              | SNone => Some ([(RBR, RBR)], 1%nat, r')
              end
          | _ => Some ([(RBR, RBR)], 1%nat, r')
          end
        else Some ([], O, r)
    | [] => Some ([], O, r)
    end in
  match lead with
  | None => Some None
  | Some (acc0, n0, r0) =>
      match members (S (length r0)) r0 acc0 n0 with
      | BFail => None
      | BUnsup => Some None
      | BOk items rest =>
          if has_setop (take_n (length r - length rest) r) then Some None
          else Some (Some (neg, items, rest))
      end
  end.

(** tokens of a pattern; None = unsupported *)
Fixpoint toks (fuel : nat) (ext : bool) (s : str) : option (list tok) :=
  match fuel with O => None | S fuel =>
  match s with
  | [] => Some []
  | c :: r =>
      let cons t rest := match toks fuel ext rest with Some l => Some (t :: l) | None => None end in
      if N.eqb c BSL then
        match r with
        | d :: r' => cons (TChar d) r'
        | [] => cons (TChar c) r
        end
      else if N.eqb c LBR then
        match bracket r with
        | None => cons (TChar c) r
        | Some None => None
        | Some (Some (neg, items, rest)) => cons (TSet neg items) rest
        end
      else if ext && mem c [43; 64; 33; 63; 42]%N && (match r with 40%N :: _ => true | _ => false end)
      then None
      else if N.eqb c 63 then cons TAny r
      else if N.eqb c 42 then cons TStar r
      else cons (TChar c) r
  end end.

Definition is_glob_tok (t : tok) : bool := match t with TChar _ => false | _ => true end.

Definition req (ext : bool) (s : str) : bool :=
  match toks (S (length s)) ext s with
  | Some l => existsb is_glob_tok l
  | None => true
  end.

Definition tok1 (t : tok) (c : char) : bool :=
  match t with
  | TChar d => N.eqb c d
  | TAny => true
  | TStar => true
  | TSet neg items =>
      match items with
      | [] => neg
      | _ => xorb neg (existsb (fun ab => (fst ab <=? c)%N && (c <=? snd ab)%N) items)
      end
  end.

Fixpoint tmatch (ts : list tok) (s : str) {struct ts} : bool :=
  match ts with
  | [] => is_nil s
  | TStar :: r =>
      (fix star (s : str) : bool :=
         tmatch r s || match s with [] => false | _ :: s' => star s' end) s
  | t :: r => match s with c :: s' => tok1 t c && tmatch r s' | [] => false end
  end.

Fixpoint str_ltb (a b : str) : bool :=
  match a, b with
  | _, [] => false
  | [], _ :: _ => true
  | x :: a', y :: b' => (x <? y)%N || (N.eqb x y && str_ltb a' b')
  end.

Fixpoint insert_sorted (x : str) (l : list str) : list str :=
  match l with
  | [] => [x]
  | y :: r => if str_ltb y x then y :: insert_sorted x r else x :: l
  end.
Definition sort_strs (l : list str) : list str := fold_right insert_sorted [] l.

Definition starts_with_dot (s : str) : bool := match s with 46%N :: _ => true | _ => false end.

Section Dir.
Variable names : list str.   (* the working directory's entries *)

Definition supported_field (ext : bool) (f : wfield) : bool :=
  match toks (S (length (field_pattern f))) ext (field_pattern f) with
  | Some _ => negb (mem 47%N (field_pattern f))
  | None => false
  end.

Definition dirglob (e : env) (f : wfield) : list str :=
  match toks (S (length (field_pattern f))) (extglob e) (field_pattern f) with
  | None => []
  | Some ts =>
      (* which piece is inspected for a leading dot is read from the Rust source (gen/ExpandGen.v) *)
      let probe := if dot_test_first_piece_only then f
                   else filter (fun p => negb (is_nil (piece_str p))) f in
      let allow_dot := dotglob e || match probe with p :: _ => starts_with_dot (piece_str p) | [] => false end in
      sort_strs (filter (fun n => tmatch ts n && (negb (starts_with_dot n) || allow_dot)) names)
  end.
End Dir.
