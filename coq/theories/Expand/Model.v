(** Model of brush-core/src/expansion.rs: word pieces -> [Expansion] -> field splitting ->
    pathname expansion.  The data types and the functions mirror the Rust code one to one:

      ExpansionPiece::{Splittable,Unsplittable}  = [epiece]
      WordField(Vec<ExpansionPiece>)             = [wfield]
      Expansion{fields,concatenate,from_array,undefined} = [expansion]
      expand_word_piece                          = [expand_piece]
      process_double_quoted_pieces               = [dq_step] folded by [expand_dq]
      coalesce_expansions                        = [coalesce]
      split_fields                               = [split_fields]
      expand_pathnames_in_field, Pattern::expand = [expand_pathnames], [pattern_expand]
      fields_to_string                           = [fields_to_string]
      full_expand_with_splitting                 = [full_expand]
      basic_expand_to_str                        = [expand_to_str]

    Values are data: an expanded value ([str]) is never handed to a parser by any function
    of this file.  Everything outside the expander proper is an explicit input: the variable
    environment, the output of command substitutions, arithmetic results, tilde targets, the
    ANSI-C decoder, the glob-metacharacter test and the directory matcher ([oracles]). *)
From BV Require Import Base.Prelude gen.ExpandGen.

(** * Data *)

Inductive epiece := Unsplittable (s : str) | Splittable (s : str).
Definition wfield := list epiece.

Record expansion := mkExp {
  fields : list wfield;
  concatenate : bool;
  from_array : bool;
  undefined : bool }.

Definition piece_str (p : epiece) : str := match p with Unsplittable s => s | Splittable s => s end.
Definition make_unsplittable (p : epiece) : epiece := Unsplittable (piece_str p).
Definition field_str (f : wfield) : str := concat (map piece_str f).

(** [Expansion::default()], [From<ExpansionPiece>], [From<String>], [Expansion::undefined()] *)
Definition exp_default : expansion := mkExp [] true false false.
Definition exp_of_piece (p : epiece) : expansion := mkExp [[p]] true false false.
Definition exp_of_str (s : str) : expansion := exp_of_piece (Splittable s).
Definition exp_undefined : expansion := mkExp [[Splittable []]] true false true.
Definition exp_of_array (vs : list str) (concat_ : bool) : expansion :=
  mkExp (map (fun v => [Splittable v]) vs) concat_ true false.

(** * Word-piece AST (brush-parser/src/word.rs [WordPiece], the part in scope) *)

Inductive param :=
| PNamed (n : str)                    (* $x ${x} *)
| PPos (n : nat)                      (* $1 ... (n >= 1) *)
| PAllPos (concat_ : bool)            (* $* (true)  $@ (false) *)
| PAllIdx (n : str) (concat_ : bool)  (* ${a[*]} ${a[@]} *)
| PIdx (n : str) (i : nat)            (* ${a[i]}, i a decimal literal *)
| PCount.                             (* $# *)

Inductive wpiece :=
| WText (s : str)
| WSQ (s : str)
| WAnsiC (s : str)
| WDQ (ps : list wpiece)
| WTilde (t : str)          (* the text after '~' up to the terminator *)
| WParam (e : pexpr)
| WCmd (c : str)            (* $(c) and `c` *)
| WArith (e : str)
| WEsc (s : str)            (* the whole sequence, backslash included *)
with pexpr :=
| EPlain (p : param)
(** [${p:-w}] / [${p-w}] (colon = tests null too).  [w] is the piece list the code obtains
    from the default word in this context: outside double quotes [parse word]; inside,
    [parse inner] when the word is itself ["inner"] ([q = true]), else [parse ("\"" ++ word ++ "\"")]
    which is one [WDQ] piece ([q = false]) — see [expand_parameter_word]. *)
| EDefault (p : param) (colon : bool) (q : bool) (w : list wpiece)
| EAlt (p : param) (colon : bool) (q : bool) (w : list wpiece)
| ELen (p : param).

Definition word := list wpiece.

(** * Environment and oracles *)

Inductive value := VStr (s : str) | VArr (l : list str).   (* dense indexed array from 0 *)

Record env := mkEnv {
  vars : list (str * value);
  args : list str;                    (* positional parameters *)
  ifs : option str;                   (* None = unset *)
  noglob : bool;                      (* set -f *)
  nullglob : bool;
  failglob : bool;
  extglob : bool;
  dotglob : bool }.

Fixpoint lookup (vs : list (str * value)) (n : str) : option value :=
  match vs with
  | [] => None
  | (k, v) :: r => if str_eqb k n then Some v else lookup r n
  end.

(** [Shell::ifs], [get_ifs_first_char] *)
Definition SP : char := 32%N.
Definition TAB : char := 9%N.
Definition default_ifs : str := [SP; TAB; NL].
Definition ifs_of (e : env) : str := match ifs e with Some s => s | None => default_ifs end.
Definition ifs_first_char (e : env) : char := match ifs_of e with c :: _ => c | [] => SP end.
(** the separator of "$*"-style joins.  What an EMPTY IFS gives is read from the Rust source on
    every run (gen/ExpandGen.v): a blank in the unrepaired code, nothing once repaired. *)
Definition ifs_joiner (e : env) : str :=
  match ifs e with
  | None => [SP]
  | Some [] => empty_ifs_joiner
  | Some (c :: _) => [c]
  end.

Fixpoint mem (c : char) (s : str) : bool :=
  match s with [] => false | x :: r => N.eqb x c || mem c r end.

(** Errors are result values. *)
Inductive res (A : Type) := Ok (a : A) | Err (code : N).
Arguments Ok {A} _.
Arguments Err {A} _.
Definition E_TILDE : N := 1%N.     (* TildeWithoutValidHome *)
Definition E_NOMATCH : N := 2%N.   (* failglob: no match *)
Definition E_UNSUPPORTED : N := 9%N. (* outside the modelled fragment (fuel, '/' in a glob) *)

Definition bind {A B} (r : res A) (f : A -> res B) : res B :=
  match r with Ok a => f a | Err c => Err c end.

Record oracles := mkOr {
  o_cmd : str -> str;                 (* raw output of a command substitution *)
  o_arith : str -> str;               (* value of $((e)) as printed *)
  o_tilde : str -> option str;        (* expand_tilde_expression; None = no valid home *)
  o_ansic : str -> str;               (* escape::expand_backslash_escapes, AnsiCQuotes *)
  (** brush_parser::pattern::pattern_has_glob_metacharacters (extglob) (text) *)
  o_req : bool -> str -> bool;
  (** names in the working directory matching the field taken as a pattern, sorted; only
      consulted for fields with a Splittable piece for which [o_req] holds *)
  o_glob : env -> wfield -> list str }.

(** * Parameters *)

Definition show_nat_str (n : nat) : str := show_Z (Z.of_nat n).

Definition expand_param (e : env) (p : param) : expansion :=
  match p with
  | PNamed n =>
      match lookup (vars e) n with
      | Some (VStr s) => exp_of_str s
      | Some (VArr (s :: _)) => exp_of_str s       (* $a = ${a[0]} *)
      | Some (VArr []) => exp_undefined
      | None => exp_undefined
      end
  | PPos n =>
      match n with
      | O => exp_undefined
      | S k => match nth_error (args e) k with Some s => exp_of_str s | None => exp_undefined end
      end
  | PAllPos c => exp_of_array (args e) c
  | PAllIdx n c =>
      match lookup (vars e) n with
      | Some (VStr s) => exp_of_array [s] c
      | Some (VArr l) => exp_of_array l c
      | None => exp_of_array [] c
      end
  | PIdx n i =>
      match lookup (vars e) n with
      | Some (VStr s) => match i with O => exp_of_str s | _ => exp_undefined end
      | Some (VArr l) => match nth_error l i with Some s => exp_of_str s | None => exp_undefined end
      | None => exp_undefined
      end
  | PCount => exp_of_str (show_nat_str (length (args e)))
  end.

(** [Expansion::classify] *)
Inductive pstate := Undefined | DefinedEmpty | NonZero.
Definition is_nil {A} (l : list A) : bool := match l with [] => true | _ => false end.
Definition classify (x : expansion) : pstate :=
  let non_empty := existsb (fun f => existsb (fun p => negb (is_nil (piece_str p))) f) (fields x) in
  if undefined x then Undefined
  else if non_empty then NonZero
  else if is_nil (fields x) then Undefined
  else DefinedEmpty.

(** the parameter is kept by [:-] / [-]  (and the alternative is used by [:+] / [+]) *)
Definition param_wins (colon : bool) (st : pstate) : bool :=
  match st with
  | NonZero => true
  | DefinedEmpty => negb colon
  | Undefined => false
  end.

(** [polymorphic_len]: the number of fields for an array-like expansion, else the number of
    CHARACTERS of the fields ([char_count], after repair 68104b7; it used to be the byte length) *)
Definition poly_len (x : expansion) : nat :=
  if from_array x then length (fields x)
  else fold_left (fun acc f => (acc + length (field_str f))%nat) (fields x) O.

(** * Coalescing adjacent pieces *)

(** the inner loop of [coalesce_expansions] / of [process_double_quoted_pieces]: the first
    new field is appended to the last existing one, the others are pushed *)
Fixpoint append_to_last (acc : list wfield) (f : wfield) : list wfield :=
  match acc with
  | [] => [f]
  | [l] => [l ++ f]
  | x :: r => x :: append_to_last r f
  end.

Definition join_fields (acc fs : list wfield) : list wfield :=
  match fs with
  | [] => acc
  | f :: r => match acc with [] => fs | _ => append_to_last acc f ++ r end
  end.

Definition coalesce_step (acc x : expansion) : expansion :=
  mkExp (join_fields (fields acc) (fields x)) (concatenate x) (from_array x) (undefined acc).

Definition coalesce (xs : list expansion) : expansion := fold_left coalesce_step xs exp_default.

(** * Double quotes *)

(** itertools' [intersperse] then [flatten] *)
Fixpoint intersperse_flat (sep : wfield) (fs : list wfield) : wfield :=
  match fs with
  | [] => []
  | [f] => f
  | f :: r => f ++ sep ++ intersperse_flat sep r
  end.

(** one iteration of the loop in [process_double_quoted_pieces] *)
Definition dq_step (joiner : str) (acc : list wfield) (x : expansion) : list wfield :=
  let to_append :=
    if concatenate x then
      let c := intersperse_flat [Unsplittable joiner] (map (map make_unsplittable) (fields x)) in
      [match c with [] => [Splittable []] | _ => c end]
    else fields x in
  join_fields acc (map (map make_unsplittable) to_append).

(** * Command substitution post-processing *)

Definition strip_nul (s : str) : str := filter (fun c => negb (N.eqb c 0)) s.
Fixpoint drop_leading_nl (s : str) : str :=
  match s with c :: r => if N.eqb c NL then drop_leading_nl r else s | [] => [] end.
Definition trim_trailing_nl (s : str) : str := rev (drop_leading_nl (rev s)).

(** [DOUBLE_QUOTED_ESCAPE_CHARS] is only consulted by the prompt expander; not modelled. *)

(** [EscapeSequence]: the text after the backslash (the whole text if, against the parser's
    invariant, there is no backslash) *)
Definition esc_body (s : str) : str :=
  match s with c :: r => if N.eqb c 92 then r else s | [] => s end.

(** * expand_word_piece *)

Section Expand.
Variable o : oracles.
Variable e : env.

(** The nested recursion over [WDQ] and default words is structural. *)
Fixpoint expand_piece (dq : bool) (w : wpiece) {struct w} : res expansion :=
  match w with
  | WText s => Ok (exp_of_piece (Splittable s))
  | WSQ s => Ok (exp_of_piece (Unsplittable s))
  | WAnsiC s => Ok (exp_of_piece (Unsplittable (o_ansic o s)))
  | WDQ ps =>
      let fix go (ps : list wpiece) (acc : list wfield) {struct ps} : res (list wfield) :=
        match ps with
        | [] => Ok acc
        | p :: r => match expand_piece true p with
                    | Ok x => go r (dq_step (ifs_joiner e) acc x)
                    | Err c => Err c
                    end
        end in
      match go ps [] with
      | Ok fs => Ok (mkExp (if is_nil ps then fs ++ [[Unsplittable []]] else fs) false false false)
      | Err c => Err c
      end
  | WTilde t =>
      match o_tilde o t with
      | Some s => Ok (exp_of_piece (Unsplittable s))
      | None => Err E_TILDE
      end
  | WParam pe => expand_pexpr dq pe
  | WCmd c => Ok (exp_of_piece (Splittable (trim_trailing_nl (strip_nul (o_cmd o c)))))
  | WArith a => Ok (exp_of_piece (Splittable (o_arith o a)))
  | WEsc s => Ok (exp_of_piece (Unsplittable (esc_body s)))   (* in and out of quotes: Strip *)
  end
with expand_pexpr (dq : bool) (pe : pexpr) {struct pe} : res expansion :=
  match pe with
  | EPlain p => Ok (expand_param e p)
  | EDefault p colon q w =>
      let x := expand_param e p in
      if param_wins colon (classify x) then Ok x
      else
        let fix basic (w : list wpiece) (acc : expansion) {struct w} : res expansion :=
          match w with
          | [] => Ok acc
          | p :: r => match expand_piece (dq && negb q) p with
                      | Ok x => basic r (coalesce_step acc x)
                      | Err c => Err c
                      end
          end in
        match w with [] => Ok (exp_of_str []) | _ => basic w exp_default end
  | EAlt p colon q w =>
      let x := expand_param e p in
      if param_wins colon (classify x) then
        let fix basic (w : list wpiece) (acc : expansion) {struct w} : res expansion :=
          match w with
          | [] => Ok acc
          | p :: r => match expand_piece (dq && negb q) p with
                      | Ok x => basic r (coalesce_step acc x)
                      | Err c => Err c
                      end
          end in
        match w with [] => Ok (exp_of_str []) | _ => basic w exp_default end
      else Ok (exp_of_str [])
  | ELen p => Ok (exp_of_str (show_nat_str (poly_len (expand_param e p))))
  end.

Fixpoint expand_pieces (dq : bool) (w : word) : res (list expansion) :=
  match w with
  | [] => Ok []
  | p :: r => bind (expand_piece dq p) (fun x => bind (expand_pieces dq r) (fun xs => Ok (x :: xs)))
  end.

(** [basic_expand] for a brace-free word given as its piece list.  The empty word takes the
    short cut ("no expansion characters") and yields one empty Splittable piece. *)
Definition basic_expand (w : word) : res expansion :=
  match w with
  | [] => Ok (exp_of_str [])
  | _ => bind (expand_pieces false w) (fun xs => Ok (coalesce xs))
  end.

(** * fields_to_string *)

Fixpoint join_with (sep : str) (l : list str) : str :=
  match l with
  | [] => []
  | [s] => s
  | s :: r => s ++ sep ++ join_with sep r
  end.

Definition fields_to_string (x : expansion) : str :=
  let j := if concatenate x then ifs_joiner e else [SP] in
  join_with j (map field_str (fields x)).

Definition expand_to_str (w : word) : res str :=
  bind (basic_expand w) (fun x => Ok (fields_to_string x)).

(** * split_fields *)

(** push a character on the current field: extend a trailing Splittable piece or start one *)
Fixpoint push_char (cur : wfield) (c : char) : wfield :=
  match cur with
  | [] => [Splittable [c]]
  | [Splittable s] => [Splittable (s ++ [c])]
  | [Unsplittable s] => [Unsplittable s; Splittable [c]]
  | p :: r => p :: push_char r c
  end.

Definition flush (cur : wfield) (acc : list wfield) : list wfield :=
  match cur with [] => acc | _ => acc ++ [cur] end.

(** state: finished fields [acc] (in order) and the current field [cur] *)
Fixpoint split_chars (sep : str) (s : str) (cur : wfield) (acc : list wfield) : wfield * list wfield :=
  match s with
  | [] => (cur, acc)
  | c :: r => if mem c sep then split_chars sep r [] (flush cur acc)
              else split_chars sep r (push_char cur c) acc
  end.

Fixpoint split_pieces (sep : str) (f : wfield) (cur : wfield) (acc : list wfield) : wfield * list wfield :=
  match f with
  | [] => (cur, acc)
  | Unsplittable s :: r => split_pieces sep r (cur ++ [Unsplittable s]) acc
  | Splittable s :: r => let '(cur', acc') := split_chars sep s cur acc in split_pieces sep r cur' acc'
  end.

Fixpoint split_loop (sep : str) (fs : list wfield) (acc : list wfield) : list wfield :=
  match fs with
  | [] => acc
  | f :: r => let '(cur, acc') := split_pieces sep f [] acc in split_loop sep r (flush cur acc')
  end.

Definition split_fields (x : expansion) : list wfield := split_loop (ifs_of e) (fields x) [].

(** * Pathname expansion *)

Inductive pexp := NoGlob | Expanded (l : list str).

Definition piece_requires (p : epiece) : bool :=
  match p with Splittable s => o_req o (extglob e) s | Unsplittable _ => false end.

(** [Pattern::expand] with the accept-all filter *)
Definition pattern_expand (f : wfield) : pexp :=
  match f with
  | [] => NoGlob
  | _ => if existsb piece_requires f then Expanded (o_glob o e f) else Expanded [field_str f]
  end.

(** [expand_pathnames_in_field] *)
Definition expand_pathnames (f : wfield) : res (list str) :=
  let r := pattern_expand f in
  match r with
  | Expanded [] => if failglob e then Err E_NOMATCH
                   else if nullglob e then Ok [] else Ok [field_str f]
  | Expanded l => Ok l
  | NoGlob => if nullglob e then Ok [] else Ok [field_str f]
  end.

Fixpoint glob_fields (fs : list wfield) : res (list str) :=
  match fs with
  | [] => Ok []
  | f :: r =>
      bind (if noglob e then Ok [field_str f] else expand_pathnames f)
           (fun l => bind (glob_fields r) (fun l' => Ok (l ++ l')))
  end.

(** [full_expand_with_splitting] *)
Definition full_expand (w : word) : res (list str) :=
  bind (basic_expand w) (fun x => glob_fields (split_fields x)).

End Expand.
