(** C05 — the specification of word expansion, in the style of the bash manual / POSIX 2.6:

    1. the word is expanded to ONE flat stream of items: characters tagged with where they come
       from (quoted text [Quo]; unquoted literal text of the word [Lit]; unquoted result of an
       expansion [Exp]), quoted-null marks [QNull] ("" '' "$empty" ...) and hard field
       breaks [Brk] (between the elements of "$@" / "${a[@]}", and of unquoted dollar-at and dollar-star);
    2. the stream is cut into fields: at [Brk], and at [Exp] characters that are in IFS —
       runs of IFS white space delimit, leading/trailing ones are ignored, a non-white-space
       IFS character delimits on its own (possibly an empty field), [Lit] and [Quo]
       characters never delimit;
    3. a field is kept iff it contains a character or a quoted-null mark;
    4. each field undergoes pathname expansion with its quoted characters literal.

    Nothing here is shared with the piece/field data structures of Expand/Model.v: there are no
    Splittable/Unsplittable pieces, no coalescing, no per-expansion field lists. *)
From BV Require Import Base.Prelude Expand.Model.

Inductive kind := Quo | Lit | Exp.
Inductive item := Ch (c : char) (k : kind) | QNull | Brk.

Definition chars (k : kind) (s : str) : list item := map (fun c => Ch c k) s.
Definition quoted (s : str) : list item := QNull :: chars Quo s.

Fixpoint intercalate {A} (sep : list A) (l : list (list A)) : list A :=
  match l with
  | [] => []
  | [x] => x
  | x :: r => x ++ sep ++ intercalate sep r
  end.

(** a field of the result: characters with a "quoted" flag (quoted = not subject to globbing) *)
Definition tfield := list (char * bool).

(** * 1. The word as a stream *)

Section Items.
Variable o : oracles.
Variable e : env.

(** what the shell variable / positional list holds, read directly from the environment *)
Definition scalar_of (p : param) : option str :=
  match p with
  | PNamed n => match lookup (vars e) n with
                | Some (VStr s) => Some s | Some (VArr (s :: _)) => Some s | _ => None end
  | PPos O => None
  | PPos (S k) => nth_error (args e) k
  | PIdx n i => match lookup (vars e) n with
                | Some (VStr s) => match i with O => Some s | _ => None end
                | Some (VArr l) => nth_error l i
                | None => None end
  | PCount => Some (show_Z (Z.of_nat (length (args e))))
  | _ => None
  end.

Definition elems_of (p : param) : list str :=
  match p with
  | PAllPos _ => args e
  | PAllIdx n _ => match lookup (vars e) n with Some (VStr s) => [s] | Some (VArr l) => l | None => [] end
  | _ => []
  end.

Definition is_list_param (p : param) : bool := match p with PAllPos _ | PAllIdx _ _ => true | _ => false end.
Definition is_star (p : param) : bool := match p with PAllPos c | PAllIdx _ c => c | _ => false end.

(** "$*": the elements joined with the first character of IFS — a blank if IFS is unset,
    nothing if IFS is empty *)
Definition star_joiner : str :=
  match ifs e with None => [SP] | Some [] => [] | Some (c :: _) => [c] end.

Definition param_items (dq : bool) (p : param) : list item :=
  if is_list_param p then
    if dq then
      if is_star p then quoted (join_with star_joiner (elems_of p))
      else intercalate [Brk] (map quoted (elems_of p))
    else intercalate [Brk] (map (chars Exp) (elems_of p))
  else
    let v := match scalar_of p with Some s => s | None => [] end in
    if dq then quoted v else chars Exp v.

(** set / null tests of ${p:-w} ${p-w} ${p:+w} ${p+w} *)
Definition is_set (p : param) : bool :=
  if is_list_param p then negb (is_nil (elems_of p))
  else match scalar_of p with Some _ => true | None => false end.
(** a list is null when what "$*" / "$@" would print is empty: two empty elements are NOT null
    (they are joined by a blank), unless it is $* under an empty IFS *)
Definition is_nonnull (p : param) : bool :=
  if is_list_param p then
    if is_star p then negb (is_nil (join_with star_joiner (elems_of p)))
    else (2 <=? length (elems_of p))%nat || existsb (fun s => negb (is_nil s)) (elems_of p)
  else match scalar_of p with Some s => negb (is_nil s) | None => false end.
Definition uses_param (colon : bool) (p : param) : bool :=
  if colon then is_nonnull p else is_set p.

Definition only_marks (l : list item) : bool :=
  forallb (fun i => match i with QNull => true | _ => false end) l.

Definition zero_list_piece (w : wpiece) : bool :=
  match w with
  | WParam (EPlain p) => is_list_param p && negb (is_star p) && is_nil (elems_of p)
  | _ => false
  end.

(** length of ${#p} *)
Definition len_of (p : param) : nat :=
  if is_list_param p then length (elems_of p)
  else length (match scalar_of p with Some s => s | None => [] end).

(** the default / alternative word of an expansion that itself stands inside double quotes:
    everything it yields is quoted, and it always leaves a quoted-null mark *)
Definition requote (l : list item) : list item :=
  QNull :: map (fun i => match i with Ch c _ => Ch c Quo | _ => i end) l.

(** [top]: the piece is literal text of the word itself (not of a default word) *)
Fixpoint piece_items (top dq : bool) (w : wpiece) {struct w} : res (list item) :=
  match w with
  | WText s => Ok (if dq then quoted s else chars (if top then Lit else Exp) s)
  | WSQ s => Ok (quoted s)
  | WAnsiC s => Ok (quoted (o_ansic o s))
  | WDQ ps =>
      let fix go (ps : list wpiece) : res (list item) :=
        match ps with
        | [] => Ok []
        | p :: r => match piece_items top true p with
                    | Ok a => match go r with Ok b => Ok (a ++ b) | Err c => Err c end
                    | Err c => Err c
                    end
        end in
      match ps with
      | [] => Ok [QNull]
      | _ => match go ps with
             | Ok inner =>
                 (* "$@" with no positional parameters contributes nothing, and if the rest of the
                    quoted string is null too the word disappears *)
                 Ok (if existsb zero_list_piece ps && only_marks inner then [] else inner)
             | Err c => Err c
             end
      end
  | WTilde t => match o_tilde o t with Some s => Ok (quoted s) | None => Err E_TILDE end
  | WParam pe => pexpr_items top dq pe
  | WCmd c => let v := trim_trailing_nl (strip_nul (o_cmd o c)) in Ok (if dq then quoted v else chars Exp v)
  | WArith a => let v := o_arith o a in Ok (if dq then quoted v else chars Exp v)
  | WEsc s => Ok (quoted (esc_body s))
  end
with pexpr_items (top dq : bool) (pe : pexpr) {struct pe} : res (list item) :=
  match pe with
  | EPlain p => Ok (param_items dq p)
  | ELen p => let v := show_Z (Z.of_nat (len_of p)) in Ok (if dq then quoted v else chars Exp v)
  | EDefault p colon q w =>
      if uses_param colon p then Ok (param_items dq p)
      else
        let fix go (w : list wpiece) : res (list item) :=
          match w with
          | [] => Ok []
          | x :: r => match piece_items false (dq && negb q) x with
                      | Ok a => match go r with Ok b => Ok (a ++ b) | Err c => Err c end
                      | Err c => Err c
                      end
          end in
        match go w with
        | Ok l => Ok (if dq then requote l else l)
        | Err c => Err c
        end
  | EAlt p colon q w =>
      if uses_param colon p then
        let fix go (w : list wpiece) : res (list item) :=
          match w with
          | [] => Ok []
          | x :: r => match piece_items false (dq && negb q) x with
                      | Ok a => match go r with Ok b => Ok (a ++ b) | Err c => Err c end
                      | Err c => Err c
                      end
          end in
        match go w with
        | Ok l => Ok (if dq then requote l else l)
        | Err c => Err c
        end
      else Ok (if dq then [QNull] else [])
  end.

Fixpoint word_items (w : word) : res (list item) :=
  match w with
  | [] => Ok []
  | p :: r => match piece_items true false p with
              | Ok a => match word_items r with Ok b => Ok (a ++ b) | Err c => Err c end
              | Err c => Err c
              end
  end.

End Items.

(** * 2./3. Cutting the stream into fields *)

Definition is_ifs_ws (c : char) : bool := N.eqb c 32 || N.eqb c 9 || N.eqb c 10.

Inductive dstate := DNone | DWs | DNonWs.

Record sst := mkSt { s_acc : list tfield; s_cur : tfield; s_has : bool; s_d : dstate }.

Definition st0 : sst := mkSt [] [] false DNone.

Definition close (s : sst) (d : dstate) : sst :=
  mkSt (if s_has s then s_acc s ++ [s_cur s] else s_acc s) [] false d.
Definition push (s : sst) (c : char) (q : bool) : sst :=
  mkSt (s_acc s) (s_cur s ++ [(c, q)]) true DNone.

Definition step (sep : str) (s : sst) (i : item) : sst :=
  match i with
  | Brk => close s DNone
  | QNull => mkSt (s_acc s) (s_cur s) true DNone
  | Ch c Quo => push s c true
  | Ch c Lit => push s c false
  | Ch c Exp =>
      if mem c sep then
        if is_ifs_ws c then
          (if s_has s then close s DWs else s)
        else if s_has s then close s DNonWs
        else match s_d s with
             | DWs => mkSt (s_acc s) (s_cur s) false DNonWs     (* white space + ':' is one delimiter *)
             | _ => mkSt (s_acc s ++ [[]]) [] false DNonWs       (* an empty field *)
             end
      else push s c false
  end.

Definition run (sep : str) (s : sst) (l : list item) : sst := fold_left (step sep) l s.
Definition finish (s : sst) : list tfield := s_acc (close s DNone).
Definition cut (sep : str) (l : list item) : list tfield := finish (run sep st0 l).

Definition spec_fields (o : oracles) (e : env) (w : word) : res (list tfield) :=
  match word_items o e w with
  | Ok l => Ok (cut (ifs_of e) l)
  | Err c => Err c
  end.

(** * 4. Pathname expansion of a field: maximal runs of quoted / unquoted characters *)

Fixpoint runs (t : tfield) : wfield :=
  match t with
  | [] => []
  | (c, q) :: r =>
      match runs r with
      | Unsplittable s :: r' => if q then Unsplittable (c :: s) :: r' else Splittable [c] :: Unsplittable s :: r'
      | Splittable s :: r' => if q then Unsplittable [c] :: Splittable s :: r' else Splittable (c :: s) :: r'
      | [] => [if q then Unsplittable [c] else Splittable [c]]
      end
  end.
Definition pattern_of (t : tfield) : wfield := match t with [] => [Unsplittable []] | _ => runs t end.

Definition spec_expand (o : oracles) (e : env) (w : word) : res (list str) :=
  match spec_fields o e w with
  | Ok fs => glob_fields o e (map pattern_of fs)
  | Err c => Err c
  end.

(** scalar contexts (assignment, here-string, case word): the fields joined — "$*"-like words by
    the first IFS character, everything else by a blank; no splitting, no globbing *)
Definition tagged_str (t : tfield) : str := map fst t.
