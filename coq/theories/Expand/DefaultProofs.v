(** C05: the equivalence of Expand/SpecProofs.v extended to ${p:-w} ${p-w} ${p:+w} ${p+w} with a
    scalar parameter p and a list-free default / alternative word w (one nesting level), outside
    and inside double quotes. *)
From BV Require Import Base.Prelude Expand.Model Expand.SplitSpec Expand.Proofs Expand.SpecProofs.

(** * The fragment *)

Definition scalar_pexpr (pe : pexpr) : bool :=
  match pe with EPlain p => negb (is_list_param p) | _ => false end.
(** inside the "..." of a default word / a piece of a default word *)
Definition sub_inner (p : wpiece) : bool :=
  match p with WDQ _ => false | WParam pe => scalar_pexpr pe | _ => true end.
Definition sub_piece (p : wpiece) : bool :=
  match p with WDQ ps => forallb sub_inner ps | WParam pe => scalar_pexpr pe | _ => true end.
Definition sub_word (w : word) : bool := forallb sub_piece w.

Definition frag2_pexpr (pe : pexpr) : bool :=
  match pe with
  | EPlain _ => true
  | EDefault p _ _ w | EAlt p _ _ w => negb (is_list_param p) && sub_word w
  | ELen _ => true
  end.
Definition frag2_inner (p : wpiece) : bool :=
  match p with WDQ _ => false | WParam pe => frag2_pexpr pe | _ => true end.
Definition frag2_piece (p : wpiece) : bool :=
  match p with WDQ ps => forallb frag2_inner ps | WParam pe => frag2_pexpr pe | _ => true end.
Definition frag2 (w : word) : bool := forallb frag2_piece w.

Lemma sub_inner_frag p : sub_inner p = true -> frag_inner p = true.
Proof. destruct p as [| | | | |[p| | |]| | |]; cbn; auto; discriminate. Qed.

Lemma sub_inner_all_frag ps : forallb sub_inner ps = true -> forallb frag_inner ps = true.
Proof.
  induction ps as [|p r IH]; cbn; auto. intros H. apply andb_true_iff in H as [H1 H2].
  now rewrite (sub_inner_frag p H1), IH.
Qed.

Section Sub.
Variable o : oracles.
Variable e : env.

(** the spec's loop over the pieces of a default word *)
Fixpoint sub_items (dq' : bool) (w : list wpiece) : res (list item) :=
  match w with
  | [] => Ok []
  | x :: r => match piece_items o e false dq' x with
              | Ok a => match sub_items dq' r with Ok b => Ok (a ++ b) | Err c => Err c end
              | Err c => Err c
              end
  end.

Definition sub_result (xs : res (list expansion)) : res expansion :=
  match xs with Ok l => Ok (fold_left coalesce_step l exp_default) | Err c => Err c end.

Definition pword (dq q : bool) (w : list wpiece) : res expansion :=
  match w with
  | [] => Ok (exp_of_str [])
  | _ => sub_result (expand_pieces o e (dq && negb q) w)
  end.

Lemma expand_default_eq dq p colon q w :
  expand_pexpr o e dq (EDefault p colon q w) =
  if param_wins colon (classify (expand_param e p)) then Ok (expand_param e p) else pword dq q w.
Proof.
  cbn [expand_pexpr]. destruct (param_wins colon (classify (expand_param e p))); [reflexivity|].
  unfold pword, sub_result.
  match goal with |- match w with [] => _ | _ :: _ => ?G w exp_default end = _ => set (bG := G) end.
  assert (HG : forall l acc, bG l acc =
      match expand_pieces o e (dq && negb q) l with Ok xs => Ok (fold_left coalesce_step xs acc) | Err c => Err c end).
  { induction l as [|p1 l IH]; intros acc; [reflexivity|].
    change (bG (p1 :: l) acc) with
      (match expand_piece o e (dq && negb q) p1 with Ok x => bG l (coalesce_step acc x) | Err c => Err c end).
    cbn [expand_pieces bind].
    destruct (expand_piece o e (dq && negb q) p1) as [x|c]; [|reflexivity].
    rewrite IH. unfold bind. destruct (expand_pieces o e (dq && negb q) l); reflexivity. }
  destruct w as [|p0 r0]; [reflexivity|]. now rewrite HG.
Qed.

Lemma expand_alt_eq dq p colon q w :
  expand_pexpr o e dq (EAlt p colon q w) =
  if param_wins colon (classify (expand_param e p)) then pword dq q w else Ok (exp_of_str []).
Proof.
  cbn [expand_pexpr]. destruct (param_wins colon (classify (expand_param e p))); [|reflexivity].
  unfold pword, sub_result.
  match goal with |- match w with [] => _ | _ :: _ => ?G w exp_default end = _ => set (bG := G) end.
  assert (HG : forall l acc, bG l acc =
      match expand_pieces o e (dq && negb q) l with Ok xs => Ok (fold_left coalesce_step xs acc) | Err c => Err c end).
  { induction l as [|p1 l IH]; intros acc; [reflexivity|].
    change (bG (p1 :: l) acc) with
      (match expand_piece o e (dq && negb q) p1 with Ok x => bG l (coalesce_step acc x) | Err c => Err c end).
    cbn [expand_pieces bind].
    destruct (expand_piece o e (dq && negb q) p1) as [x|c]; [|reflexivity].
    rewrite IH. unfold bind. destruct (expand_pieces o e (dq && negb q) l); reflexivity. }
  destruct w as [|p0 r0]; [reflexivity|]. now rewrite HG.
Qed.

Definition sub_spec (dq q : bool) (w : list wpiece) : res (list item) :=
  match sub_items (dq && negb q) w with
  | Ok l => Ok (if dq then requote l else l)
  | Err c => Err c
  end.

Lemma items_default_eq top dq p colon q w :
  pexpr_items o e top dq (EDefault p colon q w) =
  if uses_param e colon p then Ok (param_items e dq p) else sub_spec dq q w.
Proof.
  cbn [pexpr_items]. destruct (uses_param e colon p); [reflexivity|]. unfold sub_spec.
  match goal with |- match ?G w with Ok _ => _ | Err _ => _ end = _ => set (gG := G) end.
  assert (HG : forall l, gG l = sub_items (dq && negb q) l).
  { induction l as [|p1 l IH]; [reflexivity|]. cbn [sub_items].
    change (gG (p1 :: l)) with
      (match piece_items o e false (dq && negb q) p1 with
       | Ok a => match gG l with Ok b => Ok (a ++ b) | Err c => Err c end
       | Err c => Err c end).
    destruct (piece_items o e false (dq && negb q) p1); [now rewrite IH | reflexivity]. }
  now rewrite HG.
Qed.

Lemma items_alt_eq top dq p colon q w :
  pexpr_items o e top dq (EAlt p colon q w) =
  if uses_param e colon p then sub_spec dq q w else Ok (if dq then [QNull] else []).
Proof.
  cbn [pexpr_items]. destruct (uses_param e colon p); [|reflexivity]. unfold sub_spec.
  match goal with |- match ?G w with Ok _ => _ | Err _ => _ end = _ => set (gG := G) end.
  assert (HG : forall l, gG l = sub_items (dq && negb q) l).
  { induction l as [|p1 l IH]; [reflexivity|]. cbn [sub_items].
    change (gG (p1 :: l)) with
      (match piece_items o e false (dq && negb q) p1 with
       | Ok a => match gG l with Ok b => Ok (a ++ b) | Err c => Err c end
       | Err c => Err c end).
    destruct (piece_items o e false (dq && negb q) p1); [now rewrite IH | reflexivity]. }
  now rewrite HG.
Qed.

(** set / null tests agree for scalar parameters *)
Lemma wins_eq colon p : is_list_param p = false ->
  param_wins colon (classify (expand_param e p)) = uses_param e colon p.
Proof.
  intros Hl. rewrite (expand_param_nonlist e p Hl). unfold uses_param, is_set, is_nonnull. rewrite Hl.
  unfold classify; cbn [undefined fields existsb piece_str orb is_nil].
  destruct (scalar_of e p) as [[|c r]|]; destruct colon; reflexivity.
Qed.

End Sub.

(** * Outside double quotes: the default word is expanded like a word whose text is [Exp] *)

Section Sub2.
Variable o : oracles.
Variable e : env.
Variable sep : str.

Lemma sub_no_zero ps : forallb sub_inner ps = true -> existsb (zero_list_piece e) ps = false.
Proof.
  induction ps as [|p r IH]; [reflexivity|]. cbn [forallb existsb]. intros H.
  apply andb_true_iff in H as [H1 H2]. rewrite (IH H2), orb_false_r.
  destruct p as [| | | | |[p| | |]| | |]; try reflexivity; cbn in H1; try discriminate.
  cbn. apply negb_true_iff in H1. now rewrite H1.
Qed.

Lemma S3 p : sub_piece p = true -> star_ok e ->
  agree sep (match expand_piece o e false p with Ok x => Ok (flat (fields x)) | Err c => Err c end)
            (piece_items o e false false p).
Proof.
  intros Hf Hstar. destruct p as [s|s|s|ps|t|pe|c|a|s]; cbn [sub_piece] in Hf;
    try (cbn [expand_piece piece_items agree exp_of_piece fields]; unfold flat; cbn; rewrite ?app_nil_r; apply equiv_refl).
  - rewrite expand_dq_eq, piece_items_dq. destruct ps as [|p0 r0].
    + cbn. apply equiv_refl.
    + pose proof (E2 o e sep false (p0 :: r0) (sub_inner_all_frag _ Hf) Hstar []) as H2.
      rewrite (sub_no_zero _ Hf). cbn [andb].
      destruct (dq_fold o e (p0 :: r0) []) as [fs|c]; destruct (dq_inner o e false (p0 :: r0)) as [inner|c'];
        cbn [agree] in H2 |- *; try contradiction; exact H2.
  - destruct (o_tilde o t) as [v|] eqn:Ht; cbn [expand_piece piece_items agree]; rewrite Ht; cbn [agree]; [|reflexivity].
    unfold flat; cbn. rewrite app_nil_r. apply equiv_refl.
  - destruct pe as [p| | |]; cbn [scalar_pexpr] in Hf; try discriminate. apply negb_true_iff in Hf.
    cbn [expand_piece expand_pexpr piece_items pexpr_items agree]. unfold param_items. rewrite Hf.
    rewrite (expand_param_nonlist e p Hf). unfold flat; cbn. rewrite app_nil_r. apply equiv_refl.
Qed.

Lemma S4 w : sub_word w = true -> star_ok e ->
  agree sep (match expand_pieces o e false w with
             | Ok xs => Ok (concat (map (fun x => flat (fields x)) xs)) | Err c => Err c end)
            (sub_items o e false w).
Proof.
  intros Hf Hstar. induction w as [|p r IH]; cbn [expand_pieces sub_items].
  - cbn. apply equiv_refl.
  - cbn in Hf. apply andb_true_iff in Hf as [Hp Hr].
    pose proof (S3 p Hp Hstar) as H3. unfold bind.
    destruct (expand_piece o e false p) as [x|c]; destruct (piece_items o e false false p) as [a|c'];
      cbn [agree] in H3 |- *; try contradiction; [|exact H3].
    specialize (IH Hr).
    destruct (expand_pieces o e false r) as [xs|c]; destruct (sub_items o e false r) as [b|c'];
      cbn [agree] in IH |- *; try contradiction; [|exact IH].
    cbn [map concat]. now apply equiv_app.
Qed.

(** the default word itself, outside quotes *)
Lemma pword_unquoted q w : sub_word w = true -> star_ok e ->
  agree sep (match pword o e false q w with Ok x => Ok (flat (fields x)) | Err c => Err c end)
            (sub_spec o e false q w).
Proof.
  intros Hf Hstar. unfold pword, sub_spec. cbn [andb].
  destruct w as [|p0 r0]; [cbn; apply equiv_refl|].
  pose proof (S4 (p0 :: r0) Hf Hstar) as H4. unfold sub_result.
  destruct (expand_pieces o e false (p0 :: r0)) as [xs|c]; destruct (sub_items o e false (p0 :: r0)) as [l|c'];
    cbn [agree] in H4 |- *; try contradiction; [|exact H4].
  rewrite flat_coalesce. cbn [exp_default fields flat map intercalate app]. exact H4.
Qed.

Lemma D3 top pe : frag2_pexpr pe = true -> star_ok e ->
  agree sep (match expand_pexpr o e false pe with Ok x => Ok (flat (fields x)) | Err c => Err c end)
            (pexpr_items o e top false pe).
Proof.
  intros Hf Hstar. destruct pe as [p|p colon q w|p colon q w|p]; cbn [frag2_pexpr] in Hf; try discriminate.
  - cbn [expand_pexpr pexpr_items agree]. unfold param_items.
    destruct (is_list_param p) eqn:Hl.
    + rewrite (expand_param_list e p Hl). unfold exp_of_array; cbn [fields].
      rewrite flat_singletons_S. apply equiv_refl.
    + rewrite (expand_param_nonlist e p Hl). unfold flat; cbn. rewrite app_nil_r. apply equiv_refl.
  - apply andb_true_iff in Hf as [Hl Hw]. apply negb_true_iff in Hl.
    rewrite expand_default_eq, items_default_eq, (wins_eq e colon p Hl).
    destruct (uses_param e colon p).
    + cbn [agree]. unfold param_items. rewrite Hl, (expand_param_nonlist e p Hl).
      unfold flat; cbn. rewrite app_nil_r. apply equiv_refl.
    + now apply pword_unquoted.
  - apply andb_true_iff in Hf as [Hl Hw]. apply negb_true_iff in Hl.
    rewrite expand_alt_eq, items_alt_eq, (wins_eq e colon p Hl).
    destruct (uses_param e colon p).
    + now apply pword_unquoted.
    + cbn. apply equiv_refl.
  - cbn [expand_pexpr pexpr_items agree]. rewrite poly_len_eq. unfold flat; cbn. rewrite app_nil_r. apply equiv_refl.
Qed.

(** * Inside double quotes: everything the default word yields is one quoted run *)

Definition no_brk (l : list item) : bool := forallb (fun i => match i with Brk => false | _ => true end) l.
Definition chars_of (l : list item) : str := flat_map (fun i => match i with Ch c _ => [c] | _ => [] end) l.

Lemma chars_of_app a b : chars_of (a ++ b) = chars_of a ++ chars_of b.
Proof. unfold chars_of. now rewrite flat_map_app. Qed.
Lemma no_brk_app a b : no_brk (a ++ b) = no_brk a && no_brk b.
Proof. unfold no_brk. apply forallb_app. Qed.
Lemma chars_of_chars k s : chars_of (chars k s) = s /\ no_brk (chars k s) = true.
Proof.
  induction s as [|c r [IH1 IH2]]; [auto|].
  change (chars_of (chars k (c :: r))) with (c :: chars_of (chars k r)).
  change (no_brk (chars k (c :: r))) with (no_brk (chars k r)).
  now rewrite IH1, IH2.
Qed.
Lemma chars_of_quoted s : chars_of (quoted s) = s /\ no_brk (quoted s) = true.
Proof. unfold quoted. cbn. apply chars_of_chars. Qed.

Lemma run_requote_tail l : forall a c, no_brk l = true ->
  run sep (mkSt a c true DNone) (map (fun i => match i with Ch c0 _ => Ch c0 Quo | _ => i end) l) =
  mkSt a (c ++ map (fun x => (x, true)) (chars_of l)) true DNone.
Proof.
  induction l as [|i r IH]; intros a c H; [cbn; now rewrite app_nil_r|].
  cbn in H. apply andb_true_iff in H as [Hi Hr].
  cbn [map]. change (run sep ?s (?x :: ?t)) with (run sep (step sep s x) t).
  destruct i as [c0 k| |]; [| |discriminate].
  - cbn [step]. unfold push; cbn [s_acc s_cur]. rewrite IH by exact Hr.
    change (chars_of (Ch c0 k :: r)) with (c0 :: chars_of r). cbn [map]. now rewrite <- app_assoc.
  - cbn [step s_acc s_cur]. rewrite IH by exact Hr. reflexivity.
Qed.

Lemma requote_equiv l : no_brk l = true -> equiv sep (requote l) (quoted (chars_of l)).
Proof.
  intros H st. rewrite run_quoted. unfold requote.
  change (run sep st (QNull :: ?t)) with (run sep (step sep st QNull) t). cbn [step].
  now rewrite run_requote_tail.
Qed.

Lemma run_flat_mu f : forall a c,
  run sep (mkSt a c true DNone) (flat_field (map make_unsplittable f)) =
  mkSt a (c ++ map (fun x => (x, true)) (field_str f)) true DNone.
Proof.
  induction f as [|p r IH]; intros a c; [cbn; now rewrite app_nil_r|].
  cbn [map flat_field flat_map]. rewrite run_app.
  change (flat_piece (make_unsplittable p)) with (quoted (piece_str p)).
  rewrite run_quoted. cbn [s_acc s_cur]. fold (flat_field (map make_unsplittable r)). rewrite IH.
  change (field_str (p :: r)) with (piece_str p ++ field_str r). now rewrite map_app, app_assoc.
Qed.

Lemma flat_mu_equiv f : f <> [] -> equiv sep (flat_field (map make_unsplittable f)) (quoted (field_str f)).
Proof.
  intros Hne st. destruct f as [|p r]; [congruence|].
  cbn [map flat_field flat_map]. rewrite run_app.
  change (flat_piece (make_unsplittable p)) with (quoted (piece_str p)).
  rewrite !run_quoted. cbn [s_acc s_cur]. fold (flat_field (map make_unsplittable r)). rewrite run_flat_mu.
  change (field_str (p :: r)) with (piece_str p ++ field_str r). now rewrite map_app, app_assoc.
Qed.

Lemma mu_idem f : map make_unsplittable (map make_unsplittable f) = map make_unsplittable f.
Proof. rewrite map_map. apply map_ext. now intros []. Qed.

Lemma dq_out_single_field j x f : fields x = [f] -> f <> [] ->
  dq_out j x = flat_field (map make_unsplittable f).
Proof.
  intros Hf Hne. unfold dq_out, to_append. rewrite Hf. destruct (concatenate x).
  - cbn [map intersperse_flat]. destruct (map make_unsplittable f) eqn:E; [now destruct f|].
    rewrite <- E. cbn [map]. rewrite flat_one. now rewrite mu_idem.
  - cbn [map]. now rewrite flat_one.
Qed.

End Sub2.

Section Sub3.
Variable o : oracles.
Variable e : env.
Variable sep : str.

Definition single_ok (m : res expansion) (s : res (list item)) : Prop :=
  match m, s with
  | Ok x, Ok l => exists f, fields x = [f] /\ f <> [] /\ no_brk l = true /\ chars_of l = field_str f
  | Err c, Err c' => c = c'
  | _, _ => False
  end.

Lemma single_S v (l : list item) : no_brk l = true -> chars_of l = v ->
  exists f, [[Splittable v]] = [f] /\ f <> [] /\ no_brk l = true /\ chars_of l = field_str f.
Proof. intros H1 H2. exists [Splittable v]. repeat split; auto; [discriminate|]. unfold field_str; cbn. now rewrite app_nil_r. Qed.

Lemma single_U v (l : list item) : no_brk l = true -> chars_of l = v ->
  exists f, [[Unsplittable v]] = [f] /\ f <> [] /\ no_brk l = true /\ chars_of l = field_str f.
Proof. intros H1 H2. exists [Unsplittable v]. repeat split; auto; [discriminate|]. unfold field_str; cbn. now rewrite app_nil_r. Qed.

Lemma items_dq_or k (dq' : bool) v : no_brk (if dq' then quoted v else chars k v) = true /\
  chars_of (if dq' then quoted v else chars k v) = v.
Proof. destruct dq'; [destruct (chars_of_quoted v) | destruct (chars_of_chars k v)]; auto. Qed.

Lemma C1i top dq' p : sub_inner p = true ->
  single_ok (expand_piece o e dq' p) (piece_items o e top dq' p).
Proof.
  intros Hf. destruct p as [s|s|s|ps|t|pe|c|a|s]; cbn [sub_inner] in Hf; try discriminate;
    cbn [expand_piece piece_items single_ok exp_of_piece fields].
  - destruct (items_dq_or (if top then Lit else Exp) dq' s). now apply single_S.
  - destruct (chars_of_quoted s). now apply single_U.
  - destruct (chars_of_quoted (o_ansic o s)). now apply single_U.
  - destruct (o_tilde o t) as [v|]; cbn [single_ok]; [|reflexivity].
    destruct (chars_of_quoted v). now apply single_U.
  - destruct pe as [p| | |]; cbn [scalar_pexpr] in Hf; try discriminate. apply negb_true_iff in Hf.
    cbn [expand_pexpr pexpr_items single_ok]. unfold param_items. rewrite Hf, (expand_param_nonlist e p Hf).
    cbn [fields]. destruct (items_dq_or Exp dq' (match scalar_of e p with Some s => s | None => [] end)).
    now apply single_S.
  - destruct (items_dq_or Exp dq' (trim_trailing_nl (strip_nul (o_cmd o c)))). now apply single_S.
  - destruct (items_dq_or Exp dq' (o_arith o a)). now apply single_S.
  - destruct (chars_of_quoted (esc_body s)). now apply single_U.
Qed.

Lemma to_append_single j x f : fields x = [f] -> f <> [] ->
  map (map make_unsplittable) (to_append j x) = [map make_unsplittable f].
Proof.
  intros Hf Hne. unfold to_append. rewrite Hf. destruct (concatenate x); [|reflexivity].
  cbn [map intersperse_flat]. destruct (map make_unsplittable f) eqn:E; [now destruct f|].
  rewrite <- E. cbn [map]. now rewrite mu_idem.
Qed.

Lemma join_fields_single (h g : wfield) : join_fields [h] [g] = [h ++ g].
Proof. reflexivity. Qed.

Lemma C2 top ps : forallb sub_inner ps = true -> forall h,
  match dq_fold o e ps [h], dq_inner o e top ps with
  | Ok fs, Ok l => exists f', fs = [h ++ f'] /\ no_brk l = true /\ chars_of l = field_str f'
  | Err c, Err c' => c = c'
  | _, _ => False
  end.
Proof.
  induction ps as [|p r IH]; intros Hf h; cbn [dq_fold dq_inner].
  - exists []. now rewrite app_nil_r.
  - cbn in Hf. apply andb_true_iff in Hf as [Hp Hr].
    pose proof (C1i top true p Hp) as H1.
    destruct (expand_piece o e true p) as [x|c]; destruct (piece_items o e top true p) as [a|c'];
      cbn [single_ok] in H1; try contradiction; [|exact H1].
    destruct H1 as (f0 & Hx & Hne & Hnb & Hch).
    rewrite dq_step_eq, (to_append_single _ x f0 Hx Hne).
    rewrite join_fields_single.
    specialize (IH Hr (h ++ map make_unsplittable f0)).
    unfold wfield in *.
    destruct (dq_fold o e r [h ++ map make_unsplittable f0]) as [fs|c];
      destruct (dq_inner o e top r) as [b|c'];
      try contradiction; [|exact IH].
    destruct IH as (f' & Hfs & Hnb' & Hch').
    exists (map make_unsplittable f0 ++ f'). rewrite Hfs, <- app_assoc. split; [reflexivity|].
    rewrite no_brk_app, Hnb, Hnb', chars_of_app, Hch, Hch', field_str_app, field_str_map_make. auto.
Qed.

Lemma C1 top dq' p : sub_piece p = true ->
  single_ok (expand_piece o e dq' p) (piece_items o e top dq' p).
Proof.
  intros Hf. destruct p as [s|s|s|ps|t|pe|c|a|s];
    try (apply C1i; exact Hf).
  cbn [sub_piece] in Hf. rewrite expand_dq_eq, piece_items_dq. destruct ps as [|p0 r0].
  - cbn. exists [Unsplittable []]. repeat split; auto. discriminate.
  - rewrite (sub_no_zero e _ Hf). cbn [andb is_nil].
    cbn [forallb] in Hf. apply andb_true_iff in Hf as [Hp Hr].
    cbn [dq_fold dq_inner]. pose proof (C1i top true p0 Hp) as H1.
    destruct (expand_piece o e true p0) as [x|c]; destruct (piece_items o e top true p0) as [a|c'];
      cbn [single_ok] in H1 |- *; try contradiction; [|exact H1].
    destruct H1 as (f0 & Hx & Hne & Hnb & Hch).
    rewrite dq_step_eq, (to_append_single _ x f0 Hx Hne). rewrite join_fields_nil_l.
    pose proof (C2 top r0 Hr (map make_unsplittable f0)) as H2. unfold wfield in *.
    destruct (dq_fold o e r0 [map make_unsplittable f0]) as [fs|c]; destruct (dq_inner o e top r0) as [b|c'];
      cbn [single_ok]; try contradiction; [|exact H2].
    destruct H2 as (f' & Hfs & Hnb' & Hch'). cbn [fields].
    exists (map make_unsplittable f0 ++ f'). rewrite Hfs. split; [reflexivity|]. split.
    + destruct f0; [congruence|discriminate].
    + rewrite no_brk_app, Hnb, Hnb', chars_of_app, Hch, Hch', field_str_app, field_str_map_make. auto.
Qed.

Lemma C4a dq' w : sub_word w = true -> forall acc g, fields acc = [g] ->
  match expand_pieces o e dq' w, sub_items o e dq' w with
  | Ok xs, Ok l => exists f', fields (fold_left coalesce_step xs acc) = [g ++ f'] /\
                              no_brk l = true /\ chars_of l = field_str f'
  | Err c, Err c' => c = c'
  | _, _ => False
  end.
Proof.
  induction w as [|p r IH]; intros Hf acc g Hg; cbn [expand_pieces sub_items].
  - exists []. cbn. now rewrite app_nil_r.
  - cbn in Hf. apply andb_true_iff in Hf as [Hp Hr].
    pose proof (C1 false dq' p Hp) as H1. unfold bind.
    destruct (expand_piece o e dq' p) as [x|c]; destruct (piece_items o e false dq' p) as [a|c'];
      cbn [single_ok] in H1; try contradiction; [|exact H1].
    destruct H1 as (f0 & Hx & Hne & Hnb & Hch).
    assert (Hacc : fields (coalesce_step acc x) = [g ++ f0]).
    { cbn [coalesce_step fields]. rewrite Hg, Hx. reflexivity. }
    specialize (IH Hr (coalesce_step acc x) (g ++ f0) Hacc). unfold wfield in *.
    destruct (expand_pieces o e dq' r) as [xs|c]; destruct (sub_items o e dq' r) as [b|c'];
      try contradiction; [|exact IH].
    destruct IH as (f' & Hfs & Hnb' & Hch'). cbn [fold_left].
    exists (f0 ++ f'). rewrite Hfs, <- app_assoc. split; [reflexivity|].
    rewrite no_brk_app, Hnb, Hnb', chars_of_app, Hch, Hch', field_str_app. auto.
Qed.

Lemma C4 dq' p0 r0 : sub_word (p0 :: r0) = true ->
  match expand_pieces o e dq' (p0 :: r0), sub_items o e dq' (p0 :: r0) with
  | Ok xs, Ok l => exists f, fields (fold_left coalesce_step xs exp_default) = [f] /\ f <> [] /\
                             no_brk l = true /\ chars_of l = field_str f
  | Err c, Err c' => c = c'
  | _, _ => False
  end.
Proof.
  intros Hf. cbn in Hf. apply andb_true_iff in Hf as [Hp Hr]. cbn [expand_pieces sub_items].
  pose proof (C1 false dq' p0 Hp) as H1. unfold bind.
  destruct (expand_piece o e dq' p0) as [x|c]; destruct (piece_items o e false dq' p0) as [a|c'];
    cbn [single_ok] in H1; try contradiction; [|exact H1].
  destruct H1 as (f0 & Hx & Hne & Hnb & Hch).
  assert (Hacc : fields (coalesce_step exp_default x) = [f0]).
  { cbn [coalesce_step fields exp_default]. now rewrite Hx. }
  pose proof (C4a dq' r0 Hr (coalesce_step exp_default x) f0 Hacc) as H. unfold wfield in *.
  destruct (expand_pieces o e dq' r0) as [xs|c]; destruct (sub_items o e dq' r0) as [b|c'];
    try contradiction; [|exact H].
  destruct H as (f' & Hfs & Hnb' & Hch'). cbn [fold_left].
  exists (f0 ++ f'). rewrite Hfs. split; [reflexivity|]. split; [destruct f0; [congruence|discriminate]|].
  rewrite no_brk_app, Hnb, Hnb', chars_of_app, Hch, Hch', field_str_app. auto.
Qed.

(** the default word inside double quotes *)
Lemma pword_quoted q w : sub_word w = true ->
  agree sep (match pword o e true q w with Ok x => Ok (dq_out (ifs_joiner e) x) | Err c => Err c end)
            (sub_spec o e true q w).
Proof.
  intros Hf. unfold pword, sub_spec. destruct w as [|p0 r0].
  - cbn [sub_items agree]. rewrite (dq_out_single _ _ (Splittable [])) by reflexivity. apply equiv_refl.
  - pose proof (C4 (true && negb q) p0 r0 Hf) as H4. unfold sub_result.
    destruct (expand_pieces o e (true && negb q) (p0 :: r0)) as [xs|c];
      destruct (sub_items o e (true && negb q) (p0 :: r0)) as [l|c']; cbn [agree]; try contradiction; [|exact H4].
    destruct H4 as (f & Hx & Hne & Hnb & Hch).
    rewrite (dq_out_single_field _ _ f Hx Hne).
    eapply equiv_trans; [apply flat_mu_equiv; exact Hne|]. rewrite <- Hch.
    apply equiv_sym. now apply requote_equiv.
Qed.

Lemma D1 top pe : frag2_pexpr pe = true -> star_ok e ->
  (match pe with EPlain _ => False | _ => True end) ->
  agree sep (match expand_pexpr o e true pe with Ok x => Ok (dq_out (ifs_joiner e) x) | Err c => Err c end)
            (pexpr_items o e top true pe).
Proof.
  intros Hf Hstar Hnp. destruct pe as [p|p colon q w|p colon q w|p]; cbn [frag2_pexpr] in Hf;
    try discriminate; try contradiction.
  - apply andb_true_iff in Hf as [Hl Hw]. apply negb_true_iff in Hl.
    rewrite expand_default_eq, items_default_eq, (wins_eq e colon p Hl).
    destruct (uses_param e colon p).
    + cbn [agree]. unfold param_items. rewrite Hl, (expand_param_nonlist e p Hl).
      rewrite (dq_out_single _ _ (Splittable (match scalar_of e p with Some s => s | None => [] end))) by reflexivity.
      apply equiv_refl.
    + now apply pword_quoted.
  - apply andb_true_iff in Hf as [Hl Hw]. apply negb_true_iff in Hl.
    rewrite expand_alt_eq, items_alt_eq, (wins_eq e colon p Hl).
    destruct (uses_param e colon p).
    + now apply pword_quoted.
    + cbn [agree]. rewrite (dq_out_single _ _ (Splittable [])) by reflexivity. apply equiv_refl.
  - cbn [expand_pexpr pexpr_items agree]. rewrite poly_len_eq.
    rewrite (dq_out_single _ _ (Splittable (show_nat_str (len_of e p)))) by reflexivity. apply equiv_refl.
Qed.

End Sub3.

(** * Putting it together: the theorem of SpecProofs.v on the larger fragment *)

Section Main.
Variable o : oracles.
Variable e : env.

Lemma frag2_inner_cases p : frag2_inner p = true ->
  frag_inner p = true \/ exists pe, p = WParam pe /\ frag2_pexpr pe = true /\ match pe with EPlain _ => False | _ => True end.
Proof.
  destruct p as [| | | | |pe| | |]; cbn; auto; try discriminate.
  destruct pe; cbn; auto; intros H; right; eexists; repeat split; auto.
Qed.

Lemma E1x sep top p : frag2_inner p = true -> star_ok e ->
  agree sep (match expand_piece o e true p with Ok x => Ok (dq_out (ifs_joiner e) x) | Err c => Err c end)
            (piece_items o e top true p).
Proof.
  intros Hf Hstar. destruct (frag2_inner_cases p Hf) as [H|(pe & -> & Hpe & Hnp)].
  - now apply E1.
  - cbn [expand_piece piece_items]. now apply D1.
Qed.

Lemma E2x sep top ps : forallb frag2_inner ps = true -> star_ok e -> forall acc,
  agree sep (match dq_fold o e ps acc with Ok fs => Ok (flat fs) | Err c => Err c end)
            (match dq_inner o e top ps with Ok l => Ok (flat acc ++ l) | Err c => Err c end).
Proof.
  intros Hf Hstar. induction ps as [|p r IH]; intros acc; cbn [dq_fold dq_inner].
  - cbn. rewrite app_nil_r. apply equiv_refl.
  - cbn in Hf. apply andb_true_iff in Hf as [Hp Hr].
    pose proof (E1x sep top p Hp Hstar) as H1.
    destruct (expand_piece o e true p) as [x|c]; destruct (piece_items o e top true p) as [a|c']; cbn [agree] in H1;
      try contradiction; [|cbn; exact H1].
    specialize (IH Hr (dq_step (ifs_joiner e) acc x)).
    destruct (dq_fold o e r (dq_step (ifs_joiner e) acc x)) as [fs|c]; destruct (dq_inner o e top r) as [b|c'];
      cbn [agree] in IH |- *; try contradiction; [|exact IH].
    eapply equiv_trans; [exact IH|].
    rewrite dq_step_eq, flat_join_fields. rewrite <- !app_assoc.
    apply equiv_app; [apply equiv_refl|]. apply equiv_app; [exact H1 | apply equiv_refl].
Qed.

Lemma E3x sep p : frag2_piece p = true -> star_ok e -> dq_known o e p = false ->
  (match p with WText s => forallb (fun c => negb (mem c sep)) s | _ => true end) = true ->
  agree sep (match expand_piece o e false p with Ok x => Ok (flat (fields x)) | Err c => Err c end)
            (piece_items o e true false p).
Proof.
  intros Hf Hstar Hk Hlit.
  destruct p as [s|s|s|ps|t|pe|c|a|s]; try (apply E3; assumption).
  - cbn [frag2_piece] in Hf. rewrite expand_dq_eq, piece_items_dq.
    destruct ps as [|p0 r0].
    + cbn. apply equiv_refl.
    + pose proof (E2x sep true (p0 :: r0) Hf Hstar []) as H2.
      cbn [dq_known] in Hk.
      destruct (dq_fold o e (p0 :: r0) []) as [fs|c]; destruct (dq_inner o e true (p0 :: r0)) as [inner|c'];
        cbn [agree] in H2 |- *; try contradiction; [|exact H2].
      cbn [is_nil fields flat app] in H2 |- *.
      destruct (existsb (zero_list_piece e) (p0 :: r0) && only_marks inner) eqn:Hc; [|exact H2].
      cbn [andb] in Hk. destruct inner; [exact H2 | discriminate].
  - cbn [frag2_piece] in Hf. cbn [expand_piece piece_items]. now apply D3.
Qed.

Lemma E4x sep w : frag2 w = true -> star_ok e -> known_at_null o e w = false -> lit_ok sep w = true ->
  agree sep (match expand_pieces o e false w with
             | Ok xs => Ok (concat (map (fun x => flat (fields x)) xs)) | Err c => Err c end)
            (word_items o e w).
Proof.
  intros Hf Hstar. induction w as [|p r IH]; intros Hk Hlit; cbn [expand_pieces word_items].
  - cbn. apply equiv_refl.
  - cbn in Hf, Hk, Hlit. apply andb_true_iff in Hf as [Hp Hr]. apply orb_false_iff in Hk as [Hkp Hkr].
    apply andb_true_iff in Hlit as [Hlp Hlr].
    pose proof (E3x sep p Hp Hstar Hkp Hlp) as H3. unfold bind.
    destruct (expand_piece o e false p) as [x|c]; destruct (piece_items o e true false p) as [a|c'];
      cbn [agree] in H3 |- *; try contradiction; [|exact H3].
    specialize (IH Hr Hkr Hlr).
    destruct (expand_pieces o e false r) as [xs|c]; destruct (word_items o e r) as [b|c'];
      cbn [agree] in IH |- *; try contradiction; [|exact IH].
    cbn [map concat]. now apply equiv_app.
Qed.

(** fields_model_eq_spec2: as fields_model_eq_spec, the fragment now including ${p:-w} ${p-w}
    ${p:+w} ${p+w} with scalar p and list-free w, outside and inside double quotes *)
Theorem fields_model_eq_spec2 w :
  ifs_ws (ifs_of e) -> frag2 w = true -> lit_ok (ifs_of e) w = true ->
  known_at_null o e w = false -> star_ok e ->
  spec_fields o e w =
  match basic_expand o e w with
  | Ok x => Ok (map tagged (split_fields e x))
  | Err c => Err c
  end.
Proof.
  intros Hws Hf Hlit Hk Hstar. unfold spec_fields, basic_expand.
  destruct w as [|p r]; [reflexivity|].
  pose proof (E4x (ifs_of e) (p :: r) Hf Hstar Hk Hlit) as H4. unfold bind.
  destruct (expand_pieces o e false (p :: r)) as [xs|c]; destruct (word_items o e (p :: r)) as [l|c'];
    cbn [agree] in H4; try contradiction; [|now subst].
  f_equal. unfold split_fields, coalesce. rewrite <- (cut_flat (ifs_of e) Hws).
  rewrite flat_coalesce. cbn [exp_default fields flat map intercalate app].
  unfold cut. now rewrite (H4 st0).
Qed.

(** the smaller fragment is contained in the larger one *)
Lemma frag_frag2 w : frag w = true -> frag2 w = true.
Proof.
  assert (Hi : forall p, frag_inner p = true -> frag2_inner p = true).
  { intros [| | | | |[| | |]| | |]; cbn; auto; discriminate. }
  assert (Hl : forall ps, forallb frag_inner ps = true -> forallb frag2_inner ps = true).
  { induction ps as [|p r IH]; cbn; auto. intros H. apply andb_true_iff in H as [H1 H2]. now rewrite (Hi p H1), IH. }
  induction w as [|p r IH]; [reflexivity|]. intros H.
  change (frag (p :: r)) with (frag_piece p && frag r) in H. apply andb_true_iff in H as [H1 H2].
  change (frag2 (p :: r)) with (frag2_piece p && frag2 r). rewrite (IH H2), andb_true_r.
  destruct p as [| | |ps| |[| | |]| | |]; cbn in *; auto; discriminate.
Qed.

End Main.

(** non-vacuity: x unset, y="a b", IFS default: the word  pre${x:-$y "q r"}"${x:+z}${y:-d}"  is in the
    fragment and both sides give pre a b, "q r"-joined fields as bash does *)
Definition ex_default_env : env :=
  mkEnv [([121%N], VStr [97; 32; 98]%N)] [] None false false false false false.
Definition ex_default_word : word :=
  [WText [112]%N;
   WParam (EDefault (PNamed [120%N]) true false [WParam (EPlain (PNamed [121%N])); WDQ [WText [113; 32; 114]%N]]);
   WDQ [WParam (EAlt (PNamed [120%N]) true false [WDQ [WText [122%N]]]); WParam (EDefault (PNamed [121%N]) true false [WDQ [WText [100%N]]])]].

Lemma ex_default_in_fragment :
  frag2 ex_default_word = true /\ frag ex_default_word = false /\
  spec_fields ex_oracles0 ex_default_env ex_default_word =
    Ok [[(112, false); (97, false)]; [(98, false); (113, true); (32, true); (114, true); (97, true); (32, true); (98, true)]]%N.
Proof. repeat split; vm_compute; reflexivity. Qed.
