(** Brace expansion.
    Model: brush-core/src/braceexpansion.rs [generate_and_combine_brace_expansions] over the tree
    produced by brush_parser::word::parse_brace_expansions, and the string-level step of
    expansion.rs [brace_expand_if_needed]: the products are JOINED WITH A BLANK into one string
    which is then parsed and expanded as one word.
    Spec (bash manual, "Brace Expansion"): preamble x alternatives x postscript, left to right,
    nested; each result is a separate word, whatever IFS is. *)
From BV Require Import Base.Prelude gen.ExpandGen Expand.Model Expand.Proofs.

Inductive bnode := BText (s : str) | BExpr (ms : list bmember)
with bmember := BNum (a b i : Z) | BChr (a b : char) (i : Z) | BChild (l : list bnode).

(** * Sequences ({x..y[..incr]}), shared by model and specification; validated against bash by
    the correspondence.  (Overflow panics of the Rust iteration are C01's subject.) *)
Definition step_of (i : Z) : Z := let a := Z.abs i in if a =? 0 then 1 else a.
Definition num_seq (a b i : Z) : list Z :=
  let s := step_of i in
  if a <=? b then map (fun k => a + Z.of_nat k * s) (seq 0 (Z.to_nat ((b - a) / s) + 1))
  else map (fun k => a - Z.of_nat k * s) (seq 0 (Z.to_nat ((a - b) / s) + 1)).
Definition chr_seq (a b : char) (i : Z) : list str :=
  map (fun z => [Z.to_N z]) (num_seq (Z.of_N a) (Z.of_N b) i).

(** * Model *)

(** itertools::multi_cartesian_product: the leftmost component varies slowest *)
Fixpoint mcp (ls : list (list str)) : list (list str) :=
  match ls with
  | [] => [[]]
  | l :: r => flat_map (fun a => map (cons a) (mcp r)) l
  end.

Fixpoint gen_node (n : bnode) : list str :=
  match n with
  | BText t => [t]
  | BExpr ms => (fix gm (ms : list bmember) : list str :=
                   match ms with [] => [] | m :: r => gen_member m ++ gm r end) ms
  end
with gen_member (m : bmember) : list str :=
  match m with
  | BNum a b i => map show_Z (num_seq a b i)
  | BChr a b i => chr_seq a b i
  | BChild l => map (@concat char)
                  (mcp ((fix gl (l : list bnode) : list (list str) :=
                           match l with [] => [] | n :: r => gen_node n :: gl r end) l))
  end.

Definition gen_nodes (l : list bnode) : list str := map (@concat char) (mcp (map gen_node l)).

(** [may_contain_braces_to_expand] *)
Fixpoint may_contain_go (s : str) (last_dollar last_esc saw_open saw_close : bool) : bool :=
  match s with
  | [] => saw_open && saw_close
  | c :: r =>
      let is_open := negb last_dollar && N.eqb c 123 in
      let is_close := negb last_dollar && N.eqb c 125 in
      if is_close && saw_open then true
      else may_contain_go r (negb last_esc && N.eqb c 36) (N.eqb c 92)
                          (saw_open || is_open) (saw_close || is_close)
  end.
Definition may_contain_braces (s : str) : bool := may_contain_go s false false false false.

(** the join of [brace_expand_if_needed]; what happens to empty products is read from the Rust
    source on every run (gen/ExpandGen.v) *)
Definition DQUOTE2 : str := [34; 34]%N.
Definition brace_join (ws : list str) : str :=
  join_with [SP] (if brace_keeps_empty then map (fun w => if is_nil w then DQUOTE2 else w) ws
                  else filter nonempty ws).

(** the text handed to the word parser: [tree] is the result of parse_brace_expansions
    (None: no brace expression / parse error) *)
Definition brace_expand_text (enabled : bool) (text : str) (tree : option (list bnode)) : str :=
  if negb enabled || negb (may_contain_braces text) then text
  else match tree with
       | None => text
       | Some ns => brace_join (gen_nodes ns)
       end.

(** * Specification *)

(** every word: one of the alternatives of the first group followed by every word of the rest *)
Fixpoint spec_node (n : bnode) : list str :=
  match n with
  | BText t => [t]
  | BExpr ms => (fix alts (ms : list bmember) : list str :=
                   match ms with [] => [] | m :: r => spec_member m ++ alts r end) ms
  end
with spec_member (m : bmember) : list str :=
  match m with
  | BNum a b i => map show_Z (num_seq a b i)
  | BChr a b i => chr_seq a b i
  | BChild l => (fix words (l : list bnode) : list str :=
                   match l with
                   | [] => [[]]
                   | n :: r => flat_map (fun a => map (app a) (words r)) (spec_node n)
                   end) l
  end.

Fixpoint spec_words (l : list bnode) : list str :=
  match l with
  | [] => [[]]
  | n :: r => flat_map (fun a => map (app a) (spec_words r)) (spec_node n)
  end.

(** * brace_product_order: the model's products are the specification's words, in order *)

Fixpoint sprod (ls : list (list str)) : list str :=
  match ls with
  | [] => [[]]
  | l :: r => flat_map (fun a => map (app a) (sprod r)) l
  end.

Lemma mcp_sprod ls : map (@concat char) (mcp ls) = sprod ls.
Proof.
  induction ls as [|l r IH]; [reflexivity|]. cbn [mcp sprod]. rewrite <- IH.
  generalize (mcp r) as m. intros m. clear IH.
  induction l as [|a l IHl]; [reflexivity|].
  change (flat_map (fun a0 => map (cons a0) m) (a :: l)) with
    (map (cons a) m ++ flat_map (fun a0 => map (cons a0) m) l).
  change (flat_map (fun a0 => map (app a0) (map (@concat char) m)) (a :: l)) with
    (map (app a) (map (@concat char) m) ++ flat_map (fun a0 => map (app a0) (map (@concat char) m)) l).
  rewrite map_app. f_equal; [|exact IHl]. rewrite !map_map. reflexivity.
Qed.

Section NestedInd.
Variables (P : bnode -> Prop) (Q : bmember -> Prop).
Hypothesis HText : forall s, P (BText s).
Hypothesis HExpr : forall ms, Forall Q ms -> P (BExpr ms).
Hypothesis HNum : forall a b i, Q (BNum a b i).
Hypothesis HChr : forall a b i, Q (BChr a b i).
Hypothesis HChild : forall l, Forall P l -> Q (BChild l).

Fixpoint bnode_ind2 (n : bnode) : P n :=
  match n with
  | BText s => HText s
  | BExpr ms => HExpr ms ((fix go (ms : list bmember) : Forall Q ms :=
                             match ms with
                             | [] => Forall_nil _
                             | m :: r => Forall_cons _ (bmember_ind2 m) (go r)
                             end) ms)
  end
with bmember_ind2 (m : bmember) : Q m :=
  match m with
  | BNum a b i => HNum a b i
  | BChr a b i => HChr a b i
  | BChild l => HChild l ((fix go (l : list bnode) : Forall P l :=
                             match l with
                             | [] => Forall_nil _
                             | n :: r => Forall_cons _ (bnode_ind2 n) (go r)
                             end) l)
  end.
End NestedInd.

Lemma sprod_spec_words l : Forall (fun n => gen_node n = spec_node n) l ->
  sprod (map gen_node l) = spec_words l.
Proof.
  induction l as [|n r IH]; intros H; [reflexivity|]. inversion H; subst.
  cbn [map sprod spec_words]. now rewrite IH, H2.
Qed.

Lemma gen_node_spec n : gen_node n = spec_node n.
Proof.
  apply (bnode_ind2 (fun n => gen_node n = spec_node n) (fun m => gen_member m = spec_member m)).
  - reflexivity.
  - intros ms H. cbn [gen_node spec_node]. induction H as [|m r Hm Hr IH]; [reflexivity|]. now rewrite Hm, IH.
  - reflexivity.
  - reflexivity.
  - intros l H. cbn [gen_member spec_member].
    assert (E : (fix gl (l0 : list bnode) : list (list str) :=
                   match l0 with [] => [] | n0 :: r => gen_node n0 :: gl r end) l = map gen_node l).
    { clear. induction l; cbn; congruence. }
    rewrite E, mcp_sprod. rewrite (sprod_spec_words l H).
    clear. induction l as [|n r IH]; [reflexivity|]. cbn [spec_words]. now rewrite IH.
Qed.

Theorem brace_product_order l : gen_nodes l = spec_words l.
Proof.
  unfold gen_nodes. rewrite mcp_sprod. apply sprod_spec_words.
  apply Forall_forall. intros n _. apply gen_node_spec.
Qed.

(** * From products to fields *)

Section Fields.
Variable e : env.

Lemma segments_word_sep sep (w rest : str) :
  (forall c, In c w -> mem c sep = false) -> mem SP sep = true ->
  segments sep (w ++ SP :: rest) = w :: segments sep rest.
Proof.
  intros Hw Hsp. induction w as [|c r IH]; cbn [app segments].
  - now rewrite Hsp.
  - rewrite (Hw c (or_introl eq_refl)). rewrite IH by (intros c' Hc'; apply Hw; now right). reflexivity.
Qed.

Lemma segments_word_end sep (w : str) :
  (forall c, In c w -> mem c sep = false) -> segments sep w = [w].
Proof.
  intros Hw. induction w as [|c r IH]; [reflexivity|]. cbn [segments].
  rewrite (Hw c (or_introl eq_refl)). rewrite IH by (intros c' Hc'; apply Hw; now right). reflexivity.
Qed.

Definition clean_word (sep : str) (w : str) : Prop := w <> [] /\ forall c, In c w -> mem c sep = false.

Lemma ifs_split_join sep ws : mem SP sep = true -> Forall (clean_word sep) ws ->
  ifs_split sep (join_with [SP] ws) = ws.
Proof.
  intros Hsp H. unfold ifs_split. induction H as [|w r [Hne Hw] Hr IH]; [reflexivity|].
  destruct r as [|w2 r].
  - cbn [join_with]. rewrite segments_word_end by exact Hw. cbn. destruct w; [congruence|reflexivity].
  - change (join_with [SP] (w :: w2 :: r)) with (w ++ SP :: join_with [SP] (w2 :: r)).
    rewrite segments_word_sep by assumption. cbn [filter]. rewrite IH.
    destruct w; [congruence|reflexivity].
Qed.

(** brace_plain_blank_ifs: when IFS contains the blank, products that are non-empty and free of
    IFS characters come out as one field each — the join-and-resplit detour is invisible.
    (For products without expansion characters [basic_expand] yields [exp_of_str] of the joined
    text: the no-expansion-characters short cut.) *)
Theorem brace_plain_blank_ifs ws : mem SP (ifs_of e) = true -> Forall (clean_word (ifs_of e)) ws ->
  split_fields e (exp_of_str (join_with [SP] ws)) = map mk1 ws.
Proof.
  intros Hsp H. rewrite (split_fields_one_splittable e (join_with [SP] ws)) by reflexivity.
  now rewrite ifs_split_join.
Qed.

End Fields.

(** brace_refuted: IFS=newline and the word {a,b}: bash (the specification) gives the two words
    a and b; the model (the code) joins them with a blank, finds no IFS character in "a b" and
    delivers ONE field "a b". *)
Definition ex_brace_tree : list bnode := [BExpr [BChild [BText [97%N]]; BChild [BText [98%N]]]].
Definition ex_nl_env : env := mkEnv [] [] (Some [NL]) false false false false false.

Theorem brace_refuted :
  spec_words ex_brace_tree = [[97]; [98]]%N /\
  split_fields ex_nl_env (exp_of_str (brace_expand_text true [123; 97; 44; 98; 125]%N (Some ex_brace_tree)))
  = [[Splittable [97; 32; 98]%N]].
Proof. split; vm_compute; reflexivity. Qed.
