(** C04: what the Splittable/Unsplittable tagging guarantees, for all values, all IFS, all
    glob options and all oracles (directory contents, matcher, command output ...). *)
From BV Require Import Base.Prelude Expand.Model.

(** * Small facts *)

Definition is_uns (p : epiece) : bool := match p with Unsplittable _ => true | Splittable _ => false end.
Definition all_uns (f : wfield) : bool := forallb is_uns f.
Definition nonempty {A} (l : list A) : bool := negb (is_nil l).

Lemma field_str_app a b : field_str (a ++ b) = field_str a ++ field_str b.
Proof. unfold field_str. now rewrite map_app, concat_app. Qed.

Lemma all_uns_app a b : all_uns (a ++ b) = all_uns a && all_uns b.
Proof. unfold all_uns. apply forallb_app. Qed.

Lemma all_uns_map_make f : all_uns (map make_unsplittable f) = true.
Proof. induction f as [|p f IH]; cbn; auto. Qed.

Lemma field_str_map_make f : field_str (map make_unsplittable f) = field_str f.
Proof. unfold field_str. rewrite map_map. reflexivity. Qed.

(** * Field splitting leaves Unsplittable pieces alone *)

Lemma split_pieces_uns sep f : forall cur acc, all_uns f = true ->
  split_pieces sep f cur acc = (cur ++ f, acc).
Proof.
  induction f as [|p f IH]; intros cur acc H; cbn.
  - now rewrite app_nil_r.
  - destruct p as [s|s]; cbn in H; [|discriminate].
    rewrite IH by exact H. now rewrite <- app_assoc.
Qed.

Lemma flush_spec cur acc : flush cur acc = acc ++ (if nonempty cur then [cur] else []).
Proof. destruct cur; cbn; [now rewrite app_nil_r | reflexivity]. Qed.

Lemma split_loop_uns sep fs : forall acc, Forall (fun f => all_uns f = true) fs ->
  split_loop sep fs acc = acc ++ filter nonempty fs.
Proof.
  induction fs as [|f fs IH]; intros acc H; cbn.
  - now rewrite app_nil_r.
  - inversion H as [|? ? Hf Hfs]; subst.
    rewrite split_pieces_uns by exact Hf. cbn [app].
    rewrite IH by exact Hfs. rewrite flush_spec.
    destruct f; cbn; [now rewrite app_nil_r | now rewrite <- app_assoc].
Qed.

(** * Pathname expansion never looks into Unsplittable pieces *)

Section WithOracles.
Variable o : oracles.
Variable e : env.

Lemma piece_requires_uns f : all_uns f = true -> existsb (piece_requires o e) f = false.
Proof.
  induction f as [|p f IH]; cbn; auto.
  destruct p; cbn; [exact IH | discriminate].
Qed.

(** unsplittable_fields_skip_globbing: a field made of quoted pieces only is delivered as its
    text — whatever the directory contains, whatever nullglob/failglob/dotglob/extglob say. *)
Lemma expand_pathnames_uns f : all_uns f = true -> f <> [] ->
  expand_pathnames o e f = Ok [field_str f].
Proof.
  intros H Hne. unfold expand_pathnames, pattern_expand.
  destruct f as [|p f]; [congruence|].
  now rewrite piece_requires_uns by exact H.
Qed.

Lemma glob_fields_uns fs : Forall (fun f => all_uns f = true /\ f <> []) fs ->
  glob_fields o e fs = Ok (map field_str fs).
Proof.
  induction fs as [|f fs IH]; intros H; cbn; [reflexivity|].
  inversion H as [|? ? [Hf Hne] Hfs]; subst.
  rewrite expand_pathnames_uns by assumption.
  destruct (noglob e); cbn; rewrite IH by exact Hfs; reflexivity.
Qed.

Lemma filter_nonempty_forall (fs : list wfield) :
  Forall (fun f => all_uns f = true) fs ->
  Forall (fun f => all_uns f = true /\ f <> []) (filter nonempty fs).
Proof.
  induction fs as [|f fs IH]; intros H; cbn; [constructor|].
  inversion H; subst. destruct f; cbn; [now apply IH|].
  constructor; [split; [assumption|discriminate] | now apply IH].
Qed.

(** an expansion all of whose pieces are quoted goes through splitting and globbing unchanged
    (empty WordFields, which carry no piece at all, disappear) *)
Lemma split_glob_uns x : Forall (fun f => all_uns f = true) (fields x) ->
  glob_fields o e (split_fields e x) = Ok (map field_str (filter nonempty (fields x))).
Proof.
  intros H. unfold split_fields. rewrite split_loop_uns by exact H. cbn [app].
  apply glob_fields_uns. now apply filter_nonempty_forall.
Qed.

(** * Double quotes make everything Unsplittable *)

Lemma append_to_last_uns acc f : Forall (fun f => all_uns f = true) acc -> all_uns f = true ->
  Forall (fun f => all_uns f = true) (append_to_last acc f).
Proof.
  induction acc as [|a acc IH]; intros Ha Hf; cbn.
  - repeat constructor; assumption.
  - inversion Ha; subst. destruct acc as [|b acc'].
    + repeat constructor. rewrite all_uns_app. now rewrite H1, Hf.
    + constructor; [assumption|]. now apply IH.
Qed.

Lemma join_fields_uns acc fs : Forall (fun f => all_uns f = true) acc ->
  Forall (fun f => all_uns f = true) fs -> Forall (fun f => all_uns f = true) (join_fields acc fs).
Proof.
  intros Ha Hf. destruct fs as [|f r]; cbn; [assumption|].
  inversion Hf; subst. destruct acc as [|a acc']; [assumption|].
  apply Forall_app. split; [now apply append_to_last_uns | assumption].
Qed.

Lemma map_make_forall (fs : list wfield) :
  Forall (fun f => all_uns f = true) (map (map make_unsplittable) fs).
Proof. induction fs; cbn; constructor; auto using all_uns_map_make. Qed.

Lemma dq_step_uns j acc x : Forall (fun f => all_uns f = true) acc ->
  Forall (fun f => all_uns f = true) (dq_step j acc x).
Proof. intros H. unfold dq_step. apply join_fields_uns; [exact H | apply map_make_forall]. Qed.

(** the loop of process_double_quoted_pieces as a top-level function *)
Fixpoint dq_fold (ps : list wpiece) (acc : list wfield) : res (list wfield) :=
  match ps with
  | [] => Ok acc
  | p :: r => match expand_piece o e true p with
              | Ok x => dq_fold r (dq_step (ifs_joiner e) acc x)
              | Err c => Err c
              end
  end.

Lemma expand_dq_eq dq ps :
  expand_piece o e dq (WDQ ps) =
  match dq_fold ps [] with
  | Ok fs => Ok (mkExp (if is_nil ps then fs ++ [[Unsplittable []]] else fs) false false false)
  | Err c => Err c
  end.
Proof.
  cbn [expand_piece].
  match goal with |- match ?G ps [] with _ => _ end = _ =>
    assert (Hgo : forall l acc, G l acc = dq_fold l acc) end.
  { induction l as [|p l IH]; intros acc; cbn; [reflexivity|].
    destruct (expand_piece o e true p); [apply IH | reflexivity]. }
  now rewrite Hgo.
Qed.

Lemma dq_fold_uns ps : forall acc fs, Forall (fun f => all_uns f = true) acc ->
  dq_fold ps acc = Ok fs -> Forall (fun f => all_uns f = true) fs.
Proof.
  induction ps as [|p ps IH]; intros acc fs Ha H; cbn in H.
  - now inversion H; subst.
  - destruct (expand_piece o e true p) as [x|c]; [|discriminate].
    eapply IH; [|exact H]. now apply dq_step_uns.
Qed.

Lemma expand_dq_uns dq ps x : expand_piece o e dq (WDQ ps) = Ok x ->
  Forall (fun f => all_uns f = true) (fields x).
Proof.
  rewrite expand_dq_eq. destruct (dq_fold ps []) as [fs|c] eqn:Hf; [|discriminate].
  intros H; inversion H; subst; cbn.
  pose proof (dq_fold_uns ps [] fs (Forall_nil _) Hf) as Hu.
  destruct (is_nil ps); [|exact Hu].
  apply Forall_app; split; [exact Hu | repeat constructor].
Qed.

Lemma join_fields_nil_l fs : join_fields [] fs = fs.
Proof. now destruct fs. Qed.

Lemma basic_expand_single p x : expand_piece o e false p = Ok x ->
  exists y, basic_expand o e [p] = Ok y /\ fields y = fields x /\ concatenate y = concatenate x.
Proof.
  intros H. unfold basic_expand. cbn [expand_pieces bind]. rewrite H. cbn.
  eexists; split; [reflexivity|]. cbn. now rewrite join_fields_nil_l.
Qed.

(** dq_never_split_or_globbed — the mechanism behind every quoted form: whatever stands between
    the double quotes, the word yields exactly the fields that double-quote processing built;
    no IFS character, glob character or directory entry can change their number or content. *)
Theorem dq_never_split_or_globbed ps x : expand_piece o e false (WDQ ps) = Ok x ->
  full_expand o e [WDQ ps] = Ok (map field_str (filter nonempty (fields x))).
Proof.
  intros H. destruct (basic_expand_single _ _ H) as (y & Hy & Hf & _).
  unfold full_expand. rewrite Hy. cbn [bind].
  pose proof (expand_dq_uns _ _ _ H) as Hu. rewrite <- Hf in Hu.
  rewrite split_glob_uns by exact Hu. now rewrite Hf.
Qed.

(** * The quoted forms of the property *)

(** a parameter that expands to a single string (named, positional, indexed element, $#) *)
Definition scalar_value (p : param) : option str :=
  match p with
  | PNamed _ | PPos _ | PIdx _ _ | PCount =>
      match fields (expand_param e p) with [[Splittable s]] => Some s | _ => None end
  | _ => None
  end.

Lemma expand_param_scalar p : match p with PNamed _ | PPos _ | PIdx _ _ | PCount => True | _ => False end ->
  exists s, fields (expand_param e p) = [[Splittable s]] /\ concatenate (expand_param e p) = true.
Proof.
  destruct p as [n|n|c|n c|n i|]; intros H; try contradiction; cbn.
  - destruct (lookup (vars e) n) as [[s|[|s l]]|]; cbn; eauto.
  - destruct n as [|k]; cbn; eauto. destruct (nth_error (args e) k); cbn; eauto.
  - destruct (lookup (vars e) n) as [[s|l]|]; cbn; eauto.
    + destruct i; cbn; eauto.
    + destruct (nth_error l i); cbn; eauto.
  - eauto.
Qed.

Lemma dq_scalar_fields p s : fields (expand_param e p) = [[Splittable s]] ->
  concatenate (expand_param e p) = true ->
  expand_piece o e false (WDQ [WParam (EPlain p)]) =
  Ok (mkExp [[Unsplittable s]] false false false).
Proof.
  intros Hf Hc. rewrite expand_dq_eq. cbn [dq_fold expand_piece expand_pexpr].
  unfold dq_step. rewrite Hc, Hf. reflexivity.
Qed.

(** dq_param_exact: "$x" / "${x}" / "$1" / "${a[i]}" is exactly one argument holding the value,
    even when it is empty or unset (then the argument is the empty string). *)
Theorem dq_param_exact p s : fields (expand_param e p) = [[Splittable s]] ->
  concatenate (expand_param e p) = true ->
  full_expand o e [WDQ [WParam (EPlain p)]] = Ok [s].
Proof.
  intros Hf Hc. rewrite (dq_never_split_or_globbed _ _ (dq_scalar_fields p s Hf Hc)). cbn.
  now rewrite app_nil_r.
Qed.

Corollary dq_named_exact x v : lookup (vars e) x = Some (VStr v) ->
  full_expand o e [WDQ [WParam (EPlain (PNamed x))]] = Ok [v].
Proof. intros H. apply dq_param_exact; cbn; now rewrite H. Qed.

Corollary dq_unset_is_one_empty x : lookup (vars e) x = None ->
  full_expand o e [WDQ [WParam (EPlain (PNamed x))]] = Ok [[]].
Proof. intros H. apply dq_param_exact; cbn; now rewrite H. Qed.

(** arrays *)
Lemma map_make_singletons vs :
  map (map make_unsplittable) (map (fun v => [Splittable v]) vs) = map (fun v => [Unsplittable v]) vs.
Proof. induction vs as [|v vs IH]; [reflexivity|]. cbn [map make_unsplittable piece_str]. now rewrite IH. Qed.

Lemma filter_nonempty_singletons (vs : list str) :
  filter nonempty (map (fun v => [Unsplittable v]) vs) = map (fun v => [Unsplittable v]) vs.
Proof. induction vs as [|v vs IH]; [reflexivity|]. cbn [map filter]. unfold nonempty at 1. cbn [is_nil negb]. now rewrite IH. Qed.

Lemma field_str_singletons (vs : list str) : map field_str (map (fun v => [Unsplittable v]) vs) = vs.
Proof. induction vs as [|v vs IH]; [reflexivity|]. cbn [map]. rewrite IH. unfold field_str. cbn [map concat piece_str]. now rewrite app_nil_r. Qed.

(** the elements of the array-like parameter ($@, ${a[@]}) *)
Definition elements (p : param) : list str :=
  match p with
  | PAllPos _ => args e
  | PAllIdx n _ => match lookup (vars e) n with Some (VStr s) => [s] | Some (VArr l) => l | None => [] end
  | _ => []
  end.

Lemma expand_param_at p : match p with PAllPos false | PAllIdx _ false => True | _ => False end ->
  expand_param e p = exp_of_array (elements p) false.
Proof.
  destruct p as [n|n|[]|n []|n i|]; intros H; try contradiction; cbn; [reflexivity|].
  now destruct (lookup (vars e) n) as [[s|l]|].
Qed.

(** dq_array_exact: "${a[@]}" and "$@" are exactly the elements: as many arguments as there are
    elements (none for an empty list), each byte for byte. *)
Theorem dq_array_exact p : match p with PAllPos false | PAllIdx _ false => True | _ => False end ->
  full_expand o e [WDQ [WParam (EPlain p)]] = Ok (elements p).
Proof.
  intros Hp.
  assert (H : expand_piece o e false (WDQ [WParam (EPlain p)]) =
              Ok (mkExp (map (fun v => [Unsplittable v]) (elements p)) false false false)).
  { rewrite expand_dq_eq. cbn [dq_fold expand_piece expand_pexpr]. rewrite (expand_param_at p Hp).
    unfold dq_step, exp_of_array. cbn [concatenate fields is_nil].
    now rewrite join_fields_nil_l, map_make_singletons. }
  rewrite (dq_never_split_or_globbed _ _ H). cbn [fields].
  now rewrite filter_nonempty_singletons, field_str_singletons.
Qed.

(** "pre$@suf": only the first and the last element are extended *)
Definition affix (pre : str) (vs : list str) (suf : str) : list str :=
  match vs with
  | [] => [pre ++ suf]
  | [v] => [pre ++ v ++ suf]
  | v :: r => (pre ++ v) :: removelast r ++ [last r [] ++ suf]
  end.

Lemma append_to_last_snoc acc l f : append_to_last (acc ++ [l]) f = acc ++ [l ++ f].
Proof.
  induction acc as [|a acc IH]; [reflexivity|].
  destruct acc as [|b acc']; [reflexivity|].
  change ((a :: b :: acc') ++ [l]) with (a :: ((b :: acc') ++ [l])).
  change (append_to_last (a :: ((b :: acc') ++ [l])) f) with (a :: append_to_last ((b :: acc') ++ [l]) f).
  now rewrite IH.
Qed.

Theorem dq_array_affix p pre suf :
  match p with PAllPos false | PAllIdx _ false => True | _ => False end ->
  full_expand o e [WDQ [WText pre; WParam (EPlain p); WText suf]] = Ok (affix pre (elements p) suf).
Proof.
  intros Hp.
  assert (H : exists x, expand_piece o e false (WDQ [WText pre; WParam (EPlain p); WText suf]) = Ok x /\
                        map field_str (filter nonempty (fields x)) = affix pre (elements p) suf).
  { rewrite expand_dq_eq. cbn [dq_fold expand_piece expand_pexpr]. rewrite (expand_param_at p Hp).
    eexists; split; [reflexivity|]. cbn [fields is_nil].
    unfold dq_step at 3. cbn [exp_of_piece concatenate fields map intersperse_flat make_unsplittable piece_str join_fields].
    unfold dq_step at 2. unfold exp_of_array. cbn [concatenate fields]. rewrite map_make_singletons.
    destruct (elements p) as [|v vs]; cbn [map join_fields].
    - unfold dq_step; cbn. unfold field_str; cbn. now rewrite app_nil_r.
    - cbn [append_to_last app].
      destruct vs as [|v2 vs] using rev_ind.
      + unfold dq_step; cbn. unfold field_str; cbn. now rewrite app_nil_r.
      + clear IHvs. unfold dq_step.
        cbn [exp_of_piece concatenate fields map intersperse_flat make_unsplittable piece_str].
        rewrite map_app. cbn [map]. unfold join_fields.
        rewrite app_comm_cons, append_to_last_snoc. rewrite app_nil_r.
        rewrite filter_app, map_app. cbn [filter nonempty is_nil negb map].
        rewrite filter_nonempty_singletons, field_str_singletons.
        unfold field_str; cbn [map concat]. rewrite !app_nil_r.
        unfold affix. destruct (vs ++ [v2]) eqn:E; [now destruct vs|]. rewrite <- E.
        rewrite removelast_last, last_last. cbn. now rewrite !app_nil_r. }
  destruct H as (x & Hx & Ha). rewrite (dq_never_split_or_globbed _ _ Hx). now rewrite Ha.
Qed.

(** command substitution inside double quotes: the output minus NULs, minus exactly the trailing
    newlines *)
Theorem dq_cmdsub c :
  full_expand o e [WDQ [WCmd c]] = Ok [trim_trailing_nl (strip_nul (o_cmd o c))].
Proof.
  assert (H : expand_piece o e false (WDQ [WCmd c]) =
              Ok (mkExp [[Unsplittable (trim_trailing_nl (strip_nul (o_cmd o c)))]] false false false)).
  { rewrite expand_dq_eq. reflexivity. }
  rewrite (dq_never_split_or_globbed _ _ H). cbn. now rewrite app_nil_r.
Qed.

(** tilde_exact: the directory a tilde prefix stands for (HOME, PWD, OLDPWD, a user's home, a
    directory-stack entry) is one Unsplittable piece: whatever blanks, newlines or glob characters
    it holds, [~] is exactly one argument, that directory — and an assignment copies it exactly *)
Theorem tilde_exact t s : o_tilde o t = Some s ->
  full_expand o e [WTilde t] = Ok [s] /\ expand_to_str o e [WTilde t] = Ok s.
Proof.
  intros H. split.
  - unfold full_expand, basic_expand. cbn [expand_pieces expand_piece bind]. rewrite H. cbn [bind].
    unfold coalesce; cbn [fold_left].
    rewrite split_glob_uns by (cbn; repeat constructor). cbn. unfold field_str; cbn. now rewrite app_nil_r.
  - unfold expand_to_str, basic_expand. cbn [expand_pieces expand_piece bind]. rewrite H. cbn.
    unfold fields_to_string; cbn. now rewrite app_nil_r.
Qed.

(** the same with literal text behind it (~/x): the tilde part is never split or globbed; the
    characters of the result are the directory followed by the unquoted rest minus IFS characters
    (see split_only_removes_unquoted_ifs in SpecProofs.v for the general statement) *)

(** * Assignment: no splitting, no globbing, the value as it is *)

Theorem assign_exact p s : fields (expand_param e p) = [[Splittable s]] ->
  concatenate (expand_param e p) = true ->
  expand_to_str o e [WParam (EPlain p)] = Ok s /\
  expand_to_str o e [WDQ [WParam (EPlain p)]] = Ok s.
Proof.
  intros Hf Hc. split.
  - unfold expand_to_str, basic_expand. cbn [expand_pieces expand_piece expand_pexpr bind].
    unfold coalesce; cbn. rewrite join_fields_nil_l, Hf. unfold fields_to_string; cbn. now rewrite app_nil_r.
  - unfold expand_to_str, basic_expand. cbn [expand_pieces bind].
    rewrite (dq_scalar_fields p s Hf Hc). cbn. unfold fields_to_string; cbn. now rewrite app_nil_r.
Qed.

(** * Unquoted $x: only field splitting and pathname expansion *)

(** declarative field splitting: the segments between separator characters, empty ones dropped *)
Fixpoint segments (sep : str) (s : str) : list str :=
  match s with
  | [] => [[]]
  | c :: r => if mem c sep then [] :: segments sep r
              else match segments sep r with h :: t => (c :: h) :: t | [] => [[c]] end
  end.
Definition ifs_split (sep : str) (s : str) : list str := filter nonempty (segments sep s).

Lemma segments_cons sep s : exists h t, segments sep s = h :: t.
Proof.
  induction s as [|c r (h & t & IH)]; cbn; eauto.
  destruct (mem c sep); eauto. rewrite IH; eauto.
Qed.

Definition cur_of (t : str) : wfield := if is_nil t then [] else [Splittable t].
Definition mk1 (s : str) : wfield := [Splittable s].

Lemma push_char_cur t c : push_char (cur_of t) c = cur_of (t ++ [c]).
Proof.
  unfold cur_of. destruct t as [|a t]; cbn; [reflexivity|].
  destruct (t ++ [c]) eqn:E; reflexivity.
Qed.

Lemma cur_of_snoc_nonnil (t : str) c : is_nil (t ++ [c]) = false.
Proof. now destruct t. Qed.

Lemma split_chars_spec sep s : forall t acc h tl, segments sep s = h :: tl ->
  let '(cur, acc') := split_chars sep s (cur_of t) acc in
  flush cur acc' = acc ++ map mk1 (filter nonempty ((t ++ h) :: tl)).
Proof.
  induction s as [|c r IH]; intros t acc h tl Hs; cbn in Hs.
  - inversion Hs; subst. cbn [split_chars]. rewrite app_nil_r, flush_spec. unfold cur_of.
    destruct t; reflexivity.
  - cbn [split_chars]. destruct (mem c sep) eqn:Hm.
    + inversion Hs; subst. destruct (segments_cons sep r) as (h' & t' & Hr).
      specialize (IH [] (flush (cur_of t) acc) h' t' Hr). cbn [cur_of is_nil] in IH.
      change (cur_of []) with (@nil epiece) in IH.
      destruct (split_chars sep r [] (flush (cur_of t) acc)) as [cur acc'].
      rewrite IH, Hr, flush_spec, app_nil_r. unfold cur_of. cbn [app].
      destruct t; cbn; [now rewrite app_nil_r | now rewrite <- app_assoc].
    + destruct (segments_cons sep r) as (h' & t' & Hr). rewrite Hr in Hs. inversion Hs; subst.
      rewrite push_char_cur. specialize (IH (t ++ [c]) acc h' tl Hr).
      destruct (split_chars sep r (cur_of (t ++ [c])) acc) as [cur acc'].
      rewrite IH. now rewrite <- app_assoc.
Qed.

Lemma split_fields_one_splittable v x : fields x = [[Splittable v]] ->
  split_fields e x = map mk1 (ifs_split (ifs_of e) v).
Proof.
  intros Hf. unfold split_fields. rewrite Hf. cbn [split_loop split_pieces].
  destruct (segments_cons (ifs_of e) v) as (h & t & Hs).
  pose proof (split_chars_spec (ifs_of e) v [] [] h t Hs) as H. change (cur_of []) with (@nil epiece) in H.
  destruct (split_chars (ifs_of e) v [] []) as [cur acc']. cbn [split_pieces split_loop].
  rewrite H. unfold ifs_split. now rewrite Hs.
Qed.

(** pathname expansion of one unquoted string *)
Definition glob1 (s : str) : res (list str) :=
  if noglob e then Ok [s] else expand_pathnames o e [Splittable s].

Fixpoint concat_map_res (f : str -> res (list str)) (l : list str) : res (list str) :=
  match l with
  | [] => Ok []
  | s :: r => bind (f s) (fun a => bind (concat_map_res f r) (fun b => Ok (a ++ b)))
  end.

Lemma glob_fields_mk1 l : glob_fields o e (map mk1 l) = concat_map_res glob1 l.
Proof.
  induction l as [|s l IH]; cbn; [reflexivity|]. rewrite IH. unfold glob1, mk1.
  destruct (noglob e); cbn; [|reflexivity]. unfold field_str; cbn. now rewrite app_nil_r.
Qed.

(** unquoted_only_splits_and_globs: the characters of the value are never quote-removed,
    brace-, tilde- or command-expanded, never parsed: the value is cut at IFS characters and each
    part is handed to pathname expansion as it is. *)
Theorem unquoted_only_splits_and_globs p v : fields (expand_param e p) = [[Splittable v]] ->
  full_expand o e [WParam (EPlain p)] = concat_map_res glob1 (ifs_split (ifs_of e) v).
Proof.
  intros Hf. unfold full_expand, basic_expand. cbn [expand_pieces expand_piece expand_pexpr bind].
  unfold coalesce; cbn [fold_left]. rewrite (split_fields_one_splittable v) by (cbn; now rewrite join_fields_nil_l).
  apply glob_fields_mk1.
Qed.

(** with globbing off (set -f), or a value without glob characters, that is just the split *)
Corollary unquoted_noglob p v : fields (expand_param e p) = [[Splittable v]] -> noglob e = true ->
  full_expand o e [WParam (EPlain p)] = Ok (ifs_split (ifs_of e) v).
Proof.
  intros Hf Hn. rewrite (unquoted_only_splits_and_globs p v Hf).
  induction (ifs_split (ifs_of e) v) as [|s l IH]; cbn; [reflexivity|].
  unfold glob1 at 1. rewrite Hn. cbn. now rewrite IH.
Qed.

End WithOracles.

(** * Trailing-newline stripping is exact *)

Lemma drop_leading_nl_spec s : exists n, s = repeat NL n ++ drop_leading_nl s /\
  match drop_leading_nl s with c :: _ => c <> NL | [] => True end.
Proof.
  induction s as [|c r (n & H1 & H2)]; cbn.
  - exists O; split; auto.
  - destruct (N.eqb c NL) eqn:E.
    + apply N.eqb_eq in E; subst. exists (S n); cbn; split; [now f_equal | exact H2].
    + exists O; cbn; split; [reflexivity|]. now apply N.eqb_neq.
Qed.

(** strip_exactly_trailing_newlines: the result is the output with some number of newlines
    removed from the end, and does not itself end in a newline *)
Theorem trim_trailing_nl_spec s : exists n, s = trim_trailing_nl s ++ repeat NL n /\
  (forall t, trim_trailing_nl s <> t ++ [NL]).
Proof.
  unfold trim_trailing_nl. destruct (drop_leading_nl_spec (rev s)) as (n & H1 & H2).
  exists n. split.
  - apply (f_equal (@rev char)) in H1. rewrite rev_involutive, rev_app_distr in H1.
    rewrite H1 at 1. f_equal. clear. induction n; cbn; [reflexivity|].
    rewrite IHn. clear. induction n; cbn; congruence.
  - intros t Ht. apply (f_equal (@rev char)) in Ht. rewrite rev_involutive, rev_app_distr in Ht. cbn in Ht.
    rewrite Ht in H2. now apply H2.
Qed.

Lemma strip_nul_spec s : ~ In 0%N s -> strip_nul s = s.
Proof.
  induction s as [|c r IH]; cbn; intros H; [reflexivity|].
  destruct (N.eqb c 0) eqn:E; [apply N.eqb_eq in E; subst; tauto|]. cbn. f_equal. tauto.
Qed.

(** * Non-vacuity: a concrete environment in which the hypotheses hold and the difference
    between quoted and unquoted is visible (directory with entries the value matches,
    nullglob on, value with blanks and a star) *)
From BV Require Import Expand.GlobRef.
Definition ex_names : list str := [[97]; [97; 98]; [42]]%N.                 (* a ab '*' *)
Definition ex_oracles : oracles :=
  mkOr (fun _ => []) (fun _ => []) (fun _ => None) (fun s => s) req (dirglob ex_names).
Definition ex_value : str := [32; 42; 32; 97; 42]%N.                          (* " * a*" *)
Definition ex_env : env := mkEnv [([120%N], VStr ex_value)] [] None false true false false false.

Lemma ex_quoted : full_expand ex_oracles ex_env [WDQ [WParam (EPlain (PNamed [120%N]))]] = Ok [ex_value].
Proof. apply dq_named_exact. reflexivity. Qed.

Lemma ex_unquoted : full_expand ex_oracles ex_env [WParam (EPlain (PNamed [120%N]))] =
  Ok [[42]; [97]; [97; 98]; [97]; [97; 98]]%N.
Proof. vm_compute. reflexivity. Qed.
