(** C19 — the cursor only influences kinds: the ranges of the spans do not depend on it.
    (Supports enumerating long lines with one cursor each: the property is about ranges.) *)
From BV Require Import Base.Prelude Hl.Spans.
Local Open Scope nat_scope.

Definition shape (c : call) : option (nat * nat) :=
  match c with Append _ s e => Some (s, e) | SetMissing _ => None end.
Definition range (x : span) : nat * nat := (sstart x, send x).

Scheme piece_mind2 := Induction for piece Sort Prop
  with pieces_mind2 := Induction for pieces Sort Prop
  with prog_mind2 := Induction for prog Sort Prop
  with tokens_mind2 := Induction for tokens Sort Prop.
Combined Scheme tree_mutind2 from piece_mind2, pieces_mind2, prog_mind2, tokens_mind2.

Lemma calls_shape c1 c2 :
  (forall p dk1 dk2 g, map shape (piece_calls c1 dk1 g p) = map shape (piece_calls c2 dk2 g p))
  /\ (forall ps dk1 dk2 g, map shape (pieces_calls c1 dk1 g ps) = map shape (pieces_calls c2 dk2 g ps))
  /\ (forall p line off, map shape (prog_calls c1 line off p) = map shape (prog_calls c2 line off p))
  /\ (forall ts line off saw1 saw2,
        map shape (toks_calls c1 line off saw1 ts) = map shape (toks_calls c2 line off saw2 ts)).
Proof.
  apply tree_mutind2.
  - intros l s e dk1 dk2 g. reflexivity.
  - intros s e subs IH dk1 dk2 g. cbn [piece_calls map shape skip]. rewrite !map_app, (IH KQuoted KQuoted g). reflexivity.
  - intros bq s e cmd p IH dk1 dk2 g. cbn [piece_calls map shape skip]. rewrite !map_app, IH. reflexivity.
  - reflexivity.
  - intros p IHp ps IHps dk1 dk2 g. cbn [pieces_calls]. rewrite !map_app, (IHp dk1 dk2 g), (IHps dk1 dk2 g). reflexivity.
  - reflexivity.
  - intros ts IH line off. cbn [prog_calls]. rewrite !map_app, (IH line off false false). reflexivity.
  - reflexivity.
  - intros sc ec rest IH line off saw1 saw2. cbn [toks_calls map shape]. rewrite (IH line off saw1 saw2). reflexivity.
  - intros sc ec f ps IHps rest IH line off saw1 saw2. cbn [toks_calls].
    destruct (kind_for_word c1 f _ _ saw1) as [dk1 s1]. destruct (kind_for_word c2 f _ _ saw2) as [dk2 s2].
    rewrite !map_app, (IHps dk1 dk2 _), (IH line off s1 s2). reflexivity.
  - intros sc ec rest IH line off saw1 saw2. cbn [toks_calls]. apply IH.
Qed.

Definition same (a b : bst) : Prop := map range (b_spans a) = map range (b_spans b) /\ b_cur a = b_cur b.

Lemma push_range_same a b k1 k2 s e : same a b -> same (push_range a k1 s e) (push_range b k2 s e).
Proof.
  intros [Hs Hc]. unfold same, push_range. cbn [b_spans b_cur]. rewrite Hc. split; [|reflexivity].
  destruct (b_cur b <? s); destruct (s <? e); rewrite ?map_app, ?Hs; cbn [map range sstart send fst snd]; reflexivity.
Qed.

Lemma step_same clamp top a b c1 c2 : same a b -> shape c1 = shape c2 ->
  match step_gen clamp top a c1, step_gen clamp top b c2 with
  | Some a', Some b' => same a' b'
  | None, None => True
  | _, _ => False
  end.
Proof.
  intros Hab Hsh. destruct c1 as [k1 s1 e1 | k1]; destruct c2 as [k2 s2 e2 | k2]; cbn [shape] in Hsh; try discriminate.
  - inversion Hsh; subst. cbn [step_gen]. unfold append_span_gen.
    destruct (negb (is_boundary top s2)); [exact I|]. destruct (negb (is_boundary top e2)); [exact I|].
    cbv zeta. destruct Hab as [Hs Hc]. rewrite Hc. apply push_range_same. split; assumption.
  - cbn [step_gen]. exact Hab.
Qed.

Lemma run_same clamp top cs1 : forall cs2 a b, same a b -> map shape cs1 = map shape cs2 ->
  match run_calls_gen clamp top a cs1, run_calls_gen clamp top b cs2 with
  | Some a', Some b' => same a' b'
  | None, None => True
  | _, _ => False
  end.
Proof.
  induction cs1 as [|c1 cs1 IH]; intros [|c2 cs2] a b Hab Hm; cbn [map] in Hm; try discriminate.
  - cbn. exact Hab.
  - inversion Hm as [[H1 H2]]. cbn [run_calls_gen].
    pose proof (step_same clamp top a b c1 c2 Hab H1) as Hst.
    destruct (step_gen clamp top a c1) as [a'|]; destruct (step_gen clamp top b c2) as [b'|]; try contradiction.
    + apply IH; assumption.
    + exact I.
Qed.

Theorem ranges_cursor_independent clamp top c1 c2 p :
  option_map (map range) (highlight_gen clamp top c1 p) = option_map (map range) (highlight_gen clamp top c2 p).
Proof.
  unfold highlight_gen.
  destruct (calls_shape c1 c2) as (_ & _ & Hp & _).
  pose proof (run_same clamp top _ _ bst0 bst0 (conj eq_refl eq_refl) (Hp p top 0)) as H.
  destruct (run_calls_gen clamp top bst0 (prog_calls c1 top 0 p)) as [a|];
    destruct (run_calls_gen clamp top bst0 (prog_calls c2 top 0 p)) as [b|]; try contradiction.
  - cbn. f_equal. apply H.
  - reflexivity.
Qed.
