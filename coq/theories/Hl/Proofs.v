(** C19 — proofs: the span builder of Hl/Spans.v satisfies the property of Hl/Spec.v. *)
From Coq Require Import Sorted.
From BV Require Import Base.Prelude Hl.Spans Hl.Spec.
Local Open Scope nat_scope.

Arguments utf8_len : simpl never.

(** [lia] with division/modulo by constants (only used by [utf8_enc_shape]) *)
Ltac lia_div := zify; Z.to_euclidean_division_equations; lia.

(** * UTF-8 lengths, the offset table, char boundaries *)

Lemma utf8_len_pos c : 1 <= utf8_len c.
Proof. unfold utf8_len. repeat match goal with |- context [if ?b then _ else _] => destruct b end; lia. Qed.

Lemma length_utf8_enc c : length (utf8_enc c) = utf8_len c.
Proof.
  unfold utf8_enc, utf8_len.
  repeat match goal with |- context [if ?b then _ else _] => destruct b end; reflexivity.
Qed.

Lemma utf8_app a b : utf8 (a ++ b) = utf8 a ++ utf8 b.
Proof. unfold utf8. apply flat_map_app. Qed.

Lemma blen_app a b : blen (a ++ b) = blen a + blen b.
Proof. induction a as [|c a IH]; cbn [blen app]; [reflexivity | rewrite IH; lia]. Qed.

Lemma length_utf8 s : length (utf8 s) = blen s.
Proof.
  induction s as [|c s IH]; [reflexivity|].
  change (utf8 (c :: s)) with (utf8_enc c ++ utf8 s).
  rewrite app_length, length_utf8_enc, IH. reflexivity.
Qed.

(** the first byte of an encoded char is not a continuation byte, the others are *)
Lemma utf8_enc_shape c :
  exists b r, utf8_enc c = b :: r /\ is_cont b = false /\ Forall (fun x => is_cont x = true) r.
Proof.
  unfold utf8_enc.
  destruct (c <? 128)%N eqn:H1.
  { exists c, []. split; [reflexivity|]. split; [|constructor].
    unfold is_cont. apply N.ltb_lt in H1. apply andb_false_iff. left. apply N.leb_gt. exact H1. }
  destruct (c <? 2048)%N eqn:H2.
  { eexists _, _. split; [reflexivity|]. apply N.ltb_lt in H2. apply N.ltb_ge in H1. split.
    - unfold is_cont. apply andb_false_iff. right. apply N.ltb_ge. lia_div.
    - repeat constructor. unfold is_cont. apply andb_true_iff. split.
      + apply N.leb_le. lia_div.
      + apply N.ltb_lt. pose proof (N.mod_lt c 64). lia_div. }
  destruct (c <? 65536)%N eqn:H3.
  { eexists _, _. split; [reflexivity|]. split.
    - unfold is_cont. apply andb_false_iff. right. apply N.ltb_ge. lia_div.
    - repeat constructor; unfold is_cont; apply andb_true_iff; split;
        try (apply N.leb_le; lia_div); apply N.ltb_lt.
      + pose proof (N.mod_lt (c / 64) 64). lia_div.
      + pose proof (N.mod_lt c 64). lia_div. }
  eexists _, _. split; [reflexivity|]. split.
  - unfold is_cont. apply andb_false_iff. right. apply N.ltb_ge. lia_div.
  - repeat constructor; unfold is_cont; apply andb_true_iff; split;
      try (apply N.leb_le; lia_div); apply N.ltb_lt.
    + pose proof (N.mod_lt (c / 4096) 64). lia_div.
    + pose proof (N.mod_lt (c / 64) 64). lia_div.
    + pose proof (N.mod_lt c 64). lia_div.
Qed.

(** [bnd line b]: [b] is the byte length of a prefix (in characters) of [line] *)
Definition bnd (line : str) (b : nat) : Prop := exists a c, line = a ++ c /\ blen a = b.

Lemma bnd_0 line : bnd line 0.
Proof. exists [], line. split; reflexivity. Qed.

Lemma bnd_len line : bnd line (blen line).
Proof. exists line, []. split; [symmetry; apply app_nil_r | reflexivity]. Qed.

Lemma bnd_le line b : bnd line b -> b <= blen line.
Proof. intros (a & c & -> & <-). rewrite blen_app. lia. Qed.

Lemma nth_error_offsets_from s : forall b i,
  nth_error (offsets_from b s) i = if i <=? length s then Some (b + blen (firstn i s)) else None.
Proof.
  induction s as [|c s IH]; intros b i.
  - destruct i as [|i]; cbn; [f_equal; lia|]. destruct i; reflexivity.
  - destruct i as [|i]; cbn [offsets_from nth_error length firstn blen].
    + cbn. f_equal. lia.
    + rewrite IH. change (S i <=? S (length s)) with (i <=? length s).
      destruct (i <=? length s); [f_equal; lia | reflexivity].
Qed.

Lemma byte_offset_firstn line ci : byte_offset line ci = blen (firstn ci line).
Proof.
  unfold byte_offset, offsets. rewrite nth_error_offsets_from.
  destruct (ci <=? length line) eqn:E; [reflexivity|].
  apply Nat.leb_gt in E. rewrite firstn_all2 by lia. reflexivity.
Qed.

Lemma bnd_byte_offset line ci : bnd line (byte_offset line ci).
Proof.
  rewrite byte_offset_firstn. exists (firstn ci line), (skipn ci line).
  split; [symmetry; apply firstn_skipn | reflexivity].
Qed.

Lemma blen_firstn_mono l : forall i j, i <= j -> blen (firstn i l) <= blen (firstn j l).
Proof.
  induction l as [|c l IH]; intros i j Hij.
  - rewrite !firstn_nil. lia.
  - destruct i as [|i]; [cbn; lia|]. destruct j as [|j]; [lia|].
    cbn [firstn blen]. specialize (IH i j). lia.
Qed.

Lemma byte_offset_mono line i j : i <= j -> byte_offset line i <= byte_offset line j.
Proof. intros H. rewrite !byte_offset_firstn. apply blen_firstn_mono. exact H. Qed.

Lemma byte_offset_le line i : byte_offset line i <= blen line.
Proof. apply bnd_le, bnd_byte_offset. Qed.

Lemma byte_offset_0 line : byte_offset line 0 = 0.
Proof. rewrite byte_offset_firstn. reflexivity. Qed.

Lemma in_offsets_from s : forall b i,
  In i (offsets_from b s) <-> exists a c, s = a ++ c /\ b + blen a = i.
Proof.
  induction s as [|ch s IH]; intros b i; cbn [offsets_from In].
  - split.
    + intros [<- | []]. exists [], []. split; [reflexivity | cbn; lia].
    + intros (a & c & H & <-). destruct a; [cbn; left; lia | discriminate].
  - rewrite IH. split.
    + intros [<- | (a & c & -> & <-)].
      * exists [], (ch :: s). split; [reflexivity | cbn; lia].
      * exists (ch :: a), c. split; [reflexivity | cbn [blen]; lia].
    + intros (a & c & H & <-). destruct a as [|x a].
      * left. cbn. lia.
      * right. cbn [app] in H. inversion H; subst. exists a, c. split; [reflexivity | cbn [blen]; lia].
Qed.

Lemma is_boundary_bnd line i : is_boundary line i = true <-> bnd line i.
Proof.
  unfold is_boundary, offsets, bnd. rewrite existsb_exists. split.
  - intros (x & Hin & Hx). apply Nat.eqb_eq in Hx. subst x.
    apply in_offsets_from in Hin. destruct Hin as (a & c & H1 & H2). exists a, c. split; [exact H1 | lia].
  - intros (a & c & H1 & H2). exists i. split; [|apply Nat.eqb_refl].
    apply in_offsets_from. exists a, c. split; [exact H1 | lia].
Qed.

(** table offsets are char boundaries in the sense of [str::is_char_boundary] *)
Lemma bnd_is_cb line i : bnd line i -> is_cb (utf8 line) i = true.
Proof.
  intros (a & c & -> & <-). unfold is_cb.
  destruct (blen a =? 0) eqn:E0; [reflexivity|].
  rewrite utf8_app, nth_error_app2 by (rewrite length_utf8; lia).
  rewrite length_utf8, Nat.sub_diag.
  destruct c as [|ch c].
  - cbn. rewrite app_nil_r, length_utf8. apply Nat.eqb_refl.
  - change (utf8 (ch :: c)) with (utf8_enc ch ++ utf8 c).
    destruct (utf8_enc_shape ch) as (b & r & -> & Hb & _). cbn. rewrite Hb. reflexivity.
Qed.

Lemma is_cb_bnd line : forall i, is_cb (utf8 line) i = true -> bnd line i.
Proof.
  induction line as [|ch l IH]; intros i H.
  - unfold is_cb in H. destruct (i =? 0) eqn:E0.
    + apply Nat.eqb_eq in E0. subst. apply bnd_0.
    + cbn in H. destruct i; [discriminate|]. cbn in H. discriminate.
  - unfold is_cb in H. destruct (i =? 0) eqn:E0.
    { apply Nat.eqb_eq in E0. subst. apply bnd_0. }
    apply Nat.eqb_neq in E0.
    change (utf8 (ch :: l)) with (utf8_enc ch ++ utf8 l) in H.
    destruct (Nat.lt_ge_cases i (utf8_len ch)) as [Hlt | Hge].
    + (* inside the encoding of [ch]: a continuation byte *)
      exfalso. pose proof (length_utf8_enc ch) as Hl.
      rewrite nth_error_app1 in H by lia.
      destruct (utf8_enc_shape ch) as (b & r & Hs & _ & Hr). rewrite Hs in H, Hl.
      destruct i as [|i]; [lia|]. cbn in H.
      destruct (nth_error r i) eqn:En.
      * apply nth_error_In in En. rewrite Forall_forall in Hr. rewrite (Hr _ En) in H. discriminate.
      * apply nth_error_None in En. cbn in Hl. lia.
    + pose proof (length_utf8_enc ch) as Hl.
      rewrite nth_error_app2 in H by lia. rewrite Hl, app_length, Hl in H.
      assert (Hb : bnd l (i - utf8_len ch)).
      { apply IH. unfold is_cb. destruct (i - utf8_len ch =? 0) eqn:E1; [reflexivity|].
        destruct (nth_error (utf8 l) (i - utf8_len ch)); [exact H|].
        apply Nat.eqb_eq in H. apply Nat.eqb_eq. lia. }
      destruct Hb as (a & c & -> & Hb). exists (ch :: a), c. split; [reflexivity|]. cbn [blen]. lia.
Qed.

(** the model's boundary test is the standard library's *)
Lemma is_boundary_is_cb line i : is_boundary line i = is_cb (utf8 line) i.
Proof.
  destruct (is_cb (utf8 line) i) eqn:E.
  - apply is_boundary_bnd, is_cb_bnd, E.
  - destruct (is_boundary line i) eqn:E2; [|reflexivity].
    apply is_boundary_bnd, bnd_is_cb in E2. congruence.
Qed.

Lemma byte_offset_aligned line ci : is_cb (utf8 line) (byte_offset line ci) = true.
Proof. apply bnd_is_cb, bnd_byte_offset. Qed.

(** * From contiguity to the full property *)

Lemma contiguous_bounds sp : forall a b, contiguous a sp b -> Forall (fun x => sstart x <= send x) sp ->
  a <= b /\ forall x, In x sp -> a <= sstart x /\ send x <= b.
Proof.
  induction sp as [|y r IH]; intros a b Hc Hv; cbn [contiguous] in Hc.
  - subst. split; [lia | intros x []].
  - destruct Hc as [Hs Hc]. inversion Hv as [|? ? Hy Hr]; subst.
    destruct (IH _ _ Hc Hr) as [Hab Hin]. split; [lia|].
    intros x [<- | Hx]; [lia|]. specialize (Hin x Hx). lia.
Qed.

Lemma contiguous_snoc sp : forall a x b,
  contiguous a (sp ++ [x]) b <-> contiguous a sp (sstart x) /\ send x = b.
Proof.
  induction sp as [|y r IH]; intros a x b; cbn [app contiguous].
  - split; [intros [H1 H2]; split; [symmetry; exact H1 | exact H2] | intros [H1 H2]; split; [symmetry; exact H1 | exact H2]].
  - rewrite IH. tauto.
Qed.

Lemma firstn_skipn_add {A} (l : list A) : forall n m, firstn n l ++ firstn m (skipn n l) = firstn (n + m) l.
Proof.
  induction l as [|x l IH]; intros n m.
  - rewrite skipn_nil, !firstn_nil. reflexivity.
  - destruct n as [|n]; [reflexivity|]. cbn [firstn skipn plus app]. rewrite IH. reflexivity.
Qed.

Lemma skipn_add {A} (l : list A) : forall n m, skipn m (skipn n l) = skipn (n + m) l.
Proof.
  induction l as [|x l IH]; intros n m.
  - rewrite !skipn_nil. reflexivity.
  - destruct n as [|n]; [reflexivity|]. cbn [skipn plus]. apply IH.
Qed.

Lemma slice_app bs a m b : a <= m -> m <= b -> slice bs a m ++ slice bs m b = slice bs a b.
Proof.
  intros H1 H2. unfold slice.
  replace (skipn m bs) with (skipn (m - a) (skipn a bs)) by (rewrite skipn_add; f_equal; lia).
  rewrite firstn_skipn_add. f_equal. lia.
Qed.

Lemma text_valid bs x : span_valid bs x -> text bs x = slice bs (sstart x) (send x).
Proof.
  intros (H1 & H2 & H3 & H4). unfold text, get.
  rewrite H3, H4. apply Nat.leb_le in H1, H2. rewrite H1, H2. reflexivity.
Qed.

Lemma render_contiguous bs sp : forall a b, contiguous a sp b -> Forall (span_valid bs) sp ->
  render bs sp = slice bs a b.
Proof.
  induction sp as [|x r IH]; intros a b Hc Hv; cbn [contiguous] in Hc.
  - subst. unfold render, slice. rewrite Nat.sub_diag. reflexivity.
  - destruct Hc as [Hs Hc]. inversion Hv as [|? ? Hx Hr]; subst.
    unfold render in *. cbn [flat_map]. rewrite (IH _ _ Hc Hr), text_valid by exact Hx.
    assert (Hle : Forall (fun y => sstart y <= send y) r).
    { eapply Forall_impl; [|exact Hr]. intros y Hy. apply Hy. }
    destruct (contiguous_bounds _ _ _ Hc Hle) as [Hb _].
    apply slice_app; [apply Hx | exact Hb].
Qed.

Lemma contiguous_sorted sp : forall a b, contiguous a sp b -> Forall (fun x => sstart x <= send x) sp ->
  StronglySorted (fun x y => send x <= sstart y) sp.
Proof.
  induction sp as [|x r IH]; intros a b Hc Hv; [constructor|].
  cbn [contiguous] in Hc. destruct Hc as [Hs Hc]. inversion Hv as [|? ? Hx Hr]; subst.
  constructor; [eapply IH; eassumption|].
  destruct (contiguous_bounds _ _ _ Hc Hr) as [_ Hin].
  apply Forall_forall. intros y Hy. apply Hin, Hy.
Qed.

Lemma contiguous_covers sp : forall a b, contiguous a sp b ->
  forall i, a <= i < b -> exists x, In x sp /\ sstart x <= i < send x.
Proof.
  induction sp as [|x r IH]; intros a b Hc i Hi; cbn [contiguous] in Hc.
  - lia.
  - destruct Hc as [Hs Hc]. destruct (Nat.lt_ge_cases i (send x)) as [Hlt | Hge].
    + exists x. split; [left; reflexivity | lia].
    + destruct (IH _ _ Hc i) as (y & Hy & Hyi); [lia|]. exists y. split; [right; exact Hy | exact Hyi].
Qed.

Theorem spec_core_spec line sp : spec_core line sp -> spec line sp.
Proof.
  intros [Hv Hc]. unfold spec.
  assert (Hle : Forall (fun y => sstart y <= send y) sp).
  { eapply Forall_impl; [|exact Hv]. intros y Hy. apply Hy. }
  split; [exact Hv|]. split; [eapply contiguous_sorted; eassumption|]. split; [exact Hc|]. split.
  - intros i Hi. eapply contiguous_covers; [exact Hc | lia].
  - rewrite (render_contiguous _ _ _ _ Hc Hv). unfold slice. rewrite Nat.sub_0_r. cbn [skipn].
    apply firstn_all.
Qed.

Lemma spec_spec_core line sp : spec line sp -> spec_core line sp.
Proof. intros (H1 & _ & H3 & _). split; assumption. Qed.

(** the decidable form used by the runner *)
Lemma andc_0 a b : andc a b = 0 <-> a = 0 /\ b = 0.
Proof. unfold andc. destruct a; cbn; [tauto | split; [discriminate | intros [H _]; discriminate]]. Qed.

Lemma chk_0 b n : chk b (S n) = 0 <-> b = true.
Proof. unfold chk. destruct b; split; congruence. Qed.

Lemma valid_code_0 bs x : valid_code bs x = 0 <-> span_valid bs x.
Proof.
  unfold valid_code, span_valid. rewrite !andc_0, !chk_0, !Nat.leb_le. tauto.
Qed.

Lemma contig_code_0 bs sp : forall a,
  contig_code bs a sp = 0 <-> Forall (span_valid bs) sp /\ contiguous a sp (length bs).
Proof.
  induction sp as [|x r IH]; intros a; cbn [contig_code contiguous].
  - rewrite chk_0, Nat.eqb_eq. split; [intros H; split; [constructor | exact H] | intros [_ H]; exact H].
  - rewrite !andc_0, chk_0, valid_code_0, IH, Nat.eqb_eq. split.
    + intros (H1 & H2 & H3 & H4). split; [constructor; assumption | split; assumption].
    + intros (H1 & H2 & H3). inversion H1; subst. tauto.
Qed.

Theorem spec_code_correct line sp : spec_code line sp = 0 <-> spec line sp.
Proof.
  unfold spec_code. rewrite contig_code_0. split.
  - intros H. apply spec_core_spec. exact H.
  - apply spec_spec_core.
Qed.

(** * The builder keeps its spans contiguous on ordered, aligned calls *)

Definition good (top : str) (x : span) : Prop :=
  sstart x < send x /\ bnd top (sstart x) /\ bnd top (send x).

Fixpoint wf_calls (top : str) (cur : nat) (cs : list call) : Prop :=
  match cs with
  | [] => True
  | Append _ s e :: r => cur <= s /\ s <= e /\ bnd top s /\ bnd top e /\ wf_calls top e r
  | SetMissing _ :: r => wf_calls top cur r
  end.

Fixpoint end_cur (cur : nat) (cs : list call) : nat :=
  match cs with
  | [] => cur
  | Append _ _ e :: r => end_cur e r
  | SetMissing _ :: r => end_cur cur r
  end.

Lemma wf_calls_app top a : forall cur b,
  wf_calls top cur (a ++ b) <-> wf_calls top cur a /\ wf_calls top (end_cur cur a) b.
Proof.
  induction a as [|c a IH]; intros cur b; cbn [app wf_calls end_cur]; [tauto|].
  destruct c as [k s e | k]; rewrite IH; tauto.
Qed.

Lemma end_cur_app a : forall cur b, end_cur cur (a ++ b) = end_cur (end_cur cur a) b.
Proof.
  induction a as [|c a IH]; intros cur b; cbn [app end_cur]; [reflexivity|].
  destruct c; apply IH.
Qed.

Definition inv (top : str) (st : bst) : Prop :=
  contiguous 0 (b_spans st) (b_cur st) /\ Forall (good top) (b_spans st) /\ bnd top (b_cur st).

Lemma push_range_ok top st k s e :
  inv top st -> b_cur st <= s -> s <= e -> bnd top s -> bnd top e ->
  inv top (push_range st k s e) /\ b_cur (push_range st k s e) = e.
Proof.
  intros (Hc & Hg & Hb) H1 H2 Hs He. split; [|reflexivity].
  unfold inv, push_range. cbn [b_spans b_cur]. split; [|split; [|exact He]].
  - destruct (b_cur st <? s) eqn:E1; destruct (s <? e) eqn:E2;
      try apply Nat.ltb_lt in E1; try apply Nat.ltb_ge in E1;
      try apply Nat.ltb_lt in E2; try apply Nat.ltb_ge in E2.
    + apply contiguous_snoc. split; [|reflexivity]. apply contiguous_snoc. split; [exact Hc | reflexivity].
    + apply contiguous_snoc. split; [exact Hc|]. cbn. lia.
    + apply contiguous_snoc. split; [|reflexivity]. cbn. replace s with (b_cur st) by lia. exact Hc.
    + replace e with (b_cur st) by lia. exact Hc.
  - assert (Hgap : b_cur st < s -> good top (b_cur st, s, match b_nmk st with Some m => m | None => KComment end)).
    { intros Hlt. split; [exact Hlt | split; [exact Hb | exact Hs]]. }
    destruct (b_cur st <? s) eqn:E1; destruct (s <? e) eqn:E2;
      try apply Nat.ltb_lt in E1; try apply Nat.ltb_lt in E2;
      repeat (apply Forall_app; split); try exact Hg; repeat constructor; auto.
Qed.

(** on ordered calls both forms of [append_span] do the same *)
Lemma append_span_ok clamp top st k s e :
  inv top st -> b_cur st <= s -> s <= e -> bnd top s -> bnd top e ->
  exists st', append_span_gen clamp top st k s e = Some st' /\ inv top st' /\ b_cur st' = e.
Proof.
  intros Hi H1 H2 Hs He. unfold append_span_gen.
  apply is_boundary_bnd in Hs as Hs', He as He'. rewrite Hs', He'. cbn [negb]. cbv zeta.
  pose proof (bnd_le _ _ Hs). pose proof (bnd_le _ _ He).
  assert (E1 : (if clamp then Nat.max (Nat.min s (blen top)) (b_cur st) else s) = s) by (destruct clamp; lia).
  rewrite E1.
  assert (E2 : (if clamp then Nat.max (Nat.min e (blen top)) s else e) = e) by (destruct clamp; lia).
  rewrite E2.
  eexists. split; [reflexivity|]. apply push_range_ok; assumption.
Qed.

Theorem run_calls_ok clamp top cs : forall st,
  inv top st -> wf_calls top (b_cur st) cs ->
  exists st', run_calls_gen clamp top st cs = Some st' /\ inv top st' /\ b_cur st' = end_cur (b_cur st) cs.
Proof.
  induction cs as [|c cs IH]; intros st Hi Hw; cbn [run_calls_gen end_cur].
  - exists st. auto.
  - destruct c as [k s e | k]; cbn [step_gen wf_calls] in *.
    + destruct Hw as (H1 & H2 & H3 & H4 & Hw).
      destruct (append_span_ok clamp top st k s e Hi H1 H2 H3 H4) as (st1 & -> & Hi1 & Hc1).
      rewrite <- Hc1 in Hw. destruct (IH st1 Hi1 Hw) as (st' & Hr & Hi' & Hc'). exists st'.
      split; [exact Hr | split; [exact Hi'|]]. rewrite Hc', Hc1. reflexivity.
    + apply (IH (mk_bst (b_spans st) (b_cur st) (Some k))); [|exact Hw].
      destruct Hi as (A & B & C). split; [exact A | split; [exact B | exact C]].
Qed.

(** the clamped form needs no order: aligned positions are enough *)
Lemma bnd_max top a b : bnd top a -> bnd top b -> bnd top (Nat.max a b).
Proof. intros Ha Hb. destruct (Nat.max_spec a b) as [[_ ->] | [_ ->]]; assumption. Qed.

Lemma append_span_clamped_ok top st k s e :
  inv top st -> b_cur st <= blen top -> bnd top s -> bnd top e ->
  exists st', append_span_gen true top st k s e = Some st' /\ inv top st'
    /\ b_cur st <= b_cur st' <= blen top /\ (blen top <= e -> b_cur st' = blen top).
Proof.
  intros Hi Hn Hs He. unfold append_span_gen.
  apply is_boundary_bnd in Hs as Hs', He as He'. rewrite Hs', He'. cbn [negb]. cbv zeta.
  pose proof (bnd_le _ _ Hs). pose proof (bnd_le _ _ He).
  set (s' := Nat.max (Nat.min s (blen top)) (b_cur st)).
  set (e' := Nat.max (Nat.min e (blen top)) s').
  assert (Bs : bnd top s').
  { unfold s'. apply bnd_max; [replace (Nat.min s (blen top)) with s by lia; exact Hs | apply Hi]. }
  assert (Be : bnd top e').
  { unfold e'. apply bnd_max; [replace (Nat.min e (blen top)) with e by lia; exact He | exact Bs]. }
  destruct (push_range_ok top st k s' e' Hi) as [Hi' Hc']; try assumption; try (unfold e', s'; lia).
  eexists. split; [reflexivity|]. split; [exact Hi'|]. rewrite Hc'. unfold e', s'. split; lia.
Qed.

Lemma calls_aligned_cons top c cs :
  calls_aligned top (c :: cs) = true <-> call_aligned top c = true /\ calls_aligned top cs = true.
Proof. unfold calls_aligned. cbn [forallb]. apply andb_true_iff. Qed.

Theorem run_calls_clamped_ok top cs : forall st,
  inv top st -> b_cur st <= blen top -> calls_aligned top cs = true ->
  exists st', run_calls_gen true top st cs = Some st' /\ inv top st' /\ b_cur st <= b_cur st' <= blen top.
Proof.
  induction cs as [|c cs IH]; intros st Hi Hn Ha; cbn [run_calls_gen].
  - exists st. split; [reflexivity | split; [exact Hi | lia]].
  - apply calls_aligned_cons in Ha. destruct Ha as [Hc Ha].
    destruct c as [k s e | k]; cbn [step_gen call_aligned] in *.
    + apply andb_true_iff in Hc. destruct Hc as [Hs He]. apply is_boundary_bnd in Hs, He.
      destruct (append_span_clamped_ok top st k s e Hi Hn Hs He) as (st1 & -> & Hi1 & Hb1 & _).
      destruct (IH st1 Hi1 (proj2 Hb1) Ha) as (st' & Hr & Hi' & Hb'). exists st'.
      split; [exact Hr | split; [exact Hi' | lia]].
    + apply (IH (mk_bst (b_spans st) (b_cur st) (Some k))); [|exact Hn | exact Ha].
      destruct Hi as (A & B & C). split; [exact A | split; [exact B | exact C]].
Qed.

Lemma run_calls_gen_app clamp top a : forall st b,
  run_calls_gen clamp top st (a ++ b) =
  match run_calls_gen clamp top st a with Some st' => run_calls_gen clamp top st' b | None => None end.
Proof.
  induction a as [|c a IH]; intros st b; cbn [app run_calls_gen]; [reflexivity|].
  destruct (step_gen clamp top st c); [apply IH | reflexivity].
Qed.

Lemma calls_aligned_app top a b :
  calls_aligned top (a ++ b) = true <-> calls_aligned top a = true /\ calls_aligned top b = true.
Proof. unfold calls_aligned. rewrite forallb_app. apply andb_true_iff. Qed.

Lemma good_valid top x : good top x -> send x <= blen top -> span_valid (utf8 top) x.
Proof.
  intros (H1 & H2 & H3) H4. unfold span_valid. rewrite length_utf8.
  split; [lia|]. split; [exact H4|]. split; apply bnd_is_cb; assumption.
Qed.

Lemma inv_spec top st : inv top st -> b_cur st = blen top -> spec top (b_spans st).
Proof.
  intros (Hc & Hg & _) He. apply spec_core_spec. rewrite He in Hc. split.
  - apply Forall_forall. intros x Hx. rewrite Forall_forall in Hg.
    apply good_valid; [apply Hg, Hx|]. apply bnd_le. apply (Hg x Hx).
  - rewrite length_utf8. exact Hc.
Qed.

(** * The calls made for a token/piece tree that passes [prog_ok] are ordered and aligned *)

(** [emb top off line]: [line] occurs in [top] at byte offset [off], a char boundary *)
Definition emb (top : str) (off : nat) (line : str) : Prop :=
  exists pre post, top = pre ++ line ++ post /\ blen pre = off.

Lemma emb_refl top : emb top 0 top.
Proof. exists [], []. split; [rewrite app_nil_r; reflexivity | reflexivity]. Qed.

Lemma emb_bnd top off line b : emb top off line -> bnd line b -> bnd top (off + b).
Proof.
  intros (pre & post & -> & <-) (a & c & -> & <-).
  exists (pre ++ a), (c ++ post). split; [rewrite <- !app_assoc; reflexivity | apply blen_app].
Qed.

Lemma emb_trans top off line p cmd : emb top off line -> emb line p cmd -> emb top (off + p) cmd.
Proof.
  intros (pre & post & -> & <-) (pre' & post' & -> & <-).
  exists (pre ++ pre'), (post' ++ post). split; [rewrite <- !app_assoc; reflexivity | apply blen_app].
Qed.

Lemma starts_with_app p : forall s, starts_with p s = true -> exists post, s = p ++ post.
Proof.
  induction p as [|x p IH]; intros s H; cbn [starts_with] in H.
  - exists s. reflexivity.
  - destruct s as [|y s]; [discriminate|]. apply andb_true_iff in H. destruct H as [H1 H2].
    apply N.eqb_eq in H1. subst y. destruct (IH _ H2) as (post & ->). exists post. reflexivity.
Qed.

Lemma embb_sound line : forall p cmd, embb line p cmd = true -> emb line p cmd.
Proof.
  induction line as [|c l IH]; intros p cmd H; cbn [embb] in H.
  - destruct (p =? 0) eqn:E.
    + apply Nat.eqb_eq in E. subst. destruct (starts_with_app _ _ H) as (post & Hp).
      exists [], post. split; [exact Hp | reflexivity].
    + discriminate.
  - destruct (p =? 0) eqn:E.
    + apply Nat.eqb_eq in E. subst. destruct (starts_with_app _ _ H) as (post & Hp).
      exists [], post. split; [exact Hp | reflexivity].
    + apply andb_true_iff in H. destruct H as [H1 H2]. apply Nat.leb_le in H1.
      destruct (IH _ _ H2) as (pre & post & -> & Hb).
      exists (c :: pre), post. split; [reflexivity|]. cbn [blen]. lia.
Qed.

Lemma range_ok_0 line sb lo hi s e : range_ok line sb lo hi s e = 0 ->
  lo <= s /\ s <= e /\ e <= hi /\ bnd line (sb + s) /\ bnd line (sb + e).
Proof.
  unfold range_ok. rewrite andc_0, !chk_0, !andb_true_iff, !Nat.leb_le, !is_boundary_bnd. tauto.
Qed.

Scheme piece_mind := Induction for piece Sort Prop
  with pieces_mind := Induction for pieces Sort Prop
  with prog_mind := Induction for prog Sort Prop
  with tokens_mind := Induction for tokens Sort Prop.
Combined Scheme tree_mutind from piece_mind, pieces_mind, prog_mind, tokens_mind.

Section Tree.
  Variable top : str.
  Variable cursor : nat.

  Definition P_piece (p : piece) : Prop := forall line off sb lo hi dk cur,
    emb top off line -> piece_ok line sb lo hi p = 0 -> cur <= off + sb + lo ->
    wf_calls top cur (piece_calls cursor dk (off + sb) p)
    /\ end_cur cur (piece_calls cursor dk (off + sb) p) = off + sb + piece_end p
    /\ lo <= piece_end p <= hi.

  Definition P_pieces (ps : pieces) : Prop := forall line off sb lo hi dk cur,
    emb top off line -> pieces_ok line sb lo hi ps = 0 -> cur <= off + sb + lo ->
    wf_calls top cur (pieces_calls cursor dk (off + sb) ps)
    /\ end_cur cur (pieces_calls cursor dk (off + sb) ps) <= off + sb + hi.

  Definition P_prog (p : prog) : Prop := forall line off cur,
    emb top off line -> prog_ok line p = 0 -> cur <= off ->
    wf_calls top cur (prog_calls cursor line off p)
    /\ end_cur cur (prog_calls cursor line off p) = off + blen line.

  Definition P_toks (ts : tokens) : Prop := forall line off c saw cur,
    emb top off line -> toks_ok line c ts = 0 -> cur <= off + byte_offset line c ->
    wf_calls top cur (toks_calls cursor line off saw ts)
    /\ end_cur cur (toks_calls cursor line off saw ts) <= off + blen line.

  Lemma bnd_shift line off sb x : emb top off line -> bnd line (sb + x) -> bnd top (off + sb + x).
  Proof. intros He Hb. rewrite <- Nat.add_assoc. eapply emb_bnd; eassumption. Qed.

  Lemma tree_ok_calls :
    (forall p, P_piece p) /\ (forall ps, P_pieces ps) /\ (forall p, P_prog p) /\ (forall ts, P_toks ts).
  Proof.
    apply tree_mutind.
    - (* PLeaf *)
      intros l s e line off sb lo hi dk cur He Hok Hcur. cbn [piece_ok] in Hok.
      apply range_ok_0 in Hok. destruct Hok as (H1 & H2 & H3 & Hbs & Hbe).
      pose proof (bnd_shift _ _ _ _ He Hbs) as Bs. pose proof (bnd_shift _ _ _ _ He Hbe) as Be.
      cbn [piece_calls piece_end skip wf_calls end_cur].
      repeat split; try assumption; lia.
    - (* PDq *)
      intros s e subs IH line off sb lo hi dk cur He Hok Hcur. cbn [piece_ok] in Hok.
      apply andc_0 in Hok. destruct Hok as [Hr Hsub].
      apply range_ok_0 in Hr. destruct Hr as (H1 & H2 & H3 & Hbs & Hbe).
      pose proof (bnd_shift _ _ _ _ He Hbs) as Bs. pose proof (bnd_shift _ _ _ _ He Hbe) as Be.
      destruct (IH line off sb s e KQuoted (off + sb + s) He Hsub (Nat.le_refl _)) as [Hw Hend].
      cbn [piece_calls piece_end skip wf_calls end_cur].
      rewrite wf_calls_app, end_cur_app. cbn [wf_calls end_cur].
      repeat split; try assumption; lia.
    - (* PCmd *)
      intros bq s e cmd p' IH line off sb lo hi dk cur He Hok Hcur. cbn [piece_ok] in Hok.
      apply andc_0 in Hok. destruct Hok as [Hr Hok]. apply andc_0 in Hok. destruct Hok as [Hemb Hok].
      apply andc_0 in Hok. destruct Hok as [Hlen Hp].
      apply range_ok_0 in Hr. destruct Hr as (H1 & H2 & H3 & Hbs & Hbe).
      apply chk_0, embb_sound in Hemb. apply chk_0, Nat.leb_le in Hlen.
      pose proof (bnd_shift _ _ _ _ He Hbs) as Bs. pose proof (bnd_shift _ _ _ _ He Hbe) as Be.
      set (d := if bq then 1 else 2) in *.
      pose proof (emb_trans _ _ _ _ _ He Hemb) as He'.
      replace (off + (sb + s + d)) with (off + sb + s + d) in He' by lia.
      destruct (IH cmd (off + sb + s + d) (off + sb + s) He' Hp) as [Hw Hend]; [lia|].
      cbn [piece_calls piece_end skip wf_calls end_cur]. fold d.
      rewrite wf_calls_app, end_cur_app. cbn [wf_calls end_cur]. rewrite Hend.
      repeat split; try assumption; lia.
    - (* PNil *)
      intros line off sb lo hi dk cur He Hok Hcur. cbn [pieces_ok] in Hok.
      apply chk_0, Nat.leb_le in Hok. cbn [pieces_calls wf_calls end_cur]. split; [exact I | lia].
    - (* PCons *)
      intros p IHp ps IHps line off sb lo hi dk cur He Hok Hcur. cbn [pieces_ok] in Hok.
      apply andc_0 in Hok. destruct Hok as [Hp Hps].
      destruct (IHp line off sb lo hi dk cur He Hp Hcur) as (Hw & Hend & Hlo & Hhi).
      destruct (IHps line off sb (piece_end p) hi dk (off + sb + piece_end p) He Hps (Nat.le_refl _)) as [Hw' Hend'].
      cbn [pieces_calls]. rewrite wf_calls_app, end_cur_app, Hend. split; [split; assumption | exact Hend'].
    - (* GErr *)
      intros line off cur He _ Hcur. cbn [prog_calls wf_calls end_cur].
      pose proof (emb_bnd _ _ _ _ He (bnd_0 line)) as B0. rewrite Nat.add_0_r in B0.
      pose proof (emb_bnd _ _ _ _ He (bnd_len line)) as B1.
      repeat split; try assumption; lia.
    - (* GToks *)
      intros ts IH line off cur He Hok Hcur. cbn [prog_ok] in Hok.
      destruct (IH line off 0 false cur He Hok) as [Hw Hend]; [rewrite byte_offset_0; lia|].
      pose proof (emb_bnd _ _ _ _ He (bnd_len line)) as B1.
      cbn [prog_calls]. rewrite wf_calls_app, end_cur_app. cbn [skip wf_calls end_cur].
      repeat split; try assumption; lia.
    - (* TNil *)
      intros line off c saw cur He _ Hcur. cbn [toks_calls wf_calls end_cur].
      pose proof (byte_offset_le line c). split; [exact I | lia].
    - (* TOp *)
      intros sc ec rest IH line off c saw cur He Hok Hcur. cbn [toks_ok] in Hok.
      apply andc_0 in Hok. destruct Hok as [Hord Hrest].
      apply chk_0, andb_true_iff in Hord. destruct Hord as [Ho1 Ho2]. apply Nat.leb_le in Ho1, Ho2.
      pose proof (byte_offset_mono line _ _ Ho1). pose proof (byte_offset_mono line _ _ Ho2).
      pose proof (emb_bnd _ _ _ _ He (bnd_byte_offset line sc)) as Bs.
      pose proof (emb_bnd _ _ _ _ He (bnd_byte_offset line ec)) as Be.
      destruct (IH line off ec saw (off + byte_offset line ec) He Hrest (Nat.le_refl _)) as [Hw Hend].
      cbn [toks_calls wf_calls end_cur]. repeat split; try assumption; lia.
    - (* TWord *)
      intros sc ec f ps IHps rest IH line off c saw cur He Hok Hcur. cbn [toks_ok] in Hok.
      apply andc_0 in Hok. destruct Hok as [Hord Hok]. apply andc_0 in Hok. destruct Hok as [Hps Hrest].
      apply chk_0, andb_true_iff in Hord. destruct Hord as [Ho1 Ho2]. apply Nat.leb_le in Ho1, Ho2.
      pose proof (byte_offset_mono line _ _ Ho1). pose proof (byte_offset_mono line _ _ Ho2).
      cbn [toks_calls].
      destruct (kind_for_word cursor f (off + byte_offset line sc) (off + byte_offset line ec) saw) as [dk saw'].
      destruct (IHps line off (byte_offset line sc) 0 (byte_offset line ec - byte_offset line sc) dk cur He Hps)
        as [Hw Hend]; [lia|].
      destruct (IH line off ec saw'
                  (end_cur cur (pieces_calls cursor dk (off + byte_offset line sc) ps)) He Hrest) as [Hw' Hend']; [lia|].
      rewrite wf_calls_app, end_cur_app. split; [split; assumption | exact Hend'].
    - (* TWordErr *)
      intros sc ec rest IH line off c saw cur He Hok Hcur. cbn [toks_ok toks_calls] in *.
      apply (IH line off c saw cur He Hok Hcur).
  Qed.
End Tree.

(** * Main theorems *)

Lemma inv_bst0 top : inv top bst0.
Proof. split; [reflexivity | split; [constructor | apply bnd_0]]. Qed.

Theorem spans_cover_gen clamp top cursor p : prog_ok top p = 0 ->
  exists sp, highlight_gen clamp top cursor p = Some sp
    /\ spec top sp
    /\ Forall (fun x => sstart x < send x) sp.
Proof.
  intros Hok.
  destruct (tree_ok_calls top cursor) as (_ & _ & Hprog & _).
  destruct (Hprog p top 0 0 (emb_refl top) Hok (Nat.le_refl _)) as [Hw Hend].
  destruct (run_calls_ok clamp top _ bst0 (inv_bst0 top) Hw) as (st & Hr & Hi & Hc).
  unfold highlight_gen. rewrite Hr. exists (b_spans st). split; [reflexivity|]. split.
  - apply inv_spec; [exact Hi|]. rewrite Hc. exact Hend.
  - destruct Hi as (_ & Hg & _). eapply Forall_impl; [|exact Hg]. intros x Hx. apply Hx.
Qed.

Theorem spans_cover top cursor p : prog_ok top p = 0 ->
  exists sp, highlight top cursor p = Some sp
    /\ spec top sp
    /\ Forall (fun x => sstart x < send x) sp.
Proof. apply spans_cover_gen. Qed.

Theorem builder_no_panic top cursor p : prog_ok top p = 0 -> highlight top cursor p <> None.
Proof. intros H. destruct (spans_cover top cursor p H) as (sp & -> & _). discriminate. Qed.

(** the builder alone, for any sequence of calls that is ordered and aligned *)
Theorem builder_cover clamp top cs : wf_calls top 0 cs -> end_cur 0 cs = blen top ->
  exists st, run_calls_gen clamp top bst0 cs = Some st /\ spec top (b_spans st).
Proof.
  intros Hw He. destruct (run_calls_ok clamp top cs bst0 (inv_bst0 top) Hw) as (st & Hr & Hi & Hc).
  exists st. split; [exact Hr|]. apply inv_spec; [exact Hi|]. rewrite Hc. exact He.
Qed.

(** the clamped builder: any sequence of aligned calls whose last call asks for the end of the line *)
Theorem builder_clamped_cover top cs k s e :
  calls_aligned top (cs ++ [Append k s e]) = true -> blen top <= e ->
  exists st, run_calls_gen true top bst0 (cs ++ [Append k s e]) = Some st /\ spec top (b_spans st).
Proof.
  intros Ha He. apply calls_aligned_app in Ha. destruct Ha as [Ha Hl].
  destruct (run_calls_clamped_ok top cs bst0 (inv_bst0 top) (Nat.le_0_l _) Ha) as (st1 & Hr1 & Hi1 & Hb1).
  apply calls_aligned_cons in Hl. destruct Hl as [Hl _]. cbn [call_aligned] in Hl.
  apply andb_true_iff in Hl. destruct Hl as [Hs Hee]. apply is_boundary_bnd in Hs, Hee.
  destruct (append_span_clamped_ok top st1 k s e Hi1 (proj2 Hb1) Hs Hee) as (st2 & Hr2 & Hi2 & _ & Hfin).
  exists st2. rewrite run_calls_gen_app, Hr1. cbn [run_calls_gen step_gen]. rewrite Hr2.
  split; [reflexivity|]. apply inv_spec; [exact Hi2 | apply Hfin, He].
Qed.

Lemma prog_calls_last cursor line off p :
  exists cs k s, prog_calls cursor line off p = cs ++ [Append k s (off + blen line)].
Proof.
  destruct p as [|ts]; cbn [prog_calls].
  - exists [], KDefault, off. reflexivity.
  - eexists _, KDefault, _. reflexivity.
Qed.

Theorem spans_cover_clamped top cursor p :
  calls_aligned top (prog_calls cursor top 0 p) = true ->
  exists sp, highlight_gen true top cursor p = Some sp /\ spec top sp.
Proof.
  intros Ha. destruct (prog_calls_last cursor top 0 p) as (cs & k & s & E).
  unfold highlight_gen. rewrite E in *.
  destruct (builder_clamped_cover top cs k s _ Ha (Nat.le_refl _)) as (st & -> & Hs).
  exists (b_spans st). split; [reflexivity | exact Hs].
Qed.

(** for the tree found in /repo when the translator reports the clamped form *)
Theorem spans_cover_repo_clamped : gen.C19Variant.clamp_spans = true -> forall top cursor p,
  calls_aligned top (prog_calls cursor top 0 p) = true ->
  exists sp, highlight top cursor p = Some sp /\ spec top sp.
Proof. intros E top cursor p. unfold highlight. rewrite E. apply spans_cover_clamped. Qed.
