(** C19 — model of brush-interactive/src/highlighting.rs.

    What is mirrored (read the Rust next to this file):
    - [append_span] / [skip_ahead] / [set_next_missing_kind]: the span builder, a state machine
      [bst] driven by a sequence of [call]s; the two [debug_assert!(is_char_boundary)] of
      [append_span] are the only panics of the module in a debug build and are modelled as
      [None] (= Panic).
    - [highlight_program]: the char-index -> byte-offset table [offsets] (one entry per char
      plus the sentinel [line.len()]), [byte_offset] (table lookup, [unwrap_or(line.len())]),
      the loop over tokens, the final [skip_ahead(global_offset + line.len())], and the
      tokenizer-error arm.
    - [highlight_word_piece]: per piece kind, including the recursion into command
      substitutions with [piece.start + 1] / [piece.start + 2] as the new global offset.
    - [get_kind_for_word] / [classify_possible_command] as a decision tree over oracle bits
      (keyword / alias / function / builtin / found-on-disk) and the cursor.

    What is an input of the model (not modelled): the tokenizer's token list (positions in
    characters), the word parser's piece tree (positions in bytes of the raw word text) and the
    texts of nested commands.  The harness obtains them from the public API for the same line
    and feeds them to the model; see [tree].

    Offsets are [nat]: [usize] additions are assumed not to overflow (lines are far below
    2^64 bytes); highlighting.rs contains no subtraction and slices only through [str::get]. *)
From BV Require Import Base.Prelude gen.C19Variant.
Local Open Scope nat_scope.

(** ** Kinds *)
Inductive kind :=
| KDefault | KComment | KArithmetic | KParameter | KCmdSubst | KQuoted | KOperator
| KAssignment | KHyphenOption | KFunction | KKeyword | KBuiltin | KAlias | KExternal
| KNotFound | KUnknown.

Definition kind_no (k : kind) : nat :=
  match k with
  | KDefault => 0 | KComment => 1 | KArithmetic => 2 | KParameter => 3 | KCmdSubst => 4
  | KQuoted => 5 | KOperator => 6 | KAssignment => 7 | KHyphenOption => 8 | KFunction => 9
  | KKeyword => 10 | KBuiltin => 11 | KAlias => 12 | KExternal => 13 | KNotFound => 14
  | KUnknown => 15
  end.

(** A span: byte range [sstart, send) and its kind. *)
Definition span := (nat * nat * kind)%type.
Definition sstart (x : span) : nat := fst (fst x).
Definition send (x : span) : nat := snd (fst x).
Definition skind (x : span) : kind := snd x.

(** ** UTF-8 lengths and the char -> byte table *)
Definition utf8_len (c : char) : nat :=
  if (c <? 128)%N then 1 else if (c <? 2048)%N then 2 else if (c <? 65536)%N then 3 else 4.

(** [str::len] in bytes *)
Fixpoint blen (s : str) : nat :=
  match s with [] => 0 | c :: s' => utf8_len c + blen s' end.

(** [line.char_indices().map(|(b,_)| b).chain(once(line.len()))] *)
Fixpoint offsets_from (b : nat) (s : str) : list nat :=
  match s with
  | [] => [b]
  | c :: s' => b :: offsets_from (b + utf8_len c) s'
  end.
Definition offsets (s : str) : list nat := offsets_from 0 s.

(** [char_byte_offsets.get(i).copied().unwrap_or(line.len())] *)
Definition byte_offset (line : str) (ci : nat) : nat :=
  match nth_error (offsets line) ci with Some b => b | None => blen line end.

(** [str::is_char_boundary] of the model: membership in the table (shown in Proofs.v to agree
    with the byte-level definition of the standard library). *)
Definition is_boundary (line : str) (i : nat) : bool := existsb (Nat.eqb i) (offsets line).

(** ** The span builder *)
Record bst := mk_bst { b_spans : list span; b_cur : nat; b_nmk : option kind }.
Definition bst0 : bst := mk_bst [] 0 None.

Inductive call :=
| Append (k : kind) (s e : nat)      (* append_span(kind, s..e) *)
| SetMissing (k : kind).             (* set_next_missing_kind(kind) *)

(** [skip_ahead(dest)] is [append_span(Default, dest..dest)] *)
Definition skip (d : nat) : call := Append KDefault d d.

(** [append_span]; [None] = a debug assertion failed (panic).
    [clamp] selects the form of the function found in /repo by translator/ex_c19.py
    (gen/C19Variant.v): [false] = the range is used as given; [true] = after the assertions
      let line_len = self.input_line.len();
      let start = range.start.min(line_len).max(self.current_byte_index);
      let end = range.end.min(line_len).max(start); *)
Definition push_range (st : bst) (k : kind) (s e : nat) : bst :=
  let sp1 := if b_cur st <? s
             then b_spans st ++ [(b_cur st, s, match b_nmk st with Some m => m | None => KComment end)]
             else b_spans st in
  (* Range::is_empty is !(start < end) *)
  let sp2 := if s <? e then sp1 ++ [(s, e, k)] else sp1 in
  mk_bst sp2 e (b_nmk st).

Definition append_span_gen (clamp : bool) (top : str) (st : bst) (k : kind) (s e : nat) : option bst :=
  if negb (is_boundary top s) then None
  else if negb (is_boundary top e) then None
  else
    let s' := if clamp then Nat.max (Nat.min s (blen top)) (b_cur st) else s in
    let e' := if clamp then Nat.max (Nat.min e (blen top)) s' else e in
    Some (push_range st k s' e').

Definition step_gen (clamp : bool) (top : str) (st : bst) (c : call) : option bst :=
  match c with
  | Append k s e => append_span_gen clamp top st k s e
  | SetMissing k => Some (mk_bst (b_spans st) (b_cur st) (Some k))
  end.

Fixpoint run_calls_gen (clamp : bool) (top : str) (st : bst) (cs : list call) : option bst :=
  match cs with
  | [] => Some st
  | c :: cs' => match step_gen clamp top st c with Some st' => run_calls_gen clamp top st' cs' | None => None end
  end.

(** the code as it is in /repo *)
Definition append_span := append_span_gen clamp_spans.
Definition run_calls := run_calls_gen clamp_spans.

(** ** What the highlighter consumes: tokens, word pieces, nested commands *)
Record flags := mk_flags {
  f_eq : bool;        (* w.contains('=') *)
  f_kw : bool;        (* shell.is_keyword(w) *)
  f_alias : bool;     (* shell.aliases().contains_key(w) *)
  f_func : bool;      (* shell.funcs().get(w).is_some() *)
  f_builtin : bool;   (* shell.builtins().contains_key(w) *)
  f_found : bool;     (* path exists / found in PATH *)
  f_hyphen : bool     (* w.starts_with('-') *)
}.

Inductive leaf := LQuoted | LParam | LArith | LText.

Inductive piece :=
| PLeaf (l : leaf) (s e : nat)
| PDq (s e : nat) (subs : pieces)                        (* "..." and $"..." *)
| PCmd (bq : bool) (s e : nat) (cmd : str) (p : prog)    (* `...` (bq) and $(...) *)
with pieces :=
| PNil
| PCons (p : piece) (ps : pieces)
with prog :=
| GErr                                                   (* tokenize_str_with_options failed *)
| GToks (ts : tokens)
with tokens :=
| TNil
| TOp (sc ec : nat) (rest : tokens)                      (* Token::Operator, char indices *)
| TWord (sc ec : nat) (f : flags) (ps : pieces) (rest : tokens)   (* Token::Word, word::parse Ok *)
| TWordErr (sc ec : nat) (rest : tokens).                (* Token::Word, word::parse Err *)

(** [get_kind_for_word] with [classify_possible_command] inlined; returns the kind and the new
    value of [saw_command_token]. [ts .. te] is the token's global byte range. *)
Definition kind_for_word (cursor : nat) (f : flags) (ts te : nat) (saw : bool) : kind * bool :=
  if negb saw then
    if f_eq f then (KAssignment, saw)
    else
      (if f_kw f then KKeyword
       else if f_alias f then KAlias
       else if f_func f then KFunction
       else if f_builtin f then KBuiltin
       else if (ts <=? cursor) && (cursor <=? te) then KUnknown
       else if f_found f then KExternal else KNotFound, true)
  else
    (if f_kw f then KKeyword else if f_hyphen f then KHyphenOption else KDefault, saw).

Definition leaf_kind (dk : kind) (l : leaf) : kind :=
  match l with LQuoted => KQuoted | LParam => KParameter | LArith => KArithmetic | LText => dk end.

(** The calls made on the builder, in order.  The control flow of [highlight_program] /
    [highlight_word_piece] depends only on the tokens and pieces, never on the builder's state,
    so "generate the calls, then run the builder" is the same computation. *)
Fixpoint piece_calls (cursor : nat) (dk : kind) (g : nat) (p : piece) {struct p} : list call :=
  match p with
  | PLeaf l s e => [skip (g + s); Append (leaf_kind dk l) (g + s) (g + e); skip (g + e)]
  | PDq s e subs =>
      skip (g + s) :: SetMissing KQuoted :: pieces_calls cursor KQuoted g subs
        ++ [SetMissing KQuoted; skip (g + e)]
  | PCmd bq s e cmd p' =>
      skip (g + s) :: SetMissing KCmdSubst
        :: prog_calls cursor cmd (g + s + (if bq then 1 else 2)) p'
        ++ [SetMissing KCmdSubst; skip (g + e)]
  end
with pieces_calls (cursor : nat) (dk : kind) (g : nat) (ps : pieces) {struct ps} : list call :=
  match ps with
  | PNil => []
  | PCons p ps' => piece_calls cursor dk g p ++ pieces_calls cursor dk g ps'
  end
with prog_calls (cursor : nat) (line : str) (off : nat) (p : prog) {struct p} : list call :=
  match p with
  | GErr => [Append KDefault off (off + blen line)]
  | GToks ts => toks_calls cursor line off false ts ++ [skip (off + blen line)]
  end
with toks_calls (cursor : nat) (line : str) (off : nat) (saw : bool) (ts : tokens) {struct ts}
  : list call :=
  match ts with
  | TNil => []
  | TOp sc ec rest =>
      Append KOperator (off + byte_offset line sc) (off + byte_offset line ec)
        :: toks_calls cursor line off saw rest
  | TWord sc ec f ps rest =>
      let sb := byte_offset line sc in
      let eb := byte_offset line ec in
      let '(dk, saw') := kind_for_word cursor f (off + sb) (off + eb) saw in
      pieces_calls cursor dk (off + sb) ps ++ toks_calls cursor line off saw' rest
  | TWordErr _ _ rest => toks_calls cursor line off saw rest
  end.

(** [highlight_command(shell, line, cursor).spans()]; [None] = panic *)
Definition highlight_gen (clamp : bool) (top : str) (cursor : nat) (p : prog) : option (list span) :=
  match run_calls_gen clamp top bst0 (prog_calls cursor top 0 p) with
  | Some st => Some (b_spans st)
  | None => None
  end.
Definition highlight := highlight_gen clamp_spans.

(** every position handed to [append_span] is a char boundary of the line (what its debug
    assertions demand) *)
Definition call_aligned (top : str) (c : call) : bool :=
  match c with
  | Append _ s e => is_boundary top s && is_boundary top e
  | SetMissing _ => true
  end.
Definition calls_aligned (top : str) (cs : list call) : bool := forallb (call_aligned top) cs.

(** ** The hypotheses on the consumed data, as a decidable check

    [0] = fine; otherwise the first reason found:
    [1] token positions (characters) not in non-decreasing order,
    [2] word-piece indices out of order or outside the word / the enclosing piece,
    [3] a word-piece index is not a char boundary of the text it indexes,
    [4] the text of a nested command is not the text found in the line at the offset used,
    [5] the nested command text extends beyond its piece. *)
Definition andc (a b : nat) : nat := if a =? 0 then b else a.
Definition chk (b : bool) (code : nat) : nat := if b then 0 else code.

(** [emb line p cmd]: [cmd] occurs in [line] starting at byte offset [p] (a char boundary) *)
Fixpoint embb (line : str) (p : nat) (cmd : str) {struct line} : bool :=
  if p =? 0 then starts_with cmd line
  else match line with
       | [] => false
       | c :: l' => (utf8_len c <=? p) && embb l' (p - utf8_len c) cmd
       end.

Definition range_ok (line : str) (sb lo hi s e : nat) : nat :=
  andc (chk ((lo <=? s) && (s <=? e) && (e <=? hi)) 2)
       (chk (is_boundary line (sb + s) && is_boundary line (sb + e)) 3).

Definition piece_end (p : piece) : nat :=
  match p with PLeaf _ _ e | PDq _ e _ | PCmd _ _ e _ _ => e end.

Fixpoint piece_ok (line : str) (sb lo hi : nat) (p : piece) {struct p} : nat :=
  match p with
  | PLeaf _ s e => range_ok line sb lo hi s e
  | PDq s e subs => andc (range_ok line sb lo hi s e) (pieces_ok line sb s e subs)
  | PCmd bq s e cmd p' =>
      let q := sb + s + (if bq then 1 else 2) in
      andc (range_ok line sb lo hi s e)
        (andc (chk (embb line q cmd) 4)
           (andc (chk (q + blen cmd <=? sb + e) 5) (prog_ok cmd p')))
  end
with pieces_ok (line : str) (sb lo hi : nat) (ps : pieces) {struct ps} : nat :=
  match ps with
  | PNil => chk (lo <=? hi) 2
  | PCons p ps' =>
      andc (piece_ok line sb lo hi p)
           (pieces_ok line sb (piece_end p) hi ps')
  end
with prog_ok (line : str) (p : prog) {struct p} : nat :=
  match p with
  | GErr => 0
  | GToks ts => toks_ok line 0 ts
  end
with toks_ok (line : str) (c : nat) (ts : tokens) {struct ts} : nat :=
  match ts with
  | TNil => 0
  | TOp sc ec rest => andc (chk ((c <=? sc) && (sc <=? ec)) 1) (toks_ok line ec rest)
  | TWord sc ec _ ps rest =>
      andc (chk ((c <=? sc) && (sc <=? ec)) 1)
        (andc (pieces_ok line (byte_offset line sc) 0 (byte_offset line ec - byte_offset line sc) ps)
              (toks_ok line ec rest))
  | TWordErr _ _ rest => toks_ok line c rest
  end.
