(** C19 correspondence entries.
    [entry_c19]: args = line, cursor, opts, the marker TREE, then the tree fields printed by harness/src/p_hl.rs
      result = [C n (s e k)*] or [PANIC], followed by [H code aligned] (the hypothesis checks of
      Spans.v: code 0 = the hypotheses of spans_cover hold for this input; aligned 1 = every
      position handed to append_span is a char boundary, the hypothesis of the clamped form).
    [entry_c19spec]: args = line, n, (s e k)* ; result = the decidable spec of Spec.v on
      these spans (used on the spans returned by the code). *)
From Coq Require Import String.
From BV Require Import Base.Prelude Base.Codec Hl.Spans Hl.Spec.
Local Open Scope nat_scope.

Definition dec_flags (s : str) : flags :=
  let b i := match nth_error s i with Some 49%N => true | _ => false end in
  mk_flags (b 0) (b 1) (b 2) (b 3) (b 4) (b 5) (b 6).

Definition tag (s : str) : N := match s with [c] => c | _ => 0%N end.

(** prefix-coded tree; every function consumes fields and returns the rest *)
Fixpoint dec_piece (fuel : nat) (a : list str) {struct fuel} : option (piece * list str) :=
  match fuel with O => None | S fuel =>
  match a with
  | t :: s :: e :: r =>
      let s := dec_nat s in let e := dec_nat e in
      if N.eqb (tag t) 81 then Some (PLeaf LQuoted s e, r)           (* Q *)
      else if N.eqb (tag t) 86 then Some (PLeaf LParam s e, r)        (* V *)
      else if N.eqb (tag t) 65 then Some (PLeaf LArith s e, r)        (* A *)
      else if N.eqb (tag t) 84 then Some (PLeaf LText s e, r)         (* T *)
      else if N.eqb (tag t) 68 then                                   (* D n piece* *)
        match r with
        | n :: r' => match dec_pieces fuel (dec_nat n) r' with
                     | Some (ps, r'') => Some (PDq s e ps, r'')
                     | None => None
                     end
        | _ => None
        end
      else if N.eqb (tag t) 66 || N.eqb (tag t) 83 then               (* B / S cmd prog *)
        match r with
        | cmd :: r' => match dec_prog fuel r' with
                       | Some (p, r'') => Some (PCmd (N.eqb (tag t) 66) s e cmd p, r'')
                       | None => None
                       end
        | _ => None
        end
      else None
  | _ => None
  end end
with dec_pieces (fuel : nat) (n : nat) (a : list str) {struct fuel} : option (pieces * list str) :=
  match fuel with O => None | S fuel =>
  match n with
  | O => Some (PNil, a)
  | S n' => match dec_piece fuel a with
            | Some (p, r) => match dec_pieces fuel n' r with
                             | Some (ps, r') => Some (PCons p ps, r')
                             | None => None
                             end
            | None => None
            end
  end end
with dec_prog (fuel : nat) (a : list str) {struct fuel} : option (prog * list str) :=
  match fuel with O => None | S fuel =>
  match a with
  | t :: r =>
      if N.eqb (tag t) 69 then Some (GErr, r)                          (* E *)
      else if N.eqb (tag t) 80 then                                    (* P n token* *)
        match r with
        | n :: r' => match dec_toks fuel (dec_nat n) r' with
                     | Some (ts, r'') => Some (GToks ts, r'')
                     | None => None
                     end
        | _ => None
        end
      else None
  | _ => None
  end end
with dec_toks (fuel : nat) (n : nat) (a : list str) {struct fuel} : option (tokens * list str) :=
  match fuel with O => None | S fuel =>
  match n with
  | O => Some (TNil, a)
  | S n' =>
    match a with
    | t :: sc :: ec :: r =>
        let sc := dec_nat sc in let ec := dec_nat ec in
        if N.eqb (tag t) 79 then                                       (* O sc ec *)
          match dec_toks fuel n' r with
          | Some (ts, r') => Some (TOp sc ec ts, r')
          | None => None
          end
        else if N.eqb (tag t) 87 then                                  (* W sc ec flags pieces *)
          match r with
          | f :: k :: r' =>
              if N.eqb (tag k) 88 then                                 (* X *)
                match dec_toks fuel n' r' with
                | Some (ts, r'') => Some (TWordErr sc ec ts, r'')
                | None => None
                end
              else if N.eqb (tag k) 76 then                            (* L n piece* *)
                match r' with
                | m :: r'' =>
                    match dec_pieces fuel (dec_nat m) r'' with
                    | Some (ps, r3) =>
                        match dec_toks fuel n' r3 with
                        | Some (ts, r4) => Some (TWord sc ec (dec_flags f) ps ts, r4)
                        | None => None
                        end
                    | None => None
                    end
                | _ => None
                end
              else None
          | _ => None
          end
        else None
    | _ => None
    end
  end end.

Definition show_span (x : span) : list str :=
  [enc_nat (sstart x); enc_nat (send x); enc_nat (kind_no (skind x))].

Definition show_result (r : option (list span)) : list str :=
  match r with
  | Some sp => lit "C" :: enc_nat (length sp) :: flat_map show_span sp
  | None => [lit "PANIC"]
  end.

Definition entry_c19 (a : list str) : list str :=
  match a with
  | line :: cursor :: _ :: _ :: r =>
      match dec_prog (4 + 2 * length r) r with
      | Some (p, []) =>
          show_result (highlight line (dec_nat cursor) p)
            ++ [lit "H"; enc_nat (prog_ok line p);
                enc_bool (calls_aligned line (prog_calls (dec_nat cursor) line 0 p))]
      | _ => [lit "?bad-tree"]
      end
  | _ => [lit "?bad-args"]
  end.

Definition kind_of_no (n : nat) : kind :=
  match n with
  | 0 => KDefault | 1 => KComment | 2 => KArithmetic | 3 => KParameter | 4 => KCmdSubst
  | 5 => KQuoted | 6 => KOperator | 7 => KAssignment | 8 => KHyphenOption | 9 => KFunction
  | 10 => KKeyword | 11 => KBuiltin | 12 => KAlias | 13 => KExternal | 14 => KNotFound
  | _ => KUnknown
  end.

Fixpoint dec_spans (a : list str) : list span :=
  match a with
  | s :: e :: k :: r => (dec_nat s, dec_nat e, kind_of_no (dec_nat k)) :: dec_spans r
  | _ => []
  end.

Definition entry_c19spec (a : list str) : list str :=
  match a with
  | line :: _ :: r => [enc_nat (spec_code line (dec_spans r))]
  | _ => [lit "?bad-args"]
  end.
