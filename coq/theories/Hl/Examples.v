(** C19 — concrete inputs: non-vacuity of the hypotheses, and the two witnesses showing that the
    hypotheses are needed (both are replayed on the real code by the harness: known findings). *)
From Coq Require Import String.
From BV Require Import Base.Prelude Base.Codec Hl.Spans Hl.Spec Hl.Proofs.
Local Open Scope nat_scope.

Definition fl (s : string) : flags :=
  let b i := match nth_error (lit s) i with Some 49%N => true | _ => false end in
  mk_flags (b 0) (b 1) (b 2) (b 3) (b 4) (b 5) (b 6).
Definition text_word (sc ec : nat) (f : string) (len : nat) (rest : tokens) : tokens :=
  TWord sc ec (fl f) (PCons (PLeaf LText 0 len) PNil) rest.

(** echo "a $(ls é) b" # c   — nested substitution, a 2-byte char, a trailing comment *)
Definition ex_ok_line : str := lit "echo ""a $(ls " ++ [233%N] ++ lit ") b"" # c".
Definition ex_ok_tree : prog :=
  GToks (text_word 0 4 "0000110" 4
        (TWord 5 18 (fl "0000000")
           (PCons (PDq 0 14
              (PCons (PLeaf LText 1 3)
              (PCons (PCmd false 3 11 (lit "ls " ++ [233%N])
                        (GToks (text_word 0 2 "0000010" 2 (text_word 3 4 "0000000" 2 TNil))))
              (PCons (PLeaf LText 11 13) PNil)))) PNil)
        TNil)).

Lemma ex_ok : prog_ok ex_ok_line ex_ok_tree = 0 /\ forall clamp,
  highlight_gen clamp ex_ok_line 23 ex_ok_tree =
    Some [(0, 4, KBuiltin); (4, 5, KComment); (5, 6, KQuoted); (6, 8, KQuoted); (8, 10, KCmdSubst);
          (10, 12, KExternal); (12, 13, KCmdSubst); (13, 15, KDefault); (15, 16, KCmdSubst);
          (16, 18, KQuoted); (18, 19, KQuoted); (19, 23, KQuoted)].
Proof. split; [vm_compute; reflexivity | intros [|]; vm_compute; reflexivity]. Qed.

(** cat <<EOF / body / EOF : the tokenizer emits the here-doc body and end tag before the
    newline operator that precedes them in the line; the builder then overlaps. *)
Definition ex_heredoc_line : str := lit "cat <<EOF" ++ [NL] ++ lit "body" ++ [NL] ++ lit "EOF" ++ [NL].
Definition ex_heredoc_tree : prog :=
  GToks (text_word 0 3 "0000010" 3 (TOp 4 6 (text_word 6 9 "0000000" 3 (text_word 10 19 "0000000" 9
        (TWord 19 19 (fl "0000000") PNil (TOp 9 10 TNil)))))).

Lemma ex_heredoc : prog_ok ex_heredoc_line ex_heredoc_tree = 1 /\
  exists sp, highlight_gen false ex_heredoc_line 0 ex_heredoc_tree = Some sp /\ ~ spec ex_heredoc_line sp.
Proof.
  split; [vm_compute; reflexivity|]. eexists. split; [vm_compute; reflexivity|].
  intros H. apply spec_code_correct in H. vm_compute in H. discriminate.
Qed.

(** the same input through the clamped form of append_span *)
Lemma ex_heredoc_clamped :
  calls_aligned ex_heredoc_line (prog_calls 0 ex_heredoc_line 0 ex_heredoc_tree) = true /\
  highlight_gen true ex_heredoc_line 0 ex_heredoc_tree =
    Some [(0, 3, KUnknown); (3, 4, KComment); (4, 6, KOperator); (6, 9, KDefault); (9, 10, KComment);
          (10, 19, KDefault)].
Proof. split; vm_compute; reflexivity. Qed.

(** echo `\`é` : word.rs unescapes \` inside backquotes, so the nested command text "`é" is one
    byte shorter than its source and its end lands inside é: append_span's debug assertion fails *)
Definition ex_bq_line : str := lit "echo `\`" ++ [233%N] ++ lit "`".
Definition ex_bq_tree : prog :=
  GToks (text_word 0 4 "0000110" 4
        (TWord 5 10 (fl "0000000") (PCons (PCmd true 0 6 (lit "`" ++ [233%N]) GErr) PNil) TNil)).

Lemma ex_bq : prog_ok ex_bq_line ex_bq_tree = 4 /\
  forall clamp, highlight_gen clamp ex_bq_line 0 ex_bq_tree = None.
Proof. split; [vm_compute; reflexivity | intros [|]; vm_compute; reflexivity]. Qed.
