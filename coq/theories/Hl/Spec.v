(** C19 — the property, stated on bytes the way the standard library and the upstream fuzz
    target (fuzz/fuzz_targets/fuzz_highlight.rs) state it, independently of the builder. *)
From Coq Require Import Sorted.
From BV Require Import Base.Prelude Hl.Spans.
Local Open Scope nat_scope.

Definition byte := N.

(** UTF-8 encoding of a scalar value (total: values beyond U+10FFFF are folded into 4 bytes). *)
Definition utf8_enc (c : char) : list byte :=
  (if c <? 128 then [c]
   else if c <? 2048 then [192 + c / 64; 128 + c mod 64]
   else if c <? 65536 then [224 + c / 4096; 128 + (c / 64) mod 64; 128 + c mod 64]
   else [240 + (c / 262144) mod 8; 128 + (c / 4096) mod 64; 128 + (c / 64) mod 64; 128 + c mod 64])%N.

Definition utf8 (s : str) : list byte := flat_map utf8_enc s.

(** a UTF-8 continuation byte: 0b10xxxxxx *)
Definition is_cont (b : byte) : bool := ((128 <=? b) && (b <? 192))%N.

(** [str::is_char_boundary(i)] on the bytes of the string *)
Definition is_cb (bs : list byte) (i : nat) : bool :=
  if i =? 0 then true
  else match nth_error bs i with
       | Some b => negb (is_cont b)
       | None => i =? length bs
       end.

Definition slice (bs : list byte) (s e : nat) : list byte := firstn (e - s) (skipn s bs).

(** [str::get(s..e)] *)
Definition get (bs : list byte) (s e : nat) : option (list byte) :=
  if (s <=? e) && (e <=? length bs) && is_cb bs s && is_cb bs e then Some (slice bs s e) else None.

(** [Highlighted::text]: [line.get(range).unwrap_or("")] *)
Definition text (bs : list byte) (x : span) : list byte :=
  match get bs (sstart x) (send x) with Some t => t | None => [] end.

(** what the reedline highlighter pushes into the styled text, concatenated *)
Definition render (bs : list byte) (sp : list span) : list byte := flat_map (text bs) sp.

(** each span starts where the previous one ended; the first at [a], the last ends at [b] *)
Fixpoint contiguous (a : nat) (sp : list span) (b : nat) : Prop :=
  match sp with
  | [] => a = b
  | x :: r => sstart x = a /\ contiguous (send x) r b
  end.

Definition span_valid (bs : list byte) (x : span) : Prop :=
  sstart x <= send x /\ send x <= length bs /\ is_cb bs (sstart x) = true /\ is_cb bs (send x) = true.

(** The two assertions of the fuzz target. *)
Definition spec_core (line : str) (sp : list span) : Prop :=
  Forall (span_valid (utf8 line)) sp /\ contiguous 0 sp (length (utf8 line)).

(** The property as worded in properties.jsonl. *)
Definition spec (line : str) (sp : list span) : Prop :=
  let bs := utf8 line in
  Forall (span_valid bs) sp                                           (* in range, on char boundaries *)
  /\ StronglySorted (fun a b => send a <= sstart b) sp                (* ordered, non-overlapping *)
  /\ contiguous 0 sp (length bs)                                      (* contiguous from 0 to the end *)
  /\ (forall i, i < length bs -> exists x, In x sp /\ sstart x <= i < send x)   (* every byte covered *)
  /\ render bs sp = bs.                                               (* rendering reproduces the text *)

(** Decidable form of [spec_core] for the runner: 0 = holds, otherwise
    1 start > end, 2 end beyond the line, 3 start off a char boundary, 4 end off a char boundary,
    5 gap or overlap before a span, 6 the last span does not end at the line's end. *)
Definition valid_code (bs : list byte) (x : span) : nat :=
  andc (chk (sstart x <=? send x) 1)
    (andc (chk (send x <=? length bs) 2)
       (andc (chk (is_cb bs (sstart x)) 3) (chk (is_cb bs (send x)) 4))).

Fixpoint contig_code (bs : list byte) (a : nat) (sp : list span) : nat :=
  match sp with
  | [] => chk (a =? length bs) 6
  | x :: r => andc (valid_code bs x) (andc (chk (sstart x =? a) 5) (contig_code bs (send x) r))
  end.

Definition spec_code (line : str) (sp : list span) : nat := contig_code (utf8 line) 0 sp.
