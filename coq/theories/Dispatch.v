(** One dispatcher for all correspondence entry points. *)
From Coq Require Import String.
From BV Require Import Base.Prelude Base.Codec.
From BV Require Hist.Entry.

Definition dispatch (name : str) (args : list str) : list str :=
  if str_eqb name (lit "c20") then Hist.Entry.entry_c20 args
  else [lit "?unknown-entry"].
