(** C10 — theorems about the redirection model. *)
From BV Require Import Base.Prelude Redir.FdTable Redir.Apply Redir.Spec Redir.Prog Redir.Interp Redir.SpecInterp.
Local Open Scope nat_scope.

(** ** The layered table and the flat table agree *)
Definition agree (T L P : tbl) : Prop := forall n, flat_lookup T n = try_fd L P n.

Lemma flat_tset T n e m : flat_lookup (tset T n e) m = if Nat.eqb n m then e else flat_lookup T m.
Proof.
  unfold flat_lookup. destruct (Nat.eqb n m) eqn:E.
  - apply Nat.eqb_eq in E; subst. rewrite tlookup_tset_same; auto.
  - apply Nat.eqb_neq in E. rewrite tlookup_tset_other; auto.
Qed.

Lemma flat_tremove T n m : flat_lookup (tremove T n) m = if Nat.eqb n m then None else flat_lookup T m.
Proof.
  unfold flat_lookup. destruct (Nat.eqb n m) eqn:E.
  - apply Nat.eqb_eq in E; subst. rewrite tlookup_tremove_same; auto.
  - apply Nat.eqb_neq in E. rewrite tlookup_tremove_other; auto.
Qed.

Lemma try_fd_tset L P n e m : try_fd (tset L n e) P m = if Nat.eqb n m then e else try_fd L P m.
Proof.
  unfold try_fd. destruct (Nat.eqb n m) eqn:E.
  - apply Nat.eqb_eq in E; subst. rewrite tlookup_tset_same; auto.
  - apply Nat.eqb_neq in E. rewrite tlookup_tset_other; auto.
Qed.

Lemma agree_tset T L P n e : agree T L P -> agree (tset T n e) (tset L n e) P.
Proof. intros H m. rewrite flat_tset, try_fd_tset. destruct (Nat.eqb n m); auto. Qed.

Lemma agree_close T L P n : agree T L P -> agree (tremove T n) (tset L n None) P.
Proof. intros H m. rewrite flat_tremove, try_fd_tset. destruct (Nat.eqb n m); auto. Qed.

Lemma agree_same T L P n id : agree T L P -> flat_lookup T n = Some id -> agree T (tset L n (Some id)) P.
Proof.
  intros H Hn m. rewrite try_fd_tset. destruct (Nat.eqb n m) eqn:E; auto.
  apply Nat.eqb_eq in E; subst; auto.
Qed.

(** ** open flags: the code's choice and the specification's coincide *)
Lemma k_open_w_irrelevant w p r wr t c x :
  k_open w p (fl r wr true t c x) = k_open w p (fl r true true t c x).
Proof. unfold k_open, fl; cbn. destruct (nth_error (files w) p); auto. rewrite !orb_true_r. reflexivity. Qed.

Lemma open_same nc w k p :
  k_open w p (flags_of nc (is_file w p) k) = spec_open nc w k p.
Proof.
  destruct k; cbn [flags_of spec_open]; try reflexivity.
  destruct nc; cbn [andb]; [|reflexivity].
  unfold is_file, k_open.
  destruct (nth_error (files w) p) as [[ex reg data]|] eqn:Ef; cbn; [|reflexivity].
  destruct ex, reg; cbn; reflexivity.
Qed.

(** ** one redirection *)
Definition rel_res (P : tbl) (a : (world * tbl) + rerr) (b : (world * tbl) + rerr) : Prop :=
  match a, b with
  | inl (w1, L1), inl (w2, T2) => w1 = w2 /\ agree T2 L1 P
  | inr e1, inr e2 => e1 = e2
  | _, _ => False
  end.

Lemma both_refines nc w T L P p app :
  agree T L P ->
  rel_res P (both_to nc w L p app) (spec_redirect 2 nc w T (RBoth p app)).
Proof.
  intros HA. unfold both_to. cbn [spec_redirect].
  destruct app.
  - cbn [spec_open negb]. rewrite <- (k_open_w_irrelevant w p false false false true false).
    destruct (k_open w p (fl false false true false true false)) as [w' [id|e]] eqn:E; cbn.
    + unfold sys_install. split; auto.
      apply agree_tset. apply agree_tset. exact HA.
    + reflexivity.
  - rewrite open_same.
    destruct (spec_open nc w RWrite p) as [w' [id|e]] eqn:E; cbn.
    + unfold sys_install. split; auto.
      apply agree_tset. apply agree_tset. exact HA.
    + reflexivity.
Qed.

Lemma step_refines nc P w L T r :
  agree T L P ->
  rel_res P (setup_redirect nc P w L r) (spec_redirect1 nc w T r).
Proof.
  intros HA.
  unfold spec_redirect1. destruct r as [n k p|n out src|n out|p app|n p|n body|n s]; cbn [setup_redirect].
  - (* file *) cbn [spec_redirect]. rewrite open_same.
    destruct (spec_open nc w k p) as [w' [id|e]]; cbn; auto.
    split; auto. unfold sys_install.
    replace (spec_default k) with (default_fd k) by (destruct k; reflexivity).
    apply agree_tset; auto.
  - (* dup *) cbn [spec_redirect]. unfold default_dup_fd.
    set (dst := match n with Some n0 => n0 | None => if out then 1 else 0 end) in *.
    destruct (Nat.eqb src dst) eqn:E.
    + cbn. split; auto.
    + unfold sys_dup2. rewrite <- (HA src). destruct (flat_lookup T src) as [id|]; cbn; auto.
      split; auto. apply agree_tset; auto.
  - (* close *) cbn [spec_redirect]. cbn. split; auto. unfold sys_close, default_dup_fd. apply agree_close; auto.
  - (* both *) change (spec_redirect 3 nc w T (RBoth p app)) with (spec_redirect 2 nc w T (RBoth p app)).
    apply both_refines; auto.
  - (* >&word *) cbn [spec_redirect].
    destruct n as [[|[|k]]|]; cbn [Nat.eqb].
    + reflexivity.
    + apply both_refines; auto.
    + reflexivity.
    + apply both_refines; auto.
  - (* here-document *) cbn [spec_redirect]. destruct (k_pipe_with w body) as [w' id]. cbn. split; auto.
    unfold sys_install. apply agree_tset; auto.
  - (* here-string *) cbn [spec_redirect]. destruct (k_pipe_with w (s ++ [NL])) as [w' id]. cbn. split; auto.
    unfold sys_install. apply agree_tset; auto.
Qed.

(** ** redirection lists: the layered application refines the flat one *)
Theorem layered_refines_flat : forall rs nc P w L T,
  agree T L P ->
  let '(w1, L1, e1) := apply_redirs nc P w L rs in
  let '(w2, T2, e2) := spec_apply nc w T rs in
  w1 = w2 /\ e1 = e2 /\ agree T2 L1 P.
Proof.
  induction rs as [|r rs IH]; intros nc P w L T HA; cbn [apply_redirs spec_apply].
  - auto.
  - assert (Hstep := step_refines nc P w L T r HA).
    unfold rel_res in Hstep.
    destruct (setup_redirect nc P w L r) as [[w1 L1]|e1]; destruct (spec_redirect1 nc w T r) as [[w2 T2]|e2];
      try contradiction.
    + destruct Hstep as [-> HA']. apply IH; auto.
    + subst. auto.
Qed.

(** the order of redirections matters, in the model exactly as in the specification:
    [2>&1 >c] leaves 2 on the old 1, [>c 2>&1] sends both to the file *)
Definition ex_world : world :=
  {| files := [ {| f_exists := true; f_regular := false; f_data := [] |};
                {| f_exists := true; f_regular := true; f_data := [] |};
                {| f_exists := true; f_regular := true; f_data := [] |};
                {| f_exists := true; f_regular := true; f_data := [] |};
                {| f_exists := false; f_regular := true; f_data := [] |} ];
     descs := [ {| d_file := 1; d_off := 0; d_app := false; d_r := true; d_w := false; d_std := Some 0 |};
                {| d_file := 2; d_off := 0; d_app := false; d_r := false; d_w := true; d_std := Some 1 |};
                {| d_file := 3; d_off := 0; d_app := false; d_r := false; d_w := true; d_std := Some 2 |} ] |}.
Definition ex_tbl : tbl := [(0, Some 0); (1, Some 1); (2, Some 2)].

Example order_matters :
  let a := apply_redirs false ex_tbl ex_world [] [RDup (Some 2) true 1; RFile None RWrite 4] in
  let b := apply_redirs false ex_tbl ex_world [] [RFile None RWrite 4; RDup (Some 2) true 1] in
  (try_fd (snd (fst a)) ex_tbl 1, try_fd (snd (fst a)) ex_tbl 2) = (Some 3, Some 1) /\
  (try_fd (snd (fst b)) ex_tbl 1, try_fd (snd (fst b)) ex_tbl 2) = (Some 3, Some 3) /\
  (flat_lookup (snd (fst (spec_apply false ex_world ex_tbl [RDup (Some 2) true 1; RFile None RWrite 4]))) 2,
   flat_lookup (snd (fst (spec_apply false ex_world ex_tbl [RFile None RWrite 4; RDup (Some 2) true 1]))) 2)
  = (Some 1, Some 3).
Proof. vm_compute. auto. Qed.

(** ** open flags per operator (what the code passes to [OpenOptions]) *)
Theorem open_flags_table :
  flags_of false false RRead = fl true false false false false false /\
  (forall isf, flags_of false isf RWrite = fl false true false true true false) /\
  flags_of true true RWrite = fl false true false false false true /\
  flags_of true false RWrite = fl false true false false true false /\
  (forall nc isf, flags_of nc isf RAppend = fl false false true false true false) /\
  (forall nc isf, flags_of nc isf RReadWrite = fl true true false false true false) /\
  (forall nc isf, flags_of nc isf RClobber = fl false true false true true false) /\
  (forall nc w k p, k_open w p (flags_of nc (is_file w p) k) = spec_open nc w k p).
Proof. repeat split; try reflexivity; intros; try (destruct isf; reflexivity). apply open_same. Qed.

(** ** noclobber *)
Definition file_at (w : world) (p : nat) : option fentry := nth_error (files w) p.

Lemma k_open_other w p fl0 q : p <> q -> file_at (fst (k_open w p fl0)) q = file_at w q.
Proof.
  intros H. unfold k_open, file_at.
  destruct (nth_error (files w) p) as [f|]; cbn; auto.
  destruct (f_exists f && o_excl fl0); cbn; auto.
  destruct (negb (f_exists f) && negb (o_create fl0 || o_excl fl0)); cbn; auto.
  apply nth_error_upd_other; auto.
Qed.

Lemma k_pipe_keeps w s q f : file_at w q = Some f -> file_at (fst (k_pipe_with w s)) q = Some f.
Proof.
  unfold k_pipe_with, file_at, new_desc; cbn. intros H. rewrite nth_error_app1; auto.
  apply nth_error_Some. congruence.
Qed.

(** redirection forms that may not overwrite under noclobber: everything except [>|], [>>],
    [<>] and the [&>] family (see the known finding for the latter) *)
Definition guarded (r : redir) : bool :=
  match r with
  | RFile _ RWrite _ | RFile _ RRead _ => true
  | RDup _ _ _ | RClose _ _ | RHereDoc _ _ | RHereStr _ _ => true
  | _ => false
  end.

Lemma is_file_at w p : is_file w p = true -> exists f, file_at w p = Some f /\ f_exists f = true /\ f_regular f = true.
Proof.
  unfold is_file, file_at. destruct (nth_error (files w) p) as [f|]; [|discriminate].
  intros H. apply andb_true_iff in H. exists f; tauto.
Qed.

Lemma guarded_step_keeps P w L r p f :
  guarded r = true -> file_at w p = Some f -> f_exists f = true -> f_regular f = true ->
  match setup_redirect true P w L r with
  | inl (w', _) => file_at w' p = Some f
  | inr _ => True
  end.
Proof.
  intros Hg Hf Hex Hreg.
  destruct r as [n k q|n out src|n out|q app|n q|n body|n s]; cbn in Hg; try discriminate; cbn [setup_redirect].
  - destruct k; try discriminate.
    + (* read *) cbn [flags_of].
      destruct (Nat.eq_dec q p) as [->|Hne].
      * unfold k_open. unfold file_at in Hf. rewrite Hf. rewrite Hex. cbn.
        unfold file_at, set_file, new_desc; cbn. rewrite nth_error_upd_same; [destruct f; cbn in *; subst; reflexivity|].
        apply nth_error_Some. congruence.
      * pose proof (k_open_other w q (fl true false false false false false) p Hne) as Ho.
        destruct (k_open w q (fl true false false false false false)) as [w' [id|e]]; cbn in *; auto. congruence.
    + (* write *)
      destruct (Nat.eq_dec q p) as [->|Hne].
      * assert (is_file w p = true) as -> by (unfold is_file; unfold file_at in Hf; rewrite Hf, Hex, Hreg; reflexivity).
        cbn [flags_of]. unfold k_open. unfold file_at in Hf. rewrite Hf, Hex. cbn. exact I.
      * pose proof (k_open_other w q (flags_of true (is_file w q) RWrite) p Hne) as Ho.
        destruct (k_open w q (flags_of true (is_file w q) RWrite)) as [w' [id|e]]; cbn in *; auto. congruence.
  - destruct (Nat.eqb src _); auto. destruct (try_fd L P src); auto.
  - auto.
  - pose proof (k_pipe_keeps w body p f Hf). destruct (k_pipe_with w body); cbn in *; auto.
  - pose proof (k_pipe_keeps w (s ++ [NL]) p f Hf). destruct (k_pipe_with w (s ++ [NL])); cbn in *; auto.
Qed.

(** Under noclobber no list of guarded redirections changes an existing regular file. *)
Theorem noclobber_never_truncates : forall rs P w L p f,
  forallb guarded rs = true ->
  file_at w p = Some f -> f_exists f = true -> f_regular f = true ->
  file_at (fst (fst (apply_redirs true P w L rs))) p = Some f.
Proof.
  induction rs as [|r rs IH]; intros P w L p f Hg Hf Hex Hreg; cbn [apply_redirs]; auto.
  cbn in Hg. apply andb_true_iff in Hg. destruct Hg as [Hg1 Hg2].
  pose proof (guarded_step_keeps P w L r p f Hg1 Hf Hex Hreg) as Hs.
  destruct (setup_redirect true P w L r) as [[w' L']|e]; cbn; auto.
Qed.

(** [n>f] on an existing regular file under noclobber fails with EEXIST ... *)
Theorem noclobber_write_refused : forall P w L n p,
  is_file w p = true -> setup_redirect true P w L (RFile n RWrite p) = inr (EOpenFail p EEXIST).
Proof.
  intros P w L n p H. cbn [setup_redirect]. rewrite H. cbn [flags_of].
  apply is_file_at in H. destruct H as [f [Hf [Hex _]]]. unfold k_open. unfold file_at in Hf. rewrite Hf, Hex. reflexivity.
Qed.

(** ... while [n>|f] truncates it. *)
Theorem clobber_truncates : forall nc P w L n p,
  is_file w p = true ->
  exists w' L', setup_redirect nc P w L (RFile n RClobber p) = inl (w', L') /\
                file_at w' p = Some {| f_exists := true; f_regular := true; f_data := [] |}.
Proof.
  intros nc P w L n p H. cbn [setup_redirect flags_of].
  apply is_file_at in H. destruct H as [f [Hf [Hex Hreg]]]. unfold k_open. unfold file_at in Hf. rewrite Hf, Hex. cbn.
  rewrite Hreg. cbn. eexists _, _. split; [reflexivity|].
  unfold file_at; cbn. apply nth_error_upd_same. apply nth_error_Some. congruence.
Qed.

(** ** program level: induction principle for the nested command type *)
Section CmdInd.
  Variable Q : cmd -> Prop.
  Hypothesis HS : forall rs a, Q (CSimple rs a).
  Hypothesis HX : forall rs, Q (CExec rs).
  Hypothesis HG : forall k body rs, Forall Q body -> Q (CGroup k body rs).
  Hypothesis HF : forall body drs crs, Forall Q body -> Q (CFunc body drs crs).
  Fixpoint cmd_ind2 (c : cmd) : Q c :=
    match c with
    | CSimple rs a => HS rs a
    | CExec rs => HX rs
    | CGroup k body rs =>
        HG k body rs ((fix go (l : list cmd) : Forall Q l :=
                         match l with [] => Forall_nil _ | x :: l' => Forall_cons _ (cmd_ind2 x) (go l') end) body)
    | CFunc body drs crs =>
        HF body drs crs ((fix go (l : list cmd) : Forall Q l :=
                            match l with [] => Forall_nil _ | x :: l' => Forall_cons _ (cmd_ind2 x) (go l') end) body)
    end.
End CmdInd.

(** unfolding equations of the interpreter (the local list recursion is [run_list]) *)
Lemma run_cmd_group nc m k body rs w P L :
  run_cmd nc m (CGroup k body rs) w P L =
  match apply_redirs nc P w L rs with
  | (w1, L1, Some e) => let '(w2, f) := simple_redirect_error m w1 L1 P e in (w2, P, f)
  | (w1, L1, None) =>
      match k with
      | GBrace => run_list nc m body w1 P L1
      | GLoop => match run_list nc m body w1 P L1 with
                 | (w2, P2, FNormal) => run_list nc m body w2 P2 L1
                 | r => r
                 end
      | GSubshell => match run_list nc m body w1 P L1 with
                     | (w2, _, FNormal) => (w2, P, FNormal)
                     | (w2, _, FAbort kd a) => (put w2 (try_fd L1 P) 2 (msg m 1 kd a), P, FNormal)
                     end
      end
  end.
Proof. reflexivity. Qed.

Lemma run_cmd_func nc m body drs crs w P L :
  run_cmd nc m (CFunc body drs crs) w P L =
  match apply_redirs nc P w L crs with
  | (w1, L1, Some e) => let '(w2, f) := simple_redirect_error m w1 L1 P e in (w2, P, f)
  | (w1, L1, None) =>
      match apply_redirs nc P w1 L1 drs with
      | (w2, L2, Some e) =>
          match simple_redirect_error m w2 L2 P e with
          | (w3, FNormal) => (w3, P, FNormal)
          | (w3, FAbort kd a) => (put w3 (try_fd L1 P) 2 (msg m 1 kd a), P, FNormal)
          end
      | (w2, L2, None) =>
          match run_list nc m body w2 P L2 with
          | (w3, P3, FNormal) => (w3, P3, FNormal)
          | (w3, P3, FAbort kd a) => (put w3 (try_fd L1 P) 2 (msg m 1 kd a), P3, FNormal)
          end
      end
  end.
Proof. reflexivity. Qed.

Fixpoint no_exec (c : cmd) : bool :=
  match c with
  | CSimple _ _ => true
  | CExec _ => false
  | CGroup _ body _ => forallb no_exec body
  | CFunc body _ _ => forallb no_exec body
  end.

Definition keeps_P nc m (c : cmd) : Prop :=
  no_exec c = true -> forall w P L, snd (fst (run_cmd nc m c w P L)) = P.

Lemma run_list_keeps nc m body :
  Forall (keeps_P nc m) body -> forallb no_exec body = true ->
  forall w P L, snd (fst (run_list nc m body w P L)) = P.
Proof.
  induction 1 as [|c cs Hc Hcs IH]; intros Hn w P L; cbn [run_list]; auto.
  cbn in Hn. apply andb_true_iff in Hn. destruct Hn as [Hn1 Hn2].
  specialize (Hc Hn1 w P L).
  destruct (run_cmd nc m c w P L) as [[w' P'] f]; cbn in Hc; subst P'.
  destruct f; cbn; auto.
Qed.

(** After any command that contains no [exec], the shell's own (persistent) table is exactly
    what it was: every redirection went to the per-command layer. *)
Theorem shell_table_untouched : forall nc m c, no_exec c = true ->
  forall w P L, snd (fst (run_cmd nc m c w P L)) = P.
Proof.
  intros nc m c. change (keeps_P nc m c). induction c using cmd_ind2; unfold keeps_P; intros Hn w P L.
  - cbn [run_cmd]. destruct (apply_redirs nc P w L rs) as [[w1 L1] [e|]]; cbn; auto.
    destruct (simple_redirect_error m w1 L1 P e); reflexivity.
  - discriminate.
  - rewrite run_cmd_group. cbn [no_exec] in Hn.
    destruct (apply_redirs nc P w L rs) as [[w1 L1] [e|]].
    + destruct (simple_redirect_error m w1 L1 P e); reflexivity.
    + pose proof (run_list_keeps nc m body H Hn) as HK.
      destruct k.
      * apply HK.
      * destruct (run_list nc m body w1 P L1) as [[w2 P2] f]; destruct f; reflexivity.
      * specialize (HK w1 P L1) as HK1.
        destruct (run_list nc m body w1 P L1) as [[w2 P2] f]; cbn in HK1; subst P2. destruct f; cbn; auto.
  - rewrite run_cmd_func. cbn [no_exec] in Hn.
    destruct (apply_redirs nc P w L crs) as [[w1 L1] [e|]].
    + destruct (simple_redirect_error m w1 L1 P e); reflexivity.
    + destruct (apply_redirs nc P w1 L1 drs) as [[w2 L2] [e|]].
      * destruct (simple_redirect_error m w2 L2 P e) as [w3 [|kd a]]; reflexivity.
      * pose proof (run_list_keeps nc m body H Hn w2 P L2) as HK.
        destruct (run_list nc m body w2 P L2) as [[w3 P3] f]; cbn in HK; subst P3. destruct f; reflexivity.
Qed.

(** ** exec: the redirections become the shell's table *)
Lemma try_fd_nil P n : try_fd [] P n = flat_lookup P n.
Proof. reflexivity. Qed.

Lemma materialize_lookup_aux L P keys n :
  flat_lookup (fold_right (fun n acc => match try_fd L P n with Some id => tset acc n (Some id) | None => acc end) [] keys) n
  = if existsb (Nat.eqb n) keys then try_fd L P n else None.
Proof.
  induction keys as [|k keys IH]; cbn [fold_right existsb]; auto.
  destruct (try_fd L P k) as [id|] eqn:Ek.
  - rewrite flat_tset. rewrite Nat.eqb_sym. destruct (Nat.eqb n k) eqn:E; cbn.
    + apply Nat.eqb_eq in E; subst; auto.
    + exact IH.
  - rewrite IH. destruct (Nat.eqb n k) eqn:E; cbn; auto.
    apply Nat.eqb_eq in E; subst. rewrite Ek. destruct (existsb (Nat.eqb k) keys); auto.
Qed.

Lemma tlookup_keys t n : tlookup t n <> None -> existsb (Nat.eqb n) (map fst t) = true.
Proof.
  induction t as [|[k e] t IH]; cbn; [congruence|].
  rewrite (Nat.eqb_sym n k). destruct (Nat.eqb k n); cbn; auto.
Qed.

Lemma materialize_view L P n : flat_lookup (materialize L P) n = try_fd L P n.
Proof.
  unfold materialize. rewrite materialize_lookup_aux.
  destruct (existsb (Nat.eqb n) (map fst L ++ map fst P)) eqn:E; auto.
  rewrite existsb_app in E. apply orb_false_iff in E. destruct E as [E1 E2].
  unfold try_fd.
  destruct (tlookup L n) eqn:EL; [rewrite tlookup_keys in E1; [discriminate|congruence]|].
  destruct (tlookup P n) eqn:EP; [rewrite tlookup_keys in E2; [discriminate|congruence]|]. reflexivity.
Qed.

(** [exec rs] at the top level (no enclosing layer): afterwards the shell's table is the flat
    table the specification computes for [rs]. *)
Theorem exec_persists : forall nc m rs w P,
  let '(w1, P1, f) := run_cmd nc m (CExec rs) w P [] in
  let '(w2, T2, e) := spec_apply nc w P rs in
  e = None -> w1 = w2 /\ f = FNormal /\ forall n, flat_lookup P1 n = flat_lookup T2 n.
Proof.
  intros nc m rs w P. cbn [run_cmd].
  pose proof (layered_refines_flat rs nc P w [] P (fun n => eq_sym (try_fd_nil P n))) as HR.
  destruct (apply_redirs nc P w [] rs) as [[w1 L1] e1]. destruct (spec_apply nc w P rs) as [[w2 T2] e2].
  destruct HR as [-> [-> HA]]. destruct e2 as [e|].
  - destruct (simple_redirect_error m w2 L1 P e). intros; discriminate.
  - intros _. split; auto. split; auto. intros n. rewrite materialize_view. symmetry. apply HA.
Qed.

(** ** what an external command receives *)
Theorem child_sees_view_outside_known : forall L P T,
  agree T L P -> k_std_closed (std_flags T) = false ->
  forall n, child_view L P n = flat_lookup T n.
Proof.
  intros L P T HA Hc n. unfold child_view.
  destruct (Nat.ltb n 3) eqn:En; [|symmetry; apply HA].
  rewrite <- (HA n).
  assert (Hn : n = 0 \/ n = 1 \/ n = 2) by (apply Nat.ltb_lt in En; lia).
  unfold std_flags in Hc; cbn [k_std_closed] in Hc.
  destruct (flat_lookup T 0) as [i0|] eqn:E0; [|discriminate].
  destruct (flat_lookup T 1) as [i1|] eqn:E1; [|discriminate].
  destruct (flat_lookup T 2) as [i2|] eqn:E2; [|discriminate].
  destruct Hn as [->|[->| ->]]; [rewrite E0|rewrite E1|rewrite E2]; reflexivity.
Qed.

(** ** regression examples for the repaired defects *)
Definition ex_world2 : world :=
  {| files := files ex_world ++ []; descs := descs ex_world |}.
(** [&>f] under noclobber on an existing regular file is refused and the file is untouched *)
Example regress_andgreater_noclobber :
  setup_redirect true ex_tbl ex_world [] (RBoth 2 false) = inr (EOpenFail 2 EEXIST).
Proof. vm_compute. reflexivity. Qed.
(** [4>&4] with 4 closed is a no-op *)
Example regress_selfdup_closed :
  setup_redirect false ex_tbl ex_world [] (RDup (Some 4) true 4) = inl (ex_world, []).
Proof. vm_compute. reflexivity. Qed.
(** after [2>&1] an external command gets the shell's stdout (description 1) on 2 *)
Example regress_std_dup :
  child_view [(2, Some 1)] ex_tbl 2 = Some 1.
Proof. vm_compute. reflexivity. Qed.
(** a failing redirection on a brace group fails only that command: the next one runs *)
Example regress_compound_failure_continues :
  let '(w, _) := run_script false [] [CGroup GBrace [CSimple [] (AEcho [105]%N)] [RDup None true 7];
                                      CSimple [] (AEcho [97]%N)] ex_world ex_tbl in
  nth_error (files w) 2 = Some {| f_exists := true; f_regular := true; f_data := [97; 10]%N |}.
Proof. vm_compute. reflexivity. Qed.
