(** C10 — processing of a here-document body whose delimiter is unquoted.

    Model of brush: [expansion.rs WordExpander::basic_expand] in [heredoc_mode] (the "nothing to
    expand" shortcut over a trigger character set, then the pieces of [word.rs heredoc_word]:
    parameter expansion, [heredoc_escape_sequence] = backslash before one of $ ` \ , literal text;
    quotes are literal; a backslash-newline is literal text) for bodies made of text, backslashes,
    [$name] and [${name}].  Command / arithmetic substitution inside bodies is checked
    differentially only.

    Spec (bash manual, Here Documents): "\<newline> is ignored, and \ must be used to quote the
    characters \, $, and `"; parameter expansion is performed; quotes have no special meaning. *)
From BV Require Import Base.Prelude Redir.HereDoc Redir.HereProofs.

Definition DOLLAR : char := 36%N.
Definition BQ : char := 96%N.
Definition LBRACE : char := 123%N.
Definition RBRACE : char := 125%N.

Definition is_name_start (c : char) : bool :=
  ((65 <=? c) && (c <=? 90) || (97 <=? c) && (c <=? 122) || (c =? 95))%N.
Definition is_name_char (c : char) : bool := is_name_start c || is_digit c.

Fixpoint take_name (s : str) : str * str :=
  match s with
  | c :: s' => if is_name_char c then let '(n, r) := take_name s' in (c :: n, r) else ([], s)
  | [] => ([], [])
  end.

Definition env := list (str * str).
Fixpoint lookup (e : env) (n : str) : str :=
  match e with
  | [] => []
  | (k, v) :: e' => if str_eqb k n then v else lookup e' n
  end.

Lemma take_name_length s : (length (snd (take_name s)) <= length s)%nat.
Proof.
  induction s as [|c s IH]; cbn [take_name]; auto.
  destruct (is_name_char c); cbn; auto. destruct (take_name s) as [n r]; cbn in *. lia.
Qed.

(** the character loop; [keep_bsnl]: a backslash-newline stays in the text (brush) or is removed (bash) *)
Fixpoint hexpand (keep_bsnl : bool) (e : env) (fuel : nat) (s : str) : str :=
  match fuel with O => [] | S fuel =>
  match s with
  | [] => []
  | c :: r =>
    if N.eqb c BSL then
      match r with
      | d :: r' =>
          if N.eqb d BSL || N.eqb d DOLLAR || N.eqb d BQ then d :: hexpand keep_bsnl e fuel r'
          else if N.eqb d NL then (if keep_bsnl then [BSL; NL] else []) ++ hexpand keep_bsnl e fuel r'
          else BSL :: hexpand keep_bsnl e fuel r
      | [] => [BSL]
      end
    else if N.eqb c DOLLAR then
      match r with
      | d :: r' =>
          if N.eqb d LBRACE then
            let '(n, r'') := take_name r' in
            match n, r'' with
            | _ :: _, b :: r3 => if N.eqb b RBRACE then lookup e n ++ hexpand keep_bsnl e fuel r3
                                 else DOLLAR :: hexpand keep_bsnl e fuel r
            | _, _ => DOLLAR :: hexpand keep_bsnl e fuel r
            end
          else if is_name_start d then
            let '(n, r'') := take_name r in lookup e n ++ hexpand keep_bsnl e fuel r''
          else DOLLAR :: hexpand keep_bsnl e fuel r
      | [] => [DOLLAR]
      end
    else c :: hexpand keep_bsnl e fuel r
  end end.

(** brush: the shortcut of [basic_expand] — a body without any trigger character is returned as it is *)
Definition code_expand (triggers : list char) (e : env) (body : str) : str :=
  if existsb (fun c => existsb (N.eqb c) triggers) body then hexpand true e (S (length body)) body else body.

(** bash *)
Definition spec_expand (e : env) (body : str) : str := hexpand false e (S (length body)) body.

(** the open deviation class: the body contains a backslash-newline whose backslash is not itself quoted *)
Fixpoint bsnl_go (esc : bool) (s : str) : bool :=
  match s with
  | [] => false
  | c :: r => if esc then (if N.eqb c NL then true else bsnl_go false r)
              else bsnl_go (N.eqb c BSL) r
  end.
Definition has_bsnl (s : str) : bool := bsnl_go false s.

(** what the command reads: tab stripping per line for [<<-], then expansion iff the delimiter
    token has no quoting character *)
Definition doc_lines (strip : bool) (raw : str) : str :=
  let ls := lines_of raw [] in
  (* [raw] ends with a newline: the last element of [lines_of] is the empty remainder *)
  unlines (map (fun l => if strip then drop_tabs l else l) (removelast ls)).

Definition code_doc (triggers : list char) (e : env) (strip : bool) (tok raw : str) : str :=
  let d := doc_lines strip raw in if requires_expansion tok then code_expand triggers e d else d.
Definition spec_doc_text (e : env) (strip : bool) (tok raw : str) : str :=
  let d := doc_lines strip raw in if has_quoting tok then d else spec_expand e d.

(** ** theorems *)
Definition heredoc_triggers : list char := [DOLLAR; BQ; BSL].

Lemma hexpand_plain k e : forall fuel s, (length s < fuel)%nat ->
  existsb (fun c => existsb (N.eqb c) heredoc_triggers) s = false -> hexpand k e fuel s = s.
Proof.
  induction fuel as [|fuel IH]; intros s Hl Hn; [lia|].
  destruct s as [|c r]; cbn [hexpand]; auto.
  cbn [existsb] in Hn. apply orb_false_iff in Hn. destruct Hn as [Hc Hr].
  unfold heredoc_triggers in Hc. cbn [existsb] in Hc.
  repeat (apply orb_false_iff in Hc; destruct Hc as [? Hc]).
  replace (N.eqb c BSL) with false by auto. replace (N.eqb c DOLLAR) with false by auto.
  rewrite IH; auto. cbn in Hl. lia.
Qed.

(** The "nothing to expand" shortcut is sound for the trigger set of the source. *)
Theorem shortcut_sound : forall e body,
  existsb (fun c => existsb (N.eqb c) heredoc_triggers) body = false ->
  hexpand true e (S (length body)) body = body.
Proof. intros. apply hexpand_plain; auto. Qed.

Lemma name_char_not_bsl c : is_name_char c = true -> N.eqb c BSL = false.
Proof. intros H. destruct (N.eqb c BSL) eqn:E; auto. apply N.eqb_eq in E. subst. discriminate. Qed.

Lemma bsnl_take_name s : bsnl_go false s = false -> bsnl_go false (snd (take_name s)) = false.
Proof.
  induction s as [|c s IH]; cbn [take_name]; auto. intros H.
  destruct (is_name_char c) eqn:E; [|exact H].
  cbn [bsnl_go] in H. rewrite (name_char_not_bsl c E) in H.
  destruct (take_name s) as [n r]; cbn in *. auto.
Qed.

Lemma hexpand_keep_irrelevant e : forall fuel s, bsnl_go false s = false ->
  hexpand true e fuel s = hexpand false e fuel s.
Proof.
  induction fuel as [|fuel IH]; intros s H; auto.
  destruct s as [|c r]; cbn [hexpand]; auto.
  cbn [bsnl_go] in H.
  destruct (N.eqb c BSL) eqn:Ec.
  - destruct r as [|d r']; auto. cbn [bsnl_go] in H.
    destruct (N.eqb d NL) eqn:Ed; [discriminate|].
    destruct (N.eqb d BSL || N.eqb d DOLLAR || N.eqb d BQ) eqn:Eq.
    + rewrite IH; auto.
    + f_equal. apply IH. cbn [bsnl_go].
      apply orb_false_iff in Eq. destruct Eq as [Eq _]. apply orb_false_iff in Eq. destruct Eq as [Eq _].
      rewrite Eq. exact H.
  - destruct (N.eqb c DOLLAR) eqn:Ed.
    + destruct r as [|d r']; auto.
      destruct (N.eqb d LBRACE) eqn:El.
      * assert (Hr' : bsnl_go false r' = false).
        { cbn [bsnl_go] in H. apply N.eqb_eq in El. subst d. exact H. }
        pose proof (bsnl_take_name r' Hr') as Ht.
        destruct (take_name r') as [n r'']; cbn [snd] in Ht.
        destruct n as [|n0 n]; [f_equal; apply IH; exact H|].
        destruct r'' as [|b r3]; [f_equal; apply IH; exact H|].
        destruct (N.eqb b RBRACE) eqn:Eb; [|f_equal; apply IH; exact H].
        f_equal. apply IH. cbn [bsnl_go] in Ht. apply N.eqb_eq in Eb. subst b. exact Ht.
      * destruct (is_name_start d) eqn:En; [|f_equal; apply IH; exact H].
        pose proof (bsnl_take_name (d :: r') H) as Ht.
        destruct (take_name (d :: r')) as [n r'']; cbn [snd] in Ht. f_equal. apply IH. exact Ht.
    + f_equal. apply IH. exact H.
Qed.

(** Outside the open class (an unquoted backslash-newline in the body) brush's processing of an unquoted
    here-document body is bash's: [\\] [\$] [\`] lose the backslash, any other backslash stays, [$name] and
    [${name}] are replaced, quotes are ordinary characters. *)
Theorem heredoc_body_processing_outside_known : forall e body,
  has_bsnl body = false -> code_expand heredoc_triggers e body = spec_expand e body.
Proof.
  intros e body H. unfold code_expand, spec_expand.
  destruct (existsb (fun c => existsb (N.eqb c) heredoc_triggers) body) eqn:E.
  - apply hexpand_keep_irrelevant. exact H.
  - rewrite <- (hexpand_keep_irrelevant e (S (length body)) body H). symmetry. apply shortcut_sound. exact E.
Qed.

(** A quoted delimiter: the body is only tab-stripped, never processed. *)
Theorem quoted_delimiter_body_verbatim : forall tr e strip tok raw,
  has_quoting tok = true ->
  code_doc tr e strip tok raw = doc_lines strip raw /\ spec_doc_text e strip tok raw = doc_lines strip raw.
Proof.
  intros tr e strip tok raw H. unfold code_doc, spec_doc_text.
  destruct (expansion_iff_unquoted_delimiter tok) as [E _]. rewrite E, H. cbn. auto.
Qed.

(** the backslash rules, and that a shortcut which ignores backslashes would be wrong *)
Example backslash_rules :
  spec_expand [([120]%N, [86]%N)] [92;92; 32; 92;36;120; 32; 92;96; 32; 92;97; 32; 92;34; 32; 36;120; 32; 36;123;120;125; 32; 39;36;120;39]%N
  = [92; 32; 36;120; 32; 96; 32; 92;97; 32; 92;34; 32; 86; 32; 86; 32; 39;86;39]%N.
Proof. vm_compute. reflexivity. Qed.

Example backslash_only_body_is_processed :
  code_expand heredoc_triggers [] [67;58;92;92;100]%N = [67;58;92;100]%N /\
  code_expand [DOLLAR; BQ] [] [67;58;92;92;100]%N <> spec_expand [] [67;58;92;92;100]%N.
Proof. split; [vm_compute; reflexivity|vm_compute; discriminate]. Qed.
