(** C10 — model of [brush-core/src/interp.rs  setup_redirect] and of the loop that applies a
    command's redirections in source order to the per-command layer
    ([SimpleCommand::execute_in_pipeline], [Command::Compound], [invoke_shell_function]). *)
From BV Require Import Base.Prelude Redir.FdTable.
Local Open Scope nat_scope.

Inductive rkind := RRead | RWrite | RAppend | RReadWrite | RClobber.

Inductive redir :=
| RFile (n : option nat) (k : rkind) (path : nat)      (* [n]<f [n]>f [n]>>f [n]<>f [n]>|f *)
| RDup (n : option nat) (out : bool) (src : nat)       (* [n]>&m  /  [n]<&m *)
| RClose (n : option nat) (out : bool)                 (* [n]>&-  /  [n]<&- *)
| RBoth (path : nat) (app : bool)                      (* &>f  /  &>>f *)
| RDupWord (n : option nat) (path : nat)               (* [n]>&word, word not a number *)
| RHereDoc (n : option nat) (body : str)               (* [n]<<tag : the document text *)
| RHereStr (n : option nat) (w : str).                 (* [n]<<<word : the expanded word *)

Inductive rerr := EBadFd (n : nat) | EOpenFail (path : nat) (e : errno) | EInvalidRedir (path : nat).

(** [get_default_fd_for_redirect_kind] (checked against the source by gen/RedirDefaults.v). *)
Definition default_fd (k : rkind) : nat :=
  match k with RRead => 0 | RWrite => 1 | RAppend => 1 | RReadWrite => 0 | RClobber => 1 end.
Definition default_dup_fd (out : bool) : nat := if out then 1 else 0.

Definition is_file (w : world) (path : nat) : bool :=
  match nth_error (files w) path with Some f => f_exists f && f_regular f | None => false end.

Definition fl (r w a t c x : bool) : oflags :=
  {| o_r := r; o_w := w; o_app := a; o_trunc := t; o_create := c; o_excl := x |}.

(** The [OpenOptions] chosen per redirect kind; [nc] = the noclobber option
    ([disallow_overwriting_regular_files_via_output_redirection]), [isf] = [Path::is_file]. *)
Definition flags_of (nc isf : bool) (k : rkind) : oflags :=
  match k with
  | RRead => fl true false false false false false
  | RWrite => if nc then (if isf then fl false true false false false true
                          else fl false true false false true false)
              else fl false true false true true false
  | RAppend => fl false false true false true false
  | RReadWrite => fl true true false false true false
  | RClobber => fl false true false true true false
  end.

(** [setup_redirect_output_and_error_to]: one open, the same file on 1 and 2.  [&>f] consults the
    noclobber option exactly like [>f]; [&>>f] appends. *)
Definition both_to (nc : bool) (w : world) (L : tbl) (path : nat) (app : bool) : (world * tbl) + rerr :=
  match k_open w path (if app then fl false true true false true false
                       else flags_of nc (is_file w path) RWrite) with
  | (w', inl id) => inl (w', tset (tset L 1 (Some id)) 2 (Some id))
  | (_, inr e) => inr (EOpenFail path e)
  end.

Definition setup_redirect (nc : bool) (P : tbl) (w : world) (L : tbl) (r : redir) : (world * tbl) + rerr :=
  match r with
  | RBoth path app => both_to nc w L path app
  | RFile n k path =>
      match k_open w path (flags_of nc (is_file w path) k) with
      | (w', inl id) => inl (w', tset L (match n with Some n => n | None => default_fd k end) (Some id))
      | (_, inr e) => inr (EOpenFail path e)
      end
  | RDup n out src =>
      let fdn := match n with Some n => n | None => default_dup_fd out end in
      if Nat.eqb src fdn then inl (w, L)      (* duplicating a descriptor onto itself does nothing, open or not *)
      else match try_fd L P src with
           | Some id => inl (w, tset L fdn (Some id))
           | None => inr (EBadFd src)
           end
  | RClose n out =>
      (* the word is "-": [dash], nothing else; [remove_fd] records NotPresent *)
      let fdn := match n with Some n => n | None => default_dup_fd out end in
      inl (w, tset L fdn None)
  | RDupWord n path =>
      let fdn := match n with Some n => n | None => 1 end in
      if Nat.eqb fdn 1 then both_to nc w L path false else inr (EInvalidRedir path)
  | RHereDoc n body =>
      let '(w', id) := k_pipe_with w body in
      inl (w', tset L (match n with Some n => n | None => 0 end) (Some id))
  | RHereStr n s =>
      let '(w', id) := k_pipe_with w (s ++ [NL]) in
      inl (w', tset L (match n with Some n => n | None => 0 end) (Some id))
  end.

(** The redirections of a command, in source order; stops at the first failure (the effects of
    the earlier ones on the file system stay). *)
Fixpoint apply_redirs (nc : bool) (P : tbl) (w : world) (L : tbl) (rs : list redir) : world * tbl * option rerr :=
  match rs with
  | [] => (w, L, None)
  | r :: rs' =>
      match setup_redirect nc P w L r with
      | inl (w', L') => apply_redirs nc P w' L' rs'
      | inr e => (w, L, Some e)
      end
  end.
