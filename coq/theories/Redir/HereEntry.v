(** C10 here-document correspondence entry. *)
From Coq Require Import String.
From BV Require Import Base.Prelude Base.Codec Redir.HereDoc.

Fixpoint dec_tags (n : nat) (a : list str) : option (list (bool * str) * list str) :=
  match n with
  | O => Some ([], a)
  | S n' => match a with
            | s :: t :: r => match dec_tags n' r with Some (ts, r') => Some ((dec_bool s, t) :: ts, r') | None => None end
            | _ => None
            end
  end.

Definition show_res (tags : list (bool * str)) (r : option (list str * str)) : list str :=
  match r with
  | Some (bodies, rest) =>
      lit "OK" :: enc_nat (length bodies) ::
      flat_map (fun p => [fst p; tag_of_token (snd (snd p))]) (combine bodies tags) ++ [rest]
  | None => [lit "UNTERMINATED"]
  end.

(** args: ndocs, (strip, tag token)*, text after the first line.
    result: model result, "S", spec result, "X", requires_expansion per tag *)
Definition entry_c10_here (a : list str) : list str :=
  match a with
  | n :: r =>
    match dec_tags (dec_nat n) r with
    | Some (tags, [text]) =>
        show_res tags (scan_all tags text) ++ [lit "S"] ++ show_res tags (spec_all tags text)
        ++ [lit "X"] ++ map (fun p => enc_bool (requires_expansion (snd p))) tags
    | _ => [lit "?args"]
    end
  | [] => [lit "?args"]
  end.
