(** C10 correspondence entry for here-document body processing. *)
From Coq Require Import String.
From BV Require Import Base.Prelude Base.Codec Redir.HereDoc Redir.HereExpand.

Fixpoint dec_env (n : nat) (a : list str) : option (env * list str) :=
  match n with
  | O => Some ([], a)
  | S n' => match a with
            | k :: v :: r => match dec_env n' r with Some (e, r') => Some ((k, v) :: e, r') | None => None end
            | _ => None
            end
  end.

Fixpoint run_docs (e : env) (n : nat) (a : list str) : list str :=
  match n with
  | O => []
  | S n' => match a with
            | s :: tok :: raw :: r =>
                let strip := dec_bool s in
                [code_doc heredoc_triggers e strip tok raw; spec_doc_text e strip tok raw;
                 enc_bool (negb (has_quoting tok) && has_bsnl (doc_lines strip raw))] ++ run_docs e n' r
            | _ => [lit "?doc"]
            end
  end.

(** args: nvars, (name, value)*, ndocs, (strip, delimiter token, raw body lines)*.
    result per document: text by the model of brush, text by the spec, open-class flag *)
Definition entry_c10_hexp (a : list str) : list str :=
  match a with
  | nv :: r =>
    match dec_env (dec_nat nv) r with
    | Some (e, nd :: r') => run_docs e (dec_nat nd) r'
    | _ => [lit "?args"]
    end
  | [] => [lit "?args"]
  end.
