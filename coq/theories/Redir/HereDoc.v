(** C10 — model of the here-document part of [brush-parser/src/tokenizer.rs]:
    the [HereState::InHereDocs] branch of [next_token_until] (character loop with tab skipping),
    [remove_here_end_tag] (the end-tag test made at every newline and at end of input),
    the tag computation of [delimit_current_token] ([CurrentTokenIsHereTag] arm: trailing
    newline appended, [tag_was_escaped_or_quoted], [unquote_str]) and the queue of tags of one
    line; and [peg.rs io_here]'s [requires_expansion].

    The token under construction is kept reversed ([rtok]): [String::push] is a cons. *)
From BV Require Import Base.Prelude.

Definition TAB : char := 9%N.
Definition BSL : char := 92%N.
Definition SQ : char := 39%N.
Definition DQ : char := 34%N.

(** [is_quoting_char] *)
Definition is_quoting_char (c : char) : bool := N.eqb c BSL || N.eqb c SQ || N.eqb c DQ.

(** [unquote_str] *)
Fixpoint unquote_go (esc : bool) (s : str) : str :=
  match s with
  | [] => []
  | c :: s' =>
      if esc then c :: unquote_go false s'
      else if N.eqb c BSL then unquote_go true s'
      else if is_quoting_char c then unquote_go false s'
      else c :: unquote_go false s'
  end.
Definition unquote_str (s : str) : str := unquote_go false s.

Definition has_quoting (s : str) : bool := existsb is_quoting_char s.

(** the delimiter against which lines are compared (without the newline the code appends) *)
Definition tag_of_token (tok : str) : str := if has_quoting tok then unquote_str tok else tok.

(** [peg.rs io_here]: the tag contains none of single quote, double quote, backslash *)
Definition requires_expansion (tok : str) : bool := negb (existsb (fun c => N.eqb c SQ || N.eqb c DQ || N.eqb c BSL) tok).

Definition at_line_start (rtok : str) : bool := match rtok with [] => true | c :: _ => N.eqb c NL end.

Definition strip_rprefix (p s : str) : option str := if starts_with p s then Some (skipn (length p) s) else None.

(** [remove_here_end_tag]: the token ends with the tag string and what precedes it is empty or
    ends with a newline.  [rtag] is the reversed tag string. *)
Definition end_tag_at (rtag rtok : str) : option str :=
  match strip_rprefix rtag rtok with
  | Some rpre => if at_line_start rpre then Some rpre else None
  | None => None
  end.

(** One document: returns (body, rest of the input) or [None] (unterminated at end of input). *)
Fixpoint scan (t : str) (strip : bool) (rtok inp : str) : option (str * str) :=
  match inp with
  | [] => match end_tag_at (rev t) rtok with Some rpre => Some (rev rpre, []) | None => None end
  | c :: inp' =>
      if strip && at_line_start rtok && N.eqb c TAB then scan t strip rtok inp'
      else if N.eqb c NL then
        match end_tag_at (NL :: rev t) (c :: rtok) with
        | Some rpre => Some (rev rpre, inp')
        | None => scan t strip (c :: rtok) inp'
        end
      else scan t strip (c :: rtok) inp'
  end.

(** The queue of tags collected on one line: documents follow each other. *)
Fixpoint scan_all (tags : list (bool * str)) (inp : str) : option (list str * str) :=
  match tags with
  | [] => Some ([], inp)
  | (strip, tok) :: tags' =>
      match scan (tag_of_token tok) strip [] inp with
      | Some (body, rest) =>
          match scan_all tags' rest with
          | Some (bodies, rest') => Some (body :: bodies, rest')
          | None => None
          end
      | None => None
      end
  end.

(** ** Specification: a here-document is the sequence of lines up to the first line equal to
    the delimiter, after removal of leading tabs when the operator is [<<-]. *)
Fixpoint lines_of (s : str) (cur : str) : list str :=
  match s with
  | [] => [rev cur]
  | c :: s' => if N.eqb c NL then rev cur :: lines_of s' [] else lines_of s' (c :: cur)
  end.

Fixpoint drop_tabs (l : str) : str :=
  match l with c :: l' => if N.eqb c TAB then drop_tabs l' else l | [] => [] end.

Fixpoint unlines (ls : list str) : str :=
  match ls with [] => [] | l :: ls' => l ++ NL :: unlines ls' end.

Fixpoint join_lines (ls : list str) : str :=
  match ls with [] => [] | [l] => l | l :: ls' => l ++ NL :: join_lines ls' end.

(** lines -> (body lines, lines after the delimiter line); the last element of [lines_of] is the
    unterminated tail of the input (possibly empty) and may itself be the delimiter *)
Fixpoint spec_find (t : str) (strip : bool) (ls : list str) : option (list str * list str) :=
  match ls with
  | [] => None
  | l :: ls' =>
      let l' := if strip then drop_tabs l else l in
      if str_eqb l' t then Some ([], ls')
      else match ls' with
           | [] => None
           | _ => match spec_find t strip ls' with
                  | Some (b, r) => Some (l' :: b, r)
                  | None => None
                  end
           end
  end.

Definition spec_doc (t : str) (strip : bool) (inp : str) : option (str * str) :=
  match spec_find t strip (lines_of inp []) with
  | Some (b, r) => Some (unlines b, join_lines r)
  | None => None
  end.

Fixpoint spec_all (tags : list (bool * str)) (inp : str) : option (list str * str) :=
  match tags with
  | [] => Some ([], inp)
  | (strip, tok) :: tags' =>
      match spec_doc (tag_of_token tok) strip inp with
      | Some (body, rest) =>
          match spec_all tags' rest with
          | Some (bodies, rest') => Some (body :: bodies, rest')
          | None => None
          end
      | None => None
      end
  end.
