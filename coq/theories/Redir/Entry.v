(** C10 correspondence entries. *)
From Coq Require Import String.
From BV Require Import Base.Prelude Base.Codec Redir.FdTable Redir.Apply Redir.Spec Redir.Prog Redir.Interp Redir.SpecInterp.
Local Open Scope nat_scope.

Definition is (s : str) (c : string) : bool := str_eqb s (lit c).
Definition dec_optn (s : str) : option nat := match s with [] => None | _ => Some (dec_nat s) end.
Definition dec_kind (s : str) : rkind :=
  if is s "r" then RRead else if is s "w" then RWrite else if is s "a" then RAppend
  else if is s "x" then RReadWrite else RClobber.

Definition dec_redir (a : list str) : option (redir * list str) :=
  match a with
  | t :: r =>
    if is t "f" then match r with n :: k :: p :: r' => Some (RFile (dec_optn n) (dec_kind k) (dec_nat p), r') | _ => None end
    else if is t "d" then match r with n :: o :: s :: r' => Some (RDup (dec_optn n) (dec_bool o) (dec_nat s), r') | _ => None end
    else if is t "c" then match r with n :: o :: r' => Some (RClose (dec_optn n) (dec_bool o), r') | _ => None end
    else if is t "b" then match r with p :: ap :: r' => Some (RBoth (dec_nat p) (dec_bool ap), r') | _ => None end
    else if is t "w" then match r with n :: p :: r' => Some (RDupWord (dec_optn n) (dec_nat p), r') | _ => None end
    else if is t "h" then match r with n :: b :: r' => Some (RHereDoc (dec_optn n) b, r') | _ => None end
    else if is t "s" then match r with n :: b :: r' => Some (RHereStr (dec_optn n) b, r') | _ => None end
    else None
  | [] => None
  end.

Fixpoint dec_n {A} (dec : list str -> option (A * list str)) (n : nat) (a : list str) : option (list A * list str) :=
  match n with
  | O => Some ([], a)
  | S n' => match dec a with
            | Some (x, a') => match dec_n dec n' a' with Some (xs, a'') => Some (x :: xs, a'') | None => None end
            | None => None
            end
  end.

Definition dec_redirs (a : list str) : option (list redir * list str) :=
  match a with cnt :: r => dec_n dec_redir (dec_nat cnt) r | [] => None end.

Definition dec_gkind (s : str) : gkind := if is s "b" then GBrace else if is s "s" then GSubshell else GLoop.

Fixpoint dec_cmd (fuel : nat) (a : list str) : option (cmd * list str) :=
  match fuel with O => None | S fuel =>
  match a with
  | t :: r =>
    if is t "S" then
      match dec_redirs r with
      | Some (rs, k :: tag :: r') => Some (CSimple rs (if is k "e" then AEcho tag else AXProbe tag), r')
      | _ => None
      end
    else if is t "X" then
      match dec_redirs r with Some (rs, r') => Some (CExec rs, r') | None => None end
    else if is t "G" then
      match r with
      | k :: r1 =>
        match dec_redirs r1 with
        | Some (rs, cnt :: r2) =>
            match dec_n (dec_cmd fuel) (dec_nat cnt) r2 with
            | Some (body, r3) => Some (CGroup (dec_gkind k) body rs, r3)
            | None => None
            end
        | _ => None
        end
      | [] => None
      end
    else if is t "F" then
      match dec_redirs r with
      | Some (drs, r1) =>
        match dec_redirs r1 with
        | Some (crs, cnt :: r2) =>
            match dec_n (dec_cmd fuel) (dec_nat cnt) r2 with
            | Some (body, r3) => Some (CFunc body drs crs, r3)
            | None => None
            end
        | _ => None
        end
      | None => None
      end
    else None
  | [] => None
  end end.

Definition dec_msg (a : list str) : option ((nat * nat * nat * str) * list str) :=
  match a with s :: k :: g :: t :: r => Some ((dec_nat s, dec_nat k, dec_nat g, t), r) | _ => None end.

Definition dec_file (a : list str) : option (fentry * list str) :=
  match a with e :: d :: r => Some ({| f_exists := dec_bool e; f_regular := true; f_data := d |}, r) | _ => None end.

Definition std_desc (file k : nat) (r w : bool) : desc :=
  {| d_file := file; d_off := 0; d_app := false; d_r := r; d_w := w; d_std := Some k |}.

(** files: 0 /dev/null, 1 the shell's stdin (a file), 2 its stdout, 3 its stderr, 4.. the scratch files *)
Definition init_world (inp : str) (scratch : list fentry) : world :=
  {| files := [ {| f_exists := true; f_regular := false; f_data := [] |};
                {| f_exists := true; f_regular := true; f_data := inp |};
                {| f_exists := true; f_regular := true; f_data := [] |};
                {| f_exists := true; f_regular := true; f_data := [] |} ] ++ scratch;
     descs := [ std_desc 1 0 true false; std_desc 2 1 false true; std_desc 3 2 false true ] |}.
Definition init_tbl : tbl := [(0, Some 0); (1, Some 1); (2, Some 2)].

Definition show_file (f : fentry) : list str := [enc_bool (f_exists f); f_data f].
Definition show_files (w : world) : list str := flat_map show_file (firstn 5 (skipn 2 (files w))).
Definition show_tbl (look : nat -> entry) : str :=
  flat_map (fun n => match look n with Some _ => [digit n] | None => [] end) fds10.
Definition show_flags (f : flags) : list str :=
  [enc_bool (k_diag_unusable f); enc_bool (k_exec_nested f); enc_bool (k_std_closed f)].

(** args: nc, stdin-content, 3 x (exists, content), nmsgs, msgs (style kind arg text)*, ncmds, cmds.
    result: "M" model files (stdout stderr a b c: exists, content) model's final open set,
            "S" the same for the spec, "K" the three open-class flags. *)
Definition entry_c10_run (a : list str) : list str :=
  match a with
  | nc :: inp :: r0 =>
    match dec_n dec_file 3 r0 with
    | Some (scratch, nm :: r1) =>
      match dec_n dec_msg (dec_nat nm) r1 with
      | Some (m, cnt :: r2) =>
        match dec_n (dec_cmd 20) (dec_nat cnt) r2 with
        | Some (prog, []) =>
            let w0 := init_world inp scratch in
            let '(wm, Pm) := run_script (dec_bool nc) m prog w0 init_tbl in
            let '(ws, Ts, fl) := srun_script (dec_bool nc) m prog w0 init_tbl in
            (lit "M" :: show_files wm) ++ [show_tbl (flat_lookup Pm)] ++
            (lit "S" :: show_files ws) ++ [show_tbl (flat_lookup Ts)] ++ (lit "K" :: show_flags fl)
        | _ => [lit "?prog"]
        end
      | _ => [lit "?msgs"]
      end
    | _ => [lit "?files"]
    end
  | _ => [lit "?args"]
  end.
