(** C10 — program level: brush's layered interpreter and the flat-table specification agree on
    every program that stays outside the listed deviation classes. *)
From BV Require Import Base.Prelude Redir.FdTable Redir.Apply Redir.Spec Redir.Prog Redir.Interp Redir.SpecInterp Redir.Proofs.
Local Open Scope nat_scope.

(** ** flags *)
Lemma any_for a b : any_flag (for_ a b) = false -> any_flag a = false /\ any_flag b = false.
Proof.
  destruct a as [a1 a2 a3], b as [b1 b2 b3]; unfold any_flag, for_; cbn.
  destruct a1, a2, a3, b1, b2, b3; cbn; intros H; try discriminate; auto.
Qed.

Lemma any_std f : any_flag f = false -> k_std_closed f = false.
Proof. destruct f as [a b c]; unfold any_flag; cbn. destruct a, b, c; cbn; intros; try discriminate; auto. Qed.

Section P.
Variable nc : bool.
Variable m : msgtable.

(** ** observers only look at their table pointwise *)
Lemma put_ext w C C' n s : (forall k, C k = C' k) -> put w C n s = put w C' n s.
Proof. intros H. unfold put. rewrite H. reflexivity. Qed.

Lemma echo_ext w C C' tag : (forall k, C k = C' k) -> echo m w C tag = echo m w C' tag.
Proof. intros H. unfold echo. rewrite H. destruct (C' 1); [destruct (k_write w n (tag ++ [NL])) as [? []]|]; auto using put_ext. Qed.

Lemma open_set_ext w C C' : (forall k, C k = C' k) -> open_set w C = open_set w C'.
Proof. intros H. unfold open_set. apply flat_map_ext. intros k. rewrite H. reflexivity. Qed.

Lemma fold_put_ext C C' (f : nat -> str) : (forall k, C k = C' k) -> forall l w,
  fold_left (fun w n => put w C n (f n)) l w = fold_left (fun w n => put w C' n (f n)) l w.
Proof. intros H. induction l as [|n l IH]; intros w; cbn [fold_left]; auto. rewrite (put_ext w C C' n _ H). apply IH. Qed.

Lemma probe_ext w C C' tag : (forall k, C k = C' k) -> probe w C tag = probe w C' tag.
Proof.
  intros H. unfold probe. rewrite (open_set_ext w C C' H). rewrite (H 0).
  destruct (match C' 0 with Some id => k_read_all w id | None => (w, None) end) as [w1 data].
  destruct data as [s|].
  - rewrite (put_ext w1 C C' 1 _ H). apply (fold_put_ext C C' (fun n => tag ++ [58%N; digit n; 58%N] ++ open_set w C' ++ [NL]) H).
  - apply (fold_put_ext C C' (fun n => tag ++ [58%N; digit n; 58%N] ++ open_set w C' ++ [NL]) H).
Qed.

(** ** a redirection list only assigns the descriptors it names *)
Lemma tlookup_tset_notin L n e k : k <> n -> tlookup (tset L n e) k = tlookup L k.
Proof. intros H. apply tlookup_tset_other. auto. Qed.

Lemma step_untouched P w L r w' L' k :
  setup_redirect nc P w L r = inl (w', L') -> ~ In k (touched1 r) -> tlookup L' k = tlookup L k.
Proof.
  destruct r as [n kd p|n out src|n out|p app|n p|n body|n s]; cbn [setup_redirect touched1]; intros H Hk.
  - destruct (k_open w p (flags_of nc (is_file w p) kd)) as [w1 [id|e]]; inversion H; subst.
    apply tlookup_tset_notin. intros ->. apply Hk. left. reflexivity.
  - destruct (Nat.eqb src _); [inversion H; subst; reflexivity|].
    destruct (try_fd L P src); inversion H; subst.
    apply tlookup_tset_notin. intros ->. apply Hk. left. reflexivity.
  - inversion H; subst. apply tlookup_tset_notin. intros ->. apply Hk. left. reflexivity.
  - unfold both_to in H. destruct (k_open w p _) as [w1 [id|e]]; inversion H; subst.
    rewrite !tlookup_tset_notin; auto; intros ->; apply Hk; cbn; auto.
  - destruct (Nat.eqb (match n with Some n0 => n0 | None => 1 end) 1); [|discriminate].
    unfold both_to in H. destruct (k_open w p _) as [w1 [id|e]]; inversion H; subst.
    rewrite !tlookup_tset_notin; auto; intros ->; apply Hk; cbn; auto.
  - destruct (k_pipe_with w body) as [w1 id]. inversion H; subst.
    apply tlookup_tset_notin. intros ->. apply Hk. left. reflexivity.
  - destruct (k_pipe_with w (s ++ [NL])) as [w1 id]. inversion H; subst.
    apply tlookup_tset_notin. intros ->. apply Hk. left. reflexivity.
Qed.

Lemma apply_untouched P : forall rs w L w' L' k,
  apply_redirs nc P w L rs = (w', L', None) -> ~ In k (touched rs) -> tlookup L' k = tlookup L k.
Proof.
  induction rs as [|r rs IH]; intros w L w' L' k H Hk; cbn [apply_redirs] in H.
  - inversion H; auto.
  - destruct (setup_redirect nc P w L r) as [[w1 L1]|e] eqn:E; [|discriminate].
    unfold touched in Hk. cbn [flat_map] in Hk. rewrite in_app_iff in Hk.
    rewrite (IH w1 L1 w' L' k H) by tauto. eapply step_untouched; eauto.
Qed.

Lemma apply_nil_layer P : forall w L w' L' e, apply_redirs nc P w L [] = (w', L', e) -> L' = L /\ w' = w /\ e = None.
Proof. intros. cbn in H. inversion H; auto. Qed.

(** ** restoring *)
Lemma restore_lookup Ts : forall ns Tn k,
  flat_lookup (restore Ts Tn ns) k = if existsb (Nat.eqb k) ns then flat_lookup Ts k else flat_lookup Tn k.
Proof.
  unfold restore. induction ns as [|n ns IH]; intros Tn k; cbn [fold_left existsb]; auto.
  rewrite IH. destruct (existsb (Nat.eqb k) ns) eqn:E; [rewrite orb_true_r; auto|]. rewrite orb_false_r.
  destruct (tlookup Ts n) as [e|] eqn:En.
  - rewrite flat_tset. rewrite (Nat.eqb_sym k n). destruct (Nat.eqb n k) eqn:Ek; auto.
    apply Nat.eqb_eq in Ek; subst. unfold flat_lookup. rewrite En. reflexivity.
  - rewrite flat_tremove. rewrite (Nat.eqb_sym k n). destruct (Nat.eqb n k) eqn:Ek; auto.
    apply Nat.eqb_eq in Ek; subst. unfold flat_lookup. rewrite En. reflexivity.
Qed.

Lemma existsb_In k ns : existsb (Nat.eqb k) ns = true <-> In k ns.
Proof.
  rewrite existsb_exists. split.
  - intros [x [Hx E]]. apply Nat.eqb_eq in E; subst; auto.
  - intros H. exists k. split; auto. apply Nat.eqb_refl.
Qed.

(** after a construct with redirections [rs] whose body left the persistent table alone *)
Lemma agree_restore P T L T2 L1 rs :
  agree T L P -> agree T2 L1 P ->
  (forall k, ~ In k (touched rs) -> tlookup L1 k = tlookup L k) ->
  agree (restore T T2 (touched rs)) L P.
Proof.
  intros HA H2 Hu k. rewrite restore_lookup.
  destruct (existsb (Nat.eqb k) (touched rs)) eqn:E.
  - apply HA.
  - rewrite H2. unfold try_fd. rewrite Hu; auto. intros Hin. apply existsb_In in Hin. congruence.
Qed.

(** ** the simulation *)
Definition sim_cmd (c : cmd) : Prop := forall ctx w P L T ws Ts f,
  agree T L P -> (ctx = false -> L = []) ->
  srun_cmd nc m c ctx w T = (ws, Ts, f) -> any_flag f = false ->
  exists Pm, run_cmd nc m c w P L = (ws, Pm, FNormal) /\ agree Ts L Pm /\ (ctx = true -> Pm = P).

Definition sim_list (cs : list cmd) : Prop := forall ctx w P L T ws Ts f,
  agree T L P -> (ctx = false -> L = []) ->
  srun_list nc m cs ctx w T = (ws, Ts, f) -> any_flag f = false ->
  exists Pm, run_list nc m cs w P L = (ws, Pm, FNormal) /\ agree Ts L Pm /\ (ctx = true -> Pm = P).

Lemma sim_list_of cs : Forall sim_cmd cs -> sim_list cs.
Proof.
  induction 1 as [|c cs Hc Hcs IH]; intros ctx w P L T ws Ts f HA HL Hs Hf; cbn [srun_list] in Hs.
  - inversion Hs; subst. exists P. cbn [run_list]. auto.
  - destruct (srun_cmd nc m c ctx w T) as [[w1 T1] f1] eqn:E1.
    destruct (srun_list nc m cs ctx w1 T1) as [[w2 T2] f2] eqn:E2. inversion Hs; subst.
    apply any_for in Hf. destruct Hf as [Hf1 Hf2].
    destruct (Hc ctx w P L T w1 T1 f1 HA HL E1 Hf1) as [P1 [R1 [A1 K1]]].
    destruct (IH ctx w1 P1 L T1 ws Ts f2 A1 HL E2 Hf2) as [P2 [R2 [A2 K2]]].
    exists P2. cbn [run_list]. rewrite R1. split; auto. split; auto.
    intros Hc'. rewrite (K2 Hc'). apply K1; auto.
Qed.

(** unfolding equations of the specification interpreter *)
Lemma srun_cmd_group k body rs ctx w T :
  srun_cmd nc m (CGroup k body rs) ctx w T =
  let ctx' := ctx || match rs with [] => false | _ => true end in
  match spec_apply nc w T rs with
  | (w1, T1, Some e) => let '(w2, f) := spec_diag m w1 T1 e in (w2, T, f)
  | (w1, T1, None) =>
      match k with
      | GBrace => let '(w2, T2, f) := srun_list nc m body ctx' w1 T1 in (w2, restore T T2 (touched rs), f)
      | GLoop => let '(w2, T2, f) := srun_list nc m body ctx' w1 T1 in
                 let '(w3, T3, f') := srun_list nc m body ctx' w2 T2 in (w3, restore T T3 (touched rs), for_ f f')
      | GSubshell => let '(w2, _, f) := srun_list nc m body ctx' w1 T1 in (w2, T, f)
      end
  end.
Proof. reflexivity. Qed.

Lemma srun_cmd_func body drs crs ctx w T :
  srun_cmd nc m (CFunc body drs crs) ctx w T =
  match spec_apply nc w T crs with
  | (w1, T1, Some e) => let '(w2, f) := spec_diag m w1 T1 e in (w2, T, f)
  | (w1, T1, None) =>
      let ctx' := ctx || match crs ++ drs with [] => false | _ => true end in
      match spec_apply nc w1 T1 drs with
      | (w2, T2, Some e) => let '(w3, f) := spec_diag m w2 T2 e in (w3, T, f)
      | (w2, T2, None) =>
          let '(w3, T3, f) := srun_list nc m body ctx' w2 T2 in
          (w3, restore T T3 (touched (crs ++ drs)), f)
      end
  end.
Proof. reflexivity. Qed.

(** a diagnostic that the specification could deliver is delivered identically by the model *)
Lemma diag_sim w T L P e w2 f :
  agree T L P -> spec_diag m w T e = (w2, f) -> any_flag f = false ->
  simple_redirect_error m w L P e = (w2, FNormal).
Proof.
  intros HA Hd Hf. unfold spec_diag in Hd. unfold simple_redirect_error.
  destruct (err_kind e) as [kd a]. rewrite <- (HA 2).
  destruct (flat_lookup T 2) as [id|]; [|inversion Hd; subst; discriminate].
  destruct (k_write w id (msg m 0 kd a)) as [w' [|]]; inversion Hd; subst; [reflexivity|discriminate].
Qed.

Lemma refine_ok rs P w L T w1 T1 e :
  agree T L P -> spec_apply nc w T rs = (w1, T1, e) ->
  exists L1, apply_redirs nc P w L rs = (w1, L1, e) /\ agree T1 L1 P.
Proof.
  intros HA Hs.
  pose proof (layered_refines_flat rs nc P w L T HA) as HR. rewrite Hs in HR.
  destruct (apply_redirs nc P w L rs) as [[w' L1] e']. destruct HR as [-> [-> HA1]]. exists L1. auto.
Qed.

Lemma action_sim w T L P a w2 f :
  agree T L P -> spec_action m w T a = (w2, f) -> any_flag f = false -> run_action m w L P a = w2.
Proof.
  intros HA Hs Hf. destruct a as [tag|tag]; cbn [spec_action run_action] in *; inversion Hs; subst.
  - apply echo_ext. intros k. symmetry. apply HA.
  - apply probe_ext. intros k. apply any_std in Hf.
    apply child_sees_view_outside_known; auto.
Qed.

Lemma touched_app a b : touched (a ++ b) = touched a ++ touched b.
Proof. unfold touched. apply flat_map_app. Qed.

Theorem sim_all : forall c, sim_cmd c.
Proof.
  induction c using cmd_ind2; intros ctx w P L T ws Ts f HA HL Hs Hf.
  - (* simple command *)
    cbn [srun_cmd] in Hs. destruct (spec_apply nc w T rs) as [[w1 T1] e] eqn:Es.
    destruct (refine_ok rs P w L T w1 T1 e HA Es) as [L1 [Ea HA1]].
    destruct e as [e|].
    + destruct (spec_diag m w1 T1 e) as [w2 f2] eqn:Ed. injection Hs as <- <- <-.
      exists P. cbn [run_cmd]. rewrite Ea. rewrite (diag_sim w1 T1 L1 P e w2 f2 HA1 Ed Hf). auto.
    + destruct (spec_action m w1 T1 a) as [w2 f2] eqn:Ed. injection Hs as <- <- <-.
      exists P. cbn [run_cmd]. rewrite Ea. rewrite (action_sim w1 T1 L1 P a w2 f2 HA1 Ed Hf). auto.
  - (* exec *)
    cbn [srun_cmd] in Hs. destruct (spec_apply nc w T rs) as [[w1 T1] e] eqn:Es.
    destruct (refine_ok rs P w L T w1 T1 e HA Es) as [L1 [Ea HA1]].
    destruct e as [e|].
    + destruct (spec_diag m w1 T1 e) as [w2 f2] eqn:Ed. injection Hs as <- <- <-.
      exists P. cbn [run_cmd]. rewrite Ea. rewrite (diag_sim w1 T1 L1 P e w2 f2 HA1 Ed Hf). auto.
    + injection Hs as <- <- <-.
      destruct ctx; [cbn in Hf; discriminate|]. specialize (HL eq_refl). subst L.
      exists (materialize L1 P). cbn [run_cmd]. rewrite Ea. split; auto. split; [|discriminate].
      intros k. rewrite HA1. rewrite try_fd_nil. rewrite materialize_view. reflexivity.
  - (* group *)
    rewrite srun_cmd_group in Hs. cbv zeta in Hs.
    destruct (spec_apply nc w T rs) as [[w1 T1] e] eqn:Es.
    destruct (refine_ok rs P w L T w1 T1 e HA Es) as [L1 [Ea HA1]].
    destruct e as [e|].
    { destruct (spec_diag m w1 T1 e) as [w2 f2] eqn:Ed. injection Hs as <- <- <-.
      exists P. rewrite run_cmd_group, Ea. rewrite (diag_sim w1 T1 L1 P e w2 f2 HA1 Ed Hf). auto. }
    set (ctx' := ctx || match rs with [] => false | _ :: _ => true end) in *.
    assert (HB := sim_list_of body H).
    assert (HL1 : ctx' = false -> L1 = []).
    { intros Hc. unfold ctx' in Hc. apply orb_false_iff in Hc. destruct Hc as [Hc1 Hc2].
      destruct rs; [|discriminate]. apply apply_nil_layer in Ea. destruct Ea as [-> _]. auto. }
    assert (Hfin : forall T2 P2, agree T2 L1 P2 -> (ctx' = true -> P2 = P) ->
               agree (restore T T2 (touched rs)) L P2 /\ (ctx = true -> P2 = P)).
    { intros T2 P2 A2 K2. split.
      - destruct rs as [|r rs'].
        + apply apply_nil_layer in Ea. destruct Ea as [-> _]. exact A2.
        + assert (P2 = P) as -> by (apply K2; unfold ctx'; apply orb_true_r).
          eapply agree_restore; eauto. intros kk Hk. eapply apply_untouched; eauto.
      - intros Hc. apply K2. unfold ctx'. rewrite Hc. reflexivity. }
    destruct k.
    + (* brace *)
      destruct (srun_list nc m body ctx' w1 T1) as [[w2 T2] f2] eqn:E2. injection Hs as <- <- <-.
      destruct (HB ctx' w1 P L1 T1 w2 T2 f2 HA1 HL1 E2 Hf) as [P2 [R2 [A2 K2]]].
      exists P2. rewrite run_cmd_group, Ea, R2. split; auto.
    + (* subshell *)
      destruct (srun_list nc m body ctx' w1 T1) as [[w2 T2] f2] eqn:E2. injection Hs as <- <- <-.
      destruct (HB ctx' w1 P L1 T1 w2 T2 f2 HA1 HL1 E2 Hf) as [P2 [R2 [A2 K2]]].
      exists P. rewrite run_cmd_group, Ea, R2. auto.
    + (* loop *)
      destruct (srun_list nc m body ctx' w1 T1) as [[w2 T2] f2] eqn:E2.
      destruct (srun_list nc m body ctx' w2 T2) as [[w3 T3] f3] eqn:E3. injection Hs as <- <- <-.
      apply any_for in Hf. destruct Hf as [Hf2 Hf3].
      destruct (HB ctx' w1 P L1 T1 w2 T2 f2 HA1 HL1 E2 Hf2) as [P2 [R2 [A2 K2]]].
      destruct (HB ctx' w2 P2 L1 T2 w3 T3 f3 A2 HL1 E3 Hf3) as [P3 [R3 [A3 K3]]].
      exists P3. rewrite run_cmd_group, Ea, R2, R3. split; auto.
      apply Hfin; auto. intros Hc. rewrite (K3 Hc). apply K2; auto.
  - (* function definition and call *)
    rewrite srun_cmd_func in Hs. cbv zeta in Hs.
    destruct (spec_apply nc w T crs) as [[w1 T1] e] eqn:Es.
    destruct (refine_ok crs P w L T w1 T1 e HA Es) as [L1 [Ea HA1]].
    destruct e as [e|].
    { destruct (spec_diag m w1 T1 e) as [w2 f2] eqn:Ed. injection Hs as <- <- <-.
      exists P. rewrite run_cmd_func, Ea. rewrite (diag_sim w1 T1 L1 P e w2 f2 HA1 Ed Hf). auto. }
    destruct (spec_apply nc w1 T1 drs) as [[w2 T2] e] eqn:Es2.
    destruct (refine_ok drs P w1 L1 T1 w2 T2 e HA1 Es2) as [L2 [Ea2 HA2]].
    destruct e as [e|].
    { destruct (spec_diag m w2 T2 e) as [w3 f3] eqn:Ed. injection Hs as <- <- <-.
      exists P. rewrite run_cmd_func, Ea, Ea2. rewrite (diag_sim w2 T2 L2 P e w3 f3 HA2 Ed Hf). auto. }
    set (ctx' := ctx || match crs ++ drs with [] => false | _ :: _ => true end) in *.
    destruct (srun_list nc m body ctx' w2 T2) as [[w3 T3] f3] eqn:E3. injection Hs as <- <- <-.
    assert (HB := sim_list_of body H).
    assert (HL2 : ctx' = false -> L2 = []).
    { intros Hc. unfold ctx' in Hc. apply orb_false_iff in Hc. destruct Hc as [Hc1 Hc2].
      destruct crs; [|discriminate]. destruct drs; [|discriminate].
      apply apply_nil_layer in Ea. apply apply_nil_layer in Ea2. destruct Ea as [-> _], Ea2 as [-> _]. auto. }
    destruct (HB ctx' w2 P L2 T2 w3 T3 f3 HA2 HL2 E3 Hf) as [P3 [R3 [A3 K3]]].
    exists P3. rewrite run_cmd_func, Ea, Ea2, R3. split; auto. split.
    + destruct (crs ++ drs) as [|r rs'] eqn:Ecd.
      * apply app_eq_nil in Ecd. destruct Ecd as [-> ->].
        apply apply_nil_layer in Ea. apply apply_nil_layer in Ea2. destruct Ea as [-> _], Ea2 as [-> _]. exact A3.
      * assert (P3 = P) as -> by (apply K3; unfold ctx'; apply orb_true_r).
        rewrite <- Ecd. eapply agree_restore; eauto. intros k Hk. rewrite touched_app, in_app_iff in Hk.
        rewrite (apply_untouched P drs w1 L1 w2 L2 k Ea2) by tauto. eapply apply_untouched; eauto.
    + intros Hc. apply K3. unfold ctx'. rewrite Hc. reflexivity.
Qed.
End P.

(** For every script, if the specification's run reports none of the listed deviation classes,
    brush's layered interpreter produces the same file system (contents of every file, every
    open file description) and leaves the shell with a table whose flat view is the
    specification's final table. *)
Theorem run_refines_spec_outside_known : forall nc m prog w P ws Ts f,
  srun_script nc m prog w P = (ws, Ts, f) -> any_flag f = false ->
  exists Pm, run_script nc m prog w P = (ws, Pm) /\ forall n, flat_lookup Pm n = flat_lookup Ts n.
Proof.
  intros nc m prog w P ws Ts f Hs Hf. unfold srun_script in Hs.
  assert (HB : sim_list nc m prog) by (apply sim_list_of; apply Forall_forall; intros c _; apply sim_all).
  destruct (HB false w P [] P ws Ts f (fun n => eq_sym (try_fd_nil P n)) (fun _ => eq_refl) Hs Hf) as [Pm [R [A _]]].
  exists Pm. unfold run_script. rewrite R. split; [reflexivity|]. intros n. symmetry. apply A.
Qed.

(** non-vacuity: a nested program with an exec, inside no deviation class *)
Definition ex_prog : list cmd :=
  [ CGroup GBrace [ CSimple [RDup (Some 2) true 1; RFile None RWrite 4] (AEcho [116]%N);
                    CGroup GSubshell [CSimple [RClose (Some 5) true] (AXProbe [117]%N)] [RHereStr None [104]%N] ]
           [RFile (Some 5) RAppend 4];
    CExec [RFile (Some 3) RWrite 4];
    CFunc [CSimple [] (AXProbe [118]%N)] [RDup (Some 1) true 3] [RFile None RRead 4] ].

Example ex_prog_unflagged : any_flag (snd (srun_script false [] ex_prog ex_world ex_tbl)) = false.
Proof. vm_compute. reflexivity. Qed.
