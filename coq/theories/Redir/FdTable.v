(** C10 — files, open file descriptions and descriptor tables.

    The "kernel" part (what [open], [write], [read] do to files and open file descriptions)
    is shared by the model of brush and by the POSIX-style specification; it is not brush's
    code.  A descriptor table is a finite map from descriptor numbers to entries, exactly as
    [brush-core/src/openfiles.rs  OpenFiles { files: HashMap<ShellFd, Option<OpenFile>> }]:
      - no binding            = [OpenFileEntry::NotSpecified]
      - binding to [None]     = [OpenFileEntry::NotPresent]
      - binding to [Some d]   = [OpenFileEntry::Open]  ([d] = id of the open file description;
                                cloning an [OpenFile] shares the description: Arc / dup). *)
From BV Require Import Base.Prelude.
Local Open Scope nat_scope.

(** ** Files *)
Record fentry := { f_exists : bool; f_regular : bool; f_data : str }.

(** ** Open file descriptions.  [d_std = Some k]: this is brush's [OpenFile::Stdin/Stdout/Stderr]
    (the process's own descriptor k), which the code treats specially when spawning. *)
Record desc := { d_file : nat; d_off : nat; d_app : bool; d_r : bool; d_w : bool; d_std : option nat }.

Record world := { files : list fentry; descs : list desc }.

Fixpoint upd {A} (l : list A) (i : nat) (x : A) : list A :=
  match l, i with
  | [], _ => []
  | _ :: l', O => x :: l'
  | y :: l', S i' => y :: upd l' i' x
  end.

Lemma upd_length {A} (l : list A) i x : length (upd l i x) = length l.
Proof. revert i; induction l as [|y l IH]; intros [|i]; cbn; auto. Qed.

Lemma nth_error_upd_same {A} (l : list A) i x : (i < length l)%nat -> nth_error (upd l i x) i = Some x.
Proof. revert i; induction l as [|y l IH]; intros [|i]; cbn; intros H; try lia; auto. apply IH; lia. Qed.

Lemma nth_error_upd_other {A} (l : list A) i j x : i <> j -> nth_error (upd l i x) j = nth_error l j.
Proof. revert i j; induction l as [|y l IH]; intros [|i] [|j]; cbn; intros H; try congruence; auto. Qed.

(** [open(2)] flags as set through Rust's [OpenOptions]. *)
Record oflags := { o_r : bool; o_w : bool; o_app : bool; o_trunc : bool; o_create : bool; o_excl : bool }.

Inductive errno := ENOENT | EEXIST.

Definition new_desc (w : world) (d : desc) : world * nat :=
  ({| files := files w; descs := descs w ++ [d] |}, length (descs w)).

Definition set_file (w : world) (i : nat) (f : fentry) : world :=
  {| files := upd (files w) i f; descs := descs w |}.

(** open: O_EXCL fails on an existing path; without O_CREAT a missing path fails; O_TRUNC empties
    a regular file; the new description starts at offset 0. *)
Definition k_open (w : world) (path : nat) (fl : oflags) : world * (nat + errno) :=
  match nth_error (files w) path with
  | None => (w, inr ENOENT)
  | Some f =>
    if f_exists f && o_excl fl then (w, inr EEXIST)
    else if negb (f_exists f) && negb (o_create fl || o_excl fl) then (w, inr ENOENT)
    else
      let f' := if f_exists f
                then (if o_trunc fl && f_regular f then {| f_exists := true; f_regular := true; f_data := [] |} else f)
                else {| f_exists := true; f_regular := true; f_data := [] |} in
      let w1 := set_file w path f' in
      let '(w2, id) := new_desc w1 {| d_file := path; d_off := O; d_app := o_app fl; d_r := o_r fl;
                                      d_w := o_w fl || o_app fl; d_std := None |} in
      (w2, inl id)
  end.

(** A pipe whose write end is already closed and which holds [content]
    ([interp.rs setup_open_file_with_contents]): an anonymous file read from offset 0. *)
Definition k_pipe_with (w : world) (content : str) : world * nat :=
  let idx := length (files w) in
  let w1 := {| files := files w ++ [{| f_exists := true; f_regular := false; f_data := content |}];
               descs := descs w |} in
  new_desc w1 {| d_file := idx; d_off := O; d_app := false; d_r := true; d_w := false; d_std := None |}.

Fixpoint zeros (n : nat) : str := match n with O => [] | S n' => 0%N :: zeros n' end.

Definition write_at (data : str) (off : nat) (s : str) : str :=
  firstn off data ++ zeros (off - length data) ++ s ++ skipn (off + length s) data.

(** write(2) on a description: append mode writes at the end; otherwise at the offset, which
    advances.  Non-regular files of the fixed set are /dev/null-like sinks (pipes made by
    [k_pipe_with] are never writable).  Returns [false] when the description is not writable. *)
Definition k_write (w : world) (id : nat) (s : str) : world * bool :=
  match nth_error (descs w) id with
  | None => (w, false)
  | Some d =>
    if negb (d_w d) then (w, false) else
    match nth_error (files w) (d_file d) with
    | None => (w, false)
    | Some f =>
      if negb (f_regular f) then (w, true) else
      let off := if d_app d then length (f_data f) else d_off d in
      let f' := {| f_exists := f_exists f; f_regular := true; f_data := write_at (f_data f) off s |} in
      let d' := {| d_file := d_file d; d_off := (off + length s)%nat; d_app := d_app d; d_r := d_r d; d_w := d_w d;
                   d_std := d_std d |} in
      ({| files := upd (files w) (d_file d) f'; descs := upd (descs w) id d' |}, true)
    end
  end.

(** read to end of file through a description. *)
Definition k_read_all (w : world) (id : nat) : world * option str :=
  match nth_error (descs w) id with
  | None => (w, None)
  | Some d =>
    if negb (d_r d) then (w, None) else
    match nth_error (files w) (d_file d) with
    | None => (w, None)
    | Some f =>
      let n := length (f_data f) in
      let d' := {| d_file := d_file d; d_off := Nat.max (d_off d) n; d_app := d_app d; d_r := d_r d; d_w := d_w d;
                   d_std := d_std d |} in
      ({| files := files w; descs := upd (descs w) id d' |}, Some (skipn (d_off d) (f_data f)))
    end
  end.

(** ** Descriptor tables (finite maps with unique keys, like a HashMap) *)
Definition entry := option nat.
Definition tbl := list (nat * entry).

Fixpoint tlookup (t : tbl) (n : nat) : option entry :=
  match t with
  | [] => None
  | (k, e) :: t' => if Nat.eqb k n then Some e else tlookup t' n
  end.

Fixpoint tremove (t : tbl) (n : nat) : tbl :=
  match t with
  | [] => []
  | (k, e) :: t' => if Nat.eqb k n then tremove t' n else (k, e) :: tremove t' n
  end.

Definition tset (t : tbl) (n : nat) (e : entry) : tbl := (n, e) :: tremove t n.

Lemma tlookup_tremove_same t n : tlookup (tremove t n) n = None.
Proof. induction t as [|[k e] t IH]; cbn; auto. destruct (Nat.eqb k n) eqn:E; cbn; auto. rewrite E; auto. Qed.

Lemma tlookup_tremove_other t n m : n <> m -> tlookup (tremove t n) m = tlookup t m.
Proof.
  intros H. induction t as [|[k e] t IH]; cbn; auto.
  destruct (Nat.eqb k n) eqn:E.
  - apply Nat.eqb_eq in E; subst k. destruct (Nat.eqb n m) eqn:E2; [apply Nat.eqb_eq in E2; congruence|auto].
  - cbn. destruct (Nat.eqb k m); auto.
Qed.

Lemma tlookup_tset_same t n e : tlookup (tset t n e) n = Some e.
Proof. unfold tset; cbn. rewrite Nat.eqb_refl; auto. Qed.

Lemma tlookup_tset_other t n m e : n <> m -> tlookup (tset t n e) m = tlookup t m.
Proof.
  intros H. unfold tset; cbn. destruct (Nat.eqb n m) eqn:E; [apply Nat.eqb_eq in E; congruence|].
  apply tlookup_tremove_other; auto.
Qed.

(** [ExecutionParameters::try_fd]: the per-command layer first; an unspecified descriptor falls
    back to the shell's persistent table; an explicit NotPresent hides it. *)
Definition try_fd (L P : tbl) (n : nat) : entry :=
  match tlookup L n with
  | Some e => e
  | None => match tlookup P n with Some e => e | None => None end
  end.

(** The flat (POSIX) view of a layered table. *)
Definition view (L P : tbl) : nat -> entry := try_fd L P.
Definition flat_lookup (T : tbl) (n : nat) : entry := match tlookup T n with Some e => e | None => None end.
