(** C10 — the command language used to observe descriptors, and what each observing command
    does with the descriptors it is given (shared by the model of brush and by the spec: this
    part is the behaviour of `echo`, of the external probe program and of the kernel, not of
    brush's redirection code). *)
From BV Require Import Base.Prelude Redir.FdTable Redir.Apply.
Local Open Scope nat_scope.

Inductive action :=
| AEcho (tag : str)      (* builtin:  echo TAG        — writes "TAG\n" to descriptor 1 *)
| AXProbe (tag : str).   (* external: fdprobe TAG     — see [probe] *)

Inductive gkind := GBrace | GSubshell | GLoop.

Inductive cmd :=
| CSimple (rs : list redir) (a : action)
| CExec (rs : list redir)                                  (* exec with redirections only *)
| CGroup (k : gkind) (body : list cmd) (rs : list redir)   (* { body; } rs | ( body ) rs | for i in 1 2; do body; done rs *)
| CFunc (body : list cmd) (drs crs : list redir).          (* f() { body; } drs ; f crs *)

(** Diagnostics.  The texts are inputs (brush's and bash's wording differ); what is modelled is
    which descriptor receives them and when.  style 0: [writeln!(stderr, "error: {e}")],
    style 1: [Shell::display_error], style 2: the same for an error returned by `echo`. *)
Definition msgtable := list (nat * nat * nat * str).
Fixpoint msg (m : msgtable) (style kind arg : nat) : str :=
  match m with
  | [] => []
  | (s, k, a, t) :: m' => if Nat.eqb s style && Nat.eqb k kind && Nat.eqb a arg then t else msg m' style kind arg
  end.

(** message kinds *)
Definition K_BADFD := 0%nat.     (* arg = descriptor *)
Definition K_ENOENT := 1%nat.    (* arg = file *)
Definition K_EEXIST := 2%nat.    (* arg = file *)
Definition K_INVALID := 3%nat.
Definition K_NA_OUT := 20%nat.   (* descriptor 1 not open *)
Definition K_W_STDIN := 21%nat.  (* write to the process's stdin object *)
Definition K_W_EBADF := 22%nat.  (* write(2) fails: not open for writing *)
Definition K_W_PIPER := 23%nat.  (* write to the read end of a pipe *)
Definition K_NA_ERR := 24%nat.   (* descriptor 2 not open *)

Definition err_kind (e : rerr) : nat * nat :=
  match e with
  | EBadFd n => (K_BADFD, n)
  | EOpenFail p ENOENT => (K_ENOENT, p)
  | EOpenFail p EEXIST => (K_EEXIST, p)
  | EInvalidRedir p => (K_INVALID, p)
  end.

(** why a write through description [id] is refused *)
Definition write_fail_kind (w : world) (id : nat) : nat :=
  match nth_error (descs w) id with
  | Some d => match d_std d with
              | Some O => K_W_STDIN
              | _ => match nth_error (files w) (d_file d) with
                     | Some f => if negb (f_regular f) && d_r d && negb (d_w d) && negb (Nat.ltb (d_file d) 7) then K_W_PIPER else K_W_EBADF
                     | None => K_W_EBADF
                     end
              end
  | None => K_W_EBADF
  end.

Definition digit (n : nat) : char := (48 + N.of_nat n)%N.
Definition fds10 : list nat := seq 0 10.

Definition open_set (w : world) (C : nat -> entry) : str :=
  flat_map (fun n => match C n with Some _ => [digit n] | None => [] end) fds10.

(** write [s] to descriptor [n] of [C] if it is open (result of the write ignored) *)
Definition put (w : world) (C : nat -> entry) (n : nat) (s : str) : world :=
  match C n with Some id => fst (k_write w id s) | None => w end.

(** NUL bytes cannot pass through the probe's command substitution: it maps them to '@' *)
Definition nul_to_at (c : char) : char := if N.eqb c 0 then 64%N else c.

(** The external probe (harness script `fdprobe TAG`): lists which of 0..9 are open; if 0 is
    open for reading reads it to the end and reports the data on 1; then writes one line
    "TAG:n:SET" to every descriptor n in 0..9 that is open for writing, in ascending order. *)
Definition probe (w : world) (C : nat -> entry) (tag : str) : world :=
  let set := open_set w C in
  let '(w1, data) := match C 0%nat with
                     | Some id => k_read_all w id
                     | None => (w, None)
                     end in
  let w2 := match data with
            | Some s => put w1 C 1%nat (tag ++ [60%N] ++ map nul_to_at s ++ [62%N; NL])
            | None => w1
            end in
  fold_left (fun w n => put w C n (tag ++ [58%N; digit n; 58%N] ++ set ++ [NL])) fds10 w2.

(** builtin echo with descriptor table [C] *)
Definition echo (m : msgtable) (w : world) (C : nat -> entry) (tag : str) : world :=
  match C 1%nat with
  | None => put w C 2%nat (msg m 2 K_NA_OUT 0)
  | Some id =>
      match k_write w id (tag ++ [NL]) with
      | (w', true) => w'
      | (_, false) => put w C 2%nat (msg m 2 (write_fail_kind w id) 0)
      end
  end.

(** descriptors assigned by a redirection list (those a shell has to restore) *)
Definition touched1 (r : redir) : list nat :=
  match r with
  | RFile n k _ => [match n with Some n => n | None => default_fd k end]
  | RDup n out _ | RClose n out => [match n with Some n => n | None => default_dup_fd out end]
  | RBoth _ _ => [1; 2]%nat
  | RDupWord _ _ => [1; 2]%nat
  | RHereDoc n _ | RHereStr n _ => [match n with Some n => n | None => O end]
  end.
Definition touched (rs : list redir) : list nat := flat_map touched1 rs.
