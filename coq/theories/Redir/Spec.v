(** C10 — the specification: POSIX / bash redirection semantics on ONE flat descriptor table.

    Each redirection is [open] + [dup2] + [close] on the table itself, strictly left to right;
    derived forms are defined by their expansions in the bash manual ([&>f] is [>f 2>&1],
    [&>>f] is [>>f 2>&1], [>&word] is [&>word]).  A command runs with the table so obtained and
    the table is restored afterwards; only [exec] keeps it. *)
From BV Require Import Base.Prelude Redir.FdTable Redir.Apply.
Local Open Scope nat_scope.

(** dup2(src, dst): fails with EBADF when [src] is not open. *)
Definition sys_dup2 (T : tbl) (src dst : nat) : option tbl :=
  match flat_lookup T src with
  | Some id => Some (tset T dst (Some id))
  | None => None
  end.
Definition sys_close (T : tbl) (n : nat) : tbl := tremove T n.
(** net effect of  fd = open(...); dup2(fd, n); close(fd)  *)
Definition sys_install (T : tbl) (n : nat) (id : nat) : tbl := tset T n (Some id).

(** open(2) flags per operator, bash: [>] is O_WRONLY|O_CREAT|O_TRUNC, refused under noclobber
    when the target exists and is a regular file; [>|] never refused; [>>] O_APPEND|O_CREAT;
    [<>] O_RDWR|O_CREAT; [<] O_RDONLY. *)
Definition spec_open (nc : bool) (w : world) (k : rkind) (path : nat) : world * (nat + errno) :=
  match k with
  | RRead => k_open w path (fl true false false false false false)
  | RWrite => if nc && is_file w path then (w, inr EEXIST)
              else k_open w path (fl false true false true true false)
  | RAppend => k_open w path (fl false false true false true false)
  | RReadWrite => k_open w path (fl true true false false true false)
  | RClobber => k_open w path (fl false true false true true false)
  end.

Definition spec_default (k : rkind) : nat :=
  match k with RRead | RReadWrite => 0 | RWrite | RAppend | RClobber => 1 end.

Fixpoint spec_redirect (fuel : nat) (nc : bool) (w : world) (T : tbl) (r : redir) : (world * tbl) + rerr :=
  match r with
  | RFile n k path =>
      match spec_open nc w k path with
      | (w', inl id) => inl (w', sys_install T (match n with Some n => n | None => spec_default k end) id)
      | (_, inr e) => inr (EOpenFail path e)
      end
  | RDup n out src =>
      let dst := match n with Some n => n | None => if out then 1 else 0 end in
      if Nat.eqb src dst then inl (w, T)      (* bash: duplicating a descriptor onto itself does nothing, open or not *)
      else match sys_dup2 T src dst with
           | Some T' => inl (w, T')
           | None => inr (EBadFd src)
           end
  | RClose n out => inl (w, sys_close T (match n with Some n => n | None => if out then 1 else 0 end))
  | RBoth path app =>
      match fuel with O => inr (EInvalidRedir 0) | S fuel =>
      match spec_redirect fuel nc w T (RFile (Some 1) (if app then RAppend else RWrite) path) with
      | inl (w', T') => spec_redirect fuel nc w' T' (RDup (Some 2) true 1)
      | inr e => inr e
      end end
  | RDupWord n path =>
      match fuel with O => inr (EInvalidRedir 0) | S fuel =>
      match n with
      | None | Some 1 => spec_redirect fuel nc w T (RBoth path false)
      | Some _ => inr (EInvalidRedir path)      (* "ambiguous redirect" *)
      end end
  | RHereDoc n body =>
      let '(w', id) := k_pipe_with w body in
      inl (w', sys_install T (match n with Some n => n | None => 0 end) id)
  | RHereStr n s =>
      let '(w', id) := k_pipe_with w (s ++ [NL]) in
      inl (w', sys_install T (match n with Some n => n | None => 0 end) id)
  end.

Definition spec_redirect1 := spec_redirect 3.

Fixpoint spec_apply (nc : bool) (w : world) (T : tbl) (rs : list redir) : world * tbl * option rerr :=
  match rs with
  | [] => (w, T, None)
  | r :: rs' =>
      match spec_redirect1 nc w T r with
      | inl (w', T') => spec_apply nc w' T' rs'
      | inr e => (w, T, Some e)
      end
  end.
