(** C10 — the hand-written model's constants against the tables regenerated from the Rust
    source on every run ([gen/C10Defaults.v]). *)
From BV Require Import Base.Prelude Redir.FdTable Redir.Apply Redir.HereDoc Redir.HereExpand gen.C10Defaults.
Local Open Scope nat_scope.

Definition fl6 (t : bool * bool * bool * bool * bool * bool) : oflags :=
  let '(r, w, a, tr, c, x) := t in fl r w a tr c x.

Definition lt (s : list N) : str := s.

Theorem tables_match_source :
  (* get_default_fd_for_redirect_kind and the dup / here-document defaults *)
  default_fd RRead = c10_default_fd_Read /\ default_fd RWrite = c10_default_fd_Write /\
  default_fd RAppend = c10_default_fd_Append /\ default_fd RReadWrite = c10_default_fd_ReadAndWrite /\
  default_fd RClobber = c10_default_fd_Clobber /\
  default_dup_fd false = c10_default_dup_in /\ default_dup_fd true = c10_default_dup_out /\
  c10_default_fd_DuplicateInput = c10_default_dup_in /\ c10_default_fd_DuplicateOutput = c10_default_dup_out /\
  c10_default_heredoc = 0 /\ c10_default_herestring = 0 /\ c10_std_fds = (0, 1, 2) /\
  (* OpenOptions per redirect kind, incl. the noclobber arm *)
  flags_of false false RRead = fl6 c10_open_Read /\
  (forall isf, flags_of false isf RWrite = fl6 c10_open_Write) /\
  flags_of true false RWrite = fl6 c10_open_Write_nc_notfile /\
  flags_of true true RWrite = fl6 c10_open_Write_nc_file /\
  (forall nc isf, flags_of nc isf RAppend = fl6 c10_open_Append) /\
  (forall nc isf, flags_of nc isf RReadWrite = fl6 c10_open_ReadAndWrite) /\
  (forall nc isf, flags_of nc isf RClobber = fl6 c10_open_Clobber) /\
  (* here-documents: operators, the stripped character, quoting characters *)
  c10_here_ops = [([60; 60]%N, false); ([60; 60; 45]%N, true)] /\
  (forall op b, In (op, b) c10_here_ops_parser <-> In (op, b) c10_here_ops) /\
  TAB = c10_strip_char /\
  (forall c, is_quoting_char c = existsb (N.eqb c) c10_quoting_chars) /\
  (forall tok, requires_expansion tok = negb (existsb (fun c => existsb (N.eqb c) c10_requires_expansion_chars) tok)) /\
  heredoc_triggers = c10_heredoc_triggers.
Proof.
  repeat match goal with |- _ /\ _ => split end; try reflexivity;
    try (intros; match goal with |- flags_of _ ?i _ = _ => try destruct i end; reflexivity).
  - intros op b. cbn. intuition.
  - intros c. unfold is_quoting_char, BSL, SQ, DQ. cbn. rewrite orb_false_r. rewrite orb_assoc. reflexivity.
  - intros tok. unfold requires_expansion. f_equal. induction tok as [|c tok IH]; cbn [existsb]; auto.
    rewrite IH. f_equal. cbn. unfold SQ, DQ, BSL. rewrite orb_false_r. rewrite orb_assoc. reflexivity.
Qed.
