(** C10 — model of how brush runs commands with redirections:
    [interp.rs]: [SimpleCommand::execute_in_pipeline] (redirect errors are printed to the
    command's stderr-so-far and the command is skipped), [Command::Compound] (errors propagate
    with `?`), [CompoundCommand::Subshell] (catches errors), [commands.rs invoke_shell_function]
    (call-site redirections, then definition redirections, errors caught at the call site),
    [compose_std_command] (what an external child receives), [builtins exec.rs] (the visible
    descriptors replace the shell's persistent table). *)
From BV Require Import Base.Prelude Redir.FdTable Redir.Apply Redir.Prog.
Local Open Scope nat_scope.

Inductive flow := FNormal | FAbort (kind arg : nat).

(** [compose_std_command]: for 0,1,2 a missing entry leaves the [std::process::Command] default, i.e.
    the child inherits brush's own descriptor of that number (ids 0,1,2 are the shell's own standard
    streams); every open entry is handed over as it is (a duplicate of the stream it names). *)
Definition child_view (L P : tbl) : nat -> entry := fun n =>
  if Nat.ltb n 3 then
    match try_fd L P n with
    | None => Some n
    | Some id => Some id
    end
  else try_fd L P n.

(** [exec] without a command: [context.iter_fds()] (the layer's open entries plus the persistent
    entries the layer does not mention) becomes the persistent table. *)
Definition materialize (L P : tbl) : tbl :=
  fold_right (fun n acc => match try_fd L P n with Some id => tset acc n (Some id) | None => acc end)
             [] (map fst L ++ map fst P).

Definition run_action (m : msgtable) (w : world) (L P : tbl) (a : action) : world :=
  match a with
  | AEcho tag => echo m w (try_fd L P) tag
  | AXProbe tag => probe w (child_view L P) tag
  end.

(** a redirection of a simple command failed: [writeln!(params.stderr(shell), "error: {e}")?] *)
Definition simple_redirect_error (m : msgtable) (w : world) (L P : tbl) (e : rerr) : world * flow :=
  let '(k, a) := err_kind e in
  match try_fd L P 2%nat with
  | None => (w, FAbort K_NA_ERR O)
  | Some id =>
      match k_write w id (msg m 0 k a) with
      | (w', true) => (w', FNormal)
      | (_, false) => (w, FAbort (write_fail_kind w id) O)
      end
  end.

Section Run.
Variable nc : bool.
Variable m : msgtable.

Fixpoint run_cmd (c : cmd) (w : world) (P L : tbl) {struct c} : world * tbl * flow :=
  let run_list := fix run_list (cs : list cmd) (w : world) (P : tbl) (L : tbl) {struct cs} : world * tbl * flow :=
    match cs with
    | [] => (w, P, FNormal)
    | c :: cs' =>
        match run_cmd c w P L with
        | (w', P', FNormal) => run_list cs' w' P' L
        | r => r
        end
    end in
  match c with
  | CSimple rs a =>
      match apply_redirs nc P w L rs with
      | (w1, L1, Some e) => let '(w2, f) := simple_redirect_error m w1 L1 P e in (w2, P, f)
      | (w1, L1, None) => (run_action m w1 L1 P a, P, FNormal)
      end
  | CExec rs =>
      match apply_redirs nc P w L rs with
      | (w1, L1, Some e) => let '(w2, f) := simple_redirect_error m w1 L1 P e in (w2, P, f)
      | (w1, L1, None) => (w1, materialize L1 P, FNormal)
      end
  | CGroup k body rs =>
      match apply_redirs nc P w L rs with
      | (w1, L1, Some e) => let '(w2, f) := simple_redirect_error m w1 L1 P e in (w2, P, f)
      | (w1, L1, None) =>
          match k with
          | GBrace => run_list body w1 P L1
          | GLoop =>
              match run_list body w1 P L1 with
              | (w2, P2, FNormal) => run_list body w2 P2 L1
              | r => r
              end
          | GSubshell =>
              match run_list body w1 P L1 with
              | (w2, _, FNormal) => (w2, P, FNormal)
              | (w2, _, FAbort kd a) => (put w2 (try_fd L1 P) 2%nat (msg m 1 kd a), P, FNormal)
              end
          end
      end
  | CFunc body drs crs =>
      match apply_redirs nc P w L crs with
      | (w1, L1, Some e) => let '(w2, f) := simple_redirect_error m w1 L1 P e in (w2, P, f)
      | (w1, L1, None) =>
          match apply_redirs nc P w1 L1 drs with
          | (w2, L2, Some e) =>
              match simple_redirect_error m w2 L2 P e with
              | (w3, FNormal) => (w3, P, FNormal)
              | (w3, FAbort kd a) => (put w3 (try_fd L1 P) 2%nat (msg m 1 kd a), P, FNormal)
              end
          | (w2, L2, None) =>
              match run_list body w2 P L2 with
              | (w3, P3, FNormal) => (w3, P3, FNormal)
              | (w3, P3, FAbort kd a) => (put w3 (try_fd L1 P) 2%nat (msg m 1 kd a), P3, FNormal)
              end
          end
      end
  end.

Fixpoint run_list (cs : list cmd) (w : world) (P L : tbl) : world * tbl * flow :=
  match cs with
  | [] => (w, P, FNormal)
  | c :: cs' =>
      match run_cmd c w P L with
      | (w', P', FNormal) => run_list cs' w' P' L
      | r => r
      end
  end.

(** a whole `-c` script: an error that reaches the top is displayed on the shell's stderr and
    ends the script *)
Definition run_script (cs : list cmd) (w : world) (P : tbl) : world * tbl :=
  match run_list cs w P [] with
  | (w', P', FNormal) => (w', P')
  | (w', P', FAbort kd a) => (put w' (flat_lookup P') 2%nat (msg m 1 kd a), P')
  end.
End Run.
