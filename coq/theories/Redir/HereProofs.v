(** C10 — the here-document character loop computes the line-based definition. *)
From BV Require Import Base.Prelude Redir.HereDoc.

Definition nonl (s : str) : Prop := Forall (fun c => N.eqb c NL = false) s.

(** ** lines *)
Lemma lines_of_acc s : forall acc,
  lines_of s acc = match lines_of s [] with l0 :: ls => (rev acc ++ l0) :: ls | [] => [] end.
Proof.
  induction s as [|c s IH]; intros acc; cbn [lines_of].
  - cbn. rewrite app_nil_r. reflexivity.
  - destruct (N.eqb c NL).
    + cbn. rewrite app_nil_r. reflexivity.
    + rewrite (IH (c :: acc)), (IH [c]). destruct (lines_of s []) as [|l0 ls]; auto.
      cbn [rev app]. rewrite <- app_assoc. reflexivity.
Qed.

Lemma lines_of_nonempty s acc : lines_of s acc <> [].
Proof.
  revert acc; induction s as [|c s IH]; intros acc; cbn [lines_of]; [discriminate|].
  destruct (N.eqb c NL); [discriminate|apply IH].
Qed.

Lemma lines_of_other c s : N.eqb c NL = false ->
  lines_of (c :: s) [] = match lines_of s [] with l0 :: ls => (c :: l0) :: ls | [] => [] end.
Proof. intros H. cbn [lines_of]. rewrite H. rewrite lines_of_acc. destruct (lines_of s []); reflexivity. Qed.

Lemma join_lines_cons l x ls : join_lines (l :: x :: ls) = l ++ NL :: join_lines (x :: ls).
Proof. reflexivity. Qed.

Lemma join_lines_of s : forall acc, join_lines (lines_of s acc) = rev acc ++ s.
Proof.
  induction s as [|c s IH]; intros acc; cbn [lines_of].
  - cbn. rewrite app_nil_r. reflexivity.
  - destruct (N.eqb c NL) eqn:E.
    + apply N.eqb_eq in E; subst c.
      destruct (lines_of s []) as [|x ls] eqn:El; [exfalso; eapply lines_of_nonempty; eauto|].
      rewrite join_lines_cons, <- El, IH. reflexivity.
    + rewrite IH. cbn [rev]. rewrite <- app_assoc. reflexivity.
Qed.

(** ** the end-tag test *)
Lemma end_tag_core : forall a b r, nonl a -> nonl b -> at_line_start r = true ->
  end_tag_at a (b ++ r) = if str_eqb a b then Some r else None.
Proof.
  unfold end_tag_at, strip_rprefix.
  induction a as [|x a IH]; intros b r Ha Hb Hr.
  - cbn [starts_with length skipn]. destruct b as [|y b]; cbn [app str_eqb].
    + rewrite Hr. reflexivity.
    + inversion Hb; subst. cbn [at_line_start]. rewrite H1. reflexivity.
  - inversion Ha as [|? ? Hx Ha']; subst. destruct b as [|y b]; cbn [app str_eqb].
    + destruct r as [|z r]; cbn [starts_with]; [reflexivity|].
      cbn [at_line_start] in Hr. apply N.eqb_eq in Hr; subst z. rewrite Hx. reflexivity.
    + inversion Hb as [|? ? Hy Hb']; subst. cbn [starts_with length skipn].
      destruct (N.eqb x y) eqn:E; cbn [andb]; [|reflexivity].
      apply IH; auto.
Qed.

Lemma nonl_rev s : nonl s -> nonl (rev s).
Proof. unfold nonl. intros H. apply Forall_rev. exact H. Qed.

Lemma str_eqb_rev t rcur : str_eqb (rev t) rcur = str_eqb (rev rcur) t.
Proof.
  destruct (str_eqb (rev t) rcur) eqn:E1; destruct (str_eqb (rev rcur) t) eqn:E2; auto.
  - apply str_eqb_eq in E1. subst. rewrite rev_involutive in E2. rewrite str_eqb_refl in E2. discriminate.
  - apply str_eqb_eq in E2. subst. rewrite rev_involutive in E1. rewrite str_eqb_refl in E1. discriminate.
Qed.

(** ** the generalised statement *)
Definition is_nil (s : str) : bool := match s with [] => true | _ => false end.
Definition first_line (strip : bool) (cur l0 : str) : str :=
  if strip && is_nil cur then drop_tabs l0 else cur ++ l0.

Definition gfind (t : str) (strip : bool) (cur : str) (ls0 : list str) : option (list str * list str) :=
  match ls0 with
  | [] => None
  | l0 :: ls =>
      let l' := first_line strip cur l0 in
      if str_eqb l' t then Some ([], ls)
      else match ls with
           | [] => None
           | _ => match spec_find t strip ls with Some (b, r) => Some (l' :: b, r) | None => None end
           end
  end.

Lemma first_line_nil strip cur : first_line strip cur [] = cur.
Proof.
  unfold first_line. destruct (strip && is_nil cur) eqn:E; [|apply app_nil_r].
  apply andb_true_iff in E. destruct E as [_ E]. destruct cur; [reflexivity|discriminate].
Qed.

Lemma gfind_nil t strip ls : gfind t strip [] ls = spec_find t strip ls.
Proof. destruct ls as [|l0 ls]; cbn; auto. unfold first_line. destruct strip; cbn; reflexivity. Qed.

Definition out (rbody : str) (r : option (list str * list str)) : option (str * str) :=
  match r with Some (b, r) => Some (rev rbody ++ unlines b, join_lines r) | None => None end.

Lemma als rcur rbody : nonl rcur -> at_line_start rbody = true -> at_line_start (rcur ++ rbody) = is_nil rcur.
Proof. intros H Hr. destruct rcur as [|x r]; cbn; auto. inversion H; subst; auto. Qed.

Lemma is_nil_rev s : is_nil (rev s) = is_nil s.
Proof. destruct s as [|x s]; cbn; auto. destruct (rev s); reflexivity. Qed.

Lemma scan_gen : forall inp t strip rcur rbody,
  nonl t -> nonl rcur -> at_line_start rbody = true ->
  scan t strip (rcur ++ rbody) inp = out rbody (gfind t strip (rev rcur) (lines_of inp [])).
Proof.
  induction inp as [|c inp IH]; intros t strip rcur rbody Ht Hc Hr.
  - (* end of input *)
    cbn [scan lines_of rev gfind]. rewrite end_tag_core; auto using nonl_rev.
    rewrite first_line_nil. rewrite str_eqb_rev. destruct (str_eqb (rev rcur) t); cbn; [rewrite app_nil_r|]; reflexivity.
  - cbn [scan]. rewrite als; auto.
    destruct (strip && is_nil rcur && N.eqb c TAB) eqn:Etab.
    + (* a leading tab is skipped *)
      apply andb_true_iff in Etab. destruct Etab as [Es Ec]. apply andb_true_iff in Es. destruct Es as [Es En].
      apply N.eqb_eq in Ec; subst c. destruct rcur; [|discriminate]. subst strip.
      rewrite (IH t true [] rbody Ht Hc Hr). f_equal.
      rewrite lines_of_other by reflexivity.
      destruct (lines_of inp []) as [|l0 ls] eqn:El; [exfalso; eapply lines_of_nonempty; eauto|].
      cbn [rev gfind]. unfold first_line. cbn [andb is_nil drop_tabs]. rewrite N.eqb_refl. reflexivity.
    + destruct (N.eqb c NL) eqn:Enl.
      * (* newline: the end-tag test *)
        apply N.eqb_eq in Enl; subst c.
        change (NL :: rcur ++ rbody) with ((NL :: rcur) ++ rbody).
        assert (Hcore : end_tag_at (NL :: rev t) ((NL :: rcur) ++ rbody) = if str_eqb (rev rcur) t then Some rbody else None).
        { unfold end_tag_at, strip_rprefix. cbn [app starts_with length skipn]. rewrite N.eqb_refl. cbn [andb].
          pose proof (end_tag_core (rev t) rcur rbody (nonl_rev _ Ht) Hc Hr) as H.
          unfold end_tag_at, strip_rprefix in H. rewrite H. rewrite str_eqb_rev. reflexivity. }
        rewrite Hcore. cbn [lines_of]. rewrite N.eqb_refl.
        cbn [gfind]. rewrite first_line_nil.
        destruct (str_eqb (rev rcur) t) eqn:Eq.
        -- cbn [out unlines]. rewrite app_nil_r. rewrite join_lines_of. reflexivity.
        -- change ((NL :: rcur) ++ rbody) with ([] ++ (NL :: rcur ++ rbody)).
           rewrite (IH t strip [] (NL :: rcur ++ rbody) Ht (Forall_nil _) eq_refl).
           cbn [rev]. rewrite gfind_nil.
           destruct (lines_of inp []) as [|l0 ls] eqn:El; [exfalso; eapply lines_of_nonempty; eauto|].
           destruct (spec_find t strip (l0 :: ls)) as [[b r]|]; cbn [out]; [|reflexivity].
           cbn [rev unlines]. rewrite rev_app_distr. rewrite <- !app_assoc. cbn [app]. reflexivity.
      * (* any other character joins the current line *)
        change (c :: rcur ++ rbody) with ((c :: rcur) ++ rbody).
        rewrite (IH t strip (c :: rcur) rbody Ht (Forall_cons _ Enl Hc) Hr). f_equal.
        rewrite lines_of_other by exact Enl.
        destruct (lines_of inp []) as [|l0 ls] eqn:El; [exfalso; eapply lines_of_nonempty; eauto|].
        cbn [gfind rev].
        assert (E : first_line strip (rev rcur ++ [c]) l0 = first_line strip (rev rcur) (c :: l0)).
        { unfold first_line. rewrite is_nil_rev.
          replace (is_nil (rev rcur ++ [c])) with false by (destruct (rev rcur); reflexivity).
          rewrite andb_false_r. rewrite <- app_assoc. cbn [app].
          destruct (strip && is_nil rcur) eqn:E; [|reflexivity].
          apply andb_true_iff in E. destruct E as [Es En]. destruct rcur; [|discriminate]. cbn [rev app drop_tabs].
          cbn [andb] in Etab. rewrite Etab. reflexivity. }
        rewrite E. reflexivity.
Qed.

(** For every delimiter without a newline, every operator ([<<] or [<<-]) and every input, the
    tokenizer's character loop returns exactly the lines up to the first line equal to the
    delimiter (leading tabs removed from every line when [<<-]), byte for byte, and leaves exactly
    the text after that line; it fails exactly when no such line exists. *)
Theorem heredoc_scan_spec : forall t strip inp, nonl t ->
  scan t strip [] inp = spec_doc t strip inp.
Proof.
  intros t strip inp Ht.
  pose proof (scan_gen inp t strip [] [] Ht (Forall_nil _) eq_refl) as H. cbn [app rev] in H.
  rewrite H, gfind_nil. unfold spec_doc, out. destruct (spec_find t strip (lines_of inp [])) as [[b r]|]; reflexivity.
Qed.

(** ** several documents on one line *)
Theorem scan_all_spec : forall tags inp,
  Forall (fun p => nonl (tag_of_token (snd p))) tags -> scan_all tags inp = spec_all tags inp.
Proof.
  induction tags as [|[strip tok] tags IH]; intros inp H; cbn [scan_all spec_all]; auto.
  inversion H as [|? ? H1 H2]; subst. cbn [snd] in H1.
  rewrite heredoc_scan_spec by exact H1.
  destruct (spec_doc (tag_of_token tok) strip inp) as [[body rest]|]; auto.
  rewrite IH by exact H2. reflexivity.
Qed.

(** ** the shape of a well-formed document *)
Definition eff (strip : bool) (l : str) : str := if strip then drop_tabs l else l.

Lemma lines_of_unlines : forall ls s, Forall nonl ls ->
  lines_of (unlines ls ++ s) [] = ls ++ lines_of s [].
Proof.
  induction ls as [|l ls IH]; intros s H; cbn [unlines app]; auto.
  inversion H as [|? ? Hl Hls]; subst.
  assert (G : forall l acc, nonl l -> lines_of ((l ++ NL :: unlines ls) ++ s) acc = (rev acc ++ l) :: lines_of (unlines ls ++ s) []).
  { clear -IH. induction l as [|c l IHl]; intros acc Hn; cbn [app lines_of].
    - rewrite N.eqb_refl. rewrite app_nil_r. reflexivity.
    - inversion Hn; subst. rewrite H1. rewrite IHl by assumption. cbn [rev]. rewrite <- app_assoc. reflexivity. }
  rewrite G by assumption. cbn [rev app]. rewrite IH by assumption. reflexivity.
Qed.

Lemma spec_find_skip t strip : forall ls more,
  Forall (fun l => str_eqb (eff strip l) t = false) ls -> more <> [] ->
  spec_find t strip (ls ++ more) =
  match spec_find t strip more with Some (b, r) => Some (map (eff strip) ls ++ b, r) | None => None end.
Proof.
  induction ls as [|l ls IH]; intros more H Hm; cbn [app map].
  - destruct (spec_find t strip more) as [[b r]|]; reflexivity.
  - inversion H as [|? ? Hl Hls]; subst. cbn [spec_find]. fold (eff strip l). rewrite Hl.
    destruct (ls ++ more) as [|x xs] eqn:E; [destruct ls; cbn in E; congruence|].
    rewrite <- E. rewrite IH by assumption. destruct (spec_find t strip more) as [[b r]|]; reflexivity.
Qed.

Lemma unlines_app a b : unlines (a ++ b) = unlines a ++ unlines b.
Proof. induction a as [|l a IH]; cbn [app unlines]; auto. rewrite IH. rewrite <- app_assoc. reflexivity. Qed.

(** A body none of whose lines is the delimiter, followed by the delimiter line: the document is
    the body (every line without its leading tabs for [<<-]), byte for byte, and the rest is what
    follows the delimiter line. *)
Theorem heredoc_body_exact : forall t strip body tline rest,
  nonl t -> Forall nonl body -> nonl tline -> eff strip tline = t ->
  Forall (fun l => str_eqb (eff strip l) t = false) body ->
  scan t strip [] (unlines body ++ tline ++ NL :: rest) = Some (unlines (map (eff strip) body), rest).
Proof.
  intros t strip body tline rest Ht Hb Htl He Hne.
  rewrite heredoc_scan_spec by exact Ht. unfold spec_doc.
  rewrite lines_of_unlines by exact Hb.
  assert (G : forall l acc, nonl l -> lines_of (l ++ NL :: rest) acc = (rev acc ++ l) :: lines_of rest []).
  { induction l as [|c l IHl]; intros acc Hn; cbn [app lines_of].
    - rewrite N.eqb_refl. rewrite app_nil_r. reflexivity.
    - inversion Hn; subst. rewrite H1. rewrite IHl by assumption. cbn [rev]. rewrite <- app_assoc. reflexivity. }
  rewrite G by exact Htl. cbn [rev app].
  rewrite spec_find_skip; [|exact Hne|discriminate].
  cbn [spec_find]. fold (eff strip tline). rewrite He, str_eqb_refl.
  rewrite app_nil_r. rewrite join_lines_of. reflexivity.
Qed.

(** Two here-documents whose operators stand on one line: the bodies follow each other. *)
Theorem two_docs_one_line : forall s1 tok1 s2 tok2 b1 l1 b2 l2 rest,
  let t1 := tag_of_token tok1 in let t2 := tag_of_token tok2 in
  nonl t1 -> nonl t2 -> Forall nonl b1 -> Forall nonl b2 -> nonl l1 -> nonl l2 ->
  eff s1 l1 = t1 -> eff s2 l2 = t2 ->
  Forall (fun l => str_eqb (eff s1 l) t1 = false) b1 ->
  Forall (fun l => str_eqb (eff s2 l) t2 = false) b2 ->
  scan_all [(s1, tok1); (s2, tok2)] (unlines b1 ++ l1 ++ NL :: unlines b2 ++ l2 ++ NL :: rest)
  = Some ([unlines (map (eff s1) b1); unlines (map (eff s2) b2)], rest).
Proof.
  intros s1 tok1 s2 tok2 b1 l1 b2 l2 rest t1 t2 H1 H2 Hb1 Hb2 Hl1 Hl2 He1 He2 Hn1 Hn2.
  cbn [scan_all]. fold t1 t2.
  rewrite (heredoc_body_exact t1 s1 b1 l1 (unlines b2 ++ l2 ++ NL :: rest)) by assumption.
  rewrite (heredoc_body_exact t2 s2 b2 l2 rest) by assumption. reflexivity.
Qed.

(** ** expansion is governed by the delimiter's form only *)
Lemma unquote_plain s : has_quoting s = false -> unquote_str s = s.
Proof.
  unfold unquote_str, has_quoting. induction s as [|c s IH]; cbn [existsb unquote_go]; auto.
  intros H. apply orb_false_iff in H. destruct H as [Hc Hs].
  assert (N.eqb c BSL = false) as -> by (unfold is_quoting_char in Hc; repeat (apply orb_false_iff in Hc; destruct Hc as [Hc ?]); assumption).
  rewrite Hc. rewrite IH by assumption. reflexivity.
Qed.

Theorem expansion_iff_unquoted_delimiter : forall tok,
  (requires_expansion tok = negb (has_quoting tok)) /\
  (requires_expansion tok = true -> tag_of_token tok = tok /\ unquote_str tok = tok).
Proof.
  intros tok.
  assert (E : requires_expansion tok = negb (has_quoting tok)).
  { unfold requires_expansion, has_quoting. f_equal. induction tok as [|c tok IH]; cbn [existsb]; auto.
    rewrite IH. f_equal. unfold is_quoting_char. destruct (N.eqb c SQ), (N.eqb c DQ), (N.eqb c BSL); reflexivity. }
  split; auto. intros H. rewrite E in H. apply negb_true_iff in H.
  unfold tag_of_token. rewrite H. split; auto. apply unquote_plain; auto.
Qed.

(** the scan itself never looks at how the delimiter was quoted, only at the unquoted text *)
Theorem body_independent_of_quoting : forall tags tags' inp,
  map (fun p => (fst p, tag_of_token (snd p))) tags = map (fun p => (fst p, tag_of_token (snd p))) tags' ->
  scan_all tags inp = scan_all tags' inp.
Proof.
  induction tags as [|[s tok] tags IH]; intros [|[s' tok'] tags'] inp H; cbn in H; try discriminate; auto.
  inversion H; subst. cbn [scan_all]. rewrite H2.
  destruct (scan (tag_of_token tok') s' [] inp) as [[body rest]|]; auto. rewrite (IH tags' rest) by assumption. reflexivity.
Qed.

(** non-vacuity: a tab-stripped document with delimiter-like lines inside *)
Example heredoc_example :
  scan [69;79;70]%N true [] ([9;69;79;70;88;10; 32;69;79;70;10; 9;9;120;10; 9;69;79;70;10; 114]%N)
  = Some ([69;79;70;88;10; 32;69;79;70;10; 120;10]%N, [114]%N).
Proof. vm_compute. reflexivity. Qed.
