(** C10 — specification of running commands with redirections (bash / POSIX): one flat table;
    a command's redirections are applied to it left to right, the command runs, and the
    descriptors the redirections assigned are put back; a subshell is a copy; only [exec]
    keeps its redirections.  A failed redirection prints a diagnostic on descriptor 2 as it is
    at that moment and the command is skipped; execution continues with the next command.

    The interpreter also reports in which of the listed deviation classes of brush
    ([known_findings.json]) the run falls; the classes are decided here, on the spec side. *)
From BV Require Import Base.Prelude Redir.FdTable Redir.Apply Redir.Spec Redir.Prog.
Local Open Scope nat_scope.

(** classes (the deviations of brush that are still open) *)
Record flags := { k_diag_unusable : bool;   (* a redirection diagnostic has to be written while 2 is closed / not writable *)
                  k_exec_nested : bool;     (* exec with redirections inside a construct carrying redirections *)
                  k_std_closed : bool }.    (* external command: 0/1/2 closed *)
Definition no_flags := {| k_diag_unusable := false; k_exec_nested := false; k_std_closed := false |}.
Definition for_ (a b : flags) : flags :=
  {| k_diag_unusable := k_diag_unusable a || k_diag_unusable b; k_exec_nested := k_exec_nested a || k_exec_nested b;
     k_std_closed := k_std_closed a || k_std_closed b |}.
Definition any_flag (f : flags) : bool := k_diag_unusable f || k_exec_nested f || k_std_closed f.

Definition restore (Tsaved Tnow : tbl) (ns : list nat) : tbl :=
  fold_left (fun T n => match tlookup Tsaved n with Some e => tset T n e | None => tremove T n end) ns Tnow.

Definition std_flags (T : tbl) : flags :=
  let e n := flat_lookup T n in
  let closed := match e 0%nat, e 1%nat, e 2%nat with Some _, Some _, Some _ => false | _, _, _ => true end in
  {| k_diag_unusable := false; k_exec_nested := false; k_std_closed := closed |}.

Definition spec_action (m : msgtable) (w : world) (T : tbl) (a : action) : world * flags :=
  match a with
  | AEcho tag => (echo m w (flat_lookup T) tag, no_flags)
  | AXProbe tag => (probe w (flat_lookup T) tag, std_flags T)
  end.

Definition fl_diag := {| k_diag_unusable := true; k_exec_nested := false; k_std_closed := false |}.
Definition fl_exec := {| k_diag_unusable := false; k_exec_nested := true; k_std_closed := false |}.

(** diagnostic of a failed redirection; flagged when descriptor 2 cannot take it *)
Definition spec_diag (m : msgtable) (w : world) (T : tbl) (e : rerr) : world * flags :=
  let '(k, a) := err_kind e in
  match flat_lookup T 2%nat with
  | None => (w, fl_diag)
  | Some id => match k_write w id (msg m 0 k a) with
               | (w', true) => (w', no_flags)
               | (_, false) => (w, fl_diag)
               end
  end.

Section Run.
Variable nc : bool.
Variable m : msgtable.

(** [ctx]: some enclosing construct carries redirections *)
Fixpoint srun_cmd (c : cmd) (ctx : bool) (w : world) (T : tbl) {struct c} : world * tbl * flags :=
  let srun_list := fix srun_list (cs : list cmd) (ctx : bool) (w : world) (T : tbl) {struct cs} : world * tbl * flags :=
    match cs with
    | [] => (w, T, no_flags)
    | c :: cs' =>
        let '(w', T', f1) := srun_cmd c ctx w T in
        let '(w'', T'', f2) := srun_list cs' ctx w' T' in
        (w'', T'', for_ f1 f2)
    end in
  match c with
  | CSimple rs a =>
      match spec_apply nc w T rs with
      | (w1, T1, Some e) => let '(w2, f) := spec_diag m w1 T1 e in (w2, T, f)
      | (w1, T1, None) => let '(w2, f) := spec_action m w1 T1 a in (w2, T, f)
      end
  | CExec rs =>
      match spec_apply nc w T rs with
      | (w1, T1, Some e) => let '(w2, f) := spec_diag m w1 T1 e in (w2, T, f)
      | (w1, T1, None) => (w1, T1, if ctx then fl_exec else no_flags)
      end
  | CGroup k body rs =>
      let ctx' := ctx || match rs with [] => false | _ => true end in
      match spec_apply nc w T rs with
      | (w1, T1, Some e) => let '(w2, f) := spec_diag m w1 T1 e in (w2, T, f)
      | (w1, T1, None) =>
          match k with
          | GBrace => let '(w2, T2, f) := srun_list body ctx' w1 T1 in (w2, restore T T2 (touched rs), f)
          | GLoop => let '(w2, T2, f) := srun_list body ctx' w1 T1 in
                     let '(w3, T3, f') := srun_list body ctx' w2 T2 in (w3, restore T T3 (touched rs), for_ f f')
          | GSubshell => let '(w2, _, f) := srun_list body ctx' w1 T1 in (w2, T, f)
          end
      end
  | CFunc body drs crs =>
      match spec_apply nc w T crs with
      | (w1, T1, Some e) => let '(w2, f) := spec_diag m w1 T1 e in (w2, T, f)
      | (w1, T1, None) =>
          let ctx' := ctx || match crs ++ drs with [] => false | _ => true end in
          match spec_apply nc w1 T1 drs with
          | (w2, T2, Some e) => let '(w3, f) := spec_diag m w2 T2 e in (w3, T, f)
          | (w2, T2, None) =>
              let '(w3, T3, f) := srun_list body ctx' w2 T2 in
              (w3, restore T T3 (touched (crs ++ drs)), f)
          end
      end
  end.

Fixpoint srun_list (cs : list cmd) (ctx : bool) (w : world) (T : tbl) : world * tbl * flags :=
  match cs with
  | [] => (w, T, no_flags)
  | c :: cs' =>
      let '(w', T', f1) := srun_cmd c ctx w T in
      let '(w'', T'', f2) := srun_list cs' ctx w' T' in
      (w'', T'', for_ f1 f2)
  end.

Definition srun_script (cs : list cmd) (w : world) (T : tbl) : world * tbl * flags := srun_list cs false w T.
End Run.
