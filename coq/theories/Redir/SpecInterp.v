(** C10 — specification of running commands with redirections (bash / POSIX): one flat table;
    a command's redirections are applied to it left to right, the command runs, and the
    descriptors the redirections assigned are put back; a subshell is a copy; only [exec]
    keeps its redirections.  A failed redirection prints a diagnostic on descriptor 2 as it is
    at that moment and the command is skipped; execution continues with the next command.

    The interpreter also reports in which of the listed deviation classes of brush
    ([known_findings.json]) the run falls; the classes are decided here, on the spec side. *)
From BV Require Import Base.Prelude Redir.FdTable Redir.Apply Redir.Spec Redir.Prog.
Local Open Scope nat_scope.

(** classes *)
Record flags := { k_bothclobber : bool;     (* &>f / >&word under noclobber on an existing regular file *)
                  k_compound_fail : bool;   (* a redirection of a compound command / function definition failed,
                                               or a diagnostic had to be written while 2 was unusable *)
                  k_exec_nested : bool;     (* exec with redirections inside a construct carrying redirections *)
                  k_std_dup : bool;         (* external command: 0/1/2 is one of the shell's own standard streams of another number *)
                  k_std_closed : bool;      (* external command: 0/1/2 closed *)
                  k_selfdup : bool }.       (* n>&n / n<&n while n is closed *)
Definition no_flags := {| k_bothclobber := false; k_compound_fail := false; k_exec_nested := false;
                          k_std_dup := false; k_std_closed := false; k_selfdup := false |}.
Definition for_ (a b : flags) : flags :=
  {| k_bothclobber := k_bothclobber a || k_bothclobber b; k_compound_fail := k_compound_fail a || k_compound_fail b;
     k_exec_nested := k_exec_nested a || k_exec_nested b; k_std_dup := k_std_dup a || k_std_dup b;
     k_std_closed := k_std_closed a || k_std_closed b; k_selfdup := k_selfdup a || k_selfdup b |}.
Definition any_flag (f : flags) : bool :=
  k_bothclobber f || k_compound_fail f || k_exec_nested f || k_std_dup f || k_std_closed f || k_selfdup f.

Definition restore (Tsaved Tnow : tbl) (ns : list nat) : tbl :=
  fold_left (fun T n => match tlookup Tsaved n with Some e => tset T n e | None => tremove T n end) ns Tnow.

(** does a redirection list contain, at the moment it is evaluated, the &> form on an existing
    regular file under noclobber *)
Fixpoint both_clobber (nc : bool) (w : world) (T : tbl) (rs : list redir) : bool :=
  match rs with
  | [] => false
  | r :: rs' =>
      (match r with
       | RBoth p false => nc && is_file w p
       | RDupWord (None | Some 1%nat) p => nc && is_file w p
       | _ => false
       end)
      || match spec_redirect1 nc w T r with
         | inl (w', T') => both_clobber nc w' T' rs'
         | inr _ => false
         end
  end.

(** ... or a duplication of a closed descriptor onto itself *)
Fixpoint selfdup_closed (nc : bool) (w : world) (T : tbl) (rs : list redir) : bool :=
  match rs with
  | [] => false
  | r :: rs' =>
      (match r with
       | RDup n out src => Nat.eqb src (match n with Some n => n | None => if out then 1 else 0 end)
                           && match flat_lookup T src with None => true | Some _ => false end
       | _ => false
       end)
      || match spec_redirect1 nc w T r with
         | inl (w', T') => selfdup_closed nc w' T' rs'
         | inr _ => false
         end
  end.

Definition std_flags (T : tbl) : flags :=
  let e n := flat_lookup T n in
  let closed := match e 0%nat, e 1%nat, e 2%nat with Some _, Some _, Some _ => false | _, _, _ => true end in
  let dup n := match e n with Some id => Nat.ltb id 3 && negb (Nat.eqb id n) | None => false end in
  {| k_bothclobber := false; k_compound_fail := false; k_exec_nested := false;
     k_std_dup := dup 0%nat || dup 1%nat || dup 2%nat; k_std_closed := closed; k_selfdup := false |}.

Definition spec_action (m : msgtable) (w : world) (T : tbl) (a : action) : world * flags :=
  match a with
  | AEcho tag => (echo m w (flat_lookup T) tag, no_flags)
  | AXProbe tag => (probe w (flat_lookup T) tag, std_flags T)
  end.

(** diagnostic of a failed redirection; flagged when descriptor 2 cannot take it *)
Definition spec_diag (m : msgtable) (style : nat) (w : world) (T : tbl) (e : rerr) : world * flags :=
  let '(k, a) := err_kind e in
  match flat_lookup T 2%nat with
  | None => (w, {| k_bothclobber := false; k_compound_fail := true; k_exec_nested := false; k_std_dup := false; k_std_closed := false; k_selfdup := false |})
  | Some id => match k_write w id (msg m style k a) with
               | (w', true) => (w', no_flags)
               | (_, false) => (w, {| k_bothclobber := false; k_compound_fail := true; k_exec_nested := false; k_std_dup := false; k_std_closed := false; k_selfdup := false |})
               end
  end.

Definition fl_compound := {| k_bothclobber := false; k_compound_fail := true; k_exec_nested := false; k_std_dup := false; k_std_closed := false; k_selfdup := false |}.
Definition fl_exec := {| k_bothclobber := false; k_compound_fail := false; k_exec_nested := true; k_std_dup := false; k_std_closed := false; k_selfdup := false |}.
Definition fl_both0 (b : bool) := {| k_bothclobber := b; k_compound_fail := false; k_exec_nested := false; k_std_dup := false; k_std_closed := false; k_selfdup := false |}.

Definition fl_self (b : bool) := {| k_bothclobber := false; k_compound_fail := false; k_exec_nested := false; k_std_dup := false; k_std_closed := false; k_selfdup := b |}.

Section Run.
Variable nc : bool.
Variable m : msgtable.
Definition fl_cls (w : world) (T : tbl) (rs : list redir) : flags := for_ (fl_both0 (both_clobber nc w T rs)) (fl_self (selfdup_closed nc w T rs)).

(** [ctx]: some enclosing construct carries redirections *)
Fixpoint srun_cmd (c : cmd) (ctx : bool) (w : world) (T : tbl) {struct c} : world * tbl * flags :=
  let srun_list := fix srun_list (cs : list cmd) (ctx : bool) (w : world) (T : tbl) {struct cs} : world * tbl * flags :=
    match cs with
    | [] => (w, T, no_flags)
    | c :: cs' =>
        let '(w', T', f1) := srun_cmd c ctx w T in
        let '(w'', T'', f2) := srun_list cs' ctx w' T' in
        (w'', T'', for_ f1 f2)
    end in
  match c with
  | CSimple rs a =>
      let fb := fl_cls w T rs in
      match spec_apply nc w T rs with
      | (w1, T1, Some e) => let '(w2, f) := spec_diag m 0 w1 T1 e in (w2, T, for_ fb f)
      | (w1, T1, None) => let '(w2, f) := spec_action m w1 T1 a in (w2, T, for_ fb f)
      end
  | CExec rs =>
      let fb := fl_cls w T rs in
      match spec_apply nc w T rs with
      | (w1, T1, Some e) => let '(w2, f) := spec_diag m 0 w1 T1 e in (w2, T, for_ fb f)
      | (w1, T1, None) => (w1, T1, for_ fb (if ctx then fl_exec else no_flags))
      end
  | CGroup k body rs =>
      let fb := fl_cls w T rs in
      let ctx' := ctx || match rs with [] => false | _ => true end in
      match spec_apply nc w T rs with
      | (w1, T1, Some e) => let '(w2, f) := spec_diag m 1 w1 T1 e in (w2, T, for_ fb (for_ fl_compound f))
      | (w1, T1, None) =>
          match k with
          | GBrace => let '(w2, T2, f) := srun_list body ctx' w1 T1 in (w2, restore T T2 (touched rs), for_ fb f)
          | GLoop => let '(w2, T2, f) := srun_list body ctx' w1 T1 in
                     let '(w3, T3, f') := srun_list body ctx' w2 T2 in (w3, restore T T3 (touched rs), for_ fb (for_ f f'))
          | GSubshell => let '(w2, _, f) := srun_list body ctx' w1 T1 in (w2, T, for_ fb f)
          end
      end
  | CFunc body drs crs =>
      let fb := fl_cls w T crs in
      match spec_apply nc w T crs with
      | (w1, T1, Some e) => let '(w2, f) := spec_diag m 0 w1 T1 e in (w2, T, for_ fb f)
      | (w1, T1, None) =>
          let fb2 := fl_cls w1 T1 drs in
          let ctx' := ctx || match crs ++ drs with [] => false | _ => true end in
          match spec_apply nc w1 T1 drs with
          | (w2, T2, Some e) => let '(w3, f) := spec_diag m 1 w2 T2 e in (w3, T, for_ fb (for_ fb2 (for_ fl_compound f)))
          | (w2, T2, None) =>
              let '(w3, T3, f) := srun_list body ctx' w2 T2 in
              (w3, restore T T3 (touched (crs ++ drs)), for_ fb (for_ fb2 f))
          end
      end
  end.

Fixpoint srun_list (cs : list cmd) (ctx : bool) (w : world) (T : tbl) : world * tbl * flags :=
  match cs with
  | [] => (w, T, no_flags)
  | c :: cs' =>
      let '(w', T', f1) := srun_cmd c ctx w T in
      let '(w'', T'', f2) := srun_list cs' ctx w' T' in
      (w'', T'', for_ f1 f2)
  end.

Definition srun_script (cs : list cmd) (w : world) (T : tbl) : world * tbl * flags := srun_list cs false w T.
End Run.
