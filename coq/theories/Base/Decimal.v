(** Decimal round trip: [parse_i64 (show_Z z) = Some z]; rendered numbers contain no blanks. *)
From BV Require Import Base.Prelude.

Definition dval (c : char) : Z := Z.of_N c - 48.
Fixpoint val (a : Z) (s : str) : Z := match s with [] => a | c :: s' => val (a * 10 + dval c) s' end.
Definition all_digits (s : str) : Prop := Forall (fun c => is_digit c = true) s.

Lemma digits_val_val s : all_digits s -> forall a, digits_val a s = Some (val a s).
Proof.
  induction 1 as [|c s Hc _ IH]; intros a; cbn; [reflexivity|]. rewrite Hc. apply IH.
Qed.

Lemma val_shift s : forall a, val a s = a * 10 ^ Z.of_nat (length s) + val 0 s.
Proof.
  induction s as [|c s IH]; intros a.
  - cbn. lia.
  - cbn [val length]. rewrite IH. rewrite (IH (0 * 10 + dval c)).
    rewrite Nat2Z.inj_succ, Z.pow_succ_r by lia. ring.
Qed.

Lemma digit_char n : (n < 10)%N -> is_digit (48 + n)%N = true /\ dval (48 + n)%N = Z.of_N n.
Proof. unfold is_digit, dval. intros H. split; [apply andb_true_intro; split; apply N.leb_le; lia | lia]. Qed.

Lemma show_fuel_spec f : forall n acc, all_digits acc -> (Z.of_N n < 10 ^ Z.of_nat f) -> (0 < f)%nat ->
  all_digits (show_N_fuel f n acc) /\
  val 0 (show_N_fuel f n acc) = Z.of_N n * 10 ^ Z.of_nat (length acc) + val 0 acc.
Proof.
  induction f as [|f IH]; intros n acc Hacc Hn Hf; [lia|].
  cbn [show_N_fuel].
  assert (Hm : (n mod 10 < 10)%N) by (apply N.mod_lt; lia).
  destruct (digit_char _ Hm) as [Hd Hv].
  destruct (N.ltb_spec n 10) as [Hlt|Hge].
  - split; [constructor; assumption|].
    cbn [val]. rewrite val_shift. rewrite Hv. rewrite N.mod_small by assumption. ring.
  - assert (Hf' : (0 < f)%nat).
    { destruct f; [|lia]. cbn in Hn. lia. }
    assert (Hn' : Z.of_N (n / 10) < 10 ^ Z.of_nat f).
    { rewrite N2Z.inj_div. apply Z.div_lt_upper_bound; [lia|].
      rewrite Nat2Z.inj_succ, Z.pow_succ_r in Hn by lia. exact Hn. }
    destruct (IH (n / 10)%N ((48 + n mod 10)%N :: acc) (Forall_cons _ Hd Hacc) Hn' Hf') as [Ha Hval].
    split; [exact Ha|]. rewrite Hval. cbn [val length].
    rewrite (val_shift acc (0 * 10 + _)). rewrite Hv.
    rewrite Nat2Z.inj_succ, Z.pow_succ_r by lia.
    rewrite N2Z.inj_div, N2Z.inj_mod. change (Z.of_N 10) with 10.
    pose proof (Z.div_mod (Z.of_N n) 10 ltac:(lia)) as Hdm. nia.
Qed.

Lemma size_bound n : Z.of_N n < 10 ^ Z.of_nat (S (N.size_nat n)).
Proof.
  destruct n as [|p]; [cbn; lia|].
  assert (H : Z.pos p < 2 ^ Z.of_nat (N.size_nat (N.pos p))).
  { cbn [N.size_nat]. induction p as [p IH|p IH|]; cbn [Pos.size_nat].
    - rewrite Nat2Z.inj_succ, Z.pow_succ_r by lia. rewrite Pos2Z.inj_xI. lia.
    - rewrite Nat2Z.inj_succ, Z.pow_succ_r by lia. rewrite Pos2Z.inj_xO. lia.
    - cbn. lia. }
  cbn [Z.of_N]. eapply Z.lt_le_trans; [exact H|].
  rewrite Nat2Z.inj_succ, Z.pow_succ_r by lia.
  assert (2 ^ Z.of_nat (N.size_nat (N.pos p)) <= 10 ^ Z.of_nat (N.size_nat (N.pos p))).
  { apply Z.pow_le_mono_l; lia. }
  assert (0 < 10 ^ Z.of_nat (N.size_nat (N.pos p))) by (apply Z.pow_pos_nonneg; lia). lia.
Qed.

Lemma show_N_spec n : all_digits (show_N n) /\ val 0 (show_N n) = Z.of_N n /\ show_N n <> [].
Proof.
  unfold show_N.
  destruct (show_fuel_spec (S (N.size_nat n)) n [] (Forall_nil _) (size_bound n) ltac:(lia)) as [Ha Hv].
  split; [exact Ha|]. split; [rewrite Hv; cbn; lia|].
  cbn [show_N_fuel]. destruct (n <? 10)%N; [discriminate|].
  intro H. apply (f_equal (@length _)) in H.
  revert H. generalize ((48 + n mod 10)%N). generalize (n / 10)%N. generalize (N.size_nat n).
  intros k. assert (G : forall k m acc, (length acc <= length (show_N_fuel k m acc))%nat).
  { clear. induction k as [|k IH]; intros m acc; cbn [show_N_fuel]; [lia|].
    destruct (m <? 10)%N; cbn [length]; [lia|]. etransitivity; [|apply IH]. cbn; lia. }
  intros m c H. pose proof (G k m [c]) as G'. cbn [length] in G', H. unfold char in *. lia.
Qed.

Lemma parse_go_digits neg s : all_digits s -> s <> [] ->
  parse_go neg s = let v := if neg then - val 0 s else val 0 s in if in_i64 v then Some v else None.
Proof.
  intros Ha Hne. unfold parse_go. destruct s as [|c s]; [congruence|].
  rewrite digits_val_val by assumption. reflexivity.
Qed.

Lemma parse_i64_digit c s : is_digit c = true -> parse_i64 (c :: s) = parse_go false (c :: s).
Proof.
  intros Hc. unfold is_digit in Hc. apply andb_prop in Hc as [Hc1 Hc2]. apply N.leb_le in Hc1, Hc2.
  unfold parse_i64.
  destruct c as [|p]; [reflexivity|].
  repeat (destruct p as [p|p|]; try reflexivity; try lia).
Qed.

Theorem parse_show_Z z : in_i64 z = true -> parse_i64 (show_Z z) = Some z.
Proof.
  intros Hr. unfold show_Z. destruct (Z.ltb_spec z 0) as [Hneg|Hpos].
  - destruct (show_N_spec (Z.to_N (- z))) as (Ha & Hv & Hne).
    change (parse_go true (show_N (Z.to_N (- z))) = Some z).
    rewrite parse_go_digits by assumption. cbv zeta. rewrite Hv.
    rewrite Z2N.id by lia. replace (- - z) with z by lia. rewrite Hr. reflexivity.
  - destruct (show_N_spec (Z.to_N z)) as (Ha & Hv & Hne).
    destruct (show_N (Z.to_N z)) as [|c s] eqn:E; [congruence|].
    assert (Hc : is_digit c = true) by (inversion Ha; assumption).
    rewrite parse_i64_digit by assumption.
    rewrite parse_go_digits by assumption. cbv zeta. rewrite Hv, Z2N.id by lia. rewrite Hr. reflexivity.
Qed.

Lemma digit_not_ws c : is_digit c = true -> is_ws c = false.
Proof.
  unfold is_digit, is_ws. intros H. apply andb_prop in H as [H1 H2]. apply N.leb_le in H1, H2.
  repeat match goal with |- context [(?a <=? ?b)%N] => destruct (N.leb_spec a b) end;
  repeat match goal with |- context [(?a =? ?b)%N] => destruct (N.eqb_spec a b) end; try reflexivity; lia.
Qed.

Lemma show_Z_no_ws z : Forall (fun c => is_ws c = false) (show_Z z).
Proof.
  unfold show_Z. destruct (z <? 0).
  - constructor; [reflexivity|]. destruct (show_N_spec (Z.to_N (- z))) as (Ha & _).
    eapply Forall_impl; [|exact Ha]. apply digit_not_ws.
  - destruct (show_N_spec (Z.to_N z)) as (Ha & _). eapply Forall_impl; [|exact Ha]. apply digit_not_ws.
Qed.

Lemma trim_start_id s : match s with c :: _ => is_ws c = false | [] => True end -> trim_start s = s.
Proof. destruct s as [|c s]; cbn; [reflexivity|]. intros ->. reflexivity. Qed.

Lemma trim_no_ws s : Forall (fun c => is_ws c = false) s -> trim s = s.
Proof.
  intros H. unfold trim, trim_end. rewrite (trim_start_id s).
  - rewrite trim_start_id; [apply rev_involutive|].
    destruct (rev s) as [|c r] eqn:E; [exact I|].
    assert (In c s) by (apply in_rev; rewrite E; left; reflexivity).
    rewrite Forall_forall in H. auto.
  - destruct s; [exact I|]. inversion H; assumption.
Qed.
