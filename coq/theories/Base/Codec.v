(** Helpers for the correspondence entry points: every entry has type [list str -> list str]
    (fields in, fields out) so that the OCaml driver and the in-Coq [vm_compute] cross-check
    share one dispatcher and no per-property glue. *)
From Coq Require Import String Ascii.
From BV Require Import Base.Prelude.

Definition lit (s : string) : str := map (fun a => N_of_ascii a) (list_ascii_of_string s).

Definition dec_Z (s : str) : Z := match parse_i64 s with Some z => z | None => 0 end.
Definition dec_nat (s : str) : nat := Z.to_nat (dec_Z s).
Definition dec_bool (s : str) : bool := match s with 49%N :: _ => true | _ => false end.
Definition enc_bool (b : bool) : str := if b then lit "1" else lit "0".
Definition enc_nat (n : nat) : str := show_Z (Z.of_nat n).
Definition enc_optZ (o : option Z) : str := match o with Some z => show_Z z | None => lit "-" end.

(** Split on a separator character. *)
Fixpoint split_on (sep : char) (s : str) (cur : str) : list str :=
  match s with
  | [] => [rev cur]
  | c :: s' => if N.eqb c sep then rev cur :: split_on sep s' [] else split_on sep s' (c :: cur)
  end.
