(** Shared conventions: characters are Unicode scalar values ([N]), strings are lists. *)
From Coq Require Export List NArith ZArith Bool Lia.
Export ListNotations.
Open Scope Z_scope.

Definition char := N.
Definition str := list char.

Fixpoint str_eqb (a b : str) : bool :=
  match a, b with
  | [], [] => true
  | x :: a', y :: b' => N.eqb x y && str_eqb a' b'
  | _, _ => false
  end.

Lemma str_eqb_eq a b : str_eqb a b = true <-> a = b.
Proof.
  revert b; induction a as [|x a IH]; intros [|y b]; cbn; try (split; congruence).
  rewrite andb_true_iff, N.eqb_eq, IH. split; [intros [-> ->]; reflexivity | intros H; inversion H; auto].
Qed.

Lemma str_eqb_refl a : str_eqb a a = true.
Proof. apply str_eqb_eq; reflexivity. Qed.

Fixpoint starts_with (p s : str) : bool :=
  match p, s with
  | [], _ => true
  | x :: p', y :: s' => N.eqb x y && starts_with p' s'
  | _ :: _, [] => false
  end.

(** Rust's [char::is_whitespace] (Unicode White_Space). *)
Definition is_ws (c : char) : bool :=
  ((9 <=? c) && (c <=? 13) || (c =? 32) || (c =? 133) || (c =? 160) || (c =? 5760)
   || ((8192 <=? c) && (c <=? 8202)) || (c =? 8232) || (c =? 8233) || (c =? 8239)
   || (c =? 8287) || (c =? 12288))%N.

Fixpoint trim_start (s : str) : str :=
  match s with
  | c :: s' => if is_ws c then trim_start s' else s
  | [] => []
  end.

Definition trim_end (s : str) : str := rev (trim_start (rev s)).
Definition trim (s : str) : str := trim_end (trim_start s).

Definition is_digit (c : char) : bool := ((48 <=? c) && (c <=? 57))%N.

Fixpoint digits_val (acc : Z) (s : str) : option Z :=
  match s with
  | [] => Some acc
  | c :: s' => if is_digit c then digits_val (acc * 10 + (Z.of_N c - 48)) s' else None
  end.

Definition i64_min : Z := - 2 ^ 63.
Definition i64_max : Z := 2 ^ 63 - 1.
Definition in_i64 (z : Z) : bool := (i64_min <=? z) && (z <=? i64_max).

(** Rust's [str::parse::<i64>]: optional sign, at least one ASCII digit, no overflow. *)
Definition parse_go (neg : bool) (ds : str) : option Z :=
  match ds with
  | [] => None
  | _ => match digits_val 0 ds with
         | Some v => let v' := if neg then - v else v in
                     if in_i64 v' then Some v' else None
         | None => None
         end
  end.
Definition parse_i64 (s : str) : option Z :=
  match s with
  | 43%N :: ds => parse_go false ds
  | 45%N :: ds => parse_go true ds
  | _ => parse_go false s
  end.

Definition NL : char := 10%N.
Definition HASH : char := 35%N.

(** Decimal rendering (Rust's [Display] for integers). *)
Fixpoint show_N_fuel (fuel : nat) (n : N) (acc : str) : str :=
  match fuel with
  | O => acc
  | S f => let d := (48 + n mod 10)%N in
           if (n <? 10)%N then d :: acc else show_N_fuel f (n / 10)%N (d :: acc)
  end.
Definition show_N (n : N) : str := show_N_fuel (S (N.size_nat n)) n [].
Definition show_Z (z : Z) : str :=
  if z <? 0 then 45%N :: show_N (Z.to_N (- z)) else show_N (Z.to_N z).
