(** C15 — memoisation behind the parse entry points.

    brush memoises [tokenize_str_with_options], [word::parse], [arithmetic::parse],
    [Shell::parse_string] (and prompt parsing, regex compilation) in bounded LRU stores of
    the `cached` crate: the `convert` expression computes a key from the arguments, a hit
    returns the stored value, a miss calls the function and stores the value, possibly
    evicting other entries.

    [Memo] is the generic bounded memo table: the store is an association list, and what
    happens to the store after a hit / after an insertion is an *arbitrary* function that
    may only drop or reorder entries ([incl]).  Every capacity and every eviction order is an
    instance.  [memo_transparent] says that the table is invisible provided the key determines
    the function's value.

    [lru_*] is the concrete policy of `cached::LruCache` (most recently used first; a hit moves
    the entry to the front; an insertion into a full store drops the least recently used
    entry); it is executable, an instance of the generic table, and compared with the real
    `cached::LruCache` by the correspondence check (entry [c15lru]). *)
From BV Require Import Base.Prelude.

Section Memo.
  Variables A K V : Type.
  Variable K_eqb : K -> K -> bool.
  Hypothesis K_eqb_eq : forall a b, K_eqb a b = true <-> a = b.

  Definition store := list (K * V).

  Fixpoint lookup (k : K) (s : store) : option V :=
    match s with
    | [] => None
    | (k', v) :: s' => if K_eqb k k' then Some v else lookup k s'
    end.

  (** The policy: what the store looks like after a hit on [k], and after inserting at the
      front.  Both are arbitrary up to [incl]. *)
  Variable on_hit : K -> store -> store.
  Variable on_insert : store -> store.
  Hypothesis on_hit_incl : forall k s, incl (on_hit k s) s.
  Hypothesis on_insert_incl : forall s, incl (on_insert s) s.

  Variable f : A -> V.
  Variable key : A -> K.

  Definition call (s : store) (a : A) : V * store :=
    match lookup (key a) s with
    | Some v => (v, on_hit (key a) s)
    | None => let v := f a in (v, on_insert ((key a, v) :: s))
    end.

  Fixpoint run_history (s : store) (h : list A) : store :=
    match h with
    | [] => s
    | a :: h' => run_history (snd (call s a)) h'
    end.

  (** The value the memoised entry point returns for [a] after the process has already
      served the calls in [history] (from an empty store). *)
  Definition cached_call (history : list A) (a : A) : V := fst (call (run_history [] history) a).

  (** Every stored value is the function's value at some argument with that key. *)
  Definition sound (s : store) : Prop :=
    forall k v, In (k, v) s -> exists a, key a = k /\ f a = v.

  Lemma lookup_in k s v : lookup k s = Some v -> In (k, v) s.
  Proof.
    induction s as [|[k' v'] s IH]; cbn; [discriminate|].
    destruct (K_eqb k k') eqn:E.
    - intros H; inversion H; subst. apply K_eqb_eq in E; subst. now left.
    - intros H; right; auto.
  Qed.

  Lemma sound_incl s s' : incl s' s -> sound s -> sound s'.
  Proof. intros Hi Hs k v Hin. apply Hs, Hi, Hin. Qed.

  Lemma call_sound s a : sound s -> sound (snd (call s a)).
  Proof.
    intros Hs. unfold call. destruct (lookup (key a) s) as [v|] eqn:E; cbn.
    - eapply sound_incl; [apply on_hit_incl | exact Hs].
    - eapply sound_incl; [apply on_insert_incl|].
      intros k v [H|H]; [inversion H; subst; eauto | auto].
  Qed.

  Lemma run_history_sound h : forall s, sound s -> sound (run_history s h).
  Proof. induction h as [|a h IH]; intros s Hs; cbn; [exact Hs | apply IH, call_sound, Hs]. Qed.

  Hypothesis key_determines : forall a b, key a = key b -> f a = f b.

  Lemma call_value s a : sound s -> fst (call s a) = f a.
  Proof.
    intros Hs. unfold call. destruct (lookup (key a) s) as [v|] eqn:E; cbn; [|reflexivity].
    apply lookup_in in E. destruct (Hs _ _ E) as (b & Hk & Hv). rewrite <- Hv. now apply key_determines.
  Qed.

  Theorem memo_transparent_gen : forall history a, cached_call history a = f a.
  Proof.
    intros h a. unfold cached_call. apply call_value, run_history_sound. intros k v [].
  Qed.

  (** The whole sequence of answers of a session equals the sequence of plain calls. *)
  Fixpoint answers (s : store) (h : list A) : list V :=
    match h with
    | [] => []
    | a :: h' => fst (call s a) :: answers (snd (call s a)) h'
    end.

  Lemma answers_map h : forall s, sound s -> answers s h = map f h.
  Proof.
    induction h as [|a h IH]; intros s Hs; cbn; [reflexivity|].
    rewrite call_value by exact Hs. f_equal. apply IH, call_sound, Hs.
  Qed.
End Memo.

Arguments lookup {K V} K_eqb k s.
Arguments call {A K V} K_eqb on_hit on_insert f key s a.
Arguments run_history {A K V} K_eqb on_hit on_insert f key s h.
Arguments cached_call {A K V} K_eqb on_hit on_insert f key history a.
Arguments answers {A K V} K_eqb on_hit on_insert f key s h.

(** The statement of the design, with the policy quantified: any capacity, any eviction order. *)
Theorem memo_transparent :
  forall (A K V : Type) (K_eqb : K -> K -> bool), (forall a b, K_eqb a b = true <-> a = b) ->
  forall (on_hit : K -> list (K * V) -> list (K * V)) (on_insert : list (K * V) -> list (K * V)),
  (forall k s, incl (on_hit k s) s) -> (forall s, incl (on_insert s) s) ->
  forall (f : A -> V) (key : A -> K), (forall a b, key a = key b -> f a = f b) ->
  forall history a, cached_call K_eqb on_hit on_insert f key history a = f a.
Proof. intros. now apply memo_transparent_gen. Qed.

Theorem memo_session_transparent :
  forall (A K V : Type) (K_eqb : K -> K -> bool), (forall a b, K_eqb a b = true <-> a = b) ->
  forall (on_hit : K -> list (K * V) -> list (K * V)) (on_insert : list (K * V) -> list (K * V)),
  (forall k s, incl (on_hit k s) s) -> (forall s, incl (on_insert s) s) ->
  forall (f : A -> V) (key : A -> K), (forall a b, key a = key b -> f a = f b) ->
  forall history, answers K_eqb on_hit on_insert f key [] history = map f history.
Proof. intros. eapply answers_map; eauto. intros k v []. Qed.

(** ** The concrete policy of `cached::LruCache` (bounded by [cap], most recent first). *)
Section Lru.
  Variables K V : Type.
  Variable K_eqb : K -> K -> bool.
  Variable cap : nat.

  Fixpoint remove_key (k : K) (s : list (K * V)) : list (K * V) :=
    match s with
    | [] => []
    | (k', v) :: s' => if K_eqb k k' then s' else (k', v) :: remove_key k s'
    end.

  (** A hit refreshes the entry: it moves to the front. *)
  Definition lru_hit (k : K) (s : list (K * V)) : list (K * V) :=
    match lookup K_eqb k s with
    | Some v => (k, v) :: remove_key k s
    | None => s
    end.

  (** Insertion at the front of a full store drops the tail. *)
  Definition lru_insert (s : list (K * V)) : list (K * V) := firstn cap s.

  Lemma remove_key_incl k s : incl (remove_key k s) s.
  Proof.
    induction s as [|[k' v] s IH]; cbn; [apply incl_refl|].
    destruct (K_eqb k k'); [apply incl_tl, incl_refl|].
    apply incl_cons; [now left | apply incl_tl, IH].
  Qed.

  Hypothesis K_eqb_eq : forall a b, K_eqb a b = true <-> a = b.

  Lemma lru_hit_incl k s : incl (lru_hit k s) s.
  Proof.
    unfold lru_hit. destruct (lookup K_eqb k s) as [v|] eqn:E; [|apply incl_refl].
    apply incl_cons; [eapply lookup_in; eauto | apply remove_key_incl].
  Qed.

  Lemma lru_insert_incl s : incl (lru_insert s) s.
  Proof. unfold lru_insert. intros x Hx. rewrite <- (firstn_skipn cap s). apply in_or_app; now left. Qed.

  Lemma remove_key_length k s : (length (remove_key k s) <= length s)%nat.
  Proof. induction s as [|[k' v] s IH]; cbn; [lia|]. destruct (K_eqb k k'); cbn; lia. Qed.

  Lemma lookup_remove_length k s v : lookup K_eqb k s = Some v -> S (length (remove_key k s)) = length s.
  Proof.
    induction s as [|[k' v'] s IH]; cbn; [discriminate|].
    destruct (K_eqb k k'); [reflexivity|]. intros H. cbn. now rewrite IH.
  Qed.
End Lru.

Arguments lru_hit {K V} K_eqb k s.
Arguments lru_insert {K V} cap s.
Arguments remove_key {K V} K_eqb k s.

Section LruMemo.
  Variables A K V : Type.
  Variable K_eqb : K -> K -> bool.
  Hypothesis K_eqb_eq : forall a b, K_eqb a b = true <-> a = b.
  Variable cap : nat.
  Variable f : A -> V.
  Variable key : A -> K.

  Definition lru_call := call K_eqb (lru_hit K_eqb) (lru_insert cap) f key.
  Definition lru_run := run_history K_eqb (lru_hit K_eqb) (lru_insert cap) f key.
  Definition lru_cached_call := cached_call K_eqb (lru_hit K_eqb) (lru_insert cap) f key.

  Theorem lru_transparent : (forall a b, key a = key b -> f a = f b) ->
    forall history a, lru_cached_call history a = f a.
  Proof.
    intros Hk h a. apply memo_transparent; auto.
    - intros; now apply lru_hit_incl.
    - intros; apply lru_insert_incl.
  Qed.

  (** The store never holds more than [cap] entries (for [cap >= 1], as the macro enforces). *)
  Lemma lru_call_bounded s a : (length s <= cap)%nat -> (length (snd (lru_call s a)) <= cap)%nat.
  Proof.
    intros Hs. unfold lru_call, call. destruct (lookup K_eqb (key a) s) as [v|] eqn:E; cbn.
    - unfold lru_hit. rewrite E. cbn. erewrite lookup_remove_length by eauto. exact Hs.
    - unfold lru_insert. rewrite firstn_length. lia.
  Qed.

  Theorem lru_bounded h : forall s, (length s <= cap)%nat -> (length (lru_run s h) <= cap)%nat.
  Proof.
    induction h as [|a h IH]; intros s Hs; cbn; [exact Hs|]. apply IH, lru_call_bounded, Hs.
  Qed.
End LruMemo.

(** ** The hypothesis is necessary: a key that drops an input makes the table visible.
    [f] is a function of (text, option); the key keeps only the text. *)
Definition ex_f (a : nat * bool) : nat := if snd a then S (fst a) else fst a.
Definition ex_key_bad (a : nat * bool) : nat := fst a.
Definition ex_key_good (a : nat * bool) : nat * bool := a.
Definition pair_eqb (a b : nat * bool) : bool := Nat.eqb (fst a) (fst b) && Bool.eqb (snd a) (snd b).

Lemma memo_key_drop_visible :
  lru_cached_call _ _ _ Nat.eqb 64 ex_f ex_key_bad [(7%nat, false)] (7%nat, true) <> ex_f (7%nat, true).
Proof. vm_compute. discriminate. Qed.

Lemma pair_eqb_eq a b : pair_eqb a b = true <-> a = b.
Proof.
  destruct a as [n x], b as [m y]; unfold pair_eqb; cbn.
  rewrite andb_true_iff, Nat.eqb_eq, Bool.eqb_true_iff. split; [intros [-> ->]; reflexivity | intros H; inversion H; auto].
Qed.

Lemma memo_full_key_invisible : forall h a,
  lru_cached_call _ _ _ pair_eqb 64 ex_f ex_key_good h a = ex_f a.
Proof. intros. apply lru_transparent; [exact pair_eqb_eq | intros x y H; unfold ex_key_good in H; now subst]. Qed.
