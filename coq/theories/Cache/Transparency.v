(** C15 — the memoisation sites found in the brush sources (gen/C15CacheKeys.v) are transparent.

    A call of a memoised function is an assignment of values to its parameter names
    ([env : string -> Val]); the function's result depends on the values of its parameters
    ([F (map env params)] — purity, which the correspondence check tests on the real code);
    the `convert` expression copies the parameters named in [cs_key_idents] into the key.
    [covers]: every parameter occurs in the key.  The regenerated obligation
    [keys_cover_inputs] decides this for every site; [covered_site_transparent] turns it into
    the hypothesis of [memo_transparent]. *)
From Coq Require Import String Ascii.
From BV Require Import Base.Prelude Cache.Lru gen.C15CacheKeys.

Definition str_mem (x : string) (l : list string) : bool := existsb (String.eqb x) l.

Definition covers (c : cache_site) : bool :=
  forallb (fun p => str_mem p (cs_key_idents c)) (cs_params c).

(** The key has as many components as its type says, and is bounded. *)
Definition well_formed_site (c : cache_site) : bool :=
  Nat.eqb (length (cs_key_comps c)) (length (cs_key_idents c)) &&
  Nat.eqb (length (cs_params c)) (length (cs_ptypes c)) &&
  Nat.leb 1 (cs_size c).

(** Equality and hashing of a key component type are the derived, structural ones. *)
Definition structural (k : key_type) : bool :=
  str_mem "PartialEq" (kt_derives k) && str_mem "Eq" (kt_derives k) && str_mem "Hash" (kt_derives k) &&
  match kt_manual_impls k with [] => true | _ => false end.

Definition primitive_type (t : string) : bool :=
  str_mem t ["String"; "bool"; "u8"; "u16"; "u32"; "u64"; "usize"; "i8"; "i16"; "i32"; "i64"; "isize"; "char"; "unit"]%string.

Definition short_name (t : string) : string :=
  (* last path segment: "brush_parser::ParserOptions" -> "ParserOptions" *)
  let fix go (s acc : string) : string :=
    match s with
    | EmptyString => acc
    | String c s' => if Ascii.eqb c (Ascii.ascii_of_nat 58) then go s' EmptyString else go s' (acc ++ String c EmptyString)%string
    end in go t EmptyString.

Definition type_known (t : string) : bool :=
  primitive_type t || existsb (fun k => String.eqb (kt_name k) (short_name t)) key_types.

(** Every component type of every key, and every field type of those, is primitive or a listed
    structural type. *)
Definition key_types_closed : bool :=
  forallb (fun c => forallb type_known (cs_key_comps c)) cache_sites &&
  forallb (fun k => forallb (fun f => type_known (snd f)) (kt_fields k)) key_types.

(** ** Regenerated obligations (re-checked against what the code says now) *)
Lemma keys_cover_inputs : forallb covers cache_sites = true.
Proof. vm_compute. reflexivity. Qed.

Lemma sites_well_formed : forallb well_formed_site cache_sites = true.
Proof. vm_compute. reflexivity. Qed.

Lemma key_types_structural : forallb structural key_types = true /\ key_types_closed = true.
Proof. split; vm_compute; reflexivity. Qed.

(** The parser crates hold no process-global state of their own besides the listed stores. *)
Lemma no_other_parser_state : parser_globals = [].
Proof. reflexivity. Qed.

(** ** From coverage to transparency *)
Lemma str_mem_in x l : str_mem x l = true -> In x l.
Proof.
  unfold str_mem. rewrite existsb_exists. intros (y & Hy & E). apply String.eqb_eq in E. now subst.
Qed.

Lemma map_agree_on {Val} (e1 e2 : string -> Val) (ids ps : list string) :
  (forall p, In p ps -> In p ids) -> map e1 ids = map e2 ids -> map e1 ps = map e2 ps.
Proof.
  intros Hsub Hk. apply map_ext_in. intros p Hp. specialize (Hsub p Hp).
  clear Hp ps.
  induction ids as [|i ids IH]; [contradiction|].
  cbn in Hk. inversion Hk as [[H1 H2]]. destruct Hsub as [->|Hin]; [exact H1 | now apply IH].
Qed.

Lemma covered_key_determines {Val R} (c : cache_site) (F : list Val -> R) :
  covers c = true ->
  forall e1 e2 : string -> Val,
  map e1 (cs_key_idents c) = map e2 (cs_key_idents c) -> F (map e1 (cs_params c)) = F (map e2 (cs_params c)).
Proof.
  intros Hc e1 e2 Hk. f_equal. eapply map_agree_on; [|exact Hk].
  intros p Hp. unfold covers in Hc. rewrite forallb_forall in Hc. apply str_mem_in, Hc, Hp.
Qed.

(** A memoised call of site [c]: arguments are environments, the key is the tuple of the values of
    the identifiers in the `convert` expression. *)
Section Site.
  Variables Val R : Type.
  Variable key_eqb : list Val -> list Val -> bool.
  Hypothesis key_eqb_eq : forall a b, key_eqb a b = true <-> a = b.
  Variable on_hit : list Val -> list (list Val * R) -> list (list Val * R).
  Variable on_insert : list (list Val * R) -> list (list Val * R).
  Hypothesis on_hit_incl : forall k s, incl (on_hit k s) s.
  Hypothesis on_insert_incl : forall s, incl (on_insert s) s.

  Definition site_call (c : cache_site) (F : list Val -> R) (history : list (string -> Val)) (e : string -> Val) : R :=
    cached_call key_eqb on_hit on_insert
      (fun e => F (map e (cs_params c))) (fun e => map e (cs_key_idents c)) history e.

  Theorem covered_site_transparent c F : covers c = true ->
    forall history e, site_call c F history e = F (map e (cs_params c)).
  Proof.
    intros Hc h e. unfold site_call.
    apply (memo_transparent _ _ _ key_eqb key_eqb_eq on_hit on_insert on_hit_incl on_insert_incl
             (fun e => F (map e (cs_params c))) (fun e => map e (cs_key_idents c))).
    intros a b Hk. now apply covered_key_determines.
  Qed.

  Theorem all_sites_transparent :
    Forall (fun c => forall F history e, site_call c F history e = F (map e (cs_params c))) cache_sites.
  Proof.
    apply Forall_forall. intros c Hin F h e. apply covered_site_transparent.
    pose proof keys_cover_inputs as H. rewrite forallb_forall in H. now apply H.
  Qed.
End Site.

(** A site whose key drops a parameter is *not* covered, and such a table is visible
    (non-vacuity of the obligation: it can fail). *)
Definition bad_site : cache_site :=
  {| cs_where := "example"; cs_fn := "f"; cs_params := ["input"; "options"]; cs_ptypes := ["&str"; "&O"];
     cs_key_type := "String"; cs_key_comps := ["String"]; cs_key_idents := ["input"]; cs_size := 64 |}%string.

Lemma dropped_option_is_not_covered : covers bad_site = false.
Proof. reflexivity. Qed.

Definition ex_env (t o : nat) (x : string) : nat := if String.eqb x "input" then t else o.

Lemma dropped_option_is_visible :
  site_call nat nat (fun a b => if list_eq_dec Nat.eq_dec a b then true else false)
    (fun k s => s) (fun s => firstn 64 s) bad_site (fun l => fold_right Nat.add 0%nat l) [ex_env 7 0] (ex_env 7 1)
  <> fold_right Nat.add 0%nat (map (ex_env 7 1) (cs_params bad_site)).
Proof. vm_compute. discriminate. Qed.

(** The extractor recognised every shape at the memoisation sites (regenerated obligation). *)
Lemma cache_shapes_recognised : cache_unrecognised = [].
Proof. reflexivity. Qed.
