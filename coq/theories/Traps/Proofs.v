(** C16 / C18 — the invariant of the interpreter and the theorems that follow from it. *)
From BV Require Import Base.Prelude Traps.Syntax Traps.Model Traps.Spec.

Definition flags (s : st) : act := (a_exit s, a_err s).

Definition okerr (r : res) : bool := match r with ROk _ _ | RErr _ _ => true | _ => false end.
Definition is_exec (r : res) : bool := match r with RExec _ => true | _ => false end.

(** ** scan *)

Lemma scan_app stk a b : scan stk (a ++ b) = match scan stk a with Some k => scan k b | None => None end.
Proof.
  revert stk; induction a as [|e a IH]; intros stk; [reflexivity|].
  cbn [app scan]. destruct e; destruct stk; try reflexivity; try apply IH.
  - destruct (act_get s a0); [reflexivity | apply IH].
  - destruct (act_get s a0); [apply IH | reflexivity].
Qed.

Lemma count_start_app g a b : count_start g (a ++ b) = (count_start g a + count_start g b)%nat.
Proof. unfold count_start. rewrite filter_app, app_length. reflexivity. Qed.

Lemma act_get_set g b a : act_get g (act_set g b a) = b.
Proof. destruct g, a; reflexivity. Qed.
Lemma act_set_set g b c a : act_set g b (act_set g c a) = act_set g b a.
Proof. destruct g, a; reflexivity. Qed.
Lemma act_set_same g a : act_set g (act_get g a) a = a.
Proof. destruct g, a; reflexivity. Qed.

(** ** The step relation: what one execution does to trace, active marks and stacks.
    [bal]: the execution came back (result or error) rather than being replaced by exec;
    [n]: how many times the EXIT handler was started. *)
Definition Step (bal : bool) (n : nat) (s s' : st) : Prop :=
  exists new, out s' = out s ++ new
    /\ count_start SExit new = n
    /\ (forall rest, exists a', scan (flags s :: rest) new = Some (a' :: rest) /\ (bal = true -> a' = flags s))
    /\ (bal = true -> frames s' = frames s /\ scopes s' = scopes s /\ sub s' = sub s /\ flags s' = flags s).

(** states that agree on everything the relation looks at *)
Definition same (s s' : st) : Prop :=
  out s = out s' /\ frames s = frames s' /\ scopes s = scopes s' /\ sub s = sub s' /\ flags s = flags s'.

Lemma same_refl s : same s s. Proof. repeat split. Qed.
Lemma same_sym s s' : same s s' -> same s' s.
Proof. intros (a & b & c & d & e). repeat split; congruence. Qed.
Lemma same_trans s s' s'' : same s s' -> same s' s'' -> same s s''.
Proof. intros (a & b & c & d & e) (a' & b' & c' & d' & e'). repeat split; congruence. Qed.

Lemma same_set_status z s : same s (set_status z s). Proof. repeat split. Qed.
Lemma same_set_trap g h s : same s (set_trap g h s). Proof. destruct g; repeat split. Qed.
Lemma same_set_errexit b s : same s (set_errexit b s). Proof. repeat split. Qed.
Lemma same_set_errtrace b s : same s (set_errtrace b s). Proof. repeat split. Qed.
#[export] Hint Resolve same_refl same_set_status same_set_trap same_set_errexit same_set_errtrace : same.

Lemma step_refl b s : Step b 0 s s.
Proof.
  exists []. rewrite app_nil_r. repeat split; try reflexivity.
  intros rest; exists (flags s); split; [reflexivity | auto].
Qed.

Lemma step_same_r b n s s' s'' : Step b n s s' -> same s' s'' -> Step b n s s''.
Proof.
  intros (new & Ho & Hc & Hs & Hb) (a & b' & c & d & e).
  exists new. split; [congruence|]. split; [assumption|]. split; [exact Hs|].
  intros H. destruct (Hb H) as (? & ? & ? & ?). repeat split; congruence.
Qed.

Lemma step_same_l b n s0 s s' : same s0 s -> Step b n s s' -> Step b n s0 s'.
Proof.
  intros (a & b' & c & d & e) (new & Ho & Hc & Hs & Hb).
  exists new. split; [congruence|]. split; [assumption|]. split; [rewrite e; exact Hs|].
  intros H. destruct (Hb H) as (? & ? & ? & ?). repeat split; congruence.
Qed.

Lemma step_trans b n m s s1 s2 : Step true n s s1 -> Step b m s1 s2 -> Step b (n + m) s s2.
Proof.
  intros (new1 & Ho1 & Hc1 & Hs1 & Hb1) (new2 & Ho2 & Hc2 & Hs2 & Hb2).
  destruct (Hb1 eq_refl) as (Hf & Hsc & Hsu & Hfl).
  exists (new1 ++ new2). split; [rewrite Ho2, Ho1, app_assoc; reflexivity|].
  split; [rewrite count_start_app; congruence|]. split.
  - intros rest. destruct (Hs1 rest) as (a1 & Ha1 & Hb1').
    rewrite scan_app, Ha1, (Hb1' eq_refl), <- Hfl. apply Hs2.
  - intros H. destruct (Hb2 H) as (? & ? & ? & ?). repeat split; congruence.
Qed.

Lemma step_weaken n s s' : Step true n s s' -> Step false n s s'.
Proof.
  intros (new & Ho & Hc & Hs & Hb). exists new. repeat split; auto; try discriminate.
  intros rest. destruct (Hs rest) as (a' & ? & ?). exists a'. split; [assumption | discriminate].
Qed.

Lemma step_bal b n s s' : Step true n s s' -> Step b n s s'.
Proof. destruct b; [auto | apply step_weaken]. Qed.

Lemma step_echo t z s : Step true 0 s (emit (EvEcho t z) s).
Proof.
  exists [EvEcho t z]. repeat split.
  intros rest; exists (flags s); split; [reflexivity | auto].
Qed.

(** ** The invariant of one execution *)
Definition Inv (s : st) (r : res) (s' : st) : Prop :=
  r <> RFuel -> Step (okerr r) 0 s s' /\ ((0 < sub s)%nat -> is_exec r = false).

Lemma inv_ok s r s' : okerr r = true -> Step true 0 s s' -> Inv s r s'.
Proof.
  intros Hk Hs _. rewrite Hk. split; [assumption|]. intros _. destruct r; try reflexivity; discriminate.
Qed.

Lemma okerr_catch r : okerr (catch r) = okerr r.
Proof. destruct r; reflexivity. Qed.
Lemma is_exec_catch r : is_exec (catch r) = is_exec r.
Proof. destruct r; reflexivity. Qed.

(** [with_cmd_scope]: the Command scope pushed before is popped after, on every path *)
Lemma wcs_inv s k r s' :
  with_cmd_scope s k = (r, s') ->
  (forall r2 s2, k (push_scope ScCommand s) = (r2, s2) -> Inv (push_scope ScCommand s) r2 s2) ->
  Inv s r s'.
Proof.
  unfold with_cmd_scope. intros H Hk.
  destruct (k (push_scope ScCommand s)) as [r2 s2] eqn:E.
  specialize (Hk _ _ eq_refl).
  assert (Hcase : (okerr r2 = false /\ r = r2 /\ s' = s2) \/
                  (okerr r2 = true /\ r = catch r2 /\ s' = snd (pop_scope ScCommand s2))).
  { destruct r2; inversion H; subst; auto. }
  intros Hnf.
  destruct Hcase as [(Hk2 & -> & ->) | (Hk2 & -> & ->)].
  - destruct (Hk Hnf) as [(new & Ho & Hc & Hs & Hb) Hx]. rewrite Hk2 in *. split.
    + exists new. repeat split; auto; discriminate.
    + exact Hx.
  - assert (Hnf2 : r2 <> RFuel) by (destruct r2; discriminate).
    destruct (Hk Hnf2) as [(new & Ho & Hc & Hs & Hb) Hx]. rewrite Hk2 in *.
    destruct (Hb eq_refl) as (Hf & Hsc & Hsu & Hfl).
    rewrite okerr_catch, Hk2, is_exec_catch. split; [|exact Hx].
    cbn [push_scope set_scopes scopes frames sub out] in *.
    unfold pop_scope. rewrite Hsc. cbn [snd].
    exists new. repeat split; auto.
Qed.

Lemma same_push_pop s : same s (snd (pop_scope ScCommand (push_scope ScCommand s))).
Proof. repeat split. Qed.

Lemma sub_preserved s r s' : Inv s r s' -> okerr r = true -> sub s' = sub s.
Proof.
  intros H Hk. destruct (H ltac:(destruct r; discriminate)) as [(new & Ho & Hc & Hs & Hb) _].
  rewrite Hk in Hb. destruct (Hb eq_refl) as (? & ? & ? & ?). assumption.
Qed.

Lemma inv_seq s r1 s1 r s' :
  Inv s r1 s1 -> okerr r1 = true -> Inv s1 r s' -> Inv s r s'.
Proof.
  intros H1 Hk H2 Hnf.
  destruct (H1 ltac:(destruct r1; discriminate)) as [Hs1 _]. rewrite Hk in Hs1.
  destruct (H2 Hnf) as [Hs2 Hx2]. split.
  - change 0%nat with (0 + 0)%nat. eapply step_trans; eassumption.
  - intros Hsub. apply Hx2. destruct Hs1 as (? & ? & ? & ? & Hb). destruct (Hb eq_refl) as (? & ? & -> & ?). exact Hsub.
Qed.

Lemma inv_same_r s r s' s'' : Inv s r s' -> same s' s'' -> Inv s r s''.
Proof. intros H Hs Hnf. destruct (H Hnf) as [H1 H2]. split; [eapply step_same_r; eassumption | exact H2]. Qed.

Lemma inv_refl s r : okerr r = true -> Inv s r s.
Proof. intros H. apply inv_ok; [assumption | apply step_refl]. Qed.

(** a result with another flow/code but the same kind *)
Lemma inv_relabel s r r' s' : Inv s r s' -> okerr r = true -> okerr r' = true -> Inv s r' s'.
Proof.
  intros H Hk Hk'. destruct (H ltac:(destruct r; discriminate)) as [Hs _]. rewrite Hk in Hs.
  apply inv_ok; assumption.
Qed.


Section WithEx.
  Variable cf : cfg.
  Variable fuel : nat.
  Variable ex : bool -> cmd -> st -> res * st.
  Hypothesis Hex : forall sup c s r s', ex sup c s = (r, s') -> Inv s r s'.

  Lemma ex_list_inv sup c s r s' : ex_list ex sup c s = (r, s') -> Inv s r s'.
  Proof.
    unfold ex_list. destruct (ex sup c s) as [r1 s1] eqn:E. pose proof (Hex _ _ _ _ _ E) as H1.
    intros H Hnf.
    destruct r1; inversion H; subst; apply H1; assumption.
  Qed.

  Lemma run_program_inv sup cs acc s r s' :
    run_program ex sup cs acc s = (r, s') -> Inv s r s' /\ (forall f c, r <> RErr f c).
  Proof.
    revert acc s. induction cs as [|c cs IH]; intros acc s H.
    - cbn in H. inversion H; subst. split; [apply inv_refl; reflexivity | discriminate].
    - cbn [run_program] in H. destruct (ex_list ex sup c s) as [r1 s1] eqn:E.
      pose proof (ex_list_inv _ _ _ _ _ E) as H1.
      destruct r1 as [f code | fatal code | code | ]; cbn [catch into_result] in H.
      + destruct f.
        * destruct (IH _ _ H) as [H2 Hne]. split; [|exact Hne].
          eapply inv_seq; [exact H1 | reflexivity | exact H2].
        * inversion H; subst. split; [exact H1 | discriminate].
        * inversion H; subst. split; [exact H1 | discriminate].
      + destruct fatal.
        * inversion H; subst. split; [|discriminate]. eapply inv_relabel; [exact H1 | reflexivity | reflexivity].
        * destruct (IH _ _ H) as [H2 Hne]. split; [|exact Hne].
          eapply inv_seq; [exact H1 | reflexivity | exact H2].
      + inversion H; subst. split; [exact H1 | discriminate].
      + inversion H; subst. split; [exact H1 | discriminate].
  Qed.

  (** what a handler invocation does; [n] = 1 exactly when the EXIT handler is started *)
  Definition fires (g : sig) (s : st) : bool :=
    negb (get_active g s)
    && negb ((in_function s || (0 <? sub s)%nat) && negb (is_trap_inherited g s))
    && match get_trap g s with Some _ => true | None => false end.

  Lemma get_active_flags g s : get_active g s = act_get g (flags s).
  Proof. destruct g; reflexivity. Qed.

  Lemma invoke_inv g sup s r s' :
    invoke cf ex g sup s = (r, s') -> r <> RFuel ->
    Step (okerr r) (if fires g s then (if sig_eqb g SExit then 1 else 0) else 0) s s'
    /\ ((0 < sub s)%nat -> is_exec r = false)
    /\ (forall f c, r <> RErr f c).
  Proof.
    unfold invoke, fires. intros H Hnf.
    destruct (get_active g s) eqn:Ea.
    { inversion H; subst. cbn. repeat split; try discriminate. apply step_refl. }
    destruct ((in_function s || (0 <? sub s)%nat) && negb (is_trap_inherited g s)) eqn:Eg.
    { inversion H; subst. cbn. repeat split; try discriminate. apply step_refl. }
    destruct (get_trap g s) as [h|] eqn:Et.
    2:{ inversion H; subst. cbn. repeat split; try discriminate. apply step_refl. }
    cbn [negb andb].
    set (s1 := emit (EvStart g (status s)) (set_active g true (push_frame (FrTrap g) s))) in *.
    destruct (run_program ex sup [h] (FNormal, 0) s1) as [r2 s2] eqn:E.
    destruct (run_program_inv _ _ _ _ _ _ E) as [H2 Hne].
    assert (Hfl1 : flags s1 = act_set g true (flags s)) by (destruct g; reflexivity).
    assert (Ho1 : out s1 = out s ++ [EvStart g (status s)]) by (destruct g; reflexivity).
    assert (Hfr1 : frames s1 = FrTrap g :: frames s) by (destruct g; reflexivity).
    assert (Hsc1 : scopes s1 = scopes s) by (destruct g; reflexivity).
    assert (Hsu1 : sub s1 = sub s) by (destruct g; reflexivity).
    assert (Hcnt : count_start SExit [EvStart g (status s)] = if sig_eqb g SExit then 1%nat else 0%nat)
      by (destruct g; reflexivity).
    rewrite get_active_flags in Ea.
    destruct r2 as [f code | fatal code | code | ].
    - (* the handler's program came back *)
      destruct (H2 ltac:(discriminate)) as [(new & Ho & Hc & Hs & Hb) Hx]. cbn [okerr] in *.
      destruct (Hb eq_refl) as (Hf2 & Hsc2 & Hsu2 & Hfl2).
      set (x := match ROk f code with ROk FExit c0 => Some c0 | _ => None end) in *.
      set (s4 := emit (EvEnd g x) (pop_frame s2)) in *.
      assert (Hs4 : out s4 = out s ++ (EvStart g (status s) :: new ++ [EvEnd g x])
                    /\ frames s4 = frames s /\ scopes s4 = scopes s /\ sub s4 = sub s /\ flags s4 = flags s).
      { unfold s4, pop_frame. rewrite Hf2, Hfr1.
        assert (Hfl3 : flags (set_active g false (set_frames (frames s) s2)) = flags s).
        { transitivity (act_set g false (flags s2)); [destruct g; reflexivity|].
          rewrite Hfl2, Hfl1, act_set_set. rewrite <- Ea at 1. apply act_set_same. }
        destruct g; cbn [emit set_out set_active set_frames out frames scopes sub] in *;
          rewrite Ho, Ho1, <- !app_assoc; repeat split; auto; congruence. }
      destruct Hs4 as (Ho4 & Hf4 & Hsc4 & Hsu4 & Hfl4).
      assert (Hstep : Step true (if sig_eqb g SExit then 1 else 0) s s4).
      { exists (EvStart g (status s) :: new ++ [EvEnd g x]). repeat split; auto.
        - change (EvStart g (status s) :: new ++ [EvEnd g x]) with ([EvStart g (status s)] ++ new ++ [EvEnd g x]).
          rewrite !count_start_app, Hcnt, Hc. destruct g; reflexivity.
        - intros rest. cbn [scan]. rewrite Ea.
          rewrite scan_app. rewrite <- Hfl1. destruct (Hs rest) as (a' & Ha' & Hb').
          rewrite Ha', (Hb' eq_refl), Hfl1. cbn [scan]. rewrite act_get_set, act_set_set.
          exists (flags s). split; [|reflexivity]. rewrite <- Ea at 1. rewrite act_set_same. reflexivity. }
      assert (Hres : (r = ROk f code) /\ same s4 s').
      { destruct f; [| |destruct (fixed cf)]; inversion H; subst; split; auto with same. }
      destruct Hres as [-> Hsame]. cbn [okerr]. repeat split; try discriminate.
      eapply step_same_r; eassumption.
    - exfalso. eapply Hne; reflexivity.
    - (* exec inside the handler *)
      inversion H; subst. destruct (H2 ltac:(discriminate)) as [(new & Ho & Hc & Hs & Hb) Hx].
      cbn [okerr] in *. repeat split; try discriminate.
      + exists (EvStart g (status s) :: new). repeat split; try discriminate.
        * rewrite Ho, Ho1, <- app_assoc. reflexivity.
        * change (EvStart g (status s) :: new) with ([EvStart g (status s)] ++ new).
          rewrite count_start_app, Hcnt, Hc. destruct g; reflexivity.
        * intros rest. cbn [scan]. rewrite Ea. rewrite <- Hfl1. destruct (Hs rest) as (a' & Ha' & _).
          exists a'. split; [assumption | discriminate].
      + intros Hsub. apply Hx. rewrite Hsu1. exact Hsub.
    - inversion H; subst. congruence.
  Qed.

  Lemma invoke_err_inv sup s r s' : invoke cf ex SErr sup s = (r, s') -> Inv s r s' /\ (forall f c, r <> RErr f c).
  Proof.
    intros H. split.
    - intros Hnf. destruct (invoke_inv _ _ _ _ _ H Hnf) as (Hs & Hx & _).
      destruct (fires SErr s); cbn in Hs; auto.
    - destruct r; try discriminate. intros f c.
      destruct (invoke_inv _ _ _ _ _ H ltac:(discriminate)) as (_ & _ & Hne). apply Hne.
  Qed.

  Lemma for_loop_inv n sup b acc s r s' :
    okerr acc = true -> for_loop ex n sup b acc s = (r, s') -> Inv s r s'.
  Proof.
    revert acc s. induction n as [|n IH]; intros acc s Hacc H.
    - cbn in H. inversion H; subst. apply inv_refl; assumption.
    - cbn [for_loop] in H. destruct (ex_list ex sup b s) as [r1 s1] eqn:E.
      pose proof (ex_list_inv _ _ _ _ _ E) as H1.
      assert (Hcase : (r1 = r /\ s1 = s') \/ (exists c, r1 = ROk FNormal c /\ for_loop ex n sup b r1 s1 = (r, s'))).
      { destruct r1 as [[] ?| | |]; inversion H; subst; eauto. }
      destruct Hcase as [(-> & ->) | (c & -> & H2)]; [assumption|].
      eapply inv_seq; [exact H1 | reflexivity |]. eapply IH; [|exact H2]. reflexivity.
  Qed.

  Lemma while_loop_inv n sup c b acc s r s' :
    okerr acc = true -> while_loop ex n sup c b acc s = (r, s') -> Inv s r s'.
  Proof.
    revert acc s. induction n as [|n IH]; intros acc s Hacc H.
    - cbn in H. inversion H; subst. intros Hnf; congruence.
    - cbn [while_loop] in H. destruct (ex_list ex true c s) as [rc s1] eqn:Ec.
      pose proof (ex_list_inv _ _ _ _ _ Ec) as H1.
      assert (Hcase : (rc = r /\ s1 = s') \/ (exists code, rc = ROk FNormal code /\
                (if code =? 0 then
                   let '(r2, s2) := ex_list ex sup b s1 in
                   match r2 with ROk FNormal _ => while_loop ex n sup c b r2 s2 | _ => (r2, s2) end
                 else (acc, s1)) = (r, s'))).
      { destruct rc as [[] ?| | |]; inversion H; subst; eauto. }
      destruct Hcase as [(-> & ->) | (code & -> & H2)]; [assumption|].
      eapply inv_seq; [exact H1 | reflexivity |].
      destruct (code =? 0).
      + destruct (ex_list ex sup b s1) as [r2 s2] eqn:Eb.
        pose proof (ex_list_inv _ _ _ _ _ Eb) as H3.
        assert (Hcase2 : (r2 = r /\ s2 = s') \/ (exists c2, r2 = ROk FNormal c2 /\ while_loop ex n sup c b r2 s2 = (r, s'))).
        { destruct r2 as [[] ?| | |]; inversion H2; subst; eauto. }
        destruct Hcase2 as [(-> & ->) | (c2 & -> & H4)]; [assumption|].
        eapply inv_seq; [exact H3 | reflexivity |]. eapply IH; [|exact H4]. reflexivity.
      + inversion H2; subst. apply inv_refl; assumption.
  Qed.

  Lemma finish_loop_inv s rs : Inv s (fst rs) (snd rs) -> Inv s (fst (finish_loop rs)) (snd (finish_loop rs)).
  Proof.
    destruct rs as [r s']. unfold finish_loop. cbn [fst snd]. intros H.
    destruct r; cbn [fst snd]; exact H.
  Qed.

  Lemma call_function_inv sup body s r s' : call_function cf ex sup body s = (r, s') -> Inv s r s'.
  Proof.
    unfold call_function. intros H.
    destruct (match maxdepth cf with Some m => (m <=? func_depth s)%nat | None => false end).
    { inversion H; subst. apply inv_ok; [reflexivity | apply step_refl]. }
    set (s1 := push_scope ScLocal (push_frame FrFunction s)) in *.
    destruct (ex sup body s1) as [r2 s2] eqn:E. pose proof (Hex _ _ _ _ _ E) as H2.
    assert (Hsu1 : sub s1 = sub s) by reflexivity.
    destruct (okerr r2) eqn:Hk.
    2:{ assert (r = r2 /\ s' = s2) as (-> & ->) by (destruct r2; inversion H; subst; auto; discriminate).
        intros Hnf. destruct (H2 Hnf) as [(new & Ho & Hc & Hs & Hb) Hx]. rewrite Hk in *. split.
        - exists new. repeat split; auto; discriminate.
        - exact Hx. }
    destruct (H2 ltac:(destruct r2; discriminate)) as [(new & Ho & Hc & Hs & Hb) Hx]. rewrite Hk in *.
    destruct (Hb eq_refl) as (Hf2 & Hsc2 & Hsu2 & Hfl2).
    assert (Hpop : pop_scope ScLocal s2 = (true, set_scopes (scopes s) s2)).
    { unfold pop_scope. rewrite Hsc2. reflexivity. }
    assert (Hrest : (let '(okk, s3) := pop_scope ScLocal s2 in
              if negb okk then (RErr false 1, s3)
              else let top_is_fn := match frames s3 with f :: _ => is_function f | [] => true end in
                   let s4 := pop_frame s3 in
                   if negb top_is_fn then (RErr true 1, s4)
                   else match r2 with ROk FReturn code => (ROk FNormal code, s4) | _ => (r2, s4) end) = (r, s')).
    { destruct r2; try discriminate; exact H. }
    rewrite Hpop in Hrest. cbn [negb] in Hrest.
    cbn [set_scopes frames] in Hrest. rewrite Hf2 in Hrest. cbn [s1 push_scope push_frame set_scopes set_frames frames is_function negb] in Hrest.
    set (s4 := pop_frame (set_scopes (scopes s) s2)) in *.
    assert (H4 : out s4 = out s ++ new /\ frames s4 = frames s /\ scopes s4 = scopes s /\ sub s4 = sub s /\ flags s4 = flags s).
    { unfold s4, pop_frame. cbn [set_scopes frames]. rewrite Hf2.
      cbn [s1 push_scope push_frame set_scopes set_frames frames out scopes sub flags a_exit a_err] in *.
      repeat split; auto. }
    destruct H4 as (Ho4 & Hf4 & Hsc4 & Hsu4 & Hfl4).
    assert (Hst : Step true 0 s s4).
    { exists new. repeat split; auto. }
    assert (Hr : okerr r = true /\ s' = s4).
    { destruct r2 as [[] ?| | |]; try discriminate; inversion Hrest; subst; auto. }
    destruct Hr as [Hkr ->]. apply inv_ok; assumption.
  Qed.

  Lemma step_inv sup c s r s' : step cf fuel ex sup c s = (r, s') -> Inv s r s'.
  Proof.
    destruct c; cbn [step]; intros H.
    - (* CTrue *) eapply wcs_inv; [exact H|]; intros r2 s2 E; cbn beta in E. inversion E; subst. apply inv_refl; reflexivity.
    - eapply wcs_inv; [exact H|]; intros r2 s2 E; cbn beta in E. inversion E; subst. apply inv_refl; reflexivity.
    - eapply wcs_inv; [exact H|]; intros r2 s2 E; cbn beta in E. inversion E; subst. apply inv_refl; reflexivity.
    - (* CEcho *) eapply wcs_inv; [exact H|]; intros r2 s2 E; cbn beta in E. inversion E; subst.
      apply inv_ok; [reflexivity | apply step_echo].
    - (* CExit *) eapply wcs_inv; [exact H|]; intros r2 s2 E; cbn beta in E. inversion E; subst. apply inv_refl; reflexivity.
    - (* CReturn *) eapply wcs_inv; [exact H|]; intros r2 s2 E; cbn beta in E.
      destruct (in_function _ || in_sourced_script _); inversion E; subst; apply inv_refl; reflexivity.
    - (* CExpErr *) inversion H; subst. apply inv_refl; reflexivity.
    - (* CAssignErr *) inversion H; subst. apply inv_ok; [destruct fatal; reflexivity|].
      eapply step_same_r; [apply step_refl | apply same_push_pop].
    - inversion H; subst. apply inv_refl; reflexivity.
    - inversion H; subst. apply inv_refl; reflexivity.
    - (* CSetE *) eapply wcs_inv; [exact H|]; intros r2 s2 E; cbn beta in E. inversion E; subst.
      apply inv_ok; [reflexivity|]. eapply step_same_r; [apply step_refl | auto with same].
    - eapply wcs_inv; [exact H|]; intros r2 s2 E; cbn beta in E. inversion E; subst.
      apply inv_ok; [reflexivity|]. eapply step_same_r; [apply step_refl | auto with same].
    - (* CTrap *) eapply wcs_inv; [exact H|]; intros r2 s2 E; cbn beta in E. inversion E; subst.
      apply inv_ok; [reflexivity|]. eapply step_same_r; [apply step_refl | auto with same].
    - (* CCall *) eapply wcs_inv; [exact H|]; intros r2 s2 E; cbn beta in E.
      destruct (nth_error (funs cf) f) as [body|].
      + eapply call_function_inv; eassumption.
      + inversion E; subst. apply inv_refl; reflexivity.
    - (* CEval *) eapply wcs_inv; [exact H|]; intros r2 s2 E; cbn beta in E. apply (run_program_inv _ _ _ _ _ _ E).
    - (* CSource *) eapply wcs_inv; [exact H|]; intros r2 s2 E; cbn beta in E.
      set (s1 := push_frame FrScriptSource (push_scope ScCommand s)) in *.
      destruct (run_program ex sup [c] (FNormal, 0) s1) as [r3 s3] eqn:E3.
      destruct (run_program_inv _ _ _ _ _ _ E3) as [H3 Hne].
      destruct (okerr r3) eqn:Hk.
      2:{ assert (r2 = r3 /\ s2 = s3) as (-> & ->) by (destruct r3; inversion E; subst; auto; discriminate).
          intros Hnf. destruct (H3 Hnf) as [(new & Ho & Hc & Hs & Hb) Hx]. rewrite Hk in *. split.
          - exists new. repeat split; auto; discriminate.
          - exact Hx. }
      destruct (H3 ltac:(destruct r3; discriminate)) as [(new & Ho & Hc & Hs & Hb) Hx]. rewrite Hk in *.
      destruct (Hb eq_refl) as (Hf3 & Hsc3 & Hsu3 & Hfl3).
      assert (Hr : okerr r2 = true /\ s2 = pop_frame s3).
      { destruct r3 as [[] ?| | |]; try discriminate; inversion E; subst; auto. }
      destruct Hr as [Hk2 ->]. apply inv_ok; [assumption|].
      exists new. unfold pop_frame. rewrite Hf3.
      cbn [s1 push_frame set_frames frames out scopes sub flags a_exit a_err] in *.
      repeat split; auto.
    - (* CSourceMissing *) eapply wcs_inv; [exact H|]; intros r2 s2 E; cbn beta in E. inversion E; subst. apply inv_refl; reflexivity.
    - (* CExec *) destruct (0 <? sub s)%nat eqn:Es.
      + eapply wcs_inv; [exact H|]; intros r2 s2 E; cbn beta in E. inversion E; subst. apply inv_refl; reflexivity.
      + inversion H; subst. intros _. cbn [okerr]. split; [apply step_refl|].
        intros Hs. apply Nat.ltb_ge in Es. lia.
    - (* CBrace *) eapply ex_list_inv; eassumption.
    - (* CSub *)
      set (s0 := emit EvSubBegin s) in *.
      set (child := mkst (status s0) (t_exit s0) (t_err s0) false false (errexit s0) (errtrace s0)
                         (frames s0) (scopes s0) (S (sub s0)) (out s0)) in *.
      destruct (ex_list ex sup c child) as [r2 s2] eqn:E. pose proof (ex_list_inv _ _ _ _ _ E) as H2.
      intros Hnf.
      assert (Hnf2 : r2 <> RFuel) by (destruct r2; inversion H; subst; congruence).
      destruct (H2 Hnf2) as [(new & Ho & Hc & Hs & Hb) Hx].
      assert (Hne : is_exec r2 = false) by (apply Hx; cbn; lia).
      assert (Hk : okerr r2 = true) by (destruct r2; try reflexivity; try discriminate; congruence).
      rewrite Hk in *.
      assert (Hr : okerr r = true /\ s' = emit EvSubEnd (set_out (out s2) s)).
      { destruct r2; try discriminate; inversion H; subst; auto. }
      destruct Hr as [Hkr ->]. rewrite Hkr. split.
      + exists (EvSubBegin :: new ++ [EvSubEnd]). repeat split.
        * cbn [emit set_out out]. rewrite Ho. cbn [child s0 emit set_out out]. rewrite <- !app_assoc. reflexivity.
        * change (EvSubBegin :: new ++ [EvSubEnd]) with ([EvSubBegin] ++ new ++ [EvSubEnd]).
          rewrite !count_start_app, Hc. reflexivity.
        * intros rest. cbn [scan]. rewrite scan_app.
          destruct (Hs (flags s :: rest)) as (a' & Ha' & Hb').
          change (scan ((false, false) :: flags s :: rest) new = Some (a' :: flags s :: rest)) in Ha'. rewrite Ha'. cbn [scan]. exists (flags s). auto.
      + intros _. destruct r; try reflexivity; discriminate.
    - (* CIf *)
      destruct (ex_list ex true c1 s) as [rc s1] eqn:Ec. pose proof (ex_list_inv _ _ _ _ _ Ec) as H1.
      assert (Hcase : (rc = r /\ s1 = s') \/ (exists code, rc = ROk FNormal code /\
                (if code =? 0 then ex_list ex sup c2 s1
                 else match e with Some e' => ex_list ex sup e' s1 | None => (ROk FNormal 0, set_status 0 s1) end) = (r, s'))).
      { destruct rc as [[] ?| | |]; inversion H; subst; eauto. }
      destruct Hcase as [(-> & ->) | (code & -> & H2)]; [assumption|].
      eapply inv_seq; [exact H1 | reflexivity |].
      destruct (code =? 0); [eapply ex_list_inv; eassumption|].
      destruct e; [eapply ex_list_inv; eassumption|].
      inversion H2; subst. apply inv_ok; [reflexivity|]. eapply step_same_r; [apply step_refl | auto with same].
    - (* CFor *)
      destruct (for_loop ex n sup c (ROk FNormal 0) s) as [r2 s2] eqn:E.
      assert (H2 : Inv s r2 s2) by (eapply for_loop_inv; [|exact E]; reflexivity).
      pose proof (finish_loop_inv s (r2, s2) H2) as H3. rewrite H in H3. exact H3.
    - (* CWhile *)
      destruct (while_loop ex fuel sup c1 c2 (ROk FNormal 0) s) as [r2 s2] eqn:E.
      assert (H2 : Inv s r2 s2) by (eapply while_loop_inv; [|exact E]; reflexivity).
      pose proof (finish_loop_inv s (r2, s2) H2) as H3. rewrite H in H3. exact H3.
    - (* CPipe *)
      destruct (ex (sup || bang) c s) as [r1 s1] eqn:E. pose proof (Hex _ _ _ _ _ E) as H1.
      destruct r1 as [f code0 | | |]; try (inversion H; subst; exact H1).
      set (code := if bang && flow_eqb f FNormal then if code0 =? 0 then 1 else 0 else code0) in *.
      set (s2 := set_status code s1) in *.
      assert (H12 : Inv s (ROk f code0) s2) by exact H1.
      destruct (if negb (code =? 0) && negb (sup || bang)
                then match t_err s2 with Some _ => invoke cf ex SErr (sup || bang) s2 | None => (ROk FNormal 0, s2) end
                else (ROk FNormal 0, s2)) as [hr s3] eqn:Eh.
      assert (Hh : Inv s2 hr s3 /\ (forall f c, hr <> RErr f c)).
      { destruct (negb (code =? 0) && negb (sup || bang)).
        - destruct (t_err s2).
          + apply invoke_err_inv in Eh. exact Eh.
          + inversion Eh; subst. split; [apply inv_refl; reflexivity | discriminate].
        - inversion Eh; subst. split; [apply inv_refl; reflexivity | discriminate]. }
      destruct Hh as [Hh Hhne].
      eapply inv_seq; [exact H12 | reflexivity |].
      destruct hr as [hf hc | ? ? | ? | ].
      + assert (Hr : okerr r = true /\ s' = s3).
        { destruct hf; [| |destruct (fixed cf)]; inversion H; subst; auto. }
        destruct Hr as [Hkr ->]. eapply inv_relabel; [exact Hh | reflexivity | assumption].
      + exfalso. eapply Hhne; reflexivity.
      + inversion H; subst. exact Hh.
      + inversion H; subst. exact Hh.
    - (* CAnd *)
      destruct (ex true c1 s) as [r1 s1] eqn:E. pose proof (Hex _ _ _ _ _ E) as H1.
      assert (Hcase : (r1 = r /\ s1 = s') \/ (exists code, r1 = ROk FNormal code /\ ex sup c2 s1 = (r, s'))).
      { destruct r1 as [[] code| | |]; try (inversion H; subst; auto; fail).
        destruct (code =? 0); [right; eauto | inversion H; subst; auto]. }
      destruct Hcase as [(-> & ->) | (code & -> & H2)]; [assumption|].
      eapply inv_seq; [exact H1 | reflexivity | eapply Hex; eassumption].
    - (* COr *)
      destruct (ex true c1 s) as [r1 s1] eqn:E. pose proof (Hex _ _ _ _ _ E) as H1.
      assert (Hcase : (r1 = r /\ s1 = s') \/ (exists code, r1 = ROk FNormal code /\ ex sup c2 s1 = (r, s'))).
      { destruct r1 as [[] code| | |]; try (inversion H; subst; auto; fail).
        destruct (code =? 0); [inversion H; subst; auto | right; eauto]. }
      destruct Hcase as [(-> & ->) | (code & -> & H2)]; [assumption|].
      eapply inv_seq; [exact H1 | reflexivity | eapply Hex; eassumption].
    - (* CSeq *)
      destruct (ex_list ex sup c1 s) as [r1 s1] eqn:E. pose proof (ex_list_inv _ _ _ _ _ E) as H1.
      assert (Hcase : (r1 = r /\ s1 = s') \/ (exists code, r1 = ROk FNormal code /\ ex_list ex sup c2 s1 = (r, s'))).
      { destruct r1 as [[] code| | |]; inversion H; subst; eauto. }
      destruct Hcase as [(-> & ->) | (code & -> & H2)]; [assumption|].
      eapply inv_seq; [exact H1 | reflexivity | eapply ex_list_inv; eassumption].
  Qed.
End WithEx.

Theorem exec_inv cf fuel sup c s r s' : exec cf fuel sup c s = (r, s') -> Inv s r s'.
Proof.
  revert sup c s r s'. induction fuel as [|fuel IH]; intros sup c s r s' H.
  - cbn in H. inversion H; subst. intros Hnf; congruence.
  - cbn [exec] in H. eapply step_inv; [|exact H]. exact IH.
Qed.
