(** C16 / C18 — the theorems about whole runs, derived from the interpreter's invariant. *)
From BV Require Import Base.Prelude Traps.Syntax Traps.Model Traps.Spec Traps.Proofs.

(** ** C18: scope stack and call stack come back to where they were *)

Theorem depth_balanced cf fuel sup c s r s' :
  exec cf fuel sup c s = (r, s') -> okerr r = true ->
  scopes s' = scopes s /\ frames s' = frames s.
Proof.
  intros H Hk. destruct (exec_inv _ _ _ _ _ _ _ H ltac:(destruct r; discriminate)) as [(new & _ & _ & _ & Hb) _].
  rewrite Hk in Hb. destruct (Hb eq_refl) as (? & ? & ? & ?). auto.
Qed.

(** a session: [run_string] once per command, whatever each one does short of exec *)
Fixpoint session_run (cf : cfg) (fuel : nat) (cs : list cmd) (s : st) : option st :=
  match cs with
  | [] => Some s
  | c :: cs' =>
      match run_program (exec cf fuel) false [c] (FNormal, 0) s with
      | (ROk _ _, s1) => session_run cf fuel cs' s1
      | _ => None
      end
  end.

Fixpoint repeat_list {A} (n : nat) (l : list A) : list A :=
  match n with O => [] | S n' => l ++ repeat_list n' l end.

Lemma session_balanced cf fuel cs s s' :
  session_run cf fuel cs s = Some s' -> scopes s' = scopes s /\ frames s' = frames s.
Proof.
  revert s. induction cs as [|c cs IH]; intros s H.
  - inversion H; auto.
  - cbn [session_run] in H.
    destruct (run_program (exec cf fuel) false [c] (FNormal, 0) s) as [r s1] eqn:E.
    destruct r; try discriminate.
    destruct (run_program_inv (exec cf fuel) (exec_inv cf fuel) _ _ _ _ _ _ E) as [Hi _].
    destruct (Hi ltac:(discriminate)) as [(new & _ & _ & _ & Hb) _].
    destruct (Hb eq_refl) as (Hf & Hs & _ & _). destruct (IH _ H). split; congruence.
Qed.

(** N iterations leave the same depths as one iteration (indeed as none) *)
Theorem iterate_same_depth cf fuel cs n s s1 sn :
  session_run cf fuel cs s = Some s1 ->
  session_run cf fuel (repeat_list n cs) s = Some sn ->
  length (scopes sn) = length (scopes s1) /\ length (frames sn) = length (frames s1).
Proof.
  intros H1 Hn. destruct (session_balanced _ _ _ _ _ H1). destruct (session_balanced _ _ _ _ _ Hn).
  split; congruence.
Qed.

(** ** handler invocation: shape of what it appends, and what it does to [$?] *)

Definition exit_of (r : res) : option Z := match r with ROk FExit c => Some c | _ => None end.

Lemma run_program_out ex (Hex : forall sup c s r s', ex sup c s = (r, s') -> Inv s r s')
      sup cs acc s r s' :
  run_program ex sup cs acc s = (r, s') -> r <> RFuel -> exists new, out s' = out s ++ new.
Proof.
  intros H Hnf. destruct (run_program_inv ex Hex _ _ _ _ _ _ H) as [Hi _].
  destruct (Hi Hnf) as [(new & Ho & _) _]. eauto.
Qed.

Lemma invoke_shape cf ex (Hex : forall sup c s r s', ex sup c s = (r, s') -> Inv s r s') g sup s r s' :
  invoke cf ex g sup s = (r, s') -> okerr r = true ->
  (fires g s = false /\ s' = s /\ r = ROk FNormal 0) \/
  (fires g s = true /\
   (exists inner, out s' = out s ++ EvStart g (status s) :: inner ++ [EvEnd g (exit_of r)]) /\
   status s' = if fixed cf then match exit_of r with Some c => c | None => status s end else status s).
Proof.
  unfold invoke, fires. intros H Hk.
  destruct (get_active g s). { left. inversion H; subst; auto. }
  destruct ((in_function s || (0 <? sub s)%nat) && negb (is_trap_inherited g s)). { left. inversion H; subst; auto. }
  destruct (get_trap g s) as [h|]. 2:{ left. inversion H; subst; auto. }
  right. split; [reflexivity|].
  set (s1 := emit (EvStart g (status s)) (set_active g true (push_frame (FrTrap g) s))) in *.
  destruct (run_program ex sup [h] (FNormal, 0) s1) as [r2 s2] eqn:E.
  assert (Ho1 : out s1 = out s ++ [EvStart g (status s)]) by (destruct g; reflexivity).
  destruct r2 as [f code | fatal code | code | ].
  - destruct (run_program_out ex Hex _ _ _ _ _ _ E ltac:(discriminate)) as (new & Ho).
    assert (Hout : forall x, out (emit (EvEnd g x) (pop_frame s2)) = out s ++ EvStart g (status s) :: new ++ [EvEnd g x]).
    { intros x. unfold pop_frame. destruct (frames s2) as [|[] ?]; try destruct s0; cbn [emit set_out set_active set_frames out];
        rewrite Ho, Ho1, <- !app_assoc; reflexivity. }
    destruct f; [| |destruct (fixed cf) eqn:Ef]; inversion H; subst; cbn [exit_of];
      (split; [eexists; apply Hout | try rewrite Ef; try (destruct (fixed cf)); reflexivity]).
  - destruct (run_program_inv ex Hex _ _ _ _ _ _ E) as [_ Hne]. exfalso; eapply Hne; reflexivity.
  - inversion H; subst. discriminate.
  - inversion H; subst. discriminate.
Qed.

(** ERR and EXIT handlers leave the [$?] of the interrupted flow unchanged (as found: always;
    with the repair: unless the handler's own run ends in `exit`) *)
Theorem handlers_preserve_status cf fuel g sup s r s' :
  invoke cf (exec cf fuel) g sup s = (r, s') -> okerr r = true ->
  (fixed cf = false \/ exit_of r = None) -> status s' = status s.
Proof.
  intros H Hk Hc.
  destruct (invoke_shape cf _ (exec_inv cf fuel) _ _ _ _ _ H Hk) as [(_ & -> & _) | (_ & _ & Hs)]; [reflexivity|].
  rewrite Hs. destruct Hc as [-> | ->]; [reflexivity | destruct (fixed cf); reflexivity].
Qed.

Theorem handler_exit_status cf fuel g sup s s' f c :
  fixed cf = true -> invoke cf (exec cf fuel) g sup s = (ROk f c, s') -> exit_of (ROk f c) = Some c -> status s' = c.
Proof.
  intros Hf H Hx.
  destruct (invoke_shape cf _ (exec_inv cf fuel) _ _ _ _ _ H eq_refl) as [(_ & _ & E) | (_ & _ & Hs)].
  - inversion E; subst. discriminate.
  - rewrite Hs, Hf, Hx. reflexivity.
Qed.

(** ** the program proper *)

Lemma run_program_status ex sup cs acc s f code s' :
  run_program ex sup cs acc s = (ROk f code, s') -> (cs = [] -> status s = snd acc) -> status s' = code.
Proof.
  revert acc s. induction cs as [|c cs IH]; intros acc s H Hacc.
  - cbn in H. inversion H; subst. auto.
  - cbn [run_program] in H. destruct (ex_list ex sup c s) as [r1 s1].
    destruct (catch r1) as [f1 code1 | | |]; try discriminate.
    destruct f1.
    + eapply IH; [exact H|]. reflexivity.
    + inversion H; subst. reflexivity.
    + inversion H; subst. reflexivity.
Qed.

Lemma stdin_loop_inv cf fuel cs s r s' :
  stdin_loop cf fuel cs s = (r, s') ->
  Inv s r s' /\ (forall f c, r <> RErr f c) /\ (forall f code, r = ROk f code -> status s' = code).
Proof.
  revert s. induction cs as [|c cs IH]; intros s H.
  - cbn in H. inversion H; subst. split; [apply inv_refl; reflexivity|]. split; [discriminate|].
    intros f code E; inversion E; reflexivity.
  - cbn [stdin_loop] in H.
    destruct (run_program (exec cf fuel) false [c] (FNormal, 0) s) as [r1 s1] eqn:E.
    destruct (run_program_inv _ (exec_inv cf fuel) _ _ _ _ _ _ E) as [H1 Hne].
    destruct r1 as [f1 code1 | | |].
    + destruct f1.
      * destruct (IH _ H) as (H2 & Hne2 & Hst). split; [|auto].
        eapply inv_seq; [exact H1 | reflexivity | exact H2].
      * destruct (IH _ H) as (H2 & Hne2 & Hst). split; [|auto].
        eapply inv_seq; [exact H1 | reflexivity | exact H2].
      * inversion H; subst. split; [exact H1|]. split; [discriminate|].
        intros f code E2; inversion E2; subst. eapply run_program_status; [exact E | discriminate].
    + exfalso; eapply Hne; reflexivity.
    + inversion H; subst. split; [exact H1|]. split; discriminate.
    + inversion H; subst. split; [exact H1|]. split; discriminate.
Qed.

Definition start_st (fe : frontend) : st := push_frame (top_frame fe) init_st.

Lemma run_body_inv cf fe fuel cs r s1 :
  run_body cf fe fuel cs init_st = (r, s1) ->
  Inv (start_st fe) r s1 /\ (forall f c, r <> RErr f c) /\ (forall f code, r = ROk f code -> status s1 = code).
Proof.
  unfold run_body. fold (start_st fe). intros H.
  destruct fe.
  - destruct (run_program_inv _ (exec_inv cf fuel) _ _ _ _ _ _ H) as [H1 Hne]. split; [exact H1|]. split; [exact Hne|].
    intros f code ->. eapply run_program_status; [exact H|]. reflexivity.
  - destruct (run_program_inv _ (exec_inv cf fuel) _ _ _ _ _ _ H) as [H1 Hne]. split; [exact H1|]. split; [exact Hne|].
    intros f code ->. eapply run_program_status; [exact H|]. reflexivity.
  - apply stdin_loop_inv in H. exact H.
Qed.

(** after the program proper the front-end's frame is the only one, no handler is marked active *)
Lemma after_body cf fe fuel cs f code s1 :
  run_body cf fe fuel cs init_st = (ROk f code, s1) ->
  exists s2, leave_top fe s1 = Some s2 /\ out s2 = out s1 /\ status s2 = code /\ t_exit s2 = t_exit s1
             /\ fires SExit s2 = match t_exit s1 with Some _ => true | None => false end
             /\ count_start SExit (out s1) = 0%nat
             /\ scan [(false, false)] (out s1) = Some [(false, false)]
             /\ flags s2 = (false, false) /\ sub s2 = 0%nat.
Proof.
  intros H. destruct (run_body_inv _ _ _ _ _ _ H) as (Hi & _ & Hst).
  destruct (Hi ltac:(discriminate)) as [(new & Ho & Hc & Hs & Hb) _]. cbn [okerr] in *.
  destruct (Hb eq_refl) as (Hf & Hsc & Hsu & Hfl).
  assert (Hf1 : frames s1 = [top_frame fe]) by (rewrite Hf; reflexivity).
  assert (Hfl1 : flags s1 = (false, false)) by (rewrite Hfl; reflexivity).
  assert (Hsu1 : sub s1 = 0%nat) by (rewrite Hsu; reflexivity).
  assert (Ho1 : out s1 = new) by (rewrite Ho; reflexivity).
  exists (set_frames [] s1).
  assert (Hl : leave_top fe s1 = Some (set_frames [] s1)).
  { unfold leave_top, pop_frame. rewrite Hf1. destruct fe; reflexivity. }
  split; [exact Hl|]. split; [reflexivity|]. split; [cbn; eauto|]. split; [reflexivity|].
  split.
  { unfold fires. cbn [get_active a_exit set_frames in_function frames existsb sub get_trap t_exit is_trap_inherited].
    pose proof (f_equal fst Hfl1) as Ha. cbn [flags fst] in Ha. rewrite Ha, Hsu1. cbn. destruct (t_exit s1); reflexivity. }
  split; [rewrite Ho1; exact Hc|].
  split.
  { destruct (Hs []) as (a' & Ha' & Hb'). rewrite Ho1.
    change (scan [(false, false)] new = Some [a']) in Ha'. rewrite Ha', (Hb' eq_refl). reflexivity. }
  split; [exact Hfl1 | exact Hsu1].
Qed.

(** ** C16 *)

(** the EXIT trap is registered when the program proper has ended *)
Definition registered_at_end (cf : cfg) (fe : frontend) (fuel : nat) (cs : list cmd) : bool :=
  match t_exit (snd (run_body cf fe fuel cs init_st)) with Some _ => true | None => false end.

(** the status with which the program proper ended (exit n, last command, fatal error, errexit) *)
Definition terminating_status (cf : cfg) (fe : frontend) (fuel : nat) (cs : list cmd) : Z :=
  status (snd (run_body cf fe fuel cs init_st)).

Definition body_trace (cf : cfg) (fe : frontend) (fuel : nat) (cs : list cmd) : list event :=
  out (snd (run_body cf fe fuel cs init_st)).

(** everything about a run that ends by itself, in one statement *)
Lemma run_done cf fe fuel cs z sf :
  run cf fe fuel cs = Done z sf ->
  let pre := body_trace cf fe fuel cs in
  let code := terminating_status cf fe fuel cs in
  count_start SExit pre = 0%nat /\ no_reentry pre /\
  if registered_at_end cf fe fuel cs
  then exists hr, exit_handler_last pre (out sf) code (exit_of hr) /\ okerr hr = true /\
                  count_start SExit (out sf) = 1%nat /\ no_reentry (out sf) /\
                  z = (if fixed cf then match exit_of hr with Some c => c | None => code end else code)
  else out sf = pre /\ z = code.
Proof.
  unfold run, registered_at_end, terminating_status, body_trace.
  destruct (run_body cf fe fuel cs init_st) as [r s1] eqn:E. cbn [snd].
  destruct (run_body_inv _ _ _ _ _ _ E) as (_ & Hne & _).
  destruct r as [f code | fatal c | c | ]; try discriminate; [|exfalso; eapply Hne; reflexivity].
  destruct (after_body _ _ _ _ _ _ _ E) as (s2 & Hl & Ho2 & Hst2 & Ht2 & Hfi & Hc & Hsc & Hfl2 & Hsu2).
  assert (Hcode : status s1 = code).
  { destruct (run_body_inv _ _ _ _ _ _ E) as (_ & _ & Hst). eapply Hst; reflexivity. }
  rewrite Hl. unfold on_exit_and_status. rewrite Ht2. intros H.
  split; [exact Hc|]. split; [exact Hsc|].
  destruct (t_exit s1) as [h|].
  2:{ inversion H; subst. rewrite Hcode in *. auto. }
  destruct (invoke cf (exec cf fuel) SExit false s2) as [hr s3] eqn:Ei.
  assert (Hk : okerr hr = true).
  { destruct hr; try discriminate; reflexivity. }
  assert (Hz : z = status s3 /\ sf = s3) by (destruct hr; inversion H; subst; auto; discriminate).
  destruct Hz as [-> ->].
  destruct (invoke_shape cf _ (exec_inv cf fuel) _ _ _ _ _ Ei Hk) as [(Hnf & _) | (_ & (inner & Hout) & Hs3)];
    [congruence|].
  destruct (invoke_inv cf _ (exec_inv cf fuel) _ _ _ _ _ Ei ltac:(destruct hr; discriminate)) as (Hstep & _ & _).
  rewrite Hfi, Hk in Hstep. cbn [sig_eqb] in Hstep.
  destruct Hstep as (new & Hon & Hcn & Hsn & _).
  exists hr. rewrite Hcode in *. rewrite Ho2, Hst2 in Hout.
  split; [exists inner; exact Hout|]. split; [exact Hk|].
  split; [rewrite Hon, Ho2, count_start_app, Hc, Hcn; reflexivity|].
  split.
  { unfold no_reentry. rewrite Hon, Ho2, scan_app, Hsc. destruct (Hsn []) as (a' & Ha' & Hb').
    rewrite (Hb' eq_refl) in Ha'. rewrite Hfl2 in Ha'. exact Ha'. }
  rewrite Hs3, Hst2. reflexivity.
Qed.

(** exactly once: the number of EXIT handler starts in the whole trace is 1 when an EXIT trap is
    registered at the end of the program proper, 0 otherwise *)
Theorem exit_trap_once cf fe fuel cs z sf :
  run cf fe fuel cs = Done z sf ->
  count_start SExit (out sf) = if registered_at_end cf fe fuel cs then 1%nat else 0%nat.
Proof.
  intros H. destruct (run_done _ _ _ _ _ _ H) as (Hc & _ & Hr).
  destruct (registered_at_end cf fe fuel cs).
  - destruct Hr as (hr & _ & _ & H1 & _). exact H1.
  - destruct Hr as (-> & _). exact Hc.
Qed.

(** last, and with the terminating status in [$?]: the trace is the program's own trace (which
    contains no EXIT handler start) followed by one bracketed handler run and nothing else *)
Theorem exit_trap_last_sees_status cf fe fuel cs z sf :
  run cf fe fuel cs = Done z sf -> registered_at_end cf fe fuel cs = true ->
  exists x, exit_handler_last (body_trace cf fe fuel cs) (out sf) (terminating_status cf fe fuel cs) x
            /\ count_start SExit (body_trace cf fe fuel cs) = 0%nat.
Proof.
  intros H Hreg. destruct (run_done _ _ _ _ _ _ H) as (Hc & _ & Hr). rewrite Hreg in Hr.
  destruct Hr as (hr & Hl & _). eauto.
Qed.

Theorem no_reentry_run cf fe fuel cs z sf : run cf fe fuel cs = Done z sf -> no_reentry (out sf).
Proof.
  intros H. destruct (run_done _ _ _ _ _ _ H) as (_ & Hn & Hr).
  destruct (registered_at_end cf fe fuel cs).
  - destruct Hr as (hr & _ & _ & _ & Hn2 & _). exact Hn2.
  - destruct Hr as (-> & _). exact Hn.
Qed.

(** the process ends with the terminating status unless the EXIT handler itself calls exit;
    [x] is the payload of the event that closes the handler's run: Some n when it ended in `exit` *)
Definition final_status_stmt (cf : cfg) : Prop :=
  forall fe fuel cs z sf, run cf fe fuel cs = Done z sf ->
  let code := terminating_status cf fe fuel cs in
  if registered_at_end cf fe fuel cs
  then exists x, exit_handler_last (body_trace cf fe fuel cs) (out sf) code x
                 /\ z = match x with Some c => c | None => code end
  else z = code.

Theorem final_status cf : fixed cf = true -> final_status_stmt cf.
Proof.
  intros Hf fe fuel cs z sf H. destruct (run_done _ _ _ _ _ _ H) as (_ & _ & Hr). cbn zeta.
  destruct (registered_at_end cf fe fuel cs).
  - destruct Hr as (hr & Hl & _ & _ & _ & Hz). rewrite Hf in Hz. eauto.
  - apply Hr.
Qed.

(** the tree as found: the process always ends with the terminating status, whatever the handler does *)
Theorem final_status_as_found cf fe fuel cs z sf :
  fixed cf = false -> run cf fe fuel cs = Done z sf -> z = terminating_status cf fe fuel cs.
Proof.
  intros Hf H. destruct (run_done _ _ _ _ _ _ H) as (_ & _ & Hr).
  destruct (registered_at_end cf fe fuel cs).
  - destruct Hr as (hr & _ & _ & _ & _ & Hz). rewrite Hf in Hz. exact Hz.
  - apply Hr.
Qed.

(** `trap 'exit 7' EXIT; exit 3` *)
Definition kf_prog : list cmd := [CPipe false (CTrap SExit (Some (CPipe false (CExit (Some 7))))); CPipe false (CExit (Some 3))].

Theorem final_status_refuted : ~ final_status_stmt (mkcfg [] false None).
Proof.
  intros H. specialize (H FeDashC 20%nat kf_prog).
  remember (run (mkcfg [] false None) FeDashC 20 kf_prog) as f eqn:E. vm_compute in E.
  destruct f as [z sf| |]; try discriminate. inversion E; subst.
  specialize (H _ _ eq_refl). vm_compute in H. destruct H as (x & (inner & Hl) & Hz).
  assert (x = Some 7).
  { change (([EvStart SExit 3; EvEnd SExit (Some 7)] : list event) = EvStart SExit 3 :: inner ++ [EvEnd SExit x]) in Hl.
    destruct inner as [|e1 inner]; cbn [app] in Hl.
    - inversion Hl; reflexivity.
    - inversion Hl as [[He Hi]]. destruct inner; discriminate. }
  subst x. discriminate.
Qed.

Lemma handler_exited_app a b : handler_exited (a ++ b) = handler_exited a || handler_exited b.
Proof. unfold handler_exited. apply existsb_app. Qed.

(** outside the known class (no handler run ends in `exit`) the statement holds for the tree as found *)
Theorem final_status_outside_known cf fe fuel cs z sf :
  fixed cf = false -> run cf fe fuel cs = Done z sf -> handler_exited (out sf) = false ->
  let code := terminating_status cf fe fuel cs in
  if registered_at_end cf fe fuel cs
  then exists x, exit_handler_last (body_trace cf fe fuel cs) (out sf) code x
                 /\ z = match x with Some c => c | None => code end
  else z = code.
Proof.
  intros Hf H Hk. destruct (run_done _ _ _ _ _ _ H) as (_ & _ & Hr). cbn zeta.
  destruct (registered_at_end cf fe fuel cs).
  - destruct Hr as (hr & Hl & _ & _ & _ & Hz). rewrite Hf in Hz. exists (exit_of hr). split; [exact Hl|].
    destruct Hl as (inner & Hl). rewrite Hl in Hk.
    rewrite handler_exited_app in Hk. apply orb_false_iff in Hk. destruct Hk as [_ Hk].
    change (EvStart SExit (terminating_status cf fe fuel cs) :: inner ++ [EvEnd SExit (exit_of hr)])
      with ([EvStart SExit (terminating_status cf fe fuel cs)] ++ inner ++ [EvEnd SExit (exit_of hr)]) in Hk.
    rewrite !handler_exited_app in Hk. apply orb_false_iff in Hk. destruct Hk as [_ Hk].
    apply orb_false_iff in Hk. destruct Hk as [_ Hk]. cbn in Hk.
    destruct (exit_of hr); [discriminate | exact Hz].
  - apply Hr.
Qed.

(** `exec` replaces the shell without running the trap *)
Theorem exec_no_trap cf fe fuel cs c s1 :
  run_body cf fe fuel cs init_st = (RExec c, s1) ->
  run cf fe fuel cs = Replaced c s1 /\ count_start SExit (out s1) = 0%nat.
Proof.
  intros E. unfold run. rewrite E. split; [reflexivity|].
  destruct (run_body_inv _ _ _ _ _ _ E) as (Hi & _).
  destruct (Hi ltac:(discriminate)) as [(new & Ho & Hc & _) _].
  rewrite Ho. exact Hc.
Qed.

(** ** non-vacuity: a run in which the EXIT handler is registered, an ERR handler fires inside a
    function, and the program ends through `exit` inside `eval` inside a loop *)
Definition ex_funs : list cmd := [CBrace (CSeq (CPipe false CFalse) (CPipe false (CEval (CPipe false (CExit (Some 4))))))].
Definition ex_prog : list cmd :=
  [CPipe false (CTrap SExit (Some (CSeq (CPipe false (CEcho 1)) (CPipe false CFalse))));
   CPipe false (CTrap SErr (Some (CPipe false (CEcho 2))));
   CPipe false (CSetTrace true);
   CPipe false (CFor 2 (CPipe false (CCall 0)))].

Theorem nonvacuous :
  exists z sf, run (mkcfg ex_funs true None) FeScript 30 ex_prog = Done z sf
    /\ registered_at_end (mkcfg ex_funs true None) FeScript 30 ex_prog = true
    /\ z = 4 /\ count_start SErr (out sf) = 6%nat.
Proof. eexists _, _. vm_compute. repeat split. Qed.
