(** C16 / C18 — executable model of brush's trap, call-stack and scope-stack machinery.

    Mirrors (function by function):
      brush-core/src/shell/traps.rs      on_exit, invoke_trap_handler
      brush-core/src/shell/execution.rs  run_string/run_parsed_result, run_dash_c_command, run_script,
                                         source_file, parse_and_execute_script_file
      brush-core/src/shell/callstack.rs  enter_function/leave_function, start/end_command_string_mode,
                                         start/end_interactive_session, enter/leave_trap_handler
      brush-core/src/callstack.rs        push_* / pop, active_trap_signals, in_function, in_sourced_script
      brush-core/src/env.rs              push_scope / pop_scope, ScopeGuard
      brush-core/src/interp.rs           Program, CompoundList, AndOrList, Pipeline (ERR trap, errexit),
                                         CompoundCommand, If/For/While, SimpleCommand::execute_in_pipeline,
                                         execute_command
      brush-core/src/commands.rs         SimpleCommand::execute*, post_execute, invoke_shell_function
      brush-core/src/error.rs            Error::into_result
      brush-builtins/src/{exit,return_,eval,dot,trap,exec}.rs
      brush-interactive/src/interactive_shell.rs  run_interactively (commands on stdin)
      brush-shell/src/entry.rs           run_in_shell: process status = last_exit_status afterwards *)
From BV Require Import Base.Prelude Traps.Syntax.

Record st := mkst {
  status   : Z;              (* last_exit_status *)
  t_exit   : option cmd;     (* traps.handlers[EXIT] *)
  t_err    : option cmd;     (* traps.handlers[ERR] *)
  a_exit   : bool;           (* EXIT in call_stack.active_trap_signals *)
  a_err    : bool;           (* ERR in call_stack.active_trap_signals *)
  errexit  : bool;           (* options.exit_on_nonzero_command_exit *)
  errtrace : bool;           (* options.shell_functions_inherit_err_trap *)
  frames   : list frame;     (* call_stack.frames, most recent first *)
  scopes   : list scope;     (* env.scopes, most recent first *)
  sub      : nat;            (* Shell.depth : > 0 in a subshell *)
  out      : list event      (* everything observable so far, oldest first *)
}.

Definition init_st : st :=
  mkst 0 None None false false false false [] [ScGlobal] 0 [].

(** Static configuration of a run. *)
Record cfg := mkcfg {
  funs     : list cmd;       (* bodies of the functions f0, f1, … defined by the program's prologue *)
  fixed    : bool;           (* false: the tree as found (a handler's `exit` is dropped);
                                true: with the repair (a handler's `exit` terminates the shell) *)
  maxdepth : option nat      (* options.max_function_call_depth *)
}.

Definition set_status (z : Z) (s : st) : st :=
  mkst z (t_exit s) (t_err s) (a_exit s) (a_err s) (errexit s) (errtrace s) (frames s) (scopes s) (sub s) (out s).
Definition set_trap (g : sig) (h : option cmd) (s : st) : st :=
  match g with
  | SExit => mkst (status s) h (t_err s) (a_exit s) (a_err s) (errexit s) (errtrace s) (frames s) (scopes s) (sub s) (out s)
  | SErr => mkst (status s) (t_exit s) h (a_exit s) (a_err s) (errexit s) (errtrace s) (frames s) (scopes s) (sub s) (out s)
  end.
Definition set_active (g : sig) (b : bool) (s : st) : st :=
  match g with
  | SExit => mkst (status s) (t_exit s) (t_err s) b (a_err s) (errexit s) (errtrace s) (frames s) (scopes s) (sub s) (out s)
  | SErr => mkst (status s) (t_exit s) (t_err s) (a_exit s) b (errexit s) (errtrace s) (frames s) (scopes s) (sub s) (out s)
  end.
Definition set_errexit (b : bool) (s : st) : st :=
  mkst (status s) (t_exit s) (t_err s) (a_exit s) (a_err s) b (errtrace s) (frames s) (scopes s) (sub s) (out s).
Definition set_errtrace (b : bool) (s : st) : st :=
  mkst (status s) (t_exit s) (t_err s) (a_exit s) (a_err s) (errexit s) b (frames s) (scopes s) (sub s) (out s).
Definition set_frames (f : list frame) (s : st) : st :=
  mkst (status s) (t_exit s) (t_err s) (a_exit s) (a_err s) (errexit s) (errtrace s) f (scopes s) (sub s) (out s).
Definition set_scopes (sc : list scope) (s : st) : st :=
  mkst (status s) (t_exit s) (t_err s) (a_exit s) (a_err s) (errexit s) (errtrace s) (frames s) sc (sub s) (out s).
Definition set_out (o : list event) (s : st) : st :=
  mkst (status s) (t_exit s) (t_err s) (a_exit s) (a_err s) (errexit s) (errtrace s) (frames s) (scopes s) (sub s) o.
Definition emit (e : event) (s : st) : st := set_out (out s ++ [e]) s.

Definition get_trap (g : sig) (s : st) : option cmd :=
  match g with SExit => t_exit s | SErr => t_err s end.
Definition get_active (g : sig) (s : st) : bool :=
  match g with SExit => a_exit s | SErr => a_err s end.

(** callstack.rs *)
Definition push_frame (f : frame) (s : st) : st := set_frames (f :: frames s) s.
(** [CallStack::pop]: removes the top frame; a trap-handler frame clears its signal's active mark *)
Definition pop_frame (s : st) : st :=
  match frames s with
  | [] => s
  | FrTrap g :: r => set_active g false (set_frames r s)
  | _ :: r => set_frames r s
  end.
Definition is_function (f : frame) : bool := match f with FrFunction => true | _ => false end.
Definition in_function (s : st) : bool := existsb is_function (frames s).
Definition func_depth (s : st) : nat := length (filter is_function (frames s)).
(** [in_sourced_script]: the most recent *script* frame is a sourced one *)
Fixpoint first_script (l : list frame) : option frame :=
  match l with
  | [] => None
  | FrScriptRun :: _ => Some FrScriptRun
  | FrScriptSource :: _ => Some FrScriptSource
  | _ :: r => first_script r
  end.
Definition in_sourced_script (s : st) : bool :=
  match first_script (frames s) with Some FrScriptSource => true | _ => false end.

(** env.rs *)
Definition push_scope (k : scope) (s : st) : st := set_scopes (k :: scopes s) s.
(** [pop_scope]: pops whatever is on top and reports whether it was the expected kind *)
Definition pop_scope (k : scope) (s : st) : bool * st :=
  match scopes s with
  | [] => (false, s)
  | top :: r => (scope_eqb top k, set_scopes r s)
  end.

Definition u8 (z : Z) : Z := z mod 256.

(** [Error::into_result] for a non-interactive shell *)
Definition into_result (fatal : bool) (code : Z) : res :=
  ROk (if fatal then FExit else FNormal) code.

Definition catch (r : res) : res :=
  match r with RErr fatal code => into_result fatal code | _ => r end.

(** [execute_command] + [SimpleCommand::execute*]: a Command scope is pushed, the command runs,
    [post_execute] pops the scope on every path, and [SimpleCommand::execute_in_pipeline] turns an
    [Err] into a result. *)
Definition with_cmd_scope (s : st) (k : st -> res * st) : res * st :=
  let '(r, s2) := k (push_scope ScCommand s) in
  match r with
  | RFuel | RExec _ => (r, s2)
  | _ => (catch r, snd (pop_scope ScCommand s2))
  end.

Definition is_trap_inherited (g : sig) (s : st) : bool :=
  match g with SErr => errtrace s | SExit => true end.

(** [is_lone_quiet_compound_command]: brace group, if, while/until, for, case (not a subshell) *)
Definition is_quiet_compound (c : cmd) : bool :=
  match c with CBrace _ | CIf _ _ _ | CFor _ _ | CWhile _ _ => true | _ => false end.

Definition is_normal (r : res) : bool := match r with ROk FNormal _ => true | _ => false end.

Section Exec.
  Variable cf : cfg.
  (** the fuel left (bounds the iterations of a `while`) and the interpreter one unit down *)
  Variable fuel : nat.
  Variable ex : bool -> cmd -> st -> res * st.

  (** [CompoundList::execute] for one item: the status is stored after the item *)
  Definition ex_list (sup : bool) (c : cmd) (s : st) : res * st :=
    let '(r, s1) := ex sup c s in
    match r with ROk _ code => (r, set_status code s1) | _ => (r, s1) end.

  (** [Program::execute] (through run_string / run_parsed_result): every complete command is run,
      an [Err] is reported and converted, the status stored, and a non-normal flow stops the program *)
  Fixpoint run_program (sup : bool) (cs : list cmd) (acc : flow * Z) (s : st) : res * st :=
    match cs with
    | [] => (ROk (fst acc) (snd acc), s)
    | c :: cs' =>
        let '(r, s1) := ex_list sup c s in
        match catch r with
        | ROk f code =>
            let s2 := set_status code s1 in
            match f with
            | FNormal => run_program sup cs' (f, code) s2
            | _ => (ROk f code, s2)
            end
        | other => (other, s1)
        end
    end.

  (** [invoke_trap_handler] *)
  Definition invoke (g : sig) (sup : bool) (s : st) : res * st :=
    if get_active g s then (ROk FNormal 0, s)
    else if (in_function s || (0 <? sub s)%nat) && negb (is_trap_inherited g s) then (ROk FNormal 0, s)
    else match get_trap g s with
    | None => (ROk FNormal 0, s)
    | Some h =>
        let orig := status s in
        let s1 := emit (EvStart g orig) (set_active g true (push_frame (FrTrap g) s)) in
        let '(r, s2) := run_program sup [h] (FNormal, 0) s1 in
        match r with
        | RFuel | RExec _ => (r, s2)
        | _ =>
            let s3 := pop_frame s2 in
            let exited := match r with ROk FExit code => Some code | _ => None end in
            let s4 := emit (EvEnd g exited) s3 in
            match r with
            | ROk FExit code => if fixed cf then (r, set_status code s4) else (r, set_status orig s4)
            | _ => (r, set_status orig s4)
            end
        end
    end.

  (** loops; [n] bounds the iterations *)
  Fixpoint for_loop (n : nat) (sup : bool) (b : cmd) (acc : res) (s : st) : res * st :=
    match n with
    | O => (acc, s)
    | S n' =>
        let '(r, s1) := ex_list sup b s in
        match r with
        | ROk FNormal _ => for_loop n' sup b r s1
        | _ => (r, s1)
        end
    end.

  Fixpoint while_loop (n : nat) (sup : bool) (c b : cmd) (acc : res) (s : st) : res * st :=
    match n with
    | O => (RFuel, s)
    | S n' =>
        let '(rc, s1) := ex_list true c s in
        match rc with
        | ROk FNormal code =>
            if code =? 0 then
              let '(r, s2) := ex_list sup b s1 in
              match r with
              | ROk FNormal _ => while_loop n' sup c b r s2
              | _ => (r, s2)
              end
            else (acc, s1)
        | _ => (rc, s1)
        end
    end.

  Definition finish_loop (rs : res * st) : res * st :=
    match fst rs with ROk _ code => (fst rs, set_status code (snd rs)) | _ => rs end.

  (** [enter_function] … [leave_function] around the body ([invoke_shell_function]) *)
  Definition call_function (sup : bool) (body : cmd) (s : st) : res * st :=
    let too_deep := match maxdepth cf with Some m => (m <=? func_depth s)%nat | None => false end in
    if too_deep then (RErr false 1, s)
    else
      let s1 := push_scope ScLocal (push_frame FrFunction s) in
      let '(r, s2) := ex sup body s1 in
      match r with
      | RFuel | RExec _ => (r, s2)
      | _ =>
          (* leave_function: pop_scope(Local)? ; then the frame *)
          let '(okk, s3) := pop_scope ScLocal s2 in
          if negb okk then (RErr false 1, s3)
          else
            let top_is_fn := match frames s3 with f :: _ => is_function f | [] => true end in
            let s4 := pop_frame s3 in
            if negb top_is_fn then (RErr true 1, s4)
            else match r with
                 | ROk FReturn code => (ROk FNormal code, s4)
                 | _ => (r, s4)
                 end
      end.

  Definition step (sup : bool) (c : cmd) (s : st) : res * st :=
    match c with
    | CTrue => with_cmd_scope s (fun s1 => (ROk FNormal 0, s1))
    | CFalse => with_cmd_scope s (fun s1 => (ROk FNormal 1, s1))
    | CNotFound => with_cmd_scope s (fun s1 => (RErr false 127, s1))
    | CEcho tag => with_cmd_scope s (fun s1 => (ROk FNormal 0, emit (EvEcho tag (status s1)) s1))
    | CExit o =>
        with_cmd_scope s (fun s1 =>
          (ROk FExit (match o with Some n => u8 n | None => status s1 end), s1))
    | CReturn o =>
        with_cmd_scope s (fun s1 =>
          if in_function s1 || in_sourced_script s1
          then (ROk FReturn (match o with Some n => u8 n | None => status s1 end), s1)
          else (ROk FNormal 2, s1))
    | CExpErr fatal => (RErr fatal 1, s)
    | CAssignErr fatal =>
        (* ScopeGuard dropped by `?` : the scope is popped, then the Err is caught as for any command *)
        let s1 := push_scope ScCommand s in
        (into_result fatal 1, snd (pop_scope ScCommand s1))
    | CAssignOnlyErr fatal => (RErr fatal 1, s)
    | CRedirFail => (ROk FNormal 1, s)
    | CSetE b => with_cmd_scope s (fun s1 => (ROk FNormal 0, set_errexit b s1))
    | CSetTrace b => with_cmd_scope s (fun s1 => (ROk FNormal 0, set_errtrace b s1))
    | CTrap g h => with_cmd_scope s (fun s1 => (ROk FNormal 0, set_trap g h s1))
    | CCall f =>
        with_cmd_scope s (fun s1 =>
          match nth_error (funs cf) f with
          | None => (RErr false 127, s1)
          | Some body => call_function sup body s1
          end)
    | CEval c => with_cmd_scope s (fun s1 => run_program sup [c] (FNormal, 0) s1)
    | CSource c =>
        with_cmd_scope s (fun s1 =>
          let '(r, s2) := run_program sup [c] (FNormal, 0) (push_frame FrScriptSource s1) in
          match r with
          | RFuel | RExec _ => (r, s2)
          | ROk FReturn code => (ROk FNormal code, pop_frame s2)
          | _ => (r, pop_frame s2)
          end)
    | CSourceMissing => with_cmd_scope s (fun s1 => (RErr false 1, s1))
    | CExec code =>
        if (0 <? sub s)%nat then with_cmd_scope s (fun s1 => (ROk FNormal (u8 code), s1))
        else (RExec (u8 code), s)
    | CBrace c => ex_list sup c s
    | CSub c =>
        let s0 := emit EvSubBegin s in
        let child := mkst (status s0) (t_exit s0) (t_err s0) false false (errexit s0) (errtrace s0)
                          (frames s0) (scopes s0) (S (sub s0)) (out s0) in
        let '(r, s2) := ex_list sup c child in
        let back := emit EvSubEnd (set_out (out s2) s) in
        match r with
        | ROk _ code => (ROk FNormal code, back)
        | RErr _ code => (ROk FNormal code, back)
        | RExec code => (RExec code, s2)
        | RFuel => (RFuel, s2)
        end
    | CIf c t e =>
        let '(rc, s1) := ex_list true c s in
        match rc with
        | ROk FNormal code =>
            if code =? 0 then ex_list sup t s1
            else match e with
                 | Some e' => ex_list sup e' s1
                 | None => (ROk FNormal 0, set_status 0 s1)
                 end
        | _ => (rc, s1)
        end
    | CFor n b => finish_loop (for_loop n sup b (ROk FNormal 0) s)
    | CWhile c b => finish_loop (while_loop fuel sup c b (ROk FNormal 0) s)
    | CPipe bang c =>
        let sup' := sup || bang in
        let '(r, s1) := ex sup' c s in
        match r with
        | ROk f code0 =>
            (* `!` inverts the status, but not the one carried by a return/exit leaving through here *)
            let code := if bang && flow_eqb f FNormal then (if code0 =? 0 then 1 else 0) else code0 in
            let s2 := set_status code s1 in
            let fire := negb (code =? 0) && negb sup' in
            let '(hr, s3) :=
              if fire then match t_err s2 with Some _ => invoke SErr sup' s2 | None => (ROk FNormal 0, s2) end
              else (ROk FNormal 0, s2) in
            (* errexit: never triggered by a lone brace group / if / loop by itself *)
            let f' := if negb sup' && negb (is_quiet_compound c) && errexit s3 && negb (code =? 0) && flow_eqb f FNormal
                      then FExit else f in
            match hr with
            | RFuel | RExec _ => (hr, s3)
            | ROk FExit _ => if fixed cf then (hr, s3) else (ROk f' code, s3)
            | _ => (ROk f' code, s3)
            end
        | _ => (r, s1)
        end
    | CAnd a b =>
        let '(r, s1) := ex true a s in
        match r with
        | ROk FNormal code => if code =? 0 then ex sup b s1 else (r, s1)
        | _ => (r, s1)
        end
    | COr a b =>
        let '(r, s1) := ex true a s in
        match r with
        | ROk FNormal code => if code =? 0 then (r, s1) else ex sup b s1
        | _ => (r, s1)
        end
    | CSeq a b =>
        let '(r, s1) := ex_list sup a s in
        match r with
        | ROk FNormal _ => ex_list sup b s1
        | _ => (r, s1)
        end
    end.
End Exec.

Fixpoint exec (cf : cfg) (fuel : nat) (sup : bool) (c : cmd) (s : st) {struct fuel} : res * st :=
  match fuel with
  | O => (RFuel, s)
  | S fuel' => step cf fuel' (exec cf fuel') sup c s
  end.

(** ** Front-ends *)

Inductive final :=
| Done (status : Z) (s : st)        (* the process ended by itself with this status *)
| Replaced (code : Z) (s : st)      (* `exec`: another program took over and ended with [code] *)
| NoFuel.

Inductive frontend := FeDashC | FeScript | FeStdin.

(** [Shell::on_exit] followed by reading the final status ([run_in_shell]) *)
Definition on_exit_and_status (cf : cfg) (fuel : nat) (s : st) : final :=
  match t_exit s with
  | None => Done (status s) s
  | Some _ =>
      let '(r, s1) := invoke cf (exec cf fuel) SExit false s in
      match r with
      | RFuel => NoFuel
      | RExec code => Replaced code s1
      | _ => Done (status s1) s1
      end
  end.

(** the commands-on-stdin loop: one [run_string] per complete command; only ExitShell leaves
    (at end of input the loop's own result is immaterial: the last status stands for it) *)
Fixpoint stdin_loop (cf : cfg) (fuel : nat) (cs : list cmd) (s : st) : res * st :=
  match cs with
  | [] => (ROk FNormal (status s), s)
  | c :: cs' =>
      let '(r, s1) := run_program (exec cf fuel) false [c] (FNormal, 0) s in
      match r with
      | ROk FExit _ => (r, s1)
      | ROk _ _ => stdin_loop cf fuel cs' s1
      | _ => (r, s1)
      end
  end.

Definition top_frame (fe : frontend) : frame :=
  match fe with FeDashC => FrCommandString | FeScript => FrScriptRun | FeStdin => FrInteractive end.

(** the program proper, inside the front-end's frame *)
Definition run_body (cf : cfg) (fe : frontend) (fuel : nat) (cs : list cmd) (s : st) : res * st :=
  let s0 := push_frame (top_frame fe) s in
  match fe with
  | FeStdin => stdin_loop cf fuel cs s0
  | _ => run_program (exec cf fuel) false cs (FNormal, 0) s0
  end.

(** leaving the front-end's frame: [end_command_string_mode] / [end_interactive_session] check
    the top frame and fail (process status 1, no exit hook) on a mismatch; [source_file] just pops *)
Definition leave_top (fe : frontend) (s : st) : option st :=
  match fe with
  | FeScript => Some (pop_frame s)
  | _ => match frames s with
         | f :: _ => match fe, f with
                     | FeDashC, FrCommandString => Some (pop_frame s)
                     | FeStdin, FrInteractive => Some (pop_frame s)
                     | _, _ => None
                     end
         | [] => None
         end
  end.

Definition run (cf : cfg) (fe : frontend) (fuel : nat) (cs : list cmd) : final :=
  let '(r, s1) := run_body cf fe fuel cs init_st in
  match r with
  | RFuel => NoFuel
  | RExec code => Replaced code s1
  | _ => match leave_top fe s1 with
         | None => Done 1 s1
         | Some s2 => on_exit_and_status cf fuel s2
         end
  end.
