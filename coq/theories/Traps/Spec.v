(** C16 — what the property demands, stated on the trace of a run (declaratively; the model in
    [Model.v] is an interpreter). *)
From BV Require Import Base.Prelude Traps.Syntax Traps.Model.

Definition is_start (g : sig) (e : event) : bool :=
  match e with EvStart g' _ => sig_eqb g g' | _ => false end.

(** number of times the handler of [g] was started *)
Definition count_start (g : sig) (tr : list event) : nat := length (filter (is_start g) tr).

(** ** No re-entry.  A scanner walks the trace with, per shell level (a subshell opens a new
    level), the set of handlers currently running; it fails when a handler starts while the same
    handler is already running at that level, or an end does not match a start. *)
Definition act := (bool * bool)%type.
Definition act_get (g : sig) (a : act) : bool := match g with SExit => fst a | SErr => snd a end.
Definition act_set (g : sig) (b : bool) (a : act) : act :=
  match g with SExit => (b, snd a) | SErr => (fst a, b) end.

Fixpoint scan (stk : list act) (tr : list event) : option (list act) :=
  match tr with
  | [] => Some stk
  | e :: tr' =>
      match e, stk with
      | EvEcho _ _, _ => scan stk tr'
      | EvSubBegin, _ => scan ((false, false) :: stk) tr'
      | EvSubEnd, _ :: r => scan r tr'
      | EvStart g _, a :: r => if act_get g a then None else scan (act_set g true a :: r) tr'
      | EvEnd g _, a :: r => if act_get g a then scan (act_set g false a :: r) tr' else None
      | _, [] => None
      end
  end.

Definition no_reentry (tr : list event) : Prop := scan [(false, false)] tr = Some [(false, false)].

(** ** The EXIT trap: exactly once, last, with the terminating status *)

(** [tr] is [pre] followed by exactly one bracketed run of the EXIT handler, and nothing after it *)
Definition exit_handler_last (pre tr : list event) (seen : Z) (exited : option Z) : Prop :=
  exists inner, tr = pre ++ EvStart SExit seen :: inner ++ [EvEnd SExit exited].

(** some handler run (EXIT or ERR) ended in `exit` : the class of the known finding *)
Definition handler_exited (tr : list event) : bool :=
  existsb (fun e => match e with EvEnd _ (Some _) => true | _ => false end) tr.

