(** C16 / C18 correspondence entries: a program (token stream) in, the observable behaviour out. *)
From Coq Require Import String.
From BV Require Import Base.Prelude Base.Codec Traps.Syntax Traps.Model.

Definition tok (s : string) (t : str) : bool := str_eqb t (lit s).

Definition dec_optZ (t : str) : option Z := if tok "_" t then None else Some (dec_Z t).

(** prefix-notation parser *)
Fixpoint parse (fuel : nat) (ts : list str) : option (cmd * list str) :=
  match fuel with O => None | S fuel =>
  match ts with
  | [] => None
  | t :: r =>
    let one (k : cmd -> cmd) := match parse fuel r with Some (a, r1) => Some (k a, r1) | None => None end in
    let two (k : cmd -> cmd -> cmd) :=
      match parse fuel r with
      | Some (a, r1) => match parse fuel r1 with Some (b, r2) => Some (k a b, r2) | None => None end
      | None => None end in
    if tok "T" t then Some (CTrue, r)
    else if tok "F" t then Some (CFalse, r)
    else if tok "N" t then Some (CNotFound, r)
    else if tok "E" t then match r with n :: r1 => Some (CEcho (Z.to_N (dec_Z n)), r1) | [] => None end
    else if tok "X" t then match r with n :: r1 => Some (CExit (dec_optZ n), r1) | [] => None end
    else if tok "R" t then match r with n :: r1 => Some (CReturn (dec_optZ n), r1) | [] => None end
    else if tok "PF" t then Some (CExpErr true, r)
    else if tok "PN" t then Some (CExpErr false, r)
    else if tok "AF" t then Some (CAssignErr true, r)
    else if tok "AN" t then Some (CAssignErr false, r)
    else if tok "OF" t then Some (CAssignOnlyErr true, r)
    else if tok "ON" t then Some (CAssignOnlyErr false, r)
    else if tok "RF" t then Some (CRedirFail, r)
    else if tok "SE1" t then Some (CSetE true, r)
    else if tok "SE0" t then Some (CSetE false, r)
    else if tok "ST1" t then Some (CSetTrace true, r)
    else if tok "ST0" t then Some (CSetTrace false, r)
    else if tok "TX" t then one (fun a => CTrap SExit (Some a))
    else if tok "TXN" t then Some (CTrap SExit None, r)
    else if tok "TE" t then one (fun a => CTrap SErr (Some a))
    else if tok "TEN" t then Some (CTrap SErr None, r)
    else if tok "C" t then match r with n :: r1 => Some (CCall (dec_nat n), r1) | [] => None end
    else if tok "V" t then one CEval
    else if tok "S" t then one CSource
    else if tok "SM" t then Some (CSourceMissing, r)
    else if tok "XC" t then match r with n :: r1 => Some (CExec (dec_Z n), r1) | [] => None end
    else if tok "B" t then one CBrace
    else if tok "U" t then one CSub
    else if tok "I" t then
      match parse fuel r with
      | Some (a, r1) => match parse fuel r1 with
                        | Some (b, r2) => match parse fuel r2 with
                                          | Some (c, r3) => Some (CIf a b (Some c), r3)
                                          | None => None end
                        | None => None end
      | None => None end
    else if tok "J" t then two (fun a b => CIf a b None)
    else if tok "L" t then
      match r with
      | n :: r1 => match parse fuel r1 with Some (b, r2) => Some (CFor (dec_nat n) b, r2) | None => None end
      | [] => None end
    else if tok "W" t then two CWhile
    else if tok "P" t then one (CPipe false)
    else if tok "Q" t then one (CPipe true)
    else if tok "A" t then two CAnd
    else if tok "O" t then two COr
    else if tok "Z" t then two CSeq
    else None
  end end.

Fixpoint parse_n (n : nat) (ts : list str) : option (list cmd * list str) :=
  match n with
  | O => Some ([], ts)
  | S n' => match parse (S (length ts)) ts with
            | Some (c, r) => match parse_n n' r with Some (cs, r') => Some (c :: cs, r') | None => None end
            | None => None
            end
  end.

Fixpoint parse_all (fuel : nat) (ts : list str) : option (list cmd) :=
  match fuel with O => None | S fuel =>
  match ts with
  | [] => Some []
  | _ => match parse (S (length ts)) ts with
         | Some (c, r) => match parse_all fuel r with Some cs => Some (c :: cs) | None => None end
         | None => None
         end
  end end.

Definition dec_fe (t : str) : frontend :=
  if tok "c" t then FeDashC else if tok "f" t then FeScript else FeStdin.

Fixpoint echoes (tr : list event) : list str :=
  match tr with
  | [] => []
  | EvEcho tag stt :: r => show_Z (Z.of_N tag) :: show_Z stt :: echoes r
  | _ :: r => echoes r
  end.

Definition is_exit_start (e : event) : bool := match e with EvStart SExit _ => true | _ => false end.
Definition is_exited_end (e : event) : bool := match e with EvEnd _ (Some _) => true | _ => false end.

(** args: <frontend c|f|s> <fixed 0|1> <fuel> <nfuns> tokens…
    out : <D|X|NOFUEL|BAD> <status> <exit trap registered when the program proper ended>
          <some handler run ended in `exit`> <number of EXIT handler starts> (tag status)* *)
Definition show_final (reg : bool) (f : final) : list str :=
  match f with
  | Done z s => lit "D" :: show_Z z :: enc_bool reg :: enc_bool (existsb is_exited_end (out s))
                :: enc_nat (length (filter is_exit_start (out s))) :: echoes (out s)
  | Replaced z s => lit "X" :: show_Z z :: enc_bool reg :: enc_bool (existsb is_exited_end (out s))
                :: enc_nat (length (filter is_exit_start (out s))) :: echoes (out s)
  | NoFuel => [lit "NOFUEL"]
  end.

Definition registered_at_end (cf : cfg) (fe : frontend) (fuel : nat) (cs : list cmd) : bool :=
  let '(r, s1) := run_body cf fe fuel cs init_st in
  match t_exit s1 with Some _ => true | None => false end.

Definition entry_c16 (a : list str) : list str :=
  match a with
  | fe :: fx :: fuel :: nf :: ts =>
      match parse_n (dec_nat nf) ts with
      | Some (fs, r) =>
          match parse_all (S (length r)) r with
          | Some cs =>
              let cf := mkcfg fs (dec_bool fx) None in
              show_final (registered_at_end cf (dec_fe fe) (dec_nat fuel) cs)
                         (run cf (dec_fe fe) (dec_nat fuel) cs)
          | None => [lit "BAD"]
          end
      | None => [lit "BAD"]
      end
  | _ => [lit "BAD"]
  end.

(** C18: the in-process session. One [run_string] per complete command on one shell; after each,
    the scope-stack and call-stack depths (and the status).  Stops after ExitShell like a front-end.
    args: <fixed> <fuel> <maxdepth or _> <nfuns> tokens…
    out : (scopes frames status flow)* *)
Definition show_flow (r : res) : str :=
  match r with
  | ROk FNormal _ => lit "n" | ROk FReturn _ => lit "r" | ROk FExit _ => lit "x"
  | RErr _ _ => lit "e" | RExec _ => lit "X" | RFuel => lit "NOFUEL"
  end.

Fixpoint session (cf : cfg) (fuel : nat) (cs : list cmd) (s : st) : list str :=
  match cs with
  | [] => []
  | c :: cs' =>
      let '(r, s1) := run_program (exec cf fuel) false [c] (FNormal, 0) s in
      enc_nat (length (scopes s1)) :: enc_nat (length (frames s1)) :: show_Z (status s1) :: show_flow r ::
      match r with
      | ROk FExit _ | RExec _ | RFuel => []
      | _ => session cf fuel cs' s1
      end
  end.

Definition entry_c18 (a : list str) : list str :=
  match a with
  | fx :: fuel :: md :: nf :: ts =>
      match parse_n (dec_nat nf) ts with
      | Some (fs, r) =>
          match parse_all (S (length r)) r with
          | Some cs =>
              let cf := mkcfg fs (dec_bool fx) (match dec_optZ md with Some z => Some (Z.to_nat z) | None => None end) in
              session cf (dec_nat fuel) cs init_st
          | None => [lit "BAD"]
          end
      | None => [lit "BAD"]
      end
  | _ => [lit "BAD"]
  end.
