(** C16 / C18 — a small command language for the trap / call-stack / scope-stack machinery.

    One inductive type; the layering of brush's AST (compound list > and-or list > pipeline >
    command) is kept by explicit nodes ([CSeq], [CAnd]/[COr], [CPipe], the rest) and the case
    generator only produces properly layered trees.  The semantics in [Model.v] is defined for
    every tree, so the theorems cover more than what is generated. *)
From BV Require Import Base.Prelude.

Inductive sig := SExit | SErr.

Definition sig_eqb (a b : sig) : bool :=
  match a, b with SExit, SExit | SErr, SErr => true | _, _ => false end.

Inductive cmd :=
(* simple commands *)
| CTrue                                   (* `true` *)
| CFalse                                  (* `false` *)
| CNotFound                               (* `no_such_cmd_zz` : status 127 *)
| CEcho (tag : N)                         (* `echo "M<tag> $?"` : the observable marker *)
| CExit (o : option Z)                    (* `exit [n]` *)
| CReturn (o : option Z)                  (* `return [n]` *)
| CExpErr (fatal : bool)                  (* `: ${nope?}` (fatal) / `: $((1/0))` : expansion error in a word *)
| CAssignErr (fatal : bool)               (* `X=${nope?} true` / `X=$((1/0)) true` : error while the
                                             command-scope assignments are applied *)
| CAssignOnlyErr (fatal : bool)           (* `X=${nope?}` / `X=$((1/0))` : assignment-only command *)
| CRedirFail                              (* `true </nonexistent/x` *)
| CSetE (b : bool)                        (* `set -e` / `set +e` *)
| CSetTrace (b : bool)                    (* `set -E` / `set +E` *)
| CTrap (s : sig) (h : option cmd)        (* `trap '<h>' SIG` / `trap - SIG` *)
| CCall (f : nat)                         (* call of the f-th function of the program's table *)
| CEval (c : cmd)                         (* `eval '<c>'` *)
| CSource (c : cmd)                       (* `. file` where file holds <c> *)
| CSourceMissing                          (* `. /nonexistent/file` *)
| CExec (code : Z)                        (* `exec sh -c 'exit <code>'` *)
(* compound commands *)
| CBrace (c : cmd)                        (* `{ c; }` *)
| CSub (c : cmd)                          (* `( c )` *)
| CIf (c t : cmd) (e : option cmd)        (* `if c; then t; [else e;] fi` *)
| CFor (n : nat) (b : cmd)                (* `for i in 1 .. n; do b; done` *)
| CWhile (c b : cmd)                      (* `while c; do b; done` *)
(* structure *)
| CPipe (bang : bool) (c : cmd)           (* a one-command pipeline, optionally `!` *)
| CAnd (a b : cmd)                        (* `a && b` (left nested) *)
| COr (a b : cmd)                         (* `a || b` *)
| CSeq (a b : cmd).                       (* `a; b` *)

(** Control flow requested by a result (brush's [ExecutionControlFlow] without break/continue,
    which the language does not contain). *)
Inductive flow := FNormal | FReturn | FExit.

Definition flow_eqb (a b : flow) : bool :=
  match a, b with FNormal, FNormal | FReturn, FReturn | FExit, FExit => true | _, _ => false end.

(** What an execution step hands back: a result, a Rust [Err] travelling up through `?`, the
    process image replaced by `exec`, or the model's fuel exhausted. *)
Inductive res :=
| ROk (f : flow) (code : Z)
| RErr (fatal : bool) (code : Z)
| RExec (code : Z)
| RFuel.

Inductive frame := FrFunction | FrScriptRun | FrScriptSource | FrTrap (s : sig)
                 | FrCommandString | FrInteractive.
Inductive scope := ScGlobal | ScLocal | ScCommand.

Definition scope_eqb (a b : scope) : bool :=
  match a, b with ScGlobal, ScGlobal | ScLocal, ScLocal | ScCommand, ScCommand => true | _, _ => false end.

(** Trace events.  [EvEcho] is what the marker line prints; the others are ghost events that
    bracket a handler run and a subshell. *)
Inductive event :=
| EvEcho (tag : N) (status : Z)
| EvStart (s : sig) (status : Z)
| EvEnd (s : sig) (exited : option Z)   (* Some n: the handler's own run ended in `exit` with status n *)
| EvSubBegin
| EvSubEnd.
