(** C12 — how `impl Clone for Shell` treats a field (the regenerated table gen/ShellFields.v
    classifies every field of `struct Shell` with one of these). *)
From Coq Require Import String.

Inductive clone_kind :=
| CkClone      (* field: self.field.clone()  and the field's type owns its data *)
| CkCopy       (* field: self.field          (Copy type) *)
| CkFresh      (* a new empty value (jobs::JobManager::new()) *)
| CkIncrement  (* self.depth + 1 *)
| CkCloneAdjust(* cloned, then a documented adjustment on the copy (call_stack: clear_active_trap_signals) *)
| CkShared.    (* the copy aliases the parent's data (Arc/Rc/reference): writes show through *)

Definition clone_kind_eqb (a b : clone_kind) : bool :=
  match a, b with
  | CkClone, CkClone | CkCopy, CkCopy | CkFresh, CkFresh | CkIncrement, CkIncrement
  | CkCloneAdjust, CkCloneAdjust | CkShared, CkShared => true
  | _, _ => false
  end.
